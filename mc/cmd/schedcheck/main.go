//go:build sched
// +build sched

// Command schedcheck is the schedule explorer (E3) for the properties with a
// schedules quantifier (C10, C16). It must be built with the overlay written
// by cmd/overlaygen (the library's sync import and package-level accesses are
// redirected to the cooperative scheduler github.com/brocaar/lorawan/verifsync).
package main

import (
	"encoding/json"
	"flag"
	"fmt"
	"io/ioutil"
	"log"
	"os"
	"sort"
	"strings"
	"sync"
	"time"

	"github.com/brocaar/lorawan"
	"github.com/brocaar/lorawan/airtime"
	"github.com/brocaar/lorawan/applayer/clocksync"
	"github.com/brocaar/lorawan/applayer/multicastsetup"
	"github.com/brocaar/lorawan/backend/joinserver"
	"github.com/brocaar/lorawan/band"
	"github.com/brocaar/lorawan/gps"
	vs "github.com/brocaar/lorawan/verifsync"

	"verifmc/props"
	"verifmc/spec"
)

func main() {
	prop := flag.String("property", "", "C10 | C16")
	tier := flag.String("tier", "quick", "quick | thorough")
	out := flag.String("out", "", "summary file")
	overlayReport := flag.String("overlay-report", "", "report.json of overlaygen")
	freerun := flag.Int("freerun", 0, "run the harness bodies free-running this many times (for a -race build) and exit")
	freshChildFlag := flag.Bool("fresh-child", false, "internal: run one schedule of the first-use scenario in this (fresh) process")
	choices := flag.String("choices", "", "internal: schedule of -fresh-child")
	flag.Parse()
	log.SetOutput(ioutil.Discard)

	if *freshChildFlag {
		freshChild(*choices)
		return
	}

	if *freerun > 0 {
		freeRun(*prop, *freerun)
		return
	}

	sum := props.SchedSummary{Property: *prop, Tier: *tier}
	if *overlayReport != "" {
		if b, err := ioutil.ReadFile(*overlayReport); err == nil {
			var v interface{}
			json.Unmarshal(b, &v)
			sum.Overlay = v
		}
	}
	var results []vs.Result
	switch *prop {
	case "C10":
		results = runC10(*tier, &sum)
	case "C16":
		results = runC16(*tier, &sum)
	case "C14":
		results = runC14(*tier, &sum)
	case "C09":
		results = runC09(*tier, &sum)
	case "C20":
		results = runC20(*tier, &sum)
	case "C07":
		results = runC07(*tier, &sum)
	case "C12", "C13", "C15":
		results = runSharedBand(*prop, *tier, &sum)
	case "C18":
		results = runC18(*tier, &sum)
	default:
		sum.Error = "no schedule scenarios for " + *prop
	}
	for _, r := range results {
		sum.Schedules += uint64(r.Schedules)
		sum.Points += uint64(r.Transitions)
		sc := map[string]interface{}{
			"scenario": r.Scenario, "schedules": r.Schedules, "schedules_by_preemption_bound": r.SchedulesByBnd, "preemption_bound_completed": r.BoundCompleted,
			"budget_exhausted": r.BudgetExhausted, "max_scheduling_points": r.MaxPoints, "scheduling_points_executed": r.Transitions,
			"distinct_outcomes": len(r.Outcomes), "executions_with_interleaving": r.InterleavedRuns,
		}
		sc["names_written_by_some_execution"] = r.WrittenNames
		sc["reads_of_never_written_names_not_scheduled"] = r.SkippedReads
		sc["fixpoint_rounds"] = r.Rounds
		if r.BoundCompleted < 0 {
			delete(sc, "preemption_bound_completed")
			delete(sc, "schedules_by_preemption_bound")
			sc["mode"] = "no preemption bound, state-key pruning"
			sc["all_interleavings_covered"] = r.Unbounded
			sc["distinct_global_states"] = r.States
		}
		if len(r.SampleTrace) > 0 && len(sum.Scenarios) < 3 {
			sc["sample_interleaved_trace"] = r.SampleTrace
		}
		sum.Scenarios = append(sum.Scenarios, sc)
		var keys []string
		for k := range r.Findings {
			keys = append(keys, k)
		}
		sort.Strings(keys)
		for _, k := range keys {
			f := r.Findings[k]
			sum.Findings = append(sum.Findings, props.SchedFinding{Key: f.Key, What: f.What, Scenario: f.Scenario, Choices: f.Choices, Trace: f.Trace, Count: f.Count})
		}
	}
	b, _ := json.MarshalIndent(sum, "", " ")
	if *out != "" {
		ioutil.WriteFile(*out, b, 0o644)
	}
	fmt.Printf("schedule explorer: property=%s scenarios=%d schedules=%d points=%d findings=%d guards_failed=%d\n", *prop, len(sum.Scenarios), sum.Schedules, sum.Points, len(sum.Findings), len(sum.Guards))
}

// ---------------------------------------------------------------- C10

func decodeFOpts(uplink bool, b []byte) string {
	mt := lorawan.UnconfirmedDataDown
	if uplink {
		mt = lorawan.UnconfirmedDataUp
	}
	p := lorawan.PHYPayload{MHDR: lorawan.MHDR{MType: mt}, MACPayload: &lorawan.MACPayload{FHDR: lorawan.FHDR{FOpts: []lorawan.Payload{&lorawan.DataPayload{Bytes: append([]byte(nil), b...)}}}}}
	if err := p.DecodeFOptsToMACCommands(); err != nil {
		return "err:" + err.Error()
	}
	var parts []string
	for _, c := range p.MACPayload.(*lorawan.MACPayload).FHDR.FOpts {
		mc := c.(*lorawan.MACCommand)
		s := fmt.Sprintf("%02x", byte(mc.CID))
		if mc.Payload != nil {
			b, _ := mc.Payload.MarshalBinary()
			s += fmt.Sprintf("{%x}", b)
		}
		parts = append(parts, s)
	}
	return strings.Join(parts, " ")
}

func cryptoOnOwnFrame() string { return cryptoOnFrame(7) }

func cryptoOnFrame(fcnt uint32) string {
	port := uint8(10)
	p := lorawan.PHYPayload{MHDR: lorawan.MHDR{MType: lorawan.ConfirmedDataUp}, MACPayload: &lorawan.MACPayload{
		FHDR:  lorawan.FHDR{DevAddr: lorawan.DevAddr{1, 2, 3, 4}, FCnt: 7, FOpts: []lorawan.Payload{&lorawan.MACCommand{CID: lorawan.LinkCheckReq}}},
		FPort: &port, FRMPayload: []lorawan.Payload{&lorawan.DataPayload{Bytes: []byte{1, 2, 3, 4, 5, 6, 7, 8, 9, 10, 11, 12, 13, 14, 15, 16, 17, 18, 19, 20}}}}}
	k := lorawan.AES128Key{1, 2, 3, 4, 5, 6, 7, 8, 9, 10, 11, 12, 13, 14, 15, 16}
	p.EncryptFRMPayload(k)
	p.SetUplinkDataMIC(lorawan.LoRaWAN1_1, 0, 1, 2, k, k)
	b, _ := p.MarshalBinary()
	ok, _ := p.ValidateUplinkDataMIC(lorawan.LoRaWAN1_1, 0, 1, 2, k, k)
	// FOpts encryption and a join-accept through MIC, encryption and decryption with a thread-specific key
	q := lorawan.PHYPayload{MHDR: lorawan.MHDR{MType: lorawan.UnconfirmedDataDown}, MACPayload: &lorawan.MACPayload{
		FHDR: lorawan.FHDR{DevAddr: lorawan.DevAddr{1, 2, 3, 4}, FCnt: fcnt, FOpts: []lorawan.Payload{&lorawan.MACCommand{CID: lorawan.DevStatusReq}}}}}
	q.EncryptFOpts(k)
	qb, _ := q.MarshalBinary()
	jk := k
	jk[0] = byte(fcnt)
	ja := lorawan.PHYPayload{MHDR: lorawan.MHDR{MType: lorawan.JoinAccept}, MACPayload: &lorawan.JoinAcceptPayload{JoinNonce: lorawan.JoinNonce(fcnt & 0xFFFFFF), HomeNetID: lorawan.NetID{1, 2, 3}, DevAddr: lorawan.DevAddr{1, 2, 3, 4}, RXDelay: 1}}
	ja.SetDownlinkJoinMIC(lorawan.JoinRequestType, lorawan.EUI64{1}, 7, jk)
	ja.EncryptJoinAcceptPayload(jk)
	jb, _ := ja.MarshalBinary()
	derr := ja.DecryptJoinAcceptPayload(jk)
	jok, _ := ja.ValidateDownlinkJoinMIC(lorawan.JoinRequestType, lorawan.EUI64{1}, 7, jk)
	return fmt.Sprintf("%x/%v/%x/%x/%v/%v", b, ok, qb, jb, derr, jok)
}

func c10Threads() []vs.Thread {
	return []vs.Thread{
		{Name: "T1-register", Body: func() {
			err := lorawan.RegisterProprietaryMACCommand(true, 0x80, 2)
			vs.Observe(fmt.Sprint(err))
		}},
		{Name: "T2-decode-uplink", Body: func() { vs.Observe(decodeFOpts(true, []byte{0x80, 0xaa, 0xbb, 0x02})) }},
		{Name: "T3-lookup-then-decode-downlink", Body: func() {
			_, size, err := lorawan.GetMACPayloadAndSize(true, 0x80)
			vs.Observe(fmt.Sprintf("size=%d,err=%v", size, err != nil))
			vs.Observe(decodeFOpts(false, []byte{0x02, 0x14, 0x03, 0x80}))
		}},
		{Name: "T4-crypto-own-frame", Body: func() { vs.Observe(cryptoOnOwnFrame()) }},
		{Name: "T5-crypto-other-frame", Body: func() { vs.Observe(cryptoOnFrame(0x10008)) }},
	}
}

func runC10(tier string, sum *props.SchedSummary) []vs.Result {
	wantCrypto := cryptoOnOwnFrame()
	wantCrypto5 := cryptoOnFrame(0x10008)
	before, after := "80 aa bb 02", "80{aabb} 02"
	sawBefore, sawAfter, sawMid := false, false, false
	sc := vs.Scenario{
		Name:    "registry: register || decode uplink || lookup+decode downlink || crypto",
		Setup:   func() { lorawan.VerifRegistryReset() },
		Threads: c10Threads,
		Check: func(x *vs.Execution) []vs.Problem {
			var out []vs.Problem
			t2 := strings.Join(x.Obs["T2-decode-uplink"], "|")
			switch t2 {
			case before:
				sawBefore = true
			case after:
				sawAfter = true
			default:
				out = append(out, vs.Problem{Key: "registry/decode-not-linearizable", What: fmt.Sprintf("decoding 80 aa bb 02 concurrently with the registration of CID 0x80 (size 2) gave %q; every linearisation gives %q or %q", t2, before, after)})
			}
			t3 := x.Obs["T3-lookup-then-decode-downlink"]
			if len(t3) != 2 || (t3[0] != "size=0,err=true" && t3[0] != "size=2,err=false") || t3[1] != "02{1403} 80" {
				out = append(out, vs.Problem{Key: "registry/lookup-not-linearizable", What: fmt.Sprintf("lookup/downlink decode observed %q", t3)})
			}
			if t1 := x.Obs["T1-register"]; len(t1) != 1 || t1[0] != "<nil>" {
				out = append(out, vs.Problem{Key: "registry/register-result", What: fmt.Sprintf("registration returned %q", t1)})
			}
			if t4 := x.Obs["T4-crypto-own-frame"]; len(t4) != 1 || t4[0] != wantCrypto {
				out = append(out, vs.Problem{Key: "crypto/result-depends-on-schedule", What: fmt.Sprintf("MIC/encrypt on a thread-private frame gave %q under this schedule, %q alone", t4, wantCrypto)})
			}
			if t5 := x.Obs["T5-crypto-other-frame"]; len(t5) != 1 || t5[0] != wantCrypto5 {
				out = append(out, vs.Problem{Key: "crypto/result-depends-on-schedule", What: fmt.Sprintf("MIC/encrypt on a thread-private frame gave %q under this schedule, %q alone", t5, wantCrypto5)})
			}
			// did the registration land between two lookups of the decoder?
			first, last, reg := -1, -1, -1
			for i, l := range x.Trace {
				if strings.HasPrefix(l, "T2-decode-uplink: read macPayloadRegistry") {
					if first < 0 {
						first = i
					}
					last = i
				}
				if strings.HasPrefix(l, "T1-register: write macPayloadRegistry") {
					reg = i
				}
			}
			if reg > first && reg < last && first >= 0 {
				sawMid = true
			}
			return out
		},
	}
	bound, budget := 3, 200000
	if tier == "thorough" {
		bound, budget = 5, 1000000
	}
	// two closed sub-scenarios of the same bodies keep every bound complete:
	// A = the three registry threads, B = the registration with the two crypto threads
	all := c10Threads
	scA, scB := sc, sc
	scA.Name = "registry: register || decode uplink (80 aa bb 02) || lookup + decode downlink"
	scA.Threads = func() []vs.Thread { t := all(); return t[:3] }
	scB.Name = "crypto on thread-private frames x2 || register"
	scB.Threads = func() []vs.Thread { t := all(); return []vs.Thread{t[0], t[3], t[4]} }
	full := sc.Check
	scA.Check = func(x *vs.Execution) []vs.Problem {
		x.Obs["T4-crypto-own-frame"], x.Obs["T5-crypto-other-frame"] = []string{wantCrypto}, []string{wantCrypto5}
		return full(x)
	}
	scB.Check = func(x *vs.Execution) []vs.Problem {
		x.Obs["T2-decode-uplink"], x.Obs["T3-lookup-then-decode-downlink"] = []string{before}, []string{"size=0,err=true", "02{1403} 80"}
		sb, sa := sawBefore, sawAfter
		out := full(x)
		sawBefore, sawAfter = sb, sa
		return out
	}
	res := vs.Explore(scA, bound, budget)
	resB := vs.Explore(scB, bound, budget)
	if !(sawBefore && sawAfter) {
		sum.Guards = append(sum.Guards, "C10: both decoder outcomes (before / after the registration) must be observed")
	}
	if !sawMid {
		sum.Guards = append(sum.Guards, "C10: a schedule in which the registration lands between two registry lookups of the decoder must be explored")
	}
	// the application-layer registries are read-only: two concurrent decoders
	sc2 := vs.Scenario{
		Name:  "application-layer registries: two concurrent decoders",
		Setup: func() {},
		Threads: func() []vs.Thread {
			return []vs.Thread{
				{Name: "A-clocksync", Body: func() {
					var c clocksync.Commands
					err := c.UnmarshalBinary(true, []byte{0x00, 1, 2, 0x01, 1, 2, 3, 4, 0x15})
					vs.Observe(fmt.Sprintf("%d/%v", len(c), err))
				}},
				{Name: "B-multicast", Body: func() {
					var c multicastsetup.Commands
					err := c.UnmarshalBinary(true, []byte{0x02, 0x05, 0x03, 0x01})
					vs.Observe(fmt.Sprintf("%d/%v", len(c), err))
				}},
			}
		},
		Check: func(x *vs.Execution) []vs.Problem {
			if a, b := x.Obs["A-clocksync"], x.Obs["B-multicast"]; len(a) != 1 || a[0] != "2/<nil>" || len(b) != 1 || b[0] != "2/<nil>" {
				return []vs.Problem{{Key: "applayer/result-depends-on-schedule", What: fmt.Sprintf("%v %v", a, b)}}
			}
			return nil
		},
	}
	res2 := vs.Explore(sc2, bound, budget)
	// band objects from separate configuration calls: each thread configures and mutates its own instance
	bandBody := func(name band.Name, add uint32) func() {
		return func() {
			b, err := band.GetConfig(name, false, lorawan.DwellTimeNoLimit)
			if err != nil {
				vs.Observe("err")
				return
			}
			b.AddChannel(add, 0, 5)
			b.DisableUplinkChannelIndex(1)
			s, _ := band.VerifSnapshot(b)
			vs.Observe(fmt.Sprintf("%v/%v/%d", b.GetEnabledUplinkChannelIndices(), b.GetCFList(band.LoRaWAN_1_0_3) != nil, len(s.UplinkChannels)))
			pls := b.GetLinkADRReqPayloadsForEnabledUplinkChannelIndices([]int{0, 1, 2})
			vs.Observe(fmt.Sprint(len(pls)))
		}
	}
	var wantBand []string
	{
		rec := []string{}
		for _, f := range []func(){bandBody(band.EU868, 867100000), bandBody(band.EU868, 867300000), bandBody(band.US915, 0)} {
			_ = f
		}
		_ = rec
	}
	sc3 := vs.Scenario{
		Name:  "band instances: two EU868 and one US915 configuration used by three threads",
		Setup: func() {},
		Threads: func() []vs.Thread {
			return []vs.Thread{{Name: "B1-eu868", Body: bandBody(band.EU868, 867100000)}, {Name: "B2-eu868", Body: bandBody(band.EU868, 867300000)}, {Name: "B3-us915", Body: bandBody(band.US915, 0)}}
		},
		Check: func(x *vs.Execution) []vs.Problem {
			got := fmt.Sprint(x.Obs["B1-eu868"], x.Obs["B2-eu868"], x.Obs["B3-us915"])
			if wantBand == nil {
				wantBand = []string{got}
				return nil
			}
			if got != wantBand[0] {
				return []vs.Problem{{Key: "band/result-depends-on-schedule", What: fmt.Sprintf("band observations %s under this schedule, %s under the first one", got, wantBand[0])}}
			}
			return nil
		},
	}
	res3 := vs.Explore(sc3, bound, budget)
	for _, r := range []vs.Result{res, resB} {
		if r.BoundCompleted < 2 {
			sum.Guards = append(sum.Guards, fmt.Sprintf("C10: scenario %q completed only preemption bound %d", r.Scenario, r.BoundCompleted))
		}
	}
	// keys that no earlier call of the process has used (a cache of expanded keys, filled by the
	// harness's own reference computations, would otherwise only ever be read): each execution
	// takes two fresh keys; the oracle is the specification's key-stream and the involution
	execNo := 0
	freshBody := func(slot byte) func() {
		return func() {
			k := lorawan.AES128Key{0xF0 | slot, byte(execNo), byte(execNo >> 8), byte(execNo >> 16), 5, 6, 7, 8, 9, 10, 11, 12, 13, 14, 15, 16}
			pt := []byte{1, 2, 3, 4, 5, 6, 7, 8, 9, 10, 11, 12, 13, 14, 15, 16, 17, 18, 19, 20}
			ct, err := lorawan.EncryptFRMPayload(k, true, lorawan.DevAddr{1, 2, 3, 4}, 7, append([]byte(nil), pt...))
			want := spec.XOR(pt, spec.Keystream(k[:], true, 0x01020304, 7, len(pt)))
			back, err2 := lorawan.EncryptFRMPayload(k, true, lorawan.DevAddr{1, 2, 3, 4}, 7, append([]byte(nil), ct...))
			fo, err3 := lorawan.EncryptFOpts(k, false, true, lorawan.DevAddr{1, 2, 3, 4}, 7, []byte{2, 6})
			fo2, _ := lorawan.EncryptFOpts(k, false, true, lorawan.DevAddr{1, 2, 3, 4}, 7, append([]byte(nil), fo...))
			vs.Observe(fmt.Sprintf("keystream=%v involution=%v fopts=%v errs=%v%v%v", string(ct) == string(want), string(back) == string(pt), string(fo2) == "\x02\x06", err != nil, err2 != nil, err3 != nil))
		}
	}
	scF := vs.Scenario{
		Name:  "crypto with keys first used in this execution x2 || register",
		Setup: func() { lorawan.VerifRegistryReset(); execNo++ },
		Threads: func() []vs.Thread {
			return []vs.Thread{all()[0], {Name: "F1-fresh-key", Body: freshBody(1)}, {Name: "F2-fresh-key", Body: freshBody(2)}}
		},
		Check: func(x *vs.Execution) []vs.Problem {
			var ps []vs.Problem
			for _, n := range []string{"F1-fresh-key", "F2-fresh-key"} {
				if o := x.Obs[n]; len(o) != 1 || o[0] != "keystream=true involution=true fopts=true errs=falsefalsefalse" {
					ps = append(ps, vs.Problem{Key: "crypto/result-depends-on-schedule", What: fmt.Sprintf("%s observed %v", n, o)})
				}
			}
			return ps
		},
	}
	resF := vs.Explore(scF, bound, budget)
	// the legal registration that registers nothing (size 0) next to a real registration and a decoder
	scZ := vs.Scenario{
		Name:  "registry: register size 0 || register size 2 || decode uplink (81 aa bb 02)",
		Setup: func() { lorawan.VerifRegistryReset() },
		Threads: func() []vs.Thread {
			return []vs.Thread{
				{Name: "Z1-register-size-0", Body: func() { vs.Observe(fmt.Sprint(lorawan.RegisterProprietaryMACCommand(true, 0x80, 0))) }},
				{Name: "Z2-register-size-2", Body: func() { vs.Observe(fmt.Sprint(lorawan.RegisterProprietaryMACCommand(true, 0x81, 2))) }},
				{Name: "Z3-decode-uplink", Body: func() { vs.Observe(decodeFOpts(true, []byte{0x81, 0xaa, 0xbb, 0x02})) }},
			}
		},
		Check: func(x *vs.Execution) []vs.Problem {
			var ps []vs.Problem
			if a, b := x.Obs["Z1-register-size-0"], x.Obs["Z2-register-size-2"]; len(a) != 1 || a[0] != "<nil>" || len(b) != 1 || b[0] != "<nil>" {
				ps = append(ps, vs.Problem{Key: "registry/register-result", What: fmt.Sprintf("registrations returned %q %q", a, b)})
			}
			if d := strings.Join(x.Obs["Z3-decode-uplink"], "|"); d != "81 aa bb 02" && d != "81{aabb} 02" {
				ps = append(ps, vs.Problem{Key: "registry/decode-not-linearizable", What: fmt.Sprintf("decoding 81 aa bb 02 concurrently with the registrations gave %q", d)})
			}
			return ps
		},
	}
	resZ := vs.Explore(scZ, bound, budget)
	// two registrations of different (direction, CID) pairs at the same time, next to a decoder: both are
	// in the registry afterwards (a copy-on-write table that clones a snapshot taken before the lock loses one)
	scY := c07RegistrationScenario()
	resY := vs.Explore(scY, bound, budget)
	out := []vs.Result{res, resB, res2, res3, resF, resZ, resY}
	// the first calls of two threads in a process that has not used the library yet, one process per
	// schedule (what is built lazily on first use is built once per process)
	fb, fbudget := 1, 400
	if tier == "thorough" {
		fb, fbudget = 2, 6000
	}
	resU, errU := exploreFresh(fb, fbudget)
	if errU != "" {
		sum.Guards = append(sum.Guards, "C10: "+errU)
	}
	out = append(out, resU)
	// every interleaving (no preemption bound) with state-key pruning, for the result oracles
	allBudget := 30000
	if tier == "thorough" {
		allBudget = 2000000
	}
	for _, s := range []vs.Scenario{scA, scB, sc2, sc3, scF, scZ, scY} {
		s.Name += " [all interleavings]"
		out = append(out, vs.ExploreAll(s, allBudget))
	}
	return out
}

// c07RegistrationScenario: two registrations of different (direction, CID) pairs at the same time, next to
// a decoder; both registrations are in the registry afterwards (C07: "all histories of proprietary
// registrations" - a history of two overlapping calls is one; C10: the calls are independent).
func c07RegistrationScenario() vs.Scenario {
	return vs.Scenario{
		Name:  "registry: register (up,82,2) || register (down,83,3) || decode uplink (82 aa bb 02)",
		Setup: func() { lorawan.VerifRegistryReset() },
		Threads: func() []vs.Thread {
			return []vs.Thread{
				{Name: "Y1-register-up-82", Body: func() { vs.Observe(fmt.Sprint(lorawan.RegisterProprietaryMACCommand(true, 0x82, 2))) }},
				{Name: "Y2-register-down-83", Body: func() { vs.Observe(fmt.Sprint(lorawan.RegisterProprietaryMACCommand(false, 0x83, 3))) }},
				{Name: "Y3-decode-uplink", Body: func() { vs.Observe(decodeFOpts(true, []byte{0x82, 0xaa, 0xbb, 0x02})) }},
			}
		},
		Check: func(x *vs.Execution) []vs.Problem {
			var ps []vs.Problem
			if a, b := x.Obs["Y1-register-up-82"], x.Obs["Y2-register-down-83"]; len(a) != 1 || a[0] != "<nil>" || len(b) != 1 || b[0] != "<nil>" {
				ps = append(ps, vs.Problem{Key: "registry/register-result", What: fmt.Sprintf("registrations returned %q %q", a, b)})
			}
			if d := strings.Join(x.Obs["Y3-decode-uplink"], "|"); d != "82 aa bb 02" && d != "82{aabb} 02" {
				ps = append(ps, vs.Problem{Key: "registry/decode-not-linearizable", What: fmt.Sprintf("decoding 82 aa bb 02 concurrently with the registrations gave %q", d)})
			}
			_, s1, e1 := lorawan.GetMACPayloadAndSize(true, 0x82)
			_, s2, e2 := lorawan.GetMACPayloadAndSize(false, 0x83)
			if e1 != nil || e2 != nil || s1 != 2 || s2 != 3 {
				ps = append(ps, vs.Problem{Key: "registry/registration-lost", What: fmt.Sprintf("after both registrations returned nil the registry has (up,82): size %d err %v, (down,83): size %d err %v", s1, e1, s2, e2)})
			}
			return ps
		},
	}
}

func runC07(tier string, sum *props.SchedSummary) []vs.Result {
	bound, budget := 3, 200000
	if tier == "thorough" {
		bound, budget = 5, 1000000
	}
	sc := c07RegistrationScenario()
	res := vs.Explore(sc, bound, budget)
	all := sc
	all.Name += " [all interleavings]"
	allBudget := 30000
	if tier == "thorough" {
		allBudget = 2000000
	}
	return []vs.Result{res, vs.ExploreAll(all, allBudget)}
}

// ---------------------------------------------------------------- C16

func c16Kinds() []props.C16Case {
	base := func(dev int) props.C16Case {
		return props.C16Case{NwkKey: props.C16KeysNwk[dev], AppKey: props.C16KeysApp[dev], DevEUI: props.C16EUIs[dev], Known: true, JoinEUI: props.C16EUIs[2], Nonce: uint16(0x1000 + dev),
			NetID: [3]byte{0x01, 0x02, 0x03}, DevAddr: uint32(0x01020300 + dev), DL: 0x23, RxDelay: 1, JoinNonce: 0x010203 + dev, MICFlip: -1, TxID: uint32(100 + dev)}
	}
	mk := func(dev int, f func(k *props.C16Case)) props.C16Case { k := base(dev); f(&k); return k }
	return []props.C16Case{
		mk(0, func(k *props.C16Case) {}),                                       // join 1.0
		mk(0, func(k *props.C16Case) { k.DL |= 0x80 }),                         // join 1.1
		mk(0, func(k *props.C16Case) { k.Kind = 1; k.DL |= 0x80 }),             // rejoin 0
		mk(0, func(k *props.C16Case) { k.Known = false; k.DevEUI[7] ^= 0x55 }), // unknown device
		mk(0, func(k *props.C16Case) { k.MICFlip = 9 }),                        // bad MIC
	}
}

func runC16(tier string, sum *props.SchedSummary) []vs.Result {
	joinserver.VerifYield = func(stage int) { vs.Yield(fmt.Sprintf("task-%d", stage)) }
	kinds := c16Kinds()
	names := []string{"join-1.0", "join-1.1", "rejoin-0", "unknown-device", "bad-mic"}
	var results []vs.Result
	bound, budget := 3, 20000
	if tier == "thorough" {
		bound, budget = 5, 60000
	}
	seen := map[string]bool{}
	interleavedAll := true
	for i := range kinds {
		for j := range kinds {
			a, b := kinds[i], kinds[j]
			// the second request comes from another device (its own keys, nonce, address and transaction id)
			b.NwkKey, b.AppKey = props.C16KeysNwk[1], props.C16KeysApp[1]
			if b.Known {
				b.DevEUI = props.C16EUIs[1]
			}
			b.Nonce, b.DevAddr, b.JoinNonce, b.TxID = 0x2001, 0x0A0B0C0D, 0x0F0E0D, 200
			cases := []props.C16Case{a, b}
			_, aloneA := props.C16Serve(props.C16Handler(cases, nil), a)
			_, aloneB := props.C16Serve(props.C16Handler(cases, nil), b)
			sc := vs.Scenario{
				Name:  "joinserver: " + names[i] + " || " + names[j],
				Setup: func() {},
				Threads: func() []vs.Thread {
					h := props.C16Handler(cases, func(s string) { vs.Yield(s) })
					return []vs.Thread{
						{Name: "A", Body: func() { _, body := props.C16Serve(h, a); vs.Observe(string(body)) }},
						{Name: "B", Body: func() { _, body := props.C16Serve(h, b); vs.Observe(string(body)) }},
					}
				},
				Check: func(x *vs.Execution) []vs.Problem {
					var out []vs.Problem
					if o := x.Obs["A"]; len(o) != 1 || o[0] != string(aloneA) {
						out = append(out, vs.Problem{Key: "joinserver/response-depends-on-concurrent-request", What: fmt.Sprintf("request %s answered %q while %s was in flight, %q alone", names[i], o, names[j], aloneA)})
					}
					if o := x.Obs["B"]; len(o) != 1 || o[0] != string(aloneB) {
						out = append(out, vs.Problem{Key: "joinserver/response-depends-on-concurrent-request", What: fmt.Sprintf("request %s answered %q while %s was in flight, %q alone", names[j], o, names[i], aloneB)})
					}
					for _, o := range []string{string(aloneA), string(aloneB)} {
						for _, rc := range []string{"Success", "MICFailed", "UnknownDevEUI"} {
							if strings.Contains(o, `"ResultCode":"`+rc+`"`) {
								seen[rc] = true
							}
						}
					}
					return out
				},
			}
			r := vs.Explore(sc, bound, budget)
			if r.InterleavedRuns == 0 {
				interleavedAll = false
			}
			results = append(results, r)
			sc.Name += " [all interleavings]"
			results = append(results, vs.ExploreAll(sc, budget))
		}
	}
	// three concurrent requests (join 1.0, join 1.1 from a second device, rejoin from the first) with a preemption bound
	{
		a, b, d := kinds[0], kinds[1], kinds[2]
		b.NwkKey, b.AppKey, b.DevEUI = props.C16KeysNwk[1], props.C16KeysApp[1], props.C16EUIs[1]
		b.Nonce, b.DevAddr, b.JoinNonce, b.TxID = 0x2001, 0x0A0B0C0D, 0x0F0E0D, 200
		d.Nonce, d.TxID = 0x3001, 300
		cases := []props.C16Case{a, b, d}
		alone := make([]string, 3)
		for i, k := range cases {
			_, body := props.C16Serve(props.C16Handler(cases, nil), k)
			alone[i] = string(body)
		}
		sc := vs.Scenario{
			Name:  "joinserver: join-1.0 || join-1.1 (other device) || rejoin-0",
			Setup: func() {},
			Threads: func() []vs.Thread {
				h := props.C16Handler(cases, func(s string) { vs.Yield(s) })
				var ts []vs.Thread
				for i := range cases {
					k := cases[i]
					ts = append(ts, vs.Thread{Name: fmt.Sprintf("R%d", i), Body: func() { _, body := props.C16Serve(h, k); vs.Observe(string(body)) }})
				}
				return ts
			},
			Check: func(x *vs.Execution) []vs.Problem {
				var out []vs.Problem
				for i := range cases {
					if o := x.Obs[fmt.Sprintf("R%d", i)]; len(o) != 1 || o[0] != alone[i] {
						out = append(out, vs.Problem{Key: "joinserver/response-depends-on-concurrent-request", What: fmt.Sprintf("request %d answered %q with two other requests in flight, %q alone", i, o, alone[i])})
					}
				}
				return out
			},
		}
		b3 := 2
		if tier == "thorough" {
			b3 = 3
		}
		results = append(results, vs.Explore(sc, b3, budget*5))
		sc.Name += " [all interleavings]"
		results = append(results, vs.ExploreAll(sc, budget*5))
	}
	if !interleavedAll {
		sum.Guards = append(sum.Guards, "C16: every request pair needs at least one schedule with interleaved task stages")
	}
	for _, rc := range []string{"Success", "MICFailed", "UnknownDevEUI"} {
		if !seen[rc] {
			sum.Guards = append(sum.Guards, "C16: result code "+rc+" not observed in the schedule scenarios")
		}
	}
	return results
}

// ---------------------------------------------------------------- C09

// runC09: the MAC-command decoders return (value or error) while proprietary
// commands are being registered: no schedule may leave a decoder blocked.
func runC09(tier string, sum *props.SchedSummary) []vs.Result {
	budget := 200000
	sc := vs.Scenario{
		Name:  "decoders return under concurrent registration: register x2 || decode FOpts (uplink) || decode FRMPayload port 0 (downlink)",
		Setup: func() { lorawan.VerifRegistryReset() },
		Threads: func() []vs.Thread {
			return []vs.Thread{
				{Name: "T1-register", Body: func() {
					e1 := lorawan.RegisterProprietaryMACCommand(true, lorawan.CID(0x80), 2)
					e2 := lorawan.RegisterProprietaryMACCommand(false, lorawan.CID(0x81), 1)
					vs.Observe(fmt.Sprintf("registered %v %v", e1, e2))
				}},
				{Name: "T2-decode-fopts", Body: func() {
					vs.Observe("returned: " + decodeFOpts(true, []byte{0x02, 0x80, 0xaa, 0xbb, 0x02, 0x06, 0x64, 0x05}))
				}},
				{Name: "T3-decode-frmpayload", Body: func() {
					port := uint8(0)
					p := lorawan.PHYPayload{MHDR: lorawan.MHDR{MType: lorawan.UnconfirmedDataDown}, MACPayload: &lorawan.MACPayload{FPort: &port,
						FRMPayload: []lorawan.Payload{&lorawan.DataPayload{Bytes: []byte{0x02, 0x14, 0x03, 0x81, 0x07, 0x06}}}}}
					err := p.DecodeFRMPayloadToMACCommands()
					vs.Observe(fmt.Sprintf("returned: %d commands, err=%v", len(p.MACPayload.(*lorawan.MACPayload).FRMPayload), err != nil))
				}},
			}
		},
		Check: func(x *vs.Execution) []vs.Problem {
			var ps []vs.Problem
			for _, n := range []string{"T1-register", "T2-decode-fopts", "T3-decode-frmpayload"} {
				if len(x.Obs[n]) != 1 {
					ps = append(ps, vs.Problem{Key: "decoder-does-not-return", What: fmt.Sprintf("thread %s did not return (observations %v)", n, x.Obs[n])})
				}
			}
			return ps
		},
	}
	bound := 3
	if tier == "thorough" {
		bound = 5
		budget = 1000000
	}
	r1 := vs.Explore(sc, bound, budget)
	sc.Name += " [all interleavings]"
	r2 := vs.ExploreAll(sc, budget)
	if r1.BoundCompleted < 2 {
		sum.Guards = append(sum.Guards, fmt.Sprintf("C09: scenario completed only preemption bound %d", r1.BoundCompleted))
	}
	return []vs.Result{r1, r2}
}

// ---------------------------------------------------------------- C20

// runC20: the pure conversion functions called from several threads at once,
// starting from a fresh process (the first calls of a process are the ones a
// lazily built table would race on). Expected values are published constants.
func runC20(tier string, sum *props.SchedSummary) []vs.Result {
	type pair struct {
		gpsSeconds int64
		utc        string
	}
	known := []pair{{0, "1980-01-06T00:00:00Z"}, {630720013, "2000-01-01T00:00:00Z"}, {1167264018, "2017-01-01T00:00:00Z"}}
	body := func(k pair) func() {
		return func() {
			u := time.Time(gps.NewTimeFromTimeSinceGPSEpoch(time.Duration(k.gpsSeconds) * time.Second))
			tt, _ := time.Parse(time.RFC3339, k.utc)
			d := gps.Time(tt).TimeSinceGPSEpoch()
			at, err := airtime.CalculateLoRaAirtime(13, 12, 125, 8, airtime.CodingRate45, true, true)
			vs.Observe(fmt.Sprintf("%s %d %v %v", u.UTC().Format(time.RFC3339), int64(d/time.Second), at, err))
		}
	}
	want := func(k pair) string {
		return fmt.Sprintf("%s %d %v %v", k.utc, k.gpsSeconds, 1155072*time.Microsecond, nil)
	}
	sc := vs.Scenario{
		Name:  "GPS time conversions and airtime from three threads (first calls of the process included)",
		Setup: func() {},
		Threads: func() []vs.Thread {
			var ts []vs.Thread
			for i, k := range known {
				ts = append(ts, vs.Thread{Name: fmt.Sprintf("T%d", i+1), Body: body(k)})
			}
			return ts
		},
		Check: func(x *vs.Execution) []vs.Problem {
			var ps []vs.Problem
			for i, k := range known {
				if o := x.Obs[fmt.Sprintf("T%d", i+1)]; len(o) != 1 || o[0] != want(k) {
					ps = append(ps, vs.Problem{Key: "conversion/result-depends-on-schedule", What: fmt.Sprintf("thread %d observed %q, published values give %q", i+1, o, want(k))})
				}
			}
			return ps
		},
	}
	budget := 200000
	bound := 3
	if tier == "thorough" {
		bound, budget = 5, 1000000
	}
	r1 := vs.Explore(sc, bound, budget)
	sc.Name += " [all interleavings]"
	r2 := vs.ExploreAll(sc, budget)
	return []vs.Result{r1, r2}
}

// ---------------------------------------------------------------- C14

// c14Shared: one band object per execution, used by several threads through its
// read-only operations (a network server plans LinkADRReq for many devices from
// one band configuration).
type c14Shared struct {
	name    band.Name
	prepare func(b band.Band)
	devices [][]int
}

func c14Scenarios() []c14Shared {
	seq := func(from, to int) []int {
		var o []int
		for i := from; i < to; i++ {
			o = append(o, i)
		}
		return o
	}
	return []c14Shared{
		{band.CN470, func(b band.Band) {
			for i := 8; i < 96; i++ {
				b.DisableUplinkChannelIndex(i)
			}
		}, [][]int{seq(0, 96), append(seq(0, 8), seq(40, 48)...), append(seq(0, 8), seq(80, 96)...)}},
		{band.US915, func(b band.Band) {
			for i := 0; i < 72; i++ {
				if i/8 != 1 && i != 65 {
					b.DisableUplinkChannelIndex(i)
				}
			}
		}, [][]int{seq(0, 72), append(seq(8, 16), 65), seq(16, 40)}},
		{band.EU868, func(b band.Band) {
			b.AddChannel(867100000, 0, 5)
			b.AddChannel(867300000, 0, 5)
			b.AddChannel(867500000, 0, 5)
		}, [][]int{{0, 1, 2}, {0, 1, 2, 3, 4, 5}, {0, 2, 4}}},
	}
}

func c14Plan(b band.Band, dev []int) string {
	pls := b.GetLinkADRReqPayloadsForEnabledUplinkChannelIndices(append([]int(nil), dev...))
	got, err := b.GetEnabledUplinkChannelIndicesForLinkADRReqPayloads(append([]int(nil), dev...), pls)
	return fmt.Sprintf("%+v -> %v (%v) enabled=%v", pls, got, err, b.GetEnabledUplinkChannelIndices())
}

func runC14(tier string, sum *props.SchedSummary) []vs.Result {
	var out []vs.Result
	budget := 200000
	if tier == "thorough" {
		budget = 2000000
	}
	for _, sh := range c14Scenarios() {
		sh := sh
		mk := func() band.Band {
			b, err := band.GetConfig(sh.name, false, lorawan.DwellTimeNoLimit)
			if err != nil {
				panic(err)
			}
			sh.prepare(b)
			return b
		}
		want := make([]string, len(sh.devices))
		for i, d := range sh.devices {
			want[i] = c14Plan(mk(), d)
		}
		sc := vs.Scenario{
			Name:  fmt.Sprintf("one shared %s band object: LinkADRReq planning for %d devices from %d threads", sh.name, len(sh.devices), len(sh.devices)),
			Setup: func() {},
			Threads: func() []vs.Thread {
				b := mk()
				var ts []vs.Thread
				for i := range sh.devices {
					i := i
					ts = append(ts, vs.Thread{Name: fmt.Sprintf("device-%d", i), Body: func() { vs.Observe(c14Plan(b, sh.devices[i])) }})
				}
				return ts
			},
			Check: func(x *vs.Execution) []vs.Problem {
				var ps []vs.Problem
				for i := range sh.devices {
					if o := x.Obs[fmt.Sprintf("device-%d", i)]; len(o) != 1 || o[0] != want[i] {
						ps = append(ps, vs.Problem{Key: "planner/result-depends-on-concurrent-planning", What: fmt.Sprintf("%s, device %v: planned %q while other devices were planned on the same band object, %q alone", sh.name, sh.devices[i], o, want[i])})
					}
				}
				return ps
			},
		}
		bound := 2
		if tier == "thorough" {
			bound = 3
		}
		out = append(out, vs.Explore(sc, bound, budget))
		sc.Name += " [all interleavings]"
		out = append(out, vs.ExploreAll(sc, budget))
	}
	return out
}

// ---------------------------------------------------------------- free-running pass (for -race builds)

func freeRun(prop string, n int) {
	joinserver.VerifYield = nil
	var wg sync.WaitGroup
	for it := 0; it < n; it++ {
		var bodies []func()
		switch prop {
		case "C10":
			lorawan.VerifRegistryReset()
			for _, t := range c10Threads() {
				bodies = append(bodies, t.Body)
			}
			bodies = append(bodies, func() { lorawan.RegisterProprietaryMACCommand(true, 0x80, 0) }, func() { lorawan.RegisterProprietaryMACCommand(false, 0x81, 0) })
		case "C14":
			for _, sh := range c14Scenarios() {
				sh := sh
				b, _ := band.GetConfig(sh.name, false, lorawan.DwellTimeNoLimit)
				sh.prepare(b)
				for _, d := range sh.devices {
					d := d
					bodies = append(bodies, func() { c14Plan(b, d) })
				}
			}
		case "C20":
			for i := int64(0); i < 3; i++ {
				i := i
				bodies = append(bodies, func() {
					gps.NewTimeFromTimeSinceGPSEpoch(time.Duration(1167264018+i) * time.Second)
					gps.Time(time.Unix(1483228800+i, 0)).TimeSinceGPSEpoch()
					airtime.CalculateLoRaAirtime(13, 12, 125, 8, airtime.CodingRate48, i%2 == 0, true)
				})
			}
		case "C12", "C13", "C15":
			for _, sh := range sharedBandScenarios(prop) {
				sh := sh
				b, _ := band.GetConfig(sh.name, false, lorawan.DwellTimeNoLimit)
				if sh.prep != nil {
					sh.prep(b)
				}
				for _, f := range sh.calls {
					f := f
					bodies = append(bodies, func() { f(b) })
				}
			}
		case "C16":
			kinds := c16Kinds()
			h := props.C16Handler(kinds, nil)
			for i := range kinds {
				k := kinds[i]
				bodies = append(bodies, func() { props.C16Serve(h, k) })
			}
		}
		for _, b := range bodies {
			b := b
			wg.Add(1)
			go func() { defer wg.Done(); b() }()
		}
		wg.Wait()
	}
	fmt.Printf("free-running pass: property=%s iterations=%d completed\n", prop, n)
	os.Exit(0)
}

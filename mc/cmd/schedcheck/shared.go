package main

import (
	"fmt"

	"github.com/brocaar/lorawan"
	"github.com/brocaar/lorawan/applayer/multicastsetup"
	"github.com/brocaar/lorawan/band"

	vs "github.com/brocaar/lorawan/verifsync"
	"verifmc/props"
)

// One configured band object used by several threads through its read-only accessors (a network
// server answers the uplinks of many devices from one band configuration), and key derivations for
// several groups at once: every thread's answers are the ones it gets alone on an object of its own.
// The object is new in every execution, so the first calls on it are part of every schedule.

type sharedReader struct {
	what  string
	name  band.Name
	prep  func(b band.Band)
	calls []func(b band.Band) string // one per thread
}

func sharedBandScenarios(prop string) []sharedReader {
	us := func(i int) uint32 { return 902300000 + uint32(i)*200000 }
	switch prop {
	case "C12":
		rx1 := func(i int) func(b band.Band) string {
			return func(b band.Band) string {
				f, err1 := b.GetRX1FrequencyForUplinkFrequency(us(i))
				ch, err2 := b.GetRX1ChannelIndexForUplinkChannelIndex(i)
				dr, err3 := b.GetRX1DataRateIndex(i%4, i%3)
				return fmt.Sprintf("%d %v %d %v %d %v", f, err1, ch, err2, dr, err3)
			}
		}
		eu := func(f uint32, dr, off int) func(b band.Band) string {
			return func(b band.Band) string {
				g, err1 := b.GetRX1FrequencyForUplinkFrequency(f)
				d, err2 := b.GetRX1DataRateIndex(dr, off)
				p, err3 := b.GetPingSlotFrequency(lorawan.DevAddr{1, 2, 3, byte(dr)}, 0)
				return fmt.Sprintf("%d %v %d %v %d %v", g, err1, d, err2, p, err3)
			}
		}
		return []sharedReader{
			{"RX1 frequency / channel / data-rate", band.US915, nil, []func(band.Band) string{rx1(3), rx1(21), rx1(63)}},
			{"RX1 frequency / data-rate, ping-slot frequency", band.EU868, func(b band.Band) { b.AddChannel(867100000, 0, 5) }, []func(band.Band) string{eu(868100000, 5, 0), eu(867100000, 2, 3), eu(868500000, 0, 5)}},
			{"RX1 frequency / channel / data-rate", band.CN470, nil, []func(band.Band) string{rx1(0), rx1(1)}},
		}
	case "C13":
		look := func(up bool, sf, bw, dr int) func(b band.Band) string {
			return func(b band.Band) string {
				i, err1 := b.GetDataRateIndex(up, band.DataRate{Modulation: band.LoRaModulation, SpreadFactor: sf, Bandwidth: bw})
				d, err2 := b.GetDataRate(dr)
				m, err3 := b.GetMaxPayloadSizeForDataRateIndex("1.0.3", "A", dr)
				return fmt.Sprintf("%d %v %+v %v %+v %v", i, err1, d, err2, m, err3)
			}
		}
		return []sharedReader{
			{"data-rate lookups by parameters and index, max payload size", band.EU868, nil, []func(band.Band) string{look(true, 12, 125, 0), look(true, 10, 125, 2), look(false, 7, 250, 6)}},
			{"data-rate lookups by parameters and index, max payload size", band.US915, nil, []func(band.Band) string{look(true, 10, 125, 0), look(false, 12, 500, 8)}},
		}
	case "C15":
		idx := func(f uint32, dr int) func(b band.Band) string {
			return func(b band.Band) string {
				i, err1 := b.GetUplinkChannelIndex(f, true)
				j, err2 := b.GetUplinkChannelIndexForFrequencyDR(f, dr)
				en := b.GetEnabledUplinkChannelIndices()
				return fmt.Sprintf("%d %v %d %v %d", i, err1, j, err2, len(en))
			}
		}
		return []sharedReader{
			{"channel lookups by frequency and frequency + data-rate", band.US915, nil, []func(band.Band) string{idx(us(3), 0), idx(us(21), 3), idx(us(49), 2)}},
			{"channel lookups by frequency and frequency + data-rate", band.EU868, func(b band.Band) { b.AddChannel(867100000, 0, 5); b.AddChannel(867300000, 0, 5) }, []func(band.Band) string{idx(868100000, 0), idx(867300000, 5)}},
		}
	}
	return nil
}

func runSharedBand(prop, tier string, sum *props.SchedSummary) []vs.Result {
	var out []vs.Result
	budget, bound := 200000, 2
	if tier == "thorough" {
		budget, bound = 2000000, 3
	}
	for _, sh := range sharedBandScenarios(prop) {
		sh := sh
		mk := func() band.Band {
			b, err := band.GetConfig(sh.name, false, lorawan.DwellTimeNoLimit)
			if err != nil {
				panic(err)
			}
			if sh.prep != nil {
				sh.prep(b)
			}
			return b
		}
		want := make([]string, len(sh.calls))
		for i, f := range sh.calls {
			want[i] = f(mk())
		}
		sc := vs.Scenario{
			Name:  fmt.Sprintf("one shared %s band object (new in every execution): %s from %d threads", sh.name, sh.what, len(sh.calls)),
			Setup: func() {},
			Threads: func() []vs.Thread {
				b := mk()
				var ts []vs.Thread
				for i := range sh.calls {
					i := i
					ts = append(ts, vs.Thread{Name: fmt.Sprintf("reader-%d", i), Body: func() { vs.Observe(sh.calls[i](b)) }})
				}
				return ts
			},
			Check: func(x *vs.Execution) []vs.Problem {
				var ps []vs.Problem
				for i := range sh.calls {
					if o := x.Obs[fmt.Sprintf("reader-%d", i)]; len(o) != 1 || o[0] != want[i] {
						ps = append(ps, vs.Problem{Key: "shared-band/answer-depends-on-concurrent-reader", What: fmt.Sprintf("%s, reader %d: answers %q while other threads read the same band object, %q alone", sh.name, i, o, want[i])})
					}
				}
				return ps
			},
		}
		out = append(out, vs.Explore(sc, bound, budget))
		sc.Name += " [all interleavings]"
		out = append(out, vs.ExploreAll(sc, budget))
	}
	return out
}

// runC18: multicast key derivations for several groups at once.
func runC18(tier string, sum *props.SchedSummary) []vs.Result {
	type grp struct {
		key  lorawan.AES128Key
		addr lorawan.DevAddr
	}
	groups := []grp{
		{lorawan.AES128Key{1, 2, 3, 4, 5, 6, 7, 8, 9, 10, 11, 12, 13, 14, 15, 16}, lorawan.DevAddr{1, 2, 3, 4}},
		{lorawan.AES128Key{16, 15, 14, 13, 12, 11, 10, 9, 8, 7, 6, 5, 4, 3, 2, 1}, lorawan.DevAddr{0xFF, 0xFE, 0xFD, 0xFC}},
		{lorawan.AES128Key{0xA5}, lorawan.DevAddr{0, 0, 0, 1}},
	}
	derive := func(g grp) string {
		a, err1 := multicastsetup.GetMcAppSKey(g.key, g.addr)
		n, err2 := multicastsetup.GetMcNetSKey(g.key, g.addr)
		r, err3 := multicastsetup.GetMcRootKeyForAppKey(g.key)
		k, err4 := multicastsetup.GetMcKEKey(g.key)
		return fmt.Sprintf("%x %v %x %v %x %v %x %v", a[:], err1, n[:], err2, r[:], err3, k[:], err4)
	}
	want := make([]string, len(groups))
	for i, g := range groups {
		want[i] = derive(g)
	}
	sc := vs.Scenario{
		Name:  "multicast key derivations (McAppSKey, McNetSKey, McRootKey, McKEKey) for three groups from three threads",
		Setup: func() {},
		Threads: func() []vs.Thread {
			var ts []vs.Thread
			for i := range groups {
				i := i
				ts = append(ts, vs.Thread{Name: fmt.Sprintf("group-%d", i), Body: func() { vs.Observe(derive(groups[i])) }})
			}
			return ts
		},
		Check: func(x *vs.Execution) []vs.Problem {
			var ps []vs.Problem
			for i := range groups {
				if o := x.Obs[fmt.Sprintf("group-%d", i)]; len(o) != 1 || o[0] != want[i] {
					ps = append(ps, vs.Problem{Key: "multicast-keys/result-depends-on-concurrent-derivation", What: fmt.Sprintf("group %d: derived %q while other groups' keys were derived, %q alone", i, o, want[i])})
				}
			}
			return ps
		},
	}
	budget, bound := 200000, 3
	if tier == "thorough" {
		budget, bound = 1000000, 5
	}
	r1 := vs.Explore(sc, bound, budget)
	sc.Name += " [all interleavings]"
	r2 := vs.ExploreAll(sc, budget)
	return []vs.Result{r1, r2}
}

//go:build sched
// +build sched

package main

import (
	"bytes"
	"encoding/hex"
	"encoding/json"
	"fmt"
	"os"
	"os/exec"
	"strconv"
	"strings"
	"time"

	"github.com/brocaar/lorawan"
	"github.com/brocaar/lorawan/airtime"
	"github.com/brocaar/lorawan/applayer/clocksync"
	"github.com/brocaar/lorawan/applayer/fragmentation"
	"github.com/brocaar/lorawan/applayer/multicastsetup"
	"github.com/brocaar/lorawan/backend"
	"github.com/brocaar/lorawan/band"
	"github.com/brocaar/lorawan/gps"
	vs "github.com/brocaar/lorawan/verifsync"
)

// The fresh-process mode: every schedule of the scenario runs in a process of its own, so that each
// of them meets the library as a process first meets it (package-level state that is built lazily on
// first use exists, inside one process, only before the first execution of an exploration).

// firstUse is the basket of first calls a thread makes: one observation per call family.
func firstUse(variant int) []func() string {
	v := byte(variant)
	return []func() string{
		func() string {
			var e lorawan.EUI64
			var d lorawan.DevAddr
			var n lorawan.NetID
			var k lorawan.AES128Key
			e1 := e.UnmarshalText([]byte(hex.EncodeToString([]byte{0xF0 | v, 2, 3, 4, 5, 6, 7, 0xFE})))
			e2 := d.UnmarshalText([]byte(hex.EncodeToString([]byte{0xE0 | v, 0xAB, 0xCD, 0xEF})))
			e3 := n.UnmarshalText([]byte(hex.EncodeToString([]byte{0xC0 | v, 0xFF, 0xEE})))
			e4 := k.UnmarshalText([]byte(strings.Repeat(hex.EncodeToString([]byte{0xA0 | v}), 16)))
			t, _ := e.MarshalText()
			return fmt.Sprintf("ids %x %x %x %x %v%v%v%v %s", e[:], d[:], n[:], k[:], e1, e2, e3, e4, t)
		},
		func() string {
			var p lorawan.PHYPayload
			err := p.UnmarshalBinary([]byte{0x40, 4, 3, 2, 1, 0x03, v, 0, 0x02, 0x07, 0x01, 10, 0x51, 0x52, 0xA1, 0xA2, 0xA3, 0xA4})
			err2 := p.DecodeFOptsToMACCommands()
			b, err3 := p.MarshalBinary()
			return fmt.Sprintf("frame %x %v %v %v", b, err, err2, err3)
		},
		func() string {
			k := lorawan.AES128Key{v, 2, 3, 4, 5, 6, 7, 8, 9, 10, 11, 12, 13, 14, 15, 16}
			ct, err := lorawan.EncryptFRMPayload(k, true, lorawan.DevAddr{1, 2, 3, 4}, 7, []byte{1, 2, 3, 4, 5, 6, 7, 8, 9, 10, 11, 12, 13, 14, 15, 16, 17})
			port := uint8(1)
			p := lorawan.PHYPayload{MHDR: lorawan.MHDR{MType: lorawan.UnconfirmedDataUp}, MACPayload: &lorawan.MACPayload{FHDR: lorawan.FHDR{DevAddr: lorawan.DevAddr{1, 2, 3, v}}, FPort: &port}}
			err2 := p.SetUplinkDataMIC(lorawan.LoRaWAN1_1, 0, 1, 2, k, k)
			return fmt.Sprintf("crypto %x %v %x %v", ct, err, p.MIC[:], err2)
		},
		func() string {
			b, err := band.GetConfig(band.EU868, variant == 1, lorawan.DwellTimeNoLimit)
			if err != nil {
				return "band err"
			}
			dr, err2 := b.GetRX1DataRateIndex(5, variant)
			f, err3 := b.GetPingSlotFrequency(lorawan.DevAddr{1, 2, 3, v}, 0)
			ps, err4 := b.GetMaxPayloadSizeForDataRateIndex("", "", 3)
			return fmt.Sprintf("band %d %v %d %v %+v %v %v", dr, err2, f, err3, ps, err4, b.GetCFList(band.LoRaWAN_1_0_3) == nil)
		},
		func() string {
			d := gps.Time(time.Date(2017, 1, 1, 0, 0, variant, 0, time.UTC)).TimeSinceGPSEpoch()
			back := time.Time(gps.NewTimeFromTimeSinceGPSEpoch(d)).UTC()
			at, err := airtime.CalculateLoRaAirtime(10+variant, 9, 125, 8, airtime.CodingRate45, true, false)
			return fmt.Sprintf("time %d %s %d %v %d", d, back.Format(time.RFC3339), at, err, lorawan.GetTXParamSetupEIRPIndex(float32(20+variant)))
		},
		func() string {
			fr, err := fragmentation.Encode([]byte{1, 2, 3, 4, 5, 6, 7, 8, 9, 10, v, 12}, 3, 4)
			var cs clocksync.Commands
			err2 := cs.UnmarshalBinary(true, []byte{0x01, 1, 2, 3, 4, v})
			k, err3 := multicastsetup.GetMcKEKey(lorawan.AES128Key{v})
			return fmt.Sprintf("applayer %x %v %d %v %x %v", fr, err, len(cs), err2, k[:], err3)
		},
		func() string {
			j, err := json.Marshal(backend.HEXBytes{v, 0xAB})
			env, err2 := backend.NewKeyEnvelope("lbl", bytes.Repeat([]byte{v + 1}, 16), lorawan.AES128Key{9, v})
			var key lorawan.AES128Key
			var err3 error
			if env != nil {
				key, err3 = env.Unwrap(bytes.Repeat([]byte{v + 1}, 16))
			}
			return fmt.Sprintf("backend %s %v %v %x %v", j, err, err2, key[:], err3)
		},
	}
}

func firstUseScenario(expected [2][]string) vs.Scenario {
	return vs.Scenario{
		Name:  "first use of the library in a process: two threads make their first calls at the same time [one process per schedule]",
		Setup: func() {},
		Threads: func() []vs.Thread {
			mk := func(variant int) func() {
				return func() {
					for _, f := range firstUse(variant) {
						vs.Observe(f())
					}
				}
			}
			return []vs.Thread{{Name: "U1-first-calls", Body: mk(0)}, {Name: "U2-first-calls", Body: mk(1)}}
		},
		Check: func(x *vs.Execution) []vs.Problem {
			var ps []vs.Problem
			for t, name := range []string{"U1-first-calls", "U2-first-calls"} {
				got := x.Obs[name]
				for i, want := range expected[t] {
					if i >= len(got) || got[i] != want {
						g := "(missing)"
						if i < len(got) {
							g = got[i]
						}
						ps = append(ps, vs.Problem{Key: "first-use/result-depends-on-schedule/" + strings.SplitN(want, " ", 2)[0], What: fmt.Sprintf("%s: %q as its first calls in a fresh process under this schedule, %q alone", name, g, want)})
					}
				}
			}
			return ps
		},
	}
}

// freshChild runs one schedule (this process has not used the library before) and prints the execution.
func freshChild(choices string) {
	var known struct{ Written, Shared []string }
	json.Unmarshal([]byte(os.Getenv("VERIF_FRESH_KNOWN")), &known)
	vs.SetKnownState(known.Written, known.Shared)
	var prefix []int
	for _, f := range strings.Split(choices, ",") {
		if f != "" {
			n, _ := strconv.Atoi(f)
			prefix = append(prefix, n)
		}
	}
	x := vs.Replay(firstUseScenario([2][]string{}), prefix)
	x.Keys = nil
	b, _ := json.Marshal(x)
	os.Stdout.Write(b)
}

// exploreFresh explores the first-use scenario with one child process per schedule.
func exploreFresh(bound, budget int) (vs.Result, string) {
	// what each thread observes alone (computed here, in a process that may have used the library already)
	var expected [2][]string
	for t := 0; t < 2; t++ {
		for _, f := range firstUse(t) {
			expected[t] = append(expected[t], f())
		}
	}
	sc := firstUseScenario(expected)
	childErr := ""
	vs.Runner = func(_ vs.Scenario, prefix []int) *vs.Execution {
		var parts []string
		for _, c := range prefix {
			parts = append(parts, strconv.Itoa(c))
		}
		w, s := vs.KnownState()
		kb, _ := json.Marshal(map[string][]string{"Written": w, "Shared": s})
		cmd := exec.Command(os.Args[0], "-fresh-child", "-choices", strings.Join(parts, ","))
		cmd.Env = append(os.Environ(), "VERIF_FRESH_KNOWN="+string(kb))
		var out, errb bytes.Buffer
		cmd.Stdout, cmd.Stderr = &out, &errb
		x := &vs.Execution{}
		if err := cmd.Run(); err != nil {
			// a child that dies is an execution that ended in a crash of the library
			tail := errb.String()
			if len(tail) > 400 {
				tail = tail[:400]
			}
			x.Panics = append(x.Panics, fmt.Sprintf("the process running this schedule ended abnormally: %v: %s", err, strings.Replace(tail, "\n", " | ", -1)))
			x.Obs = map[string][]string{}
			return x
		}
		if err := json.Unmarshal(out.Bytes(), x); err != nil {
			childErr = fmt.Sprintf("fresh-process child: unreadable output: %v", err)
			x.Obs = map[string][]string{}
		}
		return x
	}
	defer func() { vs.Runner = nil }()
	res := vs.Explore(sc, bound, budget)
	return res, childErr
}

// Command overlaygen writes a `go build -overlay` description that, without
// touching /repo, (1) adds the package github.com/brocaar/lorawan/verifsync
// (source: /verif/mc/schedrt), (2) rewrites the import "sync" of the given
// library packages to that package and (3) inserts verifsync.Access(name,
// isWrite) before every statement that mentions a package-level variable which
// is written anywhere in the package outside its declaration.
//
//	overlaygen -repo /repo -rt /verif/mc/schedrt -out <dir> <pkgdir>...
package main

import (
	"bytes"
	"encoding/json"
	"flag"
	"fmt"
	"go/ast"
	"go/format"
	"go/parser"
	"go/token"
	"io/ioutil"
	"os"
	"path/filepath"
	"sort"
	"strconv"
	"strings"
)

const rtPath = "github.com/brocaar/lorawan/verifsync"

func main() {
	repo := flag.String("repo", "/repo", "repository root")
	rt := flag.String("rt", "", "directory with the verifsync runtime source")
	out := flag.String("out", "", "output directory (generated files and overlay.json)")
	recv := flag.String("recv", "band", "comma-separated package directories whose pointer-receiver methods get field-level probes")
	flag.Parse()
	recvPkgs := map[string]bool{}
	for _, p := range strings.Split(*recv, ",") {
		if p != "" {
			recvPkgs[p] = true
		}
	}
	if *rt == "" || *out == "" {
		fmt.Fprintln(os.Stderr, "usage: overlaygen -rt dir -out dir pkgdir...")
		os.Exit(2)
	}
	replace := map[string]string{}
	// the runtime package
	files, _ := filepath.Glob(filepath.Join(*rt, "*.go"))
	for _, f := range files {
		if strings.HasSuffix(f, "_test.go") {
			continue
		}
		replace[filepath.Join(*repo, "verifsync", filepath.Base(f))] = f
	}
	report := map[string]interface{}{}
	for _, rel := range flag.Args() {
		dir := filepath.Join(*repo, rel)
		instr, err := instrument(dir, filepath.Join(*out, strings.Replace(rel, "/", "_", -1)), recvPkgs[rel])
		if err != nil {
			fmt.Fprintf(os.Stderr, "overlaygen: %s: %v\n", rel, err)
			os.Exit(1)
		}
		for src, gen := range instr.files {
			replace[src] = gen
		}
		report[rel] = map[string]interface{}{"written_vars": instr.written, "sync_vars": instr.syncVars, "access_points": instr.points, "files_rewritten": len(instr.files), "written_receiver_fields": instr.fields, "field_access_points": instr.fieldPoints}
	}
	ov, _ := json.MarshalIndent(map[string]interface{}{"Replace": replace}, "", " ")
	if err := ioutil.WriteFile(filepath.Join(*out, "overlay.json"), ov, 0o644); err != nil {
		fmt.Fprintln(os.Stderr, err)
		os.Exit(1)
	}
	rp, _ := json.MarshalIndent(report, "", " ")
	ioutil.WriteFile(filepath.Join(*out, "report.json"), rp, 0o644)
	fmt.Println(string(rp))
}

type result struct {
	files       map[string]string
	written     []string
	syncVars    []string
	points      int
	fields      []string
	fieldPoints int
}

func instrument(dir, outDir string, recvFields bool) (*result, error) {
	fset := token.NewFileSet()
	entries, err := ioutil.ReadDir(dir)
	if err != nil {
		return nil, err
	}
	type pf struct {
		path string
		file *ast.File
	}
	var files []pf
	for _, e := range entries {
		n := e.Name()
		if e.IsDir() || !strings.HasSuffix(n, ".go") || strings.HasSuffix(n, "_test.go") {
			continue
		}
		f, err := parser.ParseFile(fset, filepath.Join(dir, n), nil, parser.ParseComments)
		if err != nil {
			return nil, err
		}
		files = append(files, pf{filepath.Join(dir, n), f})
	}
	// package-level variables; those of a sync type are the shim's business
	globals := map[string]*ast.ValueSpec{}
	syncVar := map[string]bool{}
	for _, f := range files {
		for _, d := range f.file.Decls {
			gd, ok := d.(*ast.GenDecl)
			if !ok || gd.Tok != token.VAR {
				continue
			}
			for _, s := range gd.Specs {
				vs := s.(*ast.ValueSpec)
				for _, n := range vs.Names {
					if n.Name == "_" {
						continue
					}
					globals[n.Name] = vs
					if se, ok := vs.Type.(*ast.SelectorExpr); ok {
						if x, ok := se.X.(*ast.Ident); ok && x.Name == "sync" {
							syncVar[n.Name] = true
						}
					}
				}
			}
		}
	}
	isGlobal := func(id *ast.Ident) bool {
		vs, ok := globals[id.Name]
		if !ok || syncVar[id.Name] {
			return false
		}
		if id.Obj == nil {
			return true // unresolved in this file: package scope (declared in another file)
		}
		if spec, ok := id.Obj.Decl.(*ast.ValueSpec); ok && spec == vs {
			return true
		}
		return false // shadowed by a local declaration
	}
	// pass 1: which globals are written in function bodies
	written := map[string]bool{}
	for _, f := range files {
		for _, d := range f.file.Decls {
			fd, ok := d.(*ast.FuncDecl)
			if !ok || fd.Body == nil {
				continue
			}
			al := aliasesOf(fd.Body, isGlobal)
			ast.Inspect(fd.Body, func(n ast.Node) bool {
				for _, id := range writtenRoots(n) {
					if isGlobal(id) {
						written[id.Name] = true
					} else if g, ok := al[id.Name]; ok {
						written[g] = true
					}
				}
				return true
			})
		}
	}
	// receiver fields written by some pointer-receiver method ("T.f")
	writtenFields := map[string]bool{}
	if recvFields {
		for _, f := range files {
			for _, d := range f.file.Decls {
				fd, ok := d.(*ast.FuncDecl)
				if !ok || fd.Body == nil {
					continue
				}
				rn, _ := ptrReceiver(fd)
				if rn == nil {
					continue
				}
				fa := fieldAliasesOf(fd.Body, rn)
				ast.Inspect(fd.Body, func(n ast.Node) bool {
					for _, fld := range writtenFieldsOf(n, rn, fa) {
						writtenFields[fld] = true
					}
					return true
				})
			}
		}
	}
	res := &result{files: map[string]string{}}
	for n := range writtenFields {
		res.fields = append(res.fields, n)
	}
	sort.Strings(res.fields)
	for n := range written {
		res.written = append(res.written, n)
	}
	for n := range syncVar {
		res.syncVars = append(res.syncVars, n)
	}
	sort.Strings(res.written)
	sort.Strings(res.syncVars)
	os.MkdirAll(outDir, 0o755)
	// pass 2: rewrite
	for _, f := range files {
		changed := false
		usesSync := false
		for _, imp := range f.file.Imports {
			if imp.Path.Value == strconv.Quote("sync") {
				imp.Path.Value = strconv.Quote(rtPath)
				if imp.Name == nil {
					imp.Name = ast.NewIdent("sync")
				}
				changed, usesSync = true, true
			}
		}
		_ = usesSync
		needRT := false
		for _, d := range f.file.Decls {
			fd, ok := d.(*ast.FuncDecl)
			if !ok || fd.Body == nil {
				continue
			}
			al := aliasesOf(fd.Body, isGlobal)
			resolve := func(id *ast.Ident) string {
				if isGlobal(id) {
					return id.Name
				}
				if g, ok := al[id.Name]; ok && (id.Obj == nil || id.Obj.Kind == ast.Var) {
					return g
				}
				return ""
			}
			n := instrumentBlock(fd.Body, written, resolve)
			if n > 0 {
				res.points += n
				needRT, changed = true, true
			}
			if rn, tn := ptrReceiver(fd); recvFields && rn != nil {
				k := instrumentFields(fd.Body, rn, tn, writtenFields, fieldAliasesOf(fd.Body, rn))
				if k > 0 {
					res.fieldPoints += k
					needRT, changed = true, true
				}
			}
		}
		if needRT {
			addImport(f.file, "verifsyncrt", rtPath)
		}
		if !changed {
			continue
		}
		var buf bytes.Buffer
		if err := format.Node(&buf, fset, f.file); err != nil {
			return nil, err
		}
		gen := filepath.Join(outDir, filepath.Base(f.path))
		if err := ioutil.WriteFile(gen, buf.Bytes(), 0o644); err != nil {
			return nil, err
		}
		res.files[f.path] = gen
	}
	return res, nil
}

func addImport(f *ast.File, name, path string) {
	spec := &ast.ImportSpec{Name: ast.NewIdent(name), Path: &ast.BasicLit{Kind: token.STRING, Value: strconv.Quote(path)}}
	decl := &ast.GenDecl{Tok: token.IMPORT, Specs: []ast.Spec{spec}}
	f.Decls = append([]ast.Decl{decl}, f.Decls...)
	f.Imports = append(f.Imports, spec)
}

// aliasesOf collects, for one function body, the local variables that are
// bound to a whole package-level variable (x := G, x = G, x := G[a:b],
// x := &G): a store through such a local is a store to G. Name based and
// scope-insensitive (conservative).
func aliasesOf(body *ast.BlockStmt, isGlobal func(*ast.Ident) bool) map[string]string {
	al := map[string]string{}
	ast.Inspect(body, func(n ast.Node) bool {
		as, ok := n.(*ast.AssignStmt)
		if !ok || len(as.Lhs) != len(as.Rhs) {
			return true
		}
		for i, r := range as.Rhs {
			l, ok := as.Lhs[i].(*ast.Ident)
			if !ok || l.Name == "_" {
				continue
			}
			e := r
			for {
				switch v := e.(type) {
				case *ast.ParenExpr:
					e = v.X
					continue
				case *ast.SliceExpr:
					e = v.X
					continue
				case *ast.UnaryExpr:
					if v.Op == token.AND {
						e = v.X
						continue
					}
				}
				break
			}
			if g, ok := e.(*ast.Ident); ok && isGlobal(g) {
				al[l.Name] = g.Name
			}
		}
		return true
	})
	return al
}

// root returns the root identifier of an addressable expression (x, x.f, x[i], *x, (x)).
func root(e ast.Expr) *ast.Ident {
	for {
		switch v := e.(type) {
		case *ast.Ident:
			return v
		case *ast.SelectorExpr:
			e = v.X
		case *ast.IndexExpr:
			e = v.X
		case *ast.StarExpr:
			e = v.X
		case *ast.ParenExpr:
			e = v.X
		case *ast.SliceExpr:
			e = v.X
		default:
			return nil
		}
	}
}

// writtenRoots returns the root identifiers that node n (itself, not its
// children) writes through.
func writtenRoots(n ast.Node) []*ast.Ident {
	var out []*ast.Ident
	add := func(e ast.Expr) {
		if id := root(e); id != nil {
			out = append(out, id)
		}
	}
	switch v := n.(type) {
	case *ast.AssignStmt:
		if v.Tok != token.DEFINE {
			for _, l := range v.Lhs {
				add(l)
			}
		}
	case *ast.IncDecStmt:
		add(v.X)
	case *ast.RangeStmt:
		if v.Tok == token.ASSIGN {
			if v.Key != nil {
				add(v.Key)
			}
			if v.Value != nil {
				add(v.Value)
			}
		}
	case *ast.CallExpr:
		if fn, ok := v.Fun.(*ast.Ident); ok && (fn.Name == "delete" || fn.Name == "copy") && len(v.Args) > 0 {
			add(v.Args[0])
		}
		// an address handed to a function may be written through by it (conservatively a write) -
		// except by sync/atomic, whose operations are synchronised and cannot race. An address that
		// is merely taken (returned, stored) is a read: writes through it are not seen, which can
		// only miss a race, never invent one.
		if sel, ok := v.Fun.(*ast.SelectorExpr); ok {
			if pkg, ok := sel.X.(*ast.Ident); ok && pkg.Name == "atomic" {
				break
			}
		}
		for _, a := range v.Args {
			if u, ok := a.(*ast.UnaryExpr); ok && u.Op == token.AND {
				add(u.X)
			}
		}
		// a method call on (a field of) a variable may have a pointer receiver that
		// mutates it. Receiver kinds are not known syntactically, so the method name
		// decides: the mutator vocabulary of the standard library's stateful values
		// (buffers, hashes, containers, decoders). A value method such as
		// time.Time.Add on a package-level constant-like variable is a read.
		if se, ok := v.Fun.(*ast.SelectorExpr); ok && mutatorName(se.Sel.Name) {
			add(se.X)
		}
	}
	return out
}

var mutatorPrefixes = []string{"Write", "Reset", "Truncate", "Grow", "Read", "Set", "Put", "Push", "Pop", "Insert", "Remove", "Delete", "Store", "Swap", "Append", "Clear", "Init", "Unmarshal", "Decode", "Scan", "Seek", "Next", "Fill", "Flush", "Close", "Update", "Inc", "Dec"}

func mutatorName(n string) bool {
	for _, p := range mutatorPrefixes {
		if strings.HasPrefix(n, p) {
			return true
		}
	}
	return false
}

// mentions lists the written globals a statement mentions (without
// descending into nested blocks, which are instrumented on their own) and
// whether the statement writes one of them.
func mentions(stmt ast.Stmt, written map[string]bool, resolve func(*ast.Ident) string) (names map[string]bool) {
	names = map[string]bool{}
	var visit func(n ast.Node, top bool) bool
	skipKeys := map[*ast.Ident]bool{}
	visit = func(n ast.Node, top bool) bool {
		switch v := n.(type) {
		case *ast.BlockStmt:
			if !top {
				return false
			}
		case *ast.FuncLit:
			return false
		case *ast.CompositeLit:
			if _, isMap := v.Type.(*ast.MapType); !isMap {
				if _, isArr := v.Type.(*ast.ArrayType); !isArr {
					for _, el := range v.Elts {
						if kv, ok := el.(*ast.KeyValueExpr); ok {
							if id, ok := kv.Key.(*ast.Ident); ok {
								skipKeys[id] = true
							}
						}
					}
				}
			}
		case *ast.SelectorExpr:
			// only the operand can be a variable
			ast.Inspect(v.X, func(m ast.Node) bool { return visit(m, false) })
			return false
		case *ast.Ident:
			if g := resolve(v); !skipKeys[v] && g != "" && written[g] {
				w := names[g]
				names[g] = w
			}
		}
		for _, id := range writtenRoots(n) {
			if g := resolve(id); g != "" && written[g] {
				names[g] = true
			}
		}
		// a slice/pointer alias of a package-level variable handed to a call may be written by the callee
		if call, ok := n.(*ast.CallExpr); ok {
			for _, a := range call.Args {
				if id, ok := a.(*ast.Ident); ok {
					if g := resolve(id); g != "" && written[g] && g != id.Name {
						names[g] = true
					}
				}
			}
		}
		return true
	}
	// statements with bodies: only their header expressions belong to them
	switch s := stmt.(type) {
	case *ast.IfStmt:
		if s.Init != nil {
			ast.Inspect(s.Init, func(n ast.Node) bool { return visit(n, false) })
		}
		ast.Inspect(s.Cond, func(n ast.Node) bool { return visit(n, false) })
	case *ast.ForStmt:
		for _, n := range []ast.Node{s.Init, s.Cond, s.Post} {
			if n != nil && !isNilNode(n) {
				ast.Inspect(n, func(m ast.Node) bool { return visit(m, false) })
			}
		}
	case *ast.RangeStmt:
		ast.Inspect(s.X, func(n ast.Node) bool { return visit(n, false) })
		for _, id := range writtenRoots(s) {
			if g := resolve(id); g != "" && written[g] {
				names[g] = true
			}
		}
	case *ast.SwitchStmt:
		if s.Init != nil {
			ast.Inspect(s.Init, func(n ast.Node) bool { return visit(n, false) })
		}
		if s.Tag != nil {
			ast.Inspect(s.Tag, func(n ast.Node) bool { return visit(n, false) })
		}
	case *ast.TypeSwitchStmt:
		if s.Init != nil {
			ast.Inspect(s.Init, func(n ast.Node) bool { return visit(n, false) })
		}
		ast.Inspect(s.Assign, func(n ast.Node) bool { return visit(n, false) })
	case *ast.BlockStmt, *ast.SelectStmt, *ast.LabeledStmt:
		// containers only
	default:
		ast.Inspect(stmt, func(n ast.Node) bool { return visit(n, false) })
	}
	return names
}

func isNilNode(n ast.Node) bool {
	switch v := n.(type) {
	case ast.Stmt:
		return v == nil
	case ast.Expr:
		return v == nil
	}
	return false
}

func accessCall(name string, write bool) ast.Stmt {
	w := "false"
	if write {
		w = "true"
	}
	return &ast.ExprStmt{X: &ast.CallExpr{
		Fun:  &ast.SelectorExpr{X: ast.NewIdent("verifsyncrt"), Sel: ast.NewIdent("Access")},
		Args: []ast.Expr{&ast.BasicLit{Kind: token.STRING, Value: strconv.Quote(name)}, ast.NewIdent(w)},
	}}
}

// instrumentBlock inserts Access calls into a block and recursively into
// nested blocks; it returns the number of inserted calls.
func instrumentBlock(b *ast.BlockStmt, written map[string]bool, isGlobal func(*ast.Ident) string) int {
	if b == nil {
		return 0
	}
	n := 0
	b.List, n = instrumentList(b.List, written, isGlobal)
	return n
}

func instrumentList(list []ast.Stmt, written map[string]bool, isGlobal func(*ast.Ident) string) ([]ast.Stmt, int) {
	var out []ast.Stmt
	count := 0
	for _, s := range list {
		m := mentions(s, written, isGlobal)
		var names []string
		for k := range m {
			names = append(names, k)
		}
		sort.Strings(names)
		for _, k := range names {
			out = append(out, accessCall(k, m[k]))
			count++
		}
		out = append(out, s)
		// nested blocks
		switch v := s.(type) {
		case *ast.BlockStmt:
			count += instrumentBlock(v, written, isGlobal)
		case *ast.IfStmt:
			count += instrumentBlock(v.Body, written, isGlobal)
			for e := v.Else; e != nil; {
				switch ev := e.(type) {
				case *ast.BlockStmt:
					count += instrumentBlock(ev, written, isGlobal)
					e = nil
				case *ast.IfStmt:
					count += instrumentBlock(ev.Body, written, isGlobal)
					e = ev.Else
				default:
					e = nil
				}
			}
		case *ast.ForStmt:
			count += instrumentBlock(v.Body, written, isGlobal)
		case *ast.RangeStmt:
			count += instrumentBlock(v.Body, written, isGlobal)
		case *ast.SwitchStmt:
			for _, cc := range v.Body.List {
				c := cc.(*ast.CaseClause)
				var k int
				c.Body, k = instrumentList(c.Body, written, isGlobal)
				count += k
			}
		case *ast.TypeSwitchStmt:
			for _, cc := range v.Body.List {
				c := cc.(*ast.CaseClause)
				var k int
				c.Body, k = instrumentList(c.Body, written, isGlobal)
				count += k
			}
		case *ast.SelectStmt:
			for _, cc := range v.Body.List {
				c := cc.(*ast.CommClause)
				var k int
				c.Body, k = instrumentList(c.Body, written, isGlobal)
				count += k
			}
		case *ast.LabeledStmt:
			// the labelled statement itself was not inspected above; rare in this code base
		}
	}
	return out, count
}

// ---- receiver fields (packages given with -recv): in methods with a pointer
// receiver r of type T, a statement that mentions r.f, for a field f that some
// method of T writes, is preceded by verifsyncrt.AccessObj(r, "T.f", isWrite).
// The probe name carries the object's address, so separately created objects
// never conflict; two threads on one shared object conflict exactly when one of
// them writes the field. A method call on a field counts as a read of the field.

func ptrReceiver(fd *ast.FuncDecl) (*ast.Ident, string) {
	if fd.Recv == nil || len(fd.Recv.List) != 1 || len(fd.Recv.List[0].Names) != 1 {
		return nil, ""
	}
	st, ok := fd.Recv.List[0].Type.(*ast.StarExpr)
	if !ok {
		return nil, ""
	}
	tn, ok := st.X.(*ast.Ident)
	if !ok || fd.Recv.List[0].Names[0].Name == "_" {
		return nil, ""
	}
	return fd.Recv.List[0].Names[0], tn.Name
}

func isRecv(id, rn *ast.Ident) bool {
	return id.Name == rn.Name && (id.Obj == nil || id.Obj == rn.Obj)
}

// fieldOf returns the field f when e is rooted at r.f (r.f, r.f[i], r.f[i].g, r.f[a:b], (*r).f ...).
func fieldOf(e ast.Expr, rn *ast.Ident) string {
	for {
		switch v := e.(type) {
		case *ast.SelectorExpr:
			x := v.X
			for {
				if p, ok := x.(*ast.ParenExpr); ok {
					x = p.X
					continue
				}
				if st, ok := x.(*ast.StarExpr); ok {
					x = st.X
					continue
				}
				break
			}
			if id, ok := x.(*ast.Ident); ok && isRecv(id, rn) {
				return v.Sel.Name
			}
			e = v.X
		case *ast.IndexExpr:
			e = v.X
		case *ast.StarExpr:
			e = v.X
		case *ast.ParenExpr:
			e = v.X
		case *ast.SliceExpr:
			e = v.X
		default:
			return ""
		}
	}
}

// fieldAliasesOf: locals bound to (a slice of / the address of) a receiver field.
func fieldAliasesOf(body *ast.BlockStmt, rn *ast.Ident) map[string]string {
	al := map[string]string{}
	ast.Inspect(body, func(n ast.Node) bool {
		as, ok := n.(*ast.AssignStmt)
		if !ok || len(as.Lhs) != len(as.Rhs) {
			return true
		}
		for i, r := range as.Rhs {
			l, ok := as.Lhs[i].(*ast.Ident)
			if !ok || l.Name == "_" {
				continue
			}
			e := r
			if u, ok := e.(*ast.UnaryExpr); ok && u.Op == token.AND {
				e = u.X
			}
			// only whole fields, slices of them and element addresses alias the field's memory
			switch v := e.(type) {
			case *ast.SelectorExpr, *ast.SliceExpr:
				if f := fieldOf(v.(ast.Expr), rn); f != "" {
					al[l.Name] = f
				}
			case *ast.IndexExpr:
				if _, isAddr := r.(*ast.UnaryExpr); isAddr {
					if f := fieldOf(v, rn); f != "" {
						al[l.Name] = f
					}
				}
			}
		}
		return true
	})
	return al
}

func writtenFieldsOf(n ast.Node, rn *ast.Ident, al map[string]string) []string {
	var out []string
	add := func(e ast.Expr) {
		if f := fieldOf(e, rn); f != "" {
			out = append(out, f)
			return
		}
		if id := root(e); id != nil && !isRecv(id, rn) {
			if f, ok := al[id.Name]; ok {
				// a store through the alias itself (x = ...) rebinds the local; only x[i] = / x.f = / *x = write the field
				if _, plain := e.(*ast.Ident); !plain {
					out = append(out, f)
				}
			}
		}
	}
	switch v := n.(type) {
	case *ast.AssignStmt:
		if v.Tok != token.DEFINE {
			for _, l := range v.Lhs {
				add(l)
			}
		}
	case *ast.IncDecStmt:
		add(v.X)
	case *ast.RangeStmt:
		if v.Tok == token.ASSIGN {
			if v.Key != nil {
				add(v.Key)
			}
			if v.Value != nil {
				add(v.Value)
			}
		}
	case *ast.CallExpr:
		if fn, ok := v.Fun.(*ast.Ident); ok && (fn.Name == "delete" || fn.Name == "copy") && len(v.Args) > 0 {
			add(v.Args[0])
		}
		if sel, ok := v.Fun.(*ast.SelectorExpr); ok {
			// a mutating method called on a field of the receiver (r.buf.Reset(), r.cache.Store(..)) writes it
			if mutatorName(sel.Sel.Name) {
				add(sel.X)
			}
			if pkg, ok := sel.X.(*ast.Ident); ok && pkg.Name == "atomic" {
				break
			}
		}
		// the address of a field handed to a function may be written through by it
		for _, a := range v.Args {
			if u, ok := a.(*ast.UnaryExpr); ok && u.Op == token.AND {
				add(u.X)
			}
		}
	}
	return out
}

// fieldMentions: fields (written somewhere) a statement mentions -> whether it writes them.
func fieldMentions(stmt ast.Stmt, rn *ast.Ident, tn string, writtenFields map[string]bool, al map[string]string) map[string]bool {
	names := map[string]bool{}
	visit := func(n ast.Node) bool {
		switch v := n.(type) {
		case *ast.BlockStmt, *ast.FuncLit:
			return false
		case *ast.SelectorExpr:
			if f := fieldOf(v, rn); f != "" && writtenFields[f] {
				if _, ok := names[f]; !ok {
					names[f] = false
				}
			}
		case *ast.Ident:
			if f, ok := al[v.Name]; ok && writtenFields[f] {
				if _, ok := names[f]; !ok {
					names[f] = false
				}
			}
		}
		for _, f := range writtenFieldsOf(n, rn, al) {
			if writtenFields[f] {
				names[f] = true
			}
		}
		return true
	}
	hdr := func(ns ...ast.Node) {
		for _, n := range ns {
			if n != nil && !isNilNode(n) {
				ast.Inspect(n, visit)
			}
		}
	}
	switch s := stmt.(type) {
	case *ast.IfStmt:
		hdr(s.Init, s.Cond)
	case *ast.ForStmt:
		hdr(s.Init, s.Cond, s.Post)
	case *ast.RangeStmt:
		hdr(s.X)
		for _, f := range writtenFieldsOf(s, rn, al) {
			if writtenFields[f] {
				names[f] = true
			}
		}
	case *ast.SwitchStmt:
		hdr(s.Init, s.Tag)
	case *ast.TypeSwitchStmt:
		hdr(s.Init, s.Assign)
	case *ast.BlockStmt, *ast.SelectStmt, *ast.LabeledStmt:
	default:
		ast.Inspect(stmt, visit)
	}
	return names
}

func accessObjCall(rn *ast.Ident, field, name string, write bool) ast.Stmt {
	w := "false"
	if write {
		w = "true"
	}
	return &ast.ExprStmt{X: &ast.CallExpr{
		Fun: &ast.SelectorExpr{X: ast.NewIdent("verifsyncrt"), Sel: ast.NewIdent("AccessObj")},
		// identity = address of the field itself (the same through any embedding path)
		Args: []ast.Expr{&ast.UnaryExpr{Op: token.AND, X: &ast.SelectorExpr{X: ast.NewIdent(rn.Name), Sel: ast.NewIdent(field)}}, &ast.BasicLit{Kind: token.STRING, Value: strconv.Quote(name)}, ast.NewIdent(w)},
	}}
}

func instrumentFields(b *ast.BlockStmt, rn *ast.Ident, tn string, writtenFields map[string]bool, al map[string]string) int {
	if b == nil {
		return 0
	}
	var n int
	b.List, n = instrumentFieldList(b.List, rn, tn, writtenFields, al)
	return n
}

func instrumentFieldList(list []ast.Stmt, rn *ast.Ident, tn string, writtenFields map[string]bool, al map[string]string) ([]ast.Stmt, int) {
	var out []ast.Stmt
	count := 0
	rec := func(b *ast.BlockStmt) { count += instrumentFields(b, rn, tn, writtenFields, al) }
	for _, s := range list {
		// probes this tool inserted itself are not statements of the program
		m := fieldMentions(s, rn, tn, writtenFields, al)
		var names []string
		for k := range m {
			names = append(names, k)
		}
		sort.Strings(names)
		for _, k := range names {
			out = append(out, accessObjCall(rn, k, tn+"."+k, m[k]))
			count++
		}
		out = append(out, s)
		switch v := s.(type) {
		case *ast.BlockStmt:
			rec(v)
		case *ast.IfStmt:
			rec(v.Body)
			for e := v.Else; e != nil; {
				switch ev := e.(type) {
				case *ast.BlockStmt:
					rec(ev)
					e = nil
				case *ast.IfStmt:
					rec(ev.Body)
					e = ev.Else
				default:
					e = nil
				}
			}
		case *ast.ForStmt:
			rec(v.Body)
		case *ast.RangeStmt:
			rec(v.Body)
		case *ast.SwitchStmt:
			for _, cc := range v.Body.List {
				c := cc.(*ast.CaseClause)
				var k int
				c.Body, k = instrumentFieldList(c.Body, rn, tn, writtenFields, al)
				count += k
			}
		case *ast.TypeSwitchStmt:
			for _, cc := range v.Body.List {
				c := cc.(*ast.CaseClause)
				var k int
				c.Body, k = instrumentFieldList(c.Body, rn, tn, writtenFields, al)
				count += k
			}
		}
	}
	return out, count
}

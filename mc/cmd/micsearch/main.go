// micsearch finds inputs whose *correct* MIC has a conspicuous value (00000000 / ffffffff): a sentinel
// value an implementation might treat specially ("MIC not set"). The witnesses it prints are kept in
// mc/props/witness.go and are re-verified against the specification model on every run of the checks.
// usage: micsearch join|up10|up10c|down10|joinaccept   (about half a minute each on 16 cores)
package main

import (
	"crypto/aes"
	"crypto/cipher"
	"encoding/binary"
	"fmt"
	"os"
	"runtime"
	"sync"
)

type cmac struct {
	c      cipher.Block
	k1, k2 [16]byte
}

func shl(in [16]byte) (out [16]byte, carry byte) {
	for i := 15; i >= 0; i-- {
		out[i] = in[i]<<1 | carry
		carry = in[i] >> 7
	}
	return
}

func newCMAC(key []byte) *cmac {
	c, _ := aes.NewCipher(key)
	m := &cmac{c: c}
	var l [16]byte
	c.Encrypt(l[:], l[:])
	var cy byte
	m.k1, cy = shl(l)
	if cy != 0 {
		m.k1[15] ^= 0x87
	}
	m.k2, cy = shl(m.k1)
	if cy != 0 {
		m.k2[15] ^= 0x87
	}
	return m
}

// sum4 returns the first four bytes of AES-CMAC(msg) as a uint32 (big-endian).
func (m *cmac) sum4(msg []byte) uint32 {
	var x [16]byte
	n := (len(msg) + 15) / 16
	if n == 0 {
		n = 1
	}
	for i := 0; i < n-1; i++ {
		for k := 0; k < 16; k++ {
			x[k] ^= msg[16*i+k]
		}
		m.c.Encrypt(x[:], x[:])
	}
	last := msg[16*(n-1):]
	if len(last) == 16 {
		for k := 0; k < 16; k++ {
			x[k] ^= last[k] ^ m.k1[k]
		}
	} else {
		var p [16]byte
		copy(p[:], last)
		p[len(last)] = 0x80
		for k := 0; k < 16; k++ {
			x[k] ^= p[k] ^ m.k2[k]
		}
	}
	m.c.Encrypt(x[:], x[:])
	return binary.BigEndian.Uint32(x[:4])
}

func main() {
	key := []byte{0x2b, 0x7e, 0x15, 0x16, 0x28, 0xae, 0xd2, 0xa6, 0xab, 0xf7, 0x15, 0x88, 0x09, 0xcf, 0x4f, 0x3c}
	kind := os.Args[1]
	workers := runtime.NumCPU()
	var wg sync.WaitGroup
	var mu sync.Mutex
	found := map[uint32]bool{}
	for w := 0; w < workers; w++ {
		wg.Add(1)
		go func(w int) {
			defer wg.Done()
			m := newCMAC(key)
			for v := uint64(w); v < 1<<33; v += uint64(workers) {
				var msg []byte
				switch kind {
				case "join": // MHDR | JoinEUI(le) | DevEUI(le) | DevNonce(le); v: DevNonce 16 bits + 17 bits of the DevEUI
					msg = []byte{0x00, 8, 7, 6, 5, 4, 3, 2, 1, byte(v >> 16), byte(v >> 24), byte(v >> 32), 0x5A, 5, 6, 7, 8, byte(v), byte(v >> 8)}
				case "up10": // B0 | MHDR FHDR FPort FRMPayload; v: FCnt (32 bits) + 1 payload bit
					fc := uint32(v)
					msg = []byte{0x49, 0, 0, 0, 0, 0x00, 4, 3, 2, 1, byte(fc), byte(fc >> 8), byte(fc >> 16), byte(fc >> 24), 0, 11,
						0x40, 4, 3, 2, 1, 0x00, byte(fc), byte(fc >> 8), 10, byte(v >> 32), 0x22}
				case "up10c": // as up10 with a third payload byte 23
					fc := uint32(v)
					msg = []byte{0x49, 0, 0, 0, 0, 0x00, 4, 3, 2, 1, byte(fc), byte(fc >> 8), byte(fc >> 16), byte(fc >> 24), 0, 12,
						0x40, 4, 3, 2, 1, 0x00, byte(fc), byte(fc >> 8), 10, byte(v >> 32), 0x22, 0x23}
				case "down10": // downlink: B0 direction 1, MType UnconfirmedDataDown
					fc := uint32(v)
					msg = []byte{0x49, 0, 0, 0, 0, 0x01, 4, 3, 2, 1, byte(fc), byte(fc >> 8), byte(fc >> 16), byte(fc >> 24), 0, 11,
						0x60, 4, 3, 2, 1, 0x00, byte(fc), byte(fc >> 8), 10, byte(v >> 32), 0x22}
				case "joinaccept": // 1.0 form: MHDR | JoinNonce NetID DevAddr DLSettings RxDelay; v: JoinNonce 24 bits + 9 bits of DevAddr
					msg = []byte{0x20, byte(v), byte(v >> 8), byte(v >> 16), 3, 2, 1, byte(v >> 24), byte(v >> 32), 2, 1, 0x00, 1}
				}
				s := m.sum4(msg)
				if s == 0 || s == 0xFFFFFFFF {
					mu.Lock()
					if !found[s] {
						found[s] = true
						fmt.Printf("%s mic=%08x v=%#x msg=%x\n", kind, s, v, msg)
					}
					mu.Unlock()
				}
			}
		}(w)
	}
	wg.Wait()
}

// Command check runs the bounded-exhaustive check of one property:
//
//	check -property C07 -tier quick|thorough [-replay file]
package main

import (
	"encoding/json"
	"flag"
	"fmt"
	"io/ioutil"
	"log"
	"os"
	"runtime/pprof"
	"sort"
	"strconv"
	_ "time/tzdata" // the zone database travels with the binary (environment variants set TZ)

	"verifmc/engine"
	"verifmc/props"
)

func main() {
	prop := flag.String("property", "", "property id (C01..C20)")
	tier := flag.String("tier", "", "quick | thorough")
	replay := flag.String("replay", "", "replay file written by an earlier run")
	list := flag.Bool("list", false, "list the properties with a check")
	cpuprof := flag.String("cpuprofile", "", "write a CPU profile (development)")
	flag.Parse()

	// the library logs from its MAC command decoder
	log.SetOutput(ioutil.Discard)

	if *list {
		var ids []string
		for id := range props.All {
			ids = append(ids, id)
		}
		sort.Strings(ids)
		for _, id := range ids {
			fmt.Println(id, props.All[id].Level)
		}
		return
	}

	if *tier == "" {
		*tier = os.Getenv("VERIF_TIER")
	}
	if *tier != "thorough" {
		*tier = "quick"
	}
	var seed int64
	if v := os.Getenv("VERIF_SEED"); v != "" {
		seed, _ = strconv.ParseInt(v, 10, 64)
	}

	ck, ok := props.All[*prop]
	if !ok {
		fmt.Fprintf(os.Stderr, "no check for property %q\n", *prop)
		os.Exit(2)
	}

	r := engine.NewRun(ck.ID, *tier, seed, ck.Level)
	if *replay != "" {
		b, err := ioutil.ReadFile(*replay)
		if err != nil {
			fmt.Fprintln(os.Stderr, err)
			os.Exit(2)
		}
		var rec struct {
			Property string `json:"property"`
			Tier     string `json:"tier"`
			Part     string `json:"part"`
			Index    uint64 `json:"index"`
			Path     []int  `json:"path"`
		}
		if err := json.Unmarshal(b, &rec); err != nil {
			fmt.Fprintln(os.Stderr, err)
			os.Exit(2)
		}
		if rec.Property != ck.ID {
			fmt.Fprintf(os.Stderr, "replay file is for property %s\n", rec.Property)
			os.Exit(2)
		}
		if rec.Tier == "thorough" {
			r.Tier = "thorough"
		}
		r.Replay, r.ReplayPart, r.ReplayIndex, r.ReplayPath = true, rec.Part, rec.Index, rec.Path
	}
	if *cpuprof != "" {
		f, _ := os.Create(*cpuprof)
		pprof.StartCPUProfile(f)
	}
	if f := os.Getenv("VERIF_FATAL_LOG"); f != "" {
		r.ReportFatal(f)
	}
	ck.Run(r)
	if *cpuprof != "" {
		pprof.StopCPUProfile()
	}
	os.Exit(r.Finish())
}

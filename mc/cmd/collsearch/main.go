// collsearch finds two distinct 16-byte keys with the same 64-bit digest (FNV-1 / FNV-1a, the
// leading 8 bytes of MD5 / SHA-1 / SHA-256; not CRC-64, which is injective on keys that differ in
// 8 bytes only) by
// cycle finding (Brent) on x -> digest(key(x)), key(x) = fixed 8-byte prefix | x big endian: about
// 2^33 digest evaluations, minutes on one core. The pairs it prints are kept in mc/props/collide.go
// (collidingWide) and are verified there each time the table is built.
package main

import (
	"crypto/md5"
	"crypto/sha1"
	"crypto/sha256"
	"encoding/binary"
	"flag"
	"fmt"
	"os"
)

const (
	offset64 = 14695981039346656037
	prime64  = 1099511628211
)

var prefix = [8]byte{0x4c, 0x6f, 0x52, 0x61, 0x57, 0x41, 0x4e, 0x21}

func key(x uint64) [16]byte {
	var k [16]byte
	copy(k[:], prefix[:])
	binary.BigEndian.PutUint64(k[8:], x)
	return k
}

func fnv1a(x uint64) uint64 {
	k := key(x)
	h := uint64(offset64)
	for _, b := range k {
		h ^= uint64(b)
		h *= prime64
	}
	return h
}

func fnv1(x uint64) uint64 {
	k := key(x)
	h := uint64(offset64)
	for _, b := range k {
		h *= prime64
		h ^= uint64(b)
	}
	return h
}

func collide(f func(uint64) uint64, x0 uint64) (a, b uint64) {
	power, lam := uint64(1), uint64(1)
	tortoise, hare := x0, f(x0)
	for tortoise != hare {
		if power == lam {
			tortoise, power, lam = hare, power*2, 0
		}
		hare = f(hare)
		lam++
	}
	tortoise, hare = x0, x0
	for i := uint64(0); i < lam; i++ {
		hare = f(hare)
	}
	for {
		nt, nh := f(tortoise), f(hare)
		if nt == nh {
			return tortoise, hare
		}
		tortoise, hare = nt, nh
	}
}

func main() {
	kind := flag.String("kind", "fnv1a", "fnv1a | fnv1 | md5-8 | sha1-8 | sha256-8")
	flag.Parse()
	f, ok := map[string]func(uint64) uint64{
		"fnv1a":    fnv1a,
		"fnv1":     fnv1,
		"md5-8":    func(x uint64) uint64 { k := key(x); s := md5.Sum(k[:]); return binary.BigEndian.Uint64(s[:]) },
		"sha1-8":   func(x uint64) uint64 { k := key(x); s := sha1.Sum(k[:]); return binary.BigEndian.Uint64(s[:]) },
		"sha256-8": func(x uint64) uint64 { k := key(x); s := sha256.Sum256(k[:]); return binary.BigEndian.Uint64(s[:]) },
	}[*kind]
	if !ok {
		fmt.Println("unknown kind")
		os.Exit(2)
	}
	for x0 := uint64(1); ; x0++ {
		a, b := collide(f, x0)
		if a != b {
			ka, kb := key(a), key(b)
			fmt.Printf("%s %x %x digest %016x %016x\n", *kind, ka[:], kb[:], f(a), f(b))
			return
		}
	}
}

package spec

import (
	"fmt"
	"sort"
)

// Field is one bit-field of a MAC command payload (or header byte). The field
// lives in the little-endian integer formed by bytes [Off, Off+Len) at bit
// positions [Shift, Shift+Width). Scale multiplies the raw value (frequency in
// 100 Hz units -> Hz). Signed fields are two's complement of Width bits.
type Field struct {
	Name   string
	Off    int
	Len    int
	Shift  uint
	Width  uint
	Signed bool
	Scale  int64
	// MustAccept, when non-nil, narrows the raw values an encoder must accept
	// (default: every value of the width). Used where revisions of the
	// specification disagree about the upper part of the range.
	MustAccept func(raw int64) bool
}

// Command is the wire description of one MAC command payload.
type Command struct {
	CID    byte
	Name   string
	Uplink bool
	Size   int
	Fields []Field
	// Judged, when non-nil, restricts the byte strings on which decode results
	// are compared (specification revisions disagree elsewhere).
	Judged func(b []byte) bool
}

func f8(name string, off int, shift, width uint) Field {
	return Field{Name: name, Off: off, Len: 1, Shift: shift, Width: width, Scale: 1}
}

func freq(name string, off int) Field {
	return Field{Name: name, Off: off, Len: 3, Shift: 0, Width: 24, Scale: 100}
}

func version(name string) []Field {
	// Minor: 4 bits; values above 1 are RFU in 1.1 - an encoder must accept 0 and 1
	return []Field{{Name: name + ".Minor", Off: 0, Len: 1, Shift: 0, Width: 4, Scale: 1, MustAccept: func(r int64) bool { return r <= 1 }}}
}

// Commands is the table of all MAC commands with a payload (LoRaWAN 1.0.4 /
// 1.1, Appendix B.1 of DESIGN.md). Field names are the flattened names of the
// library's Go structs only so that the adapter is generic; the layout is
// the specification's.
var Commands = []Command{
	// downlink
	{0x01, "ResetConf", false, 1, version("ServLoRaWANVersion"), nil},
	{0x02, "LinkCheckAns", false, 2, []Field{f8("Margin", 0, 0, 8), f8("GwCnt", 1, 0, 8)}, nil},
	{0x03, "LinkADRReq", false, 4, []Field{f8("DataRate", 0, 4, 4), f8("TXPower", 0, 0, 4),
		{Name: "ChMask", Off: 1, Len: 2, Shift: 0, Width: 16, Scale: 1},
		f8("Redundancy.ChMaskCntl", 3, 4, 3), f8("Redundancy.NbRep", 3, 0, 4)}, nil},
	{0x04, "DutyCycleReq", false, 1, []Field{{Name: "MaxDCycle", Off: 0, Len: 1, Width: 8, Scale: 1, MustAccept: func(r int64) bool { return r <= 15 || r == 255 }}}, // 255: "become silent" in LoRaWAN 1.0.0 - 1.0.2
		func(b []byte) bool { return b[0] <= 15 || b[0] == 255 }},
	{0x05, "RXParamSetupReq", false, 4, []Field{f8("DLSettings.RX1DROffset", 0, 4, 3), f8("DLSettings.RX2DataRate", 0, 0, 4), freq("Frequency", 1)}, nil},
	{0x07, "NewChannelReq", false, 5, []Field{f8("ChIndex", 0, 0, 8), freq("Freq", 1), f8("MaxDR", 4, 4, 4), f8("MinDR", 4, 0, 4)},
		// codes >= 12000000 (1.2 GHz) are re-purposed by the library for the 2.4 GHz band (200 Hz steps): not judged against the 100 Hz rule
		func(b []byte) bool { return uint32(b[1])|uint32(b[2])<<8|uint32(b[3])<<16 < 12000000 }},
	{0x08, "RXTimingSetupReq", false, 1, []Field{f8("Delay", 0, 0, 4)}, nil},
	{0x09, "TXParamSetupReq", false, 1, []Field{f8("DownlinkDwelltime", 0, 5, 1), f8("UplinkDwellTime", 0, 4, 1), f8("MaxEIRP", 0, 0, 4)}, nil},
	{0x0A, "DLChannelReq", false, 4, []Field{f8("ChIndex", 0, 0, 8), freq("Freq", 1)}, nil},
	{0x0B, "RekeyConf", false, 1, version("ServLoRaWANVersion"), nil},
	{0x0C, "ADRParamSetupReq", false, 1, []Field{f8("ADRParam.LimitExp", 0, 4, 4), f8("ADRParam.DelayExp", 0, 0, 4)}, nil},
	{0x0D, "DeviceTimeAns", false, 5, []Field{{Name: "Seconds", Off: 0, Len: 4, Width: 32, Scale: 1}, f8("Frac", 4, 0, 8)}, nil},
	{0x0E, "ForceRejoinReq", false, 2, []Field{
		{Name: "Period", Off: 0, Len: 2, Shift: 11, Width: 3, Scale: 1},
		{Name: "MaxRetries", Off: 0, Len: 2, Shift: 8, Width: 3, Scale: 1},
		{Name: "RejoinType", Off: 0, Len: 2, Shift: 4, Width: 3, Scale: 1, MustAccept: func(r int64) bool { return r == 0 || r == 2 }},
		{Name: "DR", Off: 0, Len: 2, Shift: 0, Width: 4, Scale: 1}}, nil},
	{0x0F, "RejoinParamSetupReq", false, 1, []Field{f8("MaxTimeN", 0, 4, 4), f8("MaxCountN", 0, 0, 4)}, nil},
	{0x11, "PingSlotChannelReq", false, 4, []Field{freq("Frequency", 0), f8("DR", 3, 0, 4)}, nil},
	{0x13, "BeaconFreqReq", false, 3, []Field{freq("Frequency", 0)}, nil},
	{0x20, "DeviceModeConf", false, 1, []Field{f8("Class", 0, 0, 8)}, nil},
	// uplink
	{0x01, "ResetInd", true, 1, version("DevLoRaWANVersion"), nil},
	{0x03, "LinkADRAns", true, 1, []Field{f8("PowerACK", 0, 2, 1), f8("DataRateACK", 0, 1, 1), f8("ChannelMaskACK", 0, 0, 1)}, nil},
	{0x05, "RXParamSetupAns", true, 1, []Field{f8("RX1DROffsetACK", 0, 2, 1), f8("RX2DataRateACK", 0, 1, 1), f8("ChannelACK", 0, 0, 1)}, nil},
	{0x06, "DevStatusAns", true, 2, []Field{f8("Battery", 0, 0, 8), {Name: "Margin", Off: 1, Len: 1, Shift: 0, Width: 6, Signed: true, Scale: 1}}, nil},
	{0x07, "NewChannelAns", true, 1, []Field{f8("DataRateRangeOK", 0, 1, 1), f8("ChannelFrequencyOK", 0, 0, 1)}, nil},
	{0x0A, "DLChannelAns", true, 1, []Field{f8("UplinkFrequencyExists", 0, 1, 1), f8("ChannelFrequencyOK", 0, 0, 1)}, nil},
	{0x0B, "RekeyInd", true, 1, version("DevLoRaWANVersion"), nil},
	{0x0F, "RejoinParamSetupAns", true, 1, []Field{f8("TimeOK", 0, 0, 1)}, nil},
	{0x10, "PingSlotInfoReq", true, 1, []Field{f8("Periodicity", 0, 0, 3)}, nil},
	{0x11, "PingSlotChannelAns", true, 1, []Field{f8("DataRateOK", 0, 1, 1), f8("ChannelFrequencyOK", 0, 0, 1)}, nil},
	{0x13, "BeaconFreqAns", true, 1, []Field{f8("BeaconFrequencyOK", 0, 0, 1)}, nil},
	{0x20, "DeviceModeInd", true, 1, []Field{f8("Class", 0, 0, 8)}, nil},
}

// Header-byte tables (same Field machinery).
var (
	MHDRFields       = []Field{f8("MType", 0, 5, 3), f8("Major", 0, 0, 2)}
	FCtrlFields      = []Field{f8("ADR", 0, 7, 1), f8("ADRACKReq", 0, 6, 1), f8("ACK", 0, 5, 1), f8("Bit4", 0, 4, 1), f8("FOptsLen", 0, 0, 4)}
	DLSettingsFields = []Field{f8("OptNeg", 0, 7, 1), f8("RX1DROffset", 0, 4, 3), f8("RX2DataRate", 0, 0, 4)}
	RedundancyFields = []Field{f8("ChMaskCntl", 0, 4, 3), f8("NbRep", 0, 0, 4)}
)

// CheckTables verifies the tables against themselves: fields inside the
// payload, no overlapping bits.
func CheckTables() error {
	for _, c := range Commands {
		used := make([]bool, c.Size*8)
		for _, f := range c.Fields {
			if f.Off+f.Len > c.Size || f.Shift+f.Width > uint(f.Len*8) {
				return fmt.Errorf("spec: %s.%s outside the payload", c.Name, f.Name)
			}
			for b := f.Shift; b < f.Shift+f.Width; b++ {
				i := f.Off*8 + int(b)
				if used[i] {
					return fmt.Errorf("spec: %s.%s overlaps another field", c.Name, f.Name)
				}
				used[i] = true
			}
		}
	}
	return nil
}

// Lookup returns the command of a CID and direction (nil if payload-less/unknown).
func Lookup(uplink bool, cid byte) *Command {
	for i := range Commands {
		if Commands[i].CID == cid && Commands[i].Uplink == uplink {
			return &Commands[i]
		}
	}
	return nil
}

// PayloadSize is the specified payload size of a CID in a direction (0 for
// payload-less and unknown CIDs).
func PayloadSize(uplink bool, cid byte) int {
	if c := Lookup(uplink, cid); c != nil {
		return c.Size
	}
	return 0
}

func leInt(b []byte) uint64 {
	var v uint64
	for i := len(b) - 1; i >= 0; i-- {
		v = v<<8 | uint64(b[i])
	}
	return v
}

// DecodeFields decodes bytes by the table; RFU bits are ignored.
func DecodeFields(fields []Field, b []byte) map[string]int64 {
	out := map[string]int64{}
	for _, f := range fields {
		raw := int64(leInt(b[f.Off:f.Off+f.Len])>>f.Shift) & (1<<f.Width - 1)
		if f.Signed && raw&(1<<(f.Width-1)) != 0 {
			raw -= 1 << f.Width
		}
		out[f.Name] = raw * f.Scale
	}
	return out
}

// InRange reports whether a field value is encodable (a multiple of the
// scale and within the width).
func (f Field) InRange(v int64) bool {
	if v%f.Scale != 0 {
		return false
	}
	raw := v / f.Scale
	if f.Signed {
		return raw >= -(1<<(f.Width-1)) && raw < 1<<(f.Width-1)
	}
	return raw >= 0 && raw < 1<<f.Width
}

// Must reports whether an encoder must accept the value (it is in range and
// no revision of the specification excludes it).
func (f Field) Must(v int64) bool {
	if !f.InRange(v) {
		return false
	}
	if f.MustAccept != nil {
		return f.MustAccept(v / f.Scale)
	}
	return true
}

// EncodeFields encodes field values by the table (RFU bits zero). ok is false
// when a value is out of range.
func EncodeFields(fields []Field, size int, vals map[string]int64) (b []byte, ok bool) {
	b = make([]byte, size)
	for _, f := range fields {
		v := vals[f.Name]
		if !f.InRange(v) {
			return nil, false
		}
		raw := uint64(v/f.Scale) & (1<<f.Width - 1)
		cur := leInt(b[f.Off : f.Off+f.Len])
		cur |= raw << f.Shift
		for i := 0; i < f.Len; i++ {
			b[f.Off+i] = byte(cur >> (8 * uint(i)))
		}
	}
	return b, true
}

// FieldNames returns the sorted field names of a command.
func (c Command) FieldNames() []string {
	var out []string
	for _, f := range c.Fields {
		out = append(out, f.Name)
	}
	sort.Strings(out)
	return out
}

package spec

// TS004 (Fragmented Data Block Transport v1.0.0) section 7, transcribed from
// the specification's pseudo-code (MATLAB style, 1-based) into 0-based Go.

func prbs23(start int) int {
	x := start
	b0 := x & 1
	b1 := (x & 32) / 32
	return x/2 + (b0^b1)<<22
}

func isPower2(n int) bool { return n != 0 && n&(n-1) == 0 }

// MatrixLine returns the parity-matrix line n (1-based) for m data fragments:
// the selection vector of parity fragment n.
func MatrixLine(n, m int) []bool {
	line := make([]bool, m)
	mm := 0
	if isPower2(m) {
		mm = 1
	}
	x := 1 + 1001*n
	for nbCoeff := 1; nbCoeff <= m/2; nbCoeff++ {
		r := 1 << 16
		for r >= m {
			x = prbs23(x)
			r = x % (m + mm)
		}
		line[r] = true
	}
	return line
}

// SolveGF2 recovers the m data fragments from received coded fragments by
// Gaussian elimination over GF(2). rows[i] is the selection vector of the
// received fragment frags[i]. ok is false when the vectors do not have full rank.
func SolveGF2(m int, rows [][]bool, frags [][]byte) (data [][]byte, ok bool) {
	n := len(rows)
	a := make([][]bool, n)
	b := make([][]byte, n)
	for i := range rows {
		a[i] = append([]bool(nil), rows[i]...)
		b[i] = append([]byte(nil), frags[i]...)
	}
	rank := 0
	for col := 0; col < m; col++ {
		p := -1
		for i := rank; i < n; i++ {
			if a[i][col] {
				p = i
				break
			}
		}
		if p < 0 {
			return nil, false
		}
		a[rank], a[p] = a[p], a[rank]
		b[rank], b[p] = b[p], b[rank]
		for i := 0; i < n; i++ {
			if i != rank && a[i][col] {
				for k := col; k < m; k++ {
					a[i][k] = a[i][k] != a[rank][k]
				}
				for k := range b[i] {
					b[i][k] ^= b[rank][k]
				}
			}
		}
		rank++
	}
	return b[:m], true
}

package spec

import "fmt"

// Regional Parameters (RP002-1.0.3) values used by the C12/C13 oracles. Only
// cells that are certain are listed; a cell that is not listed is not judged
// against a constant (it is still subject to the structural relations).

// DRDef is a data-rate definition: LoRa (SF, BW kHz), FSK (bit rate) or other.
type DRDef struct {
	Mod     string // "LORA", "FSK", "LR_FHSS"
	SF      int
	BW      int
	BitRate int
}

// Region describes one regional channel plan.
type Region struct {
	Name string
	// RX1 channel rule: 0 = same channel, n = uplink index modulo n
	RX1ChannelMod int
	// RX1 data-rate formula kind: "eu" max(DR-off,0) on EURows for offsets 0..5;
	// "us" clamp(10+DR-off, 8, 13) on rows 0..4 offsets 0..3; "au" clamp(8+DR-off,
	// 8, 13) on rows 0..6 offsets 0..5; "as" min(5,max(minDR,DR-eff(off))).
	RX1Kind       string
	EURows        []int
	MaxPosOffset  int
	PingSlotFixed uint32 // 0 = hopping or not judged
	PingSlotHop   []uint32
	RX2Freq       uint32
	RX2DR         int
	// default uplink channels (frequency, minDR, maxDR); for fixed plans a generator
	DefaultUplink func() [][3]uint32
	DefaultDown   func() [][3]uint32
	DRs           map[int]DRDef
	TXPowerSteps  int // number of TX power indices known (offset[k] = -2k for all present)
}

func lora125(first int, sfs ...int) map[int]DRDef {
	m := map[int]DRDef{}
	for i, sf := range sfs {
		m[first+i] = DRDef{Mod: "LORA", SF: sf, BW: 125}
	}
	return m
}

// withLRFHSS adds the LR-FHSS data-rates of RP002-1.0.2 and later (EU868 DR8..11, US915 DR5..6, AU915
// DR7): only the modulation is listed (written as the library's data-rate type spells the three
// modulations), coding rate and occupied channel width are not judged.
func withLRFHSS(m map[int]DRDef, drs ...int) map[int]DRDef {
	for _, dr := range drs {
		m[dr] = DRDef{Mod: "LR_FHSS"}
	}
	return m
}

func euDRs() map[int]DRDef {
	m := lora125(0, 12, 11, 10, 9, 8, 7)
	m[6] = DRDef{Mod: "LORA", SF: 7, BW: 250}
	m[7] = DRDef{Mod: "FSK", BitRate: 50000}
	return m
}

func chans(minDR, maxDR uint32, freqs ...uint32) func() [][3]uint32 {
	return func() [][3]uint32 {
		var out [][3]uint32
		for _, f := range freqs {
			out = append(out, [3]uint32{f, minDR, maxDR})
		}
		return out
	}
}

func series(start, step uint32, n int, minDR, maxDR uint32) [][3]uint32 {
	var out [][3]uint32
	for i := 0; i < n; i++ {
		out = append(out, [3]uint32{start + uint32(i)*step, minDR, maxDR})
	}
	return out
}

// Regions by canonical name. AS923 variants are derived with AS923(offset).
var Regions = map[string]Region{
	"EU868": {Name: "EU868", RX1Kind: "eu", EURows: []int{0, 1, 2, 3, 4, 5, 6, 7}, MaxPosOffset: 5, PingSlotFixed: 869525000, RX2Freq: 869525000, RX2DR: 0,
		DefaultUplink: chans(0, 5, 868100000, 868300000, 868500000), DefaultDown: chans(0, 5, 868100000, 868300000, 868500000), DRs: withLRFHSS(euDRs(), 8, 9, 10, 11)},
	"EU433": {Name: "EU433", RX1Kind: "eu", EURows: []int{0, 1, 2, 3, 4, 5, 6, 7}, MaxPosOffset: 5, PingSlotFixed: 434665000, RX2Freq: 434665000, RX2DR: 0,
		DefaultUplink: chans(0, 5, 433175000, 433375000, 433575000), DefaultDown: chans(0, 5, 433175000, 433375000, 433575000), DRs: euDRs()},
	"CN779": {Name: "CN779", RX1Kind: "eu", EURows: []int{0, 1, 2, 3, 4, 5, 6, 7}, MaxPosOffset: 5, PingSlotFixed: 785000000, RX2Freq: 786000000, RX2DR: 0,
		DefaultUplink: chans(0, 5, 779500000, 779700000, 779900000), DefaultDown: chans(0, 5, 779500000, 779700000, 779900000), DRs: euDRs()},
	"RU864": {Name: "RU864", RX1Kind: "eu", EURows: []int{0, 1, 2, 3, 4, 5, 6, 7}, MaxPosOffset: 5, PingSlotFixed: 868900000, RX2Freq: 869100000, RX2DR: 0,
		DefaultUplink: chans(0, 5, 868900000, 869100000), DefaultDown: chans(0, 5, 868900000, 869100000), DRs: euDRs()},
	"KR920": {Name: "KR920", RX1Kind: "eu", EURows: []int{0, 1, 2, 3, 4, 5}, MaxPosOffset: 5, PingSlotFixed: 923100000, RX2Freq: 921900000, RX2DR: 0,
		DefaultUplink: chans(0, 5, 922100000, 922300000, 922500000), DefaultDown: chans(0, 5, 922100000, 922300000, 922500000), DRs: lora125(0, 12, 11, 10, 9, 8, 7)},
	"IN865": {Name: "IN865", RX1Kind: "in865", // RP002 IN865 table: offsets 0..5 lower the data-rate (DR6 is RFU: DR7-1 is DR5), offsets 6,7 raise it by 1,2 up to DR5
		MaxPosOffset: 5, PingSlotFixed: 866550000, RX2Freq: 866550000, RX2DR: 2,
		DefaultUplink: chans(0, 5, 865062500, 865402500, 865985000), DefaultDown: chans(0, 5, 865062500, 865402500, 865985000),
		DRs: func() map[int]DRDef {
			m := lora125(0, 12, 11, 10, 9, 8, 7)
			m[7] = DRDef{Mod: "FSK", BitRate: 50000}
			return m
		}()},
	"ISM2400": {Name: "ISM2400", RX1Kind: "eu", EURows: []int{0, 1, 2, 3, 4, 5, 6, 7}, MaxPosOffset: 5, RX2Freq: 2423000000, RX2DR: 0,
		DefaultUplink: chans(0, 7, 2403000000, 2425000000, 2479000000), DefaultDown: chans(0, 7, 2403000000, 2425000000, 2479000000),
		DRs: func() map[int]DRDef {
			m := map[int]DRDef{}
			for i, sf := range []int{12, 11, 10, 9, 8, 7, 6, 5} {
				m[i] = DRDef{Mod: "LORA", SF: sf, BW: 812}
			}
			return m
		}()},
	"CN470": {Name: "CN470", RX1ChannelMod: 48, RX1Kind: "eu", EURows: []int{0, 1, 2, 3, 4, 5}, MaxPosOffset: 5, RX2Freq: 505300000, RX2DR: 0,
		PingSlotHop:   []uint32{508300000, 508500000, 508700000, 508900000, 509100000, 509300000, 509500000, 509700000},
		DefaultUplink: func() [][3]uint32 { return series(470300000, 200000, 96, 0, 5) },
		DefaultDown:   func() [][3]uint32 { return series(500300000, 200000, 48, 0, 5) },
		DRs:           lora125(0, 12, 11, 10, 9, 8, 7)},
	"US915": {Name: "US915", RX1ChannelMod: 8, RX1Kind: "us", MaxPosOffset: 3, RX2Freq: 923300000, RX2DR: 8,
		PingSlotHop: func() []uint32 {
			var o []uint32
			for _, c := range series(923300000, 600000, 8, 8, 13) {
				o = append(o, c[0])
			}
			return o
		}(),
		DefaultUplink: func() [][3]uint32 {
			// the upper bound of the 500 kHz channels' range differs between
			// revisions (DR4 only, or up to the LR-FHSS rates): only the lower bound is listed
			return append(series(902300000, 200000, 64, 0, 3), series(903000000, 1600000, 8, 4, 0xFFFFFFFF)...)
		},
		DefaultDown: func() [][3]uint32 { return series(923300000, 600000, 8, 8, 13) },
		DRs: func() map[int]DRDef {
			m := lora125(0, 10, 9, 8, 7)
			m[4] = DRDef{Mod: "LORA", SF: 8, BW: 500}
			for i, sf := range []int{12, 11, 10, 9, 8, 7} {
				m[8+i] = DRDef{Mod: "LORA", SF: sf, BW: 500}
			}
			return withLRFHSS(m, 5, 6)
		}()},
	"AU915": {Name: "AU915", RX1ChannelMod: 8, RX1Kind: "au", MaxPosOffset: 5, RX2Freq: 923300000, RX2DR: 8,
		PingSlotHop: func() []uint32 {
			var o []uint32
			for _, c := range series(923300000, 600000, 8, 8, 13) {
				o = append(o, c[0])
			}
			return o
		}(),
		DefaultUplink: func() [][3]uint32 {
			return append(series(915200000, 200000, 64, 0, 5), series(915900000, 1600000, 8, 6, 0xFFFFFFFF)...)
		},
		DefaultDown: func() [][3]uint32 { return series(923300000, 600000, 8, 8, 13) },
		DRs: func() map[int]DRDef {
			m := lora125(0, 12, 11, 10, 9, 8, 7)
			m[6] = DRDef{Mod: "LORA", SF: 8, BW: 500}
			for i, sf := range []int{12, 11, 10, 9, 8, 7} {
				m[8+i] = DRDef{Mod: "LORA", SF: sf, BW: 500}
			}
			return withLRFHSS(m, 7)
		}()},
}

// AS923 returns the AS923 region with the given frequency offset in Hz
// (0, -1.8 MHz, -6.6 MHz, -5.9 MHz for AS923-1..4).
func AS923(offset int) Region {
	f := func(v uint32) uint32 { return uint32(int(v) + offset) }
	return Region{Name: "AS923", RX1Kind: "as", MaxPosOffset: 5, PingSlotFixed: f(923400000), RX2Freq: f(923200000), RX2DR: 2,
		DefaultUplink: chans(0, 5, f(923200000), f(923400000)), DefaultDown: chans(0, 5, f(923200000), f(923400000)), DRs: euDRs()}
}

// RX1DataRate returns the specified RX1 data-rate for (dr, offset), ok=false
// when the region defines no formula for that cell (not judged by formula).
func (r Region) RX1DataRate(dr, off int, downlinkDwell400 bool) (int, bool) {
	clamp := func(v, lo, hi int) int {
		if v < lo {
			return lo
		}
		if v > hi {
			return hi
		}
		return v
	}
	switch r.RX1Kind {
	case "eu":
		if off < 0 || off > 5 {
			return 0, false
		}
		for _, row := range r.EURows {
			if row == dr {
				return clamp(dr-off, 0, dr), true
			}
		}
	case "in865":
		if off < 0 || off > 7 || dr < 0 || dr > 7 || dr == 6 {
			return 0, false
		}
		if off >= 6 {
			if dr == 7 {
				return 7, true
			}
			return clamp(dr+off-5, 0, 5), true
		}
		v := clamp(dr-off, 0, 7)
		if v == 6 {
			v = 5 // DR6 is RFU in IN865
		}
		return v, true
	case "us":
		if dr >= 0 && dr <= 4 && off >= 0 && off <= 3 {
			return clamp(10+dr-off, 8, 13), true
		}
	case "au":
		if dr >= 0 && dr <= 6 && off >= 0 && off <= 5 {
			return clamp(8+dr-off, 8, 13), true
		}
	case "as":
		if dr >= 0 && dr <= 7 && off >= 0 && off <= 7 {
			eff := []int{0, 1, 2, 3, 4, 5, -1, -2}[off]
			min := 0
			if downlinkDwell400 {
				min = 2
			}
			return clamp(dr-eff, min, 5), true
		}
	}
	return 0, false
}

// LinkADR is the channel-mask part of one LinkADRReq.
type LinkADR struct {
	ChMaskCntl int
	Mask       uint16
}

// ApplyLinkADR is the device-side model of LinkADRReq channel-mask handling
// (LoRaWAN 1.0.x/1.1 section 5.2 with the regional ChMaskCntl tables of
// RP002): plan is the region's plan kind ("dynamic": up to 16 channels,
// ChMaskCntl 0 = channels 0..15, 6 = all defined channels on; "fixed72":
// US915/AU915; "fixed96": CN470), device the currently enabled channels, known
// whether the device has a channel definition for an index. The commands are
// applied in order. An error text is returned when a command would be
// rejected by a conformant device (it enables a channel the device does not
// know, or uses an RFU ChMaskCntl).
func ApplyLinkADR(plan string, device []int, known func(int) bool, cmds []LinkADR) ([]int, string) {
	size := map[string]int{"dynamic": 16, "dynamic-extended": 96, "fixed72": 72, "fixed96": 96}[plan]
	en := make([]bool, size)
	for _, c := range device {
		if c >= 0 && c < size {
			en[c] = true
		}
	}
	set := func(i int, v bool) string {
		if i >= size || !known(i) {
			if v {
				return "enables channel that is not defined on the device"
			}
			return ""
		}
		en[i] = v
		return ""
	}
	for _, cmd := range cmds {
		bit := func(i int) bool { return cmd.Mask&(1<<uint(i)) != 0 }
		var err string
		block := func(base, n int) {
			for i := 0; i < 16; i++ {
				if i >= n {
					if bit(i) {
						err = "sets an RFU mask bit"
					}
					continue
				}
				if e := set(base+i, bit(i)); e != "" {
					err = e
				}
			}
		}
		switch plan {
		case "dynamic":
			switch cmd.ChMaskCntl {
			case 0:
				block(0, 16)
			case 6:
				for i := 0; i < size; i++ {
					if known(i) {
						en[i] = true
					}
				}
			default:
				err = "RFU ChMaskCntl"
			}
		case "dynamic-extended":
			// a dynamic plan the library has let grow beyond the 16 channels of the
			// Regional Parameters: block k is addressed with ChMaskCntl k (the generic
			// rule of the 96-channel plan), 6 switches every defined channel on
			switch {
			case cmd.ChMaskCntl >= 0 && cmd.ChMaskCntl <= 5:
				block(16*cmd.ChMaskCntl, 16)
			case cmd.ChMaskCntl == 6:
				for i := 0; i < size; i++ {
					if known(i) {
						en[i] = true
					}
				}
			default:
				err = "RFU ChMaskCntl"
			}
		case "fixed72":
			switch {
			case cmd.ChMaskCntl >= 0 && cmd.ChMaskCntl <= 3:
				block(16*cmd.ChMaskCntl, 16)
			case cmd.ChMaskCntl == 4:
				block(64, 8)
			case cmd.ChMaskCntl == 5:
				for bank := 0; bank < 8; bank++ {
					for k := 0; k < 8; k++ {
						en[bank*8+k] = bit(bank)
					}
					en[64+bank] = bit(bank)
				}
			case cmd.ChMaskCntl == 6 || cmd.ChMaskCntl == 7:
				for i := 0; i < 64; i++ {
					en[i] = cmd.ChMaskCntl == 6
				}
				block(64, 8)
			default:
				err = "RFU ChMaskCntl"
			}
		case "fixed96":
			switch {
			case cmd.ChMaskCntl >= 0 && cmd.ChMaskCntl <= 5:
				block(16*cmd.ChMaskCntl, 16)
			case cmd.ChMaskCntl == 6:
				for i := range en {
					en[i] = true
				}
			default:
				err = "RFU ChMaskCntl"
			}
		}
		if err != "" {
			return nil, fmt.Sprintf("LinkADRReq{ChMaskCntl:%d ChMask:%04x} %s", cmd.ChMaskCntl, cmd.Mask, err)
		}
	}
	var out []int
	for i, v := range en {
		if v {
			out = append(out, i)
		}
	}
	return out, ""
}

package spec

// Example canonical payload bytes (RFU zero, all fields within every
// revision's ranges) for every MAC command with a payload, and the list of
// payload-less CIDs per direction. Used to compose command streams.
var examplePayload = map[bool]map[byte][]byte{
	false: {
		0x01: {0x01}, 0x02: {0x14, 0x03}, 0x03: {0x52, 0x07, 0x80, 0x21}, 0x04: {0x0C},
		0x05: {0x23, 0x28, 0x76, 0x84}, 0x07: {0x03, 0x18, 0x4F, 0x84, 0x50}, 0x08: {0x05}, 0x09: {0x2D},
		0x0A: {0x04, 0x28, 0x76, 0x84}, 0x0B: {0x01}, 0x0C: {0xA7}, 0x0D: {0x78, 0x56, 0x34, 0x12, 0x80},
		0x0E: {0x25, 0x1B}, 0x0F: {0x93}, 0x11: {0x28, 0x76, 0x84, 0x03}, 0x13: {0x28, 0x76, 0x84}, 0x20: {0x02},
	},
	true: {
		0x01: {0x01}, 0x03: {0x05}, 0x05: {0x06}, 0x06: {0xC8, 0x3B}, 0x07: {0x02}, 0x0A: {0x01}, 0x0B: {0x01},
		0x0F: {0x01}, 0x10: {0x05}, 0x11: {0x03}, 0x13: {0x01}, 0x20: {0x02},
	},
}

// PayloadLess lists the CIDs defined without payload per direction.
var PayloadLess = map[bool][]byte{
	false: {0x06, 0x10},                         // DevStatusReq, PingSlotInfoAns
	true:  {0x02, 0x04, 0x08, 0x09, 0x0C, 0x0D}, // LinkCheckReq, DutyCycleAns, RXTimingSetupAns, TXParamSetupAns, ADRParamSetupAns, DeviceTimeReq
}

// Cmd is one MAC command on the wire: CID and payload bytes.
type Cmd struct {
	CID     byte
	Payload []byte
}

// Bytes is CID | payload.
func (c Cmd) Bytes() []byte { return append([]byte{c.CID}, c.Payload...) }

// Example returns the example command of a CID (payload-less if none).
func Example(uplink bool, cid byte) Cmd {
	return Cmd{CID: cid, Payload: append([]byte(nil), examplePayload[uplink][cid]...)}
}

// DirCIDs lists all defined CIDs of a direction in ascending order.
func DirCIDs(uplink bool) []byte {
	var out []byte
	for cid := 0; cid < 256; cid++ {
		if _, ok := examplePayload[uplink][byte(cid)]; ok {
			out = append(out, byte(cid))
			continue
		}
		for _, p := range PayloadLess[uplink] {
			if p == byte(cid) {
				out = append(out, p)
			}
		}
	}
	return out
}

// Compose returns a command list of the direction whose encoding is exactly
// n bytes long; variant rotates the starting command so that different
// variants give different compositions.
func Compose(uplink bool, n int, variant int) []Cmd {
	cids := DirCIDs(uplink)
	var out []Cmd
	left := n
	for k := 0; k < 4*len(cids) && left > 0; k++ {
		c := Example(uplink, cids[(variant+k*7)%len(cids)])
		if 1+len(c.Payload) <= left {
			out = append(out, c)
			left -= 1 + len(c.Payload)
		}
	}
	for left > 0 {
		out = append(out, Example(uplink, PayloadLess[uplink][(variant+left)%len(PayloadLess[uplink])]))
		left--
	}
	return out
}

// CmdBytes concatenates commands.
func CmdBytes(cmds []Cmd) []byte {
	var out []byte
	for _, c := range cmds {
		out = append(out, c.Bytes()...)
	}
	return out
}

// Frame (spec framing): advance by 1 + the specified size; an error when the
// stream is truncated. sizes gives proprietary sizes (CID >= 0x80).
func FrameCmds(uplink bool, b []byte, propSize func(cid byte) int) ([]Cmd, bool) {
	var out []Cmd
	for i := 0; i < len(b); {
		cid := b[i]
		sz := PayloadSize(uplink, cid)
		if cid >= 0x80 && propSize != nil {
			sz = propSize(cid)
		}
		if i+1+sz > len(b) {
			return nil, false
		}
		out = append(out, Cmd{CID: cid, Payload: append([]byte(nil), b[i+1:i+1+sz]...)})
		i += 1 + sz
	}
	return out, true
}

// DataFrame is a LoRaWAN data frame in specification terms.
type DataFrame struct {
	MType     byte // 2..5
	Major     byte
	DevAddr   uint32
	ADR       bool
	ADRACKReq bool
	ACK       bool
	Bit4      bool // ClassB (uplink) / FPending (downlink)
	FCnt      uint32
	FOpts     []byte
	HasPort   bool
	FPort     byte
	FRM       []byte
}

// Uplink reports the direction implied by the MType.
func (f DataFrame) Uplink() bool { return f.MType == 2 || f.MType == 4 }

// Msg serialises MHDR | FHDR | FPort | FRMPayload (everything but the MIC).
func (f DataFrame) Msg() []byte {
	out := []byte{f.MType<<5 | f.Major&3}
	out = append(out, le32(f.DevAddr)...)
	var fc byte
	if f.ADR {
		fc |= 0x80
	}
	if f.ADRACKReq {
		fc |= 0x40
	}
	if f.ACK {
		fc |= 0x20
	}
	if f.Bit4 {
		fc |= 0x10
	}
	fc |= byte(len(f.FOpts)) & 0x0f
	out = append(out, fc, byte(f.FCnt), byte(f.FCnt>>8))
	out = append(out, f.FOpts...)
	if f.HasPort {
		out = append(out, f.FPort)
		out = append(out, f.FRM...)
	}
	return out
}

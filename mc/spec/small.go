// Package spec is the reference model used as oracle: written from the
// LoRaWAN 1.0.x/1.1 specification, the Regional Parameters, the Backend
// Interfaces, TS003/4/5/6 and RFC 3394/4493 - never from the library. It does
// not import github.com/brocaar/lorawan.
package spec

import (
	"math/big"
	"time"
)

// LeapDates returns the UTC midnights at whose start GPS-UTC grows by one
// second (IERS Bulletin C history since the GPS epoch).
func LeapDates() []time.Time {
	d := func(y int, m time.Month) time.Time { return time.Date(y, m, 1, 0, 0, 0, 0, time.UTC) }
	return []time.Time{
		d(1981, 7), d(1982, 7), d(1983, 7), d(1985, 7), d(1988, 1), d(1990, 1),
		d(1991, 1), d(1992, 7), d(1993, 7), d(1994, 7), d(1996, 1), d(1997, 7),
		d(1999, 1), d(2006, 1), d(2009, 1), d(2012, 7), d(2015, 7), d(2017, 1),
	}
}

// EIRPTable is the TXParamSetupReq MaxEIRP coding (LoRaWAN 1.0.2+ table).
func EIRPTable() [16]float32 {
	return [16]float32{8, 10, 12, 13, 14, 16, 18, 20, 21, 24, 26, 27, 29, 30, 33, 36}
}

// AirtimeExact is the Semtech LoRa time-on-air formula (AN1200.13) in exact
// arithmetic: payload symbol count and total time in nanoseconds. bw in kHz.
//
//	nPayload = 8 + max(ceil((8PL - 4SF + 28 + 16 - 20H) / (4(SF - 2DE))) * (CR + 4), 0)
//	T = (nPreamble + 4.25 + nPayload) * 2^SF / BW
func AirtimeExact(pl, sf, bwKHz, preamble, cr int, headerEnabled, ldro bool) (int, *big.Rat) {
	h, de := 0, 0
	if !headerEnabled {
		h = 1
	}
	if ldro {
		de = 1
	}
	a := 8*pl - 4*sf + 28 + 16 - 20*h
	b := 4 * (sf - 2*de)
	// ceil(a/b) for b > 0 and any sign of a
	q := a / b
	if a%b != 0 && a > 0 {
		q++
	}
	n := q * (cr + 4)
	if n < 0 {
		n = 0
	}
	n += 8
	// symbols * 2^sf / (bw kHz) ms = ... in ns: 2^sf * 1e6 / bw
	tsym := new(big.Rat).SetFrac64(int64(1<<uint(sf))*1000000, int64(bwKHz))
	nsym := new(big.Rat).SetFrac64(int64(4*(preamble+n)+17), 4) // preamble + 4.25 + n
	return n, new(big.Rat).Mul(nsym, tsym)
}

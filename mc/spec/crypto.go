package spec

import (
	"bytes"
	"crypto/aes"
	"encoding/binary"
	"encoding/hex"
	"errors"
	"fmt"
)

// AESEnc encrypts one 16-byte block.
func AESEnc(key, in []byte) []byte {
	c, err := aes.NewCipher(key)
	if err != nil {
		panic(err)
	}
	out := make([]byte, 16)
	c.Encrypt(out, in)
	return out
}

// AESDec decrypts one 16-byte block.
func AESDec(key, in []byte) []byte {
	c, err := aes.NewCipher(key)
	if err != nil {
		panic(err)
	}
	out := make([]byte, 16)
	c.Decrypt(out, in)
	return out
}

func shl1(in []byte) []byte {
	out := make([]byte, len(in))
	var carry byte
	for i := len(in) - 1; i >= 0; i-- {
		out[i] = in[i]<<1 | carry
		carry = in[i] >> 7
	}
	return out
}

// CMAC is AES-CMAC per RFC 4493 (full 16-byte tag).
func CMAC(key, msg []byte) []byte {
	const rb = 0x87
	l := AESEnc(key, make([]byte, 16))
	k1 := shl1(l)
	if l[0]&0x80 != 0 {
		k1[15] ^= rb
	}
	k2 := shl1(k1)
	if k1[0]&0x80 != 0 {
		k2[15] ^= rb
	}
	n := (len(msg) + 15) / 16
	complete := n > 0 && len(msg)%16 == 0
	if n == 0 {
		n = 1
	}
	last := make([]byte, 16)
	if complete {
		copy(last, msg[16*(n-1):])
		for i := range last {
			last[i] ^= k1[i]
		}
	} else {
		rem := msg[16*(n-1):]
		copy(last, rem)
		last[len(rem)] = 0x80
		for i := range last {
			last[i] ^= k2[i]
		}
	}
	x := make([]byte, 16)
	for i := 0; i < n-1; i++ {
		y := make([]byte, 16)
		for j := range y {
			y[j] = x[j] ^ msg[16*i+j]
		}
		x = AESEnc(key, y)
	}
	y := make([]byte, 16)
	for j := range y {
		y[j] = x[j] ^ last[j]
	}
	return AESEnc(key, y)
}

func mustHex(s string) []byte {
	b, err := hex.DecodeString(s)
	if err != nil {
		panic(err)
	}
	return b
}

// SelfTest checks the crypto primitives against the RFC vectors; the checker
// refuses to run when its own oracle is broken.
func SelfTest() error {
	key := mustHex("2b7e151628aed2a6abf7158809cf4f3c")
	msg := mustHex("6bc1bee22e409f96e93d7e117393172aae2d8a571e03ac9c9eb76fac45af8e5130c81c46a35ce411e5fbc1191a0a52eff69f2445df4f9b17ad2b417be66c3710")
	for _, v := range []struct {
		n   int
		tag string
	}{{0, "bb1d6929e95937287fa37d129b756746"}, {16, "070a16b46b4d4144f79bdd9dd04a287c"}, {40, "dfa66747de9ae63030ca32611497c827"}, {64, "51f0bebf7e3b9d92fc49741779363cfe"}} {
		if got := hex.EncodeToString(CMAC(key, msg[:v.n])); got != v.tag {
			return fmt.Errorf("spec: CMAC self-test failed for length %d: %s", v.n, got)
		}
	}
	// RFC 3394 4.1, 4.3, 4.6 (128-bit key data with 128/192/256-bit KEK)
	kd := mustHex("00112233445566778899aabbccddeeff")
	for _, v := range []struct{ kek, ct string }{
		{"000102030405060708090a0b0c0d0e0f", "1fa68b0a8112b447aef34bd8fb5a7b829d3e862371d2cfe5"},
		{"000102030405060708090a0b0c0d0e0f1011121314151617", "96778b25ae6ca435f92b5b97c050aed2468ab8a17ad84e5d"},
		{"000102030405060708090a0b0c0d0e0f101112131415161718191a1b1c1d1e1f", "64e8c3f9ce0f5ba263e9777905818a2a93c8191e7d6e8ae7"},
	} {
		w := KeyWrap(mustHex(v.kek), kd)
		if hex.EncodeToString(w) != v.ct {
			return fmt.Errorf("spec: RFC 3394 wrap self-test failed: %x", w)
		}
		u, err := KeyUnwrap(mustHex(v.kek), w)
		if err != nil || !bytes.Equal(u, kd) {
			return fmt.Errorf("spec: RFC 3394 unwrap self-test failed")
		}
		w[3] ^= 1
		if _, err := KeyUnwrap(mustHex(v.kek), w); err == nil {
			return errors.New("spec: RFC 3394 unwrap accepted a corrupted blob")
		}
	}
	return nil
}

// KeyWrap is RFC 3394 key wrap with the default IV.
func KeyWrap(kek, plain []byte) []byte {
	return KeyWrapIV(kek, plain, bytes.Repeat([]byte{0xA6}, 8))
}

// KeyWrapIV is the RFC 3394 wrapping process with a caller-chosen initial value (only the default
// one makes the result an RFC 3394 key-wrap blob; others are used to build blobs that must be refused).
func KeyWrapIV(kek, plain, iv []byte) []byte {
	n := len(plain) / 8
	a := append([]byte(nil), iv...)
	r := make([][]byte, n)
	for i := range r {
		r[i] = append([]byte(nil), plain[8*i:8*i+8]...)
	}
	c, err := aes.NewCipher(kek)
	if err != nil {
		panic(err)
	}
	buf := make([]byte, 16)
	for j := 0; j <= 5; j++ {
		for i := 0; i < n; i++ {
			copy(buf, a)
			copy(buf[8:], r[i])
			c.Encrypt(buf, buf)
			t := uint64(n*j + i + 1)
			var tb [8]byte
			binary.BigEndian.PutUint64(tb[:], t)
			for k := 0; k < 8; k++ {
				a[k] = buf[k] ^ tb[k]
			}
			copy(r[i], buf[8:])
		}
	}
	out := append([]byte(nil), a...)
	for i := range r {
		out = append(out, r[i]...)
	}
	return out
}

// KeyUnwrap is RFC 3394 key unwrap; it fails when the integrity check value
// does not verify.
func KeyUnwrap(kek, wrapped []byte) ([]byte, error) {
	if len(wrapped)%8 != 0 || len(wrapped) < 24 {
		return nil, errors.New("spec: wrapped key length invalid")
	}
	n := len(wrapped)/8 - 1
	a := append([]byte(nil), wrapped[:8]...)
	r := make([][]byte, n)
	for i := range r {
		r[i] = append([]byte(nil), wrapped[8*(i+1):8*(i+2)]...)
	}
	c, err := aes.NewCipher(kek)
	if err != nil {
		return nil, err
	}
	buf := make([]byte, 16)
	for j := 5; j >= 0; j-- {
		for i := n - 1; i >= 0; i-- {
			t := uint64(n*j + i + 1)
			var tb [8]byte
			binary.BigEndian.PutUint64(tb[:], t)
			for k := 0; k < 8; k++ {
				buf[k] = a[k] ^ tb[k]
			}
			copy(buf[8:], r[i])
			c.Decrypt(buf, buf)
			copy(a, buf[:8])
			copy(r[i], buf[8:])
		}
	}
	if !bytes.Equal(a, bytes.Repeat([]byte{0xA6}, 8)) {
		return nil, errors.New("spec: integrity check failed")
	}
	var out []byte
	for i := range r {
		out = append(out, r[i]...)
	}
	return out, nil
}

// ---- LoRaWAN blocks. DevAddr is given as the 32-bit address value (its
// most significant byte is the first byte of the library's DevAddr array).

func le32(v uint32) []byte {
	b := make([]byte, 4)
	binary.LittleEndian.PutUint32(b, v)
	return b
}

// DataMICParams are the inputs of the data-frame MIC.
type DataMICParams struct {
	V11      bool
	Uplink   bool
	ACK      bool
	ConfFCnt uint32
	TxDR     uint8
	TxCh     uint8
	DevAddr  uint32
	FCnt     uint32
	FKey     []byte // FNwkSIntKey (NwkSKey for 1.0)
	SKey     []byte // SNwkSIntKey
}

// B0 builds the B0 block for msg.
func B0(p DataMICParams, msgLen int) []byte {
	b := make([]byte, 16)
	b[0] = 0x49
	if !p.Uplink {
		b[5] = 1
		if p.V11 && p.ACK {
			binary.LittleEndian.PutUint16(b[1:3], uint16(p.ConfFCnt))
		}
	}
	copy(b[6:10], le32(p.DevAddr))
	copy(b[10:14], le32(p.FCnt))
	b[15] = byte(msgLen)
	return b
}

// B1 builds the 1.1 uplink B1 block.
func B1(p DataMICParams, msgLen int) []byte {
	b := make([]byte, 16)
	b[0] = 0x49
	if p.ACK {
		binary.LittleEndian.PutUint16(b[1:3], uint16(p.ConfFCnt))
	}
	b[3] = p.TxDR
	b[4] = p.TxCh
	copy(b[6:10], le32(p.DevAddr))
	copy(b[10:14], le32(p.FCnt))
	b[15] = byte(msgLen)
	return b
}

// DataMIC is the specified MIC of a data frame whose serialisation without
// MIC (MHDR | FHDR | FPort | FRMPayload) is msg. It also returns cmacF[0:2].
func DataMIC(p DataMICParams, msg []byte) (mic [4]byte, cmacF2 [2]byte) {
	if !p.Uplink {
		// downlink: SNwkSIntKey (= NwkSKey for 1.0) over B0
		t := CMAC(p.SKey, append(B0(p, len(msg)), msg...))
		copy(mic[:], t[:4])
		return
	}
	f := CMAC(p.FKey, append(B0(p, len(msg)), msg...))
	copy(cmacF2[:], f[:2])
	if !p.V11 {
		copy(mic[:], f[:4])
		return
	}
	s := CMAC(p.SKey, append(B1(p, len(msg)), msg...))
	copy(mic[0:2], s[0:2])
	copy(mic[2:4], f[0:2])
	return
}

// Keystream returns the FRMPayload keystream S_1..S_k truncated to n bytes.
func Keystream(key []byte, uplink bool, devAddr, fCnt uint32, n int) []byte {
	var out []byte
	for i := 1; len(out) < n; i++ {
		a := make([]byte, 16)
		a[0] = 1
		if !uplink {
			a[5] = 1
		}
		copy(a[6:10], le32(devAddr))
		copy(a[10:14], le32(fCnt))
		a[15] = byte(i)
		out = append(out, AESEnc(key, a)...)
	}
	return out[:n]
}

// FOptsKeystream returns the single FOpts keystream block (LoRaWAN 1.1 with
// the errata: byte 4 carries the counter type, byte 15 is 1).
func FOptsKeystream(key []byte, aFCntDown, uplink bool, devAddr, fCnt uint32) []byte {
	a := make([]byte, 16)
	a[0] = 1
	if aFCntDown {
		a[4] = 2
	} else {
		a[4] = 1
	}
	if !uplink {
		a[5] = 1
	}
	copy(a[6:10], le32(devAddr))
	copy(a[10:14], le32(fCnt))
	a[15] = 1
	return AESEnc(key, a)
}

// XOR returns a XOR ks[:len(a)].
func XOR(a, ks []byte) []byte {
	out := make([]byte, len(a))
	for i := range a {
		out[i] = a[i] ^ ks[i]
	}
	return out
}

// JoinMIC is CMAC(key, MHDR|payload)[0:4] (join-request, rejoin-request and
// 1.0 join-accept).
func JoinMIC(key []byte, mhdr byte, payload []byte) (mic [4]byte) {
	t := CMAC(key, append([]byte{mhdr}, payload...))
	copy(mic[:], t[:4])
	return
}

// JoinAcceptMIC11 is the OptNeg join-accept MIC: CMAC(JSIntKey, JoinReqType |
// JoinEUI | DevNonce | MHDR | payload)[0:4], JoinEUI given in display order
// (MSB first) and serialised little-endian.
func JoinAcceptMIC11(key []byte, joinReqType byte, joinEUI [8]byte, devNonce uint16, mhdr byte, payload []byte) (mic [4]byte) {
	m := []byte{joinReqType}
	for i := 7; i >= 0; i-- {
		m = append(m, joinEUI[i])
	}
	m = append(m, byte(devNonce), byte(devNonce>>8))
	m = append(m, mhdr)
	m = append(m, payload...)
	t := CMAC(key, m)
	copy(mic[:], t[:4])
	return
}

// ECBDecrypt applies AES-decrypt block-wise (what the network does to a
// join-accept payload|MIC).
func ECBDecrypt(key, in []byte) []byte {
	var out []byte
	for i := 0; i+16 <= len(in); i += 16 {
		out = append(out, AESDec(key, in[i:i+16])...)
	}
	return out
}

// ECBEncrypt applies AES-encrypt block-wise (what the device does to recover it).
func ECBEncrypt(key, in []byte) []byte {
	var out []byte
	for i := 0; i+16 <= len(in); i += 16 {
		out = append(out, AESEnc(key, in[i:i+16])...)
	}
	return out
}

func rev(b []byte) []byte {
	out := make([]byte, len(b))
	for i := range b {
		out[len(b)-1-i] = b[i]
	}
	return out
}

// DeriveKey10 derives a LoRaWAN 1.0 session key: AES(key, t | JoinNonce LE24 |
// NetID LE24 | DevNonce LE16 | pad). netID in display order.
func DeriveKey10(key []byte, t byte, joinNonce uint32, netID [3]byte, devNonce uint16) []byte {
	b := make([]byte, 16)
	b[0] = t
	b[1], b[2], b[3] = byte(joinNonce), byte(joinNonce>>8), byte(joinNonce>>16)
	copy(b[4:7], rev(netID[:]))
	b[7], b[8] = byte(devNonce), byte(devNonce>>8)
	return AESEnc(key, b)
}

// DeriveKey11 derives a LoRaWAN 1.1 session key: AES(key, t | JoinNonce LE24 |
// JoinEUI LE64 | DevNonce LE16 | pad). joinEUI in display order.
func DeriveKey11(key []byte, t byte, joinNonce uint32, joinEUI [8]byte, devNonce uint16) []byte {
	b := make([]byte, 16)
	b[0] = t
	b[1], b[2], b[3] = byte(joinNonce), byte(joinNonce>>8), byte(joinNonce>>16)
	copy(b[4:12], rev(joinEUI[:]))
	b[12], b[13] = byte(devNonce), byte(devNonce>>8)
	return AESEnc(key, b)
}

// DeriveJSKey derives JSEncKey (t=5) / JSIntKey (t=6): AES(NwkKey, t | DevEUI LE | pad).
func DeriveJSKey(nwkKey []byte, t byte, devEUI [8]byte) []byte {
	b := make([]byte, 16)
	b[0] = t
	copy(b[1:9], rev(devEUI[:]))
	return AESEnc(nwkKey, b)
}

package spec

import "testing"

func TestSelf(t *testing.T) {
	if err := SelfTest(); err != nil {
		t.Fatal(err)
	}
}

func TestTables(t *testing.T) {
	if err := CheckTables(); err != nil {
		t.Fatal(err)
	}
	if len(Commands) != 29 {
		t.Fatalf("%d commands", len(Commands))
	}
}

func TestCompose(t *testing.T) {
	for _, up := range []bool{false, true} {
		for n := 0; n <= 40; n++ {
			for v := 0; v < 5; v++ {
				c := Compose(up, n, v)
				b := CmdBytes(c)
				if len(b) != n {
					t.Fatalf("compose %v %d %d: %d bytes", up, n, v, len(b))
				}
				back, ok := FrameCmds(up, b, nil)
				if !ok || len(back) != len(c) {
					t.Fatalf("frame %v %d", up, n)
				}
			}
		}
		for cid, ex := range examplePayload[up] {
			cmd := Lookup(up, cid)
			if cmd == nil || len(ex) != cmd.Size {
				t.Fatalf("example %v %x", up, cid)
			}
			f := DecodeFields(cmd.Fields, ex)
			enc, ok := EncodeFields(cmd.Fields, cmd.Size, f)
			if !ok || string(enc) != string(ex) {
				t.Fatalf("example %v %x not canonical: %x vs %x", up, cid, enc, ex)
			}
			for _, fl := range cmd.Fields {
				if !fl.Must(f[fl.Name]) {
					t.Fatalf("example %v %x field %s outside must-accept", up, cid, fl.Name)
				}
			}
		}
	}
}

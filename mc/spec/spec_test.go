package spec

import "testing"

func TestSelf(t *testing.T) {
	if err := SelfTest(); err != nil {
		t.Fatal(err)
	}
}

func TestTables(t *testing.T) {
	if err := CheckTables(); err != nil {
		t.Fatal(err)
	}
	if len(Commands) != 29 {
		t.Fatalf("%d commands", len(Commands))
	}
}

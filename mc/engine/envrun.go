package engine

import (
	"bufio"
	"bytes"
	"fmt"
	"io/ioutil"
	"os"
	"os/exec"
	"strings"
	"sync"
)

// EnvVariant is one answer of the process environment other than the default one (a time zone, say):
// something the code under check may read without it being an argument of any call.
type EnvVariant struct {
	Name string
	Env  []string
}

// IsEnvChild reports whether this process is the re-execution of a check under an environment variant.
func IsEnvChild() bool { return os.Getenv("VERIF_ENV_CHILD") != "" }

// EnvironmentVariants runs the whole check again, as child processes of this one, under each of the
// given environments (what a library reads at package initialisation cannot be varied from inside a
// process). Every violation class a child reports becomes a violation class "environment/<name>/<key>"
// of this run; the children run concurrently; a child does not start children.
func (r *Run) EnvironmentVariants(vs []EnvVariant) {
	if IsEnvChild() {
		return
	}
	var names []string
	for _, v := range vs {
		names = append(names, v.Name)
	}
	r.Rule += fmt.Sprintf(" Environment: the complete check is run again in a child process under each of %v; a violation there is a violation here.", names)
	if r.Replay {
		keep := vs[:0]
		for _, v := range vs {
			if r.ReplayPart == "environment/"+v.Name {
				keep = append(keep, v)
			}
		}
		vs = keep
		if len(vs) == 0 {
			return
		}
	}
	type res struct {
		out  []byte
		code int
		err  error
	}
	results := make([]res, len(vs))
	var wg sync.WaitGroup
	for i, v := range vs {
		wg.Add(1)
		go func(i int, v EnvVariant) {
			defer wg.Done()
			tmp, err := ioutil.TempDir("", "verif-env-")
			if err != nil {
				results[i].err = err
				return
			}
			defer os.RemoveAll(tmp)
			cmd := exec.Command(os.Args[0], "-property", r.Prop, "-tier", r.Tier)
			cmd.Env = append(append(os.Environ(), v.Env...), "VERIF_ENV_CHILD="+v.Name, "VERIF_OUT="+tmp)
			var buf bytes.Buffer
			cmd.Stdout, cmd.Stderr = &buf, &buf
			err = cmd.Run()
			results[i].out = buf.Bytes()
			if ee, ok := err.(*exec.ExitError); ok {
				results[i].code = ee.ExitCode()
			} else if err != nil {
				results[i].err = err
			}
		}(i, v)
	}
	wg.Wait()
	for i, v := range vs {
		part := "environment/" + v.Name
		rs := results[i]
		var found int
		sc := bufio.NewScanner(bytes.NewReader(rs.out))
		sc.Buffer(make([]byte, 1<<20), 1<<24)
		for sc.Scan() {
			line := sc.Text()
			if !strings.HasPrefix(line, "VIOLATION property=") {
				continue
			}
			key, what := "", line
			if k := strings.Index(line, " key="); k >= 0 {
				rest := line[k+5:]
				if e := strings.Index(rest, " cases="); e >= 0 {
					key = rest[:e]
				}
				if w := strings.Index(rest, " :: "); w >= 0 {
					what = rest[w+4:]
				}
			}
			found++
			r.fail(part+"/"+key, fmt.Sprintf("under %v: %s", v.Env, what), part, 0, nil, nil)
		}
		switch {
		case rs.err != nil:
			r.HarnessError("environment variant %s: child could not be run: %v", v.Name, rs.err)
		case rs.code == 1 && found == 0:
			r.HarnessError("environment variant %s: child exited 1 without a VIOLATION line", v.Name)
		case rs.code != 0 && rs.code != 1:
			tail := rs.out
			if len(tail) > 600 {
				tail = tail[len(tail)-600:]
			}
			r.HarnessError("environment variant %s: child exited %d: %s", v.Name, rs.code, oneLine(string(tail)))
		}
		r.parts = append(r.parts, PartInfo{Name: part, Dims: []string{"complete check in a child process", strings.Join(v.Env, " ")}, Size: 1, Executed: 1, NonTrivial: 1, Complete: true})
	}
}

// ReportFatal is called on the single-worker re-run that follows a run the Go runtime ended with a
// fatal error (concurrent map access: not recoverable in-process). The enumerating parts call the
// library from all workers at once, each on values of its own. For the properties that speak about
// exactly that - C09 (every decoder returns normally) and C10 (calls on distinct values are
// independent) - the crash is a violation in its own right; for the others it is recorded and the
// property's own oracles, run on one worker, decide.
func (r *Run) ReportFatal(logPath string) {
	b, err := ioutil.ReadFile(logPath)
	if err != nil {
		return
	}
	msg, site := "", "outside-library"
	lines := strings.Split(string(b), "\n")
	for i, l := range lines {
		if strings.HasPrefix(l, "fatal error: ") {
			msg = strings.TrimPrefix(l, "fatal error: ")
			site = PanicSite(strings.Join(lines[i:], "\n"))
			break
		}
	}
	if msg == "" {
		return
	}
	r.Assume(fmt.Sprintf("the first (parallel) run of this check was ended by the Go runtime: fatal error: %s (first library frame: %s); this is the re-run on one worker", msg, site))
	if (r.Prop == "C09" || r.Prop == "C10") && site != "outside-library" {
		r.fail("fatal/"+strings.Replace(msg, " ", "-", -1)+"/"+site, fmt.Sprintf("calls of the library from several goroutines, each on values of its own, ended the process: fatal error: %s (first library frame %s)", msg, site), "parallel-run", 0, nil, nil)
	}
}

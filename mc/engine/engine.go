// Package engine is the shared harness of the bounded-exhaustive explorers:
// E1 (product enumeration, Part), E2 (explicit-state BFS on real objects,
// Explore) and the reporting side (evidence, violations, known findings,
// replays). E3 (schedule search) lives in engine/sched and reports through
// the same Run.
package engine

import (
	"encoding/json"
	"fmt"
	"hash/fnv"
	"io/ioutil"
	"os"
	"path/filepath"
	"runtime"
	"runtime/debug"
	"sort"
	"strings"
	"sync"
	"sync/atomic"
	"time"
)

// Root is the /verif directory (overridable for tests through VERIF_ROOT).
var Root = func() string {
	if v := os.Getenv("VERIF_ROOT"); v != "" {
		return v
	}
	return "/verif"
}()

// OutRoot is where evidence and replays are written: Root, unless a development run against a
// scratch tree asks for another place through VERIF_OUT (so that such a run never rewrites the
// committed evidence of the real tree).
var OutRoot = func() string {
	if v := os.Getenv("VERIF_OUT"); v != "" {
		return v
	}
	return Root
}()

// Violation is one (first per finding class) violation of a property.
type Violation struct {
	Key    string      `json:"key"`
	What   string      `json:"what"`
	Part   string      `json:"part"`
	Index  uint64      `json:"index"`
	Path   []int       `json:"path,omitempty"`
	Detail interface{} `json:"detail,omitempty"`
	Count  uint64      `json:"count"`
	Replay string      `json:"replay,omitempty"`
}

// KnownFinding is one entry of /verif/known_findings.json.
type KnownFinding struct {
	Property string `json:"property"`
	Key      string `json:"key"`
	What     string `json:"what"`
	Status   string `json:"status"` // open | fixed
	Commit   string `json:"commit,omitempty"`
	Record   string `json:"record,omitempty"`
}

// PartInfo records what one enumerated sub-space covered.
type PartInfo struct {
	Name        string   `json:"name"`
	Size        uint64   `json:"size"`
	Executed    uint64   `json:"executed"`
	NonTrivial  uint64   `json:"nontrivial"`
	Complete    bool     `json:"complete"`
	Dims        []string `json:"dims,omitempty"`
	States      uint64   `json:"states,omitempty"`
	Transitions uint64   `json:"transitions,omitempty"`
	MaxDepth    int      `json:"max_depth,omitempty"`
	Closed      bool     `json:"frontier_closed,omitempty"`
	WallS       float64  `json:"wall_s"`
}

// Run is one execution of one property's check.
type Run struct {
	Prop  string
	Tier  string
	Seed  int64
	Level string
	Rule  string

	// replay mode
	Replay      bool
	ReplayPart  string
	ReplayIndex uint64
	ReplayPath  []int

	Workers  int
	Deadline time.Time

	start time.Time

	evals       uint64
	nontriv     uint64
	states      uint64
	transitions uint64
	traces      uint64

	mu          sync.Mutex
	outcomes    map[string]uint64
	samples     []interface{}
	viol        map[string]*Violation
	violOrder   []string
	known       map[string]KnownFinding
	knownSeen   map[string]uint64
	parts       []PartInfo
	assumptions []string
	extra       map[string]interface{}
	incomplete  bool
	unstableN   int
	peakHeap    uint64 // sampled by the watchdog
	harnessErrs []string
	guards      []string

	inflight []inflight
}

type inflight struct {
	part  atomic.Value // string
	index uint64
	since int64 // unix nano; 0 = idle
	_     [4]uint64
}

// NewRun creates a run and loads the known findings of the property.
func NewRun(prop, tier string, seed int64, level string) *Run {
	r := &Run{
		Prop: prop, Tier: tier, Seed: seed, Level: level,
		Workers:   runtime.NumCPU(),
		start:     time.Now(),
		outcomes:  map[string]uint64{},
		viol:      map[string]*Violation{},
		known:     map[string]KnownFinding{},
		knownSeen: map[string]uint64{},
		extra:     map[string]interface{}{},
	}
	if v := os.Getenv("VERIF_WORKERS"); v != "" {
		fmt.Sscanf(v, "%d", &r.Workers)
	}
	if r.Workers < 1 {
		r.Workers = 1
	}
	r.inflight = make([]inflight, r.Workers)
	// internal deadline: a run that exceeds it exits 0 with exhaustive:false
	limit := 20 * time.Minute
	if tier == "thorough" {
		limit = 3 * time.Hour
	}
	if v := os.Getenv("VERIF_DEADLINE_S"); v != "" {
		var s int
		fmt.Sscanf(v, "%d", &s)
		if s > 0 {
			limit = time.Duration(s) * time.Second
		}
	}
	r.Deadline = r.start.Add(limit)
	r.loadKnown()
	go r.watchdog()
	return r
}

func (r *Run) loadKnown() {
	b, err := ioutil.ReadFile(filepath.Join(Root, "known_findings.json"))
	if err != nil {
		return
	}
	var f struct {
		Findings []KnownFinding `json:"findings"`
	}
	if err := json.Unmarshal(b, &f); err != nil {
		r.HarnessError("known_findings.json does not parse: %v", err)
		return
	}
	for _, k := range f.Findings {
		if k.Property == r.Prop && k.Status == "open" {
			r.known[k.Key] = k
		}
	}
}

// Thorough reports whether the thorough tier was requested.
func (r *Run) Thorough() bool { return r.Tier == "thorough" }

// Assume records an assumption / trusted-base statement for the evidence.
func (r *Run) Assume(s string) {
	r.mu.Lock()
	r.assumptions = append(r.assumptions, s)
	r.mu.Unlock()
}

// Extra records an additional coverage key.
func (r *Run) Extra(k string, v interface{}) {
	r.mu.Lock()
	r.extra[k] = v
	r.mu.Unlock()
}

// HarnessError records a problem of the checker itself (exit 2, never a VIOLATION).
func (r *Run) HarnessError(format string, a ...interface{}) {
	r.mu.Lock()
	r.harnessErrs = append(r.harnessErrs, fmt.Sprintf(format, a...))
	r.mu.Unlock()
}

// Guard is a vacuity guard: cond must hold, else the run fails itself (exit 2).
func (r *Run) Guard(cond bool, format string, a ...interface{}) {
	msg := fmt.Sprintf(format, a...)
	if r.Replay {
		return
	}
	r.mu.Lock()
	r.guards = append(r.guards, fmt.Sprintf("%s: %v", msg, cond))
	r.mu.Unlock()
	if !cond {
		r.HarnessError("vacuity guard failed: %s", msg)
	}
}

// OutcomeCount returns how often an outcome class was observed so far.
func (r *Run) OutcomeCount(class string) uint64 {
	r.mu.Lock()
	defer r.mu.Unlock()
	return r.outcomes[class]
}

// OutcomePrefixCount sums all outcome classes with the given prefix.
func (r *Run) OutcomePrefixCount(prefix string) uint64 {
	r.mu.Lock()
	defer r.mu.Unlock()
	var n uint64
	for k, v := range r.outcomes {
		if strings.HasPrefix(k, prefix) {
			n += v
		}
	}
	return n
}

// AddStates adds to the model-checking counters.
func (r *Run) AddStates(states, transitions, traces uint64) {
	atomic.AddUint64(&r.states, states)
	atomic.AddUint64(&r.transitions, transitions)
	atomic.AddUint64(&r.traces, traces)
}

// Case is the handle a check function gets for one enumerated case.
type Case struct {
	r     *Run
	w     *wstate
	Part  string
	Index uint64
	Path  []int

	recheck bool
	failed  []string
}

type wstate struct {
	id       int
	cases    uint64
	evals    uint64
	nontriv  uint64
	outcomes map[string]uint64
	samples  []interface{}
}

// Eval counts one evaluation of an inner loop of the case (a case that never
// calls Eval counts as one evaluation).
func (c *Case) Eval() {
	if !c.recheck {
		c.w.evals++
	}
}

// NonTrivial marks the case as non-trivial under the property's rule.
func (c *Case) NonTrivial() {
	if !c.recheck {
		c.w.nontriv++
	}
}

// Outcome counts an observed outcome class.
func (c *Case) Outcome(class string) {
	if !c.recheck {
		c.w.outcomes[class]++
	}
}

// Sample keeps the value as an evidence sample (first few per worker only).
func (c *Case) Sample(v func() interface{}) {
	if !c.recheck && len(c.w.samples) < 2 {
		c.w.samples = append(c.w.samples, v())
	}
}

// WantSample reports whether another sample would be kept.
func (c *Case) WantSample() bool { return !c.recheck && len(c.w.samples) < 2 }

// Fail reports a violation of the property in finding class key.
func (c *Case) Fail(key, what string, detail interface{}) {
	if c.recheck {
		c.failed = append(c.failed, key)
		return
	}
	c.r.fail(key, what, c.Part, c.Index, c.Path, detail)
}

// Failf is Fail with a formatted description and no detail.
func (c *Case) Failf(key, format string, a ...interface{}) {
	c.Fail(key, fmt.Sprintf(format, a...), nil)
}

func (r *Run) fail(key, what, part string, index uint64, path []int, detail interface{}) {
	r.mu.Lock()
	defer r.mu.Unlock()
	if _, ok := r.known[key]; ok {
		r.knownSeen[key]++
		return
	}
	if v, ok := r.viol[key]; ok {
		v.Count++
		// keep the smallest index as the witness (deterministic across schedules)
		if part == v.Part && index < v.Index {
			v.Index, v.What, v.Detail, v.Path = index, what, detail, append([]int(nil), path...)
		}
		return
	}
	if len(r.viol) >= 200 {
		// too many classes: count under an overflow class, never drop silently
		const ov = "overflow/more-than-200-finding-classes"
		if v, ok := r.viol[ov]; ok {
			v.Count++
			return
		}
		key, what = ov, "more than 200 distinct finding classes; first overflow: "+key+": "+what
	}
	r.viol[key] = &Violation{Key: key, What: what, Part: part, Index: index, Path: append([]int(nil), path...), Detail: detail, Count: 1}
	r.violOrder = append(r.violOrder, key)
}

// Part enumerates indices 0..n-1 of a sub-space on all workers. fn must be a
// deterministic function of the index. In replay mode only the recorded index
// of the recorded part is executed.
func (r *Run) Part(name string, n uint64, fn func(c *Case)) {
	r.PartDims(name, nil, n, fn)
}

// PartDims is Part with a description of the dimensions of the product.
func (r *Run) PartDims(name string, dims []string, n uint64, fn func(c *Case)) {
	r.PartWorkers(name, dims, n, r.Workers, fn)
}

// PartWorkers is PartDims with a cap on the number of workers (used where the
// code under test serialises on a global lock and more workers only contend).
func (r *Run) PartWorkers(name string, dims []string, n uint64, workers int, fn func(c *Case)) {
	if workers > r.Workers || workers < 1 {
		workers = r.Workers
	}
	if r.Replay {
		if name != r.ReplayPart {
			return
		}
		w := &wstate{outcomes: map[string]uint64{}}
		c := &Case{r: r, w: w, Part: name, Index: r.ReplayIndex}
		r.runCase(c, fn, 0)
		r.merge(w)
		fmt.Printf("replayed part=%s index=%d\n", name, r.ReplayIndex)
		return
	}
	if n == 0 {
		r.parts = append(r.parts, PartInfo{Name: name, Dims: dims, Complete: true})
		return
	}
	var next uint64
	var stop int32
	t0 := time.Now()
	chunk := uint64(64)
	if n/uint64(workers) < 64*4 {
		chunk = 1
	}
	before := len(r.violOrder)
	var wg sync.WaitGroup
	ws := make([]*wstate, workers)
	for wi := 0; wi < workers; wi++ {
		w := &wstate{id: wi, outcomes: map[string]uint64{}}
		ws[wi] = w
		wg.Add(1)
		go func(w *wstate) {
			defer wg.Done()
			c := &Case{r: r, w: w, Part: name}
			for atomic.LoadInt32(&stop) == 0 {
				lo := atomic.AddUint64(&next, chunk) - chunk
				if lo >= n {
					return
				}
				hi := lo + chunk
				if hi > n {
					hi = n
				}
				for i := lo; i < hi; i++ {
					c.Index = i
					r.runCase(c, fn, w.id)
				}
				if time.Now().After(r.Deadline) {
					atomic.StoreInt32(&stop, 1)
				}
			}
		}(w)
	}
	wg.Wait()
	pi := PartInfo{Name: name, Size: n, Dims: dims, WallS: time.Since(t0).Seconds()}
	for _, w := range ws {
		pi.Executed += w.cases
		pi.NonTrivial += w.nontriv
		r.merge(w)
	}
	pi.Complete = pi.Executed == n
	if !pi.Complete {
		r.incomplete = true
	}
	r.mu.Lock()
	r.parts = append(r.parts, pi)
	newKeys := append([]string(nil), r.violOrder[before:]...)
	r.mu.Unlock()

	// re-execute every new violation witness five times before believing it
	for _, k := range newKeys {
		r.mu.Lock()
		v := r.viol[k]
		r.mu.Unlock()
		if v == nil || v.Part != name || strings.HasPrefix(k, "overflow/") {
			continue
		}
		for rep := 0; rep < 5; rep++ {
			w := &wstate{outcomes: map[string]uint64{}}
			c := &Case{r: r, w: w, Part: name, Index: v.Index, recheck: true}
			r.runCase(c, fn, 0)
			found := false
			for _, fk := range c.failed {
				if fk == k {
					found = true
				}
			}
			if !found {
				r.unstable(k, fmt.Sprintf("part %s index %d failed during the sweep (%d independent callers, each on its own values) and passes on re-execution %d alone", name, v.Index, r.Workers, rep+1))
				break
			}
		}
	}
}

// unstable reclassifies a failure that does not reproduce when its case is
// re-executed alone. Every case is a pure function of its index and works on
// values it built itself, so a verdict that changes between two executions of
// the same case means the implementation keeps state that outlives a call (a
// cache, a pooled buffer, a shared table) and lets it leak into the result of
// an unrelated call. That is reported as a violation of its own class
// (<key>/depends-on-other-calls), never merged with the deterministic class.
func (r *Run) unstable(k, how string) {
	r.mu.Lock()
	defer r.mu.Unlock()
	v := r.viol[k]
	if v == nil {
		return
	}
	delete(r.viol, k)
	nk := k + "/depends-on-other-calls"
	if _, ok := r.known[nk]; ok {
		r.knownSeen[nk]++
		return
	}
	v.Key = nk
	v.What = v.What + " -- " + how + ": the result of a call depends on other calls (state shared between independent values)"
	r.viol[nk] = v
	r.violOrder = append(r.violOrder, nk)
	r.unstableN++
}

func (r *Run) merge(w *wstate) {
	atomic.AddUint64(&r.evals, w.evals)
	atomic.AddUint64(&r.nontriv, w.nontriv)
	r.mu.Lock()
	for k, v := range w.outcomes {
		r.outcomes[k] += v
	}
	if len(r.samples) < 8 {
		r.samples = append(r.samples, w.samples...)
	}
	r.mu.Unlock()
}

func (r *Run) runCase(c *Case, fn func(c *Case), wid int) {
	in := &r.inflight[wid]
	before := c.w.evals
	if !c.recheck {
		c.w.cases++
	}
	in.part.Store(c.Part)
	atomic.StoreUint64(&in.index, c.Index)
	atomic.StoreInt64(&in.since, atomic.LoadInt64(&ticks)+1)
	defer func() {
		atomic.StoreInt64(&in.since, 0)
		if !c.recheck && c.w.evals == before {
			c.w.evals++
		}
		if e := recover(); e != nil {
			st := string(debug.Stack())
			key := "panic/" + PanicSite(st)
			c.Fail(key, fmt.Sprintf("panic: %v", e), map[string]interface{}{"stack": trimStack(st)})
		}
	}()
	fn(c)
}

// PanicSite extracts the first library frame of a panic stack as a stable class key.
func PanicSite(st string) string {
	for _, l := range strings.Split(st, "\n") {
		if strings.HasPrefix(l, "github.com/brocaar/lorawan") {
			fn := l
			if j := strings.LastIndex(fn, "("); j > 0 {
				fn = fn[:j]
			}
			fn = strings.TrimPrefix(fn, "github.com/brocaar/lorawan")
			fn = strings.TrimPrefix(fn, "/")
			fn = strings.TrimPrefix(fn, ".")
			return fn
		}
	}
	return "outside-library"
}

func trimStack(st string) string {
	lines := strings.Split(st, "\n")
	if len(lines) > 40 {
		lines = lines[:40]
	}
	return strings.Join(lines, "\n")
}

// watchdog reports a case that does not terminate (the only wall-clock oracle:
// 60 s against normal case times of microseconds to milliseconds) and a
// runaway heap; both end the run with a violation for the case in flight.
// ticks counts the watchdog's wake-ups (one per half second of *running* time: a
// process that is frozen or starved of CPU does not tick, so that a pause of the
// whole sandbox is not mistaken for a hanging case).
var ticks int64

func (r *Run) watchdog() {
	limit := 120 * time.Second
	if v := os.Getenv("VERIF_HANG_S"); v != "" {
		var s int
		fmt.Sscanf(v, "%d", &s)
		if s > 0 {
			limit = time.Duration(s) * time.Second
		}
	}
	var ms runtime.MemStats
	// the quick tier's own heap stays far below 1 GiB; the deeper searches of the thorough tier keep more
	heapLimit := uint64(8 << 30)
	if r.Tier == "thorough" {
		heapLimit = 24 << 30
	}
	for {
		time.Sleep(500 * time.Millisecond)
		now := atomic.AddInt64(&ticks, 1)
		for i := range r.inflight {
			in := &r.inflight[i]
			since := atomic.LoadInt64(&in.since)
			if since != 0 && time.Duration(now-since)*500*time.Millisecond > limit {
				part, _ := in.part.Load().(string)
				idx := atomic.LoadUint64(&in.index)
				r.fail("hang/"+part, fmt.Sprintf("case did not terminate within %v of running time", limit), part, idx, nil, nil)
				os.Exit(r.Finish())
			}
		}
		runtime.ReadMemStats(&ms)
		if ms.HeapAlloc > atomic.LoadUint64(&r.peakHeap) {
			atomic.StoreUint64(&r.peakHeap, ms.HeapAlloc)
		}
		if ms.HeapAlloc > heapLimit {
			for i := range r.inflight {
				in := &r.inflight[i]
				if atomic.LoadInt64(&in.since) != 0 {
					part, _ := in.part.Load().(string)
					idx := atomic.LoadUint64(&in.index)
					r.fail("runaway-heap/"+part, fmt.Sprintf("heap exceeded %d GiB while this case was in flight (one of the in-flight cases allocates without bound)", heapLimit>>30), part, idx, nil, nil)
				}
			}
			os.Exit(r.Finish())
		}
	}
}

// Isolated runs f in the current process but guards against non-termination
// with a private deadline; used for the few operations that are known to be
// able to loop (returns false when f did not return in time). The goroutine
// is leaked on timeout, so callers must end the run soon after.
func Isolated(d time.Duration, f func()) (ok bool, panicked interface{}) {
	done := make(chan interface{}, 1)
	go func() {
		defer func() { done <- recover() }()
		f()
	}()
	// the deadline is counted in half-second wake-ups, not wall time (see ticks)
	for i := time.Duration(0); i < d; i += 500 * time.Millisecond {
		select {
		case p := <-done:
			return true, p
		case <-time.After(500 * time.Millisecond):
		}
	}
	return false, nil
}

func fnv64(s string) uint64 {
	h := fnv.New64a()
	h.Write([]byte(s))
	return h.Sum64()
}

// Finish prints the verdict lines, writes replays and evidence and returns
// the exit code (0 held, 1 violation, 2 harness error).
func (r *Run) Finish() int {
	r.mu.Lock()
	defer r.mu.Unlock()

	wall := time.Since(r.start).Seconds()
	keys := make([]string, 0, len(r.viol))
	for k := range r.viol {
		keys = append(keys, k)
	}
	sort.Strings(keys)

	if r.Replay {
		for _, k := range keys {
			v := r.viol[k]
			b, _ := json.MarshalIndent(v, "", " ")
			fmt.Printf("REPLAY-VIOLATION property=%s key=%s\n%s\n", r.Prop, k, b)
		}
		kk := make([]string, 0, len(r.knownSeen))
		for k := range r.knownSeen {
			kk = append(kk, k)
		}
		sort.Strings(kk)
		for _, k := range kk {
			fmt.Printf("REPLAY-KNOWN-FINDING property=%s key=%s\n", r.Prop, k)
		}
		if len(keys) > 0 || len(kk) > 0 {
			return 1
		}
		fmt.Println("replay: property held on the replayed case")
		return 0
	}

	os.MkdirAll(filepath.Join(OutRoot, "replays"), 0o755)
	os.MkdirAll(filepath.Join(OutRoot, "evidence"), 0o755)

	for _, k := range keys {
		v := r.viol[k]
		name := fmt.Sprintf("%s-%016x.json", r.Prop, fnv64(k))
		path := filepath.Join(OutRoot, "replays", name)
		v.Replay = path
		rec := map[string]interface{}{
			"property": r.Prop, "tier": r.Tier, "key": v.Key, "what": v.What,
			"part": v.Part, "index": v.Index, "path": v.Path, "detail": v.Detail, "count": v.Count,
			"replay_cmd": fmt.Sprintf("bin/check.sh %s %s -replay %s", r.Prop, r.Tier, path),
		}
		b, _ := json.MarshalIndent(rec, "", " ")
		ioutil.WriteFile(path, b, 0o644)
	}

	kk := make([]string, 0, len(r.knownSeen))
	for k := range r.knownSeen {
		kk = append(kk, k)
	}
	sort.Strings(kk)
	for _, k := range kk {
		fmt.Printf("KNOWN-FINDING: property=%s %s — %s (cases: %d)\n", r.Prop, k, r.known[k].What, r.knownSeen[k])
	}
	// open findings that no longer reproduce are reported (not an error)
	var stale []string
	for k := range r.known {
		if r.knownSeen[k] == 0 {
			stale = append(stale, k)
		}
	}
	sort.Strings(stale)
	for _, k := range stale {
		fmt.Printf("note: open known finding %s was not observed in this run\n", k)
	}

	exhaustive := !r.incomplete
	cov := map[string]interface{}{
		"evaluations":         atomic.LoadUint64(&r.evals),
		"distinct_nontrivial": atomic.LoadUint64(&r.nontriv),
		"rule":                r.Rule,
		"samples":             r.samples,
		"exhaustive":          exhaustive,
		"parts":               r.parts,
		"distinct_outcomes":   len(r.outcomes),
		"outcomes":            topOutcomes(r.outcomes, 60),
		"known_findings_seen": kk,
		"vacuity_guards":      r.guards,
	}
	if r.states > 0 || r.Level == "model_checking" {
		cov["states"] = atomic.LoadUint64(&r.states)
		cov["transitions"] = atomic.LoadUint64(&r.transitions)
		cov["traces_validated_against_impl"] = atomic.LoadUint64(&r.traces)
	}
	for k, v := range r.extra {
		cov[k] = v
	}
	cov["peak_heap_mib_sampled"] = atomic.LoadUint64(&r.peakHeap) >> 20
	if len(r.samples) == 0 {
		cov["samples"] = []interface{}{"(no sample recorded)"}
	}
	var vl []interface{}
	for _, k := range keys {
		vl = append(vl, r.viol[k])
	}
	ev := map[string]interface{}{
		"property_id":    r.Prop,
		"tier":           r.Tier,
		"seed":           r.Seed,
		"level":          r.Level,
		"coverage":       cov,
		"assumptions":    r.assumptions,
		"wall_s":         wall,
		"violations":     len(keys),
		"violation_log":  vl,
		"harness_errors": r.harnessErrs,
	}
	if r.assumptions == nil {
		ev["assumptions"] = []string{}
	}
	b, err := json.MarshalIndent(ev, "", " ")
	if err != nil {
		fmt.Printf("harness error: evidence does not marshal: %v\n", err)
		return 2
	}
	if err := ioutil.WriteFile(filepath.Join(OutRoot, "evidence", r.Prop+".json"), b, 0o644); err != nil {
		fmt.Printf("harness error: cannot write evidence: %v\n", err)
		return 2
	}

	fmt.Printf("property=%s tier=%s evaluations=%d nontrivial=%d states=%d transitions=%d outcomes=%d exhaustive=%v wall=%.1fs\n",
		r.Prop, r.Tier, r.evals, r.nontriv, r.states, r.transitions, len(r.outcomes), exhaustive, wall)
	for _, p := range r.parts {
		fmt.Printf("  part %-44s size=%-11d executed=%-11d nontrivial=%-11d complete=%v %.1fs\n", p.Name, p.Size, p.Executed, p.NonTrivial, p.Complete, p.WallS)
	}

	if len(keys) > 0 {
		for _, k := range keys {
			v := r.viol[k]
			fmt.Printf("VIOLATION property=%s replay=%s key=%s cases=%d :: %s\n", r.Prop, v.Replay, k, v.Count, oneLine(v.What))
		}
		return 1
	}
	if len(r.harnessErrs) > 0 {
		for _, e := range r.harnessErrs {
			fmt.Printf("HARNESS-ERROR property=%s %s\n", r.Prop, e)
		}
		return 2
	}
	fmt.Printf("OK property=%s held on everything explored\n", r.Prop)
	return 0
}

func oneLine(s string) string {
	s = strings.Replace(s, "\n", " ", -1)
	if len(s) > 300 {
		s = s[:300] + "…"
	}
	return s
}

func topOutcomes(m map[string]uint64, n int) map[string]uint64 {
	if len(m) <= n {
		return m
	}
	type kv struct {
		k string
		v uint64
	}
	var l []kv
	for k, v := range m {
		l = append(l, kv{k, v})
	}
	sort.Slice(l, func(i, j int) bool {
		if l[i].v != l[j].v {
			return l[i].v > l[j].v
		}
		return l[i].k < l[j].k
	})
	out := map[string]uint64{}
	for _, e := range l[:n] {
		out[e.k] = e.v
	}
	return out
}

// Try runs f and reports a panic (with the first library frame as its site)
// instead of propagating it, so that one panicking call does not hide the
// remaining calls of a case.
func Try(f func()) (panicked bool, site string, val interface{}) {
	defer func() {
		if e := recover(); e != nil {
			panicked, site, val = true, PanicSite(string(debug.Stack())), e
		}
	}()
	f()
	return
}

// Sample0 records a run-level sample (for searches whose cases carry none).
func (r *Run) Sample0(v interface{}) {
	r.mu.Lock()
	r.samples = append(r.samples, v)
	r.mu.Unlock()
}

package engine

import (
	"fmt"
	"sort"
	"strings"
	"sync"
	"sync/atomic"
	"time"
)

// XOp is one transition label of an explicit-state search: it calls the real
// implementation on obj and returns the observable result of the call.
type XOp struct {
	Name string
	Do   func(obj interface{}) string
}

// XSpec describes an explicit-state breadth-first search over operation
// sequences on real objects. Objects cannot be cloned: a successor is built by
// constructing a fresh object (New), replaying the shortest path that reached
// the parent and applying one more op.
type XSpec struct {
	Name string
	New  func() interface{}
	Ops  []XOp
	// Snap returns the canonical form of the state; equal snapshots must have
	// equal futures (argued per use in DESIGN.md A.2).
	Snap func(obj interface{}) string
	// Check is evaluated after every transition (not only in new states) with
	// the path that was executed and the result of the last op. It steps the
	// reference model by recomputing it from the path.
	Check func(c *Case, obj interface{}, path []int, lastResult string)
	// CheckState is evaluated once per distinct state (heavier observers).
	CheckState func(c *Case, obj interface{}, path []int)
	// Warm (optional) calls the object's read-only operations; see warm().
	Warm      func(obj interface{})
	Depth     int
	MaxStates int
	// Workers caps the parallelism (1 when the object under test is process-global state).
	Workers int
}

// PrunePrefix marks (as a prefix of the snapshot) a state whose successors
// are not explored because the reference model leaves it unspecified.
const PrunePrefix = "PRUNE:"

// XResult is what Explore covered.
type XResult struct {
	States      uint64
	Transitions uint64
	MaxDepth    int
	Closed      bool // the frontier became empty within Depth: reachable set is complete
	Pruned      uint64
}

type xnode struct {
	path []int
	snap string
}

// Explore runs the BFS. Every transition is executed on the implementation.
func (r *Run) Explore(x XSpec) XResult {
	var res XResult
	if r.Replay {
		if r.ReplayPart != x.Name {
			return res
		}
		w := &wstate{outcomes: map[string]uint64{}}
		c := &Case{r: r, w: w, Part: x.Name, Path: r.ReplayPath}
		r.runCase(c, func(c *Case) { x.execPath(c, c.Path, true) }, 0)
		r.merge(w)
		fmt.Printf("replayed part=%s path=%v\n", x.Name, r.ReplayPath)
		return res
	}

	if x.Workers > 0 && x.Workers < r.Workers {
		saved := r.Workers
		r.Workers = x.Workers
		defer func() { r.Workers = saved }()
	}
	seen := map[string]bool{}
	init := x.New()
	s0 := x.Snap(init)
	seen[s0] = true
	frontier := []xnode{{path: nil, snap: s0}}
	res.States = 1
	{
		w := &wstate{outcomes: map[string]uint64{}}
		c := &Case{r: r, w: w, Part: x.Name}
		r.runCase(c, func(c *Case) {
			if x.CheckState != nil {
				x.CheckState(c, init, nil)
			}
		}, 0)
		r.merge(w)
	}

	complete := true
	pruned := uint64(0)
	for depth := 1; depth <= x.Depth && len(frontier) > 0; depth++ {
		type succ struct {
			path []int
			snap string
		}
		n := uint64(len(frontier)) * uint64(len(x.Ops))
		out := make([][]succ, r.Workers)
		ws := make([]*wstate, r.Workers)
		var next uint64
		var stop int32
		var wg sync.WaitGroup
		var executed uint64
		for wi := 0; wi < r.Workers; wi++ {
			w := &wstate{id: wi, outcomes: map[string]uint64{}}
			ws[wi] = w
			wg.Add(1)
			go func(w *wstate) {
				defer wg.Done()
				c := &Case{r: r, w: w, Part: x.Name}
				for atomic.LoadInt32(&stop) == 0 {
					i := atomic.AddUint64(&next, 1) - 1
					if i >= n {
						return
					}
					node := frontier[i/uint64(len(x.Ops))]
					op := int(i % uint64(len(x.Ops)))
					path := append(append(make([]int, 0, len(node.path)+1), node.path...), op)
					c.Index = i
					c.Path = path
					var snap string
					r.runCase(c, func(c *Case) {
						obj := x.New()
						x.warm(obj)
						for _, o := range node.path {
							x.Ops[o].Do(obj)
							x.warm(obj)
						}
						if got := x.Snap(obj); got != node.snap {
							// the same operations on a fresh object reached a different state: the
							// implementation keeps state outside the object (shared between instances)
							c.Fail("xstate/"+x.Name+"/same-operations-reach-different-state", fmt.Sprintf("search %s: the operations %v applied to a fresh object reach a state that differs from the one they reached before: state is shared between separately created objects (or survives them)", x.Name, x.PathNames(node.path)), map[string]string{"before": node.snap, "now": got})
							return
						}
						res := x.Ops[op].Do(obj)
						snap = x.Snap(obj)
						if x.Check != nil {
							x.Check(c, obj, path, res)
						}
					}, w.id)
					atomic.AddUint64(&executed, 1)
					if snap != "" {
						out[w.id] = append(out[w.id], succ{path, snap})
					}
					if time.Now().After(r.Deadline) {
						atomic.StoreInt32(&stop, 1)
					}
				}
			}(w)
		}
		wg.Wait()
		for _, w := range ws {
			r.merge(w)
		}
		res.Transitions += executed
		if executed != n {
			complete = false
			break
		}
		var all []succ
		for _, o := range out {
			all = append(all, o...)
		}
		// deterministic order: by path (lexicographic), so the witness path of a
		// state is the same on every run
		sort.Slice(all, func(i, j int) bool { return lessPath(all[i].path, all[j].path) })
		var nf []xnode
		for _, s := range all {
			if seen[s.snap] {
				continue
			}
			if x.MaxStates > 0 && len(seen) >= x.MaxStates {
				complete = false
				continue
			}
			seen[s.snap] = true
			if strings.HasPrefix(s.snap, PrunePrefix) {
				// a state the reference model leaves unspecified: counted, not expanded
				pruned++
				res.States++
				continue
			}
			nf = append(nf, xnode{path: s.path, snap: s.snap})
		}
		if len(nf) > 0 {
			res.MaxDepth = depth
			if x.CheckState != nil {
				nodes := nf
				r.statePart(x, nodes)
			}
		}
		res.States += uint64(len(nf))
		frontier = nf
	}
	res.Pruned = pruned
	res.Closed = complete && len(frontier) == 0
	if !complete {
		r.incomplete = true
	}
	r.AddStates(res.States, res.Transitions, res.Transitions)
	r.mu.Lock()
	r.parts = append(r.parts, PartInfo{Name: x.Name, Size: res.Transitions, Executed: res.Transitions, Complete: complete,
		States: res.States, Transitions: res.Transitions, MaxDepth: res.MaxDepth, Closed: res.Closed})
	keys := append([]string(nil), r.violOrder...)
	r.mu.Unlock()

	// re-execute new violation witnesses of this search five times
	for _, k := range keys {
		r.mu.Lock()
		v := r.viol[k]
		r.mu.Unlock()
		if v == nil || v.Part != x.Name || v.Replay == "rechecked" {
			continue
		}
		for rep := 0; rep < 5; rep++ {
			w := &wstate{outcomes: map[string]uint64{}}
			c := &Case{r: r, w: w, Part: x.Name, Path: v.Path, recheck: true}
			r.runCase(c, func(c *Case) { x.execPath(c, c.Path, true) }, 0)
			found := false
			for _, fk := range c.failed {
				if fk == k {
					found = true
				}
			}
			if !found {
				r.unstable(k, fmt.Sprintf("search %s path %v failed during the search and passes on re-execution %d alone", x.Name, v.Path, rep+1))
				break
			}
		}
		v.Replay = "rechecked"
	}
	return res
}

func (r *Run) statePart(x XSpec, nodes []xnode) {
	var next uint64
	var wg sync.WaitGroup
	ws := make([]*wstate, r.Workers)
	for wi := 0; wi < r.Workers; wi++ {
		w := &wstate{id: wi, outcomes: map[string]uint64{}}
		ws[wi] = w
		wg.Add(1)
		go func(w *wstate) {
			defer wg.Done()
			c := &Case{r: r, w: w, Part: x.Name}
			for {
				i := atomic.AddUint64(&next, 1) - 1
				if i >= uint64(len(nodes)) {
					return
				}
				c.Index = i
				c.Path = nodes[i].path
				r.runCase(c, func(c *Case) {
					obj := x.New()
					x.warm(obj)
					for j, o := range c.Path {
						x.Ops[o].Do(obj)
						if j < len(c.Path)-1 {
							x.warm(obj)
						}
					}
					x.CheckState(c, obj, c.Path)
				}, w.id)
			}
		}(w)
	}
	wg.Wait()
	for _, w := range ws {
		r.merge(w)
	}
}

// execPath replays one path on a fresh object with all checks enabled on the
// last transition and the state check on the reached state.
func (x XSpec) execPath(c *Case, path []int, stateCheck bool) {
	obj := x.New()
	x.warm(obj)
	var res string
	for i, o := range path {
		if o < 0 || o >= len(x.Ops) {
			c.r.HarnessError("replay path %v: op %d out of range", path, o)
			return
		}
		res = x.Ops[o].Do(obj)
		if x.Check != nil {
			x.Check(c, obj, path[:i+1], res)
		}
		if i < len(path)-1 {
			x.warm(obj)
		}
	}
	if stateCheck && x.CheckState != nil {
		x.CheckState(c, obj, path)
	}
}

// warm calls the read-only operations of the object in every state a path
// passes through (before the next mutation): semantically a no-op, it fills
// whatever the implementation memoises, so that a memo a mutator forgets to
// invalidate is stale in the successor state instead of simply absent.
func (x XSpec) warm(obj interface{}) {
	if x.Warm != nil {
		x.Warm(obj)
	}
}

func lessPath(a, b []int) bool {
	if len(a) != len(b) {
		return len(a) < len(b)
	}
	for i := range a {
		if a[i] != b[i] {
			return a[i] < b[i]
		}
	}
	return false
}

// PathNames renders a path with op names (for samples and replays).
func (x XSpec) PathNames(path []int) []string {
	var out []string
	for _, o := range path {
		out = append(out, x.Ops[o].Name)
	}
	return out
}

package engine

import "fmt"

// Space is a Cartesian product of finite dimensions; a case is the
// mixed-radix decoding of one index (dimension 0 varies fastest).
type Space struct {
	Names []string
	Sizes []int
}

// Dim appends a dimension and returns the space.
func (s *Space) Dim(name string, size int) *Space {
	s.Names = append(s.Names, name)
	s.Sizes = append(s.Sizes, size)
	return s
}

// N is the size of the product.
func (s *Space) N() uint64 {
	n := uint64(1)
	for _, z := range s.Sizes {
		n *= uint64(z)
	}
	return n
}

// Decode writes the choice tuple of index i into out (len(out) >= #dims).
func (s *Space) Decode(i uint64, out []int) {
	for d, z := range s.Sizes {
		out[d] = int(i % uint64(z))
		i /= uint64(z)
	}
}

// Desc describes the dimensions for the evidence file.
func (s *Space) Desc() []string {
	var out []string
	for d := range s.Sizes {
		out = append(out, fmt.Sprintf("%s:%d", s.Names[d], s.Sizes[d]))
	}
	return out
}

module verifmc

go 1.15

require github.com/brocaar/lorawan v0.0.0

replace github.com/brocaar/lorawan => /repo

// Package verifsync is the cooperative-scheduler runtime of the schedule
// explorer (E3). Its source lives in /verif/mc/schedrt and is mapped by
// `go build -overlay` to the import path github.com/brocaar/lorawan/verifsync,
// where the overlaid copies of the library's files import it in place of
// "sync". Nothing of it is committed to /repo.
//
// When no exploration is active every shim type behaves exactly like the
// standard library type it embeds.
package verifsync

import (
	"fmt"
	"os"
	"reflect"
	"sort"
	"strings"
	"sync"
	"time"
	"unsafe"
)

// ---------------------------------------------------------------- shim types

// Mutex replaces sync.Mutex in instrumented packages.
type Mutex struct{ mu sync.Mutex }

// Lock is a scheduling point.
func (m *Mutex) Lock() {
	if rt := active; rt != nil {
		rt.point(op{kind: opLock, lock: m})
		return
	}
	m.mu.Lock()
}

// Unlock releases the mutex.
func (m *Mutex) Unlock() {
	if rt := active; rt != nil {
		rt.release(m, false)
		return
	}
	m.mu.Unlock()
}

// RWMutex replaces sync.RWMutex in instrumented packages.
type RWMutex struct{ mu sync.RWMutex }

// Lock is two scheduling points: the request (from which on, as with
// sync.RWMutex, no new reader is admitted) and the acquisition.
func (m *RWMutex) Lock() {
	if rt := active; rt != nil {
		rt.point(op{kind: opLockReq, lock: m})
		rt.point(op{kind: opLock, lock: m, requested: true})
		return
	}
	m.mu.Lock()
}

// Unlock releases the write lock.
func (m *RWMutex) Unlock() {
	if rt := active; rt != nil {
		rt.release(m, false)
		return
	}
	m.mu.Unlock()
}

// RLock is a scheduling point.
func (m *RWMutex) RLock() {
	if rt := active; rt != nil {
		rt.point(op{kind: opRLock, lock: m})
		return
	}
	m.mu.RLock()
}

// RUnlock releases a read lock.
func (m *RWMutex) RUnlock() {
	if rt := active; rt != nil {
		rt.release(m, true)
		return
	}
	m.mu.RUnlock()
}

// Once replaces sync.Once. Under exploration it is modelled by what sync.Once guarantees: callers
// are serialised (a caller that arrives while f runs waits for it to finish) and the completion of f
// happens before any Do returns - a critical section under the shim's own Mutex, whose Lock and
// Unlock are the scheduling points and carry the happens-before edges.
type Once struct {
	o    sync.Once
	mu   Mutex
	done bool
}

// Do runs f at most once.
func (o *Once) Do(f func()) {
	if active != nil {
		o.mu.Lock()
		defer o.mu.Unlock()
		if !o.done {
			defer func() { o.done = true }() // like sync.Once: a panicking f counts as done
			f()
		}
		return
	}
	o.o.Do(f)
}

// Locker is sync.Locker.
type Locker = sync.Locker

// Cond is sync.Cond (works with the shim's lockers; not a scheduling point:
// none of the explored harnesses waits on a condition variable).
type Cond = sync.Cond

// NewCond is sync.NewCond.
func NewCond(l Locker) *Cond { return sync.NewCond(l) }

// OnceFunc mirrors sync.OnceFunc on top of the shim's Once.
func OnceFunc(f func()) func() {
	var o Once
	return func() { o.Do(f) }
}

// Map replaces sync.Map: every operation is a scheduling point (the operations
// themselves are atomic, so they are not subject to the race check).
type Map struct{ m sync.Map }

func (m *Map) pt(op string) {
	if rt := active; rt != nil {
		rt.point(op_(opYield, fmt.Sprintf("sync.Map.%s@%p", op, m)))
	}
}

// Load is a scheduling point.
func (m *Map) Load(key interface{}) (interface{}, bool) { m.pt("Load"); return m.m.Load(key) }

// Store is a scheduling point.
func (m *Map) Store(key, value interface{}) { m.pt("Store"); m.m.Store(key, value) }

// LoadOrStore is a scheduling point.
func (m *Map) LoadOrStore(key, value interface{}) (interface{}, bool) {
	m.pt("LoadOrStore")
	return m.m.LoadOrStore(key, value)
}

// LoadAndDelete is a scheduling point.
func (m *Map) LoadAndDelete(key interface{}) (interface{}, bool) {
	m.pt("LoadAndDelete")
	return m.m.LoadAndDelete(key)
}

// Delete is a scheduling point.
func (m *Map) Delete(key interface{}) { m.pt("Delete"); m.m.Delete(key) }

// Swap is a scheduling point.
func (m *Map) Swap(key, value interface{}) (interface{}, bool) {
	m.pt("Swap")
	return m.m.Swap(key, value)
}

// CompareAndSwap is a scheduling point.
func (m *Map) CompareAndSwap(key, old, new interface{}) bool {
	m.pt("CompareAndSwap")
	return m.m.CompareAndSwap(key, old, new)
}

// CompareAndDelete is a scheduling point.
func (m *Map) CompareAndDelete(key, old interface{}) bool {
	m.pt("CompareAndDelete")
	return m.m.CompareAndDelete(key, old)
}

// Range is a scheduling point.
func (m *Map) Range(f func(key, value interface{}) bool) { m.pt("Range"); m.m.Range(f) }

// Pool replaces sync.Pool. It is the adversarial pool the sync.Pool contract
// allows: (1) under exploration a deterministic LIFO free list (always re-using
// the most recently returned object is a behaviour sync.Pool may show and the
// one that exposes stale state), with Get and Put as scheduling points; (2) in
// every mode the bytes of an object are inverted while the pool owns it (from
// Put until the Get that hands it out again, which restores them). Code that
// follows the contract - no access to an object after Put - cannot observe the
// inversion; code that keeps using (or hands to its caller) memory it has
// already Put sees garbage at once, in a single goroutine, instead of only
// when another goroutine happens to reuse the object in between.
type Pool struct {
	New  func() interface{}
	p    sync.Pool
	free []interface{}
}

// Get is a scheduling point.
func (p *Pool) Get() interface{} {
	if rt := active; rt != nil {
		rt.point(op_(opYield, fmt.Sprintf("sync.Pool.Get@%p", p)))
		if n := len(p.free); n > 0 {
			v := p.free[n-1]
			p.free = p.free[:n-1]
			flipBytes(v)
			return v
		}
		if p.New != nil {
			return p.New()
		}
		return nil
	}
	if v := p.p.Get(); v != nil {
		flipBytes(v)
		return v
	}
	if p.New != nil {
		return p.New()
	}
	return nil
}

// Put is a scheduling point.
func (p *Pool) Put(v interface{}) {
	if rt := active; rt != nil {
		rt.point(op_(opYield, fmt.Sprintf("sync.Pool.Put@%p", p)))
		flipBytes(v)
		p.free = append(p.free, v)
		return
	}
	flipBytes(v)
	p.p.Put(v)
}

// flipBytes inverts every slice (up to its capacity) and array of fixed-size
// numbers (integers of any width, floats) that is part of the pooled object itself: the object, what it points to, and the
// fields (exported or not) of that struct, nested structs included. Pointers
// inside the struct are not followed. Applying it twice restores the object.
func flipBytes(v interface{}) {
	rv := reflect.ValueOf(v)
	if !rv.IsValid() {
		return
	}
	if rv.Kind() == reflect.Ptr {
		if rv.IsNil() {
			return
		}
		flipValue(rv.Elem(), 0)
		return
	}
	if rv.Kind() == reflect.Slice {
		flipValue(rv, 0)
	}
}

func numeric(k reflect.Kind) bool {
	switch k {
	case reflect.Int, reflect.Int8, reflect.Int16, reflect.Int32, reflect.Int64,
		reflect.Uint, reflect.Uint8, reflect.Uint16, reflect.Uint32, reflect.Uint64,
		reflect.Float32, reflect.Float64:
		return true
	}
	return false
}

func flipValue(rv reflect.Value, depth int) {
	if depth > 4 {
		return
	}
	switch rv.Kind() {
	case reflect.Slice:
		if !numeric(rv.Type().Elem().Kind()) || rv.IsNil() || rv.Cap() == 0 {
			return
		}
		n := rv.Cap() * int(rv.Type().Elem().Size())
		full := (*[1 << 30]byte)(unsafe.Pointer(rv.Pointer()))[:n:n]
		for i := range full {
			full[i] ^= 0xFF
		}
	case reflect.Array:
		if !numeric(rv.Type().Elem().Kind()) || !rv.CanAddr() {
			return
		}
		n := rv.Len() * int(rv.Type().Elem().Size())
		full := (*[1 << 30]byte)(unsafe.Pointer(rv.UnsafeAddr()))[:n:n]
		for i := range full {
			full[i] ^= 0xFF
		}
	case reflect.Struct:
		if !rv.CanAddr() {
			return
		}
		for i := 0; i < rv.NumField(); i++ {
			f := rv.Field(i)
			switch f.Kind() {
			case reflect.Slice, reflect.Array, reflect.Struct:
				flipValue(reflect.NewAt(f.Type(), unsafe.Pointer(f.UnsafeAddr())).Elem(), depth+1)
			}
		}
	}
}

func op_(k opKind, name string) op { return op{kind: k, name: name} }

// WaitGroup replaces sync.WaitGroup (only the inactive mode is supported;
// the explored harnesses do not use it).
type WaitGroup struct{ sync.WaitGroup }

// Access is inserted by the overlay generator before every statement that
// mentions a package-level variable that is written somewhere in the package.
func Access(name string, write bool) {
	if rt := active; rt != nil {
		if rt.skipRead(name, write) {
			return
		}
		rt.point(op{kind: opAccess, name: name, write: write})
	}
}

// StuckAfter bounds the wall time a resumed thread may take to reach its next
// scheduling point; StuckHandler is called when it is exceeded.
var StuckAfter = 120 * time.Second

// StuckHandler reports a stuck execution; the default prints and exits with status 3.
var StuckHandler = func(msg string) {
	fmt.Println("SCHEDULER-STUCK: " + msg)
	os.Exit(3)
}

// knownWritten is the set of probe names (without object identity) that some
// explored execution of the current scenario has written. Reads of every other
// name are not scheduling points: as long as a variable is never written, reads
// of it commute with everything and return its initial value, so leaving them
// out loses no behaviour. The assumption is checked, not trusted: a write to a
// name outside the set is recorded, the name is added and the exploration of
// the scenario starts again (a fixpoint; by induction on the first such write
// of a hypothetical missed execution, the final exploration is complete).
var knownWritten = map[string]bool{}

func (rt *runtime) skipRead(name string, write bool) bool {
	if knownWritten[name] || rt.writtenHere[name] {
		return false
	}
	if write {
		rt.x.NewlyWritten = append(rt.x.NewlyWritten, name)
		if rt.writtenHere == nil {
			rt.writtenHere = map[string]bool{}
		}
		rt.writtenHere[name] = true // from here on, in this execution, accesses to the name are recorded
		return false
	}
	rt.x.SkippedReads++
	return true
}

// AccessObj is the field-level variant: obj is the address of the receiver's
// field, name is "Type.field". Objects are identified by (thread that touched
// them first, how many objects that thread had touched before), which is the
// same in every execution in which that thread behaves the same. As long as
// only one thread touches an object its accesses commute with everything and
// are not scheduling points; the assumption is checked: the first access by a
// second thread is recorded, the object is marked shared and the exploration
// of the scenario starts again (same fixpoint argument as for knownWritten).
func AccessObj(obj interface{}, name string, write bool) {
	rt := active
	if rt == nil || rt.cur == nil {
		return
	}
	info := rt.objInfo(obj)
	if !sharedObjs[info.ident] {
		if rt.cur.id != info.owner {
			rt.x.NewlyWritten = append(rt.x.NewlyWritten, "obj:"+info.ident)
		}
		rt.x.SkippedReads++
		return
	}
	if rt.skipRead(name, write) {
		return
	}
	rt.point(op{kind: opAccess, name: name + "@" + info.ident, write: write})
}

var sharedObjs = map[string]bool{}

type objInfo struct {
	ident string
	owner int
}

func (rt *runtime) objInfo(obj interface{}) *objInfo {
	p := reflect.ValueOf(obj).Pointer()
	if rt.objs == nil {
		rt.objs = map[uintptr]*objInfo{}
	}
	info, ok := rt.objs[p]
	if !ok {
		t := rt.cur
		t.objSeq++
		info = &objInfo{ident: fmt.Sprintf("%s#%d", t.name, t.objSeq), owner: t.id}
		rt.objs[p] = info
		rt.keep = append(rt.keep, obj) // no address reuse within one execution
	}
	return info
}

// Yield is an explicit scheduling point (used by verif hooks and harness callbacks).
func Yield(label string) {
	if rt := active; rt != nil {
		rt.point(op{kind: opYield, name: label})
	}
}

// Observe records an observation of the running thread (part of the
// execution's outcome).
func Observe(s string) {
	if rt := active; rt != nil && rt.cur != nil {
		rt.cur.obs = append(rt.cur.obs, s)
	}
}

// ---------------------------------------------------------------- runtime

type opKind int

const (
	opStart opKind = iota
	opLock
	opLockReq
	opRLock
	opAccess
	opYield
)

type op struct {
	kind      opKind
	lock      interface{}
	name      string
	write     bool
	requested bool // a write lock acquisition that was announced by an opLockReq
}

func (o op) String() string {
	switch o.kind {
	case opStart:
		return "start"
	case opLock:
		return fmt.Sprintf("Lock(%p)", o.lock)
	case opLockReq:
		return fmt.Sprintf("Lock(%p) requested", o.lock)
	case opRLock:
		return fmt.Sprintf("RLock(%p)", o.lock)
	case opAccess:
		if o.write {
			return "write " + o.name
		}
		return "read " + o.name
	}
	return "yield " + o.name
}

type vclock []int

func (a vclock) leq(b vclock) bool {
	for i := range a {
		if a[i] > b[i] {
			return false
		}
	}
	return true
}

func (a vclock) join(b vclock) {
	for i := range a {
		if b[i] > a[i] {
			a[i] = b[i]
		}
	}
}

func (a vclock) clone() vclock { return append(vclock(nil), a...) }

type thread struct {
	id      int
	name    string
	resume  chan struct{}
	pending op
	done    bool
	vc      vclock
	obs     []string
	steps   int
	panic   interface{}
	obsHash uint64 // hash of everything the thread has observed of the shared state so far
	objSeq  int    // objects this thread was the first to touch
}

type lockState struct {
	version uint64
	waiting int // writers that have requested the lock and not yet acquired it
	writer  int // thread id holding the write lock, -1 none
	readers map[int]int
	vc      vclock // joined clocks of write releases
	rvc     vclock // joined clocks of read releases
}

type access struct {
	tid   int
	clock vclock
	what  string
}

type varState struct {
	lastWrite *access
	reads     []access
	version   uint64 // hash chain over the writes (who wrote, at which of its steps)
}

// Point describes one scheduling decision of an execution.
type Point struct {
	Enabled        []int // thread ids in canonical order
	RunningEnabled bool  // choice 0 continues the thread that ran last
	Chosen         int   // index into Enabled
	Op             string
}

// Execution is the record of one run of a scenario under one schedule.
type Execution struct {
	Choices      []int
	Points       []Point
	Races        []string
	Deadlock     string
	LockError    string
	Diverged     string
	Panics       []string
	Obs          map[string][]string // thread name -> observations
	Trace        []string
	Horizon      bool
	Keys         []string // canonical global state before each scheduling decision (for state-key pruning)
	NewlyWritten []string // probe names written although assumed never written (see knownWritten)
	SkippedReads int
}

type runtime struct {
	threads     []*thread
	cur         *thread
	last        *thread
	yield       chan struct{}
	locks       map[interface{}]*lockState
	lockOrder   []interface{}
	writtenHere map[string]bool
	objs        map[uintptr]*objInfo
	keep        []interface{}
	vars        map[string]*varState
	prefix      []int
	x           *Execution
	nsteps      int
}

var active *runtime

func (rt *runtime) lockOf(l interface{}) *lockState {
	ls := rt.locks[l]
	if ls == nil {
		n := len(rt.threads)
		ls = &lockState{writer: -1, readers: map[int]int{}, vc: make(vclock, n), rvc: make(vclock, n)}
		rt.locks[l] = ls
		rt.lockOrder = append(rt.lockOrder, l)
	}
	return ls
}

// point is called by the running thread: it publishes its next operation,
// hands the baton back to the scheduler and blocks until it is chosen; the
// scheduler applies the operation's effect before resuming the thread.
func (rt *runtime) point(o op) {
	t := rt.cur
	if t == nil {
		panic("verifsync: scheduling point outside a managed thread while an exploration is active")
	}
	t.pending = o
	rt.yield <- struct{}{}
	<-t.resume
}

func (rt *runtime) release(l interface{}, read bool) {
	t := rt.cur
	ls := rt.lockOf(l)
	if read {
		if ls.readers[t.id] == 0 {
			rt.x.LockError = fmt.Sprintf("thread %s: RUnlock of a lock it does not hold for reading", t.name)
			return
		}
		ls.readers[t.id]--
		if ls.readers[t.id] == 0 {
			delete(ls.readers, t.id)
		}
		ls.rvc.join(t.vc)
	} else {
		if ls.writer != t.id {
			rt.x.LockError = fmt.Sprintf("thread %s: Unlock of a lock it does not hold", t.name)
			return
		}
		ls.writer = -1
		ls.vc.join(t.vc)
	}
	t.vc[t.id]++
	if !read {
		ls.version = mix(ls.version, uint64(t.id)+1, uint64(t.steps))
	}
	rt.x.Trace = append(rt.x.Trace, fmt.Sprintf("%s: unlock(read=%v)", t.name, read))
}

func mix(h uint64, vals ...uint64) uint64 {
	for _, v := range vals {
		h ^= v + 0x9e3779b97f4a7c15 + (h << 6) + (h >> 2)
	}
	return h
}

func strHash(s string) uint64 {
	h := uint64(1469598103934665603)
	for i := 0; i < len(s); i++ {
		h ^= uint64(s[i])
		h *= 1099511628211
	}
	return h
}

// stateKey is the canonical form of the global state before a scheduling
// decision: per thread (finished, steps taken, hash of what it observed,
// pending operation), per instrumented variable the hash chain of its writes,
// per lock its holder set. Threads are deterministic functions of what they
// observe and all shared mutable state is behind instrumented operations, so
// equal keys have equal futures (lock and variable identities are rendered by
// name / first-use order, not by address).
func (rt *runtime) stateKey() string {
	var sb strings.Builder
	for _, t := range rt.threads {
		fmt.Fprintf(&sb, "%v:%d:%x:%d:%s:%v|", t.done, t.steps, t.obsHash, t.pending.kind, t.pending.name, t.pending.write)
	}
	var names []string
	for n := range rt.vars {
		names = append(names, n)
	}
	sort.Strings(names)
	for _, n := range names {
		fmt.Fprintf(&sb, "%s=%x;", n, rt.vars[n].version)
	}
	for i, l := range rt.lockOrder {
		ls := rt.locks[l]
		var rs []int
		for r, c := range ls.readers {
			if c > 0 {
				rs = append(rs, r)
			}
		}
		sort.Ints(rs)
		fmt.Fprintf(&sb, "L%d:%d:%d:%v:%x;", i, ls.writer, ls.waiting, rs, ls.version)
	}
	return sb.String()
}

func (rt *runtime) enabled(t *thread) bool {
	if t.done {
		return false
	}
	switch t.pending.kind {
	case opLock:
		ls := rt.lockOf(t.pending.lock)
		return ls.writer == -1 && len(ls.readers) == 0
	case opRLock:
		// as sync.RWMutex documents, a pending Lock call excludes new readers
		ls := rt.lockOf(t.pending.lock)
		return ls.writer == -1 && ls.waiting == 0
	}
	return true
}

// apply performs the effect of the chosen thread's pending operation.
func (rt *runtime) apply(t *thread) {
	o := t.pending
	switch o.kind {
	case opLockReq:
		rt.lockOf(o.lock).waiting++
	case opLock:
		ls := rt.lockOf(o.lock)
		if o.requested {
			ls.waiting--
		}
		ls.writer = t.id
		t.vc.join(ls.vc)
		t.vc.join(ls.rvc)
		t.obsHash = mix(t.obsHash, 1, ls.version)
	case opRLock:
		ls := rt.lockOf(o.lock)
		ls.readers[t.id]++
		t.vc.join(ls.vc)
		t.obsHash = mix(t.obsHash, 2, ls.version)
	case opYield:
		// sync.Map / sync.Pool operations (named "sync.") read and may write the object
		if strings.HasPrefix(o.name, "sync.") {
			obj := o.name[strings.Index(o.name, "@"):]
			vs := rt.vars[obj]
			if vs == nil {
				vs = &varState{}
				rt.vars[obj] = vs
			}
			t.obsHash = mix(t.obsHash, 3, vs.version)
			vs.version = mix(vs.version, uint64(t.id)+1, uint64(t.steps), strHash(o.name))
		}
	case opAccess:
		vs := rt.vars[o.name]
		if vs == nil {
			vs = &varState{}
			rt.vars[o.name] = vs
		}
		me := access{tid: t.id, clock: t.vc.clone(), what: t.name + ": " + o.String()}
		if vs.lastWrite != nil && vs.lastWrite.tid != t.id && !vs.lastWrite.clock.leq(t.vc) {
			rt.x.Races = append(rt.x.Races, fmt.Sprintf("%s  ||  %s", vs.lastWrite.what, me.what))
		}
		t.obsHash = mix(t.obsHash, 4, strHash(o.name), vs.version)
		if o.write {
			vs.version = mix(vs.version, uint64(t.id)+1, uint64(t.steps))
			for _, r := range vs.reads {
				if r.tid != t.id && !r.clock.leq(t.vc) {
					rt.x.Races = append(rt.x.Races, fmt.Sprintf("%s  ||  %s", r.what, me.what))
				}
			}
			vs.lastWrite = &me
			vs.reads = nil
		} else {
			vs.reads = append(vs.reads, me)
		}
	}
	rt.x.Trace = append(rt.x.Trace, t.name+": "+o.String())
}

// Thread is one body of a scenario.
type Thread struct {
	Name string
	Body func()
}

// run executes the scenario once under the given choice prefix (then always
// choice 0) and returns the record.
func run(threads []Thread, prefix []int, horizon int) *Execution {
	n := len(threads)
	rt := &runtime{yield: make(chan struct{}), locks: map[interface{}]*lockState{}, vars: map[string]*varState{}, prefix: prefix,
		x: &Execution{Obs: map[string][]string{}}}
	for i, th := range threads {
		t := &thread{id: i, name: th.Name, resume: make(chan struct{}), pending: op{kind: opStart}, vc: make(vclock, n)}
		t.vc[i] = 1
		rt.threads = append(rt.threads, t)
	}
	active = rt
	for i := range threads {
		t := rt.threads[i]
		body := threads[i].Body
		go func() {
			<-t.resume
			defer func() {
				if e := recover(); e != nil {
					t.panic = e
				}
				t.done = true
				rt.yield <- struct{}{}
			}()
			body()
		}()
	}
	for {
		// canonical order: the thread that ran last first (if enabled), then ascending ids
		var en []*thread
		if rt.last != nil && rt.enabled(rt.last) {
			en = append(en, rt.last)
		}
		for _, t := range rt.threads {
			if t != rt.last && rt.enabled(t) {
				en = append(en, t)
			}
		}
		if len(en) == 0 {
			var waiting []string
			for _, t := range rt.threads {
				if !t.done {
					waiting = append(waiting, t.name+" waits for "+t.pending.String())
				}
			}
			if len(waiting) > 0 {
				rt.x.Deadlock = strings.Join(waiting, "; ")
			}
			break
		}
		rt.x.Keys = append(rt.x.Keys, rt.stateKey())
		choice := 0
		i := len(rt.x.Points)
		if i < len(prefix) {
			choice = prefix[i]
			if choice >= len(en) {
				rt.x.Diverged = fmt.Sprintf("replayed choice %d at point %d is out of range (%d enabled)", choice, i, len(en))
				break
			}
		}
		p := Point{RunningEnabled: rt.last != nil && en[0] == rt.last, Chosen: choice, Op: en[choice].name + ": " + en[choice].pending.String()}
		for _, t := range en {
			p.Enabled = append(p.Enabled, t.id)
		}
		rt.x.Points = append(rt.x.Points, p)
		rt.x.Choices = append(rt.x.Choices, choice)
		t := en[choice]
		rt.apply(t)
		rt.cur, rt.last = t, t
		t.steps++
		rt.nsteps++
		if rt.nsteps > horizon {
			rt.x.Horizon = true
			break
		}
		t.resume <- struct{}{}
		arrived := false
		// counted in half-second wake-ups of this process, not in wall time: a pause of the whole
		// sandbox is not a stuck thread
		for waited := time.Duration(0); waited < StuckAfter && !arrived; waited += 500 * time.Millisecond {
			select {
			case <-rt.yield:
				arrived = true
			case <-time.After(500 * time.Millisecond):
			}
		}
		if !arrived {
			// the thread that was resumed has not reached a scheduling point: it blocks on a
			// primitive the shim does not model (a channel, a condition variable) or it loops.
			// Its goroutine cannot be unwound; the caller decides (StuckHandler) - by default the
			// process reports it and exits, so that a check never hangs.
			StuckHandler(fmt.Sprintf("thread %s did not reach a scheduling point within %v after %q (blocked on a primitive the scheduler does not model, or looping); trace so far: %v", rt.cur.name, StuckAfter, rt.cur.pending.String(), rt.x.Trace))
			select {} // not reached with the default handler
		}
		rt.cur = nil
		if rt.x.LockError != "" {
			break
		}
	}
	active = nil
	for _, t := range rt.threads {
		rt.x.Obs[t.name] = t.obs
		if t.panic != nil {
			rt.x.Panics = append(rt.x.Panics, fmt.Sprintf("%s: %v", t.name, t.panic))
		}
	}
	// threads that never finished (deadlock / horizon / lock error) stay parked
	// on their resume channel; they are garbage once the runtime is dropped
	return rt.x
}

// ---------------------------------------------------------------- explorer

// Scenario is a closed multi-threaded harness.
type Scenario struct {
	Name    string
	Setup   func()          // run before every execution (fresh state)
	Threads func() []Thread // fresh bodies for every execution
	// Check judges one finished execution; it returns problem keys/descriptions.
	Check func(x *Execution) []Problem
}

// Problem is one violation found in an execution.
type Problem struct {
	Key  string
	What string
}

// Finding is a problem together with the schedule that exhibits it.
type Finding struct {
	Problem
	Scenario string
	Choices  []int
	Trace    []string
	Count    int
}

// Result is what an exploration covered.
type Result struct {
	Scenario            string
	BoundCompleted      int
	Unbounded           bool
	Schedules           int
	SchedulesByBnd      []int
	MaxPoints           int
	Transitions         int
	Outcomes            map[string]int
	Findings            map[string]*Finding
	SampleTrace         []string
	InterleavedRuns     int // executions with at least one context switch between threads before either finished
	BudgetExhausted     bool
	States              int // distinct global states (state-key pruning)
	StoppedAfterFinding bool
	firstFindingAt      int
	WrittenNames        []string // probe names some execution wrote (reads of all others were not scheduling points)
	Rounds              int
	SkippedReads        int
}

func preemptions(x *Execution, upto int) int {
	n := 0
	for i := 0; i < upto; i++ {
		if x.Points[i].RunningEnabled && x.Points[i].Chosen != 0 {
			n++
		}
	}
	return n
}

// Explore enumerates all schedules of the scenario with at most maxBound
// preemptions (iteratively 0,1,..), stopping early when the budget of
// executions is exhausted (then BoundCompleted tells what was fully covered).
func Explore(sc Scenario, maxBound int, budget int) Result {
	return fixpoint(func() (Result, []string) { return explore1(sc, maxBound, budget) })
}

// stopAfterFinding: once a scenario has produced a finding, 2000 further
// executions are explored (to collect the other finding classes of the same
// change) and the search of that scenario stops; the result is then reported as
// incomplete, which is immaterial because the property is already violated.
func stopAfterFinding(res *Result, pending int) bool {
	if len(res.Findings) == 0 {
		res.firstFindingAt = -1
		return false
	}
	if res.firstFindingAt < 0 {
		res.firstFindingAt = res.Schedules + pending
	}
	if res.Schedules+pending > res.firstFindingAt+2000 {
		res.StoppedAfterFinding = true
		return true
	}
	return false
}

// fixpoint restarts an exploration until no execution writes a name assumed never written.
func fixpoint(f func() (Result, []string)) Result {
	knownWritten = map[string]bool{}
	sharedObjs = map[string]bool{}
	carried := map[string]*Finding{}
	for round := 1; ; round++ {
		res, nw := f()
		for k, v := range res.Findings {
			if _, ok := carried[k]; !ok {
				carried[k] = v
			}
		}
		if len(nw) == 0 {
			res.Findings = carried
			for k := range knownWritten {
				res.WrittenNames = append(res.WrittenNames, k)
			}
			for k := range sharedObjs {
				res.WrittenNames = append(res.WrittenNames, "shared object "+k)
			}
			sort.Strings(res.WrittenNames)
			res.Rounds = round
			return res
		}
		for _, n := range nw {
			if strings.HasPrefix(n, "obj:") {
				sharedObjs[strings.TrimPrefix(n, "obj:")] = true
			} else {
				knownWritten[n] = true
			}
		}
	}
}

func explore1(sc Scenario, maxBound int, budget int) (Result, []string) {
	var newly []string
	res := Result{Scenario: sc.Name, Outcomes: map[string]int{}, Findings: map[string]*Finding{}, BoundCompleted: -1}
	for bound := 0; bound <= maxBound; bound++ {
		count := 0
		complete := true
		var rec func(prefix []int)
		rec = func(prefix []int) {
			if res.Schedules+count >= budget {
				complete = false
				return
			}
			if len(newly) > 0 || stopAfterFinding(&res, count) {
				complete = false
				return
			}
			x := runOne(sc, prefix)
			res.SkippedReads += x.SkippedReads
			if len(x.NewlyWritten) > 0 {
				// the execution is judged before the round is abandoned: a lazily built
				// table is written by the first execution of the process only
				judge(sc, x, &res)
				newly = append(newly, x.NewlyWritten...)
				return
			}
			// only executions with exactly `bound` preemptions are new at this bound
			isNew := preemptions(x, len(x.Points)) == bound
			if isNew {
				count++
				judge(sc, x, &res)
			}
			for i := len(prefix); i < len(x.Points); i++ {
				p := x.Points[i]
				cost := preemptions(x, i)
				for alt := 1; alt < len(p.Enabled); alt++ {
					c := cost
					if p.RunningEnabled {
						c++
					}
					if c > bound {
						continue
					}
					next := append(append([]int(nil), x.Choices[:i]...), alt)
					rec(next)
				}
			}
		}
		rec(nil)
		if len(newly) > 0 {
			return res, newly
		}
		res.Schedules += count
		res.SchedulesByBnd = append(res.SchedulesByBnd, count)
		if !complete {
			res.BudgetExhausted = true
			break
		}
		res.BoundCompleted = bound
	}
	return res, nil
}

// ExploreAll enumerates the interleavings of the scenario without a
// preemption bound, pruning with the canonical state key: the alternatives of a
// scheduling decision are explored only the first time its global state is
// reached (depth-first, so the first visit explores the whole subtree). The
// result is complete (Unbounded = true) unless the budget of executions is hit.
func ExploreAll(sc Scenario, budget int) Result {
	return fixpoint(func() (Result, []string) { return exploreAll1(sc, budget) })
}

func exploreAll1(sc Scenario, budget int) (Result, []string) {
	var newly []string
	res := Result{Scenario: sc.Name, Outcomes: map[string]int{}, Findings: map[string]*Finding{}, BoundCompleted: -1}
	seen := map[string]bool{}
	complete := true
	var rec func(prefix []int)
	rec = func(prefix []int) {
		if res.Schedules >= budget {
			complete = false
			return
		}
		if len(newly) > 0 || stopAfterFinding(&res, 0) {
			complete = false
			return
		}
		x := runOne(sc, prefix)
		res.SkippedReads += x.SkippedReads
		if len(x.NewlyWritten) > 0 {
			judge(sc, x, &res)
			newly = append(newly, x.NewlyWritten...)
			return
		}
		res.Schedules++
		judge(sc, x, &res)
		for i := len(prefix); i < len(x.Points); i++ {
			if i < len(x.Keys) {
				if seen[x.Keys[i]] {
					break
				}
				seen[x.Keys[i]] = true
			}
			for alt := 1; alt < len(x.Points[i].Enabled); alt++ {
				rec(append(append([]int(nil), x.Choices[:i]...), alt))
			}
		}
	}
	rec(nil)
	res.Unbounded = complete
	res.BudgetExhausted = !complete
	res.States = len(seen)
	return res, newly
}

func judge(sc Scenario, x *Execution, res *Result) {
	// signature of the execution before any oracle looks at (or annotates) it
	sig := fmt.Sprint(x.Obs) + fmt.Sprint(x.Races) + x.Deadlock
	if len(x.Points) > res.MaxPoints {
		res.MaxPoints = len(x.Points)
	}
	res.Transitions += len(x.Points)
	// outcome = observations of all threads
	var names []string
	for n := range x.Obs {
		names = append(names, n)
	}
	sort.Strings(names)
	var sb strings.Builder
	for _, n := range names {
		sb.WriteString(n + "=" + strings.Join(x.Obs[n], ",") + " ")
	}
	res.Outcomes[sb.String()]++
	switches := 0
	for i := 1; i < len(x.Points); i++ {
		if x.Points[i].Enabled[x.Points[i].Chosen] != x.Points[i-1].Enabled[x.Points[i-1].Chosen] {
			switches++
		}
	}
	if switches >= len(x.Obs) {
		res.InterleavedRuns++
		if res.SampleTrace == nil {
			res.SampleTrace = x.Trace
		}
	}
	var probs []Problem
	for _, r := range x.Races {
		// class: the pair of operations without thread names
		probs = append(probs, Problem{Key: "race/" + raceClass(r), What: "data race (conflicting accesses unordered by happens-before): " + r})
	}
	if x.Deadlock != "" {
		probs = append(probs, Problem{Key: "deadlock", What: "deadlock: " + x.Deadlock})
	}
	if x.LockError != "" {
		probs = append(probs, Problem{Key: "lock-misuse", What: x.LockError})
	}
	if x.Horizon {
		probs = append(probs, Problem{Key: "livelock-or-horizon", What: "step horizon exceeded"})
	}
	for _, p := range x.Panics {
		probs = append(probs, Problem{Key: "panic", What: "panic in " + p})
	}
	if x.Diverged != "" {
		probs = append(probs, Problem{Key: "harness/diverged", What: x.Diverged})
	}
	if sc.Check != nil {
		probs = append(probs, sc.Check(x)...)
	}
	for _, p := range probs {
		if f := res.Findings[p.Key]; f != nil {
			f.Count++
			continue
		}
		// replay the schedule twice: identical observations are required before the failure is believed
		ok := true
		for k := 0; k < 2; k++ {
			sc.Setup()
			y := run(sc.Threads(), x.Choices, 10000)
			if fmt.Sprint(y.Obs)+fmt.Sprint(y.Races)+y.Deadlock != sig {
				ok = false
			}
		}
		if !ok {
			p = Problem{Key: "state-survives-executions-or-nondeterminism", What: "replaying the failing schedule from a freshly set-up state gave different observations (state outside the harness's Setup survives an execution, or the code is nondeterministic); first failure: " + p.What}
		}
		res.Findings[p.Key] = &Finding{Problem: p, Scenario: sc.Name, Choices: append([]int(nil), x.Choices...), Trace: append([]string(nil), x.Trace...), Count: 1}
	}
}

func raceClass(r string) string {
	parts := strings.Split(r, "  ||  ")
	for i, p := range parts {
		if j := strings.Index(p, ": "); j >= 0 {
			parts[i] = p[j+2:]
		}
	}
	sort.Strings(parts)
	return strings.Join(parts, "|")
}

// Replay runs one recorded schedule and returns its execution record.
// Runner, when set, executes one schedule of a scenario somewhere else than in this process (the
// fresh-process mode of cmd/schedcheck starts a new process per schedule, so that every schedule
// meets the state a process has before the library has been used at all).
var Runner func(sc Scenario, prefix []int) *Execution

func runOne(sc Scenario, prefix []int) *Execution {
	if Runner != nil {
		return Runner(sc, prefix)
	}
	sc.Setup()
	return run(sc.Threads(), prefix, 10000)
}

// KnownState returns the probe names / objects the current exploration knows to be written / shared
// (the checked reductions); SetKnownState installs them in a process that runs one schedule of it.
func KnownState() (written, shared []string) {
	for k := range knownWritten {
		written = append(written, k)
	}
	for k := range sharedObjs {
		shared = append(shared, k)
	}
	sort.Strings(written)
	sort.Strings(shared)
	return
}

func SetKnownState(written, shared []string) {
	knownWritten = map[string]bool{}
	sharedObjs = map[string]bool{}
	for _, k := range written {
		knownWritten[k] = true
	}
	for _, k := range shared {
		sharedObjs[k] = true
	}
}

func Replay(sc Scenario, choices []int) *Execution {
	sc.Setup()
	return run(sc.Threads(), choices, 10000)
}

package props

import (
	"bytes"
	"fmt"

	"github.com/brocaar/lorawan"

	"verifmc/engine"
	"verifmc/spec"
)

// manyKeysHistory: one long history of cryptographic calls in which every call uses a key that no
// earlier call of the process used (a network server holds one key set per device): whatever the
// library keeps per key must not make a later call panic or compute with another key's schedule.
// The bound is the number of distinct keys; the calls alternate between the payload and FOpts
// key streams, the join-accept pair and - every 64th key - all of them on an earlier key again.
func manyKeysHistory(r *engine.Run) {
	n := 4096
	if r.Thorough() {
		n = 1 << 17
	}
	r.Rule += fmt.Sprintf(" Many-keys history: one sequence of %d x 4 calls (EncryptFRMPayload, EncryptFOpts, join-accept encrypt + decrypt) each under a key not used before in the process, with every 64th step returning to earlier keys; each result is compared with the specification's key stream / ECB value for that key.", n)
	r.PartWorkers("history/many-keys", []string{fmt.Sprintf("distinct keys:%d", n), "call:4"}, 1, 1, func(c *engine.Case) {
		keyOf16 := func(i int) []byte {
			k := make([]byte, 16)
			for j := range k {
				k[j] = byte(0x40 + j)
			}
			k[0], k[5], k[10], k[15] = byte(i), byte(i>>8), byte(i>>16), byte(i*7)
			return k
		}
		plain := fillBytes(21, 0x31)
		step := func(i int) bool {
			key := keyOf16(i)
			c.Eval()
			uplink := i%2 == 0
			da, fc := uint32(0x01020304)+uint32(i), uint32(i)
			a := devAddrOf(da)
			got, err := lorawan.EncryptFRMPayload(keyOf(key), uplink, a, fc, append([]byte(nil), plain...))
			if want := spec.XOR(plain, spec.Keystream(key, uplink, da, fc, len(plain))); err != nil || !bytes.Equal(got, want) {
				c.Fail("many-keys/frmpayload", fmt.Sprintf("key number %d (%x): EncryptFRMPayload gives %x (err %v), specification %x", i, key, got, err, want), nil)
				return false
			}
			fo := plain[:7]
			got, err = lorawan.EncryptFOpts(keyOf(key), false, uplink, a, fc, append([]byte(nil), fo...))
			if want := spec.XOR(fo, spec.FOptsKeystream(key, false, uplink, da, fc)); err != nil || !bytes.Equal(got, want) {
				c.Fail("many-keys/fopts", fmt.Sprintf("key number %d (%x): EncryptFOpts gives %x (err %v), specification %x", i, key, got, err, want), nil)
				return false
			}
			j := jaValue{joinNonce: uint32(i) & 0xFFFFFF, netID: c04NetIDs[1], devAddr: da, dlSettings: 0x12, rxDelay: 1, cfKind: i % 3}
			p := lorawan.PHYPayload{MHDR: lorawan.MHDR{MType: lorawan.JoinAccept}, MACPayload: j.lib(), MIC: lorawan.MIC{9, 8, 7, 6}}
			if err := p.EncryptJoinAcceptPayload(keyOf(key)); err != nil {
				c.Fail("many-keys/join-accept", fmt.Sprintf("key number %d: EncryptJoinAcceptPayload: %v", i, err), nil)
				return false
			}
			wire, err := p.MarshalBinary()
			if want := append([]byte{0x20}, spec.ECBDecrypt(key, append(j.wire(), 9, 8, 7, 6))...); err != nil || !bytes.Equal(wire, want) {
				c.Fail("many-keys/join-accept", fmt.Sprintf("key number %d (%x): encrypted join-accept %x (err %v), specification %x", i, key, wire, err, want), nil)
				return false
			}
			if err := p.DecryptJoinAcceptPayload(keyOf(key)); err != nil || p.MIC != (lorawan.MIC{9, 8, 7, 6}) || deepPrint(p.MACPayload) != deepPrint(lorawan.Payload(j.lib())) {
				c.Fail("many-keys/join-accept", fmt.Sprintf("key number %d (%x): DecryptJoinAcceptPayload does not give the join-accept back (err %v)", i, key, err), nil)
				return false
			}
			return true
		}
		for i := 0; i < n; i++ {
			if !step(i) {
				return
			}
			if i%64 == 63 {
				for _, back := range []int{0, i / 2, i - 63, i - 1} {
					if !step(back) {
						return
					}
				}
			}
		}
		c.NonTrivial()
		c.Outcome("many-keys/history-completed")
	})
}

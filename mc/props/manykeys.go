package props

import (
	"bytes"
	"fmt"

	"github.com/brocaar/lorawan"

	"verifmc/engine"
	"verifmc/spec"
)

// manyKeysHistory: one long history of cryptographic calls in which every call uses a key that no
// earlier call of the process used (a network server holds one key set per device): whatever the
// library keeps per key must not make a later call panic or compute with another key's schedule.
// The bound is the number of distinct keys; the calls alternate between the payload and FOpts
// key streams, the join-accept pair and - every 64th key - all of them on an earlier key again.
func manyKeysHistory(r *engine.Run) {
	n := 4096
	if r.Thorough() {
		n = 1 << 17
	}
	r.Rule += fmt.Sprintf(" Many-keys history: one sequence of %d x 4 calls (EncryptFRMPayload, EncryptFOpts, join-accept encrypt + decrypt) each under a key not used before in the process, with every 64th step returning to earlier keys; each result is compared with the specification's key stream / ECB value for that key.", n)
	r.Rule += collidingRule()
	r.PartWorkers("history/many-keys", []string{fmt.Sprintf("distinct keys:%d", n), "call:4"}, 1, 1, func(c *engine.Case) {
		keyOf16 := manyKey
		plain := fillBytes(21, 0x31)
		step := func(i int) bool {
			key := keyOf16(i)
			c.Eval()
			uplink := i%2 == 0
			da, fc := uint32(0x01020304)+uint32(i), uint32(i)
			a := devAddrOf(da)
			got, err := lorawan.EncryptFRMPayload(keyOf(key), uplink, a, fc, append([]byte(nil), plain...))
			if want := spec.XOR(plain, spec.Keystream(key, uplink, da, fc, len(plain))); err != nil || !bytes.Equal(got, want) {
				c.Fail("many-keys/frmpayload", fmt.Sprintf("key number %d (%x): EncryptFRMPayload gives %x (err %v), specification %x", i, key, got, err, want), nil)
				return false
			}
			fo := plain[:7]
			got, err = lorawan.EncryptFOpts(keyOf(key), false, uplink, a, fc, append([]byte(nil), fo...))
			if want := spec.XOR(fo, spec.FOptsKeystream(key, false, uplink, da, fc)); err != nil || !bytes.Equal(got, want) {
				c.Fail("many-keys/fopts", fmt.Sprintf("key number %d (%x): EncryptFOpts gives %x (err %v), specification %x", i, key, got, err, want), nil)
				return false
			}
			j := jaValue{joinNonce: uint32(i) & 0xFFFFFF, netID: c04NetIDs[1], devAddr: da, dlSettings: 0x12, rxDelay: 1, cfKind: i % 3}
			p := lorawan.PHYPayload{MHDR: lorawan.MHDR{MType: lorawan.JoinAccept}, MACPayload: j.lib(), MIC: lorawan.MIC{9, 8, 7, 6}}
			if err := p.EncryptJoinAcceptPayload(keyOf(key)); err != nil {
				c.Fail("many-keys/join-accept", fmt.Sprintf("key number %d: EncryptJoinAcceptPayload: %v", i, err), nil)
				return false
			}
			wire, err := p.MarshalBinary()
			if want := append([]byte{0x20}, spec.ECBDecrypt(key, append(j.wire(), 9, 8, 7, 6))...); err != nil || !bytes.Equal(wire, want) {
				c.Fail("many-keys/join-accept", fmt.Sprintf("key number %d (%x): encrypted join-accept %x (err %v), specification %x", i, key, wire, err, want), nil)
				return false
			}
			if err := p.DecryptJoinAcceptPayload(keyOf(key)); err != nil || p.MIC != (lorawan.MIC{9, 8, 7, 6}) || deepPrint(p.MACPayload) != deepPrint(lorawan.Payload(j.lib())) {
				c.Fail("many-keys/join-accept", fmt.Sprintf("key number %d (%x): DecryptJoinAcceptPayload does not give the join-accept back (err %v)", i, key, err), nil)
				return false
			}
			return true
		}
		if manyHistoryRun(n, step) {
			c.NonTrivial()
			c.Outcome("many-keys/history-completed")
		}
	})
}

// manyHistoryRun drives one long history over argument number 0..n-1: every argument is new when
// it is first used; every 64th step returns to argument 0 (far back, and touched regularly), to
// argument i/2 (untouched since its first use, at a distance that grows without bound below n/2),
// and to the arguments 63 and 1 steps back. Whatever the code under check keeps per argument - a
// FIFO ring, an LRU list, a memo table with a capacity below n/2 - has by then replaced and
// re-used its entries several times. step returns false to end the history (after reporting).
func manyHistoryRun(n int, step func(i int) bool) bool {
	for i := 0; i < n; i++ {
		if !step(i) {
			return false
		}
		if i%64 == 63 {
			for _, back := range []int{0, i / 2, i - 63, i - 1} {
				if !step(back) {
					return false
				}
			}
		}
	}
	// the fingerprint-colliding key pairs (collide.go), each used back to back
	t, _ := collidingKeys()
	for p := 0; p < len(t)/2; p++ {
		a := collisionKeyBase + 2*p
		for _, i := range []int{a, a + 1, a, a + 1} {
			if !step(i) {
				return false
			}
		}
	}
	return true
}

// manyHistoryN is the number of distinct arguments of a many-arguments history.
func manyHistoryN(r *engine.Run) int {
	if r.Thorough() {
		return 1 << 17
	}
	return 4096
}

// manyKey is key number i of a many-keys history (pairwise distinct for i < 2^23; from collisionKeyBase on, the fingerprint-colliding keys of collide.go).
func manyKey(i int) []byte {
	if i >= collisionKeyBase {
		t, _ := collidingKeys()
		return append([]byte(nil), t[(i-collisionKeyBase)%len(t)]...)
	}
	k := make([]byte, 16)
	for j := range k {
		k[j] = byte(0x40 + j)
	}
	k[0], k[5], k[10], k[15] = byte(i), byte(i>>8), byte(i>>16), byte(i*7)
	return k
}

// manyKeysMIC (C02): data MICs, each step under a key pair not used before in the process.
func manyKeysMIC(r *engine.Run) {
	n := manyHistoryN(r)
	r.Rule += fmt.Sprintf(" Many-keys history: %d steps, each a Set + Validate of a data MIC (direction, MAC version alternating) under integrity keys not used before in the process, returning to earlier keys every 64th step; compared with the specification MIC.", n)
	r.Rule += collidingRule()
	r.PartWorkers("history/many-keys", []string{fmt.Sprintf("distinct key pairs:%d", n)}, 1, 1, func(c *engine.Case) {
		ok := manyHistoryRun(n, func(i int) bool {
			c.Eval()
			f := spec.DataFrame{MType: byte(2 + i%4), DevAddr: 0x01020304 + uint32(i), FCnt: uint32(i), ACK: i%3 == 0, HasPort: true, FPort: 10, FRM: fillBytes(1+i%40, 0x21)}
			p, err := buildFrame(f, nil, nil)
			if err != nil {
				c.Fail("harness/build", err.Error(), nil)
				return false
			}
			m := micParams{v11: i%2 == 0, confFCnt: uint32(i % 7), txDR: 1, txCh: 2, fKey: manyKey(i), sKey: manyKey(i + 1<<22)}
			if !m.v11 {
				m.sKey = m.fKey
			}
			want, _ := specMIC(f, m)
			if err := libSetMIC(p, f.Uplink(), m); err != nil || [4]byte(p.MIC) != want {
				c.Fail("many-keys/data-mic", fmt.Sprintf("key pair number %d: library MIC %x (err %v), specification %x", i, p.MIC[:], err, want[:]), nil)
				return false
			}
			if ok, err := libValidateMIC(p, f.Uplink(), m); err != nil || !ok {
				c.Fail("many-keys/data-mic", fmt.Sprintf("key pair number %d: Validate=%v err=%v on the specification MIC", i, ok, err), nil)
				return false
			}
			return true
		})
		if ok {
			c.NonTrivial()
			c.Outcome("many-keys/history-completed")
		}
	})
}

// manyKeysJoin (C04): join-request, rejoin and join-accept MICs (both forms) under keys not used before.
func manyKeysJoin(r *engine.Run) {
	n := manyHistoryN(r)
	r.Rule += fmt.Sprintf(" Many-keys history: %d steps, each a join-request MIC, a rejoin-request MIC and a join-accept MIC (1.0 / OptNeg form alternating) under a key not used before in the process, returning to earlier keys every 64th step; compared with the specification CMACs.", n)
	r.Rule += collidingRule()
	r.PartWorkers("history/many-keys", []string{fmt.Sprintf("distinct keys:%d", n), "call:3"}, 1, 1, func(c *engine.Case) {
		ok := manyHistoryRun(n, func(i int) bool {
			c.Eval()
			key := manyKey(i)
			joinEUI, devEUI := c04EUIs[1], c04EUIs[2]
			devEUI[0] = byte(i)
			nonce := uint16(i)
			// join-request
			jr := lorawan.PHYPayload{MHDR: lorawan.MHDR{MType: lorawan.JoinRequest}, MACPayload: &lorawan.JoinRequestPayload{JoinEUI: lorawan.EUI64(joinEUI), DevEUI: lorawan.EUI64(devEUI), DevNonce: lorawan.DevNonce(nonce)}}
			wire, err := jr.MarshalBinary()
			if err != nil {
				c.Fail("harness/build", err.Error(), nil)
				return false
			}
			want := spec.JoinMIC(key, wire[0], wire[1:len(wire)-4])
			if err := jr.SetUplinkJoinMIC(keyOf(key)); err != nil || [4]byte(jr.MIC) != want {
				c.Fail("many-keys/join-request-mic", fmt.Sprintf("key number %d (%x): library MIC %x (err %v), specification %x", i, key, jr.MIC[:], err, want[:]), nil)
				return false
			}
			if ok, err := jr.ValidateUplinkJoinMIC(keyOf(key)); err != nil || !ok {
				c.Fail("many-keys/join-request-mic", fmt.Sprintf("key number %d: Validate=%v err=%v on the specification MIC", i, ok, err), nil)
				return false
			}
			// rejoin-request type 1 (same CMAC, other frame)
			rj := lorawan.PHYPayload{MHDR: lorawan.MHDR{MType: lorawan.RejoinRequest}, MACPayload: &lorawan.RejoinRequestType1Payload{RejoinType: lorawan.RejoinRequestType1, JoinEUI: lorawan.EUI64(joinEUI), DevEUI: lorawan.EUI64(devEUI), RJCount1: nonce}}
			wire, err = rj.MarshalBinary()
			if err != nil {
				c.Fail("harness/build", err.Error(), nil)
				return false
			}
			want = spec.JoinMIC(key, wire[0], wire[1:len(wire)-4])
			if err := rj.SetUplinkJoinMIC(keyOf(key)); err != nil || [4]byte(rj.MIC) != want {
				c.Fail("many-keys/rejoin-request-mic", fmt.Sprintf("key number %d (%x): library MIC %x (err %v), specification %x", i, key, rj.MIC[:], err, want[:]), nil)
				return false
			}
			// join-accept
			j := jaValue{joinNonce: uint32(i) & 0xFFFFFF, netID: c04NetIDs[1], devAddr: 0x01020304, dlSettings: byte(i%2) << 7, rxDelay: 1, cfKind: i % 3}
			ja := lorawan.PHYPayload{MHDR: lorawan.MHDR{MType: lorawan.JoinAccept}, MACPayload: j.lib()}
			want = spec.JoinMIC(key, 0x20, j.wire())
			if i%2 == 1 {
				want = spec.JoinAcceptMIC11(key, 0xFF, joinEUI, nonce, 0x20, j.wire())
			}
			if err := ja.SetDownlinkJoinMIC(lorawan.JoinRequestType, lorawan.EUI64(joinEUI), lorawan.DevNonce(nonce), keyOf(key)); err != nil || [4]byte(ja.MIC) != want {
				c.Fail("many-keys/join-accept-mic", fmt.Sprintf("key number %d (%x): library MIC %x (err %v), specification %x", i, key, ja.MIC[:], err, want[:]), nil)
				return false
			}
			if ok, err := ja.ValidateDownlinkJoinMIC(lorawan.JoinRequestType, lorawan.EUI64(joinEUI), lorawan.DevNonce(nonce), keyOf(key)); err != nil || !ok {
				c.Fail("many-keys/join-accept-mic", fmt.Sprintf("key number %d: Validate=%v err=%v on the specification MIC", i, ok, err), nil)
				return false
			}
			return true
		})
		if ok {
			c.NonTrivial()
			c.Outcome("many-keys/history-completed")
		}
	})
}

// manySessions (C05): complete secured exchanges, each under a session (four keys, an address, counters) of its own.
// The frames of a batch of devices are all sent before the first of them is received (batches of 1, 8, 96
// and 700 devices in turn), so that whatever the library keeps per key has seen many other sessions
// between the two ends of one exchange.
func manySessions(r *engine.Run) {
	n := manyHistoryN(r) / 4
	r.Rule += fmt.Sprintf(" Many-sessions history: %d devices with their own session keys, each exchanging one 1.1 downlink (MAC commands in encrypted FOpts + encrypted payload) and one 1.0 uplink through encrypt, MIC, the wire, validation and decryption, returning to earlier devices every 64th step; the frames of a batch (1, 8, 96, 700 devices in turn) are all sent before the first is received: the receiver recovers exactly what was sent and a flipped payload byte is rejected.", n)
	r.Rule += collidingRule()
	r.PartWorkers("history/many-sessions", []string{fmt.Sprintf("devices:%d", n), "frames:2", "batch sizes: 1, 8, 96, 700"}, 1, 1, func(c *engine.Case) {
		type sent struct {
			dev  int
			v11  bool
			wire []byte
			body []byte
			cmds []lorawan.Payload
		}
		keys := func(i int) (kF, kS, kE, kA []byte) {
			return manyKey(4 * i), manyKey(4*i + 1), manyKey(4*i + 2), manyKey(4*i + 3)
		}
		send := func(i int, v11 bool) (sent, bool) {
			c.Eval()
			kF, kS, kE, kA := keys(i)
			da := devAddrOf(0x26000000 + uint32(i))
			fcnt := uint32(0x10000 + i)
			port := uint8(1 + i%200)
			body := fillBytes(3+i%50, byte(i))
			mp := &lorawan.MACPayload{FHDR: lorawan.FHDR{DevAddr: da, FCnt: fcnt}, FPort: &port, FRMPayload: []lorawan.Payload{&lorawan.DataPayload{Bytes: append([]byte(nil), body...)}}}
			p := lorawan.PHYPayload{MHDR: lorawan.MHDR{MType: lorawan.UnconfirmedDataDown, Major: lorawan.LoRaWANR1}, MACPayload: mp}
			out := sent{dev: i, v11: v11, body: body}
			if v11 {
				out.cmds = []lorawan.Payload{&lorawan.MACCommand{CID: lorawan.DevStatusReq}, &lorawan.MACCommand{CID: lorawan.DutyCycleReq, Payload: &lorawan.DutyCycleReqPayload{MaxDCycle: uint8(i % 16)}}}
				mp.FHDR.FOpts = []lorawan.Payload{&lorawan.MACCommand{CID: lorawan.DevStatusReq}, &lorawan.MACCommand{CID: lorawan.DutyCycleReq, Payload: &lorawan.DutyCycleReqPayload{MaxDCycle: uint8(i % 16)}}}
			} else {
				p.MHDR.MType = lorawan.UnconfirmedDataUp
			}
			fail := func(what string, err error) (sent, bool) {
				c.Fail("many-sessions/"+what, fmt.Sprintf("device number %d (v1.1=%v): %s: %v", i, v11, what, err), nil)
				return out, false
			}
			if err := p.EncryptFRMPayload(keyOf(kA)); err != nil {
				return fail("encrypt-payload", err)
			}
			if v11 {
				if err := p.EncryptFOpts(keyOf(kE)); err != nil {
					return fail("encrypt-fopts", err)
				}
				if err := p.SetDownlinkDataMIC(lorawan.LoRaWAN1_1, 0, keyOf(kS)); err != nil {
					return fail("set-mic", err)
				}
			} else if err := p.SetUplinkDataMIC(lorawan.LoRaWAN1_0, 0, 0, 0, keyOf(kF), keyOf(kF)); err != nil {
				return fail("set-mic", err)
			}
			var err error
			if out.wire, err = p.MarshalBinary(); err != nil {
				return fail("encode", err)
			}
			return out, true
		}
		receive := func(s sent) bool {
			c.Eval()
			i, v11 := s.dev, s.v11
			kF, kS, kE, kA := keys(i)
			fcnt := uint32(0x10000 + i)
			fail := func(what string, err error) bool {
				c.Fail("many-sessions/"+what, fmt.Sprintf("device number %d (v1.1=%v): %s: %v", i, v11, what, err), nil)
				return false
			}
			for tamper := 0; tamper < 2; tamper++ {
				rx := append([]byte(nil), s.wire...)
				if tamper == 1 {
					rx[len(rx)-5] ^= 0x40
				}
				var q lorawan.PHYPayload
				if err := q.UnmarshalBinary(rx); err != nil {
					return fail("decode", err)
				}
				qm := q.MACPayload.(*lorawan.MACPayload)
				qm.FHDR.FCnt = fcnt
				var valid bool
				var err error
				if v11 {
					valid, err = q.ValidateDownlinkDataMIC(lorawan.LoRaWAN1_1, 0, keyOf(kS))
				} else {
					valid, err = q.ValidateUplinkDataMIC(lorawan.LoRaWAN1_0, 0, 0, 0, keyOf(kF), keyOf(kF))
				}
				if err != nil || valid != (tamper == 0) {
					c.Fail("many-sessions/validate", fmt.Sprintf("device number %d (v1.1=%v, payload byte flipped=%v): Validate=%v err=%v", i, v11, tamper == 1, valid, err), nil)
					return false
				}
				if tamper == 1 {
					continue
				}
				if v11 {
					if err := q.DecryptFOpts(keyOf(kE)); err != nil {
						return fail("decrypt-fopts", err)
					}
					if got, want := deepPrint(qm.FHDR.FOpts), deepPrint(s.cmds); got != want {
						c.Fail("many-sessions/fopts", fmt.Sprintf("device number %d: receiver obtains the MAC commands %s, sent %s", i, got, want), nil)
						return false
					}
				}
				if err := q.DecryptFRMPayload(keyOf(kA)); err != nil {
					return fail("decrypt-payload", err)
				}
				if len(qm.FRMPayload) != 1 || !bytes.Equal(qm.FRMPayload[0].(*lorawan.DataPayload).Bytes, s.body) {
					c.Fail("many-sessions/payload", fmt.Sprintf("device number %d (v1.1=%v): receiver obtains %s, sent %x", i, v11, deepPrint(qm.FRMPayload), s.body), nil)
					return false
				}
			}
			return true
		}
		var order []int
		manyHistoryRun(n, func(i int) bool { order = append(order, i); return true })
		sizes := []int{1, 8, 96, 700}
		for start, k := 0, 0; start < len(order); k++ {
			end := start + sizes[k%len(sizes)]
			if end > len(order) {
				end = len(order)
			}
			var inFlight []sent
			for _, i := range order[start:end] {
				for v := 0; v < 2; v++ {
					s, ok := send(i, v == 0)
					if !ok {
						return
					}
					inFlight = append(inFlight, s)
				}
			}
			for _, s := range inFlight {
				if !receive(s) {
					return
				}
			}
			start = end
		}
		c.NonTrivial()
		c.Outcome("many-sessions/history-completed")
	})
}

package props

import (
	"bytes"
	"encoding/base64"
	"encoding/hex"
	"fmt"

	"github.com/brocaar/lorawan"

	"verifmc/engine"
	"verifmc/spec"
)

func init() { register("C01", "exploration", runC01) }

// c01Compare checks a decoded data frame against the specification value.
func c01Compare(p *lorawan.PHYPayload, f spec.DataFrame) string {
	if byte(p.MHDR.MType) != f.MType || byte(p.MHDR.Major) != f.Major {
		return fmt.Sprintf("MHDR %+v", p.MHDR)
	}
	mp, ok := p.MACPayload.(*lorawan.MACPayload)
	if !ok {
		return fmt.Sprintf("payload kind %T", p.MACPayload)
	}
	if mp.FHDR.DevAddr != devAddrOf(f.DevAddr) {
		return fmt.Sprintf("DevAddr %s", mp.FHDR.DevAddr)
	}
	if mp.FHDR.FCnt != f.FCnt&0xFFFF {
		return fmt.Sprintf("FCnt %#x, expected %#x (mod 2^16)", mp.FHDR.FCnt, f.FCnt&0xFFFF)
	}
	fc := mp.FHDR.FCtrl
	if fc.ADR != f.ADR || fc.ADRACKReq != f.ADRACKReq || fc.ACK != f.ACK || (fc.ClassB || fc.FPending) != f.Bit4 {
		return fmt.Sprintf("FCtrl %+v", fc)
	}
	if (mp.FPort != nil) != f.HasPort || mp.FPort != nil && *mp.FPort != f.FPort {
		return "FPort differs"
	}
	fo, ok := opaqueBytes(mp.FHDR.FOpts)
	if !ok || !bytes.Equal(fo, f.FOpts) {
		return fmt.Sprintf("FOpts %x, expected %x", fo, f.FOpts)
	}
	fr, ok := opaqueBytes(mp.FRMPayload)
	if !ok || !bytes.Equal(fr, f.FRM) {
		return fmt.Sprintf("FRMPayload %x, expected %x", fr, f.FRM)
	}
	return ""
}

func c01Lengths(thorough bool) []int {
	if thorough {
		l := make([]int, 243)
		for i := range l {
			l[i] = i
		}
		return l
	}
	return []int{0, 1, 2, 15, 16, 17, 127, 128, 226, 241, 242}
}

func runC01(r *engine.Run) {
	r.Rule = "E1 product of spec-valid frame values built simultaneously as a specification value (independent serialiser mc/spec/frame.go) and as a library value: data frames MType{2..5} x 16 FCtrl flag combinations x FOptsLen 0..15 x FOpts form{commands,opaque} x FPort{absent,0,1,223,224,255} x FRMPayload length (quick: 11 lengths; thorough: 0..242) x FRMPayload form (port 0: also a MAC-command list) x FCnt(5) x DevAddr(3), restricted to spec-valid combinations; Major 0..3 x MType 0..7; join-request / rejoin 0,1,2 over EUI/nonce/NetID alphabets; join-accept: all 256 DLSettings x RXDelay 0..15 x CFList kinds, and value alphabets x CFList contents (4^5 channel lists, all mask lists of length 0..6 over 4 masks); proprietary lengths 0..250; base64 text form. Obligations per case: encode succeeds, bytes equal the specification serialisation, decode yields an equal frame (FCnt mod 2^16, FCtrl bit 4 as ClassB||FPending, FOpts/FRMPayload as bytes and as decoded command lists, CFList masks up to trailing all-zero masks). Non-trivial: encode succeeded and all three comparisons ran; distinct by construction."
	frameHistory(r, 2)
	r.Assume("FPort=0 together with non-empty FOpts is excluded from the generator (not spec-clear; C08 handles what the decoder accepts)")
	r.Assume("opaque bytes are position-distinct fillers: the codec copies them without inspection (data independence, confirmed by the per-position sweeps in C08)")

	lens := c01Lengths(r.Thorough())
	ports := []int{-1, 0, 1, 223, 224, 255}
	fcnts := []uint32{0, 1, 0xFFFF, 0x10000, 0x12345678}
	sp := (&engine.Space{}).Dim("mtype", 4).Dim("fctrl-flags", 16).Dim("foptslen", 16).Dim("fopts-form", 2).Dim("fport", len(ports)).Dim("frmlen", len(lens)).Dim("frm-form", 2).Dim("fcnt", 5).Dim("devaddr", 3)
	r.PartDims("data", sp.Desc(), sp.N(), func(c *engine.Case) {
		var ch [9]int
		sp.Decode(c.Index, ch[:])
		port, frmLen := ports[ch[4]], lens[ch[5]]
		cmdsFRM := ch[6] == 1
		switch {
		case port < 0 && (frmLen > 0 || cmdsFRM), port == 0 && ch[2] > 0, ch[2] == 0 && ch[3] == 1,
			cmdsFRM && (port != 0 || frmLen == 0), 7+ch[2]+1+frmLen > 250:
			c.Outcome("filtered(not a spec-valid combination)")
			return
		}
		f := spec.DataFrame{MType: byte(2 + ch[0]), DevAddr: c02DevAddrs[ch[8]], FCnt: fcnts[ch[7]],
			ADR: ch[1]&8 != 0, ADRACKReq: ch[1]&4 != 0, ACK: ch[1]&2 != 0, Bit4: ch[1]&1 != 0}
		uplink := f.Uplink()
		var foCmds, frCmds []spec.Cmd
		if ch[3] == 1 {
			foCmds = spec.Compose(uplink, ch[2], int(c.Index%13))
			f.FOpts = spec.CmdBytes(foCmds)
		} else {
			f.FOpts = fillBytes(ch[2], 0xE1)
		}
		if port >= 0 {
			f.HasPort, f.FPort = true, byte(port)
			if cmdsFRM {
				frCmds = spec.Compose(uplink, frmLen, int(c.Index%17))
				f.FRM = spec.CmdBytes(frCmds)
			} else {
				f.FRM = fillBytes(frmLen, 0x3C)
			}
		}
		p, err := buildFrame(f, foCmds, frCmds)
		if err != nil {
			c.Fail("harness/build", err.Error(), nil)
			return
		}
		p.MIC = lorawan.MIC{0xDE, 0xAD, 0xBE, 0xEF}
		wire, err := p.MarshalBinary()
		if err != nil {
			c.Fail("data/encoder-refuses-spec-valid-frame", fmt.Sprintf("frame %x refused: %v", f.Msg(), err), nil)
			return
		}
		want := append(f.Msg(), 0xDE, 0xAD, 0xBE, 0xEF)
		if !bytes.Equal(wire, want) {
			c.Fail("data/bytes-differ-from-spec", fmt.Sprintf("library %x, specification %x", wire, want), nil)
			return
		}
		var q lorawan.PHYPayload
		if err := q.UnmarshalBinary(wire); err != nil {
			c.Fail("data/decoder-refuses-own-encoding", fmt.Sprintf("%x: %v", wire, err), nil)
			return
		}
		observe(&q) // a receiver logs the frame it decoded
		c.NonTrivial()
		if q.MIC != p.MIC {
			c.Fail("data/mic-not-preserved", fmt.Sprintf("%x", q.MIC[:]), nil)
		}
		if msg := c01Compare(&q, f); msg != "" {
			c.Fail("data/decoded-frame-differs", fmt.Sprintf("frame %x: %s", wire, msg), nil)
			return
		}
		// as the MAC commands they carry
		mp := q.MACPayload.(*lorawan.MACPayload)
		if foCmds != nil {
			if err := q.DecodeFOptsToMACCommands(); err != nil {
				c.Fail("data/fopts-commands-decode-error", fmt.Sprintf("frame %x: %v", wire, err), nil)
			} else if msg := sameCmds(uplink, mp.FHDR.FOpts, foCmds); msg != "" {
				c.Fail("data/fopts-commands-differ", fmt.Sprintf("frame %x: %s", wire, msg), nil)
			}
		}
		if frCmds != nil {
			if err := q.DecodeFRMPayloadToMACCommands(); err != nil {
				c.Fail("data/frm-commands-decode-error", fmt.Sprintf("frame %x: %v", wire, err), nil)
			} else if msg := sameCmds(uplink, mp.FRMPayload, frCmds); msg != "" {
				c.Fail("data/frm-commands-differ", fmt.Sprintf("frame %x: %s", wire, msg), nil)
			}
		}
		// text form
		if c.Index%8 == 0 {
			t, err := p.MarshalText()
			if err != nil || string(t) != base64.StdEncoding.EncodeToString(want) {
				c.Fail("data/text-form", fmt.Sprintf("%q err %v", t, err), nil)
			} else {
				var q2 lorawan.PHYPayload
				if err := q2.UnmarshalText(t); err != nil {
					c.Fail("data/text-form-decode", err.Error(), nil)
				} else if msg := c01Compare(&q2, f); msg != "" {
					c.Fail("data/text-form-decode", msg, nil)
				}
			}
		}
		c.Outcome(fmt.Sprintf("data/mtype=%d", f.MType))
		c.Outcome(fmt.Sprintf("data/foptslen=%d", len(f.FOpts)))
		if f.HasPort {
			c.Outcome("data/fport-present")
		} else {
			c.Outcome("data/fport-absent")
		}
		if c.WantSample() && len(f.FRM) > 0 && len(f.FOpts) > 0 {
			c.Sample(func() interface{} {
				return map[string]interface{}{"part": "data", "wire": hex.EncodeToString(want)}
			})
		}
	})

	// ---- frame values obtained by decoding and then changing exported fields
	// (a frame value is its exported fields; hidden state left over from the
	// decode must not leak into the next encoding)
	spM := (&engine.Space{}).Dim("mtype", 4).Dim("decoded foptslen", 16).Dim("new foptslen", 16).Dim("fport{absent,1}", 2).Dim("new fopts form", 2)
	r.PartDims("data/modified-after-decode", spM.Desc(), spM.N(), func(c *engine.Case) {
		var ch [5]int
		spM.Decode(c.Index, ch[:])
		f := spec.DataFrame{MType: byte(2 + ch[0]), DevAddr: 0x01020304, FCnt: 9, ADR: true}
		f.FOpts = fillBytes(ch[1], 0xB0)
		if ch[3] == 1 {
			f.HasPort, f.FPort, f.FRM = true, 10, fillBytes(4, 0x11)
		}
		wire := append(f.Msg(), 1, 2, 3, 4)
		var p lorawan.PHYPayload
		if err := p.UnmarshalBinary(wire); err != nil {
			c.Fail("data/decoder-refuses-spec-valid-frame", fmt.Sprintf("%x: %v", wire, err), nil)
			return
		}
		observe(&p) // a receiver logs the frame it decoded
		mp := p.MACPayload.(*lorawan.MACPayload)
		g := f
		var newCmds []spec.Cmd
		if ch[4] == 1 && ch[2] > 0 {
			newCmds = spec.Compose(f.Uplink(), ch[2], int(c.Index%5))
			g.FOpts = spec.CmdBytes(newCmds)
			l, _ := libCmds(f.Uplink(), newCmds)
			mp.FHDR.FOpts = l
		} else {
			g.FOpts = fillBytes(ch[2], 0x5C)
			if ch[2] == 0 {
				mp.FHDR.FOpts = nil
			} else {
				mp.FHDR.FOpts = []lorawan.Payload{&lorawan.DataPayload{Bytes: append([]byte(nil), g.FOpts...)}}
			}
		}
		g.FCnt = 0x00020003
		mp.FHDR.FCnt = g.FCnt
		got, err := p.MarshalBinary()
		want := append(g.Msg(), 1, 2, 3, 4)
		if err != nil {
			c.Fail("data/modified-after-decode/encoder-refuses", fmt.Sprintf("decoded %x, FOpts replaced by %d bytes: %v", wire, ch[2], err), nil)
			return
		}
		c.NonTrivial()
		if !bytes.Equal(got, want) {
			c.Fail("data/modified-after-decode/bytes-differ-from-spec", fmt.Sprintf("decoded %x, then FOpts replaced by %x and FCnt set: encodes to %x, specification %x", wire, g.FOpts, got, want), nil)
			return
		}
		var q lorawan.PHYPayload
		if err := q.UnmarshalBinary(got); err != nil {
			c.Fail("data/modified-after-decode/decoder-refuses", err.Error(), nil)
		} else if msg := c01Compare(&q, g); msg != "" {
			c.Fail("data/modified-after-decode/decoded-frame-differs", msg, nil)
		}
	})

	// ---- the same frame value in its other Go forms: empty non-nil lists (FOpts length 0 and
	// FRMPayload length 0 are inside the quantification; an empty list is what filtering a
	// pending-command queue leaves behind) and payloads held as several items
	spF := (&engine.Space{}).Dim("mtype", 4).Dim("fport{absent,0,1}", 3).Dim("foptslen{0,3}", 2).Dim("frmlen{0,5}", 2).Dim("form", 9)
	r.PartDims("data/value-forms", append(spF.Desc(), "forms: FOpts [] | FRMPayload [] | both [] | FRMPayload in 2 items | FRMPayload with an empty item | FOpts in 2 items | FOpts [] via a re-sliced queue | nil lists (reference) | received FOpts and FRMPayload as windows into one buffer plus an added FOpts item (zero-copy forwarder)"), spF.N(), func(c *engine.Case) {
		var ch [5]int
		spF.Decode(c.Index, ch[:])
		port := []int{-1, 0, 1}[ch[1]]
		foLen, frmLen := 3*ch[2], 5*ch[3]
		if port < 0 && frmLen > 0 || port == 0 && foLen > 0 {
			c.Outcome("filtered(not a spec-valid combination)")
			return
		}
		f := spec.DataFrame{MType: byte(2 + ch[0]), DevAddr: 0x01020304, FCnt: 7, ADR: true}
		uplink := f.Uplink()
		f.FOpts = fillBytes(foLen, 0xE1)
		var frCmds []spec.Cmd
		if port >= 0 {
			f.HasPort, f.FPort = true, byte(port)
			if port == 0 && frmLen > 0 {
				frCmds = spec.Compose(uplink, frmLen, 3)
				f.FRM = spec.CmdBytes(frCmds)
			} else {
				f.FRM = fillBytes(frmLen, 0x3C)
			}
		}
		p, err := buildFrame(f, nil, nil)
		if err != nil {
			c.Fail("harness/build", err.Error(), nil)
			return
		}
		mp := p.MACPayload.(*lorawan.MACPayload)
		item := func(b []byte) lorawan.Payload { return &lorawan.DataPayload{Bytes: append([]byte(nil), b...)} }
		na := func() { c.Outcome("value-forms/form-not-applicable") }
		var arena, arenaBefore []byte
		switch ch[4] {
		case 0:
			if foLen != 0 {
				na()
				return
			}
			mp.FHDR.FOpts = []lorawan.Payload{}
		case 1:
			if len(f.FRM) != 0 {
				na()
				return
			}
			mp.FRMPayload = []lorawan.Payload{}
		case 2:
			if foLen != 0 || len(f.FRM) != 0 {
				na()
				return
			}
			mp.FHDR.FOpts, mp.FRMPayload = []lorawan.Payload{}, []lorawan.Payload{}
		case 3:
			if len(f.FRM) < 2 {
				na()
				return
			}
			mp.FRMPayload = []lorawan.Payload{item(f.FRM[:2]), item(f.FRM[2:])}
		case 4:
			if !f.HasPort {
				na()
				return
			}
			mp.FRMPayload = []lorawan.Payload{item(nil), item(f.FRM)}
		case 5:
			if foLen < 2 {
				na()
				return
			}
			mp.FHDR.FOpts = []lorawan.Payload{item(f.FOpts[:1]), item(f.FOpts[1:])}
		case 6:
			if foLen != 0 {
				na()
				return
			}
			queue := []lorawan.Payload{item([]byte{2})}
			mp.FHDR.FOpts = queue[:0]
		case 7:
		case 8:
			if foLen < 2 || len(f.FRM) == 0 {
				na()
				return
			}
			// a forwarder that adds a command to a received frame without copying it: the received FOpts
			// and the FRMPayload are windows into the receive buffer (capacity up to its end, the payload
			// right behind the FOpts), the added command is an item of its own
			arena = append(append([]byte(nil), f.FOpts[:foLen-1]...), f.FRM...)
			mp.FHDR.FOpts = []lorawan.Payload{&lorawan.DataPayload{Bytes: arena[0 : foLen-1]}, item(f.FOpts[foLen-1:])}
			mp.FRMPayload = []lorawan.Payload{&lorawan.DataPayload{Bytes: arena[foLen-1:]}}
			arenaBefore = append([]byte(nil), arena...)
		}
		p.MIC = lorawan.MIC{1, 2, 3, 4}
		want := append(f.Msg(), 1, 2, 3, 4)
		c.Eval()
		wire, err := p.MarshalBinary()
		if !bytes.Equal(arena, arenaBefore) {
			c.Fail("data/value-forms/encoder-writes-into-the-frame", fmt.Sprintf("form %d: encoding changed the buffer the frame's fields are cut from: %x -> %x", ch[4], arenaBefore, arena), nil)
		}
		if err != nil {
			c.Fail("data/value-forms/encoder-refuses-spec-valid-frame", fmt.Sprintf("form %d of frame %x refused: %v", ch[4], f.Msg(), err), nil)
			return
		}
		c.NonTrivial()
		if !bytes.Equal(wire, want) {
			c.Fail("data/value-forms/bytes-differ-from-spec", fmt.Sprintf("form %d: library %x, specification %x", ch[4], wire, want), nil)
			return
		}
		if t, err := p.MarshalText(); err != nil || string(t) != base64.StdEncoding.EncodeToString(want) {
			c.Fail("data/value-forms/text-form", fmt.Sprintf("form %d: %q err %v", ch[4], t, err), nil)
		}
		var q lorawan.PHYPayload
		if err := q.UnmarshalBinary(wire); err != nil {
			c.Fail("data/decoder-refuses-own-encoding", fmt.Sprintf("%x: %v", wire, err), nil)
		} else if msg := c01Compare(&q, f); msg != "" {
			c.Fail("data/decoded-frame-differs", fmt.Sprintf("frame %x: %s", wire, msg), nil)
		}
		c.Outcome(fmt.Sprintf("value-forms/form=%d", ch[4]))
	})

	// ---- a proprietary command that is registered only after frames carrying its CID have been seen
	// (a gateway forwards whatever it receives): once registered, a frame with the command round-trips
	// as that command. The registry is process-global: one worker, reset before and after each case.
	r.PartWorkers("data/proprietary-registered-later", []string{"cid{80,a7,ff}", "direction:2", "size{1,2,5}", "carrier{FOpts, port-0 FRMPayload}", "the same CID in the other direction{not registered, registered before with another size, registered afterwards with another size}"}, 3*2*3*2*3, 1, func(c *engine.Case) {
		i := c.Index
		cid := []byte{0x80, 0xA7, 0xFF}[i%3]
		uplink := (i/3)%2 == 1
		size := []int{1, 2, 5}[(i/6)%3]
		inFRM := (i/18)%2 == 1
		otherDir := int(i / 36)
		lorawan.VerifRegistryReset()
		defer lorawan.VerifRegistryReset()
		c.Eval()
		f := spec.DataFrame{MType: 3, DevAddr: 0x01020304, FCnt: 5}
		if uplink {
			f.MType = 2
		}
		follower := spec.Example(uplink, 0x02)
		cmds := []spec.Cmd{{CID: cid, Payload: fillBytes(size, 0x02)}, follower}
		if inFRM {
			f.HasPort, f.FPort, f.FRM = true, 0, spec.CmdBytes(cmds)
		} else {
			f.FOpts = spec.CmdBytes(cmds)
		}
		decodeCmds := func(wire []byte) ([]lorawan.Payload, error) {
			var q lorawan.PHYPayload
			if err := q.UnmarshalBinary(wire); err != nil {
				return nil, err
			}
			observe(&q) // a receiver logs the frame it decoded
			mp := q.MACPayload.(*lorawan.MACPayload)
			if inFRM {
				err := q.DecodeFRMPayloadToMACCommands()
				return mp.FRMPayload, err
			}
			err := q.DecodeFOptsToMACCommands()
			return mp.FHDR.FOpts, err
		}
		raw := append(f.Msg(), 1, 2, 3, 4)
		// 1. seen while the CID is unknown (whatever it decodes to; it must not panic)
		decodeCmds(raw)
		// 2. registered (a size registered for the other direction is that direction's business)
		if otherDir == 1 {
			lorawan.RegisterProprietaryMACCommand(!uplink, lorawan.CID(cid), size+2)
		}
		if err := lorawan.RegisterProprietaryMACCommand(uplink, lorawan.CID(cid), size); err != nil {
			c.Fail("data/proprietary-registered-later/registration-refused", fmt.Sprintf("RegisterProprietaryMACCommand(uplink=%v, %02x, %d): %v", uplink, cid, size, err), nil)
			return
		}
		if otherDir == 2 {
			lorawan.RegisterProprietaryMACCommand(!uplink, lorawan.CID(cid), size+2)
		}
		// 3. the frame built from the command values round-trips
		var fo, fr []spec.Cmd
		if inFRM {
			fr = cmds
		} else {
			fo = cmds
		}
		p, err := buildFrame(f, fo, fr)
		if err != nil {
			c.Fail("harness/build", err.Error(), nil)
			return
		}
		p.MIC = lorawan.MIC{1, 2, 3, 4}
		wire, err := p.MarshalBinary()
		if err != nil || !bytes.Equal(wire, raw) {
			c.Fail("data/proprietary-registered-later/bytes-differ-from-spec", fmt.Sprintf("library %x (err %v), specification %x", wire, err, raw), nil)
			return
		}
		c.NonTrivial()
		got, err := decodeCmds(wire)
		if err != nil {
			c.Fail("data/proprietary-registered-later/commands-decode-error", fmt.Sprintf("frame %x after registering %02x (size %d, uplink=%v): %v", wire, cid, size, uplink, err), nil)
			return
		}
		if msg := sameCmds(uplink, got, cmds); msg != "" {
			c.Fail("data/proprietary-registered-later/commands-differ", fmt.Sprintf("frame %x, seen before and decoded after registering %02x (size %d, uplink=%v): %s", wire, cid, size, uplink, msg), nil)
		}
	})

	// ---- MHDR packing
	r.PartDims("mhdr", []string{"major:4", "mtype:8"}, 32, func(c *engine.Case) {
		major, mt := byte(c.Index%4), byte(c.Index/4)
		var pl lorawan.Payload
		var body []byte
		switch mt {
		case 0:
			pl = &lorawan.JoinRequestPayload{}
			body = make([]byte, 18)
		case 6:
			pl = &lorawan.RejoinRequestType02Payload{}
			body = make([]byte, 14)
		case 1, 7:
			pl = &lorawan.DataPayload{Bytes: []byte{1, 2, 3}}
			body = []byte{1, 2, 3}
		default:
			pl = &lorawan.MACPayload{}
			body = make([]byte, 7)
		}
		p := lorawan.PHYPayload{MHDR: lorawan.MHDR{MType: lorawan.MType(mt), Major: lorawan.Major(major)}, MACPayload: pl}
		wire, err := p.MarshalBinary()
		want := append(append([]byte{mt<<5 | major}, body...), 0, 0, 0, 0)
		if err != nil || !bytes.Equal(wire, want) {
			c.Fail("mhdr/encode", fmt.Sprintf("MType %d Major %d: %x (err %v), specification %x", mt, major, wire, err, want), nil)
			return
		}
		c.NonTrivial()
		var q lorawan.PHYPayload
		if err := q.UnmarshalBinary(wire); err != nil || q.MHDR != p.MHDR {
			c.Fail("mhdr/decode", fmt.Sprintf("%x: %+v err %v", wire, q.MHDR, err), nil)
		}
	})

	// ---- join-request / rejoin
	spJ := (&engine.Space{}).Dim("type", 4).Dim("euiA", 3).Dim("devEUI", 3).Dim("nonce", 4).Dim("netid", 3)
	r.PartDims("join-rejoin", spJ.Desc(), spJ.N(), func(c *engine.Case) {
		var ch [5]int
		spJ.Decode(c.Index, ch[:])
		a, d, n, nid := c04EUIs[ch[1]], c04EUIs[ch[2]], c04Nonces[ch[3]], c04NetIDs[ch[4]]
		le := func(e [8]byte) []byte { return revBytes(e[:]) }
		var mhdr byte
		var payload []byte
		var lp lorawan.Payload
		switch ch[0] {
		case 0:
			mhdr, payload = 0x00, append(append(le(a), le(d)...), byte(n), byte(n>>8))
			lp = &lorawan.JoinRequestPayload{JoinEUI: lorawan.EUI64(a), DevEUI: lorawan.EUI64(d), DevNonce: lorawan.DevNonce(n)}
		case 1, 2:
			rt := byte(2 * (ch[0] - 1))
			mhdr, payload = 0xC0, append(append([]byte{rt, nid[2], nid[1], nid[0]}, le(d)...), byte(n), byte(n>>8))
			lp = &lorawan.RejoinRequestType02Payload{RejoinType: lorawan.JoinType(rt), NetID: lorawan.NetID(nid), DevEUI: lorawan.EUI64(d), RJCount0: n}
		default:
			mhdr, payload = 0xC0, append(append(append([]byte{1}, le(a)...), le(d)...), byte(n), byte(n>>8))
			lp = &lorawan.RejoinRequestType1Payload{RejoinType: 1, JoinEUI: lorawan.EUI64(a), DevEUI: lorawan.EUI64(d), RJCount1: n}
		}
		p := lorawan.PHYPayload{MHDR: lorawan.MHDR{MType: lorawan.MType(mhdr >> 5)}, MACPayload: lp, MIC: lorawan.MIC{9, 8, 7, 6}}
		wire, err := p.MarshalBinary()
		want := append(append([]byte{mhdr}, payload...), 9, 8, 7, 6)
		if err != nil {
			c.Fail("join/encoder-refuses-spec-valid-frame", err.Error(), nil)
			return
		}
		if !bytes.Equal(wire, want) {
			c.Fail(fmt.Sprintf("join/bytes-differ-from-spec/type%d", ch[0]), fmt.Sprintf("library %x, specification %x", wire, want), nil)
			return
		}
		c.NonTrivial()
		var q lorawan.PHYPayload
		if err := q.UnmarshalBinary(wire); err != nil {
			c.Fail("join/decoder-refuses-own-encoding", err.Error(), nil)
			return
		}
		observe(&q) // a receiver logs the frame it decoded
		if deepPrint(q) != deepPrint(p) {
			c.Fail(fmt.Sprintf("join/decoded-frame-differs/type%d", ch[0]), fmt.Sprintf("%s vs %s", deepPrint(q), deepPrint(p)), nil)
		}
		t, err := p.MarshalText()
		var q2 lorawan.PHYPayload
		if err != nil || q2.UnmarshalText(t) != nil || deepPrint(q2) != deepPrint(p) {
			c.Fail("join/text-form", fmt.Sprintf("%q err %v", t, err), nil)
		}
		c.Outcome(fmt.Sprintf("join/type%d", ch[0]))
	})

	// ---- text form of short frames: every 1-byte and every 2-byte-pattern proprietary payload x MIC
	// alphabet (base64 text that consists of hex digits only, of '+' '/' only, with and without padding)
	r.PartDims("text-form/proprietary", []string{"payload: 256 one-byte values + 256 two-byte + 256 three-byte patterns", "MIC:4"}, 768*4, func(c *engine.Case) {
		i := int(c.Index % 768)
		mic := [][4]byte{{0, 0, 0, 0}, {0xFF, 0xFF, 0xFF, 0xFF}, {0xD3, 0x4D, 0x34, 0xD3}, {1, 2, 3, 4}}[c.Index/768]
		var pl []byte
		switch {
		case i < 256:
			pl = []byte{byte(i)}
		case i < 512:
			pl = []byte{byte(i), byte(i) ^ 0x5A}
		default:
			pl = []byte{byte(i), 0, byte(i) >> 2}
		}
		c.Eval()
		c.NonTrivial()
		p := lorawan.PHYPayload{MHDR: lorawan.MHDR{MType: lorawan.Proprietary, Major: lorawan.LoRaWANR1}, MACPayload: &lorawan.DataPayload{Bytes: pl}, MIC: lorawan.MIC(mic)}
		want := append(append([]byte{0xE0}, pl...), mic[:]...)
		t, err := p.MarshalText()
		if err != nil || string(t) != base64.StdEncoding.EncodeToString(want) {
			c.Fail("text-form/encode", fmt.Sprintf("frame %x: text %q (err %v), base64 of the specification bytes %q", want, t, err, base64.StdEncoding.EncodeToString(want)), nil)
			return
		}
		var q lorawan.PHYPayload
		if err := q.UnmarshalText(t); err != nil {
			c.Fail("text-form/decoder-refuses-own-text", fmt.Sprintf("frame %x as %q: %v", want, t, err), nil)
			return
		}
		if deepPrint(q) != deepPrint(p) {
			c.Fail("text-form/decoded-frame-differs", fmt.Sprintf("frame %x as %q decodes to %s", want, t, deepPrint(q)), nil)
		}
	})

	spA := (&engine.Space{}).Dim("dlsettings", 256).Dim("rxdelay", 16).Dim("cflist{absent,channels,masks,all-unused channels,one channel,six masks,channels at the ends of the code range}", 7)
	jaRoundTrip := func(c *engine.Case, class string, j jaValue, lib *lorawan.JoinAcceptPayload, wire []byte, expectDecoded *lorawan.JoinAcceptPayload) {
		c.Eval()
		b, err := lib.MarshalBinary()
		if err != nil {
			c.Fail(class+"/encoder-refuses-spec-valid-value", fmt.Sprintf("%+v: %v", j, err), nil)
			return
		}
		if !bytes.Equal(b, wire) {
			c.Fail(class+"/bytes-differ-from-spec", fmt.Sprintf("library %x, specification %x", b, wire), nil)
			return
		}
		c.NonTrivial()
		var d lorawan.JoinAcceptPayload
		if err := d.UnmarshalBinary(false, b); err != nil {
			c.Fail(class+"/decoder-refuses-own-encoding", err.Error(), nil)
			return
		}
		if deepPrint(d) != deepPrint(*expectDecoded) {
			c.Fail(class+"/decoded-value-differs", fmt.Sprintf("%s, expected %s", deepPrint(d), deepPrint(*expectDecoded)), nil)
		}
	}
	r.PartDims("joinaccept/dlsettings-rxdelay-cflist", spA.Desc(), spA.N(), func(c *engine.Case) {
		var ch [3]int
		spA.Decode(c.Index, ch[:])
		j := jaValue{joinNonce: 0x123456, netID: c04NetIDs[1], devAddr: 0x01020304, dlSettings: byte(ch[0]), rxDelay: byte(ch[1]), cfKind: ch[2]}
		jaRoundTrip(c, "ja", j, j.lib(), j.wire(), j.lib())
		c.Outcome(fmt.Sprintf("ja/cflist=%d", ch[2]))
	})
	spV := (&engine.Space{}).Dim("joinnonce", 4).Dim("netid", 3).Dim("devaddr", 3).Dim("dlsettings", 3).Dim("cflist", 3)
	r.PartDims("joinaccept/values", spV.Desc(), spV.N(), func(c *engine.Case) {
		var ch [5]int
		spV.Decode(c.Index, ch[:])
		j := jaValue{joinNonce: c04JNonces[ch[0]], netID: c04NetIDs[ch[1]], devAddr: c02DevAddrs[ch[2]], dlSettings: []byte{0x00, 0x80, 0xF5}[ch[3]], rxDelay: 15, cfKind: ch[4]}
		jaRoundTrip(c, "ja", j, j.lib(), j.wire(), j.lib())
	})
	// CFList contents: channel lists 4^5
	chans := []uint32{0, 100, 867100000, 1677721500}
	r.PartDims("joinaccept/cflist-channels", []string{"slot0..4: 4 each = 1024"}, 1024, func(c *engine.Case) {
		var cl [5]uint32
		i := c.Index
		cf := make([]byte, 16)
		for k := 0; k < 5; k++ {
			cl[k] = chans[i%4]
			i /= 4
			v := cl[k] / 100
			cf[3*k], cf[3*k+1], cf[3*k+2] = byte(v), byte(v>>8), byte(v>>16)
		}
		j := jaValue{joinNonce: 1, netID: c04NetIDs[1], devAddr: 0x01020304, dlSettings: 0x23, rxDelay: 1}
		lib := j.lib()
		lib.CFList = &lorawan.CFList{CFListType: lorawan.CFListChannel, Payload: &lorawan.CFListChannelPayload{Channels: cl}}
		wire := append(j.wire(), cf...)
		jaRoundTrip(c, "ja-cflist-channels", j, lib, wire, lib)
	})
	// CFList contents: all mask lists of length 0..6 over 4 masks (compared up to trailing zero masks)
	masks := []uint16{0x0000, 0x0001, 0x8000, 0xFFFF}
	nLists := 0
	for l, n := 0, 1; l <= 6; l, n = l+1, n*4 {
		nLists += n
	}
	r.PartDims("joinaccept/cflist-masks", []string{fmt.Sprintf("mask lists of length 0..6 over 4 masks:%d", nLists)}, uint64(nLists), func(c *engine.Case) {
		i := int(c.Index)
		l, n := 0, 1
		for i >= n {
			i -= n
			l++
			n *= 4
		}
		var ms []lorawan.ChMask
		cf := make([]byte, 16)
		cf[15] = 1
		last := -1
		for k := 0; k < l; k++ {
			m := masks[i%4]
			i /= 4
			var cm lorawan.ChMask
			for b := 0; b < 16; b++ {
				cm[b] = m&(1<<uint(b)) != 0
			}
			ms = append(ms, cm)
			cf[2*k], cf[2*k+1] = byte(m), byte(m>>8)
			if m != 0 {
				last = k
			}
		}
		j := jaValue{joinNonce: 1, netID: c04NetIDs[1], devAddr: 0x01020304, dlSettings: 0x23, rxDelay: 1}
		lib := j.lib()
		lib.CFList = &lorawan.CFList{CFListType: lorawan.CFListChannelMask, Payload: &lorawan.CFListChannelMaskPayload{ChannelMasks: ms}}
		// expected decode: the list without trailing all-zero masks (the wire
		// always carries the fixed-size field; documented equivalence)
		exp := j.lib()
		var expMasks []lorawan.ChMask
		if last >= 0 {
			expMasks = append(expMasks, ms[:last+1]...)
		}
		exp.CFList = &lorawan.CFList{CFListType: lorawan.CFListChannelMask, Payload: &lorawan.CFListChannelMaskPayload{ChannelMasks: expMasks}}
		wire := append(j.wire(), cf...)
		jaRoundTrip(c, "ja-cflist-masks", j, lib, wire, exp)
	})

	// ---- proprietary
	r.PartDims("proprietary", []string{"payload length:251"}, 251, func(c *engine.Case) {
		body := fillBytes(int(c.Index), 0x77)
		p := lorawan.PHYPayload{MHDR: lorawan.MHDR{MType: lorawan.Proprietary}, MACPayload: &lorawan.DataPayload{Bytes: body}, MIC: lorawan.MIC{1, 2, 3, 4}}
		wire, err := p.MarshalBinary()
		want := append(append([]byte{0xE0}, body...), 1, 2, 3, 4)
		if err != nil || !bytes.Equal(wire, want) {
			c.Fail("proprietary/encode", fmt.Sprintf("%x err %v", wire, err), nil)
			return
		}
		c.NonTrivial()
		var q lorawan.PHYPayload
		if err := q.UnmarshalBinary(wire); err != nil {
			c.Fail("proprietary/decoder-refuses-own-encoding", fmt.Sprintf("length %d: %v", c.Index, err), nil)
			return
		}
		observe(&q) // a receiver logs the frame it decoded
		dp, ok := q.MACPayload.(*lorawan.DataPayload)
		if !ok || !bytes.Equal(dp.Bytes, body) || q.MIC != p.MIC || q.MHDR != p.MHDR {
			c.Fail("proprietary/decoded-frame-differs", fmt.Sprintf("length %d", c.Index), nil)
		}
	})

	for mt := 2; mt <= 5; mt++ {
		r.Guard(r.OutcomeCount(fmt.Sprintf("data/mtype=%d", mt)) > 0, "MType %d exercised", mt)
	}
	for n := 0; n <= 15; n++ {
		r.Guard(r.OutcomeCount(fmt.Sprintf("data/foptslen=%d", n)) > 0, "FOptsLen %d exercised", n)
	}
	r.Guard(r.OutcomeCount("data/fport-present") > 0 && r.OutcomeCount("data/fport-absent") > 0, "FPort present and absent exercised")
	for t := 0; t < 4; t++ {
		r.Guard(r.OutcomeCount(fmt.Sprintf("join/type%d", t)) > 0, "join/rejoin kind %d exercised", t)
	}
}

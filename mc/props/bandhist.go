package props

import (
	"fmt"
	"strings"
	"time"

	"github.com/brocaar/lorawan"
	"github.com/brocaar/lorawan/band"

	"verifmc/engine"
)

// bandWarm calls the read-only operations of a band (used as the Warm hook of
// every explicit-state search over band mutators, see engine.XSpec.Warm).
func bandWarm(obj interface{}) {
	b, ok := obj.(band.Band)
	if !ok {
		return
	}
	en := b.GetEnabledUplinkChannelIndices()
	b.GetDisabledUplinkChannelIndices()
	b.GetUplinkChannelIndices()
	b.GetStandardUplinkChannelIndices()
	b.GetCustomUplinkChannelIndices()
	b.GetEnabledUplinkDataRates()
	b.GetCFList("1.0.2")
	b.GetCFList("1.1.0")
	b.GetLinkADRReqPayloadsForEnabledUplinkChannelIndices([]int{0, 1, 2})
	b.GetLinkADRReqPayloadsForEnabledUplinkChannelIndices(en)
	b.GetLinkADRReqPayloadsForEnabledUplinkChannelIndices(nil)
	if ch, err := b.GetUplinkChannel(0); err == nil {
		b.GetRX1FrequencyForUplinkFrequency(ch.Frequency)
		b.GetUplinkChannelIndex(ch.Frequency, true)
		b.GetUplinkChannelIndexForFrequencyDR(ch.Frequency, ch.MinDR)
		b.GetDownlinkTXPower(ch.Frequency)
	}
	b.GetRX1ChannelIndexForUplinkChannelIndex(0)
	b.GetDownlinkChannel(0)
	b.GetMaxPayloadSizeForDataRateIndex("1.0.3", "A", 0)
	b.GetRX1DataRateIndex(0, 0)
	b.GetPingSlotFrequency(lorawan.DevAddr{1, 2, 3, 4}, time.Second*128)
}

// hBand is a band object held by a caller; its observable form is the hook
// snapshot of the channel tables plus what the getters answer.
type hBand struct {
	B   band.Band
	Err string
}

func (h *hBand) HSnap() string {
	if h.B == nil {
		return "band{" + h.Err + "}"
	}
	s := snapOf(h.B)
	var sb strings.Builder
	sb.WriteString("band{" + h.Err + " " + chanSnap(s))
	fmt.Fprintf(&sb, " enabled=%v cflist=%s defaults=%s", h.B.GetEnabledUplinkChannelIndices(), pubPrint(h.B.GetCFList("1.0.3")), pubPrint(h.B.GetDefaults()))
	for i := range s.UplinkChannels {
		r1, err := h.B.GetRX1ChannelIndexForUplinkChannelIndex(i)
		fmt.Fprintf(&sb, " rx1[%d]=%d/%s", i, r1, errS(err))
		if i > 20 {
			break
		}
	}
	sb.WriteString("}")
	return sb.String()
}

// bandInstanceOps: obtaining configurations (and mutating the object just
// obtained). A band object one caller holds must not change because another
// configuration call was made or another object was mutated.
func bandInstanceOps() []HOp {
	var ops []HOp
	for _, n := range bandNames {
		n := n
		mk := func(name string, f func(b band.Band) error) HOp {
			return HOp{name, func(HCtx) interface{} {
				b, err := band.GetConfig(n, false, lorawan.DwellTimeNoLimit)
				if err != nil {
					return &hBand{nil, "error"}
				}
				e := "ok"
				if f != nil {
					e = errS(f(b))
				}
				return &hBand{b, e}
			}}
		}
		// a frequency every band accepts for a custom channel is not known a priori:
		// derive two from the band's own first channel (the refusal is an outcome, too)
		ops = append(ops,
			mk("GetConfig("+string(n)+")", nil),
			mk("GetConfig("+string(n)+").AddChannel(first+200k)", func(b band.Band) error {
				ch, _ := b.GetUplinkChannel(0)
				return b.AddChannel(ch.Frequency+200000*8, 0, 3)
			}),
			mk("GetConfig("+string(n)+").AddChannel(first+1M)", func(b band.Band) error {
				ch, _ := b.GetUplinkChannel(0)
				return b.AddChannel(ch.Frequency+1000000*3, 0, 5)
			}),
			mk("GetConfig("+string(n)+").Disable(1)", func(b band.Band) error { return b.DisableUplinkChannelIndex(1) }),
		)
	}
	ops = append(ops, HOp{"GetConfig(EU868,repeater,dwell400)", func(HCtx) interface{} {
		b, err := band.GetConfig(band.EU868, true, lorawan.DwellTime400ms)
		return &hBand{b, errS(err)}
	}}, HOp{"GetConfig(AS923,repeater,dwell400)", func(HCtx) interface{} {
		b, err := band.GetConfig(band.AS923, true, lorawan.DwellTime400ms)
		return &hBand{b, errS(err)}
	}}, HOp{"GetConfig(unknown)", func(HCtx) interface{} {
		b, err := band.GetConfig(band.Name("NOPE"), false, lorawan.DwellTimeNoLimit)
		return &hBand{b, errS(err)}
	}})
	return ops
}

// bandGetterOps: the read-only operations of one band object (the object of the
// sequence), with argument alphabets that include the refused values. reduced
// selects the calls that can be refused (for the deeper sequences).
func bandGetterOps(cfg bandCfg, reduced bool) []HOp {
	fresh := newBand(cfg)
	s := snapOf(fresh)
	n := len(s.UplinkChannels)
	get := func(ctx HCtx) band.Band {
		b, _ := ctx["band"].(band.Band)
		if b == nil {
			b = newBand(cfg)
			ctx["band"] = b
		}
		return b
	}
	var ops []HOp
	add := func(name string, f func(b band.Band) interface{}) {
		ops = append(ops, HOp{name, func(ctx HCtx) interface{} { return f(get(ctx)) }})
	}
	freqs := []uint32{s.UplinkChannels[0].Frequency, s.UplinkChannels[1%n].Frequency, s.UplinkChannels[n-1].Frequency, s.UplinkChannels[0].Frequency + 50000, 1}
	for _, f := range freqs {
		f := f
		add(fmt.Sprintf("RX1Frequency(%d)", f), func(b band.Band) interface{} {
			v, err := b.GetRX1FrequencyForUplinkFrequency(f)
			return []interface{}{v, errS(err)}
		})
	}
	for _, i := range []int{0, 1, n - 1, n, -1} {
		i := i
		add(fmt.Sprintf("RX1ChannelIndex(%d)", i), func(b band.Band) interface{} {
			v, err := b.GetRX1ChannelIndexForUplinkChannelIndex(i)
			return []interface{}{v, errS(err)}
		})
	}
	versions := []string{"1.0.2", "1.0.3", "1.1.0", "9.9.9"}
	revisions := []string{"A", "B", "RP002-1.0.3", "ZZ"}
	drs := []int{0, 2, 5, 15}
	if reduced {
		versions = []string{"1.0.2", "1.0.3", "9.9.9"}
		revisions = []string{"A", "RP002-1.0.3"}
		drs = []int{2, 5}
	}
	for _, v := range versions {
		for _, rev := range revisions {
			for _, dr := range drs {
				v, rev, dr := v, rev, dr
				add(fmt.Sprintf("MaxPayloadSize(%s,%s,DR%d)", v, rev, dr), func(b band.Band) interface{} {
					m, err := b.GetMaxPayloadSizeForDataRateIndex(v, rev, dr)
					return []interface{}{m, errS(err)}
				})
			}
		}
	}
	for _, i := range []int{0, n - 1, n, -1} {
		i := i
		add(fmt.Sprintf("UplinkChannel(%d)", i), func(b band.Band) interface{} {
			c, err := b.GetUplinkChannel(i)
			return []interface{}{c, errS(err)}
		})
		add(fmt.Sprintf("DownlinkChannel(%d)", i), func(b band.Band) interface{} {
			c, err := b.GetDownlinkChannel(i)
			return []interface{}{c, errS(err)}
		})
	}
	for _, f := range freqs[:4] {
		f := f
		for _, def := range []bool{true, false} {
			def := def
			add(fmt.Sprintf("UplinkChannelIndex(%d,%v)", f, def), func(b band.Band) interface{} {
				v, err := b.GetUplinkChannelIndex(f, def)
				return []interface{}{v, errS(err)}
			})
		}
		for _, dr := range []int{0, 6} {
			dr := dr
			add(fmt.Sprintf("UplinkChannelIndexForFrequencyDR(%d,%d)", f, dr), func(b band.Band) interface{} {
				v, err := b.GetUplinkChannelIndexForFrequencyDR(f, dr)
				return []interface{}{v, errS(err)}
			})
		}
	}
	if reduced {
		return ops
	}
	for _, dr := range []int{0, 3, 7, 15} {
		for _, off := range []int{0, 2, 9} {
			dr, off := dr, off
			add(fmt.Sprintf("RX1DataRateIndex(%d,%d)", dr, off), func(b band.Band) interface{} {
				v, err := b.GetRX1DataRateIndex(dr, off)
				return []interface{}{v, errS(err)}
			})
		}
		dr := dr
		add(fmt.Sprintf("DataRate(%d)", dr), func(b band.Band) interface{} {
			v, err := b.GetDataRate(dr)
			return []interface{}{v, errS(err)}
		})
	}
	add("UplinkChannelIndices", func(b band.Band) interface{} { return b.GetUplinkChannelIndices() })
	add("StandardUplinkChannelIndices", func(b band.Band) interface{} { return b.GetStandardUplinkChannelIndices() })
	add("CustomUplinkChannelIndices", func(b band.Band) interface{} { return b.GetCustomUplinkChannelIndices() })
	add("EnabledUplinkChannelIndices", func(b band.Band) interface{} { return b.GetEnabledUplinkChannelIndices() })
	add("DisabledUplinkChannelIndices", func(b band.Band) interface{} { return b.GetDisabledUplinkChannelIndices() })
	add("EnabledUplinkDataRates", func(b band.Band) interface{} { return b.GetEnabledUplinkDataRates() })
	add("Defaults", func(b band.Band) interface{} { return b.GetDefaults() })
	add("DefaultMaxUplinkEIRP", func(b band.Band) interface{} { return b.GetDefaultMaxUplinkEIRP() })
	for _, v := range []string{"1.0.2", "1.0.3", "1.1.0"} {
		v := v
		add("CFList("+v+")", func(b band.Band) interface{} { return b.GetCFList(v) })
		add("ImplementsTXParamSetup("+v+")", func(b band.Band) interface{} { return b.ImplementsTXParamSetup(v) })
	}
	all := make([]int, n)
	for i := range all {
		all[i] = i
	}
	var odd []int
	for i := 1; i < n; i += 2 {
		odd = append(odd, i)
	}
	for _, nd := range []struct {
		name string
		dev  []int
	}{{"none", nil}, {"first3", []int{0, 1, 2}}, {"all", all}, {"odd", odd}} {
		name, dev := nd.name, nd.dev
		add("LinkADRReqPayloads(device="+name+")", func(b band.Band) interface{} {
			pls := b.GetLinkADRReqPayloadsForEnabledUplinkChannelIndices(append([]int(nil), dev...))
			got, err := b.GetEnabledUplinkChannelIndicesForLinkADRReqPayloads(append([]int(nil), dev...), pls)
			return []interface{}{pls, got, errS(err)}
		})
	}
	for _, p := range []int{0, 3, 20, -1} {
		p := p
		add(fmt.Sprintf("TXPowerOffset(%d)", p), func(b band.Band) interface{} {
			v, err := b.GetTXPowerOffset(p)
			return []interface{}{v, errS(err)}
		})
	}
	for _, f := range freqs[:2] {
		f := f
		add(fmt.Sprintf("DownlinkTXPower(%d)", f), func(b band.Band) interface{} { return b.GetDownlinkTXPower(f) })
	}
	add("PingSlotFrequency(a)", func(b band.Band) interface{} {
		v, err := b.GetPingSlotFrequency(lorawan.DevAddr{1, 2, 3, 4}, 128*time.Second)
		return []interface{}{v, errS(err)}
	})
	add("PingSlotFrequency(b)", func(b band.Band) interface{} {
		v, err := b.GetPingSlotFrequency(lorawan.DevAddr{0xFF, 0xEE, 0xDD, 0xCC}, 1280*time.Second)
		return []interface{}{v, errS(err)}
	})
	return ops
}

// bandGetterHistory: per band configuration, every ordered pair of read-only
// calls on one object, and every sequence of <= 3 of the calls that can be refused.
func bandGetterHistory(r *engine.Run) {
	r.Rule += historyRule + " Band getters: for every band configuration one band object per sequence; every ordered pair of ~150 read-only calls (RX1 frequency / channel / data-rate, maximum payload size over version x revision x DR incl. unknown ones, channel getters and index lookups incl. refused arguments, index lists, CFList, LinkADRReq planning and its inverse, TX power, ping-slot frequency), and every sequence of <= 3 of the ~45 calls that can be refused."
	cfgs := allBandCfgs(false)
	for _, cfg := range cfgs {
		if !r.Thorough() && (cfg.rep || cfg.dt == lorawan.DwellTime400ms) && cfg.name != band.AS923 && cfg.name != band.AU915 {
			continue // quick: the repeater / dwell-time variants only where they select different tables
		}
		historyPart(r, "history/band-getters/"+cfg.String(), bandGetterOps(cfg, false), 2)
		historyPart(r, "history/band-getters-refusable/"+cfg.String(), bandGetterOps(cfg, true), 3)
	}
}

// bandInstanceHistory: configuration calls (and a mutation of the object just obtained).
func bandInstanceHistory(r *engine.Run) {
	d := 2
	if r.Thorough() {
		d = 3
	}
	r.Rule += historyRule + fmt.Sprintf(" Band instances: GetConfig of every band name, alone and followed by AddChannel (two frequencies) or DisableUplinkChannelIndex on the object just obtained, plus repeater/dwell variants and an unknown name; all sequences of <= %d calls; every object stays alive and is re-observed (channel tables through the hook, getters) after the later calls.", d)
	historyPart(r, "history/band-instances", bandInstanceOps(), d)
}

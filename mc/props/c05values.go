package props

import (
	"fmt"

	"github.com/brocaar/lorawan"

	"verifmc/engine"
	"verifmc/spec"
)

// c05CommandValues: "the receiver obtains exactly the original MAC commands" speaks about every
// command value a sender can put into a frame, not only about the canonical ones of the exchange
// histories. Every MAC command with a payload, every field over its complete in-width domain (24-bit
// frequencies: the notable codes and every single-bit code) at three base tuples, followed by a
// payload-less command, goes through the complete exchange in its three places: plain FOpts (1.0),
// encrypted FOpts (1.1) and the encrypted port-0 payload. A value the library refuses to encode is
// counted (C07 judges refusals); everything it sends must arrive as sent.
func c05CommandValues(r *engine.Run) {
	r.Rule += " Command values: every MAC command with a payload, each field over its complete in-width domain (frequencies: notable and single-bit codes) at 3 base tuples, followed by a payload-less command, through encrypt, MIC, the wire, validation and decryption in 3 places (FOpts 1.0, encrypted FOpts 1.1, encrypted port 0): the receiver's command list equals the sender's."
	kF, kS, kE := mustHex("000102030405060708090a0b0c0d0e0f"), mustHex("101112131415161718191a1b1c1d1e1f"), mustHex("202122232425262728292a2b2c2d2e2f")
	for ci := range spec.Commands {
		cmd := &spec.Commands[ci]
		type fv struct {
			name string
			v    int64
		}
		var cases []fv
		for _, f := range cmd.Fields {
			switch {
			case f.Width <= 8:
				lo, hi := int64(0), int64(1)<<f.Width
				if f.Signed {
					lo, hi = -(int64(1) << (f.Width - 1)), int64(1)<<(f.Width-1)
				}
				for v := lo; v < hi; v++ {
					cases = append(cases, fv{f.Name, v * f.Scale})
				}
			case f.Width == 16:
				for _, v := range []int64{0, 1, 0x8000, 0xFFFF, 0x00FF, 0x5555, 0xFF00} {
					cases = append(cases, fv{f.Name, v})
				}
			case f.Width == 24:
				for _, v := range []int64{0, 1, 4331750, 8681000, 9233000, 11999999, 12000000, 12000001, 15000000, 0xFFFFFE, 0xFFFFFF} {
					cases = append(cases, fv{f.Name, v * f.Scale})
				}
				for b := uint(0); b < 24; b++ {
					cases = append(cases, fv{f.Name, (int64(1) << b) * f.Scale})
				}
			case f.Width == 32:
				for _, v := range []int64{0, 1, 0xFFFF, 0x10000, 1300000000, 0x7FFFFFFF, 0x80000000, 0xFFFFFFFF} {
					cases = append(cases, fv{f.Name, v})
				}
			}
		}
		base := func(k int) map[string]int64 {
			m := map[string]int64{}
			for _, f := range cmd.Fields {
				max := int64(1)<<f.Width - 1
				if f.Signed {
					max = int64(1)<<(f.Width-1) - 1
				}
				if f.MustAccept != nil {
					for max > 0 && !f.MustAccept(max) {
						max--
					}
				}
				switch k {
				case 0:
					m[f.Name] = 0
				case 1:
					m[f.Name] = max * f.Scale
				default:
					m[f.Name] = max / 2 * f.Scale
					if f.MustAccept != nil && !f.MustAccept(max/2) {
						m[f.Name] = 0
					}
				}
			}
			return m
		}
		dir := map[bool]string{true: "up", false: "down"}[cmd.Uplink]
		places := []string{"FOpts (1.0, plain)", "FOpts (1.1, encrypted)", "port 0 (encrypted)"}
		r.PartDims(fmt.Sprintf("command-values/%s-%s", cmd.Name, dir), []string{fmt.Sprintf("field value:%d", len(cases)), "base tuple:3", "place:3"}, uint64(len(cases))*9, func(c *engine.Case) {
			c.Eval()
			fc := cases[c.Index/9]
			place := int(c.Index % 3)
			vals := base(int(c.Index / 3 % 3))
			vals[fc.name] = fc.v
			mk := func() ([]lorawan.Payload, bool) {
				v, ok := libValue(cmd, vals)
				if !ok {
					return nil, false
				}
				follower := lorawan.DevStatusReq
				if cmd.Uplink {
					follower = lorawan.LinkCheckReq
				}
				return []lorawan.Payload{&lorawan.MACCommand{CID: lorawan.CID(cmd.CID), Payload: v}, &lorawan.MACCommand{CID: follower}}, true
			}
			sent, ok := mk()
			if !ok {
				c.Outcome("command-values/not-representable-in-go-type")
				return
			}
			if _, err := sent[0].(*lorawan.MACCommand).Payload.MarshalBinary(); err != nil {
				c.Outcome("command-values/refused-by-the-encoder")
				return
			}
			want, _ := mk()
			what := fmt.Sprintf("%s {%s} + payload-less follower in %s", cmd.Name, fmtVals(vals), places[place])
			v11 := place == 1
			mv := lorawan.LoRaWAN1_0
			sKey := kF
			if v11 {
				mv, sKey = lorawan.LoRaWAN1_1, kS
			}
			fcnt := uint32(0x00020005)
			mp := &lorawan.MACPayload{FHDR: lorawan.FHDR{DevAddr: lorawan.DevAddr{1, 2, 3, 4}, FCnt: fcnt}}
			p := lorawan.PHYPayload{MHDR: lorawan.MHDR{MType: lorawan.UnconfirmedDataDown, Major: lorawan.LoRaWANR1}, MACPayload: mp}
			if cmd.Uplink {
				p.MHDR.MType = lorawan.UnconfirmedDataUp
			}
			if place == 2 {
				port := uint8(0)
				mp.FPort, mp.FRMPayload = &port, sent
			} else {
				mp.FHDR.FOpts = sent
			}
			setMIC := func(q *lorawan.PHYPayload) error {
				if cmd.Uplink {
					return q.SetUplinkDataMIC(mv, 0, 2, 1, keyOf(kF), keyOf(sKey))
				}
				return q.SetDownlinkDataMIC(mv, 0, keyOf(sKey))
			}
			fail := func(step string, err error) {
				c.Fail("command-values/"+cmd.Name+"/"+step, fmt.Sprintf("%s: %s: %v", what, step, err), nil)
			}
			if place == 2 {
				if err := p.EncryptFRMPayload(keyOf(kE)); err != nil {
					fail("encrypt-payload", err)
					return
				}
			}
			if v11 {
				if err := p.EncryptFOpts(keyOf(kE)); err != nil {
					fail("encrypt-fopts", err)
					return
				}
			}
			if err := setMIC(&p); err != nil {
				fail("set-mic", err)
				return
			}
			wire, err := p.MarshalBinary()
			if err != nil {
				fail("encode", err)
				return
			}
			c.NonTrivial()
			var q lorawan.PHYPayload
			if err := q.UnmarshalBinary(wire); err != nil {
				fail("decode", err)
				return
			}
			observe(&q) // a receiver logs the frame it decoded
			qm, ok := q.MACPayload.(*lorawan.MACPayload)
			if !ok {
				fail("decode", fmt.Errorf("MACPayload is %T", q.MACPayload))
				return
			}
			qm.FHDR.FCnt = fcnt
			var valid bool
			if cmd.Uplink {
				valid, err = q.ValidateUplinkDataMIC(mv, 0, 2, 1, keyOf(kF), keyOf(sKey))
			} else {
				valid, err = q.ValidateDownlinkDataMIC(mv, 0, keyOf(sKey))
			}
			if err != nil || !valid {
				c.Fail("command-values/"+cmd.Name+"/validate", fmt.Sprintf("%s: the receiver's Validate gives %v (err %v) on the frame as sent", what, valid, err), nil)
				return
			}
			if place == 0 {
				if err := q.DecodeFOptsToMACCommands(); err != nil {
					fail("decode-fopts", err)
					return
				}
			}
			got := qm.FHDR.FOpts
			if v11 {
				if err := q.DecryptFOpts(keyOf(kE)); err != nil {
					fail("decrypt-fopts", err)
					return
				}
				got = qm.FHDR.FOpts
			}
			if place == 2 {
				if err := q.DecryptFRMPayload(keyOf(kE)); err != nil {
					fail("decrypt-payload", err)
					return
				}
				got = qm.FRMPayload
			}
			if g, w := deepPrint(got), deepPrint(want); g != w {
				c.Fail("command-values/"+cmd.Name+"/commands-differ", fmt.Sprintf("%s: the receiver obtains %s, sent %s", what, g, w), nil)
				return
			}
			c.Outcome("command-values/received-as-sent")
		})
	}
}

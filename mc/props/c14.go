package props

import (
	"fmt"
	"sort"
	"strings"

	"github.com/brocaar/lorawan"
	"github.com/brocaar/lorawan/band"

	"verifmc/engine"
	"verifmc/spec"
)

func init() { register("C14", "model_checking", runC14) }

func planKind(s band.VerifBandSnapshot) string {
	switch {
	case s.SupportsExtraChannels && len(s.UplinkChannels) > 16:
		return "dynamic-extended"
	case s.SupportsExtraChannels:
		return "dynamic"
	case len(s.UplinkChannels) == 72:
		return "fixed72"
	case len(s.UplinkChannels) == 96:
		return "fixed96"
	}
	panic("unknown plan kind")
}

func maskOf(m lorawan.ChMask) uint16 {
	var v uint16
	for i := 0; i < 16; i++ {
		if m[i] {
			v |= 1 << uint(i)
		}
	}
	return v
}

// c14Pair decides the property for one (network state, device set) pair.
func c14Pair(c *engine.Case, name band.Name, b band.Band, s band.VerifBandSnapshot, history string, device []int) {
	c.Eval()
	reg := regionOf(name).Name
	plan := planKind(s)
	n := len(s.UplinkChannels)
	inDevice := map[int]bool{}
	for _, d := range device {
		inDevice[d] = true
	}
	// the device has a definition for the standard channels and for every channel it has enabled
	// (custom channels it was given earlier, also ones the network has dropped since)
	known := func(i int) bool { return inDevice[i] || i < n && !s.UplinkChannels[i].Custom }
	// target: the network's enabled channels restricted to those the device can know
	var target []int
	for i, ch := range s.UplinkChannels {
		if ch.Enabled && known(i) {
			target = append(target, i)
		}
	}
	desc := func() string {
		var en []int
		for i, ch := range s.UplinkChannels {
			if ch.Enabled {
				en = append(en, i)
			}
		}
		return fmt.Sprintf("%s %s: network enabled %v, device %v", name, history, en, device)
	}
	var pls []lorawan.LinkADRReqPayload
	// the device list is the caller's: it is handed over as a window into a larger buffer (spare
	// capacity for every channel of the plan) and is the same list afterwards
	arena := make([]int, len(device)+n+16)
	for i := range arena {
		arena[i] = -7
	}
	copy(arena, device)
	handed := arena[:len(device)]
	if pn, site, v := engine.Try(func() { pls = b.GetLinkADRReqPayloadsForEnabledUplinkChannelIndices(handed) }); pn {
		c.Fail(fmt.Sprintf("planner-panics/%s/%s", plan, site), fmt.Sprintf("%s: planner panics: %v", desc(), v), nil)
		return
	}
	for i, v := range arena {
		if i < len(device) && v != device[i] || i >= len(device) && v != -7 {
			c.Fail(fmt.Sprintf("planner-writes-device-list/%s", plan), fmt.Sprintf("%s: the device list handed to the planner (a slice with spare capacity) reads %v afterwards (position %d of its buffer changed)", desc(), arena[:len(device)], i), nil)
			break
		}
	}
	c.NonTrivial()
	var cmds []spec.LinkADR
	for _, pl := range pls {
		if enc, err := pl.MarshalBinary(); err != nil {
			c.Fail(fmt.Sprintf("payload-not-encodable/%s", reg), fmt.Sprintf("%s: payload %+v: %v", desc(), pl, err), nil)
		} else {
			// the device applies what arrives: the payload as it comes out of the encoding
			var rx lorawan.LinkADRReqPayload
			if err := rx.UnmarshalBinary(enc); err != nil || rx != pl {
				c.Fail(fmt.Sprintf("payload-changed-by-encoding/%s", reg), fmt.Sprintf("%s: payload %+v encodes to %x which decodes to %+v (err %v)", desc(), pl, enc, rx, err), nil)
			}
		}
		cmds = append(cmds, spec.LinkADR{ChMaskCntl: int(pl.Redundancy.ChMaskCntl), Mask: maskOf(pl.ChMask)})
	}
	if len(pls) > (n+15)/16+1 {
		c.Fail(fmt.Sprintf("too-many-payloads/%s", plan), fmt.Sprintf("%s: %d payloads for %d channels", desc(), len(pls), n), nil)
	}
	sorted := append([]int(nil), device...)
	sort.Ints(sorted)
	if intsEq(sorted, target) && len(pls) != 0 {
		c.Fail(fmt.Sprintf("payloads-although-device-matches/%s", plan), fmt.Sprintf("%s: %d payloads although the device already matches", desc(), len(pls)), nil)
	}
	got, errText := spec.ApplyLinkADR(plan, device, known, cmds)
	if errText != "" {
		c.Fail(fmt.Sprintf("device-rejects-plan/%s", plan), fmt.Sprintf("%s: %s (payloads %+v)", desc(), errText, cmds), nil)
		return
	}
	if !intsEq(got, target) {
		c.Fail(fmt.Sprintf("plan-does-not-converge/%s", plan), fmt.Sprintf("%s: applying %+v gives %v, expected %v", desc(), cmds, got, target), nil)
	}
	// the library's own apply function agrees with the device model
	var lib []int
	var err error
	if pn, site, v := engine.Try(func() { lib, err = b.GetEnabledUplinkChannelIndicesForLinkADRReqPayloads(device, pls) }); pn {
		c.Fail(fmt.Sprintf("apply-panics/%s/%s", plan, site), fmt.Sprintf("%s: apply panics: %v", desc(), v), nil)
		return
	}
	// the library keeps device channels beyond the plan out of its result, as the model does
	if err != nil || !intsEq(lib, got) {
		c.Fail(fmt.Sprintf("library-apply-differs/%s", plan), fmt.Sprintf("%s: library apply gives %v (err %v), device model %v", desc(), lib, err, got), nil)
	}
	if len(pls) == 0 {
		c.Outcome("plan/no-payload")
	} else {
		c.Outcome(fmt.Sprintf("plan/payloads=%d", len(pls)))
		for _, cm := range cmds {
			c.Outcome(fmt.Sprintf("plan/chmaskcntl=%d", cm.ChMaskCntl))
		}
	}
	if c.WantSample() && len(pls) > 1 {
		c.Sample(func() interface{} {
			return map[string]interface{}{"part": c.Part, "case": desc(), "payloads": fmt.Sprintf("%+v", cmds), "result": got}
		})
	}
}

// c14PairOwnApply: plans of more than 96 channels. No revision of the Regional Parameters says what
// ChMaskCntl 6 and 7 mean as *block numbers* of a dynamic plan (the device model of mc/spec ends at 96
// channels), so the one device the statement can be read against there is the library's own apply
// function: the generated payloads, applied by it, give the network's enabled channels the device can
// know; they are encodable and at most one per block plus one.
func c14PairOwnApply(c *engine.Case, name band.Name, b band.Band, s band.VerifBandSnapshot, history string, device []int) {
	c.Eval()
	n := len(s.UplinkChannels)
	inDevice := map[int]bool{}
	for _, d := range device {
		inDevice[d] = true
	}
	var target []int
	for i, ch := range s.UplinkChannels {
		if ch.Enabled && (inDevice[i] || !ch.Custom) {
			target = append(target, i)
		}
	}
	desc := fmt.Sprintf("%s %s, device of %d channels", name, history, len(device))
	var pls []lorawan.LinkADRReqPayload
	if pn, site, v := engine.Try(func() { pls = b.GetLinkADRReqPayloadsForEnabledUplinkChannelIndices(device) }); pn {
		c.Fail("planner-panics/beyond-96/"+site, fmt.Sprintf("%s: planner panics: %v", desc, v), nil)
		return
	}
	c.NonTrivial()
	for _, pl := range pls {
		if _, err := pl.MarshalBinary(); err != nil {
			c.Fail("payload-not-encodable/beyond-96", fmt.Sprintf("%s: payload %+v: %v", desc, pl, err), nil)
		}
	}
	if len(pls) > (n+15)/16+1 {
		c.Fail("too-many-payloads/beyond-96", fmt.Sprintf("%s: %d payloads for %d channels", desc, len(pls), n), nil)
	}
	sorted := append([]int(nil), device...)
	sort.Ints(sorted)
	if intsEq(sorted, target) && len(pls) != 0 {
		c.Fail("payloads-although-device-matches/beyond-96", fmt.Sprintf("%s: %d payloads although the device already matches", desc, len(pls)), nil)
	}
	var lib []int
	var err error
	if pn, site, v := engine.Try(func() { lib, err = b.GetEnabledUplinkChannelIndicesForLinkADRReqPayloads(device, pls) }); pn {
		c.Fail("apply-panics/beyond-96/"+site, fmt.Sprintf("%s: apply panics: %v", desc, v), nil)
		return
	}
	if err != nil || !intsEq(lib, target) {
		c.Fail("plan-does-not-converge/beyond-96(library apply)", fmt.Sprintf("%s: the library's apply function turns the generated payloads %+v into %v (err %v), expected %v", desc, pls, lib, err, target), nil)
	}
	c.Outcome(fmt.Sprintf("plan/beyond-96/payloads=%d", len(pls)))
}

var c14Block16 = []uint16{0xFFFF, 0x0000, 0x00FF, 0xFF00, 0x0001, 0xFFFE, 0x5555}
var c14Block8 = []uint16{0xFF, 0x00, 0x01, 0xFE}

func runC14(r *engine.Run) {
	r.Rule = "E2 + E1. Dynamic-channel bands (11): network states by explicit-state BFS over AddChannel(fresh,CFList range), AddChannel(fresh,6..6), AddChannel(0: placeholder), AddChannel(the frequency of a standard channel, 6..6), AddChannel(fresh, inverted DR range: accepted or refused - a refused call changes nothing) (at most 3 additions quick / 4 thorough) and Toggle(i) for every channel until the state set closes; in every distinct state every device channel subset of {0..n} (n = one index beyond the plan) is planned, applied by the independent device model (mc/spec/region.go ApplyLinkADR) and by the library's apply function. Full 16-channel plan (3/2 standard + custom) x 6 network patterns x all 2^16 device subsets. Fixed plans (US915, AU915: 72; CN470: 96): network set and device set each range over the product of per-block patterns (16-channel blocks: quick 4 / thorough 7 patterns, CN470 with its six blocks 3 / 5; 500 kHz block: 4 patterns), network sets produced by real Disable/Enable calls in ascending and descending order. Obligations: result of applying = network-enabled channels the device can know; every payload encodable; #payloads <= ceil(plan/16)+1; nothing when the device matches; no panic. Non-trivial: a (network, device) pair for which the planner returned and the result was compared."
	bandConstructionStability(r)
	bandGetterHistory(r)
	r.Rule += " E3 (schedules): one band object shared by three threads that plan LinkADRReq payloads for three devices concurrently (CN470 / US915 / EU868 with custom channels), every interleaving of the probes on receiver fields some method writes and of synchronisation operations (preemption-bounded and, with state-key pruning, unbounded); each plan must equal the plan made alone, no data race, no deadlock."
	mergeSchedSummary(r, "C14")
	r.Assume("device sets for the 72/96-channel plans are products of per-block patterns (2^144 is out of reach): the planner treats 16-channel blocks independently except for the count-based strategy choice, which the pattern product drives through every combination of block-level differences")
	r.Assume("device indices are limited to what a conformant device can hold (< 16*ceil(plan/16)) plus, for dynamic plans, one index beyond the network's plan")

	// ---- dynamic bands
	for _, name := range bandNames {
		cfg := bandCfg{name, false, lorawan.DwellTimeNoLimit}
		init := snapOf(newBand(cfg))
		if !init.SupportsExtraChannels {
			continue
		}
		nStd := len(init.UplinkChannels)
		base := init.UplinkChannels[0].Frequency
		maxAdds := 3 // quick: at most 3 additions (three kinds: CFList range, DR6..6, placeholder); thorough: 4
		if r.Thorough() {
			maxAdds = 4
		}
		ops := []engine.XOp{
			{Name: "Add(cflist-range)", Do: func(obj interface{}) string {
				b := obj.(band.Band)
				n := len(b.GetUplinkChannelIndices())
				if n-nStd >= maxAdds {
					return "skip"
				}
				b.AddChannel(base+10000000+uint32(n)*200000, init.CFListMinDR, init.CFListMaxDR)
				return "ok"
			}},
			{Name: "Add(6..6)", Do: func(obj interface{}) string {
				b := obj.(band.Band)
				n := len(b.GetUplinkChannelIndices())
				if n-nStd >= maxAdds {
					return "skip"
				}
				b.AddChannel(base+10000000+uint32(n)*200000, 6, 6)
				return "ok"
			}},
			{Name: "Add(frequency 0: placeholder)", Do: func(obj interface{}) string {
				b := obj.(band.Band)
				n := len(b.GetUplinkChannelIndices())
				if n-nStd >= maxAdds {
					return "skip"
				}
				b.AddChannel(0, init.CFListMinDR, init.CFListMaxDR)
				return "ok"
			}},
		}
		// a custom channel on the frequency of a standard channel (another data-rate range on the same
		// frequency, LoRa and FSK say): two enabled channels then share a frequency
		ops = append(ops, engine.XOp{Name: "Add(frequency of standard channel 1, 6..6)", Do: func(obj interface{}) string {
			b := obj.(band.Band)
			n := len(b.GetUplinkChannelIndices())
			if n-nStd >= maxAdds {
				return "skip"
			}
			b.AddChannel(init.UplinkChannels[1%nStd].Frequency, 6, 6)
			return "ok"
		}})
		// an addition the band may refuse (inverted data-rate range): "any history of adding ..." includes
		// refused calls, which leave the plan as it was
		ops = append(ops, engine.XOp{Name: "Add(inverted range)", Do: func(obj interface{}) string {
			b := obj.(band.Band)
			n := len(b.GetUplinkChannelIndices())
			if n-nStd >= maxAdds {
				return "skip"
			}
			lo, hi := init.CFListMaxDR, init.CFListMinDR
			if lo <= hi {
				lo, hi = 1, 0
			}
			before := deepPrint(snapOf(b))
			if err := b.AddChannel(base+10000000+uint32(n)*200000, lo, hi); err != nil {
				if after := deepPrint(snapOf(b)); after != before {
					return "refused-call-changed-the-plan: " + firstDiff(before, after)
				}
				return "refused"
			}
			return "ok"
		}})
		for i := 0; i < nStd+maxAdds; i++ {
			i := i
			ops = append(ops, engine.XOp{Name: fmt.Sprintf("Toggle(%d)", i), Do: func(obj interface{}) string {
				b := obj.(band.Band)
				s := snapOf(b)
				if i >= len(s.UplinkChannels) {
					return "skip"
				}
				if s.UplinkChannels[i].Enabled {
					b.DisableUplinkChannelIndex(i)
				} else {
					b.EnableUplinkChannelIndex(i)
				}
				return "ok"
			}})
		}
		x := engine.XSpec{
			Name: "dynamic/" + string(name), New: func() interface{} { return newBand(cfg) }, Ops: ops,
			Snap:  func(obj interface{}) string { return chanSnap(snapOf(obj.(band.Band))) },
			Warm:  bandWarm,
			Depth: 16,
		}
		x.Check = func(c *engine.Case, obj interface{}, path []int, last string) {
			if strings.HasPrefix(last, "refused-call-changed-the-plan") {
				c.Fail("history/"+regionOf(name).Name+"/refused-addition-changes-the-plan", fmt.Sprintf("%v after %v: AddChannel returned an error and %s", name, x.PathNames(path), last), nil)
			}
		}
		x.CheckState = func(c *engine.Case, obj interface{}, path []int) {
			b := obj.(band.Band)
			s := snapOf(b)
			n := len(s.UplinkChannels)
			hist := fmt.Sprintf("after %v", x.PathNames(path))
			for sub := 0; sub < 1<<uint(n+1); sub++ {
				var dev []int
				// device sets are given in descending order for odd subsets (the API takes any order)
				for i := 0; i <= n; i++ {
					if sub&(1<<uint(i)) != 0 {
						dev = append(dev, i)
					}
				}
				if sub%2 == 1 {
					for l, rr := 0, len(dev)-1; l < rr; l, rr = l+1, rr-1 {
						dev[l], dev[rr] = dev[rr], dev[l]
					}
				}
				c14Pair(c, name, b, s, hist, dev)
			}
		}
		res := r.Explore(x)
		if !r.Replay && !res.Closed {
			r.HarnessError("dynamic/%s: state set did not close within the depth bound", name)
		}
	}

	// ---- full 16-channel plan x all 2^16 device subsets
	netPatterns := []uint16{0xFFFF, 0x0007, 0xFFF8, 0x5555, 0x8001, 0x0000}
	for _, name := range bandNames {
		cfg := bandCfg{name, false, lorawan.DwellTimeNoLimit}
		init := snapOf(newBand(cfg))
		if !init.SupportsExtraChannels {
			continue
		}
		name := name
		r.PartDims("full16/"+string(name), []string{"network pattern:6", "device subset:65536 (blocks of 256)"}, 6*256, func(c *engine.Case) {
			pat := netPatterns[c.Index/256]
			b := newBand(cfg)
			base := init.UplinkChannels[0].Frequency
			for k := len(init.UplinkChannels); k < 16; k++ {
				b.AddChannel(base+10000000+uint32(k)*200000, init.CFListMinDR, init.CFListMaxDR)
			}
			for i := 0; i < 16; i++ {
				if pat&(1<<uint(i)) == 0 {
					b.DisableUplinkChannelIndex(i)
				}
			}
			s := snapOf(b)
			hi := uint16(c.Index%256) << 8
			for lo := 0; lo < 256; lo++ {
				sub := hi | uint16(lo)
				var dev []int
				for i := 0; i < 16; i++ {
					if sub&(1<<uint(i)) != 0 {
						dev = append(dev, i)
					}
				}
				c14Pair(c, name, b, s, fmt.Sprintf("16-channel plan, network pattern %04x", pat), dev)
			}
		})
	}

	// ---- dynamic plans grown past 16 channels (20 channels: a full block and a 4-channel block)
	r.Assume("the Regional Parameters limit the dynamic plans to 16 channels; the library lets them grow and addresses block k with ChMaskCntl k: for such plans the device model applies that generic block rule (mc/spec/region.go, plan 'dynamic-extended')")
	blk0 := []uint16{0xFFFF, 0x0007, 0xFFF8, 0x5555, 0x8001, 0x0000}
	for _, name := range bandNames {
		cfg := bandCfg{name, false, lorawan.DwellTimeNoLimit}
		init := snapOf(newBand(cfg))
		if !init.SupportsExtraChannels {
			continue
		}
		name := name
		r.PartDims("two-blocks/"+string(name), []string{"network: block-0 pattern(6) x block-1 subset(16)", "device: block-0 pattern(6) x block-1 subset(16) (inner)"}, 6*16, func(c *engine.Case) {
			b := newBand(cfg)
			base := init.UplinkChannels[0].Frequency
			for k := len(init.UplinkChannels); k < 20; k++ {
				b.AddChannel(base+10000000+uint32(k)*200000, init.CFListMinDR, init.CFListMaxDR)
			}
			netMask := uint32(blk0[c.Index/16]) | uint32(c.Index%16)<<16
			for i := 0; i < 20; i++ {
				if netMask&(1<<uint(i)) == 0 {
					b.DisableUplinkChannelIndex(i)
				}
			}
			s := snapOf(b)
			for d0 := range blk0 {
				for d1 := 0; d1 < 16; d1++ {
					devMask := uint32(blk0[d0]) | uint32(d1)<<16
					var dev []int
					for i := 0; i < 20; i++ {
						if devMask&(1<<uint(i)) != 0 {
							dev = append(dev, i)
						}
					}
					c14Pair(c, name, b, s, fmt.Sprintf("20-channel plan, network mask %05x", netMask), dev)
				}
			}
		})
	}

	// ---- every configuration of a band (repeater x dwell-time) with custom channels of every kind of
	// data-rate range (the CFList range, the highest data-rate only, 0..0, 0..1, 1..1): three custom
	// channels, every enable/disable pattern of them, every device subset
	for _, name := range bandNames {
		init := snapOf(newBand(bandCfg{name, false, lorawan.DwellTimeNoLimit}))
		if !init.SupportsExtraChannels {
			continue
		}
		name := name
		nStd := len(init.UplinkChannels)
		r.PartDims("configurations/"+string(name), []string{"repeater:2", "dwell-time:2", "custom channel DR range{cflist, 6..6, 0..0, 0..1, 1..1}", "enabled custom channels: 2^3", fmt.Sprintf("device subset: 2^%d (inner)", nStd+4)}, 2*2*5*8, func(c *engine.Case) {
			i := c.Index
			cfg := bandCfg{name, i%2 == 1, []lorawan.DwellTime{lorawan.DwellTimeNoLimit, lorawan.DwellTime400ms}[(i/2)%2]}
			rng := [][2]int{{init.CFListMinDR, init.CFListMaxDR}, {6, 6}, {0, 0}, {0, 1}, {1, 1}}[(i/4)%5]
			pat := int(i / 20)
			b := newBand(cfg)
			base := init.UplinkChannels[0].Frequency
			for k := 0; k < 3; k++ {
				b.AddChannel(base+10000000+uint32(k)*200000, rng[0], rng[1])
			}
			for k := 0; k < 3; k++ {
				if pat&(1<<uint(k)) == 0 {
					b.DisableUplinkChannelIndex(nStd + k)
				}
			}
			s := snapOf(b)
			n := len(s.UplinkChannels)
			for sub := 0; sub < 1<<uint(n+1); sub++ {
				var dev []int
				for k := 0; k <= n; k++ {
					if sub&(1<<uint(k)) != 0 {
						dev = append(dev, k)
					}
				}
				c14Pair(c, name, b, s, fmt.Sprintf("%v, custom channels DR%d..%d, enabled pattern %03b", cfg, rng[0], rng[1], pat), dev)
			}
		})
	}

	// ---- dynamic plans grown far past 16 channels (up to the 8 blocks a ChMaskCntl of 0..7 can address):
	// histories of up to 125 AddChannel calls; the generic block rule must hold in every block
	sizes := []int{17, 32, 33, 49, 64, 65, 81, 96, 97, 112, 113, 128}
	for _, name := range bandNames {
		cfg := bandCfg{name, false, lorawan.DwellTimeNoLimit}
		init := snapOf(newBand(cfg))
		if !init.SupportsExtraChannels {
			continue
		}
		name := name
		r.PartDims("many-blocks/"+string(name), []string{fmt.Sprintf("plan size:%d (17..128 channels)", len(sizes)), "network: 6 patterns of disabled channels", "device: 6 patterns (inner)"}, uint64(len(sizes))*6, func(c *engine.Case) {
			n := sizes[c.Index/6]
			b := newBand(cfg)
			base := init.UplinkChannels[0].Frequency
			for k := len(init.UplinkChannels); k < n; k++ {
				b.AddChannel(base+10000000+uint32(k)*200000, init.CFListMinDR, init.CFListMaxDR)
			}
			pattern := func(which int) []bool {
				on := make([]bool, n)
				for i := range on {
					switch which {
					case 0:
						on[i] = true
					case 1:
						on[i] = i != n-1
					case 2:
						on[i] = i%16 != 0
					case 3:
						on[i] = i/16 != (n-1)/16
					case 4:
						on[i] = i < 16
					case 5:
						on[i] = i%2 == 0
					}
				}
				return on
			}
			for i, on := range pattern(int(c.Index % 6)) {
				if !on {
					b.DisableUplinkChannelIndex(i)
				}
			}
			s := snapOf(b)
			if len(s.UplinkChannels) != n {
				c.Fail("many-blocks/plan-size", fmt.Sprintf("%s: %d channels after growing the plan to %d", name, len(s.UplinkChannels), n), nil)
				return
			}
			for d := 0; d < 6; d++ {
				var dev []int
				for i, on := range pattern(d) {
					if on {
						dev = append(dev, i)
					}
				}
				if n <= 96 {
					c14Pair(c, name, b, s, fmt.Sprintf("%d-channel plan, network pattern %d", n, c.Index%6), dev)
				} else {
					c14PairOwnApply(c, name, b, s, fmt.Sprintf("%d-channel plan, network pattern %d", n, c.Index%6), dev)
				}
			}
			c.Outcome(fmt.Sprintf("many-blocks/blocks=%d", (n+15)/16))
		})
	}

	// ---- fixed plans
	p16 := c14Block16[:4]
	if r.Thorough() {
		p16 = c14Block16
	}
	for _, name := range []band.Name{band.US915, band.AU915, band.CN470} {
		name := name
		cfg := bandCfg{name, false, lorawan.DwellTimeNoLimit}
		n := len(snapOf(newBand(cfg)).UplinkChannels)
		blocks := n / 16
		has8 := n%16 != 0
		nsets := 1
		for i := 0; i < blocks; i++ {
			nsets *= len(p16)
		}
		if has8 {
			nsets *= len(c14Block8)
		}
		cnPatterns := 3 // CN470 has 6 blocks: 3 patterns per block in the quick tier, 5 in the thorough tier (7^12 pairs are out of reach)
		if r.Thorough() {
			cnPatterns = 5
		}
		if name == band.CN470 {
			nsets = 1
			for i := 0; i < blocks; i++ {
				nsets *= cnPatterns
			}
		}
		setOf := func(idx int) []int {
			var out []int
			np := len(p16)
			if name == band.CN470 {
				np = cnPatterns
			}
			for blk := 0; blk < blocks; blk++ {
				m := p16[idx%np]
				idx /= np
				for i := 0; i < 16; i++ {
					if m&(1<<uint(i)) != 0 {
						out = append(out, blk*16+i)
					}
				}
			}
			if has8 {
				m := c14Block8[idx%len(c14Block8)]
				for i := 0; i < 8; i++ {
					if m&(1<<uint(i)) != 0 {
						out = append(out, blocks*16+i)
					}
				}
			}
			return out
		}
		r.PartDims("fixed/"+string(name), []string{fmt.Sprintf("network set:%d", nsets), fmt.Sprintf("device set:%d (inner)", nsets)}, uint64(nsets), func(c *engine.Case) {
			b := newBand(cfg)
			net := setOf(int(c.Index))
			want := map[int]bool{}
			for _, i := range net {
				want[i] = true
			}
			// real Disable/Enable calls, ascending for even cases and descending for odd ones
			order := make([]int, n)
			for i := range order {
				order[i] = i
				if c.Index%2 == 1 {
					order[i] = n - 1 - i
				}
			}
			for _, i := range order {
				if want[i] {
					b.EnableUplinkChannelIndex(i)
				} else {
					b.DisableUplinkChannelIndex(i)
				}
			}
			s := snapOf(b)
			for d := 0; d < nsets; d++ {
				c14Pair(c, name, b, s, fmt.Sprintf("fixed plan, network pattern #%d", c.Index), setOf(d))
			}
		})
	}
	// US915/AU915: the library's apply function against the device model for ChMaskCntl 5, 6, 7 and plain blocks
	for _, name := range []band.Name{band.US915, band.AU915} {
		name := name
		cfg := bandCfg{name, false, lorawan.DwellTimeNoLimit}
		r.PartDims("apply/"+string(name), []string{"ChMaskCntl:0..7", "mask:8 values", "second command ChMaskCntl:0..7", "device pattern:4"}, 8*8*8*4, func(c *engine.Case) {
			masks := []uint16{0x0000, 0x00FF, 0x0001, 0x0080, 0x0055, 0xFFFF, 0xFF00, 0x8000}
			i := c.Index
			c1, m1 := int(i%8), masks[(i/8)%8]
			c2 := int((i / 64) % 8)
			dp := int(i / 512)
			b := newBand(cfg)
			s := snapOf(b)
			var dev []int
			for k := 0; k < 72; k++ {
				if dp == 0 || dp == 1 && k%2 == 0 || dp == 2 && k >= 64 {
					dev = append(dev, k)
				}
			}
			cmds := []spec.LinkADR{{ChMaskCntl: c1, Mask: m1}, {ChMaskCntl: c2, Mask: 0x0003}}
			var pls []lorawan.LinkADRReqPayload
			for _, cm := range cmds {
				pl := lorawan.LinkADRReqPayload{Redundancy: lorawan.Redundancy{ChMaskCntl: uint8(cm.ChMaskCntl)}}
				for k := 0; k < 16; k++ {
					pl.ChMask[k] = cm.Mask&(1<<uint(k)) != 0
				}
				pls = append(pls, pl)
			}
			want, errText := spec.ApplyLinkADR("fixed72", dev, func(i int) bool { return i < 72 }, cmds)
			var got []int
			var err error
			if pn, site, v := engine.Try(func() { got, err = b.GetEnabledUplinkChannelIndicesForLinkADRReqPayloads(dev, pls) }); pn {
				c.Fail("apply-panics/fixed72/"+site, fmt.Sprintf("%s: apply(%v, %+v) panics: %v", name, dev, cmds, v), nil)
				return
			}
			_ = s
			c.NonTrivial()
			if errText != "" {
				// the device would reject the command: the library may return an error; if it
				// answers, it is not judged (the model defines no result)
				c.Outcome("apply/device-would-reject(not judged)")
				return
			}
			if c1 == 5 || c2 == 5 {
				// ChMaskCntl 5 (bank control) exists from RP 1.0.3 on; the library does not implement it: recorded
				c.Outcome("apply/chmaskcntl5(recorded)")
				return
			}
			if err != nil || !intsEq(got, want) {
				c.Fail(fmt.Sprintf("library-apply-differs/fixed72/cntl%d", c1), fmt.Sprintf("%s: apply(device %v, %+v) = %v (err %v), device model %v", name, dev, cmds, got, err, want), nil)
			}
			c.Outcome(fmt.Sprintf("apply/cntl=%d", c1))
		})
	}

	if !r.Replay {
		r.Guard(r.OutcomeCount("plan/chmaskcntl=7") > 0 && r.OutcomeCount("plan/chmaskcntl=0") > 0 && r.OutcomeCount("plan/chmaskcntl=4") > 0, "both US915/AU915 strategies chosen at least once (ChMaskCntl 7 and plain blocks)")
		total := r.OutcomePrefixCount("plan/payloads=") + r.OutcomeCount("plan/no-payload")
		r.Guard(total > 0 && r.OutcomePrefixCount("plan/payloads=")*10 > total, "more than 10%% of the pairs need at least one payload (%d of %d)", r.OutcomePrefixCount("plan/payloads="), total)
		r.Guard(r.OutcomeCount("plan/no-payload") > 0, "pairs where the device already matches observed")
	}
	r.Sample0(map[string]interface{}{"search": "dynamic/EU868", "note": "states are hook snapshots of real band objects reached by AddChannel/Toggle; in each state every device subset is planned and applied"})
}

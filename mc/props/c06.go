package props

import (
	"bytes"
	"encoding/base64"
	"encoding/hex"
	"fmt"
	"time"

	"github.com/brocaar/lorawan"

	"verifmc/engine"
	"verifmc/spec"
)

func init() { register("C06", "exploration", runC06) }

// c06Payload compares one byte string of one command in both directions with
// the table model.
func c06Payload(c *engine.Case, cmd *spec.Command, b []byte) {
	c.Eval()
	pl, size, err := lorawan.GetMACPayloadAndSize(cmd.Uplink, lorawan.CID(cmd.CID))
	if err != nil || size != cmd.Size {
		c.Fail("registry/"+cmd.Name, fmt.Sprintf("GetMACPayloadAndSize(%v,%02x): size %d err %v, spec size %d", cmd.Uplink, cmd.CID, size, err, cmd.Size), nil)
		return
	}
	if err := pl.UnmarshalBinary(b); err != nil {
		c.Fail("decode-refused/"+cmd.Name, fmt.Sprintf("%s: %x refused: %v", cmd.Name, b, err), nil)
		return
	}
	// the same bytes behind their CID through the MACCommand type: accepted like the payload alone,
	// and to the same value
	var asCmd lorawan.MACCommand
	if err := asCmd.UnmarshalBinary(cmd.Uplink, append([]byte{cmd.CID}, b...)); err != nil {
		c.Fail("decode-refused/"+cmd.Name+"/as-maccommand", fmt.Sprintf("%s: the payload decoder accepts %x, MACCommand.UnmarshalBinary refuses %02x%x: %v", cmd.Name, b, cmd.CID, b, err), nil)
		return
	} else if a, d := deepPrint(asCmd.Payload), deepPrint(lorawan.MACCommandPayload(pl)); a != d {
		c.Fail("decode/"+cmd.Name+"/as-maccommand", fmt.Sprintf("%s bytes %x: MACCommand.UnmarshalBinary gives %s, the payload decoder %s", cmd.Name, b, a, d), nil)
		return
	}
	if cmd.Judged != nil && !cmd.Judged(b) {
		c.Outcome(cmd.Name + "/not-judged(spec revisions disagree)")
		return
	}
	c.NonTrivial()
	want := spec.DecodeFields(cmd.Fields, b)
	got := libFields(cmd, pl)
	if cmd.Name == "DeviceTimeAns" {
		if got["Remainder"] != 0 {
			c.Fail("decode/DeviceTimeAns/resolution", fmt.Sprintf("%x decodes to a duration that is not a multiple of 1/256 s", b), nil)
		}
		delete(got, "Remainder")
	}
	for _, f := range cmd.Fields {
		if got[f.Name] != want[f.Name] {
			c.Fail("decode/"+cmd.Name+"/"+f.Name, fmt.Sprintf("%s bytes %x: library %s=%d, specification %d (all: library {%s} spec {%s})", cmd.Name, b, f.Name, got[f.Name], want[f.Name], fmtVals(got), fmtVals(want)), nil)
			return
		}
	}
	// the same bytes decoded into a value that last decoded their bit-wise complement: what a decoder
	// yields is a function of the bytes
	if used, _, err := lorawan.GetMACPayloadAndSize(cmd.Uplink, lorawan.CID(cmd.CID)); err == nil {
		inv := make([]byte, len(b))
		for i := range b {
			inv[i] = ^b[i]
		}
		used.UnmarshalBinary(inv)
		if err := used.UnmarshalBinary(b); err != nil || deepPrint(used) != deepPrint(pl) {
			c.Fail("decode/"+cmd.Name+"/into-used-value", fmt.Sprintf("%s bytes %x decoded into a value that decoded %x before: %s (err %v); into a new value: %s", cmd.Name, b, inv, deepPrint(used), err, deepPrint(pl)), nil)
			return
		}
	}
	// value -> bytes for the decoded tuple: canonical bytes (RFU zero)
	canon, ok := spec.EncodeFields(cmd.Fields, cmd.Size, want)
	if !ok {
		c.Fail("harness/spec-encode", "spec could not encode its own decode", nil)
		return
	}
	v, rep := libValue(cmd, want)
	if !rep {
		c.Fail("encode-unrepresentable/"+cmd.Name, fmt.Sprintf("%s {%s} cannot be represented in the library's type", cmd.Name, fmtVals(want)), nil)
		return
	}
	must := true
	for _, f := range cmd.Fields {
		if !f.Must(want[f.Name]) {
			must = false
		}
	}
	enc, err := v.MarshalBinary()
	if err != nil {
		if must {
			c.Fail("encode-refused/"+cmd.Name, fmt.Sprintf("%s {%s} is within the specified ranges but refused: %v", cmd.Name, fmtVals(want), err), nil)
		} else {
			c.Outcome(cmd.Name + "/encode-refused-outside-must-accept")
		}
		return
	}
	if !bytes.Equal(enc, canon) {
		c.Fail("encode/"+cmd.Name, fmt.Sprintf("%s {%s}: library %x, specification %x", cmd.Name, fmtVals(want), enc, canon), nil)
		return
	}
	// framing as a MAC command: CID followed by the payload
	mc := lorawan.MACCommand{CID: lorawan.CID(cmd.CID), Payload: v}
	mb, err := mc.MarshalBinary()
	if err != nil || len(mb) != 1+cmd.Size || mb[0] != cmd.CID || !bytes.Equal(mb[1:], canon) {
		c.Fail("encode-maccommand/"+cmd.Name, fmt.Sprintf("MACCommand{%s}: %x err %v", cmd.Name, mb, err), nil)
	}
	c.Outcome(cmd.Name + "/ok")
	if c.WantSample() {
		c.Sample(func() interface{} {
			return map[string]interface{}{"part": "mac/" + cmd.Name, "bytes": hex.EncodeToString(b), "fields": fmtVals(want), "canonical": hex.EncodeToString(canon)}
		})
	}
}

var c06Fill = []byte{0x00, 0xFF, 0x5A, 0xA5}

func runC06(r *engine.Run) {
	r.Rule = "E1 enumeration of byte strings per structure, decoded by the library and by the independent bit-field table (mc/spec/mac.go), and of the field tuples so obtained re-encoded by both: all 256 header bytes (MHDR, FCtrl, DLSettings, Redundancy), all 65536 ChMask values, every byte string of every MAC payload of <= 2 bytes, all 2^24 BeaconFreqReq strings, per-position sweeps (each byte all 256 x the others over {00,FF,5A,A5}) of 4/5-byte payloads (thorough: all byte pairs x fillers, all 2^24 NewChannelReq frequency codes), all 256 CIDs x 2 directions in the registry, CFList and join payload layouts with position-distinct fillers and per-position sweeps. Non-trivial: a byte string whose decode was compared field by field and whose field tuple was re-encoded and compared; distinct by construction."
	frameHistory(r, 2)
	// headers kept by plain assignment (per-device state) while their variable decodes the next frame
	keptCopyParts(r, "kept-copy", reuseTypesNamed("lorawan.FHDR", "lorawan.MACPayload", "lorawan.MHDR", "lorawan.FCtrl", "lorawan.CFList", "lorawan.PHYPayload"))
	r.Assume("RFU handling is judged only where every revision agrees: DutyCycleReq bytes 16..254 and NewChannelReq frequency codes >= 12000000 (the library's 2.4 GHz extension) are decoded but not judged; DLSettings bit 7 inside RXParamSetupReq is RFU and the library's extra OptNeg field there is not judged")
	if err := spec.CheckTables(); err != nil {
		r.HarnessError("%v", err)
		return
	}

	// ---- header bytes
	r.PartDims("hdr/MHDR", []string{"byte:256"}, 256, func(c *engine.Case) {
		b := byte(c.Index)
		c.NonTrivial()
		var h lorawan.MHDR
		if err := h.UnmarshalBinary([]byte{b}); err != nil {
			c.Fail("decode/MHDR", err.Error(), nil)
			return
		}
		want := spec.DecodeFields(spec.MHDRFields, []byte{b})
		if int64(h.MType) != want["MType"] || int64(h.Major) != want["Major"] {
			c.Fail("decode/MHDR", fmt.Sprintf("%02x: MType=%d Major=%d, spec %s", b, h.MType, h.Major, fmtVals(want)), nil)
		}
		enc, err := h.MarshalBinary()
		canon, _ := spec.EncodeFields(spec.MHDRFields, 1, want)
		if err != nil || !bytes.Equal(enc, canon) {
			c.Fail("encode/MHDR", fmt.Sprintf("%s: %x, spec %x", fmtVals(want), enc, canon), nil)
		}
	})
	// the MHDR as the first byte of a complete received frame (binary and text form): the three RFU
	// bits are ignored by a receiver, so the frame decodes exactly as it does with those bits clear
	r.PartDims("hdr/MHDR-in-frame", []string{"byte:256", "body:3 (per MType: minimal / with content / second rejoin layout)"}, 256*3, func(c *engine.Case) {
		b := byte(c.Index)
		variant := int(c.Index / 256)
		var body []byte
		switch b >> 5 {
		case 0:
			body = fillBytes(18, 0x10)
		case 1:
			body = fillBytes(12+16*(variant%2), 0x20)
		case 2, 3, 4, 5:
			body = []byte{0x04, 0x03, 0x02, 0x01, 0x00, 0x34, 0x12}
			if variant > 0 {
				body = append(body, 0x0A, 0x51, 0x52, 0x53)
			}
		case 6:
			if variant == 1 {
				body = append([]byte{1}, fillBytes(18, 0x30)...)
			} else {
				body = append([]byte{byte(variant)}, fillBytes(13, 0x30)...)
			}
		case 7:
			body = fillBytes(variant*3, 0x40)
		}
		frame := append(append([]byte{b}, body...), 0xA1, 0xA2, 0xA3, 0xA4)
		clear := append([]byte(nil), frame...)
		clear[0] &= 0xE3
		c.Eval()
		var p, q lorawan.PHYPayload
		errP, errQ := p.UnmarshalBinary(frame), q.UnmarshalBinary(clear)
		if errQ != nil {
			// whether this frame kind / Major is accepted at all is not the subject here
			if errP == nil {
				c.Fail("decode/MHDR-in-frame", fmt.Sprintf("frame %x is accepted but the same frame with MHDR RFU bits clear (%x) is refused: %v", frame, clear, errQ), nil)
			}
			c.Outcome("mhdr-in-frame/refused-with-clear-rfu-bits")
			return
		}
		c.NonTrivial()
		if errP != nil {
			c.Fail("decode/MHDR-in-frame", fmt.Sprintf("frame %x is refused (%v) although it differs from the accepted frame %x only in RFU bits of the MHDR", frame, errP, clear), nil)
			return
		}
		want := spec.DecodeFields(spec.MHDRFields, []byte{b})
		if int64(p.MHDR.MType) != want["MType"] || int64(p.MHDR.Major) != want["Major"] {
			c.Fail("decode/MHDR-in-frame", fmt.Sprintf("frame %x: MType=%d Major=%d, spec %s", frame, p.MHDR.MType, p.MHDR.Major, fmtVals(want)), nil)
		}
		if a, bb := deepPrint(p), deepPrint(q); a != bb {
			c.Fail("decode/MHDR-in-frame", fmt.Sprintf("frame %x decodes to %s, with RFU bits clear to %s", frame, a, bb), nil)
		}
		var t lorawan.PHYPayload
		if err := t.UnmarshalText([]byte(base64.StdEncoding.EncodeToString(frame))); err != nil || deepPrint(t) != deepPrint(q) {
			c.Fail("decode/MHDR-in-frame/text", fmt.Sprintf("text form of frame %x: err %v", frame, err), nil)
		}
		c.Outcome(fmt.Sprintf("mhdr-in-frame/mtype=%d", b>>5))
	})
	r.PartDims("hdr/FCtrl", []string{"byte:256", "direction:2"}, 512, func(c *engine.Case) {
		b := byte(c.Index)
		uplink := c.Index >= 256
		c.NonTrivial()
		want := spec.DecodeFields(spec.FCtrlFields, []byte{b})
		n := int(want["FOptsLen"])
		mhdr := byte(0x60)
		if uplink {
			mhdr = 0x40
		}
		frame := []byte{mhdr, 0x04, 0x03, 0x02, 0x01, b, 0x34, 0x12}
		for i := 0; i < n; i++ {
			frame = append(frame, byte(0xE0+i))
		}
		frame = append(frame, 0xAA, 0xBB, 0xCC, 0xDD)
		var p lorawan.PHYPayload
		if err := p.UnmarshalBinary(frame); err != nil {
			c.Fail("decode/FCtrl", fmt.Sprintf("frame %x refused: %v", frame, err), nil)
			return
		}
		mp := p.MACPayload.(*lorawan.MACPayload)
		fc := mp.FHDR.FCtrl
		b2i := func(v bool) int64 {
			if v {
				return 1
			}
			return 0
		}
		bit4 := fc.ClassB
		if !uplink {
			bit4 = fc.FPending
		}
		fl := 0
		if len(mp.FHDR.FOpts) == 1 {
			fl = len(mp.FHDR.FOpts[0].(*lorawan.DataPayload).Bytes)
		}
		if b2i(fc.ADR) != want["ADR"] || b2i(fc.ADRACKReq) != want["ADRACKReq"] || b2i(fc.ACK) != want["ACK"] || b2i(bit4) != want["Bit4"] || fl != n {
			c.Fail("decode/FCtrl", fmt.Sprintf("FCtrl %02x: %+v foptslen %d, spec %s", b, fc, fl, fmtVals(want)), nil)
		}
		if mp.FHDR.DevAddr != (lorawan.DevAddr{1, 2, 3, 4}) || mp.FHDR.FCnt != 0x1234 || p.MIC != (lorawan.MIC{0xAA, 0xBB, 0xCC, 0xDD}) {
			c.Fail("decode/FHDR-layout", fmt.Sprintf("frame %x: DevAddr %s FCnt %x MIC %s", frame, mp.FHDR.DevAddr, mp.FHDR.FCnt, p.MIC), nil)
		}
		// encode from a freshly built value
		var q lorawan.PHYPayload
		q.MHDR.MType = lorawan.MType(mhdr >> 5)
		nm := &lorawan.MACPayload{}
		nm.FHDR.DevAddr = lorawan.DevAddr{1, 2, 3, 4}
		nm.FHDR.FCnt = 0x1234
		nm.FHDR.FCtrl = lorawan.FCtrl{ADR: want["ADR"] == 1, ADRACKReq: want["ADRACKReq"] == 1, ACK: want["ACK"] == 1}
		if uplink {
			nm.FHDR.FCtrl.ClassB = want["Bit4"] == 1
		} else {
			nm.FHDR.FCtrl.FPending = want["Bit4"] == 1
		}
		if n > 0 {
			nm.FHDR.FOpts = []lorawan.Payload{&lorawan.DataPayload{Bytes: frame[8 : 8+n]}}
		}
		q.MACPayload = nm
		q.MIC = lorawan.MIC{0xAA, 0xBB, 0xCC, 0xDD}
		enc, err := q.MarshalBinary()
		if err != nil || !bytes.Equal(enc, frame) {
			c.Fail("encode/FCtrl", fmt.Sprintf("built frame encodes to %x (err %v), spec %x", enc, err, frame), nil)
		}
	})
	simpleByte := func(name string, fields []spec.Field, dec func(b byte) (map[string]int64, error), enc func(m map[string]int64) ([]byte, error)) {
		r.PartDims("hdr/"+name, []string{"byte:256"}, 256, func(c *engine.Case) {
			b := byte(c.Index)
			c.NonTrivial()
			got, err := dec(b)
			if err != nil {
				c.Fail("decode/"+name, err.Error(), nil)
				return
			}
			want := spec.DecodeFields(fields, []byte{b})
			if !sameVals(got, want) {
				c.Fail("decode/"+name, fmt.Sprintf("%02x: library {%s}, spec {%s}", b, fmtVals(got), fmtVals(want)), nil)
				return
			}
			canon, _ := spec.EncodeFields(fields, 1, want)
			e, err := enc(want)
			if err != nil || !bytes.Equal(e, canon) {
				c.Fail("encode/"+name, fmt.Sprintf("{%s}: library %x (err %v), spec %x", fmtVals(want), e, err, canon), nil)
			}
		})
	}
	simpleByte("DLSettings", spec.DLSettingsFields,
		func(b byte) (map[string]int64, error) {
			var s lorawan.DLSettings
			err := s.UnmarshalBinary([]byte{b})
			return flatten(s), err
		},
		func(m map[string]int64) ([]byte, error) {
			var s lorawan.DLSettings
			unflatten(&s, m)
			return s.MarshalBinary()
		})
	simpleByte("Redundancy", spec.RedundancyFields,
		func(b byte) (map[string]int64, error) {
			var s lorawan.Redundancy
			err := s.UnmarshalBinary([]byte{b})
			return flatten(s), err
		},
		func(m map[string]int64) ([]byte, error) {
			var s lorawan.Redundancy
			unflatten(&s, m)
			return s.MarshalBinary()
		})
	r.PartDims("ChMask", []string{"value:65536"}, 65536, func(c *engine.Case) {
		c.NonTrivial()
		b := []byte{byte(c.Index), byte(c.Index >> 8)}
		var m lorawan.ChMask
		if err := m.UnmarshalBinary(b); err != nil {
			c.Fail("decode/ChMask", err.Error(), nil)
			return
		}
		for k := 0; k < 16; k++ {
			if m[k] != (c.Index&(1<<uint(k)) != 0) {
				c.Fail("decode/ChMask", fmt.Sprintf("%x: channel %d = %v", b, k, m[k]), nil)
				return
			}
		}
		e, err := m.MarshalBinary()
		if err != nil || !bytes.Equal(e, b) {
			c.Fail("encode/ChMask", fmt.Sprintf("%x re-encodes to %x", b, e), nil)
		}
	})

	registryChangeGaps(r)
	// ---- registry: every CID x direction (from the reset registry: no proprietary CID is registered,
	// so the range 0x80..0xFF has no payload either)
	lorawan.VerifRegistryReset()
	r.PartDims("registry", []string{"cid:256", "direction:2"}, 512, func(c *engine.Case) {
		cid := byte(c.Index)
		uplink := c.Index >= 256
		pl, size, err := lorawan.GetMACPayloadAndSize(uplink, lorawan.CID(cid))
		cmd := spec.Lookup(uplink, cid)
		if cmd == nil {
			if err == nil {
				c.Fail(fmt.Sprintf("registry/unexpected/%02x", cid), fmt.Sprintf("CID %02x uplink=%v has a registered payload %T size %d; the specification defines none", cid, uplink, pl, size), nil)
			}
			c.Outcome("registry/no-payload")
			return
		}
		c.NonTrivial()
		c.Outcome("registry/payload")
		wantType := "*lorawan." + cmd.Name + "Payload"
		if err != nil || size != cmd.Size || fmt.Sprintf("%T", pl) != wantType {
			c.Fail("registry/"+cmd.Name, fmt.Sprintf("CID %02x uplink=%v: %T size %d err %v; spec %s size %d", cid, uplink, pl, size, err, wantType, cmd.Size), nil)
			return
		}
		// wrong lengths are refused
		for _, l := range []int{0, cmd.Size - 1, cmd.Size + 1} {
			if l < 0 {
				continue
			}
			p2, _, _ := lorawan.GetMACPayloadAndSize(uplink, lorawan.CID(cid))
			if err := p2.UnmarshalBinary(make([]byte, l)); err == nil {
				c.Fail("decode-wrong-length-accepted/"+cmd.Name, fmt.Sprintf("%s accepted %d bytes", cmd.Name, l), nil)
			}
		}
	})

	// ---- MAC payloads
	for i := range spec.Commands {
		cmd := &spec.Commands[i]
		dir := "down"
		if cmd.Uplink {
			dir = "up"
		}
		name := fmt.Sprintf("mac/%s-%s", cmd.Name, dir)
		switch {
		case cmd.Size <= 2:
			n := uint64(1) << uint(8*cmd.Size)
			r.PartDims(name, []string{fmt.Sprintf("all byte strings:%d", n)}, n, func(c *engine.Case) {
				b := make([]byte, cmd.Size)
				for k := range b {
					b[k] = byte(c.Index >> uint(8*k))
				}
				c06Payload(c, cmd, b)
			})
		case cmd.Size == 3:
			r.PartDims(name, []string{"all byte strings:2^24 (blocks of 256)"}, 1<<16, func(c *engine.Case) {
				for lo := 0; lo < 256; lo++ {
					c06Payload(c, cmd, []byte{byte(lo), byte(c.Index), byte(c.Index >> 8)})
				}
			})
		default:
			// per-position sweeps: position x byte x fillers for the others
			others := cmd.Size - 1
			nf := 1
			for k := 0; k < others; k++ {
				nf *= 4
			}
			n := uint64(cmd.Size * 256 * nf)
			r.PartDims(name+"/position-sweep", []string{fmt.Sprintf("position:%d", cmd.Size), "byte:256", fmt.Sprintf("fillers:4^%d", others)}, n, func(c *engine.Case) {
				i := c.Index
				pos := int(i % uint64(cmd.Size))
				i /= uint64(cmd.Size)
				val := byte(i % 256)
				i /= 256
				b := make([]byte, cmd.Size)
				for k := range b {
					if k == pos {
						b[k] = val
						continue
					}
					b[k] = c06Fill[i%4]
					i /= 4
				}
				c06Payload(c, cmd, b)
			})
			if r.Thorough() {
				// all byte pairs x fillers {00,FF,5A,A5} for the remaining positions (as one block)
				var pairs [][2]int
				for a := 0; a < cmd.Size; a++ {
					for b := a + 1; b < cmd.Size; b++ {
						pairs = append(pairs, [2]int{a, b})
					}
				}
				n := uint64(len(pairs)) * 256 * 4
				r.PartDims(name+"/byte-pairs", []string{fmt.Sprintf("pair:%d", len(pairs)), "byteA:256", "filler:4", "byteB:256 (inner)"}, n, func(c *engine.Case) {
					i := c.Index
					pr := pairs[i%uint64(len(pairs))]
					i /= uint64(len(pairs))
					va := byte(i % 256)
					fill := c06Fill[i/256]
					b := make([]byte, cmd.Size)
					for vb := 0; vb < 256; vb++ {
						for k := range b {
							b[k] = fill
						}
						b[pr[0]], b[pr[1]] = va, byte(vb)
						c06Payload(c, cmd, b)
					}
				})
			}
		}
	}
	if r.Thorough() {
		nc := spec.Lookup(false, 0x07)
		pairs := [][2]byte{{0, 0x50}, {3, 0x00}, {15, 0xFF}, {16, 0x05}, {255, 0x77}, {128, 0xF0}}
		r.PartDims("mac/NewChannelReq-down/all-frequency-codes", []string{"freq code:2^24 (blocks of 256)", "(ChIndex,DrRange):6"}, 1<<16, func(c *engine.Case) {
			for lo := 0; lo < 256; lo++ {
				for _, p := range pairs {
					c06Payload(c, nc, []byte{p[0], byte(lo), byte(c.Index), byte(c.Index >> 8), p[1]})
				}
			}
		})
		codes := []uint32{0, 1, 8681000, 11999999, 12000000, 12500000, 0x800000, 0xFFFFFF}
		r.PartDims("mac/NewChannelReq-down/all-index-drrange", []string{"ChIndex:256", "DrRange:256", "freq code:8"}, 65536, func(c *engine.Case) {
			for _, f := range codes {
				c06Payload(c, nc, []byte{byte(c.Index), byte(f), byte(f >> 8), byte(f >> 16), byte(c.Index >> 8)})
			}
		})
	}
	dt := spec.Lookup(false, 0x0D)
	secs := []uint32{0, 1, 0x7FFFFFFF, 0x80000000, 0xFFFFFFFF, 1300000000}
	r.PartDims("mac/DeviceTimeAns-down/fractions", []string{"frac:256", "seconds:6"}, 256*6, func(c *engine.Case) {
		s := secs[c.Index/256]
		c06Payload(c, dt, []byte{byte(s), byte(s >> 8), byte(s >> 16), byte(s >> 24), byte(c.Index)})
	})

	// ---- CFList
	r.PartDims("cflist/types", []string{"type byte:256", "content:4"}, 1024, func(c *engine.Case) {
		t := byte(c.Index)
		b := make([]byte, 16)
		switch c.Index / 256 {
		case 1:
			for k := 0; k < 15; k++ {
				b[k] = byte(0x10 + k)
			}
		case 2:
			for k := 0; k < 15; k++ {
				b[k] = 0xFF
			}
		case 3:
			b[0], b[1], b[4], b[5], b[14] = 0x01, 0x80, 0xFF, 0x00, 0x77 // masks with a zero mask in between and an RFU byte
		}
		b[15] = t
		var l lorawan.CFList
		err := l.UnmarshalBinary(b)
		if t > 1 {
			c.Outcome("cflist/rfu-type(not judged)")
			return
		}
		c.NonTrivial()
		if err != nil {
			c.Fail("decode-refused/CFList", fmt.Sprintf("%x refused: %v", b, err), nil)
			return
		}
		if l.CFListType != lorawan.CFListType(t) {
			c.Fail("decode/CFList/type", fmt.Sprintf("%x: type %d", b, l.CFListType), nil)
			return
		}
		if t == 0 {
			cp, ok := l.Payload.(*lorawan.CFListChannelPayload)
			if !ok {
				c.Fail("decode/CFList/payload-kind", fmt.Sprintf("%x: %T", b, l.Payload), nil)
				return
			}
			for k := 0; k < 5; k++ {
				want := (uint32(b[3*k]) | uint32(b[3*k+1])<<8 | uint32(b[3*k+2])<<16) * 100
				if cp.Channels[k] != want {
					c.Fail("decode/CFList/channel", fmt.Sprintf("%x: channel %d = %d, spec %d", b, k, cp.Channels[k], want), nil)
					return
				}
			}
			enc, err := l.MarshalBinary()
			if err != nil || !bytes.Equal(enc, b) {
				c.Fail("encode/CFList/channels", fmt.Sprintf("%x re-encodes to %x (err %v)", b, enc, err), nil)
			}
			return
		}
		mp, ok := l.Payload.(*lorawan.CFListChannelMaskPayload)
		if !ok {
			c.Fail("decode/CFList/payload-kind", fmt.Sprintf("%x: %T", b, l.Payload), nil)
			return
		}
		// spec: 7 masks of LE16 (channel k of mask j = bit k), byte 14 RFU; the
		// library's list drops trailing all-zero masks (documented equivalence)
		last := -1
		for j := 0; j < 7; j++ {
			if b[2*j] != 0 || b[2*j+1] != 0 {
				last = j
			}
		}
		if len(mp.ChannelMasks) != last+1 {
			c.Fail("decode/CFList/mask-count", fmt.Sprintf("%x: %d masks, spec %d up to the last non-zero mask", b, len(mp.ChannelMasks), last+1), nil)
			return
		}
		for j, m := range mp.ChannelMasks {
			v := uint16(b[2*j]) | uint16(b[2*j+1])<<8
			for k := 0; k < 16; k++ {
				if m[k] != (v&(1<<uint(k)) != 0) {
					c.Fail("decode/CFList/mask", fmt.Sprintf("%x: mask %d channel %d = %v", b, j, k, m[k]), nil)
					return
				}
			}
		}
		if len(mp.ChannelMasks) <= 6 {
			enc, err := l.MarshalBinary()
			want := append([]byte(nil), b...)
			want[14] = 0 // RFU written as zero
			if err != nil || !bytes.Equal(enc, want) {
				c.Fail("encode/CFList/masks", fmt.Sprintf("%x re-encodes to %x (err %v), spec %x", b, enc, err, want), nil)
			}
		} else {
			c.Outcome("cflist/7-masks(library API holds 6; encode not judged)")
		}
	})
	// DeviceTimeAns for durations between two 1/256 s steps: the bytes denote (by the
	// specification's reading: seconds little-endian, then the 1/256 s fraction) an instant
	// less than one step away from the value encoded
	r.PartDims("encode/DeviceTimeAns/between-wire-steps", []string{"seconds:6", "fraction step:0..255", "offset inside the step:7"}, 6*256, func(c *engine.Case) {
		secs := []uint64{0, 1, 59, 1234567, 1<<32 - 2, 1<<32 - 1}
		sec, frac := secs[c.Index/256], c.Index%256
		const step = 3906250
		for _, off := range []int64{0, 1, step/2 - 1, step / 2, step/2 + 1, step - 2, step - 1} {
			c.Eval()
			d := time.Duration(sec)*time.Second + time.Duration(int64(frac)*step+off)
			if d < 0 {
				continue
			}
			b, err := lorawan.DeviceTimeAnsPayload{TimeSinceGPSEpoch: d}.MarshalBinary()
			if err != nil || len(b) != 5 {
				c.Outcome("devicetime/between-steps/refused")
				continue
			}
			c.NonTrivial()
			wire := time.Duration(uint64(b[0])|uint64(b[1])<<8|uint64(b[2])<<16|uint64(b[3])<<24)*time.Second + time.Duration(b[4])*step
			diff := wire - d
			if diff < 0 {
				diff = -diff
			}
			if diff >= step {
				c.Fail("encode/DeviceTimeAns/fraction", fmt.Sprintf("%v encodes to %x, which the specification reads as %v (%v away; one step is %v)", d, b, wire, diff, time.Duration(step)), nil)
			}
		}
	})
	// every zero / non-zero pattern of the seven mask slots x two non-zero fillers
	// the 16 bytes decoded into a CFList value that was used before (decoded earlier, or given a payload
	// object by the caller): same field values as into a fresh one
	r.PartDims("cflist/used-receiver", []string{"earlier use{type 0, type 1, RFU type 2, caller-set mask payload, caller-set channel payload}", "decoded type{0,1,2}", "content:3"}, 5*3*3, func(c *engine.Case) {
		mk := func(t byte, content int) []byte {
			b := make([]byte, 16)
			for k := 0; k < 15; k++ {
				switch content {
				case 1:
					b[k] = byte(0x10 + k)
				case 2:
					b[k] = 0xFF
				}
			}
			if t == 1 && content != 0 {
				b[12], b[13], b[14] = 0, 0, 0
			}
			b[15] = t
			return b
		}
		first := int(c.Index % 5)
		second := byte((c.Index / 5) % 3)
		content := int(c.Index / 15)
		var used lorawan.CFList
		switch first {
		case 0, 1, 2:
			used.UnmarshalBinary(mk(byte(first), 1))
		case 3:
			used = lorawan.CFList{CFListType: lorawan.CFListChannelMask, Payload: &lorawan.CFListChannelMaskPayload{ChannelMasks: []lorawan.ChMask{{true}}}}
		case 4:
			used = lorawan.CFList{CFListType: lorawan.CFListChannel, Payload: &lorawan.CFListChannelPayload{Channels: [5]uint32{868100000}}}
		}
		b := mk(second, content)
		var fresh lorawan.CFList
		errFresh := fresh.UnmarshalBinary(append([]byte(nil), b...))
		errUsed := used.UnmarshalBinary(append([]byte(nil), b...))
		c.Eval()
		c.NonTrivial()
		if (errFresh == nil) != (errUsed == nil) {
			c.Fail("decode/CFList/used-receiver", fmt.Sprintf("%x into a used CFList (earlier use %d): err %v; into a fresh one: err %v", b, first, errUsed, errFresh), nil)
		} else if errFresh == nil && deepPrint(used) != deepPrint(fresh) {
			c.Fail("decode/CFList/used-receiver", fmt.Sprintf("%x into a used CFList (earlier use %d) gives %s, into a fresh one %s", b, first, deepPrint(used), deepPrint(fresh)), nil)
		}
	})
	r.PartDims("cflist/mask-patterns", []string{"zero/non-zero pattern of 7 masks:128", "non-zero mask value:3"}, 128*3, func(c *engine.Case) {
		pat := int(c.Index % 128)
		val := []uint16{0xFFFF, 0x0001, 0x8000}[c.Index/128]
		b := make([]byte, 16)
		b[15] = 1
		last := -1
		for j := 0; j < 7; j++ {
			if pat&(1<<uint(j)) != 0 {
				v := val + uint16(j)*0x0101
				if v == 0 {
					v = 1
				}
				b[2*j], b[2*j+1] = byte(v), byte(v>>8)
				last = j
			}
		}
		c.NonTrivial()
		var l lorawan.CFList
		if err := l.UnmarshalBinary(b); err != nil {
			c.Fail("decode-refused/CFList", fmt.Sprintf("%x refused: %v", b, err), nil)
			return
		}
		mp, ok := l.Payload.(*lorawan.CFListChannelMaskPayload)
		if !ok || len(mp.ChannelMasks) != last+1 {
			c.Fail("decode/CFList/mask-count", fmt.Sprintf("%x: %d masks, specification %d (up to the last non-zero mask)", b, len(mp.ChannelMasks), last+1), nil)
			return
		}
		for j, m := range mp.ChannelMasks {
			v := uint16(b[2*j]) | uint16(b[2*j+1])<<8
			if maskOf(m) != v {
				c.Fail("decode/CFList/mask", fmt.Sprintf("%x: mask %d decodes to %04x, specification %04x", b, j, maskOf(m), v), nil)
				return
			}
		}
		if last < 6 {
			enc, err := l.MarshalBinary()
			if err != nil || !bytes.Equal(enc, b) {
				c.Fail("encode/CFList/masks", fmt.Sprintf("%x re-encodes to %x (err %v)", b, enc, err), nil)
			}
		}
	})
	r.PartDims("cflist/channel-sweep", []string{"position:15", "byte:256"}, 15*256, func(c *engine.Case) {
		b := make([]byte, 16)
		for k := 0; k < 15; k++ {
			b[k] = byte(0x21 + 7*k)
		}
		b[c.Index/256] = byte(c.Index)
		c.NonTrivial()
		var l lorawan.CFList
		if err := l.UnmarshalBinary(b); err != nil {
			c.Fail("decode-refused/CFList", err.Error(), nil)
			return
		}
		cp := l.Payload.(*lorawan.CFListChannelPayload)
		for k := 0; k < 5; k++ {
			want := (uint32(b[3*k]) | uint32(b[3*k+1])<<8 | uint32(b[3*k+2])<<16) * 100
			if cp.Channels[k] != want {
				c.Fail("decode/CFList/channel", fmt.Sprintf("%x: channel %d = %d, spec %d", b, k, cp.Channels[k], want), nil)
			}
		}
		enc, err := l.MarshalBinary()
		if err != nil || !bytes.Equal(enc, b) {
			c.Fail("encode/CFList/channels", fmt.Sprintf("%x re-encodes to %x (err %v)", b, enc, err), nil)
		}
	})

	// ---- join payload layouts: position-distinct filler and per-position sweeps
	type layout struct {
		name  string
		mhdr  byte
		n     int
		fixed map[int]byte
		check func(p lorawan.Payload, b []byte) string
	}
	be := func(b []byte) string { // display order = reverse of wire order
		return hex.EncodeToString(revBytes(b))
	}
	layouts := []layout{
		{"JoinRequest", 0x00, 18, nil, func(p lorawan.Payload, b []byte) string {
			j, ok := p.(*lorawan.JoinRequestPayload)
			if !ok {
				return fmt.Sprintf("payload kind %T", p)
			}
			if j.JoinEUI.String() != be(b[0:8]) || j.DevEUI.String() != be(b[8:16]) || uint16(j.DevNonce) != uint16(b[16])|uint16(b[17])<<8 {
				return fmt.Sprintf("%+v", *j)
			}
			return ""
		}},
		{"RejoinRequest0", 0xC0, 14, map[int]byte{0: 0}, func(p lorawan.Payload, b []byte) string {
			j, ok := p.(*lorawan.RejoinRequestType02Payload)
			if !ok {
				return fmt.Sprintf("payload kind %T", p)
			}
			if byte(j.RejoinType) != b[0] || j.NetID.String() != be(b[1:4]) || j.DevEUI.String() != be(b[4:12]) || j.RJCount0 != uint16(b[12])|uint16(b[13])<<8 {
				return fmt.Sprintf("%+v", *j)
			}
			return ""
		}},
		{"RejoinRequest2", 0xC0, 14, map[int]byte{0: 2}, nil},
		{"RejoinRequest1", 0xC0, 19, map[int]byte{0: 1}, func(p lorawan.Payload, b []byte) string {
			j, ok := p.(*lorawan.RejoinRequestType1Payload)
			if !ok {
				return fmt.Sprintf("payload kind %T", p)
			}
			if byte(j.RejoinType) != b[0] || j.JoinEUI.String() != be(b[1:9]) || j.DevEUI.String() != be(b[9:17]) || j.RJCount1 != uint16(b[17])|uint16(b[18])<<8 {
				return fmt.Sprintf("%+v", *j)
			}
			return ""
		}},
	}
	layouts[2].check = layouts[1].check
	for _, lay := range layouts {
		lay := lay
		r.PartDims("join/"+lay.name, []string{fmt.Sprintf("position:%d", lay.n), "byte:256"}, uint64(lay.n*256), func(c *engine.Case) {
			b := make([]byte, lay.n)
			for k := range b {
				b[k] = byte(0x31 + 5*k)
			}
			pos := int(c.Index / 256)
			b[pos] = byte(c.Index)
			for k, v := range lay.fixed {
				if k == pos {
					c.Outcome("join/fixed-position-skipped")
					return
				}
				b[k] = v
			}
			c.NonTrivial()
			frame := append([]byte{lay.mhdr}, b...)
			frame = append(frame, 1, 2, 3, 4)
			var p lorawan.PHYPayload
			if err := p.UnmarshalBinary(frame); err != nil {
				c.Fail("decode-refused/"+lay.name, fmt.Sprintf("%x refused: %v", frame, err), nil)
				return
			}
			if msg := lay.check(p.MACPayload, b); msg != "" {
				c.Fail("decode/"+lay.name, fmt.Sprintf("%x decodes to %s", frame, msg), nil)
				return
			}
			enc, err := p.MarshalBinary()
			if err != nil || !bytes.Equal(enc, frame) {
				c.Fail("encode/"+lay.name, fmt.Sprintf("%x re-encodes to %x (err %v)", frame, enc, err), nil)
			}
		})
	}
	r.PartDims("join/JoinAccept", []string{"position:12", "byte:256", "cflist{absent, channel list, channel masks}:3"}, 12*256*3, func(c *engine.Case) {
		withCF := c.Index >= 12*256
		masks := c.Index >= 2*12*256
		idx := c.Index % (12 * 256)
		b := make([]byte, 12)
		for k := range b {
			b[k] = byte(0x41 + 3*k)
		}
		b[11] = 0x05
		b[idx/256] = byte(idx)
		if withCF {
			b = append(b, 0x18, 0x4F, 0x84, 0xE8, 0x56, 0x84, 0xB8, 0x5E, 0x84, 0x88, 0x66, 0x84, 0x58, 0x6E, 0x84, 0x00)
		}
		if masks {
			b = append(b[:12], 0xFF, 0x00, 0x00, 0x00, 0x01, 0x80, 0x00, 0x00, 0x00, 0x00, 0x00, 0x00, 0x00, 0x00, 0x00, 0x01)
		}
		var j lorawan.JoinAcceptPayload
		if err := j.UnmarshalBinary(false, b); err != nil {
			c.Fail("decode-refused/JoinAccept", fmt.Sprintf("%x refused: %v", b, err), nil)
			return
		}
		c.NonTrivial()
		dl := spec.DecodeFields(spec.DLSettingsFields, b[10:11])
		if uint32(j.JoinNonce) != uint32(b[0])|uint32(b[1])<<8|uint32(b[2])<<16 || j.HomeNetID.String() != be(b[3:6]) || j.DevAddr.String() != be(b[6:10]) ||
			!sameVals(flatten(j.DLSettings), dl) || j.RXDelay != b[11] || (j.CFList != nil) != withCF {
			c.Fail("decode/JoinAccept", fmt.Sprintf("%x decodes to %+v", b, j), nil)
			return
		}
		if masks {
			mp, ok := j.CFList.Payload.(*lorawan.CFListChannelMaskPayload)
			if !ok || j.CFList.CFListType != lorawan.CFListChannelMask || len(mp.ChannelMasks) != 3 || maskOf(mp.ChannelMasks[0]) != 0x00FF || maskOf(mp.ChannelMasks[1]) != 0 || maskOf(mp.ChannelMasks[2]) != 0x8001 {
				c.Fail("decode/JoinAccept/CFList", fmt.Sprintf("%x (DLSettings %02x): CFList type %d payload %+v, specification: type 1, masks 00ff 0000 8001", b, b[10], j.CFList.CFListType, j.CFList.Payload), nil)
				return
			}
		} else if withCF {
			cp, ok := j.CFList.Payload.(*lorawan.CFListChannelPayload)
			if !ok || cp.Channels != [5]uint32{867100000, 867300000, 867500000, 867700000, 867900000} {
				c.Fail("decode/JoinAccept/CFList", fmt.Sprintf("%x: CFList %+v", b, j.CFList.Payload), nil)
			}
		}
		enc, err := j.MarshalBinary()
		if b[11] > 15 {
			// RXDelay upper nibble is RFU: the encoder may refuse, or must write the same byte
			if err == nil && !bytes.Equal(enc, b) {
				c.Fail("encode/JoinAccept", fmt.Sprintf("%x re-encodes to %x", b, enc), nil)
			}
			return
		}
		if err != nil || !bytes.Equal(enc, b) {
			c.Fail("encode/JoinAccept", fmt.Sprintf("%x re-encodes to %x (err %v)", b, enc, err), nil)
		}
	})

	r.Guard(r.OutcomeCount("registry/payload") == 29, "29 registry entries with payload compared (got %d)", r.OutcomeCount("registry/payload"))
	for i := range spec.Commands {
		r.Guard(r.OutcomeCount(spec.Commands[i].Name+"/ok") > 0, "%s compared in both directions at least once", spec.Commands[i].Name)
	}
}

func revBytes(b []byte) []byte {
	out := make([]byte, len(b))
	for i := range b {
		out[len(b)-1-i] = b[i]
	}
	return out
}

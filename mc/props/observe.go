package props

import (
	"encoding/json"
	"fmt"

	"verifmc/engine"
)

// observe does what a program does when it logs a value it holds: it formats it with the fmt verbs,
// through Stringer / GoStringer and through encoding/json, by value and by pointer. A receiver logs
// a frame between decoding and validating it, a sender between setting the MIC and encrypting;
// looking at a value is not an operation on it, so every check that holds a value across two
// library calls may look at it in between. (On the pristine tree no frame type has a String method
// and fmt walks the exported structure by reflection; MarshalJSON is one of the inspect-only
// operations of C10.)
func observe(vs ...interface{}) {
	for _, v := range vs {
		v := v
		engine.Try(func() {
			_ = fmt.Sprintf("%v %+v %s %#v", v, v, v, v)
			_ = fmt.Sprint(v)
			if s, ok := v.(fmt.Stringer); ok {
				_ = s.String()
			}
			if s, ok := v.(fmt.GoStringer); ok {
				_ = s.GoString()
			}
			json.Marshal(v)
		})
	}
}

// observeFmt is the part of observe a log line does (fmt's default verb, which goes through String()
// where there is one), for the sweeps with millions of cases.
func observeFmt(v interface{}) {
	engine.Try(func() { _ = fmt.Sprint(v) })
}

package props

import (
	"fmt"
	"math"
	"math/big"
	"time"

	"github.com/brocaar/lorawan"
	"github.com/brocaar/lorawan/airtime"
	"github.com/brocaar/lorawan/gps"

	"verifmc/engine"
	"verifmc/spec"
)

var c20Zones = []*time.Location{time.FixedZone("+01:00", 3600), time.FixedZone("+14:00", 14*3600), time.FixedZone("-12:00", -12*3600), time.FixedZone("+05:45", 5*3600+45*60)}

func init() { register("C20", "exploration", runC20) }

func runC20(r *engine.Run) {
	r.Rule = "E1 product enumeration. GPS: every day 1980-01-06..2100-01-01 at 00:00:00/12:00:00/23:59:59, every millisecond within ±3 s of each of the 18 leap instants, ±{1,2,3} ns around every whole second there, and the GPS-duration images of those windows; airtime: SF 5..12 x BW{125,250,500,812,1625} x payload 0..255 x CR 0..5 x header x LDRO x preamble 0..64 (complete); EIRP: all 256 indices and float32 bit patterns (quick: every float32 in [8,64) + one per exponent above; thorough: every finite float32 >= 8). A case is non-trivial when the implementation returned a value that was compared with the independent definition (not an error path)."
	// the first call into the gps package in this process is a GPS -> UTC conversion (a beacon or
	// DeviceTimeAns consumer never converts the other way): whatever the package builds on first use is
	// there for either direction. Child processes of the environment variants start the same way.
	r.PartDims("gps/first-call-of-the-process", []string{"GPS duration -> UTC before any other call: 3 published instants"}, 1, func(c *engine.Case) {
		c.Eval()
		c.NonTrivial()
		for _, w := range []struct {
			d   time.Duration
			utc time.Time
		}{
			{(1436486400 + 18) * time.Second, time.Date(2025, 7, 14, 0, 0, 0, 0, time.UTC)},
			{(1148774400 + 17) * time.Second, time.Date(2016, 6, 1, 0, 0, 0, 0, time.UTC)},
			{(49507200 + 1) * time.Second, time.Date(1981, 8, 1, 0, 0, 0, 0, time.UTC)},
		} {
			if got := time.Time(gps.NewTimeFromTimeSinceGPSEpoch(w.d)); !got.Equal(w.utc) {
				c.Fail("gps/first-call/duration-to-utc", fmt.Sprintf("first gps call of the process: %s since the GPS epoch -> %s, published %s", w.d, got.UTC().Format(time.RFC3339Nano), w.utc.Format(time.RFC3339Nano)), nil)
				return
			}
		}
		c.Outcome("gps/first-call/ok")
	})
	// the process time zone is read by the time package (and by whoever calls time.Local / time.Date with it)
	// when the process starts: an answer of the environment, not an argument
	r.EnvironmentVariants([]engine.EnvVariant{{Name: "TZ=Asia/Tokyo", Env: []string{"TZ=Asia/Tokyo"}}, {Name: "TZ=America/Los_Angeles", Env: []string{"TZ=America/Los_Angeles"}}, {Name: "TZ=Pacific/Kiritimati", Env: []string{"TZ=Pacific/Kiritimati"}}})
	r.Rule += " E3 (schedules): GPS<->UTC conversions of three published instants and an airtime computation from three threads, including the first calls of the process, every interleaving of instrumented package-level accesses and synchronisation operations; every result equals the published value; no data race."
	mergeSchedSummary(r, "C20")
	r.Assume("published leap-second dates (18 since 1980) are transcribed in spec/leap.go from the IERS bulletin list, not from the library")
	r.Assume("instants strictly inside the last UTC second of a leap day (23:59:59.0, 24:00:00) and GPS durations inside the inserted second are recorded, not judged (the property exempts them)")
	r.Assume("airtime is compared with the Semtech formula in exact rational arithmetic; the library's integer-nanosecond truncation (<= 1 ns per symbol) is tolerated, nothing more")

	epoch := time.Date(1980, 1, 6, 0, 0, 0, 0, time.UTC)
	leaps := spec.LeapDates() // UTC midnights at whose start GPS-UTC grows by one

	offsetAt := func(t time.Time) time.Duration {
		n := 0
		for _, l := range leaps {
			if !t.Before(l) {
				n++
			}
		}
		return time.Duration(n) * time.Second
	}
	insideLeapSecond := func(t time.Time) bool {
		for _, l := range leaps {
			if t.Before(l) && t.After(l.Add(-time.Second)) {
				return true
			}
		}
		return false
	}

	checkInstant := func(c *engine.Case, t time.Time) time.Duration {
		c.Eval()
		d := gps.Time(t).TimeSinceGPSEpoch()
		back := time.Time(gps.NewTimeFromTimeSinceGPSEpoch(d))
		if !back.Equal(t) {
			c.Fail("gps/utc-gps-utc-not-identity", fmt.Sprintf("UTC %s -> %s since GPS epoch -> UTC %s", t.Format(time.RFC3339Nano), d, back.Format(time.RFC3339Nano)), nil)
		}
		// a time.Time denotes the same instant whatever Location it carries
		for _, z := range c20Zones {
			if dz := gps.Time(t.In(z)).TimeSinceGPSEpoch(); dz != d {
				c.Fail("gps/depends-on-location", fmt.Sprintf("instant %s: %s since GPS epoch when held in UTC, %s when held in zone %s", t.Format(time.RFC3339Nano), d, dz, z), nil)
				break
			}
		}
		if insideLeapSecond(t) {
			c.Outcome("gps/inside-leap-second(recorded)")
			return d
		}
		c.NonTrivial()
		want := t.Sub(epoch) + offsetAt(t)
		if d != want {
			c.Fail(fmt.Sprintf("gps/offset/%d", t.Year()), fmt.Sprintf("UTC %s: time since GPS epoch %s, published leap-second count gives %s", t.Format(time.RFC3339Nano), d, want), nil)
		}
		c.Outcome(fmt.Sprintf("gps/offset=%ds", int(offsetAt(t)/time.Second)))
		return d
	}

	// --- days
	// from 1980-01-01 (five days before the GPS epoch: negative durations) to 2100-01-01
	const preEpochDays = 5
	nDays := uint64(time.Date(2100, 1, 1, 0, 0, 0, 0, time.UTC).Sub(epoch)/(24*time.Hour)) + 1 + preEpochDays
	r.PartDims("gps/days", []string{fmt.Sprintf("day:%d (1980-01-01 .. 2100-01-01)", nDays), "instant:4"}, nDays, func(c *engine.Case) {
		day := epoch.Add(time.Duration(int64(c.Index)-preEpochDays) * 24 * time.Hour)
		ts := []time.Time{day, day.Add(12 * time.Hour), day.Add(24*time.Hour - time.Second), day.Add(24 * time.Hour)}
		var prev time.Duration
		for i, t := range ts {
			d := checkInstant(c, t)
			if i > 0 && d <= prev {
				c.Fail("gps/not-strictly-increasing", fmt.Sprintf("at %s", t.Format(time.RFC3339Nano)), nil)
			}
			prev = d
		}
		if c.WantSample() {
			c.Sample(func() interface{} {
				return map[string]interface{}{"part": "gps/days", "utc": day.Format(time.RFC3339), "since_gps_epoch": gps.Time(day).TimeSinceGPSEpoch().String()}
			})
		}
	})

	// --- every millisecond in +-3 s around each leap instant, chained for monotonicity
	r.PartDims("gps/leap-window-ms", []string{"leap:18", "ms:6001"}, uint64(len(leaps)), func(c *engine.Case) {
		l := leaps[c.Index]
		var prev time.Duration
		for ms := -3000; ms <= 3000; ms++ {
			t := l.Add(time.Duration(ms) * time.Millisecond)
			d := checkInstant(c, t)
			if ms > -3000 && d <= prev {
				c.Fail("gps/not-strictly-increasing", fmt.Sprintf("at %s", t.Format(time.RFC3339Nano)), nil)
			}
			prev = d
		}
	})

	// --- +-{1,2,3} ns around every whole second of the window
	r.PartDims("gps/leap-window-ns", []string{"leap:18", "second:7", "ns:7"}, uint64(len(leaps)), func(c *engine.Case) {
		l := leaps[c.Index]
		var prev time.Duration
		first := true
		for s := -3; s <= 3; s++ {
			for ns := -3; ns <= 3; ns++ {
				t := l.Add(time.Duration(s)*time.Second + time.Duration(ns))
				d := checkInstant(c, t)
				if !first && d <= prev {
					c.Fail("gps/not-strictly-increasing", fmt.Sprintf("at %s", t.Format(time.RFC3339Nano)), nil)
				}
				prev, first = d, false
			}
		}
	})

	// --- GPS durations -> UTC -> GPS: identity outside the inserted second
	r.PartDims("gps/durations", []string{"leap:18", "ms:6001+ns:49"}, uint64(len(leaps)), func(c *engine.Case) {
		l := leaps[c.Index]
		// G = GPS image of 23:59:59.0 on the leap day (spec: count before the leap)
		g := l.Add(-time.Second).Sub(epoch) + time.Duration(c.Index)*time.Second
		try := func(d time.Duration) {
			c.Eval()
			u := time.Time(gps.NewTimeFromTimeSinceGPSEpoch(d))
			d2 := gps.Time(u).TimeSinceGPSEpoch()
			if d > g && d <= g+time.Second {
				c.Outcome(fmt.Sprintf("gps/duration-inside-inserted-second(recorded):delta=%s", d2-d))
				return
			}
			c.NonTrivial()
			if d2 != d {
				c.Fail("gps/gps-utc-gps-not-identity", fmt.Sprintf("%s since GPS epoch -> UTC %s -> %s", d, u.Format(time.RFC3339Nano), d2), nil)
			}
			// the UTC instant is the published one
			want := epoch.Add(d - time.Duration(c.Index)*time.Second)
			if d > g+time.Second {
				want = want.Add(-time.Second)
			}
			if !u.Equal(want) {
				c.Fail(fmt.Sprintf("gps/duration-to-utc/%d", l.Year()), fmt.Sprintf("%s since GPS epoch -> UTC %s, published leap seconds give %s", d, u.Format(time.RFC3339Nano), want.Format(time.RFC3339Nano)), nil)
			}
		}
		for ms := -3000; ms <= 3000; ms++ {
			try(g + time.Duration(ms)*time.Millisecond)
		}
		for s := -3; s <= 3; s++ {
			for ns := -3; ns <= 3; ns++ {
				try(g + time.Duration(s)*time.Second + time.Duration(ns))
			}
		}
	})
	// durations on ordinary days
	r.Part("gps/durations-days", nDays, func(c *engine.Case) {
		for _, off := range []time.Duration{0, 12 * time.Hour, 24*time.Hour - 1} {
			d := time.Duration(c.Index)*24*time.Hour + off
			c.Eval()
			u := time.Time(gps.NewTimeFromTimeSinceGPSEpoch(d))
			d2 := gps.Time(u).TimeSinceGPSEpoch()
			inside := false
			for k, l := range leaps {
				g := l.Add(-time.Second).Sub(epoch) + time.Duration(k)*time.Second
				if d > g && d <= g+time.Second {
					inside = true
				}
			}
			if inside {
				continue
			}
			c.NonTrivial()
			if d2 != d {
				c.Fail("gps/gps-utc-gps-not-identity", fmt.Sprintf("%s since GPS epoch -> UTC %s -> %s", d, u.Format(time.RFC3339Nano), d2), nil)
			}
		}
	})

	// durations over the whole range of time.Duration ("all durations"): powers of two and their
	// neighbours with both signs, the ends of the range, and the durations whose UTC image lies around the
	// last instant that fits a 64-bit Unix nanosecond count (2262-04-11T23:47:16.854775807Z)
	var extreme []time.Duration
	for k := uint(0); k <= 62; k++ {
		for _, d := range []int64{1 << k, 1<<k - 1, 1<<k + 1} {
			extreme = append(extreme, time.Duration(d), time.Duration(-d))
		}
	}
	unixLimit := time.Unix(0, 1<<63-1).Sub(epoch) + offsetAt(time.Unix(0, 1<<63-1))
	for j := int64(0); j <= 3; j++ {
		extreme = append(extreme, time.Duration(1<<63-1-j), time.Duration(-1<<63+1+j), unixLimit+time.Duration(j), unixLimit-time.Duration(j),
			unixLimit+time.Duration(j)*time.Second, unixLimit-time.Duration(j)*time.Second, unixLimit+time.Duration(j)*1000*time.Hour)
	}
	r.PartDims("gps/extreme-durations", []string{fmt.Sprintf("durations:%d (+-2^k, +-(2^k+-1), ends of the int64 range, around the Unix-nanosecond limit)", len(extreme))}, uint64(len(extreme)), func(c *engine.Case) {
		d := extreme[c.Index]
		c.Eval()
		u := time.Time(gps.NewTimeFromTimeSinceGPSEpoch(d))
		d2 := gps.Time(u).TimeSinceGPSEpoch()
		for k, l := range leaps {
			g := l.Add(-time.Second).Sub(epoch) + time.Duration(k)*time.Second
			if d > g && d <= g+time.Second {
				c.Outcome("gps/duration-inside-inserted-second(recorded)")
				return
			}
		}
		c.NonTrivial()
		if d2 != d {
			c.Fail("gps/gps-utc-gps-not-identity/extreme", fmt.Sprintf("%d ns (%s) since GPS epoch -> UTC %s -> %d ns (difference %s)", int64(d), d, u.Format(time.RFC3339Nano), int64(d2), d2-d), nil)
		}
	})

	// --- airtime (complete product)
	sfs := []int{5, 6, 7, 8, 9, 10, 11, 12}
	bws := []int{125, 250, 500, 812, 1625}
	sp := (&engine.Space{}).Dim("sf", 8).Dim("bw", 5).Dim("cr(0..5)", 6).Dim("header", 2).Dim("ldro", 2).Dim("preamble(0..64)", 65)
	r.PartDims("airtime", append(sp.Desc(), "payload:256 (inner loop, chained for monotonicity)"), sp.N(), func(c *engine.Case) {
		var ch [6]int
		sp.Decode(c.Index, ch[:])
		sf, bw, cr, hdr, ldro, pre := sfs[ch[0]], bws[ch[1]], ch[2], ch[3] == 1, ch[4] == 1, ch[5]
		var prev time.Duration
		for pl := 0; pl <= 255; pl++ {
			c.Eval()
			got, err := airtime.CalculateLoRaAirtime(pl, sf, bw, pre, airtime.CodingRate(cr), hdr, ldro)
			if cr < 1 || cr > 4 {
				if err == nil {
					c.Fail("airtime/invalid-coding-rate-accepted", fmt.Sprintf("cr=%d accepted", cr), nil)
				}
				c.Outcome("airtime/error")
				continue
			}
			if err != nil {
				c.Fail("airtime/valid-refused", fmt.Sprintf("pl=%d sf=%d bw=%d pre=%d cr=%d: %v", pl, sf, bw, pre, cr, err), nil)
				continue
			}
			nsym, exact := spec.AirtimeExact(pl, sf, bw, pre, cr, hdr, ldro)
			// tolerance: truncation of the symbol duration to whole ns (<1 ns per
			// symbol, preamble 4.25+pre symbols) plus one final truncation
			// ... which is nothing when the symbol duration is a whole number of ns (125 / 250 / 500 kHz):
			// there the result is the formula's value to the last ns (one truncation of the preamble,
			// which is itself whole when the symbol duration is a multiple of 4 ns)
			tsym := new(big.Rat).SetFrac64(int64(1)<<uint(sf)*1000000, int64(bw))
			frac := new(big.Rat).Sub(tsym, new(big.Rat).SetInt(new(big.Int).Quo(tsym.Num(), tsym.Denom())))
			tol := new(big.Rat).Mul(frac, new(big.Rat).SetFrac64(int64(4*(nsym+pre)+17), 4))
			tol.Add(tol, new(big.Rat).SetInt64(1))
			diff := new(big.Rat).Sub(exact, new(big.Rat).SetInt64(int64(got)))
			if diff.Sign() < 0 || diff.Cmp(tol) >= 0 {
				f, _ := exact.Float64()
				c.Fail("airtime/formula", fmt.Sprintf("pl=%d sf=%d bw=%d pre=%d cr=%d hdr=%v ldro=%v: library %d ns, Semtech formula %.3f ns", pl, sf, bw, pre, cr, hdr, ldro, int64(got), f), nil)
			}
			if pl > 0 && got < prev {
				c.Fail("airtime/decreases-with-payload", fmt.Sprintf("pl=%d sf=%d bw=%d pre=%d cr=%d hdr=%v ldro=%v: %v < %v", pl, sf, bw, pre, cr, hdr, ldro, got, prev), nil)
			}
			prev = got
			c.NonTrivial()
			// the exported helper agrees with the formula's symbol count
			n, err := airtime.CalculateLoRaPayloadSymbolNumber(pl, sf, airtime.CodingRate(cr), hdr, ldro)
			if err != nil || n != nsym {
				c.Fail("airtime/symbol-number", fmt.Sprintf("pl=%d sf=%d cr=%d hdr=%v ldro=%v: library %d (err %v), formula %d", pl, sf, cr, hdr, ldro, n, err, nsym), nil)
			}
		}
		if cr >= 1 && cr <= 4 {
			c.Outcome("airtime/value")
		}
		if c.WantSample() && cr >= 1 && cr <= 4 {
			c.Sample(func() interface{} {
				d, _ := airtime.CalculateLoRaAirtime(255, sf, bw, pre, airtime.CodingRate(cr), hdr, ldro)
				return map[string]interface{}{"part": "airtime", "sf": sf, "bw_khz": bw, "cr": cr, "header": hdr, "ldro": ldro, "preamble": pre, "payload": 255, "airtime": d.String()}
			})
		}
	})

	// --- EIRP
	table := spec.EIRPTable()
	r.Part("eirp/index-decode", 256, func(c *engine.Case) {
		v, err := lorawan.GetTXParamSetupEIRP(uint8(c.Index))
		if c.Index >= 16 {
			if err == nil {
				c.Fail("eirp/index>=16-accepted", fmt.Sprintf("index %d decodes to %v", c.Index, v), nil)
			}
			c.Outcome("eirp/decode-error")
			return
		}
		c.NonTrivial()
		c.Outcome("eirp/decode-value")
		if err != nil || v != table[c.Index] {
			c.Fail(fmt.Sprintf("eirp/decode/%d", c.Index), fmt.Sprintf("index %d decodes to %v (err %v), table says %v", c.Index, v, err, table[c.Index]), nil)
		}
	})
	checkPower := func(c *engine.Case, p float32) {
		c.Eval()
		c.NonTrivial()
		idx := lorawan.GetTXParamSetupEIRPIndex(p)
		want := -1
		for i, e := range table {
			if e <= p {
				want = i
			}
		}
		if int(idx) != want {
			c.Fail(fmt.Sprintf("eirp/index-for-power/expected-%d", want), fmt.Sprintf("power %v dBm (bits %08x): index %d, largest entry not exceeding it is %d", p, math.Float32bits(p), idx, want), nil)
			return
		}
		v, err := lorawan.GetTXParamSetupEIRP(idx)
		if err != nil || v != table[want] || v > p {
			c.Fail("eirp/index-does-not-decode-to-entry", fmt.Sprintf("power %v: index %d decodes to %v (err %v)", p, idx, v, err), nil)
		}
	}
	const blk = 1 << 14
	lo, hi := uint64(0x41000000), uint64(0x42800000) // [8, 64)
	if r.Thorough() {
		hi = 0x7F800000 // every finite float32 >= 8
	}
	r.PartDims("eirp/float32-sweep", []string{fmt.Sprintf("bit patterns %08x..%08x in blocks of %d", lo, hi-1, blk)}, (hi-lo)/blk, func(c *engine.Case) {
		base := uint32(lo + c.Index*blk)
		for i := uint32(0); i < blk; i++ {
			checkPower(c, math.Float32frombits(base+i))
		}
		c.Outcome(fmt.Sprintf("eirp/index=%d", lorawan.GetTXParamSetupEIRPIndex(math.Float32frombits(base))))
	})
	// one value per exponent above 64, the exact table values and their float neighbours
	r.Part("eirp/boundaries", 1, func(c *engine.Case) {
		for e := uint32(0x42800000); e < 0x7F800000; e += 0x00800000 {
			checkPower(c, math.Float32frombits(e))
			checkPower(c, math.Float32frombits(e|0x007FFFFF))
		}
		for _, t := range table {
			b := math.Float32bits(t)
			checkPower(c, t)
			checkPower(c, math.Float32frombits(b+1))
			if t > 8 {
				checkPower(c, math.Float32frombits(b-1))
			}
		}
		// below the table, NaN, Inf: must not panic (not judged)
		for _, p := range []float32{0, -1, 7.999, float32(math.NaN()), float32(math.Inf(1)), float32(math.Inf(-1))} {
			_ = lorawan.GetTXParamSetupEIRPIndex(p)
		}
	})

	r.Guard(r.OutcomePrefixCount("gps/offset=") > 0 && r.OutcomeCount("gps/offset=18s") > 0 && r.OutcomeCount("gps/offset=0s") > 0, "GPS offsets 0 s and 18 s both observed")
	r.Guard(r.OutcomeCount("airtime/value") > 0, "airtime values compared")
	r.Guard(r.OutcomeCount("eirp/index=0") > 0 && r.OutcomeCount("eirp/index=15") > 0, "EIRP indices 0 and 15 both produced by the sweep")
}

package props

import (
	"crypto/md5"
	"crypto/sha1"
	"crypto/sha256"
	"encoding/binary"
	"fmt"
	"hash/adler32"
	"hash/crc32"
	"hash/fnv"
	"sync"
)

// Fingerprint-colliding keys: pairs of distinct 16-byte keys that agree under one of the cheap
// digests a program would plausibly use to recognise a key without keeping it (32-bit FNV-1 / FNV-1a,
// CRC-32, Adler-32, folded 64-bit FNV, truncated MD5 / SHA-1 / SHA-256, multiplicative string
// hashes, word XOR, byte sum, leading / trailing bytes). A pair is found by exhaustive birthday
// search over a fixed key sequence (deterministic; some 2^16..2^18 keys per digest, milliseconds)
// and is, by construction, verified each time the table is built. Enumerating keys reaches such a
// pair only with probability 2^-32 per pair, so the many-keys histories end with every pair used
// back to back (a, b, a, b): whatever the library keeps per key must be recognised by the key.
// Full 64-bit digests are out of reach of a birthday table; for FNV-1 / FNV-1a 64, and the leading
// 8 bytes of MD5, SHA-1 and SHA-256 a pair was found by cycle finding (collidingWide). Fingerprints wider
// than 64 bits, or keyed ones (hash/maphash), remain a stated limit.

type keyDigest struct {
	name string
	fn   func(k []byte) uint64
}

var keyDigests = []keyDigest{
	{"fnv1a-32", func(k []byte) uint64 { h := fnv.New32a(); h.Write(k); return uint64(h.Sum32()) }},
	{"fnv1-32", func(k []byte) uint64 { h := fnv.New32(); h.Write(k); return uint64(h.Sum32()) }},
	{"crc32-ieee", func(k []byte) uint64 { return uint64(crc32.ChecksumIEEE(k)) }},
	{"crc32-castagnoli", func(k []byte) uint64 { return uint64(crc32.Checksum(k, crc32.MakeTable(crc32.Castagnoli))) }},
	{"adler32", func(k []byte) uint64 { return uint64(adler32.Checksum(k)) }},
	{"fnv1a-64-low32", func(k []byte) uint64 { h := fnv.New64a(); h.Write(k); return h.Sum64() & 0xFFFFFFFF }},
	{"fnv1a-64-folded", func(k []byte) uint64 { h := fnv.New64a(); h.Write(k); s := h.Sum64(); return (s ^ s>>32) & 0xFFFFFFFF }},
	{"fnv1-64-folded", func(k []byte) uint64 { h := fnv.New64(); h.Write(k); s := h.Sum64(); return (s ^ s>>32) & 0xFFFFFFFF }},
	{"times31", func(k []byte) uint64 {
		var h uint32
		for _, b := range k {
			h = h*31 + uint32(b)
		}
		return uint64(h)
	}},
	{"djb2", func(k []byte) uint64 {
		h := uint32(5381)
		for _, b := range k {
			h = h*33 + uint32(b)
		}
		return uint64(h)
	}},
	{"xor-le-words", func(k []byte) uint64 {
		return uint64(binary.LittleEndian.Uint32(k) ^ binary.LittleEndian.Uint32(k[4:]) ^ binary.LittleEndian.Uint32(k[8:]) ^ binary.LittleEndian.Uint32(k[12:]))
	}},
	{"xor-halves-folded", func(k []byte) uint64 {
		s := binary.BigEndian.Uint64(k) ^ binary.BigEndian.Uint64(k[8:])
		return (s ^ s>>32) & 0xFFFFFFFF
	}},
	{"byte-sum", func(k []byte) uint64 {
		var h uint64
		for _, b := range k {
			h += uint64(b)
		}
		return h
	}},
	{"md5-4", func(k []byte) uint64 { s := md5.Sum(k); return uint64(binary.BigEndian.Uint32(s[:])) }},
	{"sha1-4", func(k []byte) uint64 { s := sha1.Sum(k); return uint64(binary.BigEndian.Uint32(s[:])) }},
	{"sha256-4", func(k []byte) uint64 { s := sha256.Sum256(k); return uint64(binary.BigEndian.Uint32(s[:])) }},
	{"first-4-bytes", func(k []byte) uint64 { return uint64(binary.BigEndian.Uint32(k)) }},
	{"last-4-bytes", func(k []byte) uint64 { return uint64(binary.BigEndian.Uint32(k[12:])) }},
}

// collidingWide: pairs that agree under a full 64-bit digest. They were found by cycle finding
// (mc/cmd/collsearch: about 2^33 digest evaluations each, minutes on one core) and are verified
// against the digest each time the table is built.
var collidingWide = []struct {
	name string
	a, b string
	fn   func(k []byte) uint64
}{
	{"fnv1-64", "4c6f526157414e21b16cb5fc5869235e", "4c6f526157414e21a13899681dc30941", func(k []byte) uint64 { h := fnv.New64(); h.Write(k); return h.Sum64() }},
	{"fnv1a-64", "4c6f526157414e21441c77fbab3f2eed", "4c6f526157414e2174289b4feef96af8", func(k []byte) uint64 { h := fnv.New64a(); h.Write(k); return h.Sum64() }},
	{"md5-8", "4c6f526157414e216f06d7fdc1c506dc", "4c6f526157414e21a705086571baba46", func(k []byte) uint64 { s := md5.Sum(k); return binary.BigEndian.Uint64(s[:]) }},
	{"sha256-8", "4c6f526157414e21958cf4483c5f4988", "4c6f526157414e2145cdb9fa42389749", func(k []byte) uint64 { s := sha256.Sum256(k); return binary.BigEndian.Uint64(s[:]) }},
	{"sha1-8", "4c6f526157414e21bb9943e7c10aac13", "4c6f526157414e2125c5a643364e7950", func(k []byte) uint64 { s := sha1.Sum(k); return binary.BigEndian.Uint64(s[:]) }},
}

// collisionKeyBase is the argument number from which manyKey returns the colliding keys: argument
// collisionKeyBase+2p and +2p+1 are the two keys of pair p (the table repeats beyond its end).
const collisionKeyBase = 1 << 23

var (
	collidingOnce  sync.Once
	collidingTable [][]byte // 2 per digest, then the constructed pairs
	collidingNames []string
)

// collidingKeys returns the table (a power-of-two number of keys; pair p is entries 2p, 2p+1).
func collidingKeys() ([][]byte, []string) {
	collidingOnce.Do(func() {
		seq := func(i uint32) []byte {
			var c [4]byte
			binary.BigEndian.PutUint32(c[:], i)
			s := sha256.Sum256(c[:])
			return s[:16]
		}
		for _, d := range keyDigests {
			seen := map[uint64]uint32{}
			for i := uint32(0); ; i++ {
				k := seq(i)
				v := d.fn(k)
				if j, ok := seen[v]; ok {
					a := seq(j)
					if string(a) == string(k) || d.fn(a) != d.fn(k) {
						panic("colliding-keys: search is wrong for " + d.name)
					}
					collidingTable = append(collidingTable, a, append([]byte(nil), k...))
					collidingNames = append(collidingNames, d.name)
					break
				}
				seen[v] = i
				if i == 1<<24 {
					panic("colliding-keys: no collision for " + d.name)
				}
			}
		}
		for _, w := range collidingWide {
			a, b := mustHex(w.a), mustHex(w.b)
			if string(a) == string(b) || w.fn(a) != w.fn(b) {
				panic("colliding-keys: recorded pair is wrong for " + w.name)
			}
			collidingTable = append(collidingTable, a, b)
			collidingNames = append(collidingNames, w.name)
		}
		// constructed: equal but for one bit in the first / last / a middle byte (a 64- or 96-bit prefix or suffix agrees)
		base := seq(0xC0111DE)
		for _, pos := range []int{0, 15, 8} {
			b := append([]byte(nil), base...)
			b[pos] ^= 0x01
			collidingTable = append(collidingTable, append([]byte(nil), base...), b)
			collidingNames = append(collidingNames, map[int]string{0: "all-but-first-byte", 15: "all-but-last-byte", 8: "all-but-byte-8"}[pos])
		}
		// byte order: the second key is the first one reversed (a fingerprint over a sorted or summed view agrees)
		rev := make([]byte, 16)
		for i := range rev {
			rev[i] = base[15-i]
		}
		collidingTable = append(collidingTable, append([]byte(nil), base...), rev)
		collidingNames = append(collidingNames, "reversed")
		// pad to a power of two by repeating pairs from the start
		orig := len(collidingNames)
		for n := len(collidingTable); n&(n-1) != 0; n = len(collidingTable) {
			p := (n / 2) % orig
			collidingTable = append(collidingTable, collidingTable[2*p], collidingTable[2*p+1])
			collidingNames = append(collidingNames, collidingNames[p])
		}
	})
	return collidingTable, collidingNames
}

// collidingRule is the sentence the many-keys histories add to their rule.
func collidingRule() string {
	t, names := collidingKeys()
	seen, list := map[string]bool{}, ""
	for _, n := range names {
		if !seen[n] {
			seen[n] = true
			if list != "" {
				list += ", "
			}
			list += n
		}
	}
	return fmt.Sprintf(" The history ends with %d pairs of distinct keys that agree under a cheap key fingerprint (%s; found by exhaustive birthday search, the 64-bit ones by cycle finding), each pair used a, b, a, b.", len(t)/2, list)
}

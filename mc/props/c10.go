package props

import (
	"bytes"
	"fmt"
	"reflect"

	"github.com/brocaar/lorawan"
	"github.com/brocaar/lorawan/applayer/clocksync"
	"github.com/brocaar/lorawan/applayer/firmwaremanagement"
	"github.com/brocaar/lorawan/applayer/fragmentation"
	"github.com/brocaar/lorawan/applayer/multicastsetup"
	"github.com/brocaar/lorawan/band"

	"verifmc/engine"
	"verifmc/spec"
)

func init() { register("C10", "model_checking", runC10) }

// reuseType is one decodable type for the reuse histories.
type reuseType struct {
	name     string
	fresh    func() interface{}
	decode   func(v interface{}, b []byte) error
	alphabet [][]byte
}

func sixStrings(n int, example []byte) [][]byte {
	mk := func(f func(i int) byte) []byte {
		b := make([]byte, n)
		for i := range b {
			b[i] = f(i)
		}
		return b
	}
	out := [][]byte{
		mk(func(int) byte { return 0x00 }), mk(func(int) byte { return 0xFF }),
		mk(func(i int) byte { return 0x0F }), mk(func(i int) byte { return 0xF0 }),
		mk(func(i int) byte { return byte(0x11 * (i + 1)) }),
	}
	if example != nil {
		out = append(out, example)
	} else {
		out = append(out, mk(func(i int) byte { return 0x55 }))
	}
	return out
}

// scribbleScalars sets every exported scalar the value reaches (through pointers, interfaces, structs,
// arrays and slices) to a conspicuous value: unsigned all-ones, signed -1, bool true.
func scribbleScalars(v reflect.Value, depth int) {
	if depth > 8 || !v.IsValid() {
		return
	}
	switch v.Kind() {
	case reflect.Ptr, reflect.Interface:
		if !v.IsNil() {
			scribbleScalars(v.Elem(), depth+1)
		}
	case reflect.Struct:
		for i := 0; i < v.NumField(); i++ {
			if v.Type().Field(i).PkgPath == "" {
				scribbleScalars(v.Field(i), depth+1)
			}
		}
	case reflect.Array, reflect.Slice:
		for i := 0; i < v.Len(); i++ {
			scribbleScalars(v.Index(i), depth+1)
		}
	case reflect.Bool:
		if v.CanSet() {
			v.SetBool(true)
		}
	case reflect.Uint8, reflect.Uint16, reflect.Uint32, reflect.Uint64, reflect.Uint:
		if v.CanSet() {
			v.SetUint(^uint64(0) >> (64 - uint(v.Type().Bits())))
		}
	case reflect.Int8, reflect.Int16, reflect.Int32, reflect.Int64, reflect.Int:
		if v.CanSet() {
			v.SetInt(-1)
		}
	}
}

func c10ReuseTypes() []reuseType {
	var out []reuseType
	for i := range spec.Commands {
		cmd := spec.Commands[i]
		out = append(out, reuseType{
			name: "lorawan." + cmd.Name + "Payload",
			fresh: func() interface{} {
				p, _, _ := lorawan.GetMACPayloadAndSize(cmd.Uplink, lorawan.CID(cmd.CID))
				return p
			},
			decode:   func(v interface{}, b []byte) error { return v.(lorawan.MACCommandPayload).UnmarshalBinary(b) },
			alphabet: sixStrings(cmd.Size, spec.Example(cmd.Uplink, cmd.CID).Payload),
		})
	}
	add := func(name string, fresh func() interface{}, dec func(v interface{}, b []byte) error, alpha ...[]byte) {
		out = append(out, reuseType{name, fresh, dec, alpha})
	}
	add("lorawan.ChMask", func() interface{} { return &lorawan.ChMask{} }, func(v interface{}, b []byte) error { return v.(*lorawan.ChMask).UnmarshalBinary(b) },
		[]byte{0, 0}, []byte{0xFF, 0xFF}, []byte{0x01, 0x00}, []byte{0x00, 0x80}, []byte{0x55, 0xAA})
	add("lorawan.Redundancy", func() interface{} { return &lorawan.Redundancy{} }, func(v interface{}, b []byte) error { return v.(*lorawan.Redundancy).UnmarshalBinary(b) }, sixStrings(1, nil)...)
	add("lorawan.DLSettings", func() interface{} { return &lorawan.DLSettings{} }, func(v interface{}, b []byte) error { return v.(*lorawan.DLSettings).UnmarshalBinary(b) }, sixStrings(1, nil)...)
	add("lorawan.MHDR", func() interface{} { return &lorawan.MHDR{} }, func(v interface{}, b []byte) error { return v.(*lorawan.MHDR).UnmarshalBinary(b) }, sixStrings(1, nil)...)
	add("lorawan.FCtrl", func() interface{} { return &lorawan.FCtrl{} }, func(v interface{}, b []byte) error { return v.(*lorawan.FCtrl).UnmarshalBinary(b) }, sixStrings(1, nil)...)
	cfCh := append(fillBytes(15, 0x21), 0)
	cfMask := []byte{0xFF, 0xFF, 0x00, 0x00, 0x0F, 0x00, 0, 0, 0, 0, 0, 0, 0, 0, 0, 1}
	cfMask2 := []byte{0x01, 0x00, 0, 0, 0, 0, 0, 0, 0, 0, 0, 0, 0, 0, 0, 1}
	add("lorawan.CFList", func() interface{} { return &lorawan.CFList{} }, func(v interface{}, b []byte) error { return v.(*lorawan.CFList).UnmarshalBinary(b) },
		cfCh, cfMask, cfMask2, make([]byte, 16), make([]byte, 3))
	add("lorawan.CFListChannelPayload", func() interface{} { return &lorawan.CFListChannelPayload{} }, func(v interface{}, b []byte) error {
		return v.(*lorawan.CFListChannelPayload).UnmarshalBinary(false, b)
	}, cfCh[:15], cfCh[:6], make([]byte, 15), cfCh[:3], nil)
	add("lorawan.CFListChannelMaskPayload", func() interface{} { return &lorawan.CFListChannelMaskPayload{} }, func(v interface{}, b []byte) error {
		return v.(*lorawan.CFListChannelMaskPayload).UnmarshalBinary(false, b)
	}, cfMask[:15], cfMask2[:15], cfMask[:2], make([]byte, 15), nil)
	add("lorawan.JoinRequestPayload", func() interface{} { return &lorawan.JoinRequestPayload{} }, func(v interface{}, b []byte) error {
		return v.(*lorawan.JoinRequestPayload).UnmarshalBinary(true, b)
	}, sixStrings(18, nil)...)
	ja12 := fillBytes(12, 0x61)
	ja12[11] = 3
	add("lorawan.JoinAcceptPayload", func() interface{} { return &lorawan.JoinAcceptPayload{} }, func(v interface{}, b []byte) error {
		return v.(*lorawan.JoinAcceptPayload).UnmarshalBinary(false, b)
	}, ja12, append(append([]byte(nil), ja12...), cfCh...), append(append([]byte(nil), ja12...), cfMask...), make([]byte, 12), make([]byte, 11))
	add("lorawan.RejoinRequestType02Payload", func() interface{} { return &lorawan.RejoinRequestType02Payload{} }, func(v interface{}, b []byte) error {
		return v.(*lorawan.RejoinRequestType02Payload).UnmarshalBinary(true, b)
	}, sixStrings(14, nil)...)
	add("lorawan.RejoinRequestType1Payload", func() interface{} { return &lorawan.RejoinRequestType1Payload{} }, func(v interface{}, b []byte) error {
		return v.(*lorawan.RejoinRequestType1Payload).UnmarshalBinary(true, b)
	}, sixStrings(19, nil)...)
	add("lorawan.DataPayload", func() interface{} { return &lorawan.DataPayload{} }, func(v interface{}, b []byte) error { return v.(*lorawan.DataPayload).UnmarshalBinary(true, b) },
		[]byte{1, 2, 3}, []byte{9}, nil, fillBytes(20, 1))
	add("lorawan.ProprietaryMACCommandPayload", func() interface{} { return &lorawan.ProprietaryMACCommandPayload{} }, func(v interface{}, b []byte) error {
		return v.(*lorawan.ProprietaryMACCommandPayload).UnmarshalBinary(b)
	}, []byte{1, 2, 3}, []byte{9}, nil, fillBytes(16, 1))
	add("lorawan.MACCommand(uplink)", func() interface{} { return &lorawan.MACCommand{} }, func(v interface{}, b []byte) error { return v.(*lorawan.MACCommand).UnmarshalBinary(true, b) },
		[]byte{0x06, 0xC8, 0x3B}, []byte{0x02}, []byte{0x03, 0x07}, []byte{0x0D}, []byte{0x03, 0x00}, nil)
	add("lorawan.MACCommand(downlink)", func() interface{} { return &lorawan.MACCommand{} }, func(v interface{}, b []byte) error { return v.(*lorawan.MACCommand).UnmarshalBinary(false, b) },
		[]byte{0x03, 0x52, 0x07, 0x80, 0x21}, []byte{0x06}, []byte{0x02, 0x14, 0x03}, []byte{0x03, 0x00, 0x00, 0x00, 0x00}, []byte{0x09, 0x2D}, []byte{0x09, 0x00})
	fh := [][]byte{
		{4, 3, 2, 1, 0x80, 0x34, 0x12}, {4, 3, 2, 1, 0x03, 0x01, 0x00, 0x02, 0x04, 0x08}, {0xFF, 0xFF, 0xFF, 0xFF, 0xF0, 0xFF, 0xFF}, {0, 0, 0, 0, 0, 0, 0}, {1, 2, 3},
		{8, 7, 6, 5, 0x02, 0x09, 0x00, 0x06, 0x0D}, // a second header with FOpts (other length, other bytes)
	}
	add("lorawan.FHDR", func() interface{} { return &lorawan.FHDR{} }, func(v interface{}, b []byte) error { return v.(*lorawan.FHDR).UnmarshalBinary(true, b) }, fh...)
	mpl := [][]byte{
		{8, 7, 6, 5, 0x02, 0x09, 0x00, 0x06, 0x0D, 0x05, 0x11, 0x22}, // (first, so that it is among the data frames of the PHYPayload alphabet)
		{4, 3, 2, 1, 0x80, 0x34, 0x12}, {4, 3, 2, 1, 0x03, 0x01, 0x00, 0x02, 0x04, 0x08, 0x0A, 0xDE, 0xAD}, {4, 3, 2, 1, 0x00, 0x01, 0x00, 0x00, 0x02}, {4, 3, 2, 1, 0x00, 0x01, 0x00, 0x07}, {9, 9, 9},
	}
	add("lorawan.MACPayload", func() interface{} { return &lorawan.MACPayload{} }, func(v interface{}, b []byte) error { return v.(*lorawan.MACPayload).UnmarshalBinary(true, b) }, mpl...)
	var phys [][]byte
	for _, m := range mpl[:5] {
		phys = append(phys, append(append([]byte{0x40}, m...), 1, 2, 3, 4))
	}
	// a second frame of every kind that is not a data frame (pairs of one kind in the reuse / kept-copy histories)
	phys = append(phys, append(append([]byte{0x00}, fillBytes(18, 0x15)...), 9, 8, 7, 6), append(append([]byte{0x20}, fillBytes(12, 0x16)...), 9, 8, 7, 6),
		append(append([]byte{0xC0, 0x01}, fillBytes(18, 0x17)...), 9, 8, 7, 6), append(append([]byte{0xC0, 0x00}, fillBytes(13, 0x18)...), 9, 8, 7, 6), append(append([]byte{0xC0, 0x02}, fillBytes(13, 0x19)...), 9, 8, 7, 6))
	phys = append(phys, append(append([]byte{0x00}, fillBytes(18, 5)...), 1, 2, 3, 4), append(append([]byte{0x20}, fillBytes(12, 6)...), 1, 2, 3, 4),
		append(append([]byte{0xC0, 0x01}, fillBytes(18, 7)...), 1, 2, 3, 4), []byte{0xE0, 1, 2, 3, 4, 5, 6}, []byte{0x40, 1, 2})
	add("lorawan.PHYPayload", func() interface{} { return &lorawan.PHYPayload{} }, func(v interface{}, b []byte) error { return v.(*lorawan.PHYPayload).UnmarshalBinary(b) }, phys...)
	// a used value is usually one the receiver went on working with: before the next decode the calls that
	// follow a decode have replaced parts of it (DecryptJoinAcceptPayload puts a JoinAcceptPayload in place,
	// DecodeFOptsToMACCommands / DecryptFRMPayload / DecodeFRMPayloadToMACCommands rewrite the lists)
	physF := append(append([][]byte(nil), phys...), append(append([]byte{0xE0}, fillBytes(12, 8)...), 1, 2, 3, 4), append(append([]byte{0x20}, fillBytes(28, 6)...), 1, 2, 3, 4))
	add("lorawan.PHYPayload(after-the-receiver's-follow-up-calls)", func() interface{} { return &lorawan.PHYPayload{} }, func(v interface{}, b []byte) error {
		p := v.(*lorawan.PHYPayload)
		if p.MACPayload != nil {
			engine.Try(func() {
				k := keyOf(c05KeyA)
				switch p.MHDR.MType {
				case lorawan.JoinAccept:
					p.DecryptJoinAcceptPayload(k)
				case lorawan.JoinRequest, lorawan.RejoinRequest, lorawan.Proprietary:
				default:
					p.DecodeFOptsToMACCommands()
					p.DecryptFRMPayload(k)
					p.DecodeFRMPayloadToMACCommands()
				}
			})
		}
		return p.UnmarshalBinary(b)
	}, physF...)

	// application layer payloads and command lists
	for pi := range c18Pkgs {
		pkg := &c18Pkgs[pi]
		for _, up := range []bool{true, false} {
			up := up
			for _, cid := range pkg.cids[up] {
				cid := cid
				p, ok := pkg.payload(up, cid)
				if !ok {
					continue
				}
				var alpha [][]byte
				seen := map[string]bool{}
				vs := c18Variants(p)
				if vs == nil {
					ls := leaves(pkg, reflect.TypeOf(p).Elem().Name(), reflect.TypeOf(p).Elem(), "", nil)
					for variant := 0; variant < 3; variant++ {
						q, _ := pkg.payload(up, cid)
						rv := reflect.ValueOf(q).Elem()
						for _, l := range ls {
							k := []int{0, len(l.values) - 1, len(l.values) / 2}[variant]
							l.values[k](rv.FieldByIndex(l.index))
						}
						vs = append(vs, q)
					}
				}
				for i, v := range vs {
					if len(vs) > 8 && i%(len(vs)/8+1) != 0 {
						continue
					}
					var b []byte
					if pn, _, _ := engine.Try(func() { b, _ = v.MarshalBinary() }); !pn && b != nil && !seen[string(b)] {
						seen[string(b)] = true
						alpha = append(alpha, b)
					}
				}
				if _, isUp := p.(*firmwaremanagement.DevUpgradeImageAnsPayload); isUp {
					alpha = append(alpha, []byte{0x03, 1, 2, 3, 4}, []byte{0x03, 0xFF, 0xFF, 0xFF, 0xFF})
				}
				alpha = append(alpha, nil)
				name := pkg.name + "." + reflect.TypeOf(p).Elem().Name()
				out = append(out, reuseType{name, func() interface{} { q, _ := pkg.payload(up, cid); return q },
					func(v interface{}, b []byte) error { return v.(appPayload).UnmarshalBinary(b) }, alpha})
			}
		}
	}
	cmdLists := func(name string, fresh func() interface{}, dec func(v interface{}, up bool, b []byte) error, upA, downA [][]byte) {
		out = append(out, reuseType{name + ".Commands(uplink)", fresh, func(v interface{}, b []byte) error { return dec(v, true, b) }, upA})
		out = append(out, reuseType{name + ".Commands(downlink)", fresh, func(v interface{}, b []byte) error { return dec(v, false, b) }, downA})
	}
	cmdLists("clocksync", func() interface{} { return &clocksync.Commands{} }, func(v interface{}, up bool, b []byte) error { return v.(*clocksync.Commands).UnmarshalBinary(up, b) },
		[][]byte{{0x00, 1, 2}, {0x01, 1, 2, 3, 4, 0x15}, {0x00, 1, 2, 0x00, 3, 4}, nil, {0x01}}, [][]byte{{0x00}, {0x02, 0x05}, {0x03, 0x01, 0x00}, nil, {0x01, 1}})
	cmdLists("multicastsetup", func() interface{} { return &multicastsetup.Commands{} }, func(v interface{}, up bool, b []byte) error {
		return v.(*multicastsetup.Commands).UnmarshalBinary(up, b)
	}, [][]byte{{0x00, 1, 2}, {0x02, 0x05}, {0x01, 0x11, 0x00, 4, 3, 2, 1}, nil, {0x01, 0x1F}}, [][]byte{{0x00}, {0x01, 0x03}, {0x03, 0x02, 0x00}, nil, {0x02, 1}})
	cmdLists("fragmentation", func() interface{} { return &fragmentation.Commands{} }, func(v interface{}, up bool, b []byte) error {
		return v.(*fragmentation.Commands).UnmarshalBinary(up, b)
	}, [][]byte{{0x00, 1, 2}, {0x02, 0x45}, {0x03, 0x05, 0x00, 3, 4}, nil, {0x01, 1}}, [][]byte{{0x00}, {0x01, 0x03}, {0x08, 0x01, 0x40, 9, 9, 9}, nil, {0x02, 1}})
	cmdLists("firmwaremanagement", func() interface{} { return &firmwaremanagement.Commands{} }, func(v interface{}, up bool, b []byte) error {
		return v.(*firmwaremanagement.Commands).UnmarshalBinary(up, b)
	}, [][]byte{{0x00, 1, 2}, {0x05, 0x03}, {0x04, 0x01, 0x00, 3, 4}, nil, {0x01, 1}}, [][]byte{{0x00}, {0x02, 1, 2, 3, 4}, {0x04, 0x00}, nil, {0x02, 1}})
	return out
}

func runC10(r *engine.Run) {
	r.Rule = "E1 + E2 (+ E3 for schedules, reported by the C10 schedule explorer into the same evidence). (a) aliasing: frames of every kind decoded from a sub-slice with spare capacity inside a guarded arena; the arena is overwritten afterwards and the frame's deep print must not change, also after Decode*ToMACCommands / Decrypt*; encoded output overwritten must not change the frame or a second encoding. (b0) payload lists with spare capacity: FOpts = queue[:n] (n 0..2, spare 0..3) and FRMPayload = items[:m] (m 0..2, spare 0..2) x direction x seven encode / MIC / encrypt operations; the elements behind the part handed over must stay the caller's. (b) out-of-slice writes: EncryptFRMPayload / EncryptFOpts for every length 0..64 x spare capacity {0,1,15,16,40} x 2 placements, guard bytes before and after the slice must be intact; Validate*/Marshal* leave the frame's deep print unchanged. (c) reuse histories: for every decodable type (29 MAC payloads, ChMask, CFList and both payload kinds, join/rejoin payloads, MACCommand, FHDR, MACPayload, PHYPayload, 35 application-layer payloads, the four Commands lists x direction) every sequence of <= 3 decodes over a 5-6 string alphabet, plain and with the caller setting every exported scalar field of the value between the decodes; whenever the last decode succeeds the value must equal a fresh value decoded from the last string alone. (d) band instances: for every band name x repeater x dwell, explicit-state BFS over the mutators of instance A (C15 alphabet, depth 3) with the hook snapshot of an untouched instance B compared with a fresh instance in every state."
	frameHistory(r, 2)
	cryptoHistory(r)
	macCommandReuse(r)
	bandInstanceHistory(r)
	r.Assume("deep print = all exported and unexported fields, slices by content, pointers by pointee; two values with the same deep print are indistinguishable to every method")

	// ---- (a) aliasing
	type aframe struct {
		name string
		wire []byte
	}
	var frames []aframe
	{
		f := spec.DataFrame{MType: 2, DevAddr: 0x01020304, FCnt: 7, ADR: true}
		fo := spec.Compose(true, 6, 1)
		f.FOpts = spec.CmdBytes(fo)
		f.HasPort, f.FPort, f.FRM = true, 10, fillBytes(20, 0x33)
		frames = append(frames, aframe{"data-up/fopts+payload", append(f.Msg(), 1, 2, 3, 4)})
		g := spec.DataFrame{MType: 3, DevAddr: 0x01020304, FCnt: 7}
		g.HasPort, g.FPort = true, 0
		g.FRM = spec.XOR(spec.CmdBytes(spec.Compose(false, 9, 2)), spec.Keystream(c05KeyA, false, 0x01020304, 7, 9))
		frames = append(frames, aframe{"data-down/port0-encrypted-commands", append(g.Msg(), 1, 2, 3, 4)})
		h := spec.DataFrame{MType: 4, DevAddr: 0x01020304, FCnt: 7}
		h.FOpts = spec.XOR(spec.CmdBytes(spec.Compose(true, 5, 0)), spec.FOptsKeystream(c05KeyE, false, true, 0x01020304, 7))
		frames = append(frames, aframe{"data-up/encrypted-fopts-only", append(h.Msg(), 1, 2, 3, 4)})
		frames = append(frames, aframe{"join-request", append(append([]byte{0x00}, fillBytes(18, 5)...), 1, 2, 3, 4)})
		frames = append(frames, aframe{"join-accept", append(append([]byte{0x20}, fillBytes(28, 6)...), 1, 2, 3, 4)})
		frames = append(frames, aframe{"rejoin-1", append(append([]byte{0xC0, 0x01}, fillBytes(18, 7)...), 1, 2, 3, 4)})
		frames = append(frames, aframe{"proprietary", append(append([]byte{0xE0}, fillBytes(11, 8)...), 1, 2, 3, 4)})
	}
	r.PartDims("aliasing/decode", []string{fmt.Sprintf("frame:%d", len(frames)), "arena placement:3", "follow-up:{none, decode commands, decrypt}"}, uint64(len(frames)*3*3), func(c *engine.Case) {
		fr := frames[c.Index%uint64(len(frames))]
		layout := int(c.Index/uint64(len(frames))) % 3
		follow := int(c.Index / uint64(len(frames)*3))
		in, arena, _ := guarded(fr.wire, layout)
		var p lorawan.PHYPayload
		if err := p.UnmarshalBinary(in); err != nil {
			c.Fail("harness/frame-refused", fmt.Sprintf("%s: %v", fr.name, err), nil)
			return
		}
		c.NonTrivial()
		step := "UnmarshalBinary"
		switch follow {
		case 1:
			p.DecodeFOptsToMACCommands()
			p.DecodeFRMPayloadToMACCommands()
			step = "UnmarshalBinary+Decode*ToMACCommands"
		case 2:
			if _, ok := p.MACPayload.(*lorawan.MACPayload); ok {
				p.DecryptFOpts(keyOf(c05KeyE))
				p.DecryptFRMPayload(keyOf(c05KeyA))
			} else if p.MHDR.MType == lorawan.JoinAccept {
				p.DecryptJoinAcceptPayload(keyOf(c05KeyA))
			}
			step = "UnmarshalBinary+Decrypt*"
		}
		before := deepPrint(p)
		for i := range arena {
			arena[i] ^= 0xFF
		}
		if after := deepPrint(p); after != before {
			c.Fail("aliasing/decoded-frame-shares-memory-with-input/"+fr.name, fmt.Sprintf("%s after %s: overwriting the buffer the frame was decoded from changed the frame: %s -> %s", fr.name, step, before, after), nil)
		}
		// encode side
		out, err := p.MarshalBinary()
		if err == nil {
			snap := deepPrint(p)
			for i := range out {
				out[i] ^= 0xFF
			}
			if deepPrint(p) != snap {
				c.Fail("aliasing/encoded-output-shares-memory-with-frame/"+fr.name, fmt.Sprintf("%s: overwriting the encoded bytes changed the frame", fr.name), nil)
			}
		}
		c.Outcome("aliasing/" + step)
	})

	// ---- (b0) payload lists with spare capacity: FOpts / FRMPayload given as the front part of a longer
	// list the caller keeps (a queue of pending commands, cut with queue[:n]): encoding, MIC and
	// encryption calls read the frame; the elements of the queue behind the part handed over stay the
	// caller's
	spQ := (&engine.Space{}).Dim("fopts taken from the queue:0..2", 3).Dim("fopts spare:0..3", 4).Dim("frmpayload items:0..2", 3).Dim("frmpayload spare:0..2", 3).Dim("direction", 2).Dim("operation{MarshalBinary, MarshalText, MACPayload.MarshalBinary, SetMIC, ValidateMIC, EncryptFRMPayload, EncryptFOpts}", 7)
	// the text form is a caller's buffer too (encoding/json hands UnmarshalText a window into the document):
	// decoding leaves it as it is, also when it carries the line breaks base64 tolerates
	r.PartDims("source-text/UnmarshalText", []string{fmt.Sprintf("frame:%d", len(frames)), "text{as encoded, CR LF after 8 characters, LF at the end}"}, uint64(len(frames)*3), func(c *engine.Case) {
		fr := frames[c.Index%uint64(len(frames))]
		var p lorawan.PHYPayload
		if err := p.UnmarshalBinary(append([]byte(nil), fr.wire...)); err != nil {
			return
		}
		text, err := p.MarshalText()
		if err != nil {
			return
		}
		switch c.Index / uint64(len(frames)) {
		case 1:
			if len(text) > 8 {
				text = append(append(append([]byte(nil), text[:8]...), '\r', '\n'), text[8:]...)
			}
		case 2:
			text = append(append([]byte(nil), text...), '\n')
		}
		arena := make([]byte, 8+len(text)+8)
		for i := range arena {
			arena[i] = 0xC3
		}
		copy(arena[8:], text)
		before := append([]byte(nil), arena...)
		var q lorawan.PHYPayload
		err1 := q.UnmarshalText(arena[8 : 8+len(text) : 8+len(text)+8])
		c.NonTrivial()
		if !bytes.Equal(arena, before) {
			c.Fail("source-text/modified", fmt.Sprintf("UnmarshalText (err %v) of %q left the caller's buffer as %q", err1, before[8:8+len(text)], arena[8:8+len(text)]), nil)
			return
		}
		var q2 lorawan.PHYPayload
		if err2 := q2.UnmarshalText(arena[8 : 8+len(text)]); (err1 == nil) != (err2 == nil) || err1 == nil && deepPrint(q) != deepPrint(q2) {
			c.Fail("source-text/second-decode-differs", fmt.Sprintf("%q decoded twice: err %v then %v", text, err1, err2), nil)
		}
	})
	r.PartDims("payload-list-spare-capacity", spQ.Desc(), spQ.N(), func(c *engine.Case) {
		var ch [6]int
		spQ.Decode(c.Index, ch[:])
		uplink := ch[4] == 1
		mkCmd := func(i int) lorawan.Payload {
			if uplink {
				return &lorawan.MACCommand{CID: lorawan.LinkADRAns, Payload: &lorawan.LinkADRAnsPayload{ChannelMaskACK: i%2 == 0, DataRateACK: true}}
			}
			return &lorawan.MACCommand{CID: lorawan.DutyCycleReq, Payload: &lorawan.DutyCycleReqPayload{MaxDCycle: uint8(i)}}
		}
		queue := make([]lorawan.Payload, ch[0]+ch[1])
		for i := range queue {
			queue[i] = mkCmd(i)
		}
		items := make([]lorawan.Payload, ch[2]+ch[3])
		for i := range items {
			items[i] = &lorawan.DataPayload{Bytes: []byte{byte(0x70 + i), 2, 3}}
		}
		keepQ := append([]lorawan.Payload(nil), queue...)
		keepI := append([]lorawan.Payload(nil), items...)
		mp := &lorawan.MACPayload{FHDR: lorawan.FHDR{DevAddr: lorawan.DevAddr{1, 2, 3, 4}, FCnt: 5, FOpts: queue[:ch[0]]}}
		if ch[2] > 0 {
			port := uint8(10)
			mp.FPort, mp.FRMPayload = &port, items[:ch[2]]
		}
		mt := lorawan.UnconfirmedDataDown
		if uplink {
			mt = lorawan.UnconfirmedDataUp
		}
		p := &lorawan.PHYPayload{MHDR: lorawan.MHDR{MType: mt, Major: lorawan.LoRaWANR1}, MACPayload: mp}
		k := keyOf(c02Keys[1])
		c.Eval()
		var opErr error
		name := []string{"MarshalBinary", "MarshalText", "MACPayload.MarshalBinary", "SetMIC", "ValidateMIC", "EncryptFRMPayload", "EncryptFOpts"}[ch[5]]
		if pn, site, v := engine.Try(func() {
			switch ch[5] {
			case 0:
				_, opErr = p.MarshalBinary()
			case 1:
				_, opErr = p.MarshalText()
			case 2:
				_, opErr = mp.MarshalBinary()
			case 3:
				if uplink {
					opErr = p.SetUplinkDataMIC(lorawan.LoRaWAN1_1, 0, 1, 2, k, k)
				} else {
					opErr = p.SetDownlinkDataMIC(lorawan.LoRaWAN1_1, 0, k)
				}
			case 4:
				if uplink {
					_, opErr = p.ValidateUplinkDataMIC(lorawan.LoRaWAN1_0, 0, 0, 0, k, k)
				} else {
					_, opErr = p.ValidateDownlinkDataMIC(lorawan.LoRaWAN1_0, 0, k)
				}
			case 5:
				opErr = p.EncryptFRMPayload(k)
			case 6:
				opErr = p.EncryptFOpts(k)
			}
		}); pn {
			c.Fail("panic/"+site, fmt.Sprintf("%s panics: %v", name, v), nil)
			return
		}
		c.NonTrivial()
		for i := ch[0]; i < len(queue); i++ {
			if queue[i] != keepQ[i] {
				c.Fail("payload-list/"+name+"/write-behind-fopts", fmt.Sprintf("%s (err %v) on a frame whose FOpts are queue[:%d] of a %d-element queue (FRMPayload of %d items): queue[%d] has been replaced by a %T", name, opErr, ch[0], len(queue), ch[2], i, queue[i]), nil)
				return
			}
		}
		for i := ch[2]; i < len(items); i++ {
			if items[i] != keepI[i] {
				c.Fail("payload-list/"+name+"/write-behind-frmpayload", fmt.Sprintf("%s (err %v) on a frame whose FRMPayload is items[:%d] of %d: items[%d] has been replaced by a %T", name, opErr, ch[2], len(items), i, items[i]), nil)
				return
			}
		}
	})

	// ---- (b) out-of-slice writes
	spares := []int{0, 1, 15, 16, 40}
	r.PartDims("out-of-slice/EncryptFRMPayload+EncryptFOpts", []string{"length:0..64", "spare capacity:5", "placement:{start of arena, middle of arena}"}, 65*5*2, func(c *engine.Case) {
		n := int(c.Index % 65)
		spare := spares[(c.Index/65)%5]
		front := 0
		if c.Index/(65*5) == 1 {
			front = 24
		}
		mkArena := func() ([]byte, []byte) {
			arena := make([]byte, front+n+spare)
			for i := range arena {
				arena[i] = 0xC3 ^ byte(i)
			}
			copy(arena[front:], fillBytes(n, 0x7A))
			return arena, arena[front : front+n : front+n+spare]
		}
		intact := func(arena []byte) (int, bool) {
			for i := range arena {
				if (i < front || i >= front+n) && arena[i] != 0xC3^byte(i) {
					return i - front, false
				}
			}
			return 0, true
		}
		c.NonTrivial()
		arena, data := mkArena()
		if _, err := lorawan.EncryptFRMPayload(keyOf(c05KeyA), true, devAddrOf(0x01020304), 1, data); err == nil {
			if off, ok := intact(arena); !ok {
				c.Fail("out-of-slice/EncryptFRMPayload", fmt.Sprintf("EncryptFRMPayload on a %d-byte slice with %d bytes of spare capacity wrote at offset %d relative to the slice start", n, spare, off), nil)
			}
		}
		if n <= 15 {
			arena, data = mkArena()
			if _, err := lorawan.EncryptFOpts(keyOf(c05KeyE), false, true, devAddrOf(0x01020304), 1, data); err == nil {
				if off, ok := intact(arena); !ok {
					c.Fail("out-of-slice/EncryptFOpts", fmt.Sprintf("EncryptFOpts on a %d-byte slice with %d spare wrote at offset %d", n, spare, off), nil)
				}
			}
		}
	})
	r.PartDims("inspect-only/Validate+Marshal", []string{fmt.Sprintf("frame:%d", len(frames)), "operation:7", "FOpts{decoded to commands first, as they came from the wire}"}, uint64(len(frames)*7*2), func(c *engine.Case) {
		fr := frames[c.Index%uint64(len(frames))]
		op := int(c.Index/uint64(len(frames))) % 7
		var p lorawan.PHYPayload
		if err := p.UnmarshalBinary(append([]byte(nil), fr.wire...)); err != nil {
			return
		}
		if c.Index/uint64(len(frames))/7 == 0 {
			p.DecodeFOptsToMACCommands()
		}
		before := deepPrint(p)
		k := keyOf(c05KeyF)
		name := ""
		switch op {
		case 0:
			p.ValidateUplinkDataMIC(lorawan.LoRaWAN1_1, 1, 2, 3, k, k)
			name = "ValidateUplinkDataMIC"
		case 1:
			p.ValidateDownlinkDataMIC(lorawan.LoRaWAN1_1, 1, k)
			name = "ValidateDownlinkDataMIC"
		case 2:
			p.ValidateUplinkDataMICF(k)
			name = "ValidateUplinkDataMICF"
		case 3:
			p.ValidateUplinkJoinMIC(k)
			name = "ValidateUplinkJoinMIC"
		case 4:
			p.MarshalBinary()
			p.MarshalText()
			name = "MarshalBinary/MarshalText"
		case 5:
			p.MarshalJSON()
			name = "MarshalJSON"
		case 6:
			// what a log line does: the fmt verbs, Stringer / GoStringer, encoding/json, by value and by pointer
			observe(p, &p)
			name = "formatting(fmt,String,json)"
		}
		c.NonTrivial()
		if after := deepPrint(p); after != before {
			c.Fail("inspect-only/"+name+"-modifies-frame", fmt.Sprintf("%s on %s changed the frame: %s -> %s", name, fr.name, before, after), nil)
		}
	})

	// guarded payload buffers: the frame's FOpts / FRMPayload bytes are sub-slices with
	// spare capacity inside guarded arenas; no operation may write outside them,
	// and none of the operations below may change the caller's buffers at all
	// (the Encrypt* methods work on their own copy and swap in a new payload)
	gOps := []string{"MarshalBinary", "MarshalText", "ValidateUplinkDataMIC", "ValidateUplinkDataMICF", "SetUplinkDataMIC", "EncryptFRMPayload", "DecryptFRMPayload", "EncryptFOpts", "MarshalJSON"}
	gLens := []int{0, 1, 15, 16, 17, 32, 33}
	spG := (&engine.Space{}).Dim("op", len(gOps)).Dim("frm first element length", len(gLens)).Dim("frm elements{1, 2, 3 with an empty one in the middle, 3 with an empty one first}", 4).Dim("fopts length{0,3,15}", 3).Dim("spare capacity{0,1,40}", 3).Dim("element kind{opaque bytes, proprietary MAC command (CID 0x80) around the bytes}", 2)
	r.PartDims("guarded-payload-buffers", spG.Desc(), spG.N(), func(c *engine.Case) {
		var ch [6]int
		spG.Decode(c.Index, ch[:])
		spare := []int{0, 1, 40}[ch[4]]
		asCommand := ch[5] == 1
		type buf struct {
			arena  []byte
			off, n int
		}
		var bufs []*buf
		mk := func(n int, seed byte) []byte {
			b := &buf{arena: make([]byte, 8+n+spare), off: 8, n: n}
			for i := range b.arena {
				b.arena[i] = 0xC3 ^ byte(i)
			}
			copy(b.arena[8:], fillBytes(n, seed))
			bufs = append(bufs, b)
			return b.arena[8 : 8+n : 8+n+spare]
		}
		port := uint8(7)
		mp := &lorawan.MACPayload{FHDR: lorawan.FHDR{DevAddr: lorawan.DevAddr{1, 2, 3, 4}, FCnt: 5}, FPort: &port}
		if n := []int{0, 3, 15}[ch[3]]; n > 0 {
			mp.FHDR.FOpts = []lorawan.Payload{&lorawan.DataPayload{Bytes: mk(n, 0x21)}}
			if asCommand {
				mp.FHDR.FOpts = []lorawan.Payload{&lorawan.MACCommand{CID: 0x80, Payload: &lorawan.ProprietaryMACCommandPayload{Bytes: mk(n-1, 0x21)}}}
			}
		}
		if n := gLens[ch[1]]; n > 0 || ch[2] == 1 {
			mp.FRMPayload = []lorawan.Payload{&lorawan.DataPayload{Bytes: mk(n, 0x42)}}
			switch ch[2] {
			case 1:
				mp.FRMPayload = append(mp.FRMPayload, &lorawan.DataPayload{Bytes: mk(5, 0x63)})
			case 2:
				mp.FRMPayload = append(mp.FRMPayload, &lorawan.DataPayload{}, &lorawan.DataPayload{Bytes: mk(5, 0x63)})
			case 3:
				mp.FRMPayload = append([]lorawan.Payload{&lorawan.DataPayload{}}, append(mp.FRMPayload, &lorawan.DataPayload{Bytes: mk(5, 0x63)})...)
			}
		}
		if asCommand && len(mp.FHDR.FOpts) == 0 {
			// without FOpts the commands travel as the port-0 payload
			port = 0
			for i, el := range mp.FRMPayload {
				mp.FRMPayload[i] = &lorawan.MACCommand{CID: 0x80, Payload: &lorawan.ProprietaryMACCommandPayload{Bytes: el.(*lorawan.DataPayload).Bytes}}
			}
		}
		p := lorawan.PHYPayload{MHDR: lorawan.MHDR{MType: lorawan.ConfirmedDataUp}, MACPayload: mp}
		// the operations that only inspect the frame leave the caller's payload lists as they are:
		// the same elements at the same positions (the list's backing array is the caller's too)
		listBefore, printBefore := append([]lorawan.Payload(nil), mp.FRMPayload...), deepPrint(p)
		var snaps [][]byte
		for _, b := range bufs {
			snaps = append(snaps, append([]byte(nil), b.arena...))
		}
		k := keyOf(c05KeyA)
		op := gOps[ch[0]]
		switch op {
		case "MarshalBinary":
			p.MarshalBinary()
		case "MarshalText":
			p.MarshalText()
		case "ValidateUplinkDataMIC":
			p.ValidateUplinkDataMIC(lorawan.LoRaWAN1_1, 1, 2, 3, k, k)
		case "ValidateUplinkDataMICF":
			p.ValidateUplinkDataMICF(k)
		case "SetUplinkDataMIC":
			p.SetUplinkDataMIC(lorawan.LoRaWAN1_1, 1, 2, 3, k, k)
		case "EncryptFRMPayload":
			p.EncryptFRMPayload(k)
		case "DecryptFRMPayload":
			p.DecryptFRMPayload(k)
		case "EncryptFOpts":
			p.EncryptFOpts(k)
		case "MarshalJSON":
			p.MarshalJSON()
		}
		c.NonTrivial()
		switch op {
		case "MarshalBinary", "MarshalText", "ValidateUplinkDataMIC", "ValidateUplinkDataMICF", "MarshalJSON":
			same := len(mp.FRMPayload) == len(listBefore)
			for i := 0; same && i < len(listBefore); i++ {
				same = mp.FRMPayload[i] == listBefore[i]
			}
			if after := deepPrint(p); !same || after != printBefore {
				c.Fail("guarded-buffers/"+op+"/frame-modified", fmt.Sprintf("%s changed the frame it only inspects (FRMPayload list of %d elements): %s -> %s", op, len(listBefore), printBefore, after), nil)
			}
		}
		for i, b := range bufs {
			for q := range b.arena {
				if b.arena[q] != snaps[i][q] {
					where := "inside the caller's slice"
					key := "guarded-buffers/" + op + "/caller-buffer-modified"
					if q < b.off || q >= b.off+b.n {
						where = fmt.Sprintf("outside the slice (offset %d relative to its start, length %d)", q-b.off, b.n)
						key = "guarded-buffers/" + op + "/write-outside-slice"
					}
					c.Fail(key, fmt.Sprintf("%s on a frame whose payload element %d is a %d-byte sub-slice with %d bytes of spare capacity wrote %s", op, i, b.n, spare, where), nil)
					break
				}
			}
		}
	})

	// join-accept (encrypted form) and proprietary frames built around a caller's sub-slice
	jOps := []string{"DecryptJoinAcceptPayload", "MarshalBinary", "MarshalText", "MarshalJSON", "ValidateDownlinkJoinMIC", "SetDownlinkJoinMIC", "ValidateUplinkJoinMIC"}
	jLens := []int{0, 5, 12, 16, 28}
	jSpare := []int{0, 1, 3, 4, 40}
	spJ := (&engine.Space{}).Dim("op", len(jOps)).Dim("MType{join-accept,proprietary}", 2).Dim("payload length", len(jLens)).Dim("spare capacity", len(jSpare))
	r.PartDims("guarded-join-buffers", spJ.Desc(), spJ.N(), func(c *engine.Case) {
		var ch [4]int
		spJ.Decode(c.Index, ch[:])
		n, spare := jLens[ch[2]], jSpare[ch[3]]
		arena := make([]byte, 8+n+spare+8)
		for i := range arena {
			arena[i] = 0x3C ^ byte(i)
		}
		copy(arena[8:], fillBytes(n, 0x51))
		before := append([]byte(nil), arena...)
		mt := lorawan.JoinAccept
		if ch[1] == 1 {
			mt = lorawan.Proprietary
		}
		p := lorawan.PHYPayload{MHDR: lorawan.MHDR{MType: mt}, MIC: lorawan.MIC{9, 8, 7, 6}, MACPayload: &lorawan.DataPayload{Bytes: arena[8 : 8+n : 8+n+spare]}}
		k := keyOf(c05KeyA)
		op := jOps[ch[0]]
		switch op {
		case "DecryptJoinAcceptPayload":
			p.DecryptJoinAcceptPayload(k)
		case "MarshalBinary":
			p.MarshalBinary()
		case "MarshalText":
			p.MarshalText()
		case "MarshalJSON":
			p.MarshalJSON()
		case "ValidateDownlinkJoinMIC":
			p.ValidateDownlinkJoinMIC(lorawan.JoinRequestType, lorawan.EUI64{1}, 2, k)
		case "SetDownlinkJoinMIC":
			p.SetDownlinkJoinMIC(lorawan.JoinRequestType, lorawan.EUI64{1}, 2, k)
		case "ValidateUplinkJoinMIC":
			p.ValidateUplinkJoinMIC(k)
		}
		c.NonTrivial()
		for q := range arena {
			if arena[q] != before[q] {
				key := "guarded-buffers/" + op + "/caller-buffer-modified"
				where := "inside the caller's slice"
				if q < 8 || q >= 8+n {
					key = "guarded-buffers/" + op + "/write-outside-slice"
					where = fmt.Sprintf("outside the slice (offset %d relative to its start, length %d)", q-8, n)
				}
				c.Fail(key, fmt.Sprintf("%s on a %v frame whose payload is a %d-byte sub-slice with %d bytes of spare capacity wrote %s", op, mt, n, spare, where), nil)
				break
			}
		}
	})

	// a join-accept value whose CFList carries opaque bytes held as a caller's sub-slice
	cfOps := []string{"MarshalBinary", "MarshalText", "SetDownlinkJoinMIC", "ValidateDownlinkJoinMIC", "EncryptJoinAcceptPayload", "CFList.MarshalBinary", "JoinAcceptPayload.MarshalBinary"}
	spCF := (&engine.Space{}).Dim("op", len(cfOps)).Dim("cflist payload length:0..16", 17).Dim("spare capacity{0,1,4,16,40}", 5)
	r.PartDims("guarded-cflist-buffers", spCF.Desc(), spCF.N(), func(c *engine.Case) {
		var ch [3]int
		spCF.Decode(c.Index, ch[:])
		n, spare := ch[1], []int{0, 1, 4, 16, 40}[ch[2]]
		arena := make([]byte, 8+n+spare+8)
		for i := range arena {
			arena[i] = 0x5C ^ byte(i)
		}
		before := append([]byte(nil), arena...)
		ja := &lorawan.JoinAcceptPayload{JoinNonce: 1, RXDelay: 1, CFList: &lorawan.CFList{CFListType: lorawan.CFListChannel, Payload: &lorawan.DataPayload{Bytes: arena[8 : 8+n : 8+n+spare]}}}
		p := lorawan.PHYPayload{MHDR: lorawan.MHDR{MType: lorawan.JoinAccept}, MACPayload: ja}
		k := keyOf(c05KeyA)
		op := cfOps[ch[0]]
		if pn, site, v := engine.Try(func() {
			switch op {
			case "MarshalBinary":
				p.MarshalBinary()
			case "MarshalText":
				p.MarshalText()
			case "SetDownlinkJoinMIC":
				p.SetDownlinkJoinMIC(lorawan.JoinRequestType, lorawan.EUI64{1}, 2, k)
			case "ValidateDownlinkJoinMIC":
				p.ValidateDownlinkJoinMIC(lorawan.JoinRequestType, lorawan.EUI64{1}, 2, k)
			case "EncryptJoinAcceptPayload":
				p.EncryptJoinAcceptPayload(k)
			case "CFList.MarshalBinary":
				ja.CFList.MarshalBinary()
			case "JoinAcceptPayload.MarshalBinary":
				ja.MarshalBinary()
			}
		}); pn {
			c.Fail("panic/"+site, fmt.Sprintf("%s on a join-accept with a %d-byte opaque CFList payload panics: %v", op, n, v), nil)
			return
		}
		c.NonTrivial()
		for q := range arena {
			if arena[q] != before[q] {
				key := "guarded-buffers/" + op + "/caller-buffer-modified"
				where := "inside the caller's slice"
				if q < 8 || q >= 8+n {
					key = "guarded-buffers/" + op + "/write-outside-slice"
					where = fmt.Sprintf("outside the slice (offset %d relative to its start, length %d)", q-8, n)
				}
				c.Fail(key, fmt.Sprintf("%s on a join-accept whose CFList payload is a %d-byte sub-slice with %d bytes of spare capacity wrote %s", op, n, spare, where), nil)
				break
			}
		}
	})

	// ---- (c) reuse histories
	types := c10ReuseTypes()
	r.Extra("reuse_types", len(types))
	for _, t := range types {
		t := t
		na := uint64(len(t.alphabet))
		total := na + na*na + na*na*na
		r.PartDims("reuse/"+t.name, []string{fmt.Sprintf("alphabet:%d byte strings", na), "history length:1..3", "between the decodes{nothing, the caller sets every exported scalar field (all-ones / -1 / true)}"}, 2*total, func(c *engine.Case) {
			edited := c.Index >= total
			i := c.Index % total
			l := 1
			for n := na; i >= n; n *= na {
				i -= n
				l++
			}
			v := t.fresh()
			var last []byte
			var lastErr error
			var hist [][]byte
			for k := 0; k < l; k++ {
				last = t.alphabet[i%na]
				i /= na
				hist = append(hist, last)
				if edited {
					// a used value is any value: what the caller wrote into it (the full 32-bit counter
					// after a 16-bit one was decoded, say) is gone after the next decode
					scribbleScalars(reflect.ValueOf(v), 0)
				}
				in := append([]byte(nil), last...)
				lastErr = t.decode(v, in)
				// the input may be overwritten after the call without affecting the value
				for q := range in {
					in[q] ^= 0xA5
				}
			}
			f := t.fresh()
			freshErr := t.decode(f, append([]byte(nil), last...))
			if (lastErr == nil) != (freshErr == nil) {
				var hs []string
				for _, h := range hist {
					hs = append(hs, fmt.Sprintf("%x", h))
				}
				c.Fail("reuse/"+t.name+"/acceptance-depends-on-history", fmt.Sprintf("%s: after decoding %v into one value the last decode answers err=%v; a fresh value decoding %x alone answers err=%v", t.name, hs, lastErr, last, freshErr), nil)
				return
			}
			if lastErr != nil {
				c.Outcome("reuse/last-decode-failed")
				return
			}
			c.NonTrivial()
			if got, want := deepPrint(v), deepPrint(f); got != want {
				var hs []string
				for _, h := range hist {
					hs = append(hs, fmt.Sprintf("%x", h))
				}
				key := "reuse/" + t.name
				if edited {
					key += "/after-caller-edits"
				}
				c.Fail(key, fmt.Sprintf("%s: after decoding %v into one value (caller edits in between: %v) it is %s; a fresh value decoded from %x alone is %s", t.name, hs, edited, got, last, want), nil)
			}
			c.Outcome("reuse/compared")
		})
	}

	// ---- (c') copies of decoded values kept while their variable receives the next input
	keptCopyParts(r, "kept-copy", types)

	// ---- (d) band instances
	cfgs := allBandCfgs(false)
	for _, cfg := range cfgs {
		cfg := cfg
		type pair struct{ a, b band.Band }
		init := snapOf(newBand(cfg))
		env := &c15Env{cfg: cfg, init: init}
		if init.SupportsExtraChannels {
			for w := 0; w < 4; w++ {
				env.ops = append(env.ops, c15Op{name: fmt.Sprintf("Add#%d", w), kind: "add", which: w})
			}
			for w := 0; w < 6; w++ {
				env.ops = append(env.ops, c15Op{name: "Disable", kind: "disable", which: w}, c15Op{name: "Enable", kind: "enable", which: w})
			}
		} else {
			env.fixedIdx = []int{0, 8, 63, 64, 71}
			for w := range env.fixedIdx {
				env.ops = append(env.ops, c15Op{name: "Disable", kind: "disable", which: w}, c15Op{name: "Enable", kind: "enable", which: w})
			}
		}
		var xops []engine.XOp
		for i := range env.ops {
			i := i
			xops = append(xops, engine.XOp{Name: env.ops[i].name, Do: func(obj interface{}) string { return env.do(obj.(*pair).a, i) }})
		}
		fresh := deepPrint(snapOf(newBand(cfg)))
		x := engine.XSpec{
			Name:  "band-instances/" + cfg.String(),
			New:   func() interface{} { return &pair{newBand(cfg), newBand(cfg)} },
			Ops:   xops,
			Snap:  func(obj interface{}) string { return chanSnap(snapOf(obj.(*pair).a)) },
			Warm:  func(obj interface{}) { bandWarm(obj.(*pair).a); bandWarm(obj.(*pair).b) },
			Depth: 3,
			Check: func(c *engine.Case, obj interface{}, path []int, last string) {
				c.NonTrivial()
				if got := deepPrint(snapOf(obj.(*pair).b)); got != fresh {
					c.Fail("band-instances/"+regionOf(cfg.name).Name, fmt.Sprintf("%v: after %v on instance A, instance B's tables changed", cfg, env.pathNames(path)), nil)
				}
				// and a third instance obtained now is pristine
				if got := deepPrint(snapOf(newBand(cfg))); got != fresh {
					c.Fail("band-instances/"+regionOf(cfg.name).Name+"/new-instance", fmt.Sprintf("%v: after %v on instance A, a newly configured instance differs from the first one", cfg, env.pathNames(path)), nil)
				}
				c.Outcome("band-instances/compared")
			},
		}
		r.Explore(x)
	}

	// ---- (e) schedules: merged from the schedule explorer's summary
	mergeSchedSummary(r, "C10")

	if !r.Replay {
		r.Guard(r.OutcomeCount("reuse/compared") > 1000 && r.OutcomeCount("band-instances/compared") > 1000, "reuse histories and band-instance transitions compared")
		r.Guard(len(types) >= 80, "at least 80 decodable types in the reuse histories (%d)", len(types))
		r.Sample0(map[string]interface{}{"part": "reuse/lorawan.LinkADRAnsPayload", "history": []string{"07", "00"}, "obligation": "value after the history == fresh value decoded from 00"})
	}
	_ = bytes.Equal
}

package props

import (
	"fmt"
	"time"

	"github.com/brocaar/lorawan"
	"github.com/brocaar/lorawan/band"

	"verifmc/engine"
)

func init() { register("C12", "exploration", runC12) }

func runC12(r *engine.Run) {
	r.Rule = "E1 over a finite space, enumerated completely in both tiers: 24 band names (14 + 10 deprecated aliases) x repeater x dwell-time; per configuration every uplink channel index (and -1, n, n+1), every (uplink DR, RX1 offset) in [-2..16] x [-2..9], and DevAddr(16) x beaconTime(36: period boundaries -1 ns / 0 / +1 ns at beacon periods of every magnitude) for the ping-slot rule; for bands with dynamic channels the channel part is repeated after adding custom channels and disabling one. Oracle: the snapshot hook gives exact definedness and direction flags of data-rates; the region's rules (RX1 channel rule, RX1 data-rate formula, fixed ping-slot frequency or hopping rule) come from mc/spec/region.go. Non-trivial: a call that returned a value which was compared with the region's rule; distinct by construction."
	r.Rule += " E3 (schedules): one configured band object, new in every execution, read by two or three threads at once (RX1 frequency / channel / data-rate and ping-slot lookups; a network server answers many devices from one band configuration): every interleaving of the instrumented accesses (preemption-bounded and unbounded with state-key pruning); every thread gets the answers it gets alone."
	mergeSchedSummary(r, "C12")
	bandConstructionStability(r)
	bandGetterHistory(r)
	r.Assume("DevAddr and beacon time use 16 x 36 value alphabets (all residues mod 8 of both, the 128 s period boundary one nanosecond before / at / after it for ten period numbers from 2^10 to 7.2e7, 2^31 s); everything else is finite and enumerated completely")
	r.Assume("where the Regional Parameters define no closed formula (LR-FHSS rows, KR920/IN865 offsets 6-7) only the structural rules are judged: result defined for downlink, monotone over the positive offsets, at most one defined downlink data-rate per step")

	cfgs := allBandCfgs(true)
	devAddrs := []uint32{0, 1, 2, 3, 4, 5, 6, 7, 8, 0x0F, 0xFFFFFFFF, 0xFFFFFFF8, 0x01020304, 0x7FFFFFFF, 0x80000000, 0xAAAAAAAA}
	beacons := []time.Duration{0, 128*time.Second - 1, 128 * time.Second, 7 * 128 * time.Second, 8 * 128 * time.Second, (1 << 31) * time.Second}
	// the 128 s period boundary one nanosecond before / at / after it, at beacon periods of every
	// magnitude (2^k and 10^k periods, today's GPS time, the end of the Duration range)
	for _, k := range []int64{1 << 10, 1 << 17, 1<<17 + 1, 1 << 20, 1 << 24, 1<<24 + 5, 10000000, 10937500, 1 << 26, 72057594} {
		for _, off := range []time.Duration{-1, 0, 1} {
			beacons = append(beacons, time.Duration(k)*128*time.Second+off)
		}
	}

	r.PartDims("rx1-datarate", []string{fmt.Sprintf("config:%d", len(cfgs)), "uplinkDR:-2..16", "offset:-2..9"}, uint64(len(cfgs)), func(c *engine.Case) {
		cfg := cfgs[c.Index]
		b := newBand(cfg)
		s := snapOf(b)
		reg := regionOf(cfg.name)
		dwell := cfg.dt == lorawan.DwellTime400ms
		for dr := -2; dr <= 16; dr++ {
			prev := -1
			for off := -2; off <= 9; off++ {
				c.Eval()
				var got int
				var err error
				if pn, site, val := engine.Try(func() { got, err = b.GetRX1DataRateIndex(dr, off) }); pn {
					arg := "offset<0"
					if off >= 0 {
						arg = "other"
					}
					c.Fail(fmt.Sprintf("panic/%s/%s", site, arg), fmt.Sprintf("%v: GetRX1DataRateIndex(%d,%d) panics: %v", cfg, dr, off, val), nil)
					continue
				}
				_, defined := s.DataRates[dr]
				if err != nil {
					c.Outcome("rx1dr/error")
					if want, ok := reg.RX1DataRate(dr, off, dwell); ok && defined {
						c.Fail(fmt.Sprintf("rx1dr/%s/valid-pair-refused", reg.Name), fmt.Sprintf("%v: GetRX1DataRateIndex(%d,%d) refused (%v); the region defines %d", cfg, dr, off, err, want), nil)
					}
					continue
				}
				c.NonTrivial()
				c.Outcome("rx1dr/value")
				cell := fmt.Sprintf("rx1dr/%s/dr%d/off%d", reg.Name, dr, off)
				if dr < 0 || off < 0 || !defined {
					c.Fail(cell+"/invalid-accepted", fmt.Sprintf("%v: GetRX1DataRateIndex(%d,%d) = %d, but %s", cfg, dr, off, got, map[bool]string{true: "a negative argument is invalid", false: fmt.Sprintf("DR%d is not a defined data-rate of the band", dr)}[dr < 0 || off < 0]), nil)
					continue
				}
				d, ok := s.DataRates[got]
				if !ok || !d.Downlink {
					c.Fail(cell+"/not-a-downlink-dr", fmt.Sprintf("%v: GetRX1DataRateIndex(%d,%d) = %d which is not a data-rate defined for downlink in this band", cfg, dr, off, got), nil)
					continue
				}
				if want, ok := reg.RX1DataRate(dr, off, dwell); ok && got != want {
					c.Fail(cell+"/formula", fmt.Sprintf("%v: GetRX1DataRateIndex(%d,%d) = %d, the region's rule gives %d", cfg, dr, off, got, want), nil)
				}
				// monotone over the positive offsets, at most one defined downlink DR per step
				if off >= 1 && off <= reg.MaxPosOffset && prev >= 0 {
					if got > prev {
						c.Fail(cell+"/increases-with-offset", fmt.Sprintf("%v: DR%d offset %d -> %d, offset %d -> %d", cfg, dr, off-1, prev, off, got), nil)
					} else if got < prev {
						// the next lower defined downlink DR below prev
						next := -1
						for k := prev - 1; k >= 0; k-- {
							if dd, ok := s.DataRates[k]; ok && dd.Downlink {
								next = k
								break
							}
						}
						if got != next {
							c.Fail(cell+"/skips-a-datarate", fmt.Sprintf("%v: DR%d offset %d -> %d, offset %d -> %d (next lower downlink data-rate is %d)", cfg, dr, off-1, prev, off, got, next), nil)
						}
					}
				}
				if off >= 0 && off <= reg.MaxPosOffset {
					prev = got
				}
			}
		}
		// RX2 default data-rate exists for downlink
		def := b.GetDefaults()
		if d, ok := s.DataRates[def.RX2DataRate]; !ok || !d.Downlink {
			c.Fail(fmt.Sprintf("rx2/%s/default-dr-not-downlink", reg.Name), fmt.Sprintf("%v: RX2 default DR%d is not defined for downlink", cfg, def.RX2DataRate), nil)
		}
		if c.WantSample() {
			c.Sample(func() interface{} {
				row := map[string]interface{}{}
				for off := 0; off <= reg.MaxPosOffset; off++ {
					v, _ := b.GetRX1DataRateIndex(2, off)
					row[fmt.Sprintf("off%d", off)] = v
				}
				return map[string]interface{}{"part": "rx1-datarate", "config": cfg.String(), "uplinkDR": 2, "rx1": row}
			})
		}
	})

	checkChannels := func(c *engine.Case, cfg bandCfg, b band.Band, when string) {
		s := snapOf(b)
		reg := regionOf(cfg.name)
		n := len(s.UplinkChannels)
		for i := -1; i <= n+1; i++ {
			c.Eval()
			var j int
			var err error
			if pn, site, val := engine.Try(func() { j, err = b.GetRX1ChannelIndexForUplinkChannelIndex(i) }); pn {
				c.Fail(fmt.Sprintf("panic/%s", site), fmt.Sprintf("%v: GetRX1ChannelIndexForUplinkChannelIndex(%d) panics: %v", cfg, i, val), nil)
				continue
			}
			if i < 0 || i >= n {
				c.Outcome("rx1ch/invalid-index(no panic)")
				continue
			}
			if err != nil {
				c.Fail(fmt.Sprintf("rx1ch/%s/refused", reg.Name), fmt.Sprintf("%v %s: RX1 channel for uplink channel %d refused: %v", cfg, when, i, err), nil)
				continue
			}
			c.NonTrivial()
			want := i
			if reg.RX1ChannelMod > 0 {
				want = i % reg.RX1ChannelMod
			}
			if j != want {
				c.Fail(fmt.Sprintf("rx1ch/%s/rule", reg.Name), fmt.Sprintf("%v %s: RX1 channel for uplink channel %d is %d, the region's rule gives %d", cfg, when, i, j, want), nil)
				continue
			}
			dc, err := b.GetDownlinkChannel(j)
			if err != nil || j >= len(s.DownlinkChannels) {
				c.Fail(fmt.Sprintf("rx1ch/%s/no-such-downlink-channel", reg.Name), fmt.Sprintf("%v %s: RX1 channel %d for uplink channel %d does not exist (%v)", cfg, when, j, i, err), nil)
				continue
			}
			up := s.UplinkChannels[i]
			// the frequency-based lookup denotes the same channel (first channel
			// with this frequency when the frequency occurs more than once)
			first := i
			for k := 0; k < i; k++ {
				if s.UplinkChannels[k].Frequency == up.Frequency {
					first = k
					break
				}
			}
			if first != i {
				c.Outcome("rx1ch/duplicate-frequency(skipped)")
				continue
			}
			f, err := b.GetRX1FrequencyForUplinkFrequency(up.Frequency)
			if err != nil {
				if up.Custom && reg.RX1ChannelMod > 0 {
					continue
				}
				c.Fail(fmt.Sprintf("rx1freq/%s/refused", reg.Name), fmt.Sprintf("%v %s: RX1 frequency for uplink frequency %d (channel %d) refused: %v", cfg, when, up.Frequency, i, err), nil)
				continue
			}
			if f != dc.Frequency {
				c.Fail(fmt.Sprintf("rx1freq/%s/differs-from-channel-rule", reg.Name), fmt.Sprintf("%v %s: uplink channel %d (%d Hz): RX1 frequency %d but RX1 channel %d has %d", cfg, when, i, up.Frequency, f, j, dc.Frequency), nil)
			}
			c.Outcome("rx1ch/value")
		}
	}
	r.PartDims("rx1-channel", []string{fmt.Sprintf("config:%d", len(cfgs)), "uplink channel:-1..n+1", "history:{initial, +custom channels, +disable}"}, uint64(len(cfgs)), func(c *engine.Case) {
		cfg := cfgs[c.Index]
		b := newBand(cfg)
		checkChannels(c, cfg, b, "initially")
		s := snapOf(b)
		if s.SupportsExtraChannels {
			base := s.UplinkChannels[0].Frequency
			for k := 1; k <= 3; k++ {
				b.AddChannel(base+uint32(k)*1000000, s.CFListMinDR, s.CFListMaxDR)
			}
			checkChannels(c, cfg, b, "after adding 3 custom channels")
		}
		b.DisableUplinkChannelIndex(0)
		checkChannels(c, cfg, b, "after disabling channel 0")
	})

	// far arguments: integers that a narrowing conversion would fold onto valid indices
	r.PartDims("far-arguments", []string{fmt.Sprintf("config:%d", len(cfgs)), fmt.Sprintf("far integers:%d", len(farInts())), "argument position{data-rate, offset, channel index}"}, uint64(len(cfgs)), func(c *engine.Case) {
		cfg := cfgs[c.Index]
		b := newBand(cfg)
		s := snapOf(b)
		for _, v := range farInts() {
			for _, dr := range sortedKeys(s.DataRates) {
				c.Eval()
				if got, err := b.GetRX1DataRateIndex(dr, v); err == nil {
					c.Fail("far-argument-accepted/GetRX1DataRateIndex/offset", fmt.Sprintf("%v: GetRX1DataRateIndex(%d, %d) = %d without an error", cfg, dr, v, got), nil)
				}
			}
			for off := 0; off <= 2; off++ {
				c.Eval()
				if _, defined := s.DataRates[v]; defined {
					continue
				}
				if got, err := b.GetRX1DataRateIndex(v, off); err == nil {
					c.Fail("far-argument-accepted/GetRX1DataRateIndex/data-rate", fmt.Sprintf("%v: GetRX1DataRateIndex(%d, %d) = %d without an error", cfg, v, off, got), nil)
				}
			}
			c.Eval()
			c.NonTrivial()
			// the property does not demand an error for an unknown channel index (EU-style
			// bands answer the index itself); only a panic is judged
			if pn, site, val := engine.Try(func() { b.GetRX1ChannelIndexForUplinkChannelIndex(v) }); pn {
				c.Fail("panic/"+site, fmt.Sprintf("%v: GetRX1ChannelIndexForUplinkChannelIndex(%d) panics: %v", cfg, v, val), nil)
			}
		}
	})

	// histories (E2): custom channels whose frequency is fresh or already in the plan
	// (the EU868-style 868.3 MHz DR0-5 + DR6 pair), toggles; every reached state is checked
	for _, name := range bandNames {
		cfg := bandCfg{name, false, lorawan.DwellTimeNoLimit}
		init := snapOf(newBand(cfg))
		if !init.SupportsExtraChannels {
			continue
		}
		nStd := len(init.UplinkChannels)
		base := init.UplinkChannels[0].Frequency
		const maxAdds = 3
		room := func(b band.Band) (int, bool) {
			n := len(b.GetUplinkChannelIndices())
			return n, n-nStd < maxAdds
		}
		xops := []engine.XOp{
			{Name: "Add(fresh,cflist-range)", Do: func(obj interface{}) string {
				b := obj.(band.Band)
				n, ok := room(b)
				if !ok {
					return "skip"
				}
				return errS(b.AddChannel(base+10000000+uint32(n)*200000, init.CFListMinDR, init.CFListMaxDR))
			}},
			{Name: "Add(fresh lower frequency,cflist-range)", Do: func(obj interface{}) string {
				// channels are not configured in ascending order of frequency
				b := obj.(band.Band)
				n, ok := room(b)
				if !ok {
					return "skip"
				}
				return errS(b.AddChannel(base+9000000-uint32(n)*200000, init.CFListMinDR, init.CFListMaxDR))
			}},
			{Name: "Add(placeholder 0 Hz,cflist-range)", Do: func(obj interface{}) string {
				// an unused CFList slot configured as a disabled channel; later channels keep
				// their place in both the uplink and the downlink list (round 16: C12-r16)
				b := obj.(band.Band)
				if _, ok := room(b); !ok {
					return "skip"
				}
				return errS(b.AddChannel(0, init.CFListMinDR, init.CFListMaxDR))
			}},
			{Name: "Add(frequency-of-channel-1,DR6..6)", Do: func(obj interface{}) string {
				b := obj.(band.Band)
				if _, ok := room(b); !ok {
					return "skip"
				}
				return errS(b.AddChannel(init.UplinkChannels[1%nStd].Frequency, 6, 6))
			}},
			{Name: "Add(frequency-of-last-channel,DR0..2)", Do: func(obj interface{}) string {
				b := obj.(band.Band)
				if _, ok := room(b); !ok {
					return "skip"
				}
				s := snapOf(b)
				return errS(b.AddChannel(s.UplinkChannels[len(s.UplinkChannels)-1].Frequency, 0, 2))
			}},
			{Name: "Toggle(0)", Do: func(obj interface{}) string {
				b := obj.(band.Band)
				if snapOf(b).UplinkChannels[0].Enabled {
					return errS(b.DisableUplinkChannelIndex(0))
				}
				return errS(b.EnableUplinkChannelIndex(0))
			}},
			{Name: "Toggle(last)", Do: func(obj interface{}) string {
				b := obj.(band.Band)
				s := snapOf(b)
				i := len(s.UplinkChannels) - 1
				if s.UplinkChannels[i].Enabled {
					return errS(b.DisableUplinkChannelIndex(i))
				}
				return errS(b.EnableUplinkChannelIndex(i))
			}},
		}
		x := engine.XSpec{
			Name: "rx1-channel-histories/" + string(name), New: func() interface{} { return newBand(cfg) }, Ops: xops,
			Snap:  func(obj interface{}) string { return chanSnap(snapOf(obj.(band.Band))) },
			Warm:  bandWarm,
			Depth: 6,
		}
		x.CheckState = func(c *engine.Case, obj interface{}, path []int) {
			checkChannels(c, cfg, obj.(band.Band), fmt.Sprintf("after %v", x.PathNames(path)))
		}
		res := r.Explore(x)
		r.Guard(res.States > 20, "C12: channel histories of %s reach more than 20 states (%d)", name, res.States)
	}

	r.PartDims("ping-slot", []string{fmt.Sprintf("config:%d", len(cfgs)), "devaddr:16", "beacon time:6"}, uint64(len(cfgs)), func(c *engine.Case) {
		cfg := cfgs[c.Index]
		b := newBand(cfg)
		s := snapOf(b)
		reg := regionOf(cfg.name)
		var first uint32
		for ai, a := range devAddrs {
			for ti, t := range beacons {
				c.Eval()
				f, err := b.GetPingSlotFrequency(devAddrOf(a), t)
				if err != nil {
					c.Fail(fmt.Sprintf("pingslot/%s/refused", reg.Name), fmt.Sprintf("%v: devaddr %08x beacon %v: %v", cfg, a, t, err), nil)
					continue
				}
				c.NonTrivial()
				switch {
				case reg.PingSlotHop != nil:
					idx := (uint64(a) + uint64(t/(128*time.Second))) % 8
					want := reg.PingSlotHop[idx]
					if f != want {
						c.Fail(fmt.Sprintf("pingslot/%s/hopping-rule", reg.Name), fmt.Sprintf("%v: devaddr %08x beacon time %v: %d Hz, hopping rule gives channel %d = %d Hz", cfg, a, t, f, idx, want), nil)
					}
					// and it is one of the band's downlink / beacon channels
					if reg.RX1ChannelMod == 8 && s.DownlinkChannels[idx].Frequency != f {
						c.Fail(fmt.Sprintf("pingslot/%s/not-downlink-channel", reg.Name), fmt.Sprintf("%v: %d Hz is not downlink channel %d", cfg, f, idx), nil)
					}
					c.Outcome(fmt.Sprintf("pingslot/hop=%d", idx))
				case reg.PingSlotFixed != 0:
					if f != reg.PingSlotFixed {
						c.Fail(fmt.Sprintf("pingslot/%s/fixed-frequency", reg.Name), fmt.Sprintf("%v: %d Hz, Regional Parameters say %d Hz", cfg, f, reg.PingSlotFixed), nil)
					}
					c.Outcome("pingslot/fixed")
				default:
					if ai == 0 && ti == 0 {
						first = f
					} else if f != first {
						c.Fail(fmt.Sprintf("pingslot/%s/not-constant", reg.Name), fmt.Sprintf("%v: %d Hz vs %d Hz", cfg, f, first), nil)
					}
					c.Outcome("pingslot/constancy-only")
				}
			}
		}
	})

	r.Guard(r.OutcomeCount("rx1dr/value") > 0 && r.OutcomeCount("rx1dr/error") > 0, "RX1 data-rate values and errors observed")
	for i := 0; i < 8; i++ {
		r.Guard(r.OutcomeCount(fmt.Sprintf("pingslot/hop=%d", i)) > 0, "ping-slot hop channel %d reached", i)
	}
	r.Guard(r.OutcomeCount("pingslot/fixed") > 0, "fixed ping-slot regions exercised")
}

package props

import (
	"bytes"
	"encoding/hex"
	"fmt"
	"strings"

	"github.com/brocaar/lorawan"

	"verifmc/engine"
	"verifmc/spec"
)

// c03PortAlphabet: absent, 0, and application ports including the neighbours of 224 (the port the
// specification reserves for MAC-layer testing: "FPort > 0" includes it).
var c03PortAlphabet = []int{-1, 0, 1, 223, 224, 225, 255}

// callerPayload is a Payload implementation of the caller (the library's own behaviour, inherited).
type callerPayload struct{ lorawan.DataPayload }

func init() { register("C03", "exploration", runC03) }

// guarded returns a slice of length n placed inside a larger arena according
// to layout: 0 exact capacity, 1 spare capacity 40 after the slice, 2 in the
// middle of a larger buffer. The arena is filled with a guard pattern.
func guarded(data []byte, layout int) (slice []byte, arena []byte, off int) {
	n := len(data)
	switch layout {
	case 0:
		arena = make([]byte, n)
		off = 0
	case 1:
		arena = make([]byte, n+40)
		off = 0
	default:
		arena = make([]byte, n+80)
		off = 24
	}
	for i := range arena {
		arena[i] = 0xC3 ^ byte(i)
	}
	copy(arena[off:], data)
	if layout == 0 {
		return arena[0:n:n], arena, 0
	}
	return arena[off : off+n], arena, off
}

func guardIntact(arena []byte, off, n int) (int, bool) {
	for i := range arena {
		if i >= off && i < off+n {
			continue
		}
		if arena[i] != 0xC3^byte(i) {
			return i - off, false
		}
	}
	return 0, true
}

func runC03(r *engine.Run) {
	if err := spec.SelfTest(); err != nil {
		r.HarnessError("%v", err)
		return
	}
	r.Rule = "E1 products. Function level: EncryptFRMPayload for every payload length 0..255 x direction x key(3) x DevAddr(3) x FCnt(5) x buffer layout(3); EncryptFOpts for lengths 0..15,16,17,255 x aFCntDown x direction x the same alphabets. Method level: EncryptFRMPayload/DecryptFRMPayload/EncryptFOpts/DecryptFOpts on MType{2..5} x FPort{absent,0,1,223,224,225,255} x FOpts forms {none, command list of each length 1..15, opaque 1..15, 16, 20 bytes} x FRMPayload forms {none, opaque 1/16/17/242, port-0 commands} x key/DevAddr/FCnt alphabets. Oracle: S_i = AES(K, A_i) keystream written from the specification (mc/spec/crypto.go); an operation that returns nil must have applied exactly the specified transform. Non-trivial: the operation returned nil and its result was compared with the keystream XOR; distinct by construction."
	cryptoHistory(r)
	manyKeysHistory(r)
	r.Assume("AES is crypto/aes (trusted); keys/addresses/counters use 3/3/5-value alphabets plus single-bit walks over every bit of key, DevAddr and FCnt")
	r.Assume("writes outside the given slice are reported under C10 (isolation), not here; this check only demands the returned bytes")

	// ---- function level: EncryptFRMPayload
	sp := (&engine.Space{}).Dim("len", 256).Dim("uplink", 2).Dim("key", 3).Dim("devaddr", 3).Dim("fcnt", 5).Dim("layout", 3)
	r.PartDims("func/EncryptFRMPayload", sp.Desc(), sp.N(), func(c *engine.Case) {
		var ch [6]int
		sp.Decode(c.Index, ch[:])
		n, uplink, key, da, fc := ch[0], ch[1] == 1, c02Keys[ch[2]], c02DevAddrs[ch[3]], c02FCnts[ch[4]]
		plain := fillBytes(n, 0x69)
		in, _, _ := guarded(plain, ch[5])
		out, err := lorawan.EncryptFRMPayload(keyOf(key), uplink, devAddrOf(da), fc, in)
		if err != nil {
			c.Fail("func/frm/error", fmt.Sprintf("len %d: %v", n, err), nil)
			return
		}
		c.NonTrivial()
		want := spec.XOR(plain, spec.Keystream(key, uplink, da, fc, n))
		if !bytes.Equal(out, want) {
			c.Fail(fmt.Sprintf("func/frm/keystream/blocks=%d", (n+15)/16), fmt.Sprintf("len=%d uplink=%v key=%x devaddr=%08x fcnt=%#x: got %x, specification %x", n, uplink, key, da, fc, out, want), nil)
			return
		}
		// involution through the API
		back, err := lorawan.EncryptFRMPayload(keyOf(key), uplink, devAddrOf(da), fc, append([]byte(nil), out...))
		if err != nil || !bytes.Equal(back, plain) {
			c.Fail("func/frm/not-involution", fmt.Sprintf("len=%d: second application gives %x (err %v)", n, back, err), nil)
		}
		c.Outcome(fmt.Sprintf("frm/blocks=%d", (n+15)/16))
		if c.WantSample() && n > 16 {
			c.Sample(func() interface{} {
				return map[string]interface{}{"part": "func/EncryptFRMPayload", "len": n, "uplink": uplink, "key": hex.EncodeToString(key), "devaddr": fmt.Sprintf("%08x", da), "fcnt": fc, "ciphertext": hex.EncodeToString(want)}
			})
		}
	})
	// single-bit walks of key / devaddr / fcnt on a 40-byte payload
	r.PartDims("func/EncryptFRMPayload/bit-walks", []string{"bit: key128+devaddr32+fcnt32", "uplink:2", "base:2"}, 192*2*2, func(c *engine.Case) {
		bit := int(c.Index % 192)
		uplink := (c.Index/192)%2 == 1
		key, da, fc := make([]byte, 16), uint32(0), uint32(0)
		if c.Index/384 == 1 {
			key, da, fc = mustHex("ffffffffffffffffffffffffffffffff"), 0xFFFFFFFF, 0xFFFFFFFF
		}
		switch {
		case bit < 128:
			key[bit/8] ^= 1 << uint(bit%8)
		case bit < 160:
			da ^= 1 << uint(bit-128)
		default:
			fc ^= 1 << uint(bit-160)
		}
		plain := fillBytes(40, 0x21)
		out, err := lorawan.EncryptFRMPayload(keyOf(key), uplink, devAddrOf(da), fc, append([]byte(nil), plain...))
		c.NonTrivial()
		want := spec.XOR(plain, spec.Keystream(key, uplink, da, fc, 40))
		if err != nil || !bytes.Equal(out, want) {
			c.Fail("func/frm/bit-walk", fmt.Sprintf("bit %d: key=%x devaddr=%08x fcnt=%#x uplink=%v: got %x (err %v), specification %x", bit, key, da, fc, uplink, out, err, want), nil)
		}
	})

	// ---- function level: EncryptFOpts
	foLens := []int{0, 1, 2, 3, 4, 5, 6, 7, 8, 9, 10, 11, 12, 13, 14, 15, 16, 17, 255}
	spF := (&engine.Space{}).Dim("len", len(foLens)).Dim("aFCntDown", 2).Dim("uplink", 2).Dim("key", 3).Dim("devaddr", 3).Dim("fcnt", 5)
	r.PartDims("func/EncryptFOpts", spF.Desc(), spF.N(), func(c *engine.Case) {
		var ch [6]int
		spF.Decode(c.Index, ch[:])
		n, afd, uplink, key, da, fc := foLens[ch[0]], ch[1] == 1, ch[2] == 1, c02Keys[ch[3]], c02DevAddrs[ch[4]], c02FCnts[ch[5]]
		plain := fillBytes(n, 0x17)
		in := append([]byte(nil), plain...)
		out, err := lorawan.EncryptFOpts(keyOf(key), afd, uplink, devAddrOf(da), fc, in)
		if n > 15 {
			if err == nil {
				c.Fail("func/fopts/overlong-accepted", fmt.Sprintf("%d bytes of FOpts accepted", n), nil)
			} else if !bytes.Equal(in, plain) {
				c.Fail("func/fopts/error-but-modified", fmt.Sprintf("%d bytes refused but the input was modified", n), nil)
			}
			c.Outcome("fopts/rejected-overlong")
			return
		}
		if err != nil {
			c.Fail("func/fopts/error", fmt.Sprintf("len %d: %v", n, err), nil)
			return
		}
		c.NonTrivial()
		want := spec.XOR(plain, spec.FOptsKeystream(key, afd, uplink, da, fc))
		if !bytes.Equal(out, want) {
			c.Fail("func/fopts/keystream", fmt.Sprintf("len=%d aFCntDown=%v uplink=%v key=%x devaddr=%08x fcnt=%#x: got %x, specification %x", n, afd, uplink, key, da, fc, out, want), nil)
			return
		}
		back, err := lorawan.EncryptFOpts(keyOf(key), afd, uplink, devAddrOf(da), fc, append([]byte(nil), out...))
		if err != nil || !bytes.Equal(back, plain) {
			c.Fail("func/fopts/not-involution", fmt.Sprintf("len=%d: second application gives %x (err %v)", n, back, err), nil)
		}
		c.Outcome(fmt.Sprintf("fopts/aFCntDown=%v/uplink=%v", afd, uplink))
	})

	// ---- method level
	type foForm struct {
		kind string // none, cmds, opaque
		n    int
	}
	var foForms []foForm
	foForms = append(foForms, foForm{"none", 0})
	for n := 1; n <= 15; n++ {
		foForms = append(foForms, foForm{"cmds", n})
	}
	for n := 1; n <= 15; n++ {
		foForms = append(foForms, foForm{"opaque", n})
	}
	foForms = append(foForms, foForm{"opaque", 16}, foForm{"opaque", 20})
	type frmForm struct {
		kind string
		n    int
	}
	frmForms := []frmForm{{"none", 0}, {"opaque", 1}, {"opaque", 16}, {"opaque", 17}, {"opaque", 242}, {"cmds", 12}}
	// frames whose FOpts / FRMPayload cannot be serialised: the operation cannot have applied
	// the transform, so a nil error is the violation
	type badForm struct {
		name string
		mk   func() *lorawan.MACPayload
	}
	p5, p0 := uint8(5), uint8(0)
	badCmd := func() *lorawan.MACCommand {
		return &lorawan.MACCommand{CID: lorawan.DevStatusAns, Payload: &lorawan.DevStatusAnsPayload{Margin: 40}}
	}
	goodCmd := func() *lorawan.MACCommand { return &lorawan.MACCommand{CID: lorawan.LinkCheckReq} }
	badForms := []badForm{
		{"frm=command,fport=absent", func() *lorawan.MACPayload { return &lorawan.MACPayload{FRMPayload: []lorawan.Payload{goodCmd()}} }},
		{"frm=command,fport=5", func() *lorawan.MACPayload {
			return &lorawan.MACPayload{FPort: &p5, FRMPayload: []lorawan.Payload{goodCmd()}}
		}},
		{"frm=out-of-range-command,fport=0", func() *lorawan.MACPayload {
			return &lorawan.MACPayload{FPort: &p0, FRMPayload: []lorawan.Payload{badCmd()}}
		}},
		{"frm=command+out-of-range-command,fport=0", func() *lorawan.MACPayload {
			return &lorawan.MACPayload{FPort: &p0, FRMPayload: []lorawan.Payload{goodCmd(), badCmd()}}
		}},
		{"frm=bytes+command,fport=5", func() *lorawan.MACPayload {
			return &lorawan.MACPayload{FPort: &p5, FRMPayload: []lorawan.Payload{&lorawan.DataPayload{Bytes: []byte{1, 2, 3}}, goodCmd()}}
		}},
		{"frm=bytes,fport=absent", func() *lorawan.MACPayload {
			// application bytes without a port (the frame cannot be serialised; the bytes can be transformed)
			return &lorawan.MACPayload{FRMPayload: []lorawan.Payload{&lorawan.DataPayload{Bytes: []byte{1, 2, 3, 4, 5, 6, 7, 8, 9}}}}
		}},
		{"fopts=out-of-range-command", func() *lorawan.MACPayload {
			return &lorawan.MACPayload{FHDR: lorawan.FHDR{FOpts: []lorawan.Payload{badCmd()}}}
		}},
		{"fopts=command+out-of-range-command", func() *lorawan.MACPayload {
			return &lorawan.MACPayload{FHDR: lorawan.FHDR{FOpts: []lorawan.Payload{goodCmd(), badCmd()}}}
		}},
	}
	badOps := []string{"EncryptFRMPayload", "DecryptFRMPayload", "EncryptFOpts", "DecryptFOpts"}
	r.PartDims("method/unserialisable", []string{"mtype:4", fmt.Sprintf("form:%d", len(badForms)), "operation:4"}, uint64(4*len(badForms)*4), func(c *engine.Case) {
		mt := lorawan.MType(2 + c.Index%4)
		form := badForms[(c.Index/4)%uint64(len(badForms))]
		op := badOps[c.Index/4/uint64(len(badForms))]
		isFOpts := strings.HasPrefix(form.name, "fopts")
		if isFOpts != strings.HasSuffix(op, "FOpts") {
			c.Outcome("filtered(operation does not touch the unserialisable part)")
			return
		}
		c.Eval()
		c.NonTrivial()
		mp := form.mk()
		mp.FHDR.DevAddr, mp.FHDR.FCnt = lorawan.DevAddr{1, 2, 3, 4}, 9
		p := lorawan.PHYPayload{MHDR: lorawan.MHDR{MType: mt, Major: lorawan.LoRaWANR1}, MACPayload: mp}
		before := pubPrint(p)
		var err error
		k := lorawan.AES128Key{1, 2, 3}
		switch op {
		case "EncryptFRMPayload":
			err = p.EncryptFRMPayload(k)
		case "DecryptFRMPayload":
			err = p.DecryptFRMPayload(k)
		case "EncryptFOpts":
			err = p.EncryptFOpts(k)
		case "DecryptFOpts":
			err = p.DecryptFOpts(k)
		}
		if err == nil && pubPrint(p) == before {
			c.Fail("method/"+op+"/nil-without-transform", fmt.Sprintf("%s on a %v frame with %s returned nil and left the frame as it was (its content cannot be serialised, so nothing can have been transformed)", op, mt, form.name), nil)
			return
		}
		if err == nil && form.name == "frm=bytes,fport=absent" {
			// whatever key stream was applied, a transform that reports success preserves the length
			if got, ok := opaqueBytes(p.MACPayload.(*lorawan.MACPayload).FRMPayload); !ok || len(got) != 9 {
				c.Fail("method/"+op+"/length-not-preserved", fmt.Sprintf("%s on a %v frame without FPort carrying 9 bytes returned nil and left %d bytes", op, mt, len(got)), nil)
				return
			}
		}
		if err == nil {
			c.Outcome("unserialisable/transformed-something(recorded)")
		} else {
			c.Outcome("unserialisable/error")
		}
	})
	// FRMPayload given as several items (a header part and a body part): the methods transform the
	// concatenation, preserving its length
	multi := [][]int{{5, 7}, {16, 1}, {1, 16}, {3, 0, 9}, {20, 20, 2}, {9}}
	r.PartDims("method/multi-item-frmpayload", []string{"mtype:4", fmt.Sprintf("item lengths:%d", len(multi)), "key:3", "item type{*DataPayload, a caller's own Payload implementation (a struct embedding DataPayload), mixed}"}, uint64(4*len(multi)*3*3), func(c *engine.Case) {
		mt := lorawan.MType(2 + c.Index%4)
		lens := multi[(c.Index/4)%uint64(len(multi))]
		key := c02Keys[(c.Index/4/uint64(len(multi)))%3]
		itemKind := int(c.Index / 4 / uint64(len(multi)) / 3)
		uplink := mt == lorawan.UnconfirmedDataUp || mt == lorawan.ConfirmedDataUp
		c.Eval()
		var items []lorawan.Payload
		var plain []byte
		for i, n := range lens {
			b := fillBytes(n, byte(0x30+i*0x20))
			plain = append(plain, b...)
			// FRMPayload is a list of the exported Payload interface: an application's own type is as
			// good an element as the library's
			if itemKind == 1 || itemKind == 2 && i%2 == 0 {
				items = append(items, &callerPayload{lorawan.DataPayload{Bytes: append([]byte(nil), b...)}})
			} else {
				items = append(items, &lorawan.DataPayload{Bytes: append([]byte(nil), b...)})
			}
		}
		port := uint8(9)
		p := lorawan.PHYPayload{MHDR: lorawan.MHDR{MType: mt, Major: lorawan.LoRaWANR1}, MACPayload: &lorawan.MACPayload{
			FHDR: lorawan.FHDR{DevAddr: lorawan.DevAddr{1, 2, 3, 4}, FCnt: 77}, FPort: &port, FRMPayload: items}}
		if err := p.EncryptFRMPayload(keyOf(key)); err != nil {
			c.Outcome("multi-item/refused")
			return
		}
		c.NonTrivial()
		got, ok := opaqueBytes(p.MACPayload.(*lorawan.MACPayload).FRMPayload)
		want := spec.XOR(plain, spec.Keystream(key, uplink, 0x01020304, 77, len(plain)))
		if !ok || !bytes.Equal(got, want) {
			c.Fail("method/frm/multi-item", fmt.Sprintf("%v frame with FRMPayload items of %v bytes: EncryptFRMPayload returned nil and left %x (%d bytes); the key-stream over the %d bytes gives %x", mt, lens, got, len(got), len(plain), want), nil)
			return
		}
		if err := p.DecryptFRMPayload(keyOf(key)); err != nil {
			c.Fail("method/frm/multi-item", fmt.Sprintf("DecryptFRMPayload after EncryptFRMPayload: %v", err), nil)
		} else if back, ok := opaqueBytes(p.MACPayload.(*lorawan.MACPayload).FRMPayload); !ok || !bytes.Equal(back, plain) {
			c.Fail("method/frm/multi-item", fmt.Sprintf("items of %v bytes: encrypt then decrypt gives %x, plaintext %x", lens, back, plain), nil)
		}
		c.Outcome("multi-item/ok")
	})
	// one payload list handed to two frames (the same application payload for two devices, a
	// retransmission with the next counter, a shallow copy of a MACPayload): encrypting the first frame
	// leaves the second frame's content - the caller's list - as it was, so the second is the key-stream
	// transform of the plaintext too
	r.PartDims("method/list-shared-by-two-frames", []string{"mtype:4", fmt.Sprintf("item lengths:%d", len(multi)), "key:3", "list{FRMPayload, FOpts (1.1 commands)}"}, uint64(4*len(multi)*3*2), func(c *engine.Case) {
		mt := lorawan.MType(2 + c.Index%4)
		lens := multi[(c.Index/4)%uint64(len(multi))]
		key := c02Keys[(c.Index/4/uint64(len(multi)))%3]
		fopts := c.Index/4/uint64(len(multi))/3 == 1
		uplink := mt == lorawan.UnconfirmedDataUp || mt == lorawan.ConfirmedDataUp
		c.Eval()
		var items []lorawan.Payload
		var plain []byte
		if fopts {
			cid := lorawan.DevStatusReq
			if uplink {
				cid = lorawan.LinkCheckReq
			}
			for i := 0; i < 1+len(lens); i++ {
				items = append(items, &lorawan.MACCommand{CID: cid})
				plain = append(plain, byte(cid))
			}
		} else {
			for i, n := range lens {
				b := fillBytes(n, byte(0x30+i*0x20))
				plain = append(plain, b...)
				items = append(items, &lorawan.DataPayload{Bytes: append([]byte(nil), b...)})
			}
		}
		port := uint8(9)
		mk := func(fcnt uint32) *lorawan.PHYPayload {
			mp := &lorawan.MACPayload{FHDR: lorawan.FHDR{DevAddr: lorawan.DevAddr{1, 2, 3, 4}, FCnt: fcnt}, FPort: &port}
			if fopts {
				mp.FHDR.FOpts = items
			} else {
				mp.FRMPayload = items
			}
			return &lorawan.PHYPayload{MHDR: lorawan.MHDR{MType: mt, Major: lorawan.LoRaWANR1}, MACPayload: mp}
		}
		a, b := mk(77), mk(78)
		for i, p := range []*lorawan.PHYPayload{a, b} {
			fcnt := uint32(77 + i)
			var err error
			var got []byte
			var ok bool
			var want []byte
			if fopts {
				err = p.EncryptFOpts(keyOf(key))
				got, ok = opaqueBytes(p.MACPayload.(*lorawan.MACPayload).FHDR.FOpts)
				want = spec.XOR(plain, spec.FOptsKeystream(key, !uplink, uplink, 0x01020304, fcnt))
			} else {
				err = p.EncryptFRMPayload(keyOf(key))
				got, ok = opaqueBytes(p.MACPayload.(*lorawan.MACPayload).FRMPayload)
				want = spec.XOR(plain, spec.Keystream(key, uplink, 0x01020304, fcnt, len(plain)))
			}
			if err != nil {
				c.Fail("method/shared-list/refused", fmt.Sprintf("%v frame %d of 2 built from one payload list: %v", mt, i+1, err), nil)
				return
			}
			if !ok || !bytes.Equal(got, want) {
				c.Fail("method/shared-list", fmt.Sprintf("%v frame %d of 2 built from one payload list (FOpts=%v, %d bytes): the method returned nil and left %x; the key-stream over the caller's plaintext gives %x", mt, i+1, fopts, len(plain), got, want), nil)
				return
			}
		}
		c.NonTrivial()
		c.Outcome("shared-list/ok")
	})
	// the method called on a copy of the frame value (for _, phy := range frames { phy.Encrypt..(k) }, a
	// helper that takes a PHYPayload by value, a frame read out of a map): a PHYPayload copied by assignment
	// denotes the same frame - it shares the *MACPayload - so the frame the caller holds is transformed, not
	// left as it was behind a nil error
	r.PartDims("method/called-on-a-copy", []string{"mtype:4", fmt.Sprintf("length:%d", len(multi)), "key:3", "operation{EncryptFRMPayload, EncryptFOpts}"}, uint64(4*len(multi)*3*2), func(c *engine.Case) {
		mt := lorawan.MType(2 + c.Index%4)
		n := 0
		for _, l := range multi[(c.Index/4)%uint64(len(multi))] {
			n += l
		}
		key := c02Keys[(c.Index/4/uint64(len(multi)))%3]
		fopts := c.Index/4/uint64(len(multi))/3 == 1
		uplink := mt == lorawan.UnconfirmedDataUp || mt == lorawan.ConfirmedDataUp
		c.Eval()
		if fopts && n > 15 {
			n = 15
		}
		plain := fillBytes(n, 0x5C)
		port := uint8(9)
		mp := &lorawan.MACPayload{FHDR: lorawan.FHDR{DevAddr: lorawan.DevAddr{1, 2, 3, 4}, FCnt: 77}, FPort: &port}
		if fopts {
			mp.FHDR.FOpts = []lorawan.Payload{&lorawan.DataPayload{Bytes: append([]byte(nil), plain...)}}
		} else {
			mp.FRMPayload = []lorawan.Payload{&lorawan.DataPayload{Bytes: append([]byte(nil), plain...)}}
		}
		held := lorawan.PHYPayload{MHDR: lorawan.MHDR{MType: mt, Major: lorawan.LoRaWANR1}, MACPayload: mp}
		cp := held // copy by assignment
		var err error
		var want []byte
		if fopts {
			err = cp.EncryptFOpts(keyOf(key))
			want = spec.XOR(plain, spec.FOptsKeystream(key, !uplink, uplink, 0x01020304, 77))
		} else {
			err = cp.EncryptFRMPayload(keyOf(key))
			want = spec.XOR(plain, spec.Keystream(key, uplink, 0x01020304, 77, len(plain)))
		}
		if err != nil {
			c.Outcome("called-on-a-copy/refused")
			return
		}
		c.NonTrivial()
		hm := held.MACPayload.(*lorawan.MACPayload)
		got, ok := opaqueBytes(hm.FRMPayload)
		if fopts {
			got, ok = opaqueBytes(hm.FHDR.FOpts)
		}
		if !ok || !bytes.Equal(got, want) {
			c.Fail("method/called-on-a-copy", fmt.Sprintf("%v frame, %d bytes (FOpts=%v): the method was called on a copy (by assignment) of the frame and returned nil; the frame the caller holds reads %x, the key-stream transform is %x", mt, n, fopts, got, want), nil)
			return
		}
		c.Outcome("called-on-a-copy/ok")
	})
	spM := (&engine.Space{}).Dim("mtype", 4).Dim("fport", len(c03PortAlphabet)).Dim("fopts-form", len(foForms)).Dim("frm-form", len(frmForms)).Dim("key", 3).Dim("devaddr", 3).Dim("fcnt", 5)
	r.PartDims("method/PHYPayload", spM.Desc(), spM.N(), func(c *engine.Case) {
		var ch [7]int
		spM.Decode(c.Index, ch[:])
		port, fo, fr := c03PortAlphabet[ch[1]], foForms[ch[2]], frmForms[ch[3]]
		key, da, fc := c02Keys[ch[4]], c02DevAddrs[ch[5]], c02FCnts[ch[6]]
		f := spec.DataFrame{MType: byte(2 + ch[0]), DevAddr: da, FCnt: fc}
		uplink := f.Uplink()
		if port < 0 && fr.kind != "none" || fr.kind == "cmds" && port != 0 || port == 0 && fo.kind != "none" && fo.n <= 15 {
			c.Outcome("filtered(not a spec-valid combination)")
			return
		}
		var foCmds, frCmds []spec.Cmd
		switch fo.kind {
		case "cmds":
			foCmds = spec.Compose(uplink, fo.n, int(c.Index%7))
			f.FOpts = spec.CmdBytes(foCmds)
		case "opaque":
			f.FOpts = fillBytes(fo.n, 0x44)
		}
		if port >= 0 {
			f.HasPort, f.FPort = true, byte(port)
			switch fr.kind {
			case "cmds":
				frCmds = spec.Compose(uplink, fr.n, int(c.Index%5))
				f.FRM = spec.CmdBytes(frCmds)
			case "opaque":
				f.FRM = fillBytes(fr.n, 0x99)
			}
		}
		build := func() *lorawan.PHYPayload {
			p, err := buildFrame(f, foCmds, frCmds)
			if err != nil {
				panic(err)
			}
			return p
		}
		frmOf := func(p *lorawan.PHYPayload) ([]byte, bool) {
			return opaqueBytes(p.MACPayload.(*lorawan.MACPayload).FRMPayload)
		}
		foptsOf := func(p *lorawan.PHYPayload) ([]byte, bool) {
			return opaqueBytes(p.MACPayload.(*lorawan.MACPayload).FHDR.FOpts)
		}

		// EncryptFRMPayload then DecryptFRMPayload
		{
			c.Eval()
			p := build()
			err := p.EncryptFRMPayload(keyOf(key))
			observe(p)
			if err != nil {
				c.Fail("method/frm/encrypt-error", fmt.Sprintf("frame %x: %v", f.Msg(), err), nil)
			} else {
				c.NonTrivial()
				got, ok := frmOf(p)
				want := spec.XOR(f.FRM, spec.Keystream(key, uplink, da, fc, len(f.FRM)))
				if !ok || !bytes.Equal(got, want) {
					c.Fail("method/frm/encrypt-keystream", fmt.Sprintf("frame %x key %x: FRMPayload %x (opaque=%v), specification %x", f.Msg(), key, got, ok, want), nil)
				} else if err := p.DecryptFRMPayload(keyOf(key)); err != nil {
					if _, framed := spec.FrameCmds(uplink, f.FRM, nil); port == 0 && !framed {
						// port 0 carrying bytes that are not a command stream: an error is the specified answer
						c.Outcome("method/frm/decrypt-error-on-malformed-port0-stream(expected)")
					} else if len(f.FRM) == 0 {
						// nothing to transform: C03 allows "transform or error"; that a
						// receiver cannot process FPort=0 with an empty payload is judged by C05
						c.Outcome("method/frm/decrypt-error-on-empty-payload(judged by C05)")
					} else {
						c.Fail("method/frm/decrypt-error", fmt.Sprintf("frame %x: %v", f.Msg(), err), nil)
					}
				} else {
					mp := p.MACPayload.(*lorawan.MACPayload)
					if port == 0 && len(f.FRM) > 0 {
						want, framed := spec.FrameCmds(uplink, f.FRM, nil)
						if !framed {
							c.Fail("method/frm/decrypt-accepts-truncated-port0-stream", fmt.Sprintf("frame %x: port-0 payload is a truncated command stream but DecryptFRMPayload returned nil", f.Msg()), nil)
						} else if msg := sameCmds(uplink, mp.FRMPayload, want); msg != "" {
							c.Fail("method/frm/decrypt-port0-commands", fmt.Sprintf("frame %x: %s", f.Msg(), msg), nil)
						}
					} else if got, ok := frmOf(p); !ok || !bytes.Equal(got, f.FRM) {
						c.Fail("method/frm/decrypt-not-inverse", fmt.Sprintf("frame %x: %x", f.Msg(), got), nil)
					}
				}
				c.Outcome("method/frm/ok")
			}
		}
		// EncryptFOpts then DecryptFOpts (1.1)
		{
			c.Eval()
			p := build()
			err := p.EncryptFOpts(keyOf(key))
			observe(p) // the sender logs the frame it has encrypted
			afd := !uplink && port > 0
			if len(f.FOpts) > 15 {
				// lossless-or-error: both operations must refuse, or transform
				got, _ := foptsOf(p)
				if err == nil && bytes.Equal(got, f.FOpts) {
					c.Fail("method/fopts/encrypt-nil-without-transform", fmt.Sprintf("EncryptFOpts returned nil on %d bytes of FOpts and left them untransformed", len(f.FOpts)), nil)
				} else if err == nil && len(got) != len(f.FOpts) {
					c.Fail("method/fopts/length-not-preserved", fmt.Sprintf("EncryptFOpts returned nil on %d bytes of FOpts and left %d bytes (%x)", len(f.FOpts), len(got), got), nil)
				}
				q := build()
				derr := q.DecryptFOpts(keyOf(key))
				got2, ok2 := foptsOf(q)
				if derr == nil && ok2 && bytes.Equal(got2, f.FOpts) {
					c.Fail("method/fopts/decrypt-nil-without-transform", fmt.Sprintf("DecryptFOpts returned nil on %d bytes of FOpts and left them untransformed", len(f.FOpts)), nil)
				}
				if derr == nil {
					// a nil DecryptFOpts has decoded the FOpts into commands: together they must
					// re-encode to as many bytes as went in
					if b, err := q.MACPayload.(*lorawan.MACPayload).FHDR.MarshalBinary(); err == nil && len(b) != 7+len(f.FOpts) {
						c.Fail("method/fopts/length-not-preserved", fmt.Sprintf("DecryptFOpts returned nil on %d bytes of FOpts; the header now carries %d", len(f.FOpts), len(b)-7), nil)
					}
				}
				c.Outcome("method/fopts/overlong")
			} else if err != nil {
				c.Fail("method/fopts/encrypt-error", fmt.Sprintf("frame %x: %v", f.Msg(), err), nil)
			} else {
				c.NonTrivial()
				got, ok := foptsOf(p)
				want := spec.XOR(f.FOpts, spec.FOptsKeystream(key, afd, uplink, da, fc))
				if !ok || !bytes.Equal(got, want) {
					c.Fail(fmt.Sprintf("method/fopts/encrypt-keystream/aFCntDown=%v", afd), fmt.Sprintf("frame %x key %x: FOpts %x, specification %x (aFCntDown=%v)", f.Msg(), key, got, want, afd), nil)
				} else if fo.kind == "cmds" {
					if err := p.DecryptFOpts(keyOf(key)); err != nil {
						c.Fail("method/fopts/decrypt-error", fmt.Sprintf("frame %x: %v", f.Msg(), err), nil)
					} else if msg := sameCmds(uplink, p.MACPayload.(*lorawan.MACPayload).FHDR.FOpts, foCmds); msg != "" {
						c.Fail("method/fopts/decrypt-commands", fmt.Sprintf("frame %x: %s", f.Msg(), msg), nil)
					}
				} else if len(f.FOpts) > 0 {
					// opaque bytes: apply the encryption again (decrypt also decodes, and
					// opaque filler is not a command stream)
					if err := p.EncryptFOpts(keyOf(key)); err != nil {
						c.Fail("method/fopts/encrypt-error", err.Error(), nil)
					} else if got, ok := foptsOf(p); !ok || !bytes.Equal(got, f.FOpts) {
						c.Fail("method/fopts/not-involution", fmt.Sprintf("frame %x: %x", f.Msg(), got), nil)
					}
				}
				c.Outcome(fmt.Sprintf("method/fopts/aFCntDown=%v", afd))
			}
		}
	})

	blocks := 0
	for b := 0; b <= 16; b++ {
		if r.OutcomeCount(fmt.Sprintf("frm/blocks=%d", b)) > 0 {
			blocks++
		}
	}
	r.Guard(blocks == 17, "all keystream block counts 0..16 reached (%d)", blocks)
	r.Guard(r.OutcomeCount("method/fopts/aFCntDown=true") > 0 && r.OutcomeCount("method/fopts/aFCntDown=false") > 0, "both FOpts counter variants exercised at method level")
	r.Guard(r.OutcomeCount("method/fopts/overlong") > 0, "over-long FOpts path exercised")
}

package props

import (
	"fmt"
	"reflect"
	"sort"
	"strings"
	"time"

	"github.com/brocaar/lorawan"

	"verifmc/spec"
)

var (
	chMaskType   = reflect.TypeOf(lorawan.ChMask{})
	durationType = reflect.TypeOf(time.Duration(0))
)

// flatten turns a library struct value into name -> integer (bools 0/1,
// ChMask as a 16-bit integer with bit k = channel k, nested structs as
// "Outer.Inner").
func flatten(v interface{}) map[string]int64 {
	out := map[string]int64{}
	rv := reflect.ValueOf(v)
	for rv.Kind() == reflect.Ptr || rv.Kind() == reflect.Interface {
		rv = rv.Elem()
	}
	flattenInto(out, "", rv)
	return out
}

func flattenInto(out map[string]int64, prefix string, rv reflect.Value) {
	switch {
	case rv.Type() == chMaskType:
		var n int64
		for i := 0; i < 16; i++ {
			if rv.Index(i).Bool() {
				n |= 1 << uint(i)
			}
		}
		out[prefix] = n
	case rv.Kind() == reflect.Struct:
		for i := 0; i < rv.NumField(); i++ {
			f := rv.Type().Field(i)
			if f.PkgPath != "" {
				continue
			}
			name := f.Name
			if prefix != "" {
				name = prefix + "." + name
			}
			flattenInto(out, name, rv.Field(i))
		}
	case rv.Kind() == reflect.Bool:
		if rv.Bool() {
			out[prefix] = 1
		} else {
			out[prefix] = 0
		}
	case rv.Kind() >= reflect.Int && rv.Kind() <= reflect.Int64:
		out[prefix] = rv.Int()
	case rv.Kind() >= reflect.Uint && rv.Kind() <= reflect.Uint64:
		out[prefix] = int64(rv.Uint())
	default:
		panic(fmt.Sprintf("flatten: unsupported kind %s at %s", rv.Kind(), prefix))
	}
}

// unflatten sets the fields of the struct pointed to by ptr from vals. ok is
// false when a value does not fit the Go type of its field (such a value
// cannot be constructed by a caller at all).
func unflatten(ptr interface{}, vals map[string]int64) (ok bool) {
	rv := reflect.ValueOf(ptr).Elem()
	ok = true
	unflattenInto(vals, "", rv, &ok)
	return ok
}

func unflattenInto(vals map[string]int64, prefix string, rv reflect.Value, ok *bool) {
	switch {
	case rv.Type() == chMaskType:
		n, present := vals[prefix]
		if !present {
			return
		}
		if n < 0 || n > 0xFFFF {
			*ok = false
			return
		}
		for i := 0; i < 16; i++ {
			rv.Index(i).SetBool(n&(1<<uint(i)) != 0)
		}
	case rv.Kind() == reflect.Struct:
		for i := 0; i < rv.NumField(); i++ {
			f := rv.Type().Field(i)
			if f.PkgPath != "" {
				continue
			}
			name := f.Name
			if prefix != "" {
				name = prefix + "." + name
			}
			unflattenInto(vals, name, rv.Field(i), ok)
		}
	case rv.Kind() == reflect.Bool:
		n, present := vals[prefix]
		if !present {
			return
		}
		if n != 0 && n != 1 {
			*ok = false
			return
		}
		rv.SetBool(n == 1)
	case rv.Kind() >= reflect.Int && rv.Kind() <= reflect.Int64:
		n, present := vals[prefix]
		if !present {
			return
		}
		if rv.OverflowInt(n) {
			*ok = false
			return
		}
		rv.SetInt(n)
	case rv.Kind() >= reflect.Uint && rv.Kind() <= reflect.Uint64:
		n, present := vals[prefix]
		if !present {
			return
		}
		if n < 0 || rv.OverflowUint(uint64(n)) {
			*ok = false
			return
		}
		rv.SetUint(uint64(n))
	}
}

// libFields maps the library's representation of a decoded payload to the
// specification's field names (identity except DeviceTimeAns, whose library
// form is a duration, and fields the specification does not define for the
// command, which are dropped: DLSettings.OptNeg inside RXParamSetupReq is RFU).
func libFields(cmd *spec.Command, pl interface{}) map[string]int64 {
	m := flatten(pl)
	if cmd.Name == "DeviceTimeAns" {
		d := m["TimeSinceGPSEpoch"]
		return map[string]int64{"Seconds": d / int64(time.Second), "Frac": (d % int64(time.Second)) / 3906250, "Remainder": (d % int64(time.Second)) % 3906250}
	}
	out := map[string]int64{}
	for _, f := range cmd.Fields {
		if v, ok := m[f.Name]; ok {
			out[f.Name] = v
		} else {
			out[f.Name] = -999999 // field missing in the library's struct
		}
	}
	return out
}

// libValue builds a library payload value of the command from spec field
// values (ok false: not representable in the Go types).
func libValue(cmd *spec.Command, vals map[string]int64) (lorawan.MACCommandPayload, bool) {
	pl, _, err := lorawan.GetMACPayloadAndSize(cmd.Uplink, lorawan.CID(cmd.CID))
	if err != nil {
		return nil, false
	}
	if cmd.Name == "DeviceTimeAns" {
		p := pl.(*lorawan.DeviceTimeAnsPayload)
		p.TimeSinceGPSEpoch = time.Duration(vals["Seconds"])*time.Second + time.Duration(vals["Frac"])*3906250
		return p, true
	}
	ok := unflatten(pl, vals)
	return pl, ok
}

func fmtVals(m map[string]int64) string {
	var ks []string
	for k := range m {
		ks = append(ks, k)
	}
	sort.Strings(ks)
	var sb strings.Builder
	for i, k := range ks {
		if i > 0 {
			sb.WriteString(" ")
		}
		fmt.Fprintf(&sb, "%s=%d", k, m[k])
	}
	return sb.String()
}

func sameVals(a, b map[string]int64) bool {
	if len(a) != len(b) {
		return false
	}
	for k, v := range a {
		if w, ok := b[k]; !ok || w != v {
			return false
		}
	}
	return true
}

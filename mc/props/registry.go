// Package props holds one check per property. Each check enumerates a stated
// finite space of behaviours on the real implementation and compares every
// one with an oracle written from the specifications (package spec).
package props

import "verifmc/engine"

// Check is one property's check.
type Check struct {
	ID    string
	Level string
	Run   func(r *engine.Run)
}

// All is the registry, filled by the init functions of the per-property files.
var All = map[string]Check{}

func register(id, level string, run func(r *engine.Run)) {
	All[id] = Check{ID: id, Level: level, Run: run}
}

package props

import (
	"bytes"
	"encoding/hex"
	"encoding/json"
	"fmt"
	"net/http"
	"net/http/httptest"
	"strings"
	"sync"
	"time"

	"github.com/brocaar/lorawan"
	"github.com/brocaar/lorawan/backend"
	"github.com/brocaar/lorawan/backend/joinserver"

	"verifmc/engine"
	"verifmc/spec"
)

func init() { register("C16", "model_checking", runC16) }

// C16Case is one request to the join-server with everything the independent
// device / network-server model needs to judge the answer.
type C16Case struct {
	Kind    int // 0 join-request, 1 rejoin 0, 2 rejoin 1, 3 rejoin 2
	NwkKey  []byte
	AppKey  []byte
	DevEUI  [8]byte
	Known   bool // the join-server has keys for DevEUI
	JoinEUI [8]byte
	Nonce   uint16 // DevNonce / RJCount
	NetID   [3]byte
	DevAddr uint32
	DL      byte // DLSettings byte (bit 7 = OptNeg)
	RxDelay int
	CFList  []byte
	// CFListSpelling selects how an absent CFList is written in the JSON body: "" = member
	// omitted, "null" = "CFList":null, "empty" = "CFList":"" (all three mean: no CFList)
	CFListSpelling string
	// SenderIDUpper writes the NetID in upper-case hex digits (the answer mirrors it verbatim)
	SenderIDUpper bool
	// MACVersion of the request ("" = the default "1.1.0"); the derivation follows OptNeg, not this string
	MACVersion string
	JoinNonce  int
	NSKEK      []byte // nil = no KEK for the network server
	ASKEK      []byte
	MICFlip    int // -1 correct MIC, else the bit to flip
	TxID       uint32
}

var (
	C16KeysNwk = [][]byte{mustHex("01020304050607080102030405060708"), mustHex("f0e0d0c0b0a090807060504030201000"), make([]byte, 16)}
	C16KeysApp = [][]byte{mustHex("0f0e0d0c0b0a09080706050403020100"), mustHex("00112233445566778899aabbccddeeff"), make([]byte, 16)}
	C16EUIs    = [][8]byte{{0x01, 0x02, 0x03, 0x04, 0x05, 0x06, 0x07, 0x08}, {0xA1, 0xB2, 0xC3, 0xD4, 0xE5, 0xF6, 0x07, 0x18}, {0xFF, 0xFF, 0xFF, 0xFF, 0x00, 0x00, 0x00, 0x01}}
	c16KEK16   = mustHex("00112233445566778899aabbccddeeff")
	c16KEK32   = mustHex("000102030405060708090a0b0c0d0e0f101112131415161718191a1b1c1d1e1f")
)

// PHY builds the request's PHYPayload bytes (specification side).
func (k C16Case) PHY() []byte {
	le := func(e [8]byte) []byte { return revBytes(e[:]) }
	var mhdr byte
	var pl []byte
	switch k.Kind {
	case 0:
		mhdr = 0x00
		pl = append(append(le(k.JoinEUI), le(k.DevEUI)...), byte(k.Nonce), byte(k.Nonce>>8))
	case 1, 3:
		mhdr = 0xC0
		rt := byte(0)
		if k.Kind == 3 {
			rt = 2
		}
		pl = append([]byte{rt, k.NetID[2], k.NetID[1], k.NetID[0]}, le(k.DevEUI)...)
		pl = append(pl, byte(k.Nonce), byte(k.Nonce>>8))
	default:
		mhdr = 0xC0
		pl = append(append([]byte{1}, le(k.JoinEUI)...), le(k.DevEUI)...)
		pl = append(pl, byte(k.Nonce), byte(k.Nonce>>8))
	}
	// join-request MIC under NwkKey; rejoin 0/2 under SNwkSIntKey of the session, rejoin 1 under JSIntKey -
	// the join-server does not validate rejoin MICs; the NwkKey is used for all here
	mic := spec.JoinMIC(k.NwkKey, mhdr, pl)
	out := append(append([]byte{mhdr}, pl...), mic[:]...)
	if k.MICFlip >= 0 {
		out[len(out)-4+k.MICFlip/8] ^= 1 << uint(k.MICFlip%8)
	}
	return out
}

// Body is the JSON request.
func (k C16Case) Body() []byte {
	mt := "JoinReq"
	if k.Kind != 0 {
		mt = "RejoinReq"
	}
	m := map[string]interface{}{
		"ProtocolVersion": "1.0", "SenderID": hex.EncodeToString(k.NetID[:]), "ReceiverID": hex.EncodeToString(k.JoinEUI[:]),
		"TransactionID": k.TxID, "MessageType": mt, "MACVersion": k.macVersion(), "PHYPayload": hex.EncodeToString(k.PHY()),
		"DevEUI": hex.EncodeToString(k.DevEUI[:]), "DevAddr": fmt.Sprintf("%08x", k.DevAddr), "DLSettings": fmt.Sprintf("%02x", k.DL), "RxDelay": k.RxDelay,
	}
	if k.CFList != nil {
		m["CFList"] = hex.EncodeToString(k.CFList)
	} else if k.CFListSpelling == "null" {
		m["CFList"] = nil
	} else if k.CFListSpelling == "empty" {
		m["CFList"] = ""
	}
	if k.SenderIDUpper {
		m["SenderID"] = strings.ToUpper(hex.EncodeToString(k.NetID[:]))
	}
	b, _ := json.Marshal(m)
	return b
}

func (k C16Case) macVersion() string {
	if k.MACVersion == "" {
		return "1.1.0"
	}
	return k.MACVersion
}

// C16Handler builds a join-server for a set of cases (device keys by DevEUI);
// yield (may be nil) is called inside every configuration callback.
func C16Handler(cases []C16Case, yield func(string)) http.Handler {
	y := func(s string) {
		if yield != nil {
			yield(s)
		}
	}
	byEUI := map[lorawan.EUI64]C16Case{}
	for _, c := range cases {
		if c.Known {
			byEUI[lorawan.EUI64(c.DevEUI)] = c
		}
	}
	// the operator's KEK store: one slice per label, handed out by reference on
	// every lookup (as a map-backed store does); the judge keeps its own copies
	store := map[string][]byte{}
	for _, c := range cases {
		if c.NSKEK != nil {
			store[hex.EncodeToString(c.NetID[:])] = append([]byte(nil), c.NSKEK...)
		}
		if c.ASKEK != nil {
			store["as-"+hex.EncodeToString(c.DevEUI[:])] = append([]byte(nil), c.ASKEK...)
		}
	}
	return c16HandlerFrom(func(e lorawan.EUI64) (C16Case, bool) { c, ok := byEUI[e]; return c, ok }, store, y)
}

// c16HandlerFrom builds the handler over a device lookup that is consulted at request time (the
// operator's device table may change between requests).
func c16HandlerFrom(lookup func(lorawan.EUI64) (C16Case, bool), store map[string][]byte, y func(string)) http.Handler {
	h, err := joinserver.NewHandler(joinserver.HandlerConfig{
		GetDeviceKeysByDevEUIFunc: func(devEUI lorawan.EUI64) (joinserver.DeviceKeys, error) {
			y("GetDeviceKeys")
			c, ok := lookup(devEUI)
			if !ok {
				return joinserver.DeviceKeys{}, joinserver.ErrDevEUINotFound
			}
			dk := joinserver.DeviceKeys{DevEUI: devEUI, NwkKey: keyOf(c.NwkKey), AppKey: keyOf(c.AppKey), JoinNonce: c.JoinNonce}
			if c.JoinNonce%2 == 1 {
				// a key store whose records do not repeat their own key (a map[EUI64]DeviceKeys): the
				// request says which device it is
				dk.DevEUI = lorawan.EUI64{}
			}
			return dk, nil
		},
		GetKEKByLabelFunc: func(label string) ([]byte, error) {
			y("GetKEK")
			return store[label], nil
		},
		GetASKEKLabelByDevEUIFunc: func(devEUI lorawan.EUI64) (string, error) {
			y("GetASKEKLabel")
			if c, ok := lookup(devEUI); ok && c.ASKEK != nil {
				return "as-" + hex.EncodeToString(c.DevEUI[:]), nil
			}
			return "", nil
		},
	})
	if err != nil {
		panic(err)
	}
	return h
}

// C16Serve sends one request through the handler and returns status and body.
func C16Serve(h http.Handler, k C16Case) (int, []byte) {
	req := httptest.NewRequest("POST", "/", bytes.NewReader(k.Body()))
	rec := httptest.NewRecorder()
	h.ServeHTTP(rec, req)
	return rec.Code, rec.Body.Bytes()
}

type c16Answer struct {
	ProtocolVersion string
	SenderID        string
	ReceiverID      string
	TransactionID   uint32
	MessageType     string
	Result          struct{ ResultCode, Description string }
	PHYPayload      string
	AppSKey         *c16Env
	NwkSKey         *c16Env
	FNwkSIntKey     *c16Env
	SNwkSIntKey     *c16Env
	NwkSEncKey      *c16Env
}

type c16Env struct {
	KEKLabel string
	AESKey   string
}

// C16Judge compares one answer with the independent device / network-server
// model; it returns (finding-class key, description) pairs.
func C16Judge(k C16Case, status int, body []byte) (problems [][2]string, outcome string) {
	bad := func(key, format string, a ...interface{}) {
		problems = append(problems, [2]string{key, fmt.Sprintf(format, a...) + fmt.Sprintf(" [request %s]", k.Body())})
	}
	var ans c16Answer
	if err := json.Unmarshal(body, &ans); err != nil {
		bad("answer/not-json", "answer %q: %v", body, err)
		return problems, "garbage"
	}
	wantType := "JoinAns"
	kind := "join"
	if k.Kind != 0 {
		wantType, kind = "RejoinAns", "rejoin"
	}
	// every answer mirrors sender, receiver and transaction id
	wantReceiver := hex.EncodeToString(k.NetID[:])
	if k.SenderIDUpper {
		wantReceiver = strings.ToUpper(wantReceiver)
	}
	if ans.SenderID != hex.EncodeToString(k.JoinEUI[:]) || ans.ReceiverID != wantReceiver || ans.TransactionID != k.TxID || ans.MessageType != wantType {
		bad("answer/"+kind+"/not-mirrored", "answer sender %q receiver %q transaction %d type %q", ans.SenderID, ans.ReceiverID, ans.TransactionID, ans.MessageType)
	}
	rc := ans.Result.ResultCode
	switch {
	case !k.Known:
		if rc != string(backend.UnknownDevEUI) {
			bad("answer/"+kind+"/unknown-deveui", "unknown DevEUI answered with %q", rc)
		}
		return problems, "UnknownDevEUI"
	case k.Kind == 0 && k.MICFlip >= 0:
		if rc != string(backend.MICFailed) {
			bad("answer/join/wrong-mic", "join-request with MIC bit %d flipped answered with %q", k.MICFlip, rc)
		}
		return problems, "MICFailed"
	case k.JoinNonce >= 1<<24 || (k.CFList != nil && len(k.CFList) != 16) || k.RxDelay > 15 || k.RxDelay < 0:
		if rc == string(backend.Success) {
			bad("answer/"+kind+"/invalid-input-accepted", "JoinNonce %d / CFList %x / RxDelay %d answered with Success", k.JoinNonce, k.CFList, k.RxDelay)
		}
		return problems, "refused-invalid-input"
	}
	if rc != string(backend.Success) {
		bad("answer/"+kind+"/valid-request-refused", "valid request answered with %q (%s)", rc, ans.Result.Description)
		return problems, "refused"
	}
	if k.Kind != 0 && k.MICFlip >= 0 {
		return problems, "Success(rejoin MIC not validated; not stated by the property)"
	}
	optNeg := k.DL&0x80 != 0
	// ---- the device decrypts and checks the join-accept
	phy, err := hex.DecodeString(ans.PHYPayload)
	if err != nil || (len(phy) != 17 && len(phy) != 33) || phy[0] != 0x20 {
		bad("answer/"+kind+"/phypayload-shape", "PHYPayload %q", ans.PHYPayload)
		return problems, "Success"
	}
	jsInt := spec.DeriveJSKey(k.NwkKey, 0x06, k.DevEUI)
	jsEnc := spec.DeriveJSKey(k.NwkKey, 0x05, k.DevEUI)
	encKey := k.NwkKey
	if k.Kind != 0 {
		encKey = jsEnc
	}
	plain := spec.ECBEncrypt(encKey, phy[1:])
	payload, mic := plain[:len(plain)-4], plain[len(plain)-4:]
	joinReqType := []byte{0xFF, 0x00, 0x01, 0x02}[k.Kind]
	var wantMIC [4]byte
	switch {
	case optNeg:
		wantMIC = spec.JoinAcceptMIC11(jsInt, joinReqType, k.JoinEUI, k.Nonce, 0x20, payload)
	case k.Kind == 0:
		wantMIC = spec.JoinMIC(k.NwkKey, 0x20, payload)
	default:
		// rejoin without OptNeg: a 1.0 device does not send rejoin-requests; only decryptability is judged
		wantMIC = [4]byte{mic[0], mic[1], mic[2], mic[3]}
	}
	if !bytes.Equal(mic, wantMIC[:]) {
		bad(fmt.Sprintf("device/%s/join-accept-mic-rejected/optneg=%v", kind, optNeg), "the device decrypts the join-accept to %x | MIC %x but computes MIC %x", payload, mic, wantMIC[:])
		return problems, "Success"
	}
	jn := uint32(payload[0]) | uint32(payload[1])<<8 | uint32(payload[2])<<16
	echo := jaValue{joinNonce: uint32(k.JoinNonce), netID: k.NetID, devAddr: k.DevAddr, dlSettings: k.DL, rxDelay: byte(k.RxDelay)}
	wantPayload := echo.wire()
	if k.CFList != nil {
		wantPayload = append(wantPayload, k.CFList...)
	}
	if !bytes.Equal(payload, wantPayload) {
		bad("device/"+kind+"/join-accept-fields", "join-accept payload %x, expected JoinNonce|NetID|DevAddr|DLSettings|RxDelay|CFList = %x", payload, wantPayload)
	}
	// ---- session keys: what the device derives vs what the answer carries
	unwrap := func(name string, e *c16Env, kek []byte, label string) []byte {
		if e == nil {
			bad("ns/"+kind+"/key-missing/"+name, "answer carries no %s", name)
			return nil
		}
		blob, err := hex.DecodeString(e.AESKey)
		if err != nil {
			bad("ns/"+kind+"/key-envelope/"+name, "AESKey %q", e.AESKey)
			return nil
		}
		if kek == nil {
			if e.KEKLabel != "" || len(blob) != 16 {
				bad("ns/"+kind+"/key-envelope/"+name, "no KEK configured but envelope label %q, %d bytes", e.KEKLabel, len(blob))
				return nil
			}
			return blob
		}
		if e.KEKLabel != label {
			bad("ns/"+kind+"/kek-label/"+name, "envelope label %q, configured %q", e.KEKLabel, label)
		}
		key, err := spec.KeyUnwrap(kek, blob)
		if err != nil {
			bad("ns/"+kind+"/key-envelope/"+name, "the envelope does not unwrap with the configured KEK: %v", err)
			return nil
		}
		return key
	}
	nsLabel := hex.EncodeToString(k.NetID[:])
	asLabel := "as-" + hex.EncodeToString(k.DevEUI[:])
	cmp := func(name string, got, want []byte) {
		if got != nil && !bytes.Equal(got, want) {
			cls := fmt.Sprintf("keys/%s/optneg=%v/%s", kind, optNeg, name)
			bad(cls, "%s in the answer is %x, the device derives %x (JoinNonce %d)", name, got, want, jn)
		}
	}
	if optNeg {
		cmp("AppSKey", unwrap("AppSKey", ans.AppSKey, k.ASKEK, asLabel), spec.DeriveKey11(k.AppKey, 0x02, jn, k.JoinEUI, k.Nonce))
		cmp("FNwkSIntKey", unwrap("FNwkSIntKey", ans.FNwkSIntKey, k.NSKEK, nsLabel), spec.DeriveKey11(k.NwkKey, 0x01, jn, k.JoinEUI, k.Nonce))
		cmp("SNwkSIntKey", unwrap("SNwkSIntKey", ans.SNwkSIntKey, k.NSKEK, nsLabel), spec.DeriveKey11(k.NwkKey, 0x03, jn, k.JoinEUI, k.Nonce))
		cmp("NwkSEncKey", unwrap("NwkSEncKey", ans.NwkSEncKey, k.NSKEK, nsLabel), spec.DeriveKey11(k.NwkKey, 0x04, jn, k.JoinEUI, k.Nonce))
	} else if k.Kind == 0 {
		cmp("AppSKey", unwrap("AppSKey", ans.AppSKey, k.ASKEK, asLabel), spec.DeriveKey10(k.NwkKey, 0x02, jn, k.NetID, k.Nonce))
		cmp("NwkSKey", unwrap("NwkSKey", ans.NwkSKey, k.NSKEK, nsLabel), spec.DeriveKey10(k.NwkKey, 0x01, jn, k.NetID, k.Nonce))
	}
	return problems, "Success"
}

func runC16(r *engine.Run) {
	if err := spec.SelfTest(); err != nil {
		r.HarnessError("%v", err)
		return
	}
	r.Rule = "E1 + E3. Requests through the real http.Handler (httptest): kind{join, rejoin 0, 1, 2} x NwkKey(2) x AppKey(2) x DevEUI{known A, known B, unknown} x JoinEUI(2) x DevNonce/RJCount{0,1,0xFFFF} x NetID(2) x OptNeg; echo fields in full with two crypto tuples: DevAddr(2) x all 256 DLSettings x RxDelay{0,1,15,16} x CFList{absent, channel list, masks, 15-byte malformed} x configured JoinNonce{0,1,0xFFFFFF,0x1000000}; KEK configuration {none,16,32 byte} for NS x {none,16 byte} for AS x OptNeg x kind; MIC {correct, each of 32 bits flipped}; malformed bodies. Oracle: an independent device (decrypts the join-accept with AES-encrypt under NwkKey / JSEncKey, checks the 1.0 / 1.1 MIC, compares the echoed fields, derives the session keys by the 1.0 / 1.1 rules) and network server (unwraps the envelopes with an independent RFC 3394). Schedules (E3, reported by the schedule explorer into the same evidence): all ordered pairs of 5 request kinds through one handler under the cooperative scheduler with scheduling points at every task boundary (hook), configuration callback and instrumented package-level access; every response must be byte-identical to the response the request gets alone; no happens-before race."
	r.Assume("key/EUI/nonce alphabets with bytewise distinct, non-palindromic values; crypto/aes trusted")
	r.Assume("rejoin-requests: the MIC of the request is not validated by the join-server and the property does not demand it; rejoin with OptNeg clear is not a defined situation (only decryptability and the echoed fields are judged)")

	judge := func(c *engine.Case, k C16Case, h http.Handler) {
		c.Eval()
		var status int
		var body []byte
		if pn, site, v := engine.Try(func() { status, body = C16Serve(h, k) }); pn {
			c.Fail("panic/"+site, fmt.Sprintf("request %s panics: %v", k.Body(), v), nil)
			return
		}
		probs, outcome := C16Judge(k, status, body)
		for _, p := range probs {
			c.Fail(p[0], p[1], nil)
		}
		c.NonTrivial()
		c.Outcome("answer/" + strings.Split(outcome, "(")[0])
		if c.WantSample() && outcome == "Success" {
			c.Sample(func() interface{} {
				return map[string]interface{}{"part": c.Part, "request": string(k.Body()), "answer": string(body)}
			})
		}
	}
	baseCase := func() C16Case {
		return C16Case{NwkKey: C16KeysNwk[0], AppKey: C16KeysApp[0], DevEUI: C16EUIs[0], Known: true, JoinEUI: C16EUIs[1], Nonce: 0x1234, NetID: [3]byte{0x01, 0x02, 0x03},
			DevAddr: 0x01020304, DL: 0x23, RxDelay: 1, JoinNonce: 0x010203, MICFlip: -1, TxID: 4711}
	}

	// ---- many devices through one handler: every device has root keys, identifiers and nonces of its
	// own; the requests (join 1.0 / join 1.1 / rejoin 0 in turn, every 16th with a flipped MIC bit) follow
	// the many-arguments history (earlier devices return after 1, 63, i/2 and i further devices)
	{
		n := manyHistoryN(r) / 4
		r.Rule += fmt.Sprintf(" Many-devices history: %d devices with their own keys through one handler in one sequence (returning to earlier devices, which then send a lower nonce than before), each answer judged like every other.", n)
		r.Rule += collidingRule()
		mkDev := func(i int) C16Case {
			k := baseCase()
			k.NwkKey, k.AppKey = manyKey(2*i), manyKey(2*i+1)
			k.DevEUI = [8]byte{0x70, 0xB3, 0xD5, byte(i >> 16), byte(i >> 8), byte(i), 0x5A, byte(i * 3)}
			k.Nonce, k.DevAddr, k.JoinNonce, k.TxID = uint16(i*7+1), 0x26000000+uint32(i), (i*5+1)&0xFFFFFF, uint32(1000+i)
			switch i % 3 {
			case 1:
				k.DL |= 0x80
			case 2:
				k.Kind, k.DL = 1, k.DL|0x80
			}
			return k
		}
		devs := make([]C16Case, n)
		for i := range devs {
			devs[i] = mkDev(i)
		}
		if t, _ := collidingKeys(); true { // the devices with fingerprint-colliding root keys follow the n ordinary ones
			for x := 0; x < len(t); x++ {
				devs = append(devs, mkDev(collisionKeyBase+x))
			}
		}
		r.PartWorkers("many-devices", []string{fmt.Sprintf("devices:%d", n), "kind{join 1.0, join 1.1, rejoin 0}", "MIC{correct, bit flipped (every 16th request)}"}, 1, 1, func(c *engine.Case) {
			h := C16Handler(devs, nil)
			step := 0
			visits := map[int]int{}
			ok := manyHistoryRun(n, func(i int) bool {
				if i >= collisionKeyBase {
					i = n + i - collisionKeyBase
				}
				k := devs[i]
				// a device that comes back sends another nonce: 1.0 devices draw it at random, so the
				// sequence one device sends goes down as well as up (here: down by 1, 2, 3 .. per visit)
				k.Nonce -= uint16(visits[i] * (visits[i] + 1) / 2)
				visits[i]++
				step++
				if step%16 == 0 && k.Kind == 0 {
					k.MICFlip = step % 32
				}
				judge(c, k, h)
				return true
			})
			if ok {
				c.Outcome("many-devices/history-completed")
			}
		})
	}

	// ---- the operator's device table changes between requests: every sequence of <= 4 steps over
	// {provision D, remove D, request from D (join 1.0 / join 1.1 / rejoin 0), request with a flipped MIC}
	// through one handler; each answer is judged for the table as it is at that moment
	{
		type step struct {
			name string
			kind int // 0 provision, 1 remove, 2.. request
		}
		steps := []step{{"provision", 0}, {"remove", 1}, {"join-1.0", 2}, {"join-1.1", 3}, {"rejoin-0", 4}, {"join-1.0-bad-mic", 5}}
		depth := 4
		var total uint64
		for l, n := 1, uint64(len(steps)); l <= depth; l, n = l+1, n*uint64(len(steps)) {
			total += n
		}
		r.PartDims("provisioning-history", []string{fmt.Sprintf("sequences of <= %d steps over %d operations", depth, len(steps))}, total, func(c *engine.Case) {
			i := c.Index
			l := 1
			for n := uint64(len(steps)); i >= n; n *= uint64(len(steps)) {
				i -= n
				l++
			}
			dev := baseCase()
			known := false
			h := c16HandlerFrom(func(e lorawan.EUI64) (C16Case, bool) {
				if known && e == lorawan.EUI64(dev.DevEUI) {
					return dev, true
				}
				return C16Case{}, false
			}, map[string][]byte{}, func(string) {})
			var hist []string
			for k := 0; k < l; k++ {
				st := steps[i%uint64(len(steps))]
				i /= uint64(len(steps))
				hist = append(hist, st.name)
				switch st.kind {
				case 0:
					known = true
				case 1:
					known = false
				default:
					q := dev
					q.Known = known
					q.Nonce = uint16(0x2000 + k)
					switch st.kind {
					case 3:
						q.DL |= 0x80
					case 4:
						q.Kind, q.DL = 1, q.DL|0x80
					case 5:
						q.MICFlip = 7
					}
					c.Eval()
					var status int
					var body []byte
					if pn, site, v := engine.Try(func() { status, body = C16Serve(h, q) }); pn {
						c.Fail("panic/"+site, fmt.Sprintf("after %v: request panics: %v", hist, v), nil)
						return
					}
					probs, outcome := C16Judge(q, status, body)
					for _, p := range probs {
						c.Fail(p[0], fmt.Sprintf("after %v (device known: %v): %s", hist, known, p[1]), nil) // the judge's own keys: a listed finding stays the listed finding
					}
					c.NonTrivial()
					c.Outcome("provisioning-history/" + strings.Split(outcome, "(")[0])
				}
			}
		})
	}

	// ---- join-requests whose correct MIC is 00000000 / ffffffff (witness.go): answered like any other
	r.Part("A0/conspicuous-mic-values", uint64(len(witnessJoin))*2, func(c *engine.Case) {
		w := witnessJoin[c.Index/2]
		k := baseCase()
		k.NwkKey, k.AppKey, k.DevEUI, k.JoinEUI, k.Nonce = witnessKey, C16KeysApp[0], w.devEUI, witnessJoinEUI, w.nonce
		if c.Index%2 == 1 {
			k.DL |= 0x80
		}
		if phy := k.PHY(); len(phy) < 4 || !bytes.Equal(phy[len(phy)-4:], w.mic[:]) {
			r.HarnessError("witness join-request: the request built by the harness carries MIC %x, expected %x", phy[len(phy)-4:], w.mic[:])
			return
		}
		judge(c, k, C16Handler([]C16Case{k}, nil))
	})
	// ---- A: crypto tuples
	spA := (&engine.Space{}).Dim("kind", 4).Dim("nwkkey{A,B,all-zero}", 3).Dim("appkey{A,B,all-zero}", 3).Dim("deveui{A,B,unknown}", 3).Dim("joineui", 2).Dim("nonce", 3).Dim("netid", 2).Dim("optneg", 2).Dim("echo tuple", 2)
	r.PartDims("A/crypto-tuples", spA.Desc(), spA.N(), func(c *engine.Case) {
		var ch [9]int
		spA.Decode(c.Index, ch[:])
		k := baseCase()
		k.Kind, k.NwkKey, k.AppKey = ch[0], C16KeysNwk[ch[1]], C16KeysApp[ch[2]]
		k.DevEUI, k.Known = C16EUIs[ch[3]], ch[3] < 2
		k.JoinEUI = [][8]byte{C16EUIs[1], {0x70, 0xB3, 0xD5, 0x7E, 0xD0, 0x00, 0x00, 0x01}}[ch[4]]
		k.Nonce = []uint16{0, 1, 0xFFFF}[ch[5]]
		k.NetID = [][3]byte{{0x01, 0x02, 0x03}, {0xC0, 0xFF, 0xEE}}[ch[6]]
		if ch[7] == 1 {
			k.DL |= 0x80
		}
		if ch[8] == 1 {
			k.DevAddr, k.DL, k.RxDelay, k.JoinNonce, k.TxID = 0xFEDCBA98, k.DL&0x80|0x58, 15, 0xFFFFFF, 0xFFFFFFFF
			k.CFList = append(fillBytes(15, 0x18), 0)
		}
		judge(c, k, C16Handler([]C16Case{k}, nil))
	})
	// ---- B: echo fields in full
	cfs := [][]byte{nil, append(fillBytes(15, 0x18), 0), {0xFF, 0xFF, 0x00, 0x00, 0x0F, 0x00, 0, 0, 0, 0, 0, 0, 0, 0, 0, 1}, fillBytes(15, 3)}
	spB := (&engine.Space{}).Dim("dlsettings", 256).Dim("rxdelay{0,1,15,16}", 4).Dim("cflist", 4).Dim("joinnonce", 4).Dim("devaddr", 2).Dim("kind{join,rejoin0}", 2).Dim("crypto tuple", 2)
	r.PartDims("B/echo-fields", spB.Desc(), spB.N(), func(c *engine.Case) {
		var ch [7]int
		spB.Decode(c.Index, ch[:])
		k := baseCase()
		k.DL, k.RxDelay, k.CFList = byte(ch[0]), []int{0, 1, 15, 16}[ch[1]], cfs[ch[2]]
		k.JoinNonce = []int{0, 1, 0xFFFFFF, 0x1000000}[ch[3]]
		k.DevAddr = []uint32{0x01020304, 0xFFFFFFFE}[ch[4]]
		k.Kind = []int{0, 1}[ch[5]]
		if ch[6] == 1 {
			k.NwkKey, k.AppKey, k.DevEUI, k.JoinEUI = C16KeysNwk[1], C16KeysApp[1], C16EUIs[1], C16EUIs[2]
		}
		judge(c, k, C16Handler([]C16Case{k}, nil))
	})
	// ---- B2: CFList contents (every zero/non-zero pattern of the six channel masks; channel
	// lists with extreme frequency codes) and the three JSON spellings of "no CFList"
	r.PartDims("B2/cflist-contents", []string{"mask pattern:64 + channel-list pattern:32 + absent spellings:3", "kind{join,rejoin0}", "optneg"}, (64+32+3)*2*2, func(c *engine.Case) {
		i := int(c.Index % 99)
		k := baseCase()
		k.Kind = int(c.Index/99) % 2
		if c.Index/198 == 1 {
			k.DL |= 0x80
		}
		switch {
		case i < 64:
			cf := make([]byte, 16)
			cf[15] = 1
			for m := 0; m < 6; m++ {
				if i&(1<<uint(m)) != 0 {
					cf[2*m], cf[2*m+1] = byte(0x11*(m+1)), byte(0x80>>uint(m))
				}
			}
			k.CFList = cf
		case i < 96:
			cf := make([]byte, 16)
			for slot := 0; slot < 5; slot++ {
				v := uint32(8671000 + slot*2000)
				if (i-64)&(1<<uint(slot)) != 0 {
					v = []uint32{0xFFFFFF, 1, 0, 0x800000, 0xFFFFFE}[slot]
				}
				cf[3*slot], cf[3*slot+1], cf[3*slot+2] = byte(v), byte(v>>8), byte(v>>16)
			}
			k.CFList = cf
		default:
			k.CFListSpelling = []string{"", "null", "empty"}[i-96]
		}
		judge(c, k, C16Handler([]C16Case{k}, nil))
		c.Outcome("cflist-contents")
	})
	// ---- B3: the answer mirrors the sender's identifier as it was written (upper-case hex digits)
	r.PartDims("B3/sender-id-spelling", []string{"kind{join,rejoin0,rejoin1,rejoin2}", "NetID:2", "outcome{success,unknown device,bad MIC}"}, 4*2*3, func(c *engine.Case) {
		k := baseCase()
		k.Kind = int(c.Index % 4)
		k.NetID = [][3]byte{{0xC0, 0xFF, 0xEE}, {0x0A, 0x0B, 0x0C}}[(c.Index/4)%2]
		k.SenderIDUpper = true
		switch c.Index / 8 {
		case 1:
			k.Known = false
			k.DevEUI[7] ^= 0x55
		case 2:
			k.MICFlip = 3
		}
		judge(c, k, C16Handler([]C16Case{k}, nil))
		c.Outcome("sender-id-spelling")
	})
	// ---- B4: every answer mirrors sender, receiver and transaction id - also the answers to
	// requests the operator's callbacks fail on, with the optional callbacks left out, and to
	// HomeNSReq (known / unknown device / failing lookup)
	cbErrs := []string{"none", "device-keys", "ns-kek", "as-kek-label", "as-kek", "defaults-only"}
	r.PartDims("B4/callback-errors-and-home-ns", []string{fmt.Sprintf("failing callback:%d", len(cbErrs)), "message{JoinReq,RejoinReq,HomeNSReq known,HomeNSReq unknown,HomeNSReq failing lookup}"}, uint64(len(cbErrs)*5), func(c *engine.Case) {
		which := cbErrs[c.Index%uint64(len(cbErrs))]
		msg := int(c.Index / uint64(len(cbErrs)))
		c.Eval()
		c.NonTrivial()
		k := baseCase()
		if msg == 1 {
			k.Kind = 1
		}
		boom := fmt.Errorf("operator store unavailable")
		cfg := joinserver.HandlerConfig{
			GetDeviceKeysByDevEUIFunc: func(devEUI lorawan.EUI64) (joinserver.DeviceKeys, error) {
				if which == "device-keys" {
					return joinserver.DeviceKeys{}, boom
				}
				return joinserver.DeviceKeys{DevEUI: devEUI, NwkKey: keyOf(k.NwkKey), AppKey: keyOf(k.AppKey), JoinNonce: k.JoinNonce}, nil
			},
		}
		if which != "defaults-only" {
			cfg.GetKEKByLabelFunc = func(label string) ([]byte, error) {
				if which == "ns-kek" && !strings.HasPrefix(label, "as-") || which == "as-kek" && strings.HasPrefix(label, "as-") {
					return nil, boom
				}
				return nil, nil
			}
			cfg.GetASKEKLabelByDevEUIFunc = func(devEUI lorawan.EUI64) (string, error) {
				if which == "as-kek-label" {
					return "", boom
				}
				return "as-label", nil
			}
			cfg.GetHomeNetIDByDevEUIFunc = func(devEUI lorawan.EUI64) (lorawan.NetID, error) {
				switch msg {
				case 3:
					return lorawan.NetID{}, joinserver.ErrDevEUINotFound
				case 4:
					return lorawan.NetID{}, boom
				}
				return lorawan.NetID{0x60, 0x00, 0x01}, nil
			}
		}
		h, err := joinserver.NewHandler(cfg)
		if err != nil {
			c.Fail("harness/new-handler", err.Error(), nil)
			return
		}
		body := k.Body()
		wantType := "JoinAns"
		if msg == 1 {
			wantType = "RejoinAns"
		}
		if msg >= 2 {
			wantType = "HomeNSAns"
			body = []byte(fmt.Sprintf(`{"ProtocolVersion":"1.0","SenderID":"%s","ReceiverID":"%s","TransactionID":%d,"MessageType":"HomeNSReq","DevEUI":"%s"}`,
				hex.EncodeToString(k.NetID[:]), hex.EncodeToString(k.JoinEUI[:]), k.TxID, hex.EncodeToString(k.DevEUI[:])))
		}
		req := httptest.NewRequest("POST", "/", bytes.NewReader(body))
		rec := httptest.NewRecorder()
		if pn, site, v := engine.Try(func() { h.ServeHTTP(rec, req) }); pn {
			c.Fail("panic/"+site, fmt.Sprintf("%s with failing callback %q panics: %v", wantType, which, v), nil)
			return
		}
		var ans struct {
			SenderID, ReceiverID, MessageType string
			TransactionID                     uint32
			Result                            struct{ ResultCode string }
			HNetID                            string
			AppSKey, NwkSKey                  *struct{ AESKey string }
		}
		if err := json.Unmarshal(rec.Body.Bytes(), &ans); err != nil {
			c.Fail("answer/not-json", fmt.Sprintf("%s with failing callback %q: %q", wantType, which, rec.Body.String()), nil)
			return
		}
		if ans.SenderID != hex.EncodeToString(k.JoinEUI[:]) || ans.ReceiverID != hex.EncodeToString(k.NetID[:]) || ans.TransactionID != k.TxID || ans.MessageType != wantType {
			c.Fail("answer/"+wantType+"/not-mirrored", fmt.Sprintf("failing callback %q: answer %s to request %s", which, rec.Body.String(), body), nil)
			return
		}
		// judged: the mirrored identifiers (above) and, for a request nothing fails on, Success.
		// What the server answers when an operator callback fails, and HomeNSReq result codes,
		// are not stated by the property: recorded as outcomes.
		wantCode := ans.Result.ResultCode
		if msg < 2 && (which == "none" || which == "defaults-only") && ans.Result.ResultCode != "Success" {
			c.Fail("answer/"+wantType+"/valid-request-refused", fmt.Sprintf("callbacks %q: ResultCode %q (answer %s)", which, ans.Result.ResultCode, rec.Body.String()), nil)
			return
		}
		c.Outcome("callback-errors/" + wantCode)
	})
	// ---- B5: the MACVersion string of the request x OptNeg x kind: the key derivation (and the
	// join-accept form) follow OptNeg whatever version string the network server reports
	macVersions := []string{"1.0.0", "1.0.2", "1.0.3", "1.0.4", "1.1.0", "1.1.1", "2.0.0"}
	r.PartDims("B5/mac-version-string", []string{fmt.Sprintf("MACVersion:%d", len(macVersions)), "optneg", "kind:4"}, uint64(len(macVersions)*2*4), func(c *engine.Case) {
		k := baseCase()
		k.MACVersion = macVersions[c.Index%uint64(len(macVersions))]
		if (c.Index/uint64(len(macVersions)))%2 == 1 {
			k.DL |= 0x80
		}
		k.Kind = int(c.Index / uint64(len(macVersions)) / 2)
		k.NSKEK, k.ASKEK = c16KEK16, c16KEK16
		judge(c, k, C16Handler([]C16Case{k}, nil))
		c.Outcome("mac-version-string")
	})
	// ---- B6: the same frame forwarded along several paths at the same time (several gateways /
	// network servers): k requests carrying one PHYPayload but their own transaction id, DevAddr,
	// DLSettings and RxDelay are in flight together. The overlap is forced: the device-keys callback
	// holds each request until all k have reached it (or one second has passed, for an
	// implementation that lets only one through at a time). Every answer is judged on its own request.
	r.PartDims("B6/identical-frames-in-flight", []string{"requests in flight:2..4", "kind{join,rejoin0}", "optneg"}, 3*2*2, func(c *engine.Case) {
		n := 2 + int(c.Index%3)
		var ks []C16Case
		for i := 0; i < n; i++ {
			k := baseCase()
			k.Kind = int(c.Index/3) % 2
			if c.Index/6 == 1 {
				k.DL |= 0x80
			}
			k.TxID = uint32(9000 + i)
			k.DevAddr = 0x0A000000 + uint32(i)
			k.RxDelay = 1 + i
			k.DL = k.DL&0x80 | byte(0x11*(i+1))&0x7F
			ks = append(ks, k)
		}
		var mu sync.Mutex
		arrived := 0
		all := make(chan struct{})
		h, err := joinserver.NewHandler(joinserver.HandlerConfig{
			GetDeviceKeysByDevEUIFunc: func(devEUI lorawan.EUI64) (joinserver.DeviceKeys, error) {
				mu.Lock()
				arrived++
				if arrived == n {
					close(all)
				}
				mu.Unlock()
				select {
				case <-all:
				case <-time.After(time.Second):
				}
				return joinserver.DeviceKeys{DevEUI: devEUI, NwkKey: keyOf(ks[0].NwkKey), AppKey: keyOf(ks[0].AppKey), JoinNonce: ks[0].JoinNonce}, nil
			},
		})
		if err != nil {
			c.Fail("harness/new-handler", err.Error(), nil)
			return
		}
		type res struct {
			status int
			body   []byte
		}
		out := make([]res, n)
		var wg sync.WaitGroup
		for i := range ks {
			i := i
			wg.Add(1)
			go func() {
				defer wg.Done()
				defer func() { recover() }()
				out[i].status, out[i].body = C16Serve(h, ks[i])
			}()
		}
		wg.Wait()
		c.Eval()
		c.NonTrivial()
		for i := range ks {
			probs, _ := C16Judge(ks[i], out[i].status, out[i].body)
			for _, p := range probs {
				c.Fail(p[0], fmt.Sprintf("%d requests carrying one frame in flight, request %d: %s", n, i, p[1]), nil)
			}
		}
		c.Outcome("identical-frames-in-flight")
	})
	// ---- C: KEK configurations
	spC := (&engine.Space{}).Dim("ns kek{none,16,32}", 3).Dim("as kek{none,16}", 2).Dim("optneg", 2).Dim("kind", 4)
	r.PartDims("C/kek-configurations", spC.Desc(), spC.N(), func(c *engine.Case) {
		var ch [4]int
		spC.Decode(c.Index, ch[:])
		k := baseCase()
		k.NSKEK = [][]byte{nil, c16KEK16, c16KEK32}[ch[0]]
		k.ASKEK = [][]byte{nil, c16KEK16}[ch[1]]
		if ch[2] == 1 {
			k.DL |= 0x80
		}
		k.Kind = ch[3]
		judge(c, k, C16Handler([]C16Case{k}, nil))
	})
	// ---- D: MIC bit flips
	r.PartDims("D/mic-bit-flips", []string{"bit:32", "kind:4", "optneg:2", "together with{nothing else, a 15-byte CFList, RxDelay 16, JoinNonce 2^24}"}, 32*4*2*4, func(c *engine.Case) {
		k := baseCase()
		k.MICFlip = int(c.Index % 32)
		k.Kind = int(c.Index/32) % 4
		if (c.Index/128)%2 == 1 {
			k.DL |= 0x80
		}
		// a second defect in the same request: a join-request with a wrong MIC is answered MICFailed
		// whatever else is wrong with it
		switch c.Index / 256 {
		case 1:
			k.CFList = fillBytes(15, 0x18)
		case 2:
			k.RxDelay = 16
		case 3:
			k.JoinNonce = 1 << 24
		}
		judge(c, k, C16Handler([]C16Case{k}, nil))
	})
	// ---- E: malformed bodies (a non-Success answer or an HTTP error, never a panic)
	k0 := baseCase()
	good := string(k0.Body())
	bodies := []string{"", "{", "null", "[]", `{"MessageType":"JoinReq"}`, `{"MessageType":"RejoinReq"}`, `{"MessageType":"HomeNSReq"}`, `{"MessageType":"Nope"}`,
		strings.Replace(good, `"PHYPayload":"`, `"PHYPayload":"zz`, 1), strings.Replace(good, `"PHYPayload":"00`, `"PHYPayload":"20`, 1),
		strings.Replace(good, `"PHYPayload":"00`, `"PHYPayload":"c0`, 1), strings.Replace(good, `"DevEUI":"`, `"DevEUI":"00`, 1),
		strings.Replace(good, `"SenderID":"010203"`, `"SenderID":"0102"`, 1), strings.Replace(good, `"ReceiverID":"`, `"ReceiverID":"xx`, 1),
		strings.Replace(good, `"RxDelay":1`, `"RxDelay":"1"`, 1), strings.Replace(good, `"DLSettings":"23"`, `"DLSettings":"2"`, 1),
		strings.Replace(good, `"PHYPayload":"`, `"PHYPayload":"`+strings.Repeat("00", 300), 1), strings.Replace(good, "JoinReq", "RejoinReq", 1),
	}
	r.PartDims("E/malformed-bodies", []string{fmt.Sprintf("bodies:%d", len(bodies))}, uint64(len(bodies)), func(c *engine.Case) {
		h := C16Handler([]C16Case{k0}, nil)
		var code int
		var out []byte
		if pn, site, v := engine.Try(func() {
			rec := httptest.NewRecorder()
			h.ServeHTTP(rec, httptest.NewRequest("POST", "/", strings.NewReader(bodies[c.Index])))
			code, out = rec.Code, rec.Body.Bytes()
		}); pn {
			c.Fail("panic/"+site, fmt.Sprintf("body %q panics: %v", bodies[c.Index], v), nil)
			return
		}
		c.NonTrivial()
		var ans c16Answer
		json.Unmarshal(out, &ans)
		var flat struct{ ResultCode string }
		json.Unmarshal(out, &flat)
		if ans.Result.ResultCode == "Success" {
			c.Fail("answer/malformed-body-accepted", fmt.Sprintf("body %q answered Success (HTTP %d): %s", bodies[c.Index], code, out), nil)
		}
		c.Outcome("malformed/" + ans.Result.ResultCode + flat.ResultCode)
	})

	// ---- F: request histories through ONE handler while the device store is
	// re-provisioned between requests (same DevEUI, changing root keys / nonce)
	type hstep struct {
		kind, keyset int
		optNeg       bool
	}
	var halpha []hstep
	for _, kind := range []int{0, 1, 2} {
		for ks := 0; ks < 2; ks++ {
			for _, on := range []bool{false, true} {
				halpha = append(halpha, hstep{kind, ks, on})
			}
		}
	}
	nh := uint64(len(halpha))
	r.PartDims("F/request-histories", []string{fmt.Sprintf("alphabet: kind{join,rejoin0,rejoin1} x root key set(2) x OptNeg = %d", nh), "history length:1..3", "one handler, one DevEUI, device store re-provisioned between requests"}, nh+nh*nh+nh*nh*nh, func(c *engine.Case) {
		i := c.Index
		l := 1
		for n := nh; i >= n; n *= nh {
			i -= n
			l++
		}
		var current C16Case
		nsKEK, asKEK := bytes.Repeat([]byte{0x5A}, 16), bytes.Repeat([]byte{0xC3}, 16)
		store := map[string][]byte{} // handed out by reference on every lookup
		h, err := joinserver.NewHandler(joinserver.HandlerConfig{
			GetDeviceKeysByDevEUIFunc: func(devEUI lorawan.EUI64) (joinserver.DeviceKeys, error) {
				return joinserver.DeviceKeys{DevEUI: devEUI, NwkKey: keyOf(current.NwkKey), AppKey: keyOf(current.AppKey), JoinNonce: current.JoinNonce}, nil
			},
			GetKEKByLabelFunc: func(label string) ([]byte, error) {
				if _, ok := store[label]; !ok {
					switch {
					case strings.HasPrefix(label, "as-"):
						store[label] = append([]byte(nil), asKEK...)
					default:
						store[label] = append([]byte(nil), nsKEK...)
					}
				}
				return store[label], nil
			},
			GetASKEKLabelByDevEUIFunc: func(devEUI lorawan.EUI64) (string, error) {
				return "as-" + hex.EncodeToString(devEUI[:]), nil
			},
		})
		if err != nil {
			c.Fail("harness/new-handler", err.Error(), nil)
			return
		}
		for step := 0; step < l; step++ {
			st := halpha[i%nh]
			i /= nh
			k := baseCase()
			k.Kind, k.NwkKey, k.AppKey = st.kind, C16KeysNwk[st.keyset], C16KeysApp[st.keyset]
			k.Nonce, k.JoinNonce, k.TxID = uint16(0x100+step), 0x20+step, uint32(step)
			if st.optNeg {
				k.DL |= 0x80
			}
			k.NSKEK, k.ASKEK = append([]byte(nil), nsKEK...), append([]byte(nil), asKEK...)
			current = k
			judge(c, k, h)
		}
		c.Outcome(fmt.Sprintf("history/len=%d", l))
	})

	// ---- schedules: merged from the schedule explorer's summary
	mergeSchedSummary(r, "C16")

	if !r.Replay {
		r.Guard(r.OutcomeCount("answer/Success") > 0 && r.OutcomeCount("answer/MICFailed") > 0 && r.OutcomeCount("answer/UnknownDevEUI") > 0, "Success, MICFailed and UnknownDevEUI all observed")
	}
}

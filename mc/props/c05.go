package props

import (
	"bytes"
	"fmt"

	"github.com/brocaar/lorawan"

	"verifmc/engine"
	"verifmc/spec"
)

func init() { register("C05", "model_checking", runC05) }

// c05Init is one initial state of the exchange search.
type c05Init struct {
	name    string
	frame   spec.DataFrame
	foCmds  []spec.Cmd
	frmCmds []spec.Cmd
	v11     bool
}

// c05Pair is the explored object: the real frame and the abstract frame of
// the reference model, stepped in lock-step by every operation.
type c05Pair struct {
	init *c05Init
	p    *lorawan.PHYPayload
	// model
	fopts       []byte
	foptsCmds   bool // library holds FOpts as a command list
	frm         []byte
	frmCmds     bool
	mic         [4]byte
	fcnt        uint32 // the counter the model's frame currently carries
	receiver    bool
	unspecified bool
	// bookkeeping for the "complete path" outcome
	validatedOK bool
}

var (
	c05KeyF   = mustHex("0f0e0d0c0b0a09080706050403020100") // FNwkSIntKey / NwkSKey
	c05KeyS   = mustHex("101112131415161718191a1b1c1d1e1f") // SNwkSIntKey
	c05KeyE   = mustHex("202122232425262728292a2b2c2d2e2f") // NwkSEncKey (FOpts)
	c05KeyA   = mustHex("303132333435363738393a3b3c3d3e3f") // AppSKey / FRMPayload key
	c05KeyBad = mustHex("ffffffffffffffffffffffffffffff00")
)

func (x *c05Pair) micParams(v11 bool, fkey, skey []byte, confFCnt uint32) micParams {
	m := micParams{v11: v11, confFCnt: confFCnt, txDR: 3, txCh: 2, fKey: fkey, sKey: skey}
	if !v11 {
		m.sKey = fkey // 1.0: one network session key in both roles
	}
	return m
}

func (x *c05Pair) modelFrame() spec.DataFrame {
	f := x.init.frame
	f.FCnt = x.fcnt
	f.FOpts = x.fopts
	f.FRM = x.frm
	return f
}

// canonicalStream reports whether bytes are a command stream that decodes and
// re-encodes to itself under the specification (RFU zero, values in range).
func canonicalStream(uplink bool, b []byte) ([]spec.Cmd, bool) {
	cmds, ok := spec.FrameCmds(uplink, b, nil)
	if !ok {
		return nil, false
	}
	for _, c := range cmds {
		cmd := spec.Lookup(uplink, c.CID)
		if cmd == nil {
			if c.CID >= 0x80 {
				return nil, false
			}
			continue
		}
		if cmd.Judged != nil && !cmd.Judged(c.Payload) {
			return nil, false
		}
		f := spec.DecodeFields(cmd.Fields, c.Payload)
		for _, fl := range cmd.Fields {
			if !fl.Must(f[fl.Name]) {
				return nil, false
			}
		}
		enc, ok := spec.EncodeFields(cmd.Fields, cmd.Size, f)
		if !ok || !bytes.Equal(enc, c.Payload) {
			return nil, false
		}
	}
	return cmds, true
}

type c05Op struct {
	name string
	do   func(x *c05Pair) string // returns "lib=<ok|err|true|false> model=<...>"
}

func errStr(err error) string {
	if err != nil {
		return "err"
	}
	return "ok"
}

func c05Ops(v11 bool, withWrong bool) []c05Op {
	var ops []c05Op
	encFRM := func(name string, key []byte) c05Op {
		return c05Op{name, func(x *c05Pair) string {
			err := x.p.EncryptFRMPayload(keyOf(key))
			if len(x.frm) > 0 {
				x.frm = spec.XOR(x.frm, spec.Keystream(key, x.init.frame.Uplink(), x.init.frame.DevAddr, x.fcnt, len(x.frm)))
				x.frmCmds = false
			}
			return "lib=" + errStr(err) + " model=ok"
		}}
	}
	encFOpts := func(name string, key []byte) c05Op {
		return c05Op{name, func(x *c05Pair) string {
			err := x.p.EncryptFOpts(keyOf(key))
			if len(x.fopts) > 0 {
				afd := !x.init.frame.Uplink() && x.init.frame.HasPort && x.init.frame.FPort > 0
				x.fopts = spec.XOR(x.fopts, spec.FOptsKeystream(key, afd, x.init.frame.Uplink(), x.init.frame.DevAddr, x.fcnt))
				x.foptsCmds = false
			}
			return "lib=" + errStr(err) + " model=ok"
		}}
	}
	decFRM := func(name string, key []byte) c05Op {
		return c05Op{name, func(x *c05Pair) string {
			err := x.p.DecryptFRMPayload(keyOf(key))
			model := "ok"
			if len(x.frm) > 0 {
				x.frm = spec.XOR(x.frm, spec.Keystream(key, x.init.frame.Uplink(), x.init.frame.DevAddr, x.fcnt, len(x.frm)))
				x.frmCmds = false
				if x.init.frame.HasPort && x.init.frame.FPort == 0 {
					if _, ok := canonicalStream(x.init.frame.Uplink(), x.frm); ok {
						x.frmCmds = true
					} else {
						x.unspecified = true
						model = "unspecified"
					}
				}
			}
			return "lib=" + errStr(err) + " model=" + model
		}}
	}
	decFOpts := func(name string, key []byte) c05Op {
		return c05Op{name, func(x *c05Pair) string {
			err := x.p.DecryptFOpts(keyOf(key))
			model := "ok"
			if len(x.fopts) > 0 {
				afd := !x.init.frame.Uplink() && x.init.frame.HasPort && x.init.frame.FPort > 0
				x.fopts = spec.XOR(x.fopts, spec.FOptsKeystream(key, afd, x.init.frame.Uplink(), x.init.frame.DevAddr, x.fcnt))
				if _, ok := canonicalStream(x.init.frame.Uplink(), x.fopts); ok {
					x.foptsCmds = true
				} else {
					x.foptsCmds = false
					x.unspecified = true
					model = "unspecified"
				}
			}
			return "lib=" + errStr(err) + " model=" + model
		}}
	}
	validate := func(name string, mk func(x *c05Pair) micParams) c05Op {
		return c05Op{name, func(x *c05Pair) string {
			m := mk(x)
			ok, err := libValidateMIC(x.p, x.init.frame.Uplink(), m)
			want, _ := specMIC(x.modelFrame(), m)
			mres := fmt.Sprint(want == x.mic)
			if err != nil {
				return "lib=err model=" + mres
			}
			if ok && name == "ValidateMIC" {
				x.validatedOK = true
			}
			return "lib=" + fmt.Sprint(ok) + " model=" + mres
		}}
	}
	ops = append(ops, encFRM("EncryptFRMPayload", c05KeyA))
	if v11 {
		ops = append(ops, encFOpts("EncryptFOpts", c05KeyE))
	}
	ops = append(ops,
		c05Op{"SetMIC", func(x *c05Pair) string {
			m := x.micParams(x.init.v11, c05KeyF, c05KeyS, 5)
			err := libSetMIC(x.p, x.init.frame.Uplink(), m)
			x.mic, _ = specMIC(x.modelFrame(), m)
			return "lib=" + errStr(err) + " model=ok"
		}},
		c05Op{"Transfer", func(x *c05Pair) string {
			wire, err := x.p.MarshalBinary()
			if err != nil {
				return "lib=err model=ok"
			}
			var q lorawan.PHYPayload
			if err := q.UnmarshalBinary(wire); err != nil {
				return "lib=err model=ok"
			}
			observe(&q) // a receiver logs the frame it decoded
			x.p = &q
			x.fcnt &= 0xFFFF
			x.foptsCmds, x.frmCmds = false, false
			x.receiver = true
			x.validatedOK = false
			return "lib=ok model=ok"
		}},
		c05Op{"TransferAsText", func(x *c05Pair) string {
			// the same hop with the frame in its base64 text form (as gateways / JSON APIs carry it)
			text, err := x.p.MarshalText()
			if err != nil {
				return "lib=err model=ok"
			}
			var q lorawan.PHYPayload
			if err := q.UnmarshalText(text); err != nil {
				return "lib=err model=ok"
			}
			x.p = &q
			x.fcnt &= 0xFFFF
			x.foptsCmds, x.frmCmds = false, false
			x.receiver = true
			x.validatedOK = false
			return "lib=ok model=ok"
		}},
		c05Op{"SetFCnt32", func(x *c05Pair) string {
			x.p.MACPayload.(*lorawan.MACPayload).FHDR.FCnt = x.init.frame.FCnt
			x.fcnt = x.init.frame.FCnt
			return "lib=ok model=ok"
		}},
		validate("ValidateMIC", func(x *c05Pair) micParams { return x.micParams(x.init.v11, c05KeyF, c05KeyS, 5) }),
	)
	if v11 {
		ops = append(ops, decFOpts("DecryptFOpts", c05KeyE))
	}
	ops = append(ops, decFRM("DecryptFRMPayload", c05KeyA))
	if withWrong {
		ops = append(ops,
			validate("ValidateMIC(wrong key)", func(x *c05Pair) micParams { return x.micParams(x.init.v11, c05KeyBad, c05KeyS, 5) }),
			validate("ValidateMIC(other MAC version)", func(x *c05Pair) micParams { return x.micParams(!x.init.v11, c05KeyF, c05KeyS, 5) }),
			validate("ValidateMIC(wrong ConfFCnt)", func(x *c05Pair) micParams { return x.micParams(x.init.v11, c05KeyF, c05KeyS, 6) }),
			encFRM("EncryptFRMPayload(wrong key)", c05KeyBad),
			decFRM("DecryptFRMPayload(wrong key)", c05KeyBad),
		)
		if v11 {
			ops = append(ops, decFOpts("DecryptFOpts(wrong key)", c05KeyBad))
		}
	}
	return ops
}

func c05Inits(long bool) []c05Init {
	var out []c05Init
	type fo struct {
		name string
		n    int
	}
	type fr struct {
		name string
		port int
		n    int
		cmds bool
	}
	fos := []fo{{"nofopts", 0}, {"fopts1cmd", 2}, {"fopts15", 15}}
	frs := []fr{{"nopayload", -1, 0, false}, {"port0empty", 0, 0, false}, {"port0cmds", 0, 9, true}, {"app1", 1, 1, false}, {"app16", 10, 16, false}, {"app17", 10, 17, false}, {"app50", 200, 50, false}}
	if long {
		// frames up to the 255-byte maximum (MHDR 1 + FHDR 7..22 + FPort 1 + FRMPayload + MIC 4)
		fos = []fo{{"nofopts", 0}, {"fopts15", 15}}
		frs = []fr{{"app227", 10, 227, false}, {"app231", 10, 231, false}, {"app232", 10, 232, false}, {"app242", 10, 242, false}, {"port0cmds240", 0, 240, true}}
	}
	for _, v11 := range []bool{false, true} {
		for _, uplink := range []bool{true, false} {
			for _, confirmed := range []bool{false, true} {
				for _, o := range fos {
					for _, r := range frs {
						if r.port == 0 && o.n > 0 || 1+7+o.n+1+r.n+4 > 255 {
							continue
						}
						f := spec.DataFrame{DevAddr: 0x01AB02CD, FCnt: 0x00030007, ADR: true, ACK: confirmed}
						switch {
						case uplink && confirmed:
							f.MType = 4
						case uplink:
							f.MType = 2
						case confirmed:
							f.MType = 5
						default:
							f.MType = 3
						}
						in := c05Init{v11: v11, name: fmt.Sprintf("%s/%s/v11=%v/up=%v/conf=%v", o.name, r.name, v11, uplink, confirmed)}
						if o.n > 0 {
							in.foCmds = spec.Compose(uplink, o.n, 3)
							f.FOpts = spec.CmdBytes(in.foCmds)
						}
						if r.port >= 0 {
							f.HasPort, f.FPort = true, byte(r.port)
							if r.cmds {
								in.frmCmds = spec.Compose(uplink, r.n, 5)
								f.FRM = spec.CmdBytes(in.frmCmds)
							} else {
								f.FRM = fillBytes(r.n, 0x4E)
							}
						}
						in.frame = f
						out = append(out, in)
					}
				}
			}
		}
	}
	return out
}

func runC05(r *engine.Run) {
	if err := spec.SelfTest(); err != nil {
		r.HarnessError("%v", err)
		return
	}
	r.Rule = "E2 + E1. Exchange histories: explicit-state BFS (depth 8 quick / 10 thorough, 14 operations incl. wrong-key / wrong-parameter variants) from all initial frames {no FOpts, 1 command, 15 bytes of commands} x {no payload, port 0 without payload, port-0 commands, 1/16/17/50 application bytes} x {up, down} x {1.0, 1.1} x {unconfirmed, confirmed+ACK}; operations: EncryptFRMPayload, EncryptFOpts (1.1), SetMIC, Transfer (MarshalBinary -> fresh UnmarshalBinary, counter drops to 16 bits), TransferAsText (the same through MarshalText / UnmarshalText), SetFCnt32, ValidateMIC, DecryptFOpts (1.1), DecryptFRMPayload; the explored object is the real frame paired with the abstract frame of the reference model (bytes of FOpts/FRMPayload, their form, MIC, current counter), stepped in lock-step: every operation's error/no-error, every Validate result (= carried MIC equals the specification MIC of the current content under the parameters used), the serialisation after every transition and the decoded command lists are compared; states whose content the model leaves unspecified (decrypting with the wrong key into a non-canonical command stream) are counted and not expanded. Tamper (E1): on the same frames, every single-bit flip of the serialised frame and every single-parameter mismatch (each of the 128 bits of each key, each of the 16 upper FCnt bits, ConfFCnt, txDR, txCh, MAC version, direction); the receiver either fails to decode or Validate answers carriedMIC == specification MIC of the received content under its parameters."
	frameHistory(r, 2)
	cryptoHistory(r)
	manySessions(r)
	c05CommandValues(r)
	r.Assume("keys are fixed distinguishing values; single-bit walks over all key bits are part of the tamper enumeration; data independence for opaque bytes")
	r.Assume("canonical state = deep print of the real frame plus the model's abstract frame; equal deep prints are indistinguishable to every method")

	inits := c05Inits(false)
	chosen := inits
	depth := 8
	if r.Thorough() {
		depth = 10
	}
	r.Extra("initial_states", len(chosen))
	var totalPruned uint64
	for ii := range chosen {
		in := &chosen[ii]
		ops := c05Ops(in.v11, true)
		var xops []engine.XOp
		for i := range ops {
			op := ops[i]
			xops = append(xops, engine.XOp{Name: op.name, Do: func(obj interface{}) string { return op.do(obj.(*c05Pair)) }})
		}
		x := engine.XSpec{
			Name: "exchange/" + in.name, Ops: xops, Depth: depth,
			New: func() interface{} {
				p, err := buildFrame(in.frame, in.foCmds, in.frmCmds)
				if err != nil {
					panic(err)
				}
				return &c05Pair{init: in, p: p, fopts: append([]byte(nil), in.frame.FOpts...), foptsCmds: in.foCmds != nil,
					frm: append([]byte(nil), in.frame.FRM...), frmCmds: in.frmCmds != nil, fcnt: in.frame.FCnt}
			},
			Snap: func(obj interface{}) string {
				x := obj.(*c05Pair)
				s := fmt.Sprintf("%s|m:%x:%v:%x:%v:%x:%x:%v", deepPrint(x.p), x.fopts, x.foptsCmds, x.frm, x.frmCmds, x.mic, x.fcnt, x.receiver)
				if x.unspecified {
					return engine.PrunePrefix + s
				}
				return s
			},
		}
		x.Check = func(c *engine.Case, obj interface{}, path []int, last string) {
			st := obj.(*c05Pair)
			opName := ops[path[len(path)-1]].name
			var lib, model string
			fmt.Sscanf(last, "lib=%s model=%s", &lib, &model)
			if st.unspecified {
				c.Outcome("exchange/unspecified-state(pruned)")
				return
			}
			if lib != model {
				// FPort 0 with an empty FRMPayload: the library cannot "decrypt" nothing
				key := "exchange/" + opName + "/result"
				if opName == "DecryptFRMPayload" && len(st.frm) == 0 && in.frame.HasPort && in.frame.FPort == 0 {
					key = "exchange/DecryptFRMPayload/port0-empty-payload"
				}
				c.Fail(key, fmt.Sprintf("%s after %v: library answered %s, reference model %s", in.name, x.PathNames(path), lib, model), nil)
				return
			}
			c.Outcome("exchange/" + opName + "=" + lib)
			// the real frame serialises to the model's bytes
			wire, err := st.p.MarshalBinary()
			want := append(st.modelFrame().Msg(), st.mic[:]...)
			if err != nil || !bytes.Equal(wire, want) {
				c.Fail("exchange/"+opName+"/frame-differs-from-model", fmt.Sprintf("%s after %v: frame %x (err %v), model %x", in.name, x.PathNames(path), wire, err, want), nil)
				return
			}
			mp := st.p.MACPayload.(*lorawan.MACPayload)
			if mp.FHDR.FCnt != st.fcnt {
				c.Fail("exchange/fcnt", fmt.Sprintf("%s after %v: FCnt %#x, model %#x", in.name, x.PathNames(path), mp.FHDR.FCnt, st.fcnt), nil)
			}
			// decoded forms carry exactly the model's commands
			if st.foptsCmds {
				cmds, _ := spec.FrameCmds(in.frame.Uplink(), st.fopts, nil)
				if msg := sameCmds(in.frame.Uplink(), mp.FHDR.FOpts, cmds); msg != "" {
					c.Fail("exchange/"+opName+"/fopts-commands", fmt.Sprintf("%s after %v: %s", in.name, x.PathNames(path), msg), nil)
				}
			}
			if st.frmCmds {
				cmds, _ := spec.FrameCmds(in.frame.Uplink(), st.frm, nil)
				if msg := sameCmds(in.frame.Uplink(), mp.FRMPayload, cmds); msg != "" {
					c.Fail("exchange/"+opName+"/frm-commands", fmt.Sprintf("%s after %v: %s", in.name, x.PathNames(path), msg), nil)
				}
			}
			// a complete sender -> receiver path: validated and both parts back to the original content
			if st.receiver && st.validatedOK && bytes.Equal(st.fopts, in.frame.FOpts) && bytes.Equal(st.frm, in.frame.FRM) &&
				(len(st.fopts) == 0 || st.foptsCmds || !in.v11) && (in.frmCmds == nil || st.frmCmds) {
				c.Outcome("exchange/complete-path")
				if c.WantSample() {
					c.Sample(func() interface{} {
						return map[string]interface{}{"search": "exchange/" + in.name, "path": x.PathNames(path), "wire": fmt.Sprintf("%x", want)}
					})
				}
			}
		}
		res := r.Explore(x)
		totalPruned += res.Pruned
	}
	r.Extra("unspecified_states_pruned", totalPruned)

	// ---- whole key sets: sender and receiver each hold (FNwkSIntKey, SNwkSIntKey) from {K1, K2, the
	// all-zero key}^2: the receiver accepts exactly when the specification MIC under its key set equals the
	// one the sender computed (a value like the all-zero key is a key, not "no key")
	keyAlpha := [][]byte{c05KeyF, c05KeyS, make([]byte, 16)}
	spK := (&engine.Space{}).Dim("sender F", 3).Dim("sender S", 3).Dim("receiver F", 3).Dim("receiver S", 3).Dim("direction", 2).Dim("version", 2)
	r.PartDims("tamper/key-set-pairs", spK.Desc(), spK.N(), func(c *engine.Case) {
		var ch [6]int
		spK.Decode(c.Index, ch[:])
		uplink := ch[4] == 1
		v11 := ch[5] == 1
		f := spec.DataFrame{MType: 3, DevAddr: 0x01AB02CD, FCnt: 0x00030007, ADR: true, HasPort: true, FPort: 10, FRM: fillBytes(9, 0x4E)}
		if uplink {
			f.MType = 2
		}
		mk := func(fk, sk []byte) micParams {
			m := micParams{v11: v11, confFCnt: 0, txDR: 3, txCh: 2, fKey: fk, sKey: sk}
			if !v11 {
				if uplink {
					m.sKey = fk
				} else {
					m.fKey = sk
				}
			}
			return m
		}
		snd, rcv := mk(keyAlpha[ch[0]], keyAlpha[ch[1]]), mk(keyAlpha[ch[2]], keyAlpha[ch[3]])
		p, err := buildFrame(f, nil, nil)
		if err != nil {
			c.Fail("harness/build", err.Error(), nil)
			return
		}
		c.Eval()
		if err := libSetMIC(p, uplink, snd); err != nil {
			c.Fail("tamper/key-set-pairs/set-mic", err.Error(), nil)
			return
		}
		sent, _ := specMIC(f, snd)
		if [4]byte(p.MIC) != sent {
			c.Outcome("tamper/key-set-pairs/sender-mic-differs-from-spec(see C02)")
			return
		}
		want, _ := specMIC(f, rcv)
		ok, err := libValidateMIC(p, uplink, rcv)
		c.NonTrivial()
		if err != nil || ok != (want == sent) {
			c.Fail("tamper/key-set", fmt.Sprintf("sender keys F=%x S=%x, receiver keys F=%x S=%x (v1.1=%v uplink=%v): Validate=%v err=%v; the specification MIC under the receiver's keys is %x, the frame carries %x", snd.fKey, snd.sKey, rcv.fKey, rcv.sKey, v11, uplink, ok, err, want[:], sent[:]), nil)
		}
	})

	// ---- an exchange whose frame carries the MIC 00000000 / ffffffff (witness.go): the sender's plaintext is
	// chosen so that the encrypted payload is the witness's; the receiver validates, decrypts and obtains it
	r.Part("exchange/conspicuous-mic-value", uint64(len(witnessDownlink)), func(c *engine.Case) {
		w := witnessDownlink[c.Index]
		appSKey := c05KeyA
		plain := spec.XOR(w.frm, spec.Keystream(appSKey, false, 0x01020304, w.fcnt, len(w.frm)))
		f := spec.DataFrame{MType: 3, DevAddr: 0x01020304, FCnt: w.fcnt, HasPort: true, FPort: 10, FRM: w.frm}
		m := micParams{v11: false, fKey: witnessKey, sKey: witnessKey}
		if got, _ := specMIC(f, m); got != w.mic {
			r.HarnessError("witness downlink: the specification MIC is %x, not %x", got[:], w.mic[:])
			return
		}
		c.Eval()
		g := f
		g.FRM = plain
		p, err := buildFrame(g, nil, nil)
		if err != nil {
			c.Fail("harness/build", err.Error(), nil)
			return
		}
		if err := p.EncryptFRMPayload(keyOf(appSKey)); err != nil {
			c.Fail("witness/encrypt", err.Error(), nil)
			return
		}
		if err := libSetMIC(p, false, m); err != nil || [4]byte(p.MIC) != w.mic {
			c.Fail("witness/set-mic", fmt.Sprintf("sender's MIC %x (err %v), specification %x", p.MIC[:], err, w.mic[:]), nil)
			return
		}
		wire, err := p.MarshalBinary()
		if err != nil {
			c.Fail("witness/marshal", err.Error(), nil)
			return
		}
		var q lorawan.PHYPayload
		if err := q.UnmarshalBinary(wire); err != nil {
			c.Fail("witness/decode", err.Error(), nil)
			return
		}
		observe(&q) // a receiver logs the frame it decoded
		c.NonTrivial()
		qm := q.MACPayload.(*lorawan.MACPayload)
		qm.FHDR.FCnt = w.fcnt
		if ok, err := libValidateMIC(&q, false, m); err != nil || !ok {
			c.Fail("witness/receiver-rejects-genuine-frame", fmt.Sprintf("frame %x (its correct MIC is %x): the receiver with the sender's keys and counter gets Validate=%v err=%v", wire, w.mic[:], ok, err), nil)
			return
		}
		if err := q.DecryptFRMPayload(keyOf(appSKey)); err != nil || len(qm.FRMPayload) != 1 || !bytes.Equal(qm.FRMPayload[0].(*lorawan.DataPayload).Bytes, plain) {
			c.Fail("witness/payload", fmt.Sprintf("receiver obtains %s (err %v), sent %x", deepPrint(qm.FRMPayload), err, plain), nil)
		}
	})

	// ---- tamper (E1)
	tam := append(append([]c05Init(nil), inits...), c05Inits(true)...)
	r.PartDims("tamper", []string{fmt.Sprintf("frame:%d (shapes x direction x version x confirmed)", len(tam)), "every bit of the serialised frame", "parameter mismatches: 128+128 key bits, 16 upper FCnt bits, ConfFCnt, txDR, txCh, version, direction"}, uint64(len(tam)), func(c *engine.Case) {
		in := &tam[c.Index]
		f := in.frame
		uplink := f.Uplink()
		p, err := buildFrame(f, in.foCmds, in.frmCmds)
		if err != nil {
			c.Fail("harness/build", err.Error(), nil)
			return
		}
		sender := micParams{v11: in.v11, confFCnt: 5, txDR: 3, txCh: 2, fKey: c05KeyF, sKey: c05KeyS}
		if !in.v11 {
			sender.sKey = c05KeyF
		}
		p.EncryptFRMPayload(keyOf(c05KeyA))
		if in.v11 {
			p.EncryptFOpts(keyOf(c05KeyE))
		}
		if err := libSetMIC(p, uplink, sender); err != nil {
			c.Fail("tamper/set-mic", err.Error(), nil)
			return
		}
		wire, err := p.MarshalBinary()
		if err != nil {
			c.Fail("tamper/marshal", err.Error(), nil)
			return
		}
		// receiver side for a received byte string and receiver parameters
		receive := func(what string, rx []byte, m micParams, fcntUpper uint32, asUplink *bool) {
			c.Eval()
			var q lorawan.PHYPayload
			if err := q.UnmarshalBinary(rx); err != nil {
				c.Outcome("tamper/undecodable")
				return
			}
			observe(&q) // a receiver logs the frame it decoded
			mp, ok := q.MACPayload.(*lorawan.MACPayload)
			if !ok {
				// the flipped bit turned the frame into another kind: a receiver that still runs
				// its data-frame validation must get a rejection (false or an error), not a panic
				for _, up := range []bool{true, false} {
					okv, err := false, error(nil)
					if pn, site, v := engine.Try(func() { okv, err = libValidateMIC(&q, up, m) }); pn {
						c.Fail("tamper/validate-panics/"+site, fmt.Sprintf("%s %s: received %x decodes to a %T; data MIC validation (uplink=%v) panics: %v", in.name, what, rx, q.MACPayload, up, v), nil)
						return
					}
					if okv && err == nil {
						c.Fail("tamper/non-data-frame-validates", fmt.Sprintf("%s %s: received %x decodes to a %T and passes the data MIC validation", in.name, what, rx, q.MACPayload), nil)
						return
					}
				}
				c.Outcome("tamper/not-a-data-frame(rejected)")
				return
			}
			mp.FHDR.FCnt |= fcntUpper
			mt := rx[0] >> 5
			rxUp := mt == 2 || mt == 4
			if asUplink != nil {
				rxUp = *asUplink
			}
			okv, err := libValidateMIC(&q, rxUp, m)
			if err != nil {
				c.Fail("tamper/validate-error-on-accepted-frame", fmt.Sprintf("%s %s: %x: %v", in.name, what, rx, err), nil)
				return
			}
			c.NonTrivial()
			want, _ := spec.DataMIC(spec.DataMICParams{V11: m.v11, Uplink: rxUp, ACK: rx[5]&0x20 != 0, ConfFCnt: m.confFCnt, TxDR: m.txDR, TxCh: m.txCh,
				DevAddr: uint32(rx[4])<<24 | uint32(rx[3])<<16 | uint32(rx[2])<<8 | uint32(rx[1]), FCnt: mp.FHDR.FCnt, FKey: m.fKey, SKey: m.sKey}, rx[:len(rx)-4])
			carried := [4]byte{rx[len(rx)-4], rx[len(rx)-3], rx[len(rx)-2], rx[len(rx)-1]}
			if okv != (carried == want) {
				key := "tamper/" + what
				if i := bytes.IndexByte([]byte(what), ' '); i > 0 {
					key = "tamper/" + what[:i]
				}
				c.Fail(key, fmt.Sprintf("%s %s: received %x: Validate=%v but carried MIC %x, specification MIC of the received content %x", in.name, what, rx, okv, carried, want), nil)
				return
			}
			if okv {
				c.Outcome("tamper/accepted(spec MIC equal)")
			} else {
				c.Outcome("tamper/rejected")
			}
		}
		upper := f.FCnt & 0xFFFF0000
		receive("untampered", wire, sender, upper, nil)
		for bit := 0; bit < 8*len(wire); bit++ {
			t := append([]byte(nil), wire...)
			t[bit/8] ^= 1 << uint(bit%8)
			what := "frame-bit"
			if bit/8 == 0 && (bit%8 == 2 || bit%8 == 3 || bit%8 == 4) {
				what = "mhdr-rfu-bit"
			}
			receive(fmt.Sprintf("%s %d", what, bit), t, sender, upper, nil)
		}
		for bit := 0; bit < 128; bit++ {
			m := sender
			m.fKey = append([]byte(nil), sender.fKey...)
			m.fKey[bit/8] ^= 1 << uint(bit%8)
			if !in.v11 {
				m.sKey = m.fKey
			}
			receive(fmt.Sprintf("fkey-bit %d", bit), wire, m, upper, nil)
			if in.v11 {
				m2 := sender
				m2.sKey = append([]byte(nil), sender.sKey...)
				m2.sKey[bit/8] ^= 1 << uint(bit%8)
				receive(fmt.Sprintf("skey-bit %d", bit), wire, m2, upper, nil)
			}
		}
		for bit := uint(16); bit < 32; bit++ {
			receive(fmt.Sprintf("fcnt-upper-bit %d", bit), wire, sender, upper^(1<<bit), nil)
		}
		m := sender
		m.confFCnt ^= 1
		receive("confFCnt", wire, m, upper, nil)
		m = sender
		m.txDR ^= 1
		receive("txDR", wire, m, upper, nil)
		m = sender
		m.txCh ^= 1
		receive("txCh", wire, m, upper, nil)
		m = sender
		m.v11 = !m.v11
		if !m.v11 {
			m.sKey = m.fKey
		} else {
			m.sKey = c05KeyS
		}
		receive("mac-version", wire, m, upper, nil)
		other := !uplink
		receive("direction", wire, sender, upper, &other)
	})

	if !r.Replay {
		r.Guard(r.OutcomeCount("exchange/complete-path") >= uint64(len(chosen)), "at least one complete sender->receiver path per initial state (%d for %d)", r.OutcomeCount("exchange/complete-path"), len(chosen))
		r.Guard(r.OutcomeCount("exchange/ValidateMIC=false") > 0 && r.OutcomeCount("exchange/ValidateMIC=true") > 0, "ValidateMIC observed true and false")
		r.Guard(r.OutcomeCount("tamper/rejected") > 0, "tampered frames rejected")
	}
}

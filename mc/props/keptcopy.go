package props

import (
	"fmt"
	"reflect"
	"strings"

	"verifmc/engine"
)

// keptCopy: a program decodes into one variable again and again (a receive loop) and keeps earlier
// results by plain assignment (a queue, a map entry, a channel send). The copy shares whatever the
// decoded value points at, so a decoder that re-uses what its receiver holds - a payload object, the
// backing array of a list, a byte buffer - rewrites what was kept. For every ordered pair (A, B) of the
// type's alphabet: decode A, copy by assignment, decode B into the same variable; the copy still
// prints as it did.
func keptCopy(c *engine.Case, key string, t reuseType, ia, ib int) {
	c.Eval()
	a, b := t.alphabet[ia], t.alphabet[ib]
	v := t.fresh()
	if err := t.decode(v, append([]byte(nil), a...)); err != nil {
		c.Outcome("kept-copy/first-decode-refused")
		return
	}
	rv := reflect.ValueOf(v)
	if rv.Kind() != reflect.Ptr {
		c.Outcome("kept-copy/not-a-pointer-receiver")
		return
	}
	keep := reflect.New(rv.Type().Elem())
	keep.Elem().Set(rv.Elem()) // keep := *v
	before := deepPrint(keep.Interface())
	t.decode(v, append([]byte(nil), b...))
	c.NonTrivial()
	if after := deepPrint(keep.Interface()); after != before {
		c.Fail(key, fmt.Sprintf("%s: a copy (by assignment) of the value decoded from %x reads %s after %x was decoded into the variable it was copied from; before: %s", t.name, a, after, b, before), nil)
		return
	}
	c.Outcome("kept-copy/unchanged")
}

// keptCopyParts adds one part per type: all ordered pairs of its alphabet.
func keptCopyParts(r *engine.Run, prefix string, types []reuseType) {
	for _, t := range types {
		t := t
		na := uint64(len(t.alphabet))
		if na == 0 || strings.Contains(t.name, "follow-up") {
			// (the follow-up variant works on the shared value on purpose: those calls are the caller's)
			continue
		}
		r.PartDims(prefix+"/"+t.name, []string{fmt.Sprintf("first input:%d", na), fmt.Sprintf("second input:%d", na)}, na*na, func(c *engine.Case) {
			keptCopy(c, prefix+"/"+t.name, t, int(c.Index%na), int(c.Index/na))
		})
	}
}

// reuseTypesNamed selects entries of c10ReuseTypes by name.
func reuseTypesNamed(names ...string) []reuseType {
	var out []reuseType
	for _, t := range c10ReuseTypes() {
		for _, n := range names {
			if t.name == n {
				out = append(out, t)
			}
		}
	}
	return out
}

package props

import (
	"bytes"
	"encoding/hex"
	"encoding/json"
	"fmt"
	"reflect"
	"strings"
	"time"

	"github.com/brocaar/lorawan"
	"github.com/brocaar/lorawan/backend"

	"verifmc/engine"
	"verifmc/spec"
)

func init() { register("C17", "exploration", runC17) }

var (
	timeType    = reflect.TypeOf(time.Time{})
	isoTimeType = reflect.TypeOf(backend.ISO8601Time{})
	rawMsgType  = reflect.TypeOf(json.RawMessage{})
)

// jsonSame compares two values of the backend types up to what the property
// allows: timestamps to one second, nil == empty for byte strings and slices.
func jsonSame(a, b reflect.Value, path string) string {
	if a.Type() != b.Type() {
		return path + ": types differ"
	}
	switch {
	case a.Type() == isoTimeType || a.Type() == timeType:
		var ta, tb time.Time
		if a.Type() == isoTimeType {
			ta, tb = time.Time(a.Interface().(backend.ISO8601Time)), time.Time(b.Interface().(backend.ISO8601Time))
		} else {
			ta, tb = a.Interface().(time.Time), b.Interface().(time.Time)
		}
		if !ta.Truncate(time.Second).Equal(tb.Truncate(time.Second)) {
			return fmt.Sprintf("%s: %s != %s", path, ta.Format(time.RFC3339Nano), tb.Format(time.RFC3339Nano))
		}
		return ""
	case a.Type() == rawMsgType:
		var x, y bytes.Buffer
		if a.Len() > 0 {
			json.Compact(&x, a.Bytes())
		}
		if b.Len() > 0 {
			json.Compact(&y, b.Bytes())
		}
		if x.String() != y.String() {
			return fmt.Sprintf("%s: %s != %s", path, x.String(), y.String())
		}
		return ""
	}
	switch a.Kind() {
	case reflect.Ptr:
		if a.IsNil() != b.IsNil() {
			return fmt.Sprintf("%s: nil-ness differs (%v vs %v)", path, a.IsNil(), b.IsNil())
		}
		if a.IsNil() {
			return ""
		}
		return jsonSame(a.Elem(), b.Elem(), path)
	case reflect.Struct:
		for i := 0; i < a.NumField(); i++ {
			if a.Type().Field(i).PkgPath != "" {
				continue
			}
			if m := jsonSame(a.Field(i), b.Field(i), path+"."+a.Type().Field(i).Name); m != "" {
				return m
			}
		}
		return ""
	case reflect.Slice:
		if a.Len() != b.Len() {
			return fmt.Sprintf("%s: lengths %d != %d", path, a.Len(), b.Len())
		}
		for i := 0; i < a.Len(); i++ {
			if m := jsonSame(a.Index(i), b.Index(i), fmt.Sprintf("%s[%d]", path, i)); m != "" {
				return m
			}
		}
		return ""
	case reflect.Array:
		for i := 0; i < a.Len(); i++ {
			if m := jsonSame(a.Index(i), b.Index(i), fmt.Sprintf("%s[%d]", path, i)); m != "" {
				return m
			}
		}
		return ""
	default:
		if !reflect.DeepEqual(a.Interface(), b.Interface()) {
			return fmt.Sprintf("%s: %v != %v", path, a.Interface(), b.Interface())
		}
		return ""
	}
}

// optionalFields lists the paths (index chains) of pointer / omitempty fields.
type optField struct {
	index []int
	name  string
}

func optionalFields(t reflect.Type, index []int, prefix string, depth int) []optField {
	var out []optField
	for i := 0; i < t.NumField(); i++ {
		f := t.Field(i)
		if f.PkgPath != "" {
			continue
		}
		idx := append(append([]int(nil), index...), i)
		name := prefix + f.Name
		ft := f.Type
		if f.Anonymous && ft.Kind() == reflect.Struct {
			out = append(out, optionalFields(ft, idx, prefix, depth)...)
			continue
		}
		if ft.Kind() == reflect.Ptr || strings.Contains(f.Tag.Get("json"), "omitempty") {
			out = append(out, optField{idx, name})
			continue
		}
		if ft.Kind() == reflect.Struct && ft.PkgPath() == "github.com/brocaar/lorawan/backend" && ft != isoTimeType && depth < 1 {
			out = append(out, optionalFields(ft, idx, name+".", depth+1)...)
		}
	}
	return out
}

// fillValue sets v (recursively) to a non-zero value determined by variant.
func fillValue(v reflect.Value, variant int, depth int) {
	t := v.Type()
	switch {
	case t == isoTimeType:
		ts := []time.Time{time.Date(2018, 5, 17, 10, 20, 30, 0, time.UTC), time.Date(1999, 12, 31, 23, 59, 59, 0, time.FixedZone("", 5*3600+1800)), time.Date(2038, 1, 19, 3, 14, 8, 0, time.FixedZone("", -8*3600))}
		v.Set(reflect.ValueOf(backend.ISO8601Time(ts[variant%3])))
		return
	case t == rawMsgType:
		v.Set(reflect.ValueOf(json.RawMessage([]string{`{"a":1}`, `[1,2]`, `"x"`}[variant%3])))
		return
	case t == reflect.TypeOf(backend.Frequency(0)):
		v.SetInt([]int64{868100000, 923300000, 433175000}[variant%3])
		return
	case t == reflect.TypeOf(backend.Percentage(0)):
		v.SetInt([]int64{10, 100, 1}[variant%3])
		return
	case t == reflect.TypeOf(lorawan.DLSettings{}):
		v.Set(reflect.ValueOf([]lorawan.DLSettings{{RX2DataRate: 2, RX1DROffset: 1}, {OptNeg: true, RX2DataRate: 15, RX1DROffset: 7}, {RX2DataRate: 8}}[variant%3]))
		return
	}
	switch v.Kind() {
	case reflect.Ptr:
		v.Set(reflect.New(t.Elem()))
		fillValue(v.Elem(), variant, depth)
	case reflect.Struct:
		if depth > 3 {
			return
		}
		for i := 0; i < v.NumField(); i++ {
			if t.Field(i).PkgPath == "" {
				fillValue(v.Field(i), variant+i, depth+1)
			}
		}
	case reflect.Slice:
		if t.Elem().Kind() == reflect.Uint8 {
			v.SetBytes([][]byte{{0x01, 0x02, 0x03}, {0xFF}, {0x00, 0x00, 0xAB, 0xCD}}[variant%3])
			return
		}
		n := 1 + variant%2
		s := reflect.MakeSlice(t, n, n)
		for i := 0; i < n; i++ {
			fillValue(s.Index(i), variant+i, depth+1)
		}
		v.Set(s)
	case reflect.Array:
		for i := 0; i < v.Len(); i++ {
			v.Index(i).SetUint(uint64((0x10*(variant+1) + i) & 0xFF))
		}
	case reflect.String:
		v.SetString([]string{"1.0", "010203", "as-id \"quoted\" é"}[variant%3])
	case reflect.Bool:
		v.SetBool(true)
	case reflect.Int, reflect.Int8, reflect.Int16, reflect.Int32, reflect.Int64:
		v.SetInt([]int64{1, -120, 86400}[variant%3])
	case reflect.Uint, reflect.Uint8, reflect.Uint16, reflect.Uint32, reflect.Uint64:
		v.SetUint([]uint64{1, 200, 65535}[variant%3] % (1 << uint(t.Bits()-1)))
	case reflect.Float32, reflect.Float64:
		v.SetFloat([]float64{868.1, -7.5, 0.25}[variant%3])
	}
}

func runC17(r *engine.Run) {
	if err := spec.SelfTest(); err != nil {
		r.HarnessError("%v", err)
		return
	}
	r.Rule = "E1. Frequency: decode(encode(f)) = f for (quick) every multiple of 100 Hz in 100..1000 MHz and 2.4..2.5 GHz plus every Hz of twenty 10 kHz windows, (thorough) every Hz value 0..2^32; Percentage: every integer -1000..1000; HEXBytes: lengths 0..600 and 1 KiB..64 KiB x 3 fillers x {plain, 0x-prefixed, upper case}; ISO8601Time: every second of four days (years 1, 1970, 2038, 9999) x zone {Z, +05:30, -08:00}; each of the 20 payload structs and the 13 building-block structs with every subset of its optional (pointer / omitempty) fields present (up to 2^10 subsets) x 4 value variants (three value sets; present pointer fields pointing at the zero value), compared field by field after json.Marshal/json.Unmarshal. Key envelopes: KEK length {16,24,32} x KEK(2) x key(3) x label {'', 'lbl'}: blob equals an independent RFC 3394 wrap, Unwrap returns the key, every single-bit flip of the blob (192), wrong KEK and truncated/extended blobs: Unwrap succeeds iff the independent integrity check passes. Non-trivial: a value that was encoded, decoded and compared."
	// the process time zone is read by the time package (and by whoever calls time.Local / time.Date with it)
	// when the process starts: an answer of the environment, not an argument
	r.EnvironmentVariants([]engine.EnvVariant{{Name: "TZ=Asia/Tokyo", Env: []string{"TZ=Asia/Tokyo"}}, {Name: "TZ=America/Los_Angeles", Env: []string{"TZ=America/Los_Angeles"}}, {Name: "TZ=Pacific/Kiritimati", Env: []string{"TZ=Pacific/Kiritimati"}}})
	c17History(r)
	r.Assume("encoding/json and strconv are trusted; RFC 3394 is re-implemented in mc/spec/crypto.go and self-tested on the RFC vectors")

	// ---- Frequency
	freqRT := func(c *engine.Case, hz int64) {
		c.Eval()
		c.NonTrivial()
		f := backend.Frequency(hz)
		b, err := json.Marshal(f)
		if err != nil {
			c.Fail("frequency/encode-error", err.Error(), nil)
			return
		}
		var g backend.Frequency
		if err := json.Unmarshal(b, &g); err != nil {
			c.Fail("frequency/decode-error", fmt.Sprintf("%d Hz -> %s: %v", hz, b, err), nil)
			return
		}
		if g != f {
			c.Fail("frequency/round-trip-differs", fmt.Sprintf("%d Hz encodes to %s which decodes to %d Hz", hz, b, int64(g)), nil)
		}
	}
	if r.Thorough() {
		r.PartDims("frequency/all-hz", []string{"Hz 0..2^32 in blocks of 65536"}, 1<<16, func(c *engine.Case) {
			base := int64(c.Index) << 16
			for i := int64(0); i < 1<<16; i++ {
				freqRT(c, base+i)
			}
		})
	}
	r.PartDims("frequency/100hz-steps", []string{"100..1000 MHz and 2400..2500 MHz in steps of 100 Hz (blocks of 10000)"}, 900+100, func(c *engine.Case) {
		base := int64(100000000) + int64(c.Index)*1000000
		if c.Index >= 900 {
			base = 2400000000 + int64(c.Index-900)*1000000
		}
		for i := int64(0); i < 10000; i++ {
			freqRT(c, base+i*100)
		}
		c.Outcome("frequency/block")
	})
	windows := []int64{0, 1000000, 128190000, 433170000, 470300000, 779500000, 865060000, 868090000, 868290000, 869520000, 902300000, 915190000, 923190000, 923290000, 927490000, 1000000000, 2402990000, 2424990000, 4294957296, 2147478648}
	r.PartDims("frequency/every-hz-windows", []string{"window:20", "Hz:10000 (inner)"}, uint64(len(windows)), func(c *engine.Case) {
		for i := int64(0); i < 10000; i++ {
			freqRT(c, windows[c.Index]+i)
		}
	})

	// ---- Percentage
	r.PartDims("percentage", []string{"integer percent:-1000..1000"}, 2001, func(c *engine.Case) {
		p := backend.Percentage(int(c.Index) - 1000)
		c.NonTrivial()
		b, err := json.Marshal(p)
		var q backend.Percentage
		if err == nil {
			err = json.Unmarshal(b, &q)
		}
		if err != nil {
			c.Fail("percentage/error", fmt.Sprintf("%d: %v", int(p), err), nil)
			return
		}
		if q != p {
			key := "percentage/round-trip-differs/outside-0..100"
			if p >= 0 && p <= 100 {
				key = "percentage/round-trip-differs/0..100"
			}
			c.Fail(key, fmt.Sprintf("%d %% encodes to %s which decodes to %d %%", int(p), b, int(q)), nil)
		}
	})

	// ---- HEXBytes
	hexLens := 600 // every length up to twice the largest frame, then powers of two up to 64 KiB
	hexLen := func(i int) int {
		if i <= hexLens {
			return i
		}
		return 1024 << uint(i-hexLens-1)
	}
	r.PartDims("hexbytes", []string{"length:0..600 and 1024..65536 (powers of two)", "filler:3"}, uint64(hexLens+1+7)*3, func(c *engine.Case) {
		n := hexLen(int(c.Index % uint64(hexLens+1+7)))
		b := fillBytes(n, []byte{0x00, 0x5A, 0xFF}[c.Index/uint64(hexLens+1+7)])
		c.NonTrivial()
		h := backend.HEXBytes(b)
		j, err := json.Marshal(h)
		if err != nil || string(j) != `"`+hex.EncodeToString(b)+`"` {
			c.Fail("hexbytes/encode", fmt.Sprintf("%x -> %s err %v", b, j, err), nil)
			return
		}
		for _, form := range []string{string(j), `"0x` + hex.EncodeToString(b) + `"`, strings.ToUpper(string(j))} {
			var g backend.HEXBytes
			if err := json.Unmarshal([]byte(form), &g); err != nil || !bytes.Equal(g, b) {
				c.Fail("hexbytes/decode", fmt.Sprintf("%s -> %x err %v", form, []byte(g), err), nil)
			}
		}
	})

	// ---- ISO8601Time
	days := []time.Time{time.Date(1, 1, 1, 0, 0, 0, 0, time.UTC), time.Date(1970, 1, 1, 0, 0, 0, 0, time.UTC), time.Date(2038, 1, 19, 0, 0, 0, 0, time.UTC), time.Date(9999, 12, 31, 0, 0, 0, 0, time.UTC)}
	zones := []*time.Location{time.UTC, time.FixedZone("", 5*3600+1800), time.FixedZone("", -8*3600)}
	r.PartDims("iso8601", []string{"day:4", "zone:3", "hour:24", "second of the hour:3600 (inner)"}, 4*3*24, func(c *engine.Case) {
		d := days[c.Index%4]
		z := zones[(c.Index/4)%3]
		h := int(c.Index / 12)
		for s := 0; s < 3600; s++ {
			c.Eval()
			t := d.Add(time.Duration(h)*time.Hour + time.Duration(s)*time.Second).In(z)
			if t.Year() < 1 || t.Year() > 9999 {
				continue
			}
			c.NonTrivial()
			it := backend.ISO8601Time(t)
			j, err := json.Marshal(it)
			var back backend.ISO8601Time
			if err == nil {
				err = json.Unmarshal(j, &back)
			}
			if err != nil {
				c.Fail("iso8601/error", fmt.Sprintf("%s: %v", t.Format(time.RFC3339), err), nil)
				return
			}
			if !time.Time(back).Equal(t) {
				c.Fail("iso8601/round-trip-differs", fmt.Sprintf("%s encodes to %s which decodes to %s", t.Format(time.RFC3339), j, time.Time(back).Format(time.RFC3339)), nil)
				return
			}
		}
	})
	r.Part("iso8601/subsecond", 1, func(c *engine.Case) {
		c.NonTrivial()
		t := time.Date(2020, 2, 29, 23, 59, 59, 999999999, time.UTC)
		j, _ := json.Marshal(backend.ISO8601Time(t))
		var back backend.ISO8601Time
		if err := json.Unmarshal(j, &back); err != nil || !time.Time(back).Equal(t.Truncate(time.Second)) {
			c.Fail("iso8601/not-to-one-second", fmt.Sprintf("%s -> %s -> %s (err %v)", t.Format(time.RFC3339Nano), j, time.Time(back).Format(time.RFC3339Nano), err), nil)
		}
	})

	// ---- payload structs
	structs := []func() interface{}{
		func() interface{} { return &backend.JoinReqPayload{} }, func() interface{} { return &backend.JoinAnsPayload{} },
		func() interface{} { return &backend.RejoinReqPayload{} }, func() interface{} { return &backend.RejoinAnsPayload{} },
		func() interface{} { return &backend.AppSKeyReqPayload{} }, func() interface{} { return &backend.AppSKeyAnsPayload{} },
		func() interface{} { return &backend.PRStartReqPayload{} }, func() interface{} { return &backend.PRStartAnsPayload{} },
		func() interface{} { return &backend.PRStopReqPayload{} }, func() interface{} { return &backend.PRStopAnsPayload{} },
		func() interface{} { return &backend.HRStartReqPayload{} }, func() interface{} { return &backend.HRStartAnsPayload{} },
		func() interface{} { return &backend.HRStopReqPayload{} }, func() interface{} { return &backend.HRStopAnsPayload{} },
		func() interface{} { return &backend.HomeNSReqPayload{} }, func() interface{} { return &backend.HomeNSAnsPayload{} },
		func() interface{} { return &backend.ProfileReqPayload{} }, func() interface{} { return &backend.ProfileAnsPayload{} },
		func() interface{} { return &backend.XmitDataReqPayload{} }, func() interface{} { return &backend.XmitDataAnsPayload{} },
		// the building blocks on their own, so that every subset of THEIR optional fields is enumerated
		// (inside a payload a nested block is one optional field)
		func() interface{} { return &backend.BasePayload{} }, func() interface{} { return &backend.BasePayloadResult{} },
		func() interface{} { return &backend.Result{} }, func() interface{} { return &backend.KeyEnvelope{} },
		func() interface{} { return &backend.VSExtension{} }, func() interface{} { return &backend.GWInfoElement{} },
		func() interface{} { return &backend.ULMetaData{} }, func() interface{} { return &backend.DLMetaData{} },
		func() interface{} { return &backend.ServiceProfile{} }, func() interface{} { return &backend.DeviceProfile{} },
		func() interface{} { return &backend.RoutingProfile{} }, func() interface{} { return &backend.NetworkActivationRecord{} },
		func() interface{} { return &backend.NetworkTrafficRecord{} },
	}
	for _, mk := range structs {
		mk := mk
		t := reflect.TypeOf(mk()).Elem()
		opts := optionalFields(t, nil, "", 0)
		nbits := len(opts)
		if nbits > 10 {
			nbits = 10
		}
		n := uint64(4) << uint(nbits)
		r.PartDims("struct/"+t.Name(), []string{fmt.Sprintf("optional fields:%d (subsets over the first %d; the others follow the subset index)", len(opts), nbits), "value variant:4 (three value sets; present pointer fields pointing at the zero value of their type)"}, n, func(c *engine.Case) {
			variant := int(c.Index % 4)
			sub := int(c.Index / 4)
			v := mk()
			rv := reflect.ValueOf(v).Elem()
			zeroPointees := variant == 3
			if zeroPointees {
				variant = 0
			}
			fillValue(rv, variant, 0)
			// clear the optional fields that are not in the subset
			for k := len(opts) - 1; k >= 0; k-- {
				bit := k
				if k >= nbits {
					bit = k % nbits
				}
				if sub&(1<<uint(bit)) == 0 {
					f, ok := fieldByIndexSafe(rv, opts[k].index)
					if ok {
						f.Set(reflect.Zero(f.Type()))
					}
				} else if zeroPointees {
					// present, and holding the zero value (the zero time, 0, false, an empty struct): present is
					// not the same as absent
					if f, ok := fieldByIndexSafe(rv, opts[k].index); ok && f.Kind() == reflect.Ptr {
						f.Set(reflect.New(f.Type().Elem()))
					}
				}
			}
			c.NonTrivial()
			j, err := json.Marshal(v)
			if err != nil {
				c.Fail("struct/"+t.Name()+"/encode-error", err.Error(), nil)
				return
			}
			back := mk()
			if err := json.Unmarshal(j, back); err != nil {
				c.Fail("struct/"+t.Name()+"/decode-error", fmt.Sprintf("%s: %v", j, err), nil)
				return
			}
			if m := jsonSame(rv, reflect.ValueOf(back).Elem(), t.Name()); m != "" {
				c.Fail("struct/"+t.Name()+"/round-trip-differs", fmt.Sprintf("%s (JSON %s)", m, j), nil)
			}
			j2, _ := json.Marshal(back)
			if !bytes.Equal(j, j2) {
				c.Fail("struct/"+t.Name()+"/re-encoding-differs", fmt.Sprintf("%s vs %s", j, j2), nil)
			}
			if c.WantSample() && sub == (1<<uint(nbits))-1 {
				c.Sample(func() interface{} { return map[string]interface{}{"part": c.Part, "json": string(j)} })
			}
		})
	}

	// ---- hex byte strings kept by plain assignment while their variable decodes the next text (directly and
	// as members of a document decoded by encoding/json, which hands UnmarshalText the member's address): the
	// kept value stays what it was. (Pointer members and slices of structs are re-used by encoding/json
	// itself; that is the caller's business and not judged.)
	keptLens := []int{0, 1, 2, 3, 8, 16, 17, 64}
	r.PartDims("hexbytes/kept-copy", []string{fmt.Sprintf("first length:%d", len(keptLens)), fmt.Sprintf("second length:%d", len(keptLens)), "through{UnmarshalText, a JSON document}"}, uint64(len(keptLens)*len(keptLens)*2), func(c *engine.Case) {
		la, lb := keptLens[c.Index%uint64(len(keptLens))], keptLens[c.Index/uint64(len(keptLens))%uint64(len(keptLens))]
		viaJSON := c.Index/uint64(len(keptLens)*len(keptLens)) == 1
		c.Eval()
		c.NonTrivial()
		a, b := fillBytes(la, 0x11), fillBytes(lb, 0xC3)
		type doc struct {
			PHYPayload backend.HEXBytes
			Token      backend.HEXBytes
		}
		var v doc
		dec := func(x []byte) error {
			if viaJSON {
				return json.Unmarshal([]byte(fmt.Sprintf(`{"PHYPayload":"%x","Token":"%x"}`, x, x)), &v)
			}
			if err := v.PHYPayload.UnmarshalText([]byte(fmt.Sprintf("%x", x))); err != nil {
				return err
			}
			return v.Token.UnmarshalText([]byte(fmt.Sprintf("%x", x)))
		}
		if err := dec(a); err != nil {
			c.Fail("hexbytes/kept-copy/decode", err.Error(), nil)
			return
		}
		keep := v
		if err := dec(b); err != nil {
			c.Fail("hexbytes/kept-copy/decode", err.Error(), nil)
			return
		}
		if !bytes.Equal(keep.PHYPayload, a) || !bytes.Equal(keep.Token, a) || !bytes.Equal(v.PHYPayload, b) {
			c.Fail("hexbytes/kept-copy-changed", fmt.Sprintf("a copy (by assignment) of the value decoded from %x reads %x / %x after %x was decoded into the variable it was copied from (which reads %x)", a, []byte(keep.PHYPayload), []byte(keep.Token), b, []byte(v.PHYPayload)), nil)
			return
		}
		c.Outcome("hexbytes/kept-copy/unchanged")
	})

	// ---- the string-typed members of the payloads (ResultCode, MessageType, ProtocolVersion, identifiers as
	// text): the Backend Interfaces specification's own spellings of every result code and message type,
	// the library's constants, and neighbours of both (case, a trailing character): a string is carried
	// as it is
	names := []string{"Success", "MICFailed", "JoinReqFailed", "NoRoamingAgreement", "DevRoamingDisallowed", "RoamingActDisallowed", "ActivationDisallowed",
		"UnknownDevEUI", "UnknownDevAddr", "UnknownSender", "UnknownReceiver", "Deferred", "XmitFailed", "InvalidFPort", "InvalidProtocolVersion",
		"StaleDeviceProfile", "MalformedRequest", "FrameSizeError", "Other",
		"JoinReq", "JoinAns", "RejoinReq", "RejoinAns", "AppSKeyReq", "AppSKeyAns", "PRStartReq", "PRStartAns", "PRStopReq", "PRStopAns", "HRStartReq", "HRStartAns",
		"HRStopReq", "HRStopAns", "HomeNSReq", "HomeNSAns", "ProfileReq", "ProfileAns", "XmitDataReq", "XmitDataAns", "1.0", "1.1", ""}
	for _, rc := range []backend.ResultCode{backend.Success, backend.MICFailed, backend.RoamingActDisallowed, backend.UnknownReceiver, backend.Other} {
		names = append(names, string(rc))
	}
	var strs []string
	for _, n := range names {
		strs = append(strs, n, strings.ToLower(n), strings.ToUpper(n), n+"A", " "+n)
	}
	r.PartDims("strings/named-types", []string{fmt.Sprintf("string:%d (specification spellings, library constants, case and suffix neighbours)", len(strs)), "member{ResultCode, Description, MessageType, ProtocolVersion, SenderID}"}, uint64(len(strs)), func(c *engine.Case) {
		sv := strs[c.Index]
		c.Eval()
		c.NonTrivial()
		in := backend.PRStopAnsPayload{BasePayloadResult: backend.BasePayloadResult{
			BasePayload: backend.BasePayload{ProtocolVersion: sv, SenderID: sv, ReceiverID: "010203", TransactionID: 7, MessageType: backend.MessageType(sv)},
			Result:      backend.Result{ResultCode: backend.ResultCode(sv), Description: sv}}}
		j, err := json.Marshal(in)
		if err != nil {
			c.Fail("strings/marshal", fmt.Sprintf("%q: %v", sv, err), nil)
			return
		}
		var out backend.PRStopAnsPayload
		if err := json.Unmarshal(j, &out); err != nil {
			c.Fail("strings/unmarshal", fmt.Sprintf("%s: %v", j, err), nil)
			return
		}
		for name, got := range map[string]string{"ResultCode": string(out.Result.ResultCode), "Description": out.Result.Description, "MessageType": string(out.MessageType), "ProtocolVersion": out.ProtocolVersion, "SenderID": out.SenderID} {
			if got != sv {
				c.Fail("strings/"+name+"/changed", fmt.Sprintf("%s %q is encoded as %s and comes back as %q", name, sv, j, got), nil)
			}
		}
	})

	// ---- key envelopes
	keks := [][]byte{mustHex("000102030405060708090a0b0c0d0e0f101112131415161718191a1b1c1d1e1f"), mustHex("ffeeddccbbaa99887766554433221100ffeeddccbbaa99887766554433221100")}
	sp := (&engine.Space{}).Dim("kek length{16,24,32}", 3).Dim("kek", 2).Dim("key", 3).Dim("label", 2)
	r.PartDims("keyenvelope", append(sp.Desc(), "per case: 192 single-bit flips, wrong KEK, 6 truncated/extended blobs"), sp.N(), func(c *engine.Case) {
		var ch [4]int
		sp.Decode(c.Index, ch[:])
		kek := keks[ch[1]][:16+8*ch[0]]
		key := c02Keys[ch[2]]
		label := []string{"", "lbl"}[ch[3]]
		env, err := backend.NewKeyEnvelope(label, kek, keyOf(key))
		if err != nil {
			c.Fail("keyenvelope/wrap-error", err.Error(), nil)
			return
		}
		c.NonTrivial()
		if label == "" {
			if env.KEKLabel != "" || !bytes.Equal(env.AESKey, key) {
				c.Fail("keyenvelope/no-label-not-clear", fmt.Sprintf("envelope %+v for key %x", env, key), nil)
			}
			// a clear key is not an RFC 3394 blob: unwrapping it never passes the integrity check
			for _, k := range [][]byte{kek, nil} {
				var uerr error
				if pn, site, v := engine.Try(func() { _, uerr = env.Unwrap(k) }); pn {
					c.Fail("panic/"+site, fmt.Sprintf("Unwrap of a clear envelope panics: %v", v), nil)
				} else if uerr == nil {
					c.Fail("keyenvelope/unwrap-succeeds-iff-integrity-check/clear-envelope", fmt.Sprintf("Unwrap (KEK of %d bytes) succeeds on a clear envelope %+v, which holds no integrity check value", len(k), env), nil)
				}
			}
			c.Outcome("keyenvelope/clear")
			return
		}
		want := spec.KeyWrap(kek, key)
		if env.KEKLabel != label || !bytes.Equal(env.AESKey, want) {
			c.Fail("keyenvelope/blob-differs-from-rfc3394", fmt.Sprintf("kek %x key %x: blob %x, RFC 3394 %x", kek, key, []byte(env.AESKey), want), nil)
			return
		}
		got, err := env.Unwrap(kek)
		if err != nil || !bytes.Equal(got[:], key) {
			c.Fail("keyenvelope/unwrap", fmt.Sprintf("Unwrap = %x err %v", got[:], err), nil)
		}
		// an envelope is a value the caller keeps: an Unwrap that is refused (wrong KEK, no KEK) leaves it
		// as it was, and the right KEK opens it afterwards
		before := deepPrint(env)
		wrongKEK := append([]byte(nil), kek...)
		wrongKEK[len(wrongKEK)-1] ^= 0x80
		for _, bad := range [][]byte{wrongKEK, nil} {
			if _, err := env.Unwrap(bad); err == nil {
				c.Fail("keyenvelope/unwrap-succeeds-iff-integrity-check/reused-envelope", fmt.Sprintf("Unwrap with a KEK of %d bytes that is not the wrapping KEK succeeds", len(bad)), nil)
			}
			if after := deepPrint(env); after != before {
				c.Fail("keyenvelope/refused-unwrap-changes-the-envelope", fmt.Sprintf("envelope before the refused Unwrap %s, after it %s", before, after), nil)
				break
			}
			if got, err := env.Unwrap(kek); err != nil || !bytes.Equal(got[:], key) {
				c.Fail("keyenvelope/unwrap-after-refused-unwrap", fmt.Sprintf("after a refused Unwrap the wrapping KEK gives %x err %v, wrapped key %x", got[:], err, key), nil)
				break
			}
		}
		// JSON form
		j, _ := json.Marshal(env)
		var e2 backend.KeyEnvelope
		if err := json.Unmarshal(j, &e2); err != nil || e2.KEKLabel != label || !bytes.Equal(e2.AESKey, want) {
			c.Fail("keyenvelope/json", fmt.Sprintf("%s err %v", j, err), nil)
		}
		agree1 := func(what string, envLabel string, blob []byte, k []byte) {
			c.Eval()
			e := backend.KeyEnvelope{KEKLabel: envLabel, AESKey: backend.HEXBytes(blob)}
			var got lorawan.AES128Key
			var err error
			if pn, site, v := engine.Try(func() { got, err = e.Unwrap(k) }); pn {
				c.Fail("panic/"+site, fmt.Sprintf("Unwrap(%s) panics: %v", what, v), nil)
				return
			}
			var ref []byte
			refErr := fmt.Errorf("a wrapped 128-bit key is 24 bytes; a KEK is 16, 24 or 32 bytes")
			if len(blob) == 24 && (len(k) == 16 || len(k) == 24 || len(k) == 32) {
				ref, refErr = spec.KeyUnwrap(k, blob)
			}
			if (err == nil) != (refErr == nil) {
				c.Fail("keyenvelope/unwrap-succeeds-iff-integrity-check/"+strings.Split(what, " ")[0], fmt.Sprintf("%s: Unwrap err=%v, RFC 3394 integrity check err=%v", what, err, refErr), nil)
			} else if err == nil && !bytes.Equal(got[:], ref) {
				c.Fail("keyenvelope/unwrap-value", fmt.Sprintf("%s: %x vs %x", what, got[:], ref), nil)
			}
			if err != nil {
				c.Outcome("keyenvelope/unwrap-rejected")
			}
		}
		// the label names the KEK for the receiver; whether unwrapping succeeds is decided by the
		// integrity check alone, so every blob is also tried in an envelope without a label
		agree := func(what string, blob []byte, k []byte) {
			agree1(what, label, blob, k)
			agree1(what+" (envelope without label)", "", blob, k)
		}
		agree("own-kek", want, kek)
		// blobs made by the same wrapping process under the same KEK with another initial value (the
		// alternative initial value of RFC 5649 for every length 0..32, all-zero, all-one, the default
		// with one bit flipped): none of them passes the RFC 3394 integrity check
		ivs := [][]byte{make([]byte, 8), bytes.Repeat([]byte{0xFF}, 8), {0xA6, 0xA6, 0xA6, 0xA6, 0xA6, 0xA6, 0xA6, 0xA7}, {0x26, 0xA6, 0xA6, 0xA6, 0xA6, 0xA6, 0xA6, 0xA6}}
		for l := 0; l <= 32; l++ {
			ivs = append(ivs, []byte{0xA6, 0x59, 0x59, 0xA6, 0, 0, 0, byte(l)})
		}
		for _, iv := range ivs {
			agree(fmt.Sprintf("other-initial-value %x", iv), spec.KeyWrapIV(kek, key, iv), kek)
		}
		agree("no-kek(nil)", want, nil)
		agree("no-kek(empty)", want, []byte{})
		agree("clear-key-as-blob", key, kek)
		for bit := 0; bit < 192; bit++ {
			b := append([]byte(nil), want...)
			b[bit/8] ^= 1 << uint(bit%8)
			agree(fmt.Sprintf("bit-flip %d", bit), b, kek)
		}
		wrong := append([]byte(nil), kek...)
		wrong[0] ^= 1
		agree("wrong-kek", want, wrong)
		for _, n := range []int{0, 7, 8, 16, 23, 25, 32} {
			b := make([]byte, n)
			copy(b, want)
			agree(fmt.Sprintf("length %d", n), b, kek)
		}
		agree("length 8 (bare integrity check value)", bytes.Repeat([]byte{0xA6}, 8), kek)
		c.Outcome("keyenvelope/wrapped")
	})

	{
		n := manyHistoryN(r)
		r.Rule += fmt.Sprintf(" Many-KEKs history: %d steps, each a wrap + unwrap under a KEK (16 / 32 bytes alternating) not used before in the process, returning to earlier KEKs every 64th step; the blob equals the independent RFC 3394 wrap.", n)
		r.Rule += collidingRule()
		r.PartWorkers("keyenvelope/many-keks", []string{fmt.Sprintf("distinct KEKs:%d", n)}, 1, 1, func(c *engine.Case) {
			ok := manyHistoryRun(n, func(i int) bool {
				c.Eval()
				kek := manyKey(i)
				if i%2 == 1 {
					kek = append(kek, manyKey(i+1<<21)...)
				}
				key := manyKey(i + 1<<22)
				env, err := backend.NewKeyEnvelope("lbl", kek, keyOf(key))
				if want := spec.KeyWrap(kek, key); err != nil || !bytes.Equal(env.AESKey, want) {
					c.Fail("keyenvelope/many-keks/blob", fmt.Sprintf("KEK number %d (%x): blob %x (err %v), RFC 3394 %x", i, kek, []byte(env.AESKey), err, want), nil)
					return false
				}
				got, err := env.Unwrap(kek)
				if err != nil || !bytes.Equal(got[:], key) {
					c.Fail("keyenvelope/many-keks/unwrap", fmt.Sprintf("KEK number %d (%x): Unwrap = %x err %v, wrapped key %x", i, kek, got[:], err, key), nil)
					return false
				}
				return true
			})
			if ok {
				c.NonTrivial()
				c.Outcome("many-keys/history-completed")
			}
		})
	}

	if !r.Replay {
		r.Guard(r.OutcomeCount("keyenvelope/clear") > 0 && r.OutcomeCount("keyenvelope/wrapped") > 0 && r.OutcomeCount("keyenvelope/unwrap-rejected") > 0, "clear and wrapped envelopes and rejected blobs observed")
		r.Guard(r.OutcomeCount("frequency/block") == 1000, "all frequency blocks swept")
	}
}

func fieldByIndexSafe(v reflect.Value, index []int) (reflect.Value, bool) {
	for _, i := range index {
		for v.Kind() == reflect.Ptr {
			if v.IsNil() {
				return reflect.Value{}, false
			}
			v = v.Elem()
		}
		v = v.Field(i)
	}
	return v, true
}

// c17History: key envelopes and text/JSON forms as a history alphabet. The KEK
// buffer of a sequence is one slice the caller overwrites in place (key rotation).
func c17History(r *engine.Run) {
	keks := [][]byte{bytes.Repeat([]byte{0x11}, 16), bytes.Repeat([]byte{0x22}, 16), bytes.Repeat([]byte{0x33}, 32)}
	keys := []lorawan.AES128Key{{1, 2, 3, 4, 5, 6, 7, 8, 9, 10, 11, 12, 13, 14, 15, 16}, {0xF0, 0xF1, 0xF2, 0xF3}}
	var ops []HOp
	wrap := func(name, label string, ki int, key lorawan.AES128Key, shared bool) {
		ops = append(ops, HOp{name, func(ctx HCtx) interface{} {
			kek := append([]byte(nil), keks[ki]...)
			if shared {
				// one buffer per length, overwritten in place with the KEK now in force
				id := fmt.Sprintf("kek%d", len(kek))
				buf, _ := ctx[id].([]byte)
				if buf == nil {
					buf = make([]byte, len(kek))
					ctx[id] = buf
				}
				copy(buf, kek)
				kek = buf
			}
			env, err := backend.NewKeyEnvelope(label, kek, key)
			if err != nil {
				return &hChecked{[]interface{}{"error"}, "NewKeyEnvelope refused a " + fmt.Sprint(len(kek)) + "-byte KEK: " + err.Error()}
			}
			problem := ""
			want := spec.KeyWrap(keks[ki], key[:])
			if !bytes.Equal(env.AESKey, want) {
				problem = fmt.Sprintf("envelope for KEK %x key %x is %x, RFC 3394 wrap is %x", keks[ki], key[:], []byte(env.AESKey), want)
			}
			got, uerr := env.Unwrap(append([]byte(nil), keks[ki]...))
			if problem == "" && (uerr != nil || got != key) {
				problem = fmt.Sprintf("the envelope does not open with the KEK it was made with (%v)", uerr)
			}
			return &hChecked{env, problem}
		}})
	}
	for ki := range keks {
		for kj, key := range keys {
			wrap(fmt.Sprintf("NewKeyEnvelope(lbl,KEK%d,key%d)", ki, kj), "lbl", ki, key, false)
			wrap(fmt.Sprintf("NewKeyEnvelope(lbl,KEK%d-in-reused-buffer,key%d)", ki, kj), "lbl", ki, key, true)
		}
		wrap(fmt.Sprintf("NewKeyEnvelope(other,KEK%d-in-reused-buffer,key0)", ki), "other", ki, keys[0], true)
	}
	ops = append(ops, HOp{"NewKeyEnvelope(no-label)", func(HCtx) interface{} {
		env, err := backend.NewKeyEnvelope("", keks[0], keys[0])
		return []interface{}{env, errS(err)}
	}}, HOp{"NewKeyEnvelope(lbl,bad-KEK-length)", func(HCtx) interface{} {
		env, err := backend.NewKeyEnvelope("lbl", []byte{1, 2, 3}, keys[0])
		return []interface{}{env, errS(err)}
	}})
	for i, hb := range []backend.HEXBytes{{1, 2, 3}, {0xAA, 0xBB, 0xCC, 0xDD, 0xEE}, {}} {
		hb := hb
		ops = append(ops, HOp{fmt.Sprintf("HEXBytes#%d.MarshalText", i), func(HCtx) interface{} {
			b, err := hb.MarshalText()
			return []interface{}{b, errS(err)}
		}}, HOp{fmt.Sprintf("json(HEXBytes#%d)", i), func(HCtx) interface{} {
			b, err := json.Marshal(struct{ X backend.HEXBytes }{hb})
			return []interface{}{b, errS(err)}
		}})
	}
	// decoding into the sequence's reused receivers (a request variable reused across messages)
	for i, txt := range []string{"", "0102", "0xAABBCC", "zz"} {
		txt := txt
		ops = append(ops, HOp{fmt.Sprintf("HEXBytes.UnmarshalText(%s)-into-reused-receiver", []string{"empty", "0102", "0xAABBCC", "malformed"}[i]), func(ctx HCtx) interface{} {
			hb, _ := ctx["hexbytes"].(*backend.HEXBytes)
			if hb == nil {
				hb = &backend.HEXBytes{}
				ctx["hexbytes"] = hb
			}
			err := hb.UnmarshalText([]byte(txt))
			if err != nil {
				return []interface{}{"error"} // the value after a refused input is not specified
			}
			return []interface{}{append([]byte{}, (*hb)...), errS(err)}
		}})
		_ = i
	}
	for ji, js := range []string{`{"KEKLabel":"","AESKey":""}`, `{"KEKLabel":"lbl","AESKey":"00112233445566778899AABBCCDDEEFF0011223344556677"}`, `{"KEKLabel":"x","AESKey":"01"}`} {
		js := js
		ops = append(ops, HOp{fmt.Sprintf("json(%s)-into-reused-KeyEnvelope", []string{"empty-label-empty-key", "label-24-byte-key", "label-1-byte-key"}[ji]), func(ctx HCtx) interface{} {
			ke, _ := ctx["envelope"].(*backend.KeyEnvelope)
			if ke == nil {
				ke = &backend.KeyEnvelope{}
				ctx["envelope"] = ke
			}
			err := json.Unmarshal([]byte(js), ke)
			return []interface{}{ke.KEKLabel, append([]byte{}, ke.AESKey...), errS(err)}
		}})
	}
	d := 3
	if r.Thorough() {
		d = 4
	}
	r.Rule += historyRule + fmt.Sprintf(" Key-envelope alphabet: NewKeyEnvelope for 3 KEKs (16/16/32 bytes) x 2 keys x 2 labels with the KEK in a fresh slice or in the sequence's reused KEK buffer (overwritten in place), each compared with the independent RFC 3394 wrap and opened with its own KEK; label-less and refused calls; HEXBytes text/JSON forms; HEXBytes.UnmarshalText and json.Unmarshal of key envelopes (all members present, some empty) into the sequence's reused receivers; all sequences of <= %d calls.", d)
	historyPart(r, "history/key-envelopes", ops, d)
}

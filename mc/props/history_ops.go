package props

import (
	"bytes"
	"encoding/json"
	"fmt"
	"reflect"

	"github.com/brocaar/lorawan"
)

// Alphabets of the history oracle for frames and frame cryptography (used by
// C01, C08, C10 and C02..C05). Every builder returns a fresh value.

type hFrame struct {
	name string
	mk   func() lorawan.PHYPayload
}

func hPort(p uint8) *uint8 { return &p }

func hMask(bits ...int) lorawan.ChMask {
	var m lorawan.ChMask
	for _, b := range bits {
		m[b] = true
	}
	return m
}

func hBytes(n int, seed byte) []byte {
	b := make([]byte, n)
	for i := range b {
		b[i] = seed + byte(i*7)
	}
	return b
}

var (
	hK1      = lorawan.AES128Key{1, 2, 3, 4, 5, 6, 7, 8, 9, 10, 11, 12, 13, 14, 15, 16}
	hK2      = lorawan.AES128Key{0xA0, 0xA1, 0xA2, 0xA3, 0xA4, 0xA5, 0xA6, 0xA7, 0xA8, 0xA9, 0xAA, 0xAB, 0xAC, 0xAD, 0xAE, 0xAF}
	hJoinEUI = lorawan.EUI64{8, 7, 6, 5, 4, 3, 2, 1}
	hDevEUI  = lorawan.EUI64{1, 2, 3, 4, 5, 6, 7, 8}
)

func hGoodFrames() []hFrame {
	return []hFrame{
		{"up-fopts-port10", func() lorawan.PHYPayload {
			return lorawan.PHYPayload{MHDR: lorawan.MHDR{MType: lorawan.UnconfirmedDataUp, Major: lorawan.LoRaWANR1}, MIC: lorawan.MIC{1, 2, 3, 4}, MACPayload: &lorawan.MACPayload{
				FHDR: lorawan.FHDR{DevAddr: lorawan.DevAddr{1, 2, 3, 4}, FCtrl: lorawan.FCtrl{ADR: true}, FCnt: 10, FOpts: []lorawan.Payload{
					&lorawan.MACCommand{CID: lorawan.LinkCheckReq},
					&lorawan.MACCommand{CID: lorawan.DevStatusAns, Payload: &lorawan.DevStatusAnsPayload{Battery: 100, Margin: 5}},
				}},
				FPort: hPort(10), FRMPayload: []lorawan.Payload{&lorawan.DataPayload{Bytes: hBytes(20, 1)}}}}
		}},
		{"down-2xLinkADRReq-port10", func() lorawan.PHYPayload {
			return lorawan.PHYPayload{MHDR: lorawan.MHDR{MType: lorawan.ConfirmedDataDown, Major: lorawan.LoRaWANR1}, MIC: lorawan.MIC{5, 6, 7, 8}, MACPayload: &lorawan.MACPayload{
				FHDR: lorawan.FHDR{DevAddr: lorawan.DevAddr{4, 3, 2, 1}, FCtrl: lorawan.FCtrl{ACK: true}, FCnt: 0x1234, FOpts: []lorawan.Payload{
					&lorawan.MACCommand{CID: lorawan.LinkADRReq, Payload: &lorawan.LinkADRReqPayload{DataRate: 1, TXPower: 2, ChMask: hMask(0, 1, 2), Redundancy: lorawan.Redundancy{ChMaskCntl: 0, NbRep: 1}}},
					&lorawan.MACCommand{CID: lorawan.LinkADRReq, Payload: &lorawan.LinkADRReqPayload{DataRate: 3, TXPower: 4, ChMask: hMask(8, 15), Redundancy: lorawan.Redundancy{ChMaskCntl: 1, NbRep: 2}}},
				}},
				FPort: hPort(10), FRMPayload: []lorawan.Payload{&lorawan.DataPayload{Bytes: hBytes(5, 9)}}}}
		}},
		{"up-port0-commands", func() lorawan.PHYPayload {
			return lorawan.PHYPayload{MHDR: lorawan.MHDR{MType: lorawan.ConfirmedDataUp, Major: lorawan.LoRaWANR1}, MIC: lorawan.MIC{9, 9, 9, 9}, MACPayload: &lorawan.MACPayload{
				FHDR:  lorawan.FHDR{DevAddr: lorawan.DevAddr{1, 2, 3, 4}, FCnt: 11},
				FPort: hPort(0), FRMPayload: []lorawan.Payload{
					&lorawan.MACCommand{CID: lorawan.LinkCheckReq},
					&lorawan.MACCommand{CID: lorawan.DevStatusAns, Payload: &lorawan.DevStatusAnsPayload{Battery: 1, Margin: -3}},
					&lorawan.MACCommand{CID: lorawan.DevStatusAns, Payload: &lorawan.DevStatusAnsPayload{Battery: 200, Margin: 7}},
				}}}
		}},
		{"up-2x-proprietary-0x90-fopts", func() lorawan.PHYPayload {
			// CID 0x90 is registered (uplink, 2 bytes) by frameHistory for the duration of the part
			return lorawan.PHYPayload{MHDR: lorawan.MHDR{MType: lorawan.UnconfirmedDataUp, Major: lorawan.LoRaWANR1}, MIC: lorawan.MIC{3, 1, 4, 1}, MACPayload: &lorawan.MACPayload{
				FHDR: lorawan.FHDR{DevAddr: lorawan.DevAddr{5, 5, 5, 5}, FCnt: 21, FOpts: []lorawan.Payload{
					&lorawan.MACCommand{CID: lorawan.CID(0x90), Payload: &lorawan.ProprietaryMACCommandPayload{Bytes: []byte{0x11, 0x12}}},
					&lorawan.MACCommand{CID: lorawan.CID(0x90), Payload: &lorawan.ProprietaryMACCommandPayload{Bytes: []byte{0x21, 0x22}}},
				}}}}
		}},
		{"up-proprietary-0x90-port0", func() lorawan.PHYPayload {
			return lorawan.PHYPayload{MHDR: lorawan.MHDR{MType: lorawan.UnconfirmedDataUp, Major: lorawan.LoRaWANR1}, MIC: lorawan.MIC{2, 7, 1, 8}, MACPayload: &lorawan.MACPayload{
				FHDR: lorawan.FHDR{DevAddr: lorawan.DevAddr{5, 5, 5, 5}, FCnt: 22}, FPort: hPort(0), FRMPayload: []lorawan.Payload{
					&lorawan.MACCommand{CID: lorawan.CID(0x90), Payload: &lorawan.ProprietaryMACCommandPayload{Bytes: []byte{0x31, 0x32}}},
					&lorawan.MACCommand{CID: lorawan.LinkCheckReq},
				}}}
		}},
		{"up-port0-no-payload", func() lorawan.PHYPayload {
			return lorawan.PHYPayload{MHDR: lorawan.MHDR{MType: lorawan.UnconfirmedDataUp, Major: lorawan.LoRaWANR1}, MIC: lorawan.MIC{6, 2, 8, 3}, MACPayload: &lorawan.MACPayload{
				FHDR: lorawan.FHDR{DevAddr: lorawan.DevAddr{2, 2, 2, 2}, FCnt: 300}, FPort: hPort(0)}}
		}},
		{"down-port1-no-payload-fopts", func() lorawan.PHYPayload {
			return lorawan.PHYPayload{MHDR: lorawan.MHDR{MType: lorawan.ConfirmedDataDown, Major: lorawan.LoRaWANR1}, MIC: lorawan.MIC{1, 8, 5, 3}, MACPayload: &lorawan.MACPayload{
				FHDR: lorawan.FHDR{DevAddr: lorawan.DevAddr{3, 3, 3, 3}, FCnt: 0x0100, FOpts: []lorawan.Payload{&lorawan.MACCommand{CID: lorawan.DevStatusReq}}}, FPort: hPort(1)}}
		}},
		{"down-empty", func() lorawan.PHYPayload {
			return lorawan.PHYPayload{MHDR: lorawan.MHDR{MType: lorawan.UnconfirmedDataDown, Major: lorawan.LoRaWANR1}, MIC: lorawan.MIC{0xA, 0xB, 0xC, 0xD}, MACPayload: &lorawan.MACPayload{
				FHDR: lorawan.FHDR{DevAddr: lorawan.DevAddr{0xFE, 0xDC, 0xBA, 0x98}, FCtrl: lorawan.FCtrl{FPending: true, ClassB: true}, FCnt: 0xFFFF}}}
		}},
		{"up-port10-33bytes", func() lorawan.PHYPayload {
			return lorawan.PHYPayload{MHDR: lorawan.MHDR{MType: lorawan.UnconfirmedDataUp, Major: lorawan.LoRaWANR1}, MIC: lorawan.MIC{7, 7, 7, 7}, MACPayload: &lorawan.MACPayload{
				FHDR:  lorawan.FHDR{DevAddr: lorawan.DevAddr{9, 8, 7, 6}, FCnt: 12},
				FPort: hPort(10), FRMPayload: []lorawan.Payload{&lorawan.DataPayload{Bytes: hBytes(33, 0x40)}}}}
		}},
		{"join-request", func() lorawan.PHYPayload {
			return lorawan.PHYPayload{MHDR: lorawan.MHDR{MType: lorawan.JoinRequest, Major: lorawan.LoRaWANR1}, MIC: lorawan.MIC{1, 1, 1, 1},
				MACPayload: &lorawan.JoinRequestPayload{JoinEUI: hJoinEUI, DevEUI: hDevEUI, DevNonce: 0x1234}}
		}},
		{"join-accept-plain", func() lorawan.PHYPayload {
			return lorawan.PHYPayload{MHDR: lorawan.MHDR{MType: lorawan.JoinAccept, Major: lorawan.LoRaWANR1}, MIC: lorawan.MIC{2, 2, 2, 2},
				MACPayload: &lorawan.JoinAcceptPayload{JoinNonce: 0x010203, HomeNetID: lorawan.NetID{1, 2, 3}, DevAddr: lorawan.DevAddr{1, 2, 3, 4}, DLSettings: lorawan.DLSettings{RX2DataRate: 3, RX1DROffset: 2}, RXDelay: 5}}
		}},
		{"join-accept-cflist-channels", func() lorawan.PHYPayload {
			return lorawan.PHYPayload{MHDR: lorawan.MHDR{MType: lorawan.JoinAccept, Major: lorawan.LoRaWANR1}, MIC: lorawan.MIC{3, 3, 3, 3},
				MACPayload: &lorawan.JoinAcceptPayload{JoinNonce: 0x0A0B0C, HomeNetID: lorawan.NetID{3, 2, 1}, DevAddr: lorawan.DevAddr{4, 3, 2, 1}, DLSettings: lorawan.DLSettings{OptNeg: true, RX2DataRate: 1, RX1DROffset: 1}, RXDelay: 1,
					CFList: &lorawan.CFList{CFListType: lorawan.CFListChannel, Payload: &lorawan.CFListChannelPayload{Channels: [5]uint32{867100000, 867300000, 867500000, 867700000, 867900000}}}}}
		}},
		{"join-accept-cflist-masks", func() lorawan.PHYPayload {
			return lorawan.PHYPayload{MHDR: lorawan.MHDR{MType: lorawan.JoinAccept, Major: lorawan.LoRaWANR1}, MIC: lorawan.MIC{4, 4, 4, 4},
				MACPayload: &lorawan.JoinAcceptPayload{JoinNonce: 1, HomeNetID: lorawan.NetID{0, 0, 1}, DevAddr: lorawan.DevAddr{0, 0, 0, 1}, RXDelay: 15,
					CFList: &lorawan.CFList{CFListType: lorawan.CFListChannelMask, Payload: &lorawan.CFListChannelMaskPayload{ChannelMasks: []lorawan.ChMask{hMask(0, 1), {}, hMask(3), hMask(4, 5), hMask(15)}}}}}
		}},
		{"rejoin-0", func() lorawan.PHYPayload {
			return lorawan.PHYPayload{MHDR: lorawan.MHDR{MType: lorawan.RejoinRequest, Major: lorawan.LoRaWANR1}, MIC: lorawan.MIC{5, 5, 5, 5},
				MACPayload: &lorawan.RejoinRequestType02Payload{RejoinType: lorawan.RejoinRequestType0, NetID: lorawan.NetID{1, 2, 3}, DevEUI: hDevEUI, RJCount0: 0x0102}}
		}},
		{"rejoin-1", func() lorawan.PHYPayload {
			return lorawan.PHYPayload{MHDR: lorawan.MHDR{MType: lorawan.RejoinRequest, Major: lorawan.LoRaWANR1}, MIC: lorawan.MIC{6, 6, 6, 6},
				MACPayload: &lorawan.RejoinRequestType1Payload{RejoinType: lorawan.RejoinRequestType1, JoinEUI: hJoinEUI, DevEUI: hDevEUI, RJCount1: 0x0304}}
		}},
		{"proprietary", func() lorawan.PHYPayload {
			return lorawan.PHYPayload{MHDR: lorawan.MHDR{MType: lorawan.Proprietary, Major: lorawan.LoRaWANR1}, MIC: lorawan.MIC{8, 8, 8, 8},
				MACPayload: &lorawan.DataPayload{Bytes: hBytes(9, 0x30)}}
		}},
		// proprietary frames as long as a join-request (23 bytes), a rejoin-request 0/2 (19) and a
		// rejoin-request 1 (24): what a reused receiver still holds from such a frame fits them exactly
		{"proprietary-23", func() lorawan.PHYPayload {
			return lorawan.PHYPayload{MHDR: lorawan.MHDR{MType: lorawan.Proprietary, Major: lorawan.LoRaWANR1}, MIC: lorawan.MIC{8, 8, 8, 9},
				MACPayload: &lorawan.DataPayload{Bytes: hBytes(18, 0x31)}}
		}},
		{"proprietary-19", func() lorawan.PHYPayload {
			return lorawan.PHYPayload{MHDR: lorawan.MHDR{MType: lorawan.Proprietary, Major: lorawan.LoRaWANR1}, MIC: lorawan.MIC{8, 8, 8, 10},
				MACPayload: &lorawan.DataPayload{Bytes: hBytes(14, 0x32)}}
		}},
		{"proprietary-24", func() lorawan.PHYPayload {
			return lorawan.PHYPayload{MHDR: lorawan.MHDR{MType: lorawan.Proprietary, Major: lorawan.LoRaWANR1}, MIC: lorawan.MIC{8, 8, 8, 11},
				MACPayload: &lorawan.DataPayload{Bytes: hBytes(19, 0x33)}}
		}},
	}
}

// frames the encoder must refuse (the error paths)
func hBadFrames() []hFrame {
	return []hFrame{
		{"bad-join-accept-rxdelay16", func() lorawan.PHYPayload {
			return lorawan.PHYPayload{MHDR: lorawan.MHDR{MType: lorawan.JoinAccept, Major: lorawan.LoRaWANR1},
				MACPayload: &lorawan.JoinAcceptPayload{JoinNonce: 1, RXDelay: 16}}
		}},
		{"bad-join-accept-optneg-cflist-frequency", func() lorawan.PHYPayload {
			return lorawan.PHYPayload{MHDR: lorawan.MHDR{MType: lorawan.JoinAccept, Major: lorawan.LoRaWANR1},
				MACPayload: &lorawan.JoinAcceptPayload{JoinNonce: 1, DLSettings: lorawan.DLSettings{OptNeg: true},
					CFList: &lorawan.CFList{CFListType: lorawan.CFListChannel, Payload: &lorawan.CFListChannelPayload{Channels: [5]uint32{867100001}}}}}
		}},
		{"bad-20-fopts-bytes", func() lorawan.PHYPayload {
			var opts []lorawan.Payload
			for i := 0; i < 4; i++ {
				opts = append(opts, &lorawan.MACCommand{CID: lorawan.LinkADRReq, Payload: &lorawan.LinkADRReqPayload{DataRate: 1, ChMask: hMask(i)}})
			}
			return lorawan.PHYPayload{MHDR: lorawan.MHDR{MType: lorawan.UnconfirmedDataDown, Major: lorawan.LoRaWANR1}, MACPayload: &lorawan.MACPayload{
				FHDR: lorawan.FHDR{DevAddr: lorawan.DevAddr{1, 2, 3, 4}, FOpts: opts}}}
		}},
		{"bad-rejoin-type", func() lorawan.PHYPayload {
			return lorawan.PHYPayload{MHDR: lorawan.MHDR{MType: lorawan.RejoinRequest, Major: lorawan.LoRaWANR1},
				MACPayload: &lorawan.RejoinRequestType02Payload{RejoinType: lorawan.RejoinRequestType1, DevEUI: hDevEUI}}
		}},
		{"bad-second-command-value", func() lorawan.PHYPayload {
			// two commands that encode, then one that is refused: what the encoder had assembled
			// when it gave up must not surface in a later encoding
			return lorawan.PHYPayload{MHDR: lorawan.MHDR{MType: lorawan.UnconfirmedDataDown, Major: lorawan.LoRaWANR1}, MACPayload: &lorawan.MACPayload{
				FHDR: lorawan.FHDR{DevAddr: lorawan.DevAddr{1, 2, 3, 4}, FOpts: []lorawan.Payload{
					&lorawan.MACCommand{CID: lorawan.LinkCheckAns, Payload: &lorawan.LinkCheckAnsPayload{Margin: 7, GwCnt: 9}},
					&lorawan.MACCommand{CID: lorawan.DevStatusReq},
					&lorawan.MACCommand{CID: lorawan.LinkADRReq, Payload: &lorawan.LinkADRReqPayload{DataRate: 16}},
				}}}}
		}},
		{"bad-port0-second-command-value", func() lorawan.PHYPayload {
			return lorawan.PHYPayload{MHDR: lorawan.MHDR{MType: lorawan.UnconfirmedDataDown, Major: lorawan.LoRaWANR1}, MACPayload: &lorawan.MACPayload{
				FHDR: lorawan.FHDR{DevAddr: lorawan.DevAddr{1, 2, 3, 4}}, FPort: hPort(0), FRMPayload: []lorawan.Payload{
					&lorawan.MACCommand{CID: lorawan.LinkCheckAns, Payload: &lorawan.LinkCheckAnsPayload{Margin: 7, GwCnt: 9}},
					&lorawan.MACCommand{CID: lorawan.LinkADRReq, Payload: &lorawan.LinkADRReqPayload{DataRate: 16}},
				}}}
		}},
		{"bad-command-value", func() lorawan.PHYPayload {
			return lorawan.PHYPayload{MHDR: lorawan.MHDR{MType: lorawan.UnconfirmedDataUp, Major: lorawan.LoRaWANR1}, MACPayload: &lorawan.MACPayload{
				FHDR: lorawan.FHDR{DevAddr: lorawan.DevAddr{1, 2, 3, 4}, FOpts: []lorawan.Payload{&lorawan.MACCommand{CID: lorawan.DevStatusAns, Payload: &lorawan.DevStatusAnsPayload{Margin: 40}}}}}}
		}},
	}
}

func errS(err error) string {
	if err == nil {
		return "ok"
	}
	return "error"
}

// hDecoded is the result of a decoding call: the frame the caller holds, and
// (rendered at observation time) what it encodes to.
type hDecoded struct {
	Frame *lorawan.PHYPayload
	Err   string
}

func (d *hDecoded) HSnap() string {
	s := "decoded{" + d.Err + " " + pubPrint(*d.Frame)
	if d.Err == "ok" {
		b, err := d.Frame.MarshalBinary()
		s += fmt.Sprintf(" encodes-to=%x/%s", b, errS(err))
	}
	return s + "}"
}

func hDecodeCommands(p *lorawan.PHYPayload) {
	if mp, ok := p.MACPayload.(*lorawan.MACPayload); ok {
		p.DecodeFOptsToMACCommands()
		if mp.FPort != nil && *mp.FPort == 0 {
			p.DecodeFRMPayloadToMACCommands()
		}
	}
}

// hFrameOps: encode, text-encode, decode (fresh receiver / the receiver of the
// sequence, by-value copy kept / text / with the MAC commands decoded and then
// edited in place), and the refused encodings.
// hRefusedGood: frames of the good alphabet that the encoder of the tree under check refuses.
var hRefusedGood [][2]string

func hFrameOps() []HOp {
	var ops []HOp
	hRefusedGood = nil
	for _, f := range hGoodFrames() {
		f := f
		fr := f.mk()
		wire, err := fr.MarshalBinary()
		if err != nil {
			// judged by frameHistory; the frame is left out of the alphabet
			hRefusedGood = append(hRefusedGood, [2]string{f.name, err.Error()})
			continue
		}
		text, _ := fr.MarshalText()
		ops = append(ops,
			HOp{"encode(" + f.name + ")", func(HCtx) interface{} {
				p := f.mk()
				b, err := p.MarshalBinary()
				return []interface{}{b, errS(err)}
			}},
			HOp{"encode-text(" + f.name + ")", func(HCtx) interface{} {
				p := f.mk()
				b, err := p.MarshalText()
				return []interface{}{b, errS(err)}
			}},
			HOp{"encode-with-windowed-slices(" + f.name + ")", func(HCtx) interface{} {
				// the same value with every byte slice held as a window into a larger
				// buffer: the encoding is a function of the content, not of the capacity
				p := f.mk()
				respliceBytes(reflect.ValueOf(&p))
				b, err := p.MarshalBinary()
				problem := ""
				if err != nil || !bytes.Equal(b, wire) {
					problem = fmt.Sprintf("with its byte slices held as windows into larger buffers the frame encodes to %x (err %v), otherwise to %x", b, err, wire)
				}
				return &hChecked{[]interface{}{b, errS(err)}, problem}
			}},
			HOp{"decode(" + f.name + ")", func(HCtx) interface{} {
				var p lorawan.PHYPayload
				in := append([]byte(nil), wire...)
				err := p.UnmarshalBinary(in)
				hDecodeCommands(&p)
				// the receive buffer is reused for the next packet: the decoded frame keeps its value
				for i := range in {
					in[i] ^= 0xA5
				}
				problem := ""
				if want := f.mk(); want.MHDR.MType != lorawan.JoinAccept {
					if a, b := pubPrint(p), pubPrint(want); a != b {
						problem = fmt.Sprintf("the encoding %x of the frame decodes to a different frame, %s", wire, firstDiff(a, b))
					}
				}
				return &hChecked{&hDecoded{&p, errS(err)}, problem}
			}},
			HOp{"decode-text(" + f.name + ")", func(HCtx) interface{} {
				var p lorawan.PHYPayload
				err := p.UnmarshalText(append([]byte(nil), text...))
				return &hDecoded{&p, errS(err)}
			}},
			HOp{"decode-into-reused-receiver(" + f.name + ")", func(ctx HCtx) interface{} {
				// for { phy.UnmarshalBinary(b); frames = append(frames, phy) }
				phy, _ := ctx["phy"].(*lorawan.PHYPayload)
				if phy == nil {
					phy = &lorawan.PHYPayload{}
					ctx["phy"] = phy
				}
				err := phy.UnmarshalBinary(append([]byte(nil), wire...))
				kept := *phy
				return &hDecoded{&kept, errS(err)}
			}},
			HOp{"decode-payload-into-reused-receiver(" + f.name + ")", func(ctx HCtx) interface{} {
				// the MACPayload decoder called directly on one kept object (round 16, C08-r16):
				// what it decodes re-encodes to the bytes it was given, whatever it held before
				mt := wire[0] >> 5
				if len(wire) < 12 || mt < 2 || mt > 5 {
					return []interface{}{"not-a-data-frame"}
				}
				mp, _ := ctx["macpayload"].(*lorawan.MACPayload)
				if mp == nil {
					mp = &lorawan.MACPayload{}
					ctx["macpayload"] = mp
				}
				body := append([]byte(nil), wire[1:len(wire)-4]...)
				uplink := mt == 2 || mt == 4
				err := mp.UnmarshalBinary(uplink, append([]byte(nil), body...))
				if err != nil {
					return []interface{}{"refused", errS(err)}
				}
				out, err := mp.MarshalBinary()
				problem := ""
				if err != nil {
					problem = "a decoded MACPayload is refused by the encoder: " + err.Error()
				} else if !bytes.Equal(out, body) {
					problem = fmt.Sprintf("MACPayload %x decoded into a kept object re-encodes to %x", body, out)
				}
				return &hChecked{[]interface{}{out, errS(err)}, problem}
			}},
			HOp{"decode-then-strip-fopts-and-payload(" + f.name + ")", func(HCtx) interface{} {
				// a received header re-used for an answer: the decoded FCtrl / FHDR values
				// are copied into a frame without FOpts and without payload
				var p lorawan.PHYPayload
				err := p.UnmarshalBinary(append([]byte(nil), wire...))
				mp, ok := p.MACPayload.(*lorawan.MACPayload)
				if err != nil || !ok {
					return []interface{}{"not-a-data-frame"}
				}
				q := lorawan.PHYPayload{MHDR: p.MHDR, MIC: p.MIC, MACPayload: &lorawan.MACPayload{FHDR: lorawan.FHDR{DevAddr: mp.FHDR.DevAddr, FCtrl: mp.FHDR.FCtrl, FCnt: mp.FHDR.FCnt}}}
				mp.FHDR.FOpts, mp.FPort, mp.FRMPayload = nil, nil, nil
				problem := ""
				var outs []interface{}
				for _, fr := range []*lorawan.PHYPayload{&p, &q} {
					b, err := fr.MarshalBinary()
					outs = append(outs, b, errS(err))
					if err != nil {
						problem = "a decoded header without FOpts and payload is refused: " + err.Error()
						continue
					}
					if len(b) != 12 || b[5]&0x0F != 0 {
						problem = fmt.Sprintf("a decoded header with FOpts and payload removed encodes to %x (12 bytes with FOptsLen 0 expected)", b)
					}
					var back lorawan.PHYPayload
					if err := back.UnmarshalBinary(b); err != nil {
						problem = fmt.Sprintf("a decoded header with FOpts and payload removed encodes to %x, which does not decode: %v", b, err)
					}
				}
				return &hChecked{outs, problem}
			}},
			HOp{"decode-relayed(" + f.name + ")", func(ctx HCtx) interface{} {
				// a forwarded frame: the outer data frame carries this frame as its
				// FRMPayload; the outer frame is decoded into the sequence's receiver and
				// the inner one is then decoded, from the payload bytes the receiver
				// holds, into the same receiver
				outer := lorawan.PHYPayload{MHDR: lorawan.MHDR{MType: lorawan.UnconfirmedDataUp, Major: lorawan.LoRaWANR1}, MIC: lorawan.MIC{1, 1, 2, 2}, MACPayload: &lorawan.MACPayload{
					FHDR: lorawan.FHDR{DevAddr: lorawan.DevAddr{7, 7, 7, 7}, FCnt: 1}, FPort: hPort(226), FRMPayload: []lorawan.Payload{&lorawan.DataPayload{Bytes: append([]byte(nil), wire...)}}}}
				ow, err := outer.MarshalBinary()
				if err != nil {
					return []interface{}{"outer-not-encodable"}
				}
				phy, _ := ctx["relay-phy"].(*lorawan.PHYPayload)
				if phy == nil {
					phy = &lorawan.PHYPayload{}
					ctx["relay-phy"] = phy
				}
				if err := phy.UnmarshalBinary(ow); err != nil {
					return &hChecked{[]interface{}{"outer"}, "the relay frame does not decode: " + err.Error()}
				}
				inner := phy.MACPayload.(*lorawan.MACPayload).FRMPayload[0].(*lorawan.DataPayload).Bytes
				innerBefore := append([]byte(nil), inner...)
				err = phy.UnmarshalBinary(inner)
				problem := ""
				if !bytes.Equal(inner, innerBefore) {
					problem = fmt.Sprintf("decoding wrote to its input: %x became %x", innerBefore, inner)
				}
				var fresh lorawan.PHYPayload
				fresh.UnmarshalBinary(append([]byte(nil), wire...))
				kept := *phy
				if a, b := pubPrint(kept), pubPrint(fresh); problem == "" && a != b {
					problem = "the relayed frame decodes differently from the same bytes decoded into a fresh value, " + firstDiff(a, b)
				}
				return &hChecked{&hDecoded{&kept, errS(err)}, problem}
			}},
			HOp{"decode-then-log-as-json(" + f.name + ")", func(HCtx) interface{} {
				// a received frame is logged (JSON, text, String of its parts) before it is
				// processed further: logging does not change it
				var p lorawan.PHYPayload
				err := p.UnmarshalBinary(append([]byte(nil), wire...))
				before := pubPrint(p)
				js, jerr := json.Marshal(p)
				p.MarshalText()
				after := pubPrint(p)
				again, merr := p.MarshalBinary()
				problem := ""
				switch {
				case err != nil:
					problem = "the frame's own encoding does not decode: " + err.Error()
				case before != after:
					problem = "logging the received frame as JSON changed it, " + firstDiff(after, before)
				case merr != nil || !bytes.Equal(again, wire):
					problem = fmt.Sprintf("after logging, the received frame %x re-encodes to %x (err %v)", wire, again, merr)
				}
				return &hChecked{[]interface{}{len(js), errS(jerr)}, problem}
			}},
			HOp{"decode-then-edit(" + f.name + ")", func(HCtx) interface{} {
				var p lorawan.PHYPayload
				err := p.UnmarshalBinary(append([]byte(nil), wire...))
				hDecodeCommands(&p)
				p.MIC[0] ^= 0xFF
				switch mp := p.MACPayload.(type) {
				case *lorawan.MACPayload:
					mp.FHDR.DevAddr[0] ^= 0xFF
					mp.FHDR.FCnt ^= 0xFF
					if mp.FPort != nil && *mp.FPort != 0 {
						*mp.FPort ^= 0x55
					}
					for _, pl := range append(append([]lorawan.Payload{}, mp.FHDR.FOpts...), mp.FRMPayload...) {
						switch v := pl.(type) {
						case *lorawan.DataPayload:
							if len(v.Bytes) > 0 {
								v.Bytes[0] ^= 0xFF
							}
						case *lorawan.MACCommand:
							switch cp := v.Payload.(type) {
							case *lorawan.DevStatusAnsPayload:
								cp.Battery ^= 0xFF
							case *lorawan.LinkADRReqPayload:
								cp.ChMask[5] = !cp.ChMask[5]
							}
						}
					}
				case *lorawan.JoinAcceptPayload:
					mp.DevAddr[0] ^= 0xFF
					if mp.CFList != nil {
						switch cf := mp.CFList.Payload.(type) {
						case *lorawan.CFListChannelPayload:
							cf.Channels[0] += 200000
						case *lorawan.CFListChannelMaskPayload:
							if len(cf.ChannelMasks) > 0 {
								cf.ChannelMasks[0][7] = !cf.ChannelMasks[0][7]
							}
						}
					}
				case *lorawan.JoinRequestPayload:
					mp.DevEUI[0] ^= 0xFF
				case *lorawan.RejoinRequestType02Payload:
					mp.DevEUI[0] ^= 0xFF
				case *lorawan.RejoinRequestType1Payload:
					mp.DevEUI[0] ^= 0xFF
				case *lorawan.DataPayload:
					mp.Bytes[0] ^= 0xFF
				}
				return &hDecoded{&p, errS(err)}
			}},
		)
	}
	for _, f := range hBadFrames() {
		f := f
		ops = append(ops,
			HOp{"encode(" + f.name + ")", func(HCtx) interface{} {
				p := f.mk()
				b, err := p.MarshalBinary()
				return []interface{}{len(b), errS(err)}
			}},
			HOp{"encode-text(" + f.name + ")", func(HCtx) interface{} {
				p := f.mk()
				b, err := p.MarshalText()
				return []interface{}{len(b), errS(err)}
			}},
		)
	}
	return ops
}

// hCryptoOps: MIC set/validate of every frame kind in both MAC versions
// (including the calls that fail after part of the MIC input was assembled),
// FRMPayload / FOpts encryption through function and method, join-accept
// encryption and repeated decryption of value copies of one received frame,
// and one payload object put into two frames.
func hCryptoOps() []HOp {
	frames := map[string]func() lorawan.PHYPayload{}
	for _, f := range append(hGoodFrames(), hBadFrames()...) {
		frames[f.name] = f.mk
	}
	upMIC := func(name string, v lorawan.MACVersion, conf uint32, dr, ch uint8, fk, sk lorawan.AES128Key, frame string) HOp {
		return HOp{name, func(HCtx) interface{} {
			p := frames[frame]()
			err := p.SetUplinkDataMIC(v, conf, dr, ch, fk, sk)
			ok, err2 := p.ValidateUplinkDataMIC(v, conf, dr, ch, fk, sk)
			okF, err3 := p.ValidateUplinkDataMICF(fk)
			return []interface{}{p.MIC, errS(err), ok, errS(err2), okF, errS(err3)}
		}}
	}
	downMIC := func(name string, v lorawan.MACVersion, conf uint32, k lorawan.AES128Key, frame string) HOp {
		return HOp{name, func(HCtx) interface{} {
			p := frames[frame]()
			err := p.SetDownlinkDataMIC(v, conf, k)
			ok, err2 := p.ValidateDownlinkDataMIC(v, conf, k)
			return []interface{}{p.MIC, errS(err), ok, errS(err2)}
		}}
	}
	upJoin := func(name string, k lorawan.AES128Key, frame string) HOp {
		return HOp{name, func(HCtx) interface{} {
			p := frames[frame]()
			err := p.SetUplinkJoinMIC(k)
			ok, err2 := p.ValidateUplinkJoinMIC(k)
			return []interface{}{p.MIC, errS(err), ok, errS(err2)}
		}}
	}
	downJoin := func(name string, jt lorawan.JoinType, k lorawan.AES128Key, frame string) HOp {
		return HOp{name, func(HCtx) interface{} {
			p := frames[frame]()
			err := p.SetDownlinkJoinMIC(jt, hJoinEUI, 0x1234, k)
			ok, err2 := p.ValidateDownlinkJoinMIC(jt, hJoinEUI, 0x1234, k)
			return []interface{}{p.MIC, errS(err), ok, errS(err2)}
		}}
	}
	encFn := func(name string, k lorawan.AES128Key, up bool, n int) HOp {
		return HOp{name, func(HCtx) interface{} {
			in := hBytes(n, 0x11)
			out, err := lorawan.EncryptFRMPayload(k, up, lorawan.DevAddr{1, 2, 3, 4}, 0x00010002, in)
			return []interface{}{out, errS(err), in}
		}}
	}
	joinAcceptRoundTrip := func(name, frame string) HOp {
		return HOp{name, func(HCtx) interface{} {
			// the join-server side
			p := frames[frame]()
			e1 := p.SetDownlinkJoinMIC(lorawan.JoinRequestType, hJoinEUI, 0x1234, hK1)
			plain, _ := p.MarshalBinary()
			e2 := p.EncryptJoinAcceptPayload(hK2)
			wire, e3 := p.MarshalBinary()
			// the device side: one received frame, tried with a wrong key and then the right one
			var rx lorawan.PHYPayload
			e4 := rx.UnmarshalBinary(append([]byte(nil), wire...))
			try1 := rx
			e5 := try1.DecryptJoinAcceptPayload(hK1)
			try2 := rx
			e6 := try2.DecryptJoinAcceptPayload(hK2)
			got, _ := try2.MarshalBinary()
			ok, e7 := try2.ValidateDownlinkJoinMIC(lorawan.JoinRequestType, hJoinEUI, 0x1234, hK1)
			again, _ := rx.MarshalBinary()
			problem := ""
			switch {
			case !bytes.Equal(got, plain):
				problem = fmt.Sprintf("join-accept %x encrypted and received as %x decrypts (second value copy, right key) to %x", plain, wire, got)
			case !ok:
				problem = "the decrypted join-accept does not validate its MIC"
			case !bytes.Equal(again, wire):
				problem = fmt.Sprintf("the received frame %x re-encodes to %x after value copies of it were decrypted", wire, again)
			}
			return &hChecked{[]interface{}{plain, wire, got, ok, again, errS(e1), errS(e2), errS(e3), errS(e4), errS(e5), errS(e6), errS(e7), &hDecoded{&try2, "ok"}}, problem}
		}}
	}
	ops := []HOp{
		upMIC("uplink-mic-1.0", lorawan.LoRaWAN1_0, 0, 0, 0, hK1, hK1, "up-fopts-port10"),
		upMIC("uplink-mic-1.1(F!=S)", lorawan.LoRaWAN1_1, 0x1234abcd, 5, 7, hK1, hK2, "up-fopts-port10"),
		upMIC("uplink-mic-1.1(F==S)", lorawan.LoRaWAN1_1, 0, 2, 1, hK2, hK2, "up-port0-commands"),
		upMIC("uplink-mic-1.0-33bytes", lorawan.LoRaWAN1_0, 0, 0, 0, hK2, hK2, "up-port10-33bytes"),
		downMIC("downlink-mic-1.0", lorawan.LoRaWAN1_0, 0, hK1, "down-empty"),
		downMIC("downlink-mic-1.1-ack-conffcnt", lorawan.LoRaWAN1_1, 0x1234abcd, hK2, "down-2xLinkADRReq-port10"),
		upMIC("uplink-mic(refused-frame)", lorawan.LoRaWAN1_1, 1, 1, 1, hK1, hK2, "bad-command-value"),
		downMIC("downlink-mic(refused-frame)", lorawan.LoRaWAN1_1, 0xffffffff, hK1, "bad-20-fopts-bytes"),
		upJoin("join-request-mic", hK1, "join-request"),
		upJoin("rejoin-0-mic", hK2, "rejoin-0"),
		upJoin("rejoin-1-mic", hK1, "rejoin-1"),
		upJoin("rejoin-mic(refused-frame)", hK1, "bad-rejoin-type"),
		downJoin("join-accept-mic-1.0", lorawan.JoinRequestType, hK1, "join-accept-plain"),
		downJoin("join-accept-mic-1.1-optneg", lorawan.RejoinRequestType1, hK2, "join-accept-cflist-channels"),
		downJoin("join-accept-mic(refused-frame)", lorawan.JoinRequestType, hK1, "bad-join-accept-rxdelay16"),
		downJoin("join-accept-mic-optneg(refused-frame)", lorawan.JoinRequestType, hK2, "bad-join-accept-optneg-cflist-frequency"),
		encFn("EncryptFRMPayload(K1,up,20)", hK1, true, 20),
		encFn("EncryptFRMPayload(K2,down,16)", hK2, false, 16),
		encFn("EncryptFRMPayload(K2,up,33)", hK2, true, 33),
		encFn("EncryptFRMPayload(K1,down,1)", hK1, false, 1),
		{"frame.EncryptFRMPayload,DecryptFRMPayload", func(HCtx) interface{} {
			p := frames["up-fopts-port10"]()
			e1 := p.EncryptFRMPayload(hK1)
			wire, _ := p.MarshalBinary()
			e2 := p.DecryptFRMPayload(hK1)
			problem := ""
			if want := frames["up-fopts-port10"](); pubPrint(want.MACPayload) != pubPrint(p.MACPayload) {
				problem = "EncryptFRMPayload then DecryptFRMPayload with the same key does not give the frame back: " + firstDiff(pubPrint(p.MACPayload), pubPrint(want.MACPayload))
			}
			return &hChecked{[]interface{}{wire, errS(e1), errS(e2), &hDecoded{&p, "ok"}}, problem}
		}},
		{"frame.EncryptFOpts,DecryptFOpts(same-object)", func(HCtx) interface{} {
			p := frames["down-2xLinkADRReq-port10"]()
			e1 := p.EncryptFOpts(hK2)
			wire, _ := p.MarshalBinary()
			e2 := p.DecryptFOpts(hK2)
			problem := ""
			if want := frames["down-2xLinkADRReq-port10"](); pubPrint(want.MACPayload) != pubPrint(p.MACPayload) {
				problem = "EncryptFOpts then DecryptFOpts on the same frame object does not give the commands back: " + firstDiff(pubPrint(p.MACPayload), pubPrint(want.MACPayload))
			}
			return &hChecked{[]interface{}{wire, errS(e1), errS(e2), &hDecoded{&p, "ok"}}, problem}
		}},
		{"frame.EncryptFOpts,transfer,DecryptFOpts", func(HCtx) interface{} {
			p := frames["up-fopts-port10"]()
			e1 := p.EncryptFOpts(hK1)
			wire, _ := p.MarshalBinary()
			var rx lorawan.PHYPayload
			e2 := rx.UnmarshalBinary(append([]byte(nil), wire...))
			e3 := rx.DecryptFOpts(hK1)
			problem := ""
			want := frames["up-fopts-port10"]()
			if a, b := pubPrint(want.MACPayload.(*lorawan.MACPayload).FHDR.FOpts), pubPrint(rx.MACPayload.(*lorawan.MACPayload).FHDR.FOpts); a != b {
				problem = "EncryptFOpts, transfer, DecryptFOpts does not give the commands back: " + firstDiff(b, a)
			}
			return &hChecked{[]interface{}{wire, errS(e1), errS(e2), errS(e3), &hDecoded{&rx, "ok"}}, problem}
		}},
		joinAcceptRoundTrip("join-accept-12-bytes:encrypt,decrypt-copies-wrong-then-right-key", "join-accept-plain"),
		joinAcceptRoundTrip("join-accept-28-bytes:encrypt,decrypt-copies-wrong-then-right-key", "join-accept-cflist-masks"),
		{"join-accept:decrypt-two-copies-of-encrypted-object", func(HCtx) interface{} {
			p := frames["join-accept-cflist-channels"]()
			p.SetDownlinkJoinMIC(lorawan.JoinRequestType, hJoinEUI, 1, hK1)
			plain, _ := p.MarshalBinary()
			p.EncryptJoinAcceptPayload(hK1)
			c1, c2 := p, p
			e1 := c1.DecryptJoinAcceptPayload(hK1)
			e2 := c2.DecryptJoinAcceptPayload(hK1)
			b1, _ := c1.MarshalBinary()
			b2, _ := c2.MarshalBinary()
			problem := ""
			if !bytes.Equal(b1, plain) || !bytes.Equal(b2, plain) {
				problem = fmt.Sprintf("join-accept %x: two value copies of the encrypted frame decrypt to %x and %x", plain, b1, b2)
			}
			return &hChecked{[]interface{}{plain, b1, b2, errS(e1), errS(e2)}, problem}
		}},
		{"one-payload-object-in-two-frames", func(ctx HCtx) interface{} {
			dp, _ := ctx["dp"].(*lorawan.DataPayload)
			if dp == nil {
				dp = &lorawan.DataPayload{Bytes: hBytes(20, 0x61)}
				ctx["dp"] = dp
			}
			p := lorawan.PHYPayload{MHDR: lorawan.MHDR{MType: lorawan.UnconfirmedDataDown, Major: lorawan.LoRaWANR1}, MACPayload: &lorawan.MACPayload{
				FHDR: lorawan.FHDR{DevAddr: lorawan.DevAddr{1, 2, 3, 4}, FCnt: 77}, FPort: hPort(5), FRMPayload: []lorawan.Payload{dp}}}
			e1 := p.EncryptFRMPayload(hK1)
			e2 := p.SetDownlinkDataMIC(lorawan.LoRaWAN1_0, 0, hK2)
			wire, _ := p.MarshalBinary()
			return []interface{}{wire, errS(e1), errS(e2), append([]byte(nil), dp.Bytes...)}
		}},
	}
	return ops
}

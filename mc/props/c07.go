package props

import (
	"bytes"
	"fmt"
	"reflect"
	"sort"
	"strings"
	"time"

	"github.com/brocaar/lorawan"

	"verifmc/engine"
	"verifmc/spec"
)

func init() { register("C07", "model_checking", runC07) }

// c07Domain returns the Go-level domain of a field for the lossless-or-error
// sweep: complete for 8-bit and boolean fields; windows and single-bit values
// for 32-bit frequencies; the defined constants for the DwellTime enum.
func c07Domain(t reflect.Type, thoroughStep int64) []int64 {
	var out []int64
	switch {
	case t == chMaskType:
		out = []int64{0, 1, 0x8000, 0xFFFF, 0x00FF, 0x5555}
	case t.Kind() == reflect.Bool:
		out = []int64{0, 1}
	case t.Name() == "DwellTime":
		out = []int64{0, 1}
	case t.Kind() == reflect.Uint8:
		for v := int64(0); v < 256; v++ {
			out = append(out, v)
		}
	case t.Kind() == reflect.Int8:
		for v := int64(-128); v < 128; v++ {
			out = append(out, v)
		}
	case t.Kind() == reflect.Uint32:
		add := func(lo, hi int64) {
			for v := lo; v <= hi; v++ {
				if v >= 0 && v <= 0xFFFFFFFF {
					out = append(out, v)
				}
			}
		}
		add(0, 4000)
		add(100*(1<<24)-4000, 100*(1<<24)+4000)
		add(1200000000-4000, 1200000000+4000)
		add(2400000000-4000, 2400000000+4000)
		add(200*(1<<24)-4000, 200*(1<<24)+4000)
		add(0xFFFFFFFF-4000, 0xFFFFFFFF)
		for b := uint(0); b < 32; b++ {
			out = append(out, 1<<b)
		}
		out = append(out, 868100000, 923300000, 433175000, 2403000000, 2479000000, 1500000000, 1677721500, 1677721600, 3355443000, 3355443200)
	default:
		panic("c07Domain: unsupported type " + t.String())
	}
	return out
}

// c07Judge decides lossless-or-error for one payload value given as spec
// field values.
func c07Judge(c *engine.Case, cmd *spec.Command, vals map[string]int64) {
	c.Eval()
	v, ok := libValue(cmd, vals)
	if !ok {
		c.Outcome("values/not-representable-in-go-type")
		return
	}
	enc, err := v.MarshalBinary()
	must := true
	for _, f := range cmd.Fields {
		if !f.Must(vals[f.Name]) {
			must = false
		}
	}
	if err != nil {
		if must {
			c.Fail("values/"+cmd.Name+"/in-range-value-refused", fmt.Sprintf("%s {%s} is within the specified ranges but refused: %v", cmd.Name, fmtVals(vals), err), nil)
		}
		c.Outcome("values/refused")
		return
	}
	c.NonTrivial()
	if len(enc) != cmd.Size {
		c.Fail("values/"+cmd.Name+"/encoded-length", fmt.Sprintf("%s {%s} encodes to %d bytes, registered size %d", cmd.Name, fmtVals(vals), len(enc), cmd.Size), nil)
		return
	}
	back, _, _ := lorawan.GetMACPayloadAndSize(cmd.Uplink, lorawan.CID(cmd.CID))
	if err := back.UnmarshalBinary(enc); err != nil {
		c.Fail("values/"+cmd.Name+"/own-encoding-refused", fmt.Sprintf("%s {%s} -> %x: %v", cmd.Name, fmtVals(vals), enc, err), nil)
		return
	}
	got := libFields(cmd, back)
	delete(got, "Remainder")
	for _, f := range cmd.Fields {
		if got[f.Name] != vals[f.Name] {
			c.Fail("values/"+cmd.Name+"/"+f.Name+"/silently-altered", fmt.Sprintf("%s {%s} encodes without error to %x, which decodes to {%s}", cmd.Name, fmtVals(vals), enc, fmtVals(got)), nil)
			return
		}
	}
	// the same bytes decoded into a value that has been used before (it last held the all-ones / the
	// all-zero payload) give the same value: "decode back" does not say the target has to be new
	for _, fill := range []byte{0xFF, 0x00} {
		used, _, _ := lorawan.GetMACPayloadAndSize(cmd.Uplink, lorawan.CID(cmd.CID))
		prev := make([]byte, cmd.Size)
		for i := range prev {
			prev[i] = fill
		}
		used.UnmarshalBinary(prev)
		if err := used.UnmarshalBinary(enc); err != nil {
			c.Fail("values/"+cmd.Name+"/own-encoding-refused-by-used-value", fmt.Sprintf("%s {%s} -> %x: a value that decoded %x before answers %v", cmd.Name, fmtVals(vals), enc, prev, err), nil)
			return
		}
		if g, w := deepPrint(used), deepPrint(back); g != w {
			c.Fail("values/"+cmd.Name+"/decoded-into-used-value-differs", fmt.Sprintf("%s %x decoded into a value that decoded %x before gives %s, into a new value %s", cmd.Name, enc, prev, g, w), nil)
			return
		}
	}
	c.Outcome("values/lossless")
}

func runC07(r *engine.Run) {
	r.Rule = "E1 + E2. Values: for each of the 29 MAC payload types every uint8/int8/bool field over its complete Go domain one field at a time with the other fields at each of three base tuples (minimum, maximum in range, middle), all pairs for payloads made of two packed fields, uint32 frequencies over windows around 0, 100*2^24, 1.2 GHz, 2.4 GHz, 200*2^24, 2^32 and all single-bit values (thorough: every multiple of 50 Hz in 0..2^32), DeviceTimeAns durations around every 1/256 s boundary, negative and >= 2^32 s; oracle: MarshalBinary returns an error, or decoding its output gives back exactly the value (1/256 s floor for DeviceTimeAns), and every tuple inside the specification's ranges is accepted. Streams: every sequence of <= 4 commands over the direction's complete CID set (defined CIDs with adversarial payloads, two unknown CIDs, one proprietary CID), every sequence over a size-class alphabet up to the 15-byte FOpts budget, each CID repeated to fill 15 and 242 bytes, and 3-byte prefixes x both directions (quick: 256x256x16; thorough: all 2^24) against the specification framer. Registry histories (explicit-state BFS): RegisterProprietaryMACCommand(uplink{T,F}, cid{0x7F,0x80,0xFF}, size{-1,0,1,2,16}) to depth 3 from the reset registry against a map model; in every state all 256 CIDs x 2 directions through GetMACPayloadAndSize and the stream decoder's framing of the registered CIDs in both directions."
	r.Assume("the registry is process-global: the history search runs single-threaded and resets the registry (hook) before every path replay")
	r.Assume("DwellTime is judged over its two defined constants; other integers of that Go type are not values of the specification")
	if err := spec.CheckTables(); err != nil {
		r.HarnessError("%v", err)
		return
	}
	lorawan.VerifRegistryReset()
	r.Rule += " E3 (schedules): two registrations of different (direction, CID) pairs at the same time next to a stream decoder, every interleaving (preemption-bounded and unbounded with state-key pruning): both calls return nil, both registrations are in the registry afterwards, the decoder frames with the size before or after."
	mergeSchedSummary(r, "C07")
	macCommandReuse(r)

	// ---- values
	for ci := range spec.Commands {
		cmd := &spec.Commands[ci]
		if cmd.Name == "DeviceTimeAns" {
			continue
		}
		proto, _, _ := lorawan.GetMACPayloadAndSize(cmd.Uplink, lorawan.CID(cmd.CID))
		// Go types of the flattened fields
		ftypes := map[string]reflect.Type{}
		var walk func(t reflect.Type, prefix string)
		walk = func(t reflect.Type, prefix string) {
			for i := 0; i < t.NumField(); i++ {
				f := t.Field(i)
				name := f.Name
				if prefix != "" {
					name = prefix + "." + name
				}
				if f.Type.Kind() == reflect.Struct && f.Type != chMaskType {
					walk(f.Type, name)
				} else {
					ftypes[name] = f.Type
				}
			}
		}
		walk(reflect.TypeOf(proto).Elem(), "")
		var names []string
		for _, f := range cmd.Fields {
			names = append(names, f.Name)
		}
		doms := map[string][]int64{}
		for _, n := range names {
			t, ok := ftypes[n]
			if !ok {
				r.HarnessError("C07: field %s.%s not found in the library struct", cmd.Name, n)
				return
			}
			doms[n] = c07Domain(t, 0)
		}
		// base tuples: min, max-in-range, mid
		base := func(k int) map[string]int64 {
			m := map[string]int64{}
			for _, f := range cmd.Fields {
				max := (int64(1)<<f.Width - 1) * f.Scale
				if f.Signed {
					max = (int64(1)<<(f.Width-1) - 1) * f.Scale
				}
				if f.MustAccept != nil {
					for max > 0 && !f.MustAccept(max/f.Scale) {
						max -= f.Scale
					}
				}
				switch k {
				case 0:
					m[f.Name] = 0
				case 1:
					m[f.Name] = max
				default:
					m[f.Name] = (max / f.Scale / 2) * f.Scale
					if f.MustAccept != nil && !f.MustAccept(m[f.Name]/f.Scale) {
						m[f.Name] = 0
					}
				}
			}
			return m
		}
		var total uint64
		offs := make([]uint64, len(names))
		for i, n := range names {
			offs[i] = total
			total += uint64(len(doms[n])) * 3
		}
		dir := map[bool]string{true: "up", false: "down"}[cmd.Uplink]
		r.PartDims(fmt.Sprintf("values/%s-%s", cmd.Name, dir), []string{"field x complete Go domain", "base tuple:3"}, total, func(c *engine.Case) {
			fi := len(names) - 1
			for fi > 0 && offs[fi] > c.Index {
				fi--
			}
			i := c.Index - offs[fi]
			vals := base(int(i % 3))
			vals[names[fi]] = doms[names[fi]][i/3]
			c07Judge(c, cmd, vals)
		})
		// fields the library's struct has beyond the specification's table (e.g. OptNeg inside the
		// DLSettings of RXParamSetupReq): lossless-or-error speaks about every payload *value*, so a
		// value with such a field set is either refused or comes back unchanged
		var extras []string
		for n := range ftypes {
			known := false
			for _, k := range names {
				known = known || k == n
			}
			if !known {
				extras = append(extras, n)
			}
		}
		sort.Strings(extras)
		for _, n := range extras {
			n := n
			dom := c07Domain(ftypes[n], 0)
			r.PartDims(fmt.Sprintf("values/%s-%s/library-only-field/%s", cmd.Name, dir, n), []string{"field: complete Go domain", "base tuple:3"}, uint64(len(dom))*3, func(c *engine.Case) {
				c.Eval()
				vals := base(int(c.Index % 3))
				vals[n] = dom[c.Index/3]
				v, ok := libValue(cmd, vals)
				if !ok {
					c.Outcome("values/not-representable-in-go-type")
					return
				}
				enc, err := v.MarshalBinary()
				if err != nil {
					c.Outcome("values/refused")
					return
				}
				c.NonTrivial()
				back, _, _ := lorawan.GetMACPayloadAndSize(cmd.Uplink, lorawan.CID(cmd.CID))
				if err := back.UnmarshalBinary(enc); err != nil {
					c.Fail("values/"+cmd.Name+"/own-encoding-refused", fmt.Sprintf("%s {%s} -> %x: %v", cmd.Name, fmtVals(vals), enc, err), nil)
					return
				}
				got := flatten(back)
				for k, want := range vals {
					if g, present := got[k]; present && g != want {
						c.Fail("values/"+cmd.Name+"/"+k+"/silently-altered", fmt.Sprintf("%s {%s} encodes without error to %x, which decodes to {%s}", cmd.Name, fmtVals(vals), enc, fmtVals(got)), nil)
						return
					}
				}
				c.Outcome("values/library-only-field/lossless")
			})
		}
		// all pairs for payloads of exactly two 8-bit-typed fields
		if len(names) == 2 && len(doms[names[0]]) == 256 && len(doms[names[1]]) == 256 {
			r.PartDims(fmt.Sprintf("values/%s-%s/pairs", cmd.Name, dir), []string{"field A:256", "field B:256"}, 65536, func(c *engine.Case) {
				c07Judge(c, cmd, map[string]int64{names[0]: doms[names[0]][c.Index%256], names[1]: doms[names[1]][c.Index/256]})
			})
		}
		if r.Thorough() {
			for _, n := range names {
				n := n
				if ftypes[n].Kind() != reflect.Uint32 {
					continue
				}
				r.PartDims(fmt.Sprintf("values/%s-%s/%s-every-50Hz", cmd.Name, dir, n), []string{"frequency: every multiple of 50 Hz in 0..2^32 (blocks of 16384)"}, (1<<32)/50/16384+1, func(c *engine.Case) {
					vals := base(2)
					for k := int64(0); k < 16384; k++ {
						f := (int64(c.Index)*16384 + k) * 50
						if f > 0xFFFFFFFF {
							break
						}
						vals[n] = f
						c07Judge(c, cmd, vals)
					}
				})
			}
		}
	}
	// DeviceTimeAns: durations
	{
		cmd := spec.Lookup(false, 0x0D)
		var ds []time.Duration
		unit := time.Second / 256
		for k := 0; k <= 256; k++ {
			for _, d := range []time.Duration{-1, 0, 1} {
				ds = append(ds, time.Duration(k)*unit+d, 1300000000*time.Second+time.Duration(k)*unit+d)
			}
		}
		ds = append(ds, -time.Second, -1, (1<<31)*time.Second, (1<<32-1)*time.Second, (1<<32-1)*time.Second+255*unit, (1<<32)*time.Second, (1<<32)*time.Second+unit, 1<<62, -(1 << 62))
		r.PartDims("values/DeviceTimeAns-down", []string{fmt.Sprintf("durations:%d (every 1/256 s boundary +-1 ns, negative, >= 2^32 s)", len(ds))}, uint64(len(ds)), func(c *engine.Case) {
			d := ds[c.Index]
			p := lorawan.DeviceTimeAnsPayload{TimeSinceGPSEpoch: d}
			enc, err := p.MarshalBinary()
			inRange := d >= 0 && d < (1<<32)*time.Second
			if err != nil {
				if inRange {
					c.Fail("values/DeviceTimeAns/in-range-value-refused", fmt.Sprintf("%v refused: %v", d, err), nil)
				}
				c.Outcome("values/refused")
				return
			}
			c.NonTrivial()
			var back lorawan.DeviceTimeAnsPayload
			if err := back.UnmarshalBinary(enc); err != nil || len(enc) != cmd.Size {
				c.Fail("values/DeviceTimeAns/own-encoding-refused", fmt.Sprintf("%v -> %x: %v", d, enc, err), nil)
				return
			}
			want := d - d%unit // floor to wire resolution (permitted rounding)
			if !inRange || back.TimeSinceGPSEpoch != want {
				class := "in-range"
				if d < 0 {
					class = "negative"
				} else if !inRange {
					class = "beyond-32-bit-seconds"
				}
				c.Fail("values/DeviceTimeAns/TimeSinceGPSEpoch/silently-altered/"+class, fmt.Sprintf("duration %v encodes without error to %x, which decodes to %v", d, enc, back.TimeSinceGPSEpoch), nil)
				return
			}
			c.Outcome("values/lossless")
		})
	}

	// ---- streams
	// adversarial payloads: the payload bytes are themselves CIDs of other commands
	advCmd := func(uplink bool, cid byte, k int) spec.Cmd {
		cmd := spec.Lookup(uplink, cid)
		if cmd == nil {
			return spec.Cmd{CID: cid}
		}
		ex := spec.Example(uplink, cid)
		if k%2 == 1 {
			// canonical bytes closest to "looks like other commands": decode/encode an all-CID filler through the spec
			raw := bytes.Repeat([]byte{0x03}, cmd.Size)
			if uplink {
				raw = bytes.Repeat([]byte{0x06}, cmd.Size)
			}
			f := spec.DecodeFields(cmd.Fields, raw)
			okAll := true
			for _, fl := range cmd.Fields {
				if !fl.Must(f[fl.Name]) {
					okAll = false
				}
			}
			if enc, ok := spec.EncodeFields(cmd.Fields, cmd.Size, f); ok && okAll {
				if !(cmd.Name == "NewChannelReq" && !cmd.Judged(enc)) {
					ex.Payload = enc
				}
			}
		}
		return ex
	}
	checkStream := func(c *engine.Case, uplink bool, cmds []spec.Cmd, viaFRM bool) {
		c.Eval()
		b := spec.CmdBytes(cmds)
		lc, err := libCmds(uplink, cmds)
		if err != nil {
			c.Fail("harness/libcmds", err.Error(), nil)
			return
		}
		mt := lorawan.UnconfirmedDataDown
		if uplink {
			mt = lorawan.UnconfirmedDataUp
		}
		mp := &lorawan.MACPayload{}
		if viaFRM {
			port := uint8(0)
			mp.FPort = &port
			mp.FRMPayload = lc
		} else {
			mp.FHDR.FOpts = lc
		}
		p := lorawan.PHYPayload{MHDR: lorawan.MHDR{MType: mt}, MACPayload: mp}
		wire, err := p.MarshalBinary()
		if err != nil {
			c.Fail("streams/encode-refused", fmt.Sprintf("commands %x: %v", b, err), nil)
			return
		}
		c.NonTrivial()
		// the concatenation on the wire is the specification's
		var body []byte
		if viaFRM {
			body = wire[9 : len(wire)-4]
		} else {
			body = wire[8 : len(wire)-4]
		}
		if !bytes.Equal(body, b) {
			c.Fail("streams/concatenation-differs", fmt.Sprintf("library %x, specification %x", body, b), nil)
			return
		}
		var q lorawan.PHYPayload
		if err := q.UnmarshalBinary(wire); err != nil {
			c.Fail("streams/frame-refused", err.Error(), nil)
			return
		}
		observe(&q) // a receiver logs the frame it decoded
		var derr error
		if viaFRM {
			derr = q.DecodeFRMPayloadToMACCommands()
		} else {
			derr = q.DecodeFOptsToMACCommands()
		}
		qm := q.MACPayload.(*lorawan.MACPayload)
		got := qm.FHDR.FOpts
		if viaFRM {
			got = qm.FRMPayload
		}
		if derr != nil {
			c.Fail("streams/decode-error", fmt.Sprintf("stream %x (uplink=%v): %v", b, uplink, derr), nil)
			return
		}
		if msg := sameCmds(uplink, got, cmds); msg != "" {
			first := "?"
			if len(cmds) > 0 {
				first = fmt.Sprintf("%02x", cmds[0].CID)
			}
			c.Fail(fmt.Sprintf("streams/sequence-differs/uplink=%v/first-cid=%s", uplink, first), fmt.Sprintf("stream %x (uplink=%v): %s", b, uplink, msg), nil)
			return
		}
		c.Outcome(fmt.Sprintf("streams/len=%d", len(cmds)))
	}
	for _, uplink := range []bool{false, true} {
		uplink := uplink
		alpha := []byte{}
		alpha = append(alpha, spec.DirCIDs(uplink)...)
		alpha = append(alpha, 0x12, 0x7F, 0x80) // two unknown CIDs and an unregistered proprietary one
		na := uint64(len(alpha)) * 2
		var total uint64
		for l, n := 1, na; l <= 4; l, n = l+1, n*na {
			total += n
		}
		if !r.Thorough() {
			total = na + na*na + na*na*na
		}
		dir := map[bool]string{true: "up", false: "down"}[uplink]
		r.PartWorkers("streams/"+dir+"/all-cids", []string{fmt.Sprintf("alphabet:%d CIDs x 2 payload variants", len(alpha)), "length: 1..3 (quick) / 1..4 (thorough)", "restricted to <= 15 bytes for FOpts; FRMPayload always"}, total, 6, func(c *engine.Case) {
			i := c.Index
			l := 1
			for n := na; i >= n; n *= na {
				i -= n
				l++
			}
			var cmds []spec.Cmd
			for k := 0; k < l; k++ {
				a := i % na
				i /= na
				cmds = append(cmds, advCmd(uplink, alpha[a/2], int(a%2)))
			}
			if len(spec.CmdBytes(cmds)) <= 15 {
				checkStream(c, uplink, cmds, false)
			}
			checkStream(c, uplink, cmds, true)
		})
		// size-class alphabet up to the 15-byte budget
		var classes []byte
		seen := map[int]bool{}
		for _, cid := range spec.DirCIDs(uplink) {
			sz := spec.PayloadSize(uplink, cid)
			if !seen[sz] {
				seen[sz] = true
				classes = append(classes, cid)
			}
		}
		classes = append(classes, 0x7F)
		var seqs [][]byte
		var rec func(cur []byte, left int)
		rec = func(cur []byte, left int) {
			if len(cur) > 0 {
				seqs = append(seqs, append([]byte(nil), cur...))
			}
			for _, cid := range classes {
				sz := 1 + spec.PayloadSize(uplink, cid)
				if sz <= left {
					rec(append(cur, cid), left-sz)
				}
			}
		}
		rec(nil, 15)
		r.PartWorkers("streams/"+dir+"/size-classes-to-15-bytes", []string{fmt.Sprintf("one CID per payload size class + one unknown: %d", len(classes)), fmt.Sprintf("all sequences fitting 15 bytes: %d", len(seqs))}, uint64(len(seqs)), 6, func(c *engine.Case) {
			var cmds []spec.Cmd
			for k, cid := range seqs[c.Index] {
				cmds = append(cmds, advCmd(uplink, cid, k))
			}
			checkStream(c, uplink, cmds, false)
			checkStream(c, uplink, cmds, true)
		})
		r.PartWorkers("streams/"+dir+"/fill", []string{fmt.Sprintf("each CID repeated to fill 15 and 242 bytes: %d", len(alpha))}, uint64(len(alpha)), 6, func(c *engine.Case) {
			cid := alpha[c.Index]
			sz := 1 + spec.PayloadSize(uplink, cid)
			for _, budget := range []int{15, 242} {
				var cmds []spec.Cmd
				for k := 0; (k+1)*sz <= budget; k++ {
					cmds = append(cmds, advCmd(uplink, cid, k))
				}
				checkStream(c, uplink, cmds, budget == 242)
			}
		})
	}
	// MAC commands in FRMPayload are refused unless FPort = 0
	r.Part("streams/mac-commands-need-port-0", 4, func(c *engine.Case) {
		ports := []*uint8{nil, new(uint8), new(uint8), new(uint8)}
		*ports[2], *ports[3] = 1, 255
		mp := &lorawan.MACPayload{FPort: ports[c.Index], FRMPayload: []lorawan.Payload{&lorawan.MACCommand{CID: lorawan.LinkCheckReq}}}
		p := lorawan.PHYPayload{MHDR: lorawan.MHDR{MType: lorawan.UnconfirmedDataUp}, MACPayload: mp}
		_, err := p.MarshalBinary()
		c.NonTrivial()
		if (c.Index == 1) != (err == nil) {
			c.Fail("streams/mac-command-on-wrong-port", fmt.Sprintf("FPort %v: err=%v", ports[c.Index], err), nil)
		}
	})
	// byte-string side: 3-byte prefixes against the specification framer
	third := []int{0x00, 0x01, 0x02, 0x03, 0x05, 0x06, 0x07, 0x0A, 0x0D, 0x0E, 0x10, 0x11, 0x13, 0x20, 0x80, 0xFF}
	if r.Thorough() {
		third = nil
		for i := 0; i < 256; i++ {
			third = append(third, i)
		}
	}
	r.PartWorkers("streams/3-byte-strings-vs-spec-framer", []string{"byte0:256", "byte1:256", fmt.Sprintf("byte2:%d", len(third)), "direction:2 (inner)"}, 65536, 6, func(c *engine.Case) {
		for _, t := range third {
			for _, uplink := range []bool{false, true} {
				c.Eval()
				b := []byte{byte(c.Index), byte(c.Index >> 8), byte(t)}
				want, ok := spec.FrameCmds(uplink, b, nil)
				mt := lorawan.UnconfirmedDataDown
				if uplink {
					mt = lorawan.UnconfirmedDataUp
				}
				p := lorawan.PHYPayload{MHDR: lorawan.MHDR{MType: mt}, MACPayload: &lorawan.MACPayload{FHDR: lorawan.FHDR{FOpts: []lorawan.Payload{&lorawan.DataPayload{Bytes: append([]byte(nil), b...)}}}}}
				err := p.DecodeFOptsToMACCommands()
				if ok != (err == nil) {
					c.Fail("streams/framing-error-iff-truncated", fmt.Sprintf("bytes %x uplink=%v: library err=%v, specification framer ok=%v", b, uplink, err, ok), nil)
					continue
				}
				if err != nil {
					c.Outcome("streams/bytes-truncated")
					continue
				}
				c.NonTrivial()
				got := p.MACPayload.(*lorawan.MACPayload).FHDR.FOpts
				if len(got) != len(want) {
					c.Fail("streams/framing-count", fmt.Sprintf("bytes %x uplink=%v: %d commands, specification framer %d", b, uplink, len(got), len(want)), nil)
					continue
				}
				for i := range got {
					mc := got[i].(*lorawan.MACCommand)
					var pb []byte
					if mc.Payload != nil {
						pb, _ = mc.Payload.MarshalBinary()
					}
					// the payload re-encodes to the framed bytes up to RFU bits: compare CIDs and lengths
					if byte(mc.CID) != want[i].CID || (mc.Payload != nil && len(pb) != len(want[i].Payload) && len(pb) != 0) {
						c.Fail("streams/framing-differs", fmt.Sprintf("bytes %x uplink=%v: command %d CID %02x payload %x, framer CID %02x payload %x", b, uplink, i, byte(mc.CID), pb, want[i].CID, want[i].Payload), nil)
					}
				}
				c.Outcome("streams/bytes-framed")
			}
		}
	})

	// ---- DeviceTimeAns for durations between two wire steps (1/256 s): "to wire resolution"
	r.PartDims("values/DeviceTimeAns/between-wire-steps", []string{"seconds:6", "fraction step:0..255", "offset inside the step:7"}, 6*256, func(c *engine.Case) {
		secs := []uint64{0, 1, 59, 1234567, 1<<32 - 2, 1<<32 - 1}
		sec, frac := secs[c.Index/256], c.Index%256
		const step = 3906250
		for _, off := range []int64{0, 1, step/2 - 1, step / 2, step/2 + 1, step - 2, step - 1} {
			c.Eval()
			ns := int64(frac)*step + off
			d := time.Duration(sec)*time.Second + time.Duration(ns)
			if d < 0 {
				continue // beyond time.Duration for the largest second values: not representable
			}
			pl := lorawan.DeviceTimeAnsPayload{TimeSinceGPSEpoch: d}
			b, err := pl.MarshalBinary()
			if err != nil {
				c.Outcome("devicetime/between-steps/refused")
				continue
			}
			c.NonTrivial()
			var back lorawan.DeviceTimeAnsPayload
			if err := back.UnmarshalBinary(b); err != nil {
				c.Fail("values/DeviceTimeAns/not-decodable", fmt.Sprintf("%v encodes to %x which does not decode: %v", d, b, err), nil)
				continue
			}
			diff := back.TimeSinceGPSEpoch - d
			if diff < 0 {
				diff = -diff
			}
			if diff >= step {
				c.Fail("values/DeviceTimeAns/TimeSinceGPSEpoch/silently-altered", fmt.Sprintf("%v encodes without error to %x, which decodes to %v (%v away; the wire resolution is 1/256 s = %v)", d, b, back.TimeSinceGPSEpoch, diff, time.Duration(step)), nil)
			}
			c.Outcome("devicetime/between-steps/within-resolution")
		}
	})

	// ---- the command sequences of length 0..3 on port 0 through the decrypting entry point: a frame is
	// built with the sequence, encrypted, sent, and DecryptFRMPayload gives exactly the sequence back -
	// the empty sequence included (FPort 0 with no payload is a frame)
	r.PartDims("streams/port0-through-decrypt", []string{"direction:2", "sequence length:0..3", "first CID (inner)"}, 2*4, func(c *engine.Case) {
		uplink := c.Index%2 == 1
		n := int(c.Index / 2)
		cids := spec.DirCIDs(uplink)
		key := keyOf(c02Keys[1])
		mt := lorawan.UnconfirmedDataDown
		if uplink {
			mt = lorawan.UnconfirmedDataUp
		}
		for _, first := range cids {
			c.Eval()
			var want []spec.Cmd
			for k := 0; k < n; k++ {
				want = append(want, spec.Example(uplink, cids[(int(first)+k*7)%len(cids)]))
			}
			if n > 0 {
				want[0] = spec.Example(uplink, first)
			}
			cmds, err := libCmds(uplink, want)
			if err != nil {
				c.Fail("harness/build", err.Error(), nil)
				return
			}
			port := uint8(0)
			p := lorawan.PHYPayload{MHDR: lorawan.MHDR{MType: mt, Major: lorawan.LoRaWANR1}, MACPayload: &lorawan.MACPayload{FHDR: lorawan.FHDR{DevAddr: lorawan.DevAddr{1, 2, 3, 4}, FCnt: 3}, FPort: &port, FRMPayload: cmds}}
			if err := p.EncryptFRMPayload(key); err != nil {
				c.Fail("streams/port0-through-decrypt/encrypt", fmt.Sprintf("sequence %x (uplink=%v): %v", spec.CmdBytes(want), uplink, err), nil)
				continue
			}
			wire, err := p.MarshalBinary()
			if err != nil {
				c.Fail("streams/port0-through-decrypt/encode", fmt.Sprintf("sequence %x (uplink=%v): %v", spec.CmdBytes(want), uplink, err), nil)
				continue
			}
			var q lorawan.PHYPayload
			if err := q.UnmarshalBinary(wire); err != nil {
				c.Fail("streams/port0-through-decrypt/decode", fmt.Sprintf("%x: %v", wire, err), nil)
				continue
			}
			observe(&q) // a receiver logs the frame it decoded
			q.MACPayload.(*lorawan.MACPayload).FHDR.FCnt = 3
			c.NonTrivial()
			if err := q.DecryptFRMPayload(key); err != nil {
				c.Fail("streams/port0-through-decrypt/decrypt-error", fmt.Sprintf("port-0 frame %x carrying the %d-command sequence %x (uplink=%v): DecryptFRMPayload: %v", wire, n, spec.CmdBytes(want), uplink, err), nil)
				continue
			}
			if msg := sameCmds(uplink, q.MACPayload.(*lorawan.MACPayload).FRMPayload, want); msg != "" {
				c.Fail("streams/port0-through-decrypt/sequence-differs", fmt.Sprintf("port-0 frame %x (uplink=%v): %s", wire, uplink, msg), nil)
			}
		}
	})

	// ---- a refused encoding before a valid one: FOpts (and a port-0 payload) whose first command encodes
	// and whose second is out of range is refused; the next valid sequence still decodes into exactly
	// itself. One worker: what a refused call leaves behind is process state.
	{
		type dc struct {
			uplink bool
			cid    byte
		}
		var firsts []dc
		for _, up := range []bool{true, false} {
			for _, cid := range spec.DirCIDs(up) {
				firsts = append(firsts, dc{up, cid})
			}
		}
		r.PartWorkers("streams/refused-then-valid", []string{fmt.Sprintf("command that encodes before the refused one:%d", len(firsts)), "carrier{FOpts, port-0 FRMPayload}"}, uint64(len(firsts))*2, 1, func(c *engine.Case) {
			f := firsts[c.Index/2]
			inFRM := c.Index%2 == 1
			c.Eval()
			mt := lorawan.UnconfirmedDataDown
			if f.uplink {
				mt = lorawan.UnconfirmedDataUp
			}
			bad := lorawan.Payload(&lorawan.MACCommand{CID: lorawan.LinkADRReq, Payload: &lorawan.LinkADRReqPayload{DataRate: 16}})
			if f.uplink {
				bad = &lorawan.MACCommand{CID: lorawan.DevStatusAns, Payload: &lorawan.DevStatusAnsPayload{Margin: 40}}
			}
			mk := func(cmds []lorawan.Payload) *lorawan.PHYPayload {
				mp := &lorawan.MACPayload{FHDR: lorawan.FHDR{DevAddr: lorawan.DevAddr{1, 2, 3, 4}, FCnt: 1}}
				if inFRM {
					port := uint8(0)
					mp.FPort, mp.FRMPayload = &port, cmds
				} else {
					mp.FHDR.FOpts = cmds
				}
				return &lorawan.PHYPayload{MHDR: lorawan.MHDR{MType: mt, Major: lorawan.LoRaWANR1}, MACPayload: mp}
			}
			first, err := libCmds(f.uplink, []spec.Cmd{spec.Example(f.uplink, f.cid)})
			if err != nil {
				c.Fail("harness/build", err.Error(), nil)
				return
			}
			if _, err := mk(append(first, bad)).MarshalBinary(); err == nil {
				c.Outcome("streams/refused-then-valid/not-refused")
			}
			// the valid sequence that follows
			want := []spec.Cmd{spec.Example(f.uplink, 0x02), spec.Example(f.uplink, 0x06)}
			valid, err := libCmds(f.uplink, want)
			if err != nil {
				c.Fail("harness/build", err.Error(), nil)
				return
			}
			wire, err := mk(valid).MarshalBinary()
			if err != nil {
				c.Fail("streams/refused-then-valid/valid-sequence-refused", fmt.Sprintf("after a refused encoding (first command %02x, uplink=%v): the valid sequence %x is refused: %v", f.cid, f.uplink, spec.CmdBytes(want), err), nil)
				return
			}
			c.NonTrivial()
			var q lorawan.PHYPayload
			if err := q.UnmarshalBinary(wire); err != nil {
				c.Fail("streams/refused-then-valid/decode", fmt.Sprintf("%x: %v", wire, err), nil)
				return
			}
			observe(&q) // a receiver logs the frame it decoded
			qm := q.MACPayload.(*lorawan.MACPayload)
			var got []lorawan.Payload
			if inFRM {
				err = q.DecodeFRMPayloadToMACCommands()
				got = qm.FRMPayload
			} else {
				err = q.DecodeFOptsToMACCommands()
				got = qm.FHDR.FOpts
			}
			if msg := sameCmds(f.uplink, got, want); err != nil || msg != "" {
				c.Fail("streams/refused-then-valid/sequence-differs", fmt.Sprintf("after a refused encoding (first command %02x, uplink=%v): the sequence %x is encoded as %x and decodes differently: %s (err %v)", f.cid, f.uplink, spec.CmdBytes(want), wire, msg, err), nil)
			}
		})
	}

	// ---- registry: every registered size 1..300 (one registration from the reset registry): the stream
	// decoder frames the CID with exactly that size, in FOpts form and as a port-0 FRMPayload
	r.PartWorkers("registry/sizes", []string{"size:1..300", "direction:2", "cid{80,ff}"}, 300*2*2, 1, func(c *engine.Case) {
		sz := int(c.Index%300) + 1
		uplink := (c.Index/300)%2 == 1
		cid := []byte{0x80, 0xFF}[c.Index/600]
		lorawan.VerifRegistryReset()
		defer lorawan.VerifRegistryReset()
		c.Eval()
		if err := lorawan.RegisterProprietaryMACCommand(uplink, lorawan.CID(cid), sz); err != nil {
			c.Fail("registry/sizes/registration-refused", fmt.Sprintf("RegisterProprietaryMACCommand(uplink=%v, %02x, %d): %v", uplink, cid, sz, err), nil)
			return
		}
		if _, got, err := lorawan.GetMACPayloadAndSize(uplink, lorawan.CID(cid)); err != nil || got != sz {
			c.Fail("registry/sizes/lookup", fmt.Sprintf("registered size %d: GetMACPayloadAndSize gives %d (err %v)", sz, got, err), nil)
			return
		}
		c.NonTrivial()
		pay := make([]byte, sz)
		for k := range pay {
			pay[k] = byte(0x80 + k%7) // bytes that are CIDs themselves if mis-framed
		}
		tail := spec.Example(uplink, 0x02)
		stream := append(append([]byte{cid}, pay...), tail.Bytes()...)
		want, _ := spec.FrameCmds(uplink, stream, func(b byte) int {
			if b == cid {
				return sz
			}
			return 0
		})
		mt := lorawan.UnconfirmedDataDown
		if uplink {
			mt = lorawan.UnconfirmedDataUp
		}
		p := lorawan.PHYPayload{MHDR: lorawan.MHDR{MType: mt}, MACPayload: &lorawan.MACPayload{FHDR: lorawan.FHDR{FOpts: []lorawan.Payload{&lorawan.DataPayload{Bytes: append([]byte(nil), stream...)}}}}}
		if err := p.DecodeFOptsToMACCommands(); err != nil {
			c.Fail("registry/sizes/framing-error", fmt.Sprintf("size %d uplink=%v: stream %x: %v", sz, uplink, stream, err), nil)
			return
		}
		if msg := sameCmds(uplink, p.MACPayload.(*lorawan.MACPayload).FHDR.FOpts, want); msg != "" {
			c.Fail("registry/sizes/framing-differs-from-model", fmt.Sprintf("size %d uplink=%v: stream of %d bytes: %s", sz, uplink, len(stream), msg), nil)
			return
		}
		if len(stream) <= 242 {
			port := uint8(0)
			q := lorawan.PHYPayload{MHDR: lorawan.MHDR{MType: mt}, MACPayload: &lorawan.MACPayload{FPort: &port, FRMPayload: []lorawan.Payload{&lorawan.DataPayload{Bytes: append([]byte(nil), stream...)}}}}
			if err := q.DecodeFRMPayloadToMACCommands(); err != nil {
				c.Fail("registry/sizes/framing-error", fmt.Sprintf("size %d uplink=%v: port-0 payload %x: %v", sz, uplink, stream, err), nil)
				return
			}
			if msg := sameCmds(uplink, q.MACPayload.(*lorawan.MACPayload).FRMPayload, want); msg != "" {
				c.Fail("registry/sizes/framing-differs-from-model", fmt.Sprintf("size %d uplink=%v: port-0 payload of %d bytes: %s", sz, uplink, len(stream), msg), nil)
			}
		}
	})

	registryChangeGaps(r)

	// ---- a received frame whose FOpts are edited and which is then sent on (a MAC command answered and
	// dropped, one added), and a header that takes its FCtrl by assignment from a received frame: FOptsLen is
	// the length of the commands the frame carries now, whatever the value held before
	r.PartDims("fopts/re-encode-after-edit", []string{"FOpts bytes decoded:0..15", "FOpts bytes set afterwards:0..15", "direction:2", "how{edit the decoded frame, FCtrl copied into a new header}"}, 16*16*2*2, func(c *engine.Case) {
		a, b := int(c.Index%16), int(c.Index/16%16)
		uplink := c.Index/256%2 == 0
		copied := c.Index/512 == 1
		c.Eval()
		cid, mhdr := lorawan.DevStatusReq, byte(0x60)
		if uplink {
			cid, mhdr = lorawan.LinkCheckReq, 0x40
		}
		wire := []byte{mhdr, 4, 3, 2, 1, byte(a), 7, 0}
		for i := 0; i < a; i++ {
			wire = append(wire, byte(cid))
		}
		wire = append(wire, 9, 0xAA, 0xBB, 1, 2, 3, 4)
		var rx lorawan.PHYPayload
		if err := rx.UnmarshalBinary(wire); err != nil {
			c.Fail("fopts/re-encode-after-edit/decode", fmt.Sprintf("%x: %v", wire, err), nil)
			return
		}
		var cmds []lorawan.Payload
		for i := 0; i < b; i++ {
			cmds = append(cmds, &lorawan.MACCommand{CID: cid})
		}
		tx := rx
		rmp := rx.MACPayload.(*lorawan.MACPayload)
		if copied {
			port := uint8(9)
			mp := &lorawan.MACPayload{FHDR: lorawan.FHDR{DevAddr: rmp.FHDR.DevAddr, FCtrl: rmp.FHDR.FCtrl, FCnt: rmp.FHDR.FCnt, FOpts: cmds}, FPort: &port,
				FRMPayload: []lorawan.Payload{&lorawan.DataPayload{Bytes: []byte{0xAA, 0xBB}}}}
			tx = lorawan.PHYPayload{MHDR: rx.MHDR, MACPayload: mp, MIC: rx.MIC}
		} else {
			rmp.FHDR.FOpts = cmds
		}
		out, err := tx.MarshalBinary()
		if err != nil {
			c.Fail("fopts/re-encode-after-edit/encode", fmt.Sprintf("frame decoded with %d FOpts bytes, FOpts set to %d commands: %v", a, b, err), nil)
			return
		}
		c.NonTrivial()
		var back lorawan.PHYPayload
		err = back.UnmarshalBinary(out)
		if err == nil {
			err = back.DecodeFOptsToMACCommands()
		}
		bmp, _ := back.MACPayload.(*lorawan.MACPayload)
		if err != nil || bmp == nil || len(out) < 6 || int(out[5]&0x0F) != b || deepPrint(bmp.FHDR.FOpts) != deepPrint(cmds) && !(b == 0 && len(bmp.FHDR.FOpts) == 0) || bmp.FPort == nil || *bmp.FPort != 9 {
			c.Fail("fopts/re-encode-after-edit", fmt.Sprintf("a frame decoded with %d FOpts bytes (FCtrl copied into a new header: %v) and sent on with %d one-byte commands encodes to %x: FOptsLen nibble %d, decodes (err %v) to FOpts %s", a, copied, b, out, out[5]&0x0F, err, func() string {
				if bmp == nil {
					return "-"
				}
				return deepPrint(bmp.FHDR.FOpts)
			}()), nil)
			return
		}
		c.Outcome("fopts/re-encode-after-edit/ok")
	})

	// ---- registry histories (E2)
	type regOp struct {
		uplink bool
		cid    byte
		size   int
	}
	var regOps []regOp
	for _, u := range []bool{true, false} {
		for _, cid := range []byte{0x7F, 0x80, 0xFF} {
			for _, sz := range []int{-1, 0, 1, 2, 16} {
				regOps = append(regOps, regOp{u, cid, sz})
			}
		}
	}
	model := func(path []int) (map[bool]map[byte]int, []string) {
		m := map[bool]map[byte]int{true: {}, false: {}}
		var res []string
		for _, o := range path {
			op := regOps[o]
			switch {
			case op.cid < 0x80 || op.size < 0:
				res = append(res, "err")
			case op.size == 0:
				res = append(res, "ok") // nothing to register
			default:
				m[op.uplink][op.cid] = op.size
				res = append(res, "ok")
			}
		}
		return m, res
	}
	snap := func() string {
		var sb strings.Builder
		for _, e := range lorawan.VerifRegistrySnapshot() {
			fmt.Fprintf(&sb, "%v:%02x:%d:%s;", e.Uplink, byte(e.CID), e.Size, e.Type)
		}
		return sb.String()
	}
	var xops []engine.XOp
	for i := range regOps {
		op := regOps[i]
		xops = append(xops, engine.XOp{Name: fmt.Sprintf("Register(uplink=%v,cid=%02x,size=%d)", op.uplink, op.cid, op.size), Do: func(interface{}) string {
			var err error
			if pn, site, _ := engine.Try(func() { err = lorawan.RegisterProprietaryMACCommand(op.uplink, lorawan.CID(op.cid), op.size) }); pn {
				return "panic:" + site
			}
			if err != nil {
				return "err"
			}
			return "ok"
		}})
	}
	depth := 2
	if r.Thorough() {
		depth = 3
	}
	x := engine.XSpec{
		Name: "registry-histories", Workers: 1, Depth: depth, Ops: xops,
		New:  func() interface{} { lorawan.VerifRegistryReset(); return struct{}{} },
		Snap: func(interface{}) string { return snap() },
	}
	x.Check = func(c *engine.Case, _ interface{}, path []int, last string) {
		_, res := model(path)
		op := regOps[path[len(path)-1]]
		if last != res[len(res)-1] {
			key := "registry/result"
			if op.size < 0 {
				key = "registry/negative-size-accepted"
			}
			c.Fail(key, fmt.Sprintf("%v: returned %s, model %s", x.PathNames(path), last, res[len(res)-1]), nil)
		}
		// the registry after the transition is exactly the model's (standard entries + registered ones)
		m, _ := model(path)
		var want strings.Builder
		for _, e := range lorawan.VerifRegistrySnapshot() {
			if byte(e.CID) < 0x80 {
				fmt.Fprintf(&want, "%v:%02x:%d:%s;", e.Uplink, byte(e.CID), e.Size, e.Type)
			}
		}
		got := snap()
		var exp strings.Builder
		for _, up := range []bool{false, true} {
			for _, e := range lorawan.VerifRegistrySnapshot() {
				if e.Uplink == up && byte(e.CID) < 0x80 {
					fmt.Fprintf(&exp, "%v:%02x:%d:%s;", e.Uplink, byte(e.CID), e.Size, e.Type)
				}
			}
			var cids []int
			for cid := range m[up] {
				cids = append(cids, int(cid))
			}
			sort.Ints(cids)
			for _, cid := range cids {
				fmt.Fprintf(&exp, "%v:%02x:%d:*lorawan.ProprietaryMACCommandPayload;", up, cid, m[up][byte(cid)])
			}
		}
		if got != exp.String() {
			c.Fail("registry/state-differs-from-model", fmt.Sprintf("after %v the registry is %s; model %s", x.PathNames(path), got, exp.String()), nil)
		}
		c.Outcome("registry/transition/" + last)
	}
	x.CheckState = func(c *engine.Case, _ interface{}, path []int) {
		m, _ := model(path)
		c.NonTrivial()
		negative := false
		for _, e := range lorawan.VerifRegistrySnapshot() {
			if e.Size < 0 {
				negative = true
			}
		}
		for cid := 0; cid < 256; cid++ {
			for _, uplink := range []bool{true, false} {
				c.Eval()
				pl, size, err := lorawan.GetMACPayloadAndSize(uplink, lorawan.CID(cid))
				want, registered := m[uplink][byte(cid)]
				if sc := spec.Lookup(uplink, byte(cid)); sc != nil {
					want, registered = sc.Size, true
				}
				if registered != (err == nil) || registered && size != want {
					c.Fail("registry/lookup-differs-from-model", fmt.Sprintf("after %v: GetMACPayloadAndSize(uplink=%v, %02x) = size %d err %v; model size %d registered %v", x.PathNames(path), uplink, cid, size, err, want, registered), nil)
				}
				if registered && cid >= 0x80 {
					if _, ok := pl.(*lorawan.ProprietaryMACCommandPayload); !ok {
						c.Fail("registry/proprietary-payload-type", fmt.Sprintf("%T", pl), nil)
					}
				}
			}
		}
		if negative {
			c.Outcome("registry/state-with-negative-size(decoder not run)")
			return
		}
		// the stream decoder frames the proprietary CIDs with the model's size in that direction only
		for _, cid := range []byte{0x80, 0xFF} {
			for _, uplink := range []bool{true, false} {
				c.Eval()
				sz := m[uplink][cid]
				// <cid> <payload of model size> 02 (a payload-less or 2-byte-payload CID follows)
				stream := append([]byte{cid}, bytes.Repeat([]byte{0x80}, sz)...)
				tail := spec.Example(uplink, 0x02)
				stream = append(stream, tail.Bytes()...)
				want, _ := spec.FrameCmds(uplink, stream, func(c byte) int { return m[uplink][c] })
				mt := lorawan.UnconfirmedDataDown
				if uplink {
					mt = lorawan.UnconfirmedDataUp
				}
				p := lorawan.PHYPayload{MHDR: lorawan.MHDR{MType: mt}, MACPayload: &lorawan.MACPayload{FHDR: lorawan.FHDR{FOpts: []lorawan.Payload{&lorawan.DataPayload{Bytes: append([]byte(nil), stream...)}}}}}
				var err error
				if okRun, pn := engine.Isolated(20*time.Second, func() { err = p.DecodeFOptsToMACCommands() }); !okRun {
					c.Fail("registry/decoder-does-not-terminate", fmt.Sprintf("after %v: decoding %x (uplink=%v) did not terminate", x.PathNames(path), stream, uplink), nil)
					return
				} else if pn != nil {
					c.Fail("registry/decoder-panics", fmt.Sprintf("after %v: decoding %x panics: %v", x.PathNames(path), stream, pn), nil)
					continue
				}
				if err != nil {
					c.Fail("registry/framing-error", fmt.Sprintf("after %v: %x (uplink=%v): %v", x.PathNames(path), stream, uplink, err), nil)
					continue
				}
				if msg := sameCmds(uplink, p.MACPayload.(*lorawan.MACPayload).FHDR.FOpts, want); msg != "" {
					c.Fail("registry/framing-differs-from-model", fmt.Sprintf("after %v: stream %x (uplink=%v): %s", x.PathNames(path), stream, uplink, msg), nil)
				}
				c.Outcome(fmt.Sprintf("registry/framed/size=%d", sz))
				// two commands with this CID and different bytes in one stream, and a second
				// stream decoded while the first result is kept: every command keeps its own bytes
				if sz > 0 && 2*(1+sz) <= 15 {
					mk := func(seed byte) []byte {
						out := []byte{cid}
						for k := 0; k < sz; k++ {
							out = append(out, seed+byte(k))
						}
						return out
					}
					dec := func(stream []byte) ([]lorawan.Payload, error) {
						q := lorawan.PHYPayload{MHDR: lorawan.MHDR{MType: mt}, MACPayload: &lorawan.MACPayload{FHDR: lorawan.FHDR{FOpts: []lorawan.Payload{&lorawan.DataPayload{Bytes: append([]byte(nil), stream...)}}}}}
						err := q.DecodeFOptsToMACCommands()
						return q.MACPayload.(*lorawan.MACPayload).FHDR.FOpts, err
					}
					s1 := append(mk(0x10), mk(0x20)...)
					first, err1 := dec(s1)
					want1 := []spec.Cmd{{CID: cid, Payload: mk(0x10)[1:]}, {CID: cid, Payload: mk(0x20)[1:]}}
					if msg := sameCmds(uplink, first, want1); err1 != nil || msg != "" {
						c.Fail("registry/repeated-proprietary-command", fmt.Sprintf("after %v: stream %x (uplink=%v): %s (err %v)", x.PathNames(path), s1, uplink, msg, err1), nil)
						continue
					}
					if _, err2 := dec(append(mk(0x30), mk(0x40)...)); err2 == nil {
						if msg := sameCmds(uplink, first, want1); msg != "" {
							c.Fail("registry/decoded-command-changed-by-later-decode", fmt.Sprintf("after %v: the commands decoded from %x changed when another stream was decoded: %s", x.PathNames(path), s1, msg), nil)
							continue
						}
					}
					c.Outcome("registry/repeated-proprietary-command-decoded")
				}
				// the encoder side: a proprietary command carrying the size registered for
				// its direction encodes to CID|payload (MACCommand.MarshalBinary has no
				// direction; it must not apply the other direction's size), alone and
				// inside the FOpts of a frame of that direction
				if sz > 0 && sz <= 14 {
					pay := bytes.Repeat([]byte{0x5A}, sz)
					mc := &lorawan.MACCommand{CID: lorawan.CID(cid), Payload: &lorawan.ProprietaryMACCommandPayload{Bytes: append([]byte(nil), pay...)}}
					enc, err := mc.MarshalBinary()
					if err != nil || !bytes.Equal(enc, append([]byte{cid}, pay...)) {
						c.Fail("registry/proprietary-command-encode", fmt.Sprintf("after %v: proprietary command %02x with the %d bytes registered for uplink=%v encodes to %x (err %v)", x.PathNames(path), cid, sz, uplink, enc, err), nil)
						continue
					}
					fr := lorawan.PHYPayload{MHDR: lorawan.MHDR{MType: mt}, MACPayload: &lorawan.MACPayload{FHDR: lorawan.FHDR{FOpts: []lorawan.Payload{mc}}}}
					wire, err := fr.MarshalBinary()
					if err != nil {
						c.Fail("registry/proprietary-command-encode", fmt.Sprintf("after %v: frame with proprietary command %02x (%d bytes, uplink=%v) refused: %v", x.PathNames(path), cid, sz, uplink, err), nil)
						continue
					}
					var back lorawan.PHYPayload
					if err := back.UnmarshalBinary(wire); err != nil || back.DecodeFOptsToMACCommands() != nil {
						c.Fail("registry/proprietary-command-round-trip", fmt.Sprintf("after %v: frame %x with proprietary command %02x does not decode", x.PathNames(path), wire, cid), nil)
						continue
					}
					if msg := sameCmds(uplink, back.MACPayload.(*lorawan.MACPayload).FHDR.FOpts, []spec.Cmd{{CID: cid, Payload: pay}}); msg != "" {
						c.Fail("registry/proprietary-command-round-trip", fmt.Sprintf("after %v: frame %x (uplink=%v): %s", x.PathNames(path), wire, uplink, msg), nil)
					}
					c.Outcome("registry/proprietary-command-encoded")
				}
			}
		}
	}
	res := r.Explore(x)
	lorawan.VerifRegistryReset()
	if !r.Replay {
		r.Extra("registry_search", map[string]interface{}{"states": res.States, "transitions": res.Transitions, "max_depth": res.MaxDepth})
		r.Guard(r.OutcomeCount("streams/len=4") > 0 || r.OutcomeCount("streams/len=3") > 0, "streams with >= 3 commands decoded")
		r.Guard(r.OutcomePrefixCount("streams/len=") > 0 && r.OutcomeCount("streams/bytes-truncated") > 0, "framed and truncated byte strings observed")
		r.Guard(r.OutcomeCount("registry/framed/size=0") > 0 && r.OutcomeCount("registry/framed/size=2") > 0 && r.OutcomeCount("registry/framed/size=16") > 0, "proprietary framing with sizes 0, 2 and 16 observed (both directions differ for some CID)")
		var ks []string
		for i := range spec.Commands {
			ks = append(ks, spec.Commands[i].Name)
		}
		sort.Strings(ks)
		r.Sample0(map[string]interface{}{"search": "registry-histories", "example_path": []string{"Register(uplink=true,cid=80,size=2)", "Register(uplink=false,cid=80,size=16)"}, "checked_in_state": "GetMACPayloadAndSize for 256 CIDs x 2 directions; stream 80 <payload> 02.. framed in both directions"})
	}
}

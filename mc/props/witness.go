package props

// Witnesses: inputs whose *correct* MIC has a conspicuous value. They were found by exhaustive search
// (mc/cmd/micsearch: 2^33 candidates per kind, about half a minute on 16 cores) and are verified
// against the specification model each time they are used; a MIC of 00000000 or ffffffff is as
// legitimate as any other, but it is the value a "MIC not set" shortcut would single out, and input
// enumeration reaches it only with probability 2^-32 per frame.
var (
	witnessKey = mustHex("2b7e151628aed2a6abf7158809cf4f3c")
	// join-request MHDR 00 | JoinEUI | DevEUI | DevNonce under witnessKey
	witnessJoinEUI = [8]byte{1, 2, 3, 4, 5, 6, 7, 8}
	witnessJoin    = []struct {
		devEUI [8]byte
		nonce  uint16
		mic    [4]byte
	}{
		{[8]byte{0x08, 0x07, 0x06, 0x05, 0x5a, 0x00, 0x74, 0x1e}, 0x8f82, [4]byte{0, 0, 0, 0}},
		{[8]byte{0x08, 0x07, 0x06, 0x05, 0x5a, 0x00, 0x75, 0xd3}, 0xad26, [4]byte{0xff, 0xff, 0xff, 0xff}},
	}
)

// data uplink (LoRaWAN 1.0, NwkSKey = witnessKey): MType UnconfirmedDataUp, DevAddr 01020304, FCtrl 00,
// FPort 10, FRMPayload 01 22, FCnt e36d5b1d: the specification MIC is ffffffff (no counter in 2^33
// candidates of this shape gave 00000000).
var witnessUplink = struct {
	fcnt uint32
	frm  []byte
	mic  [4]byte
}{0xe36d5b1d, []byte{0x01, 0x22}, [4]byte{0xff, 0xff, 0xff, 0xff}}

// join-accept (1.0 form, key = witnessKey): JoinNonce 0018b0, NetID 010203, DevAddr 01020022,
// DLSettings 00, RXDelay 1, no CFList: the specification MIC is 00000000.
var witnessJoinAccept = struct {
	joinNonce uint32
	devAddr   uint32
	mic       [4]byte
}{0x0018b0, 0x01020022, [4]byte{0, 0, 0, 0}}

// data downlinks (LoRaWAN 1.0, NwkSKey = witnessKey): MType UnconfirmedDataDown, DevAddr 01020304, FCtrl 00,
// FPort 10, FRMPayload (as on the air) 00 22: FCnt 31b23b89 gives the specification MIC 00000000,
// FCnt e129f9f0 gives ffffffff.
var witnessDownlink = []struct {
	fcnt uint32
	frm  []byte
	mic  [4]byte
}{
	{0x31b23b89, []byte{0x00, 0x22}, [4]byte{0, 0, 0, 0}},
	{0xe129f9f0, []byte{0x00, 0x22}, [4]byte{0xff, 0xff, 0xff, 0xff}},
}

package props

import (
	"bytes"
	"encoding/hex"
	"fmt"

	"github.com/brocaar/lorawan"

	"verifmc/engine"
)

func init() { register("C08", "exploration", runC08) }

// c08Class computes the finding class of a byte string from its control bytes.
func c08Class(b []byte) string {
	if len(b) == 0 {
		return "empty"
	}
	mt := b[0] >> 5
	switch mt {
	case 2, 3, 4, 5:
		if len(b) < 12 {
			return fmt.Sprintf("data/len=%d", len(b))
		}
		fol := int(b[5] & 0x0f)
		rest := len(b) - 4 - 8 - fol // bytes after FHDR, before MIC
		s := fmt.Sprintf("data/fopts%s", map[bool]string{true: ">0", false: "=0"}[fol > 0])
		switch {
		case rest < 0:
			s += "+truncated"
		case rest == 0:
			s += "+fport=absent"
		default:
			if b[8+fol] == 0 {
				s += "+fport=0"
			} else {
				s += "+fport>0"
			}
			if rest == 1 {
				s += "+frm=empty"
			} else {
				s += "+frm>0"
			}
		}
		return s
	case 0:
		return "join-request"
	case 1:
		return "join-accept"
	case 6:
		if len(b) > 1 {
			return fmt.Sprintf("rejoin/type=%d", b[1])
		}
		return "rejoin"
	default:
		return "proprietary"
	}
}

// c08One decides the property for one byte string.
func c08One(c *engine.Case, b []byte) {
	c.Eval()
	in := append([]byte(nil), b...)
	var p lorawan.PHYPayload
	err := p.UnmarshalBinary(in)
	if !bytes.Equal(in, b) {
		c.Fail("decoder-writes-input", fmt.Sprintf("input %x modified to %x", b, in), nil)
	}
	if err != nil {
		c.Outcome("rejected/" + c08Class(b))
		return
	}
	class := c08Class(b)
	if b[0]&0x1C != 0 {
		// reserved MHDR bits set: the expected re-encoding is the input with
		// those bits cleared; recorded, not judged (the property excludes them)
		c.Outcome("accepted-with-mhdr-rfu(recorded)/" + class)
		return
	}
	c.NonTrivial()
	c.Outcome("accepted/" + class)
	observeFmt(&p) // a forwarder logs the frame before passing it on
	first := deepPrint(p)
	out, err := p.MarshalBinary()
	if err != nil {
		c.Fail("accepted-but-unencodable/"+class, fmt.Sprintf("input %x decodes but re-encoding fails: %v", b, err), nil)
		return
	}
	if !bytes.Equal(out, b) {
		c.Fail("re-encoding-differs/"+class, fmt.Sprintf("input %x re-encodes to %x", b, out), nil)
		return
	}
	var q lorawan.PHYPayload
	if err := q.UnmarshalBinary(out); err != nil || deepPrint(q) != first {
		c.Fail("second-decode-differs/"+class, fmt.Sprintf("input %x: err %v", b, err), nil)
	}
	// every applicable MIC validation answers with a boolean, never an error
	k := keyOf(c02Keys[1])
	switch p.MHDR.MType {
	case lorawan.UnconfirmedDataUp, lorawan.ConfirmedDataUp:
		if _, err := p.ValidateUplinkDataMIC(lorawan.LoRaWAN1_1, 1, 2, 3, k, k); err != nil {
			c.Fail("validate-errors-on-accepted-frame/"+class, fmt.Sprintf("input %x: ValidateUplinkDataMIC: %v", b, err), nil)
		}
		if _, err := p.ValidateUplinkDataMICF(k); err != nil {
			c.Fail("validate-errors-on-accepted-frame/"+class, fmt.Sprintf("input %x: ValidateUplinkDataMICF: %v", b, err), nil)
		}
	case lorawan.UnconfirmedDataDown, lorawan.ConfirmedDataDown:
		if _, err := p.ValidateDownlinkDataMIC(lorawan.LoRaWAN1_0, 0, k); err != nil {
			c.Fail("validate-errors-on-accepted-frame/"+class, fmt.Sprintf("input %x: ValidateDownlinkDataMIC: %v", b, err), nil)
		}
	case lorawan.JoinRequest, lorawan.RejoinRequest:
		if _, err := p.ValidateUplinkJoinMIC(k); err != nil {
			c.Fail("validate-errors-on-accepted-frame/"+class, fmt.Sprintf("input %x: ValidateUplinkJoinMIC: %v", b, err), nil)
		}
	}
	// "a network server can verify the MIC over ... a received frame without it changing": after the
	// validations (with a key that is not the frame's) the frame still re-encodes to the input
	if out2, err := p.MarshalBinary(); err != nil || !bytes.Equal(out2, b) {
		c.Fail("re-encoding-differs-after-validation/"+class, fmt.Sprintf("input %x re-encodes to %x (err %v) after MIC validations with another key", b, out2, err), nil)
	}
	if c.WantSample() && len(b) > 14 {
		c.Sample(func() interface{} {
			return map[string]interface{}{"part": c.Part, "input": hex.EncodeToString(b), "class": class, "verdict": "accepted, canonical"}
		})
	}
}

func runC08(r *engine.Run) {
	r.Rule = "E1 control-byte abstraction of 'all byte strings': the decoder branches only on the length, the MHDR byte, byte 1 (rejoin type), the FCtrl byte (FOptsLen nibble) and whether the FPort byte is zero; every other byte is copied. Run sweeps: every contiguous byte range of every base frame set to 00.. / ff.. (multi-byte fields at their conspicuous values); the control-byte fillers include the all-zero one. Enumerated: MHDR (quick: the 32 values with RFU bits zero + 8 with RFU bits set; thorough: all 256) x length (quick 0..40; thorough 0..80 and 81..256 step 5) x FCtrl byte (quick: 16 FOptsLen x 4 flag nibbles; thorough: all 256) x byte[1] in {0,1,2,3,255} x byte at the candidate FPort position in {0,1,255} x filler {position-distinct, all 0xFF}. The data-independence claim is itself tested: for 8 base frames per MType every position x all 256 byte values. Oracle: accepted (with MHDR bits 4:2 zero) => re-encodes without error to exactly the input, decodes again to a deep-equal frame, and every applicable Validate*MIC returns a boolean. Non-trivial: a distinct byte string the decoder accepted."
	frameHistory(r, 2)
	r.Assume("coverage-guided fuzzing named in the quantifier is a different family; it is replaced by the control-byte abstraction plus the per-position sweeps that test the abstraction")
	r.Assume("strings with reserved MHDR bits set are decoded and recorded, not judged (excluded by the property)")

	var mhdrs []byte
	if r.Thorough() {
		for i := 0; i < 256; i++ {
			mhdrs = append(mhdrs, byte(i))
		}
	} else {
		for mt := 0; mt < 8; mt++ {
			for major := 0; major < 4; major++ {
				mhdrs = append(mhdrs, byte(mt<<5|major))
			}
			mhdrs = append(mhdrs, byte(mt<<5|0x1C))
		}
	}
	var lens []int
	if r.Thorough() {
		for i := 0; i <= 80; i++ {
			lens = append(lens, i)
		}
		for i := 81; i <= 256; i += 5 {
			lens = append(lens, i)
		}
		lens = append(lens, 255)
	} else {
		for i := 0; i <= 40; i++ {
			lens = append(lens, i)
		}
		lens = append(lens, 255, 256)
	}
	var fctrls []byte
	if r.Thorough() {
		for i := 0; i < 256; i++ {
			fctrls = append(fctrls, byte(i))
		}
	} else {
		for _, hi := range []byte{0x00, 0xF0, 0xA0, 0x50} {
			for lo := 0; lo < 16; lo++ {
				fctrls = append(fctrls, hi|byte(lo))
			}
		}
	}
	b1s := []byte{0, 1, 2, 3, 255}
	ports := []byte{0, 1, 255}
	sp := (&engine.Space{}).Dim("mhdr", len(mhdrs)).Dim("length", len(lens)).Dim("fctrl", len(fctrls)).Dim("byte1", len(b1s)).Dim("fport-position-byte", len(ports)).Dim("filler", 3)
	r.PartDims("control-bytes", sp.Desc(), sp.N(), func(c *engine.Case) {
		var ch [6]int
		sp.Decode(c.Index, ch[:])
		n := lens[ch[1]]
		b := make([]byte, n)
		for i := range b {
			switch ch[5] {
			case 0:
				b[i] = byte(0x21 + 3*i)
				if b[i] == 0 {
					b[i] = 0x7E
				}
			case 1:
				b[i] = 0xFF
			default:
				b[i] = 0x00 // every copied field (address, counter, nonce, payload, MIC) at its zero value
			}
		}
		if n > 0 {
			b[0] = mhdrs[ch[0]]
		}
		if n > 1 {
			b[1] = b1s[ch[3]]
		}
		if n > 5 {
			b[5] = fctrls[ch[2]]
			pp := 8 + int(b[5]&0x0f)
			if pp < n-4 {
				b[pp] = ports[ch[4]]
			}
		}
		c08One(c, b)
	})

	// data independence: base frames x position x byte value
	bases := [][]byte{}
	for mt := 0; mt < 8; mt++ {
		h := byte(mt << 5)
		switch mt {
		case 0:
			bases = append(bases, append(append([]byte{h}, fillBytes(18, 1)...), 1, 2, 3, 4))
		case 1:
			bases = append(bases, append(append([]byte{h}, fillBytes(12, 2)...), 1, 2, 3, 4), append(append([]byte{h}, fillBytes(28, 3)...), 1, 2, 3, 4))
		case 6:
			bases = append(bases, append(append([]byte{h, 0}, fillBytes(13, 4)...), 1, 2, 3, 4), append(append([]byte{h, 1}, fillBytes(18, 5)...), 1, 2, 3, 4), append(append([]byte{h, 2}, fillBytes(13, 6)...), 1, 2, 3, 4))
		case 7:
			bases = append(bases, append(append([]byte{h}, fillBytes(9, 7)...), 1, 2, 3, 4))
		default:
			// FHDR only; FOpts 3; port + payload; FOpts 15 + port + payload; port 0 + payload
			bases = append(bases,
				append([]byte{h, 4, 3, 2, 1, 0x80, 1, 0}, 1, 2, 3, 4),
				append([]byte{h, 4, 3, 2, 1, 0x23, 1, 0, 0x02, 0x04, 0x08}, 1, 2, 3, 4),
				append(append([]byte{h, 4, 3, 2, 1, 0x00, 1, 0, 10}, fillBytes(6, 8)...), 1, 2, 3, 4),
				append(append(append([]byte{h, 4, 3, 2, 1, 0x0F, 1, 0}, fillBytes(15, 9)...), append([]byte{1}, fillBytes(5, 10)...)...), 1, 2, 3, 4),
				append(append([]byte{h, 4, 3, 2, 1, 0x00, 1, 0, 0}, fillBytes(4, 11)...), 1, 2, 3, 4))
		}
	}
	var total uint64
	offs := make([]uint64, len(bases))
	for i, b := range bases {
		offs[i] = total
		total += uint64(len(b)) * 256
	}
	r.PartDims("position-sweeps", []string{fmt.Sprintf("base frames:%d", len(bases)), "position: every byte", "value:256"}, total, func(c *engine.Case) {
		bi := len(bases) - 1
		for bi > 0 && offs[bi] > c.Index {
			bi--
		}
		i := c.Index - offs[bi]
		b := append([]byte(nil), bases[bi]...)
		b[i/256] = byte(i)
		c08One(c, b)
	})

	// multi-byte fields at a conspicuous value: every contiguous run of every base frame set to 00.. / ff..
	// (a MIC, an address, a counter or a nonce of all zeros or all ones is a value like any other)
	var runTotal uint64
	runOffs := make([]uint64, len(bases))
	for i, b := range bases {
		runOffs[i] = runTotal
		runTotal += uint64(len(b)*(len(b)+1)/2) * 2
	}
	r.PartDims("run-sweeps", []string{fmt.Sprintf("base frames:%d", len(bases)), "run: every contiguous byte range", "value{00, ff}"}, runTotal, func(c *engine.Case) {
		bi := len(bases) - 1
		for bi > 0 && runOffs[bi] > c.Index {
			bi--
		}
		i := int(c.Index - runOffs[bi])
		b := append([]byte(nil), bases[bi]...)
		v := byte(0x00)
		if i%2 == 1 {
			v = 0xFF
		}
		i /= 2
		lo := 0
		for n := len(b); i >= n-lo; lo++ {
			i -= n - lo
		}
		for k := lo; k <= lo+i; k++ {
			b[k] = v
		}
		c08One(c, b)
	})

	r.Guard(r.OutcomePrefixCount("accepted/data/") > 0 && r.OutcomeCount("accepted/join-request") > 0 && r.OutcomeCount("accepted/join-accept") > 0 && r.OutcomeCount("accepted/proprietary") > 0 && r.OutcomePrefixCount("accepted/rejoin/") > 0, "every frame kind accepted at least once")
	r.Guard(r.OutcomePrefixCount("rejected/") > 0, "rejections observed")
	r.Guard(r.OutcomeCount("accepted/data/fopts>0+fport>0+frm>0") > 0 && r.OutcomeCount("accepted/data/fopts=0+fport=0+frm>0") > 0 && r.OutcomeCount("accepted/data/fopts=0+fport=absent") > 0, "data frame layouts with and without FOpts/FPort accepted")
}

package props

import (
	"fmt"

	"github.com/brocaar/lorawan"

	"verifmc/engine"
	"verifmc/spec"
)

// macCommandReuse: one MACCommand value decoded twice (C07: decodes into exactly that command for its
// direction; C10: decoding into a value that was used before gives what decoding into a fresh one gives).
// First use: every defined (direction, CID) - decoded from its example bytes, or constructed with a payload
// object of that type; second use: every defined (direction, CID) and two unknown CIDs, also with one byte
// missing. 45 x 2 x 47 x 2 pairs.
func macCommandReuse(r *engine.Run) {
	type dc struct {
		uplink bool
		cid    byte
	}
	var firsts, seconds []dc
	for _, up := range []bool{true, false} {
		for _, cid := range spec.DirCIDs(up) {
			firsts = append(firsts, dc{up, cid})
			seconds = append(seconds, dc{up, cid})
		}
		seconds = append(seconds, dc{up, 0x7E})
	}
	r.Rule += fmt.Sprintf(" MACCommand reuse: one MACCommand value used twice - first any of the %d defined (direction, CID) pairs (decoded or constructed), then any of them or an unknown CID in either direction (complete and one byte short): same result as a fresh value.", len(firsts))
	n := uint64(len(firsts) * 2 * len(seconds) * 2)
	r.PartDims("maccommand/reused-receiver", []string{fmt.Sprintf("first use:%d x {decoded,constructed}", len(firsts)), fmt.Sprintf("second use:%d x {complete, one byte short}", len(seconds))}, n, func(c *engine.Case) {
		i := c.Index
		short := i%2 == 1
		i /= 2
		second := seconds[i%uint64(len(seconds))]
		i /= uint64(len(seconds))
		constructed := i%2 == 1
		first := firsts[i/2]
		c.Eval()
		var m lorawan.MACCommand
		if constructed {
			pl, _, err := lorawan.GetMACPayloadAndSize(first.uplink, lorawan.CID(first.cid))
			if err != nil {
				pl = nil
			} else if err := pl.UnmarshalBinary(spec.Example(first.uplink, first.cid).Payload); err != nil {
				c.Fail("harness/example", fmt.Sprintf("example of %02x uplink=%v does not decode: %v", first.cid, first.uplink, err), nil)
				return
			}
			m = lorawan.MACCommand{CID: lorawan.CID(first.cid), Payload: pl}
		} else if err := m.UnmarshalBinary(first.uplink, spec.Example(first.uplink, first.cid).Bytes()); err != nil {
			c.Fail("harness/example", fmt.Sprintf("example of %02x uplink=%v does not decode: %v", first.cid, first.uplink, err), nil)
			return
		}
		kept := m // a by-value copy of the first result
		keptPrint := deepPrint(kept)
		data := spec.Example(second.uplink, second.cid).Bytes()
		if short {
			if len(data) < 2 {
				c.Outcome("maccommand/reuse/not-applicable")
				return
			}
			data = data[:len(data)-1]
		}
		var fresh lorawan.MACCommand
		errFresh := fresh.UnmarshalBinary(second.uplink, append([]byte(nil), data...))
		errUsed := m.UnmarshalBinary(second.uplink, append([]byte(nil), data...))
		c.NonTrivial()
		desc := fmt.Sprintf("first use %02x uplink=%v (constructed=%v), then %x uplink=%v", first.cid, first.uplink, constructed, data, second.uplink)
		if (errFresh == nil) != (errUsed == nil) {
			c.Fail("maccommand/reuse/acceptance-differs", fmt.Sprintf("%s: used value err=%v, fresh value err=%v", desc, errUsed, errFresh), nil)
			return
		}
		if errFresh == nil {
			if a, b := deepPrint(m), deepPrint(fresh); a != b {
				c.Fail("maccommand/reuse/value-differs", fmt.Sprintf("%s: used value %s, fresh value %s", desc, a, b), nil)
				return
			}
			if !constructed {
				if now := deepPrint(kept); now != keptPrint {
					c.Fail("maccommand/reuse/earlier-result-changed", fmt.Sprintf("%s: the copy kept of the first result changed from %s to %s", desc, keptPrint, now), nil)
				}
			}
		}
		c.Outcome("maccommand/reuse/compared")
	})
}

// registryChangeGaps: long registration histories. Between two decodes the registration of one CID is
// changed g times, for g = 2^k - 1, 2^k, 2^k + 1 (k = 0..17 quick, 0..20 thorough): whatever the decoder
// remembers about the registry (a generation counter of some width, a copy) is current again after any
// number of changes. One worker; the registry is reset before and after.
func registryChangeGaps(r *engine.Run) {
	maxK := uint(17)
	if r.Thorough() {
		maxK = 20
	}
	var gaps []int
	for k := uint(0); k <= maxK; k++ {
		for _, d := range []int{-1, 0, 1} {
			if g := 1<<k + d; g >= 1 {
				gaps = append(gaps, g)
			}
		}
	}
	r.PartWorkers("registry/change-gaps", []string{fmt.Sprintf("gap between decodes:%d values 1..2^%d+1", len(gaps), maxK), "direction:2"}, 2, 1, func(c *engine.Case) {
		uplink := c.Index == 1
		const cid = 0x90
		lorawan.VerifRegistryReset()
		defer lorawan.VerifRegistryReset()
		mt := lorawan.UnconfirmedDataDown
		if uplink {
			mt = lorawan.UnconfirmedDataUp
		}
		check := func(size int, after string) bool {
			c.Eval()
			stream := append(append([]byte{cid}, fillBytes(size, 0x80)...), spec.Example(uplink, 0x02).Bytes()...)
			want, _ := spec.FrameCmds(uplink, stream, func(b byte) int {
				if b == cid {
					return size
				}
				return 0
			})
			p := lorawan.PHYPayload{MHDR: lorawan.MHDR{MType: mt}, MACPayload: &lorawan.MACPayload{FHDR: lorawan.FHDR{FOpts: []lorawan.Payload{&lorawan.DataPayload{Bytes: stream}}}}}
			if err := p.DecodeFOptsToMACCommands(); err != nil {
				c.Fail("registry/change-gaps/framing-error", fmt.Sprintf("%s: stream %x (registered size %d, uplink=%v): %v", after, stream, size, uplink, err), nil)
				return false
			}
			if msg := sameCmds(uplink, p.MACPayload.(*lorawan.MACPayload).FHDR.FOpts, want); msg != "" {
				c.Fail("registry/change-gaps/framing-differs-from-model", fmt.Sprintf("%s: stream %x is not framed with the registered size %d (uplink=%v): %s", after, stream, size, uplink, msg), nil)
				return false
			}
			return true
		}
		size := 2
		if err := lorawan.RegisterProprietaryMACCommand(uplink, cid, size); err != nil || !check(size, "after the first registration") {
			return
		}
		for _, g := range gaps {
			for i := 0; i < g-1; i++ {
				lorawan.RegisterProprietaryMACCommand(uplink, cid, 7)
			}
			size = 5 - size // 2 <-> 3
			if err := lorawan.RegisterProprietaryMACCommand(uplink, cid, size); err != nil {
				c.Fail("registry/change-gaps/registration-refused", err.Error(), nil)
				return
			}
			if !check(size, fmt.Sprintf("after %d changes of the registration since the last decode", g)) {
				return
			}
		}
		c.NonTrivial()
		c.Outcome("registry/change-gaps/completed")
	})
}

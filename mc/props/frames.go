package props

import (
	"bytes"
	"encoding/binary"
	"fmt"
	"reflect"
	"sort"
	"strings"

	"github.com/brocaar/lorawan"

	"verifmc/spec"
)

// libCmds converts specification commands into library MACCommand values
// (built field by field from the specification's decode of the payload, never
// through the library's decoder).
func libCmds(uplink bool, cmds []spec.Cmd) ([]lorawan.Payload, error) {
	var out []lorawan.Payload
	for _, sc := range cmds {
		mc := &lorawan.MACCommand{CID: lorawan.CID(sc.CID)}
		if cmd := spec.Lookup(uplink, sc.CID); cmd != nil {
			v, ok := libValue(cmd, spec.DecodeFields(cmd.Fields, sc.Payload))
			if !ok {
				return nil, fmt.Errorf("command %s not representable", cmd.Name)
			}
			mc.Payload = v
		} else if len(sc.Payload) > 0 {
			mc.Payload = &lorawan.ProprietaryMACCommandPayload{Bytes: append([]byte(nil), sc.Payload...)}
		}
		out = append(out, mc)
	}
	return out, nil
}

// sameCmds compares decoded library payloads with the specification commands:
// each element must be a *MACCommand with the right CID and a payload whose
// fields equal the specification's decode of the payload bytes.
func sameCmds(uplink bool, got []lorawan.Payload, want []spec.Cmd) string {
	if len(got) != len(want) {
		return fmt.Sprintf("%d commands, expected %d", len(got), len(want))
	}
	for i, g := range got {
		mc, ok := g.(*lorawan.MACCommand)
		if !ok {
			return fmt.Sprintf("element %d is %T, not a MAC command", i, g)
		}
		if byte(mc.CID) != want[i].CID {
			return fmt.Sprintf("command %d has CID %02x, expected %02x", i, byte(mc.CID), want[i].CID)
		}
		cmd := spec.Lookup(uplink, want[i].CID)
		if cmd == nil {
			if len(want[i].Payload) == 0 {
				if mc.Payload != nil {
					return fmt.Sprintf("command %d (CID %02x) has a payload %T, expected none", i, want[i].CID, mc.Payload)
				}
				continue
			}
			pp, ok := mc.Payload.(*lorawan.ProprietaryMACCommandPayload)
			if !ok || !bytes.Equal(pp.Bytes, want[i].Payload) {
				return fmt.Sprintf("command %d (CID %02x) payload %v, expected proprietary bytes %x", i, want[i].CID, mc.Payload, want[i].Payload)
			}
			continue
		}
		if mc.Payload == nil {
			return fmt.Sprintf("command %d (%s) lost its payload", i, cmd.Name)
		}
		gf := libFields(cmd, mc.Payload)
		delete(gf, "Remainder")
		wf := spec.DecodeFields(cmd.Fields, want[i].Payload)
		if !sameVals(gf, wf) {
			return fmt.Sprintf("command %d (%s): {%s}, expected {%s}", i, cmd.Name, fmtVals(gf), fmtVals(wf))
		}
	}
	return ""
}

func devAddrOf(v uint32) lorawan.DevAddr {
	var a lorawan.DevAddr
	binary.BigEndian.PutUint32(a[:], v)
	return a
}

func keyOf(b []byte) lorawan.AES128Key {
	var k lorawan.AES128Key
	copy(k[:], b)
	return k
}

// fillBytes returns n position-distinct bytes (every position differs from
// its neighbours; seed varies the pattern).
func fillBytes(n int, seed byte) []byte {
	b := make([]byte, n)
	for i := range b {
		b[i] = byte(i*7+3) ^ seed
	}
	return b
}

// frameForms says how FOpts / FRMPayload are held in the library value.
const (
	formOpaque = 0 // one DataPayload
	formCmds   = 1 // a list of MACCommand values
)

// buildFrame builds the same data frame as a specification value and as a
// library value. foptsCmds/frmCmds (when non-nil) are held as MAC command
// lists in the library value and as their specified bytes in the spec value.
func buildFrame(f spec.DataFrame, foptsCmds, frmCmds []spec.Cmd) (*lorawan.PHYPayload, error) {
	mp := &lorawan.MACPayload{}
	mp.FHDR.DevAddr = devAddrOf(f.DevAddr)
	mp.FHDR.FCnt = f.FCnt
	mp.FHDR.FCtrl = lorawan.FCtrl{ADR: f.ADR, ADRACKReq: f.ADRACKReq, ACK: f.ACK}
	if f.Uplink() {
		mp.FHDR.FCtrl.ClassB = f.Bit4
	} else {
		mp.FHDR.FCtrl.FPending = f.Bit4
	}
	if foptsCmds != nil {
		l, err := libCmds(f.Uplink(), foptsCmds)
		if err != nil {
			return nil, err
		}
		mp.FHDR.FOpts = l
	} else if len(f.FOpts) > 0 {
		mp.FHDR.FOpts = []lorawan.Payload{&lorawan.DataPayload{Bytes: append([]byte(nil), f.FOpts...)}}
	}
	if f.HasPort {
		p := f.FPort
		mp.FPort = &p
		if frmCmds != nil {
			l, err := libCmds(f.Uplink(), frmCmds)
			if err != nil {
				return nil, err
			}
			mp.FRMPayload = l
		} else if len(f.FRM) > 0 {
			mp.FRMPayload = []lorawan.Payload{&lorawan.DataPayload{Bytes: append([]byte(nil), f.FRM...)}}
		}
	}
	return &lorawan.PHYPayload{
		MHDR:       lorawan.MHDR{MType: lorawan.MType(f.MType), Major: lorawan.Major(f.Major)},
		MACPayload: mp,
	}, nil
}

// payloadBytes returns the bytes a payload list stands for (commands are
// encoded through the library; used only for reporting and for opaque forms).
func opaqueBytes(l []lorawan.Payload) ([]byte, bool) {
	if len(l) == 0 {
		return nil, true
	}
	if len(l) != 1 {
		return nil, false
	}
	dp, ok := l[0].(*lorawan.DataPayload)
	if !ok {
		return nil, false
	}
	return dp.Bytes, true
}

// deepPrint renders a value completely: exported and unexported fields,
// pointers by pointee, slices by content (nil and empty are distinguished),
// interfaces by dynamic type. Two values with equal deepPrint are
// indistinguishable to every method.
func deepPrint(v interface{}) string {
	var sb strings.Builder
	deepInto(&sb, reflect.ValueOf(v), 0)
	return sb.String()
}

func deepInto(sb *strings.Builder, rv reflect.Value, depth int) {
	if depth > 12 {
		sb.WriteString("<depth>")
		return
	}
	if !rv.IsValid() {
		sb.WriteString("<nil>")
		return
	}
	switch rv.Kind() {
	case reflect.Ptr:
		if rv.IsNil() {
			sb.WriteString("nil")
			return
		}
		sb.WriteString("&")
		deepInto(sb, rv.Elem(), depth+1)
	case reflect.Interface:
		if rv.IsNil() {
			sb.WriteString("nil")
			return
		}
		sb.WriteString(rv.Elem().Type().String())
		sb.WriteString(":")
		deepInto(sb, rv.Elem(), depth+1)
	case reflect.Struct:
		sb.WriteString(rv.Type().Name())
		sb.WriteString("{")
		for i := 0; i < rv.NumField(); i++ {
			if i > 0 {
				sb.WriteString(" ")
			}
			sb.WriteString(rv.Type().Field(i).Name)
			sb.WriteString("=")
			deepInto(sb, rv.Field(i), depth+1)
		}
		sb.WriteString("}")
	case reflect.Slice:
		if rv.IsNil() {
			sb.WriteString("nil[]")
			return
		}
		if rv.Type().Elem().Kind() == reflect.Uint8 {
			fmt.Fprintf(sb, "x%x", rv.Bytes())
			return
		}
		sb.WriteString("[")
		for i := 0; i < rv.Len(); i++ {
			if i > 0 {
				sb.WriteString(" ")
			}
			deepInto(sb, rv.Index(i), depth+1)
		}
		sb.WriteString("]")
	case reflect.Array:
		if rv.Type().Elem().Kind() == reflect.Uint8 {
			sb.WriteString("x")
			for i := 0; i < rv.Len(); i++ {
				fmt.Fprintf(sb, "%02x", rv.Index(i).Uint())
			}
			return
		}
		sb.WriteString("[")
		for i := 0; i < rv.Len(); i++ {
			if i > 0 {
				sb.WriteString(" ")
			}
			deepInto(sb, rv.Index(i), depth+1)
		}
		sb.WriteString("]")
	case reflect.Map:
		keys := rv.MapKeys()
		var ks []string
		m := map[string]reflect.Value{}
		for _, k := range keys {
			s := fmt.Sprint(k)
			ks = append(ks, s)
			m[s] = rv.MapIndex(k)
		}
		sort.Strings(ks)
		sb.WriteString("map{")
		for _, k := range ks {
			sb.WriteString(k)
			sb.WriteString(":")
			deepInto(sb, m[k], depth+1)
			sb.WriteString(" ")
		}
		sb.WriteString("}")
	case reflect.Bool:
		fmt.Fprint(sb, rv.Bool())
	case reflect.Int, reflect.Int8, reflect.Int16, reflect.Int32, reflect.Int64:
		fmt.Fprint(sb, rv.Int())
	case reflect.Uint, reflect.Uint8, reflect.Uint16, reflect.Uint32, reflect.Uint64:
		fmt.Fprint(sb, rv.Uint())
	case reflect.String:
		fmt.Fprintf(sb, "%q", rv.String())
	case reflect.Float32, reflect.Float64:
		fmt.Fprint(sb, rv.Float())
	case reflect.Func:
		if rv.IsNil() {
			sb.WriteString("nilfunc")
		} else {
			sb.WriteString("func")
		}
	default:
		fmt.Fprintf(sb, "<%s>", rv.Kind())
	}
}

// value alphabets shared by the crypto checks
var (
	c02Keys = [][]byte{
		mustHex("00000000000000000000000000000000"),
		mustHex("2b7e151628aed2a6abf7158809cf4f3c"),
		mustHex("ffffffffffffffffffffffffffffffff"),
	}
	c02DevAddrs = []uint32{0x00000000, 0x01020304, 0xFFFFFFFF}
	c02FCnts    = []uint32{0, 1, 0xFFFF, 0x10000, 0x89ABCDEF}
)

func mustHex(s string) []byte {
	b := make([]byte, len(s)/2)
	for i := range b {
		fmt.Sscanf(s[2*i:2*i+2], "%02x", &b[i])
	}
	return b
}

package props

import (
	"bytes"
	"encoding/binary"
	"fmt"
	"reflect"
	"sort"
	"strings"
	"time"

	"github.com/brocaar/lorawan"
	"github.com/brocaar/lorawan/applayer/clocksync"
	"github.com/brocaar/lorawan/applayer/firmwaremanagement"
	"github.com/brocaar/lorawan/applayer/fragmentation"
	"github.com/brocaar/lorawan/applayer/multicastsetup"

	"verifmc/engine"
	"verifmc/spec"
)

func init() { register("C18", "exploration", runC18) }

// appPayload is the common shape of the four packages' payloads.
type appPayload interface {
	MarshalBinary() ([]byte, error)
	UnmarshalBinary([]byte) error
	Size() int
}

type appCmd struct {
	CID     byte
	Payload appPayload
	Extra   string // set by unmarshal when the library's command value differs from {CID, Payload} alone
}

// appPkg adapts one application-layer package.
type appPkg struct {
	name      string
	payload   func(uplink bool, cid byte) (appPayload, bool)
	marshal   func(cmds []appCmd) ([]byte, error)
	unmarshal func(uplink bool, b []byte) ([]appCmd, error)
	cmdSize   func(c appCmd) int
	cids      map[bool][]byte // all CIDs of the direction, with and without payload
	// widths: "Type.Path" -> bit width for fields narrower than their Go type
	widths map[string]int
}

var c18Pkgs = []appPkg{
	{
		name: "clocksync",
		payload: func(u bool, cid byte) (appPayload, bool) {
			p, err := clocksync.GetCommandPayload(u, clocksync.CID(cid))
			return p, err == nil
		},
		marshal: func(cmds []appCmd) ([]byte, error) {
			var l clocksync.Commands
			for _, c := range cmds {
				cc := clocksync.Command{CID: clocksync.CID(c.CID)}
				if c.Payload != nil {
					cc.Payload = c.Payload
				}
				l = append(l, cc)
			}
			return l.MarshalBinary()
		},
		unmarshal: func(u bool, b []byte) ([]appCmd, error) {
			var l clocksync.Commands
			err := l.UnmarshalBinary(u, b)
			var out []appCmd
			for _, c := range l {
				ac := appCmd{CID: byte(c.CID)}
				if c.Payload != nil {
					ac.Payload = c.Payload
				}
				// what the decoded command holds beyond its CID and payload (nothing, for a command as sent)
				c.CID, c.Payload = 0, nil
				if x := deepPrint(c); x != deepPrint(reflect.Zero(reflect.TypeOf(c)).Interface()) {
					ac.Extra = x
				}
				out = append(out, ac)
			}
			return out, err
		},
		cmdSize: func(c appCmd) int {
			cc := clocksync.Command{CID: clocksync.CID(c.CID)}
			if c.Payload != nil {
				cc.Payload = c.Payload
			}
			return cc.Size()
		},
		cids: map[bool][]byte{true: {0, 1, 2}, false: {0, 1, 2, 3}},
		widths: map[string]int{"AppTimeReqPayload.Param.TokenReq": 4, "AppTimeAnsPayload.Param.TokenAns": 4,
			"DeviceAppTimePeriodicityReqPayload.Periodicity.Period": 4, "ForceDeviceResyncReqPayload.ForceConf.NbTransmissions": 3},
	},
	{
		name: "multicastsetup",
		payload: func(u bool, cid byte) (appPayload, bool) {
			p, err := multicastsetup.GetCommandPayload(u, multicastsetup.CID(cid))
			return p, err == nil
		},
		marshal: func(cmds []appCmd) ([]byte, error) {
			var l multicastsetup.Commands
			for _, c := range cmds {
				cc := multicastsetup.Command{CID: multicastsetup.CID(c.CID)}
				if c.Payload != nil {
					cc.Payload = c.Payload
				}
				l = append(l, cc)
			}
			return l.MarshalBinary()
		},
		unmarshal: func(u bool, b []byte) ([]appCmd, error) {
			var l multicastsetup.Commands
			err := l.UnmarshalBinary(u, b)
			var out []appCmd
			for _, c := range l {
				ac := appCmd{CID: byte(c.CID)}
				if c.Payload != nil {
					ac.Payload = c.Payload
				}
				// what the decoded command holds beyond its CID and payload (nothing, for a command as sent)
				c.CID, c.Payload = 0, nil
				if x := deepPrint(c); x != deepPrint(reflect.Zero(reflect.TypeOf(c)).Interface()) {
					ac.Extra = x
				}
				out = append(out, ac)
			}
			return out, err
		},
		cmdSize: func(c appCmd) int {
			cc := multicastsetup.Command{CID: multicastsetup.CID(c.CID)}
			if c.Payload != nil {
				cc.Payload = c.Payload
			}
			return cc.Size()
		},
		cids: map[bool][]byte{true: {0, 1, 2, 3, 4, 5}, false: {0, 1, 2, 3, 4, 5}},
		widths: map[string]int{"McGroupStatusAnsPayload.Status.NbTotalGroups": 3, "McGroupSetupReqPayload.McGroupIDHeader.McGroupID": 2,
			"McGroupSetupAnsPayload.McGroupIDHeader.McGroupID": 2, "McGroupDeleteReqPayload.McGroupIDHeader.McGroupID": 2,
			"McGroupDeleteAnsPayload.McGroupIDHeader.McGroupID": 2, "McClassCSessionReqPayload.McGroupIDHeader.McGroupID": 2,
			"McClassCSessionReqPayload.SessionTimeOut.TimeOut": 4, "McClassCSessionReqPayload.DLFrequency": -24,
			"McClassBSessionReqPayload.McGroupIDHeader.McGroupID": 2, "McClassBSessionReqPayload.TimeOutPeriodicity.Periodicity": 3,
			"McClassBSessionReqPayload.TimeOutPeriodicity.TimeOut": 4, "McClassBSessionReqPayload.DLFrequency": -24,
			"McClassCSessionAnsPayload.StatusAndMcGroupID.McGroupID": 2, "McClassBSessionAnsPayload.StatusAndMcGroupID.McGroupID": 2},
	},
	{
		name: "fragmentation",
		payload: func(u bool, cid byte) (appPayload, bool) {
			p, err := fragmentation.GetCommandPayload(u, fragmentation.CID(cid))
			return p, err == nil
		},
		marshal: func(cmds []appCmd) ([]byte, error) {
			var l fragmentation.Commands
			for _, c := range cmds {
				cc := fragmentation.Command{CID: fragmentation.CID(c.CID)}
				if c.Payload != nil {
					cc.Payload = c.Payload
				}
				l = append(l, cc)
			}
			return l.MarshalBinary()
		},
		unmarshal: func(u bool, b []byte) ([]appCmd, error) {
			var l fragmentation.Commands
			err := l.UnmarshalBinary(u, b)
			var out []appCmd
			for _, c := range l {
				ac := appCmd{CID: byte(c.CID)}
				if c.Payload != nil {
					ac.Payload = c.Payload
				}
				// what the decoded command holds beyond its CID and payload (nothing, for a command as sent)
				c.CID, c.Payload = 0, nil
				if x := deepPrint(c); x != deepPrint(reflect.Zero(reflect.TypeOf(c)).Interface()) {
					ac.Extra = x
				}
				out = append(out, ac)
			}
			return out, err
		},
		cmdSize: func(c appCmd) int {
			cc := fragmentation.Command{CID: fragmentation.CID(c.CID)}
			if c.Payload != nil {
				cc.Payload = c.Payload
			}
			return cc.Size()
		},
		cids: map[bool][]byte{true: {0, 1, 2, 3}, false: {0, 1, 2, 3, 8}},
		widths: map[string]int{"FragSessionStatusReqPayload.FragStatusReqParam.FragIndex": 2, "FragSessionStatusAnsPayload.ReceivedAndIndex.FragIndex": 2,
			"FragSessionStatusAnsPayload.ReceivedAndIndex.NbFragReceived": 14, "FragSessionSetupReqPayload.FragSession.FragIndex": 2,
			"FragSessionSetupReqPayload.Control.FragmentationMatrix": 3, "FragSessionSetupReqPayload.Control.BlockAckDelay": 3,
			"FragSessionSetupAnsPayload.StatusBitMask.FragIndex": 2, "FragSessionDeleteReqPayload.Param.FragIndex": 2,
			"FragSessionDeleteAnsPayload.Status.FragIndex": 2, "DataFragmentPayload.IndexAndN.FragIndex": 2, "DataFragmentPayload.IndexAndN.N": 14},
	},
	{
		name: "firmwaremanagement",
		payload: func(u bool, cid byte) (appPayload, bool) {
			p, err := firmwaremanagement.GetCommandPayload(u, firmwaremanagement.CID(cid))
			return p, err == nil
		},
		marshal: func(cmds []appCmd) ([]byte, error) {
			var l firmwaremanagement.Commands
			for _, c := range cmds {
				cc := firmwaremanagement.Command{CID: firmwaremanagement.CID(c.CID)}
				if c.Payload != nil {
					cc.Payload = c.Payload
				}
				l = append(l, cc)
			}
			return l.MarshalBinary()
		},
		unmarshal: func(u bool, b []byte) ([]appCmd, error) {
			var l firmwaremanagement.Commands
			err := l.UnmarshalBinary(u, b)
			var out []appCmd
			for _, c := range l {
				ac := appCmd{CID: byte(c.CID)}
				if c.Payload != nil {
					ac.Payload = c.Payload
				}
				// what the decoded command holds beyond its CID and payload (nothing, for a command as sent)
				c.CID, c.Payload = 0, nil
				if x := deepPrint(c); x != deepPrint(reflect.Zero(reflect.TypeOf(c)).Interface()) {
					ac.Extra = x
				}
				out = append(out, ac)
			}
			return out, err
		},
		cmdSize: func(c appCmd) int {
			cc := firmwaremanagement.Command{CID: firmwaremanagement.CID(c.CID)}
			if c.Payload != nil {
				cc.Payload = c.Payload
			}
			return cc.Size()
		},
		cids: map[bool][]byte{true: {0, 1, 2, 3, 4, 5}, false: {0, 1, 2, 3, 4, 5}},
		widths: map[string]int{"DevRebootCountdownReqPayload.Countdown": 24, "DevRebootCountdownAnsPayload.Countdown": 24,
			"DevUpgradeImageAnsPayload.Status.UpImageStatus": 2, "DevDeleteImageAnsPayload.Status.ErrorInvalidVersion": 1,
			"DevDeleteImageAnsPayload.Status.ErrorNoValidImage": 1},
	},
}

// leaf is one settable field of a payload with its value alphabet.
type leaf struct {
	path   string
	index  []int
	values []func(reflect.Value)
	full   bool // the alphabet is the field's complete in-width domain
}

func wideAlphabet(w int) []uint64 {
	max := uint64(1)<<uint(w) - 1
	vals := []uint64{0, 1, max, 0x5555555555555555 & max, 0xAAAAAAAAAAAAAAAA & max}
	for b := 0; b < w; b++ {
		vals = append(vals, 1<<uint(b))
	}
	if w == 32 {
		// the 32-bit fields of these packages are GPS times (seconds since the GPS epoch): the seconds
		// around every inserted leap second, where GPS and UTC arithmetic part, and today's value
		epoch := time.Date(1980, 1, 6, 0, 0, 0, 0, time.UTC)
		for k, l := range spec.LeapDates() {
			g := uint64(l.Sub(epoch)/time.Second) + uint64(k)
			vals = append(vals, g-1, g, g+1)
		}
		vals = append(vals, 1400000000)
	}
	return vals
}

// leaves lists the settable leaves of a payload struct type with alphabets:
// complete domains for fields of width <= 8, bool and [4]bool; {0,1,max,
// alternating patterns, every single bit, for 32-bit (GPS time) fields also the seconds
// around the 18 leap seconds} for wider integers; three fillers
// for byte arrays. Slices and pointers are handled by the per-type variants.
func leaves(pkg *appPkg, typeName string, t reflect.Type, prefix string, index []int) []leaf {
	var out []leaf
	for i := 0; i < t.NumField(); i++ {
		f := t.Field(i)
		if f.PkgPath != "" {
			continue
		}
		path := f.Name
		if prefix != "" {
			path = prefix + "." + f.Name
		}
		idx := append(append([]int(nil), index...), i)
		key := typeName + "." + path
		ft := f.Type
		switch {
		case ft.Kind() == reflect.Struct:
			out = append(out, leaves(pkg, typeName, ft, path, idx)...)
		case ft.Kind() == reflect.Bool:
			out = append(out, leaf{path, idx, []func(reflect.Value){func(v reflect.Value) { v.SetBool(false) }, func(v reflect.Value) { v.SetBool(true) }}, true})
		case ft.Kind() == reflect.Array && ft.Elem().Kind() == reflect.Bool:
			var vs []func(reflect.Value)
			for m := 0; m < 1<<uint(ft.Len()); m++ {
				m := m
				vs = append(vs, func(v reflect.Value) {
					for k := 0; k < v.Len(); k++ {
						v.Index(k).SetBool(m&(1<<uint(k)) != 0)
					}
				})
			}
			out = append(out, leaf{path, idx, vs, true})
		case ft.Kind() == reflect.Array && ft.Elem().Kind() == reflect.Uint8:
			var vs []func(reflect.Value)
			for _, fill := range []int{0, 1, 2} {
				fill := fill
				vs = append(vs, func(v reflect.Value) {
					for k := 0; k < v.Len(); k++ {
						b := uint64(0)
						switch fill {
						case 1:
							b = uint64(0x11*(k+1)) & 0xFF
						case 2:
							b = 0xFF
						}
						v.Index(k).SetUint(b)
					}
				})
			}
			out = append(out, leaf{path, idx, vs, false})
		case ft.Kind() >= reflect.Uint && ft.Kind() <= reflect.Uint64:
			w, ok := pkg.widths[key]
			scale := uint64(1)
			if !ok {
				w = ft.Bits()
			}
			if w < 0 { // frequency: w bits in units of 100 Hz
				w, scale = -w, 100
			}
			var vs []func(reflect.Value)
			full := w <= 8
			if full {
				for x := uint64(0); x < 1<<uint(w); x++ {
					x := x
					vs = append(vs, func(v reflect.Value) { v.SetUint(x * scale) })
				}
			} else {
				for _, x := range wideAlphabet(w) {
					x := x
					vs = append(vs, func(v reflect.Value) { v.SetUint(x * scale) })
				}
			}
			out = append(out, leaf{path, idx, vs, full})
		case ft.Kind() >= reflect.Int && ft.Kind() <= reflect.Int64:
			var vs []func(reflect.Value)
			for _, x := range wideAlphabet(ft.Bits()) {
				x := x
				vs = append(vs, func(v reflect.Value) { v.SetInt(int64(int32(uint32(x)))) })
			}
			out = append(out, leaf{path, idx, vs, false})
		}
	}
	return out
}

// c18RoundTrip decides the round-trip obligations for one payload value.
func c18RoundTrip(c *engine.Case, pkg *appPkg, uplink bool, cid byte, v appPayload) {
	c.Eval()
	tn := reflect.TypeOf(v).Elem().Name()
	class := pkg.name + "/" + tn
	var enc []byte
	var err error
	var size int
	if pn, site, val := engine.Try(func() { size = v.Size(); enc, err = v.MarshalBinary() }); pn {
		c.Fail("panic/"+site, fmt.Sprintf("%s: encoding %s panics: %v", class, deepPrint(v), val), nil)
		return
	}
	if err != nil {
		if u, ok := v.(*firmwaremanagement.DevUpgradeImageAnsPayload); ok && u.Status.IsFirmwareImageValid() {
			// status "valid image" without the (unexported) version is not a well-formed
			// value; a caller outside the package cannot build a well-formed one. An error
			// is the right answer, a panic would not be.
			c.Outcome(class + "/incomplete-value-refused(expected)")
			return
		}
		c.Fail(class+"/encode-refuses-in-range-value", fmt.Sprintf("%s refused: %v", deepPrint(v), err), nil)
		return
	}
	c.NonTrivial()
	if len(enc) != size {
		c.Fail(class+"/size-differs-from-encoded-length", fmt.Sprintf("%s: Size()=%d, encoded %d bytes (%x)", deepPrint(v), size, len(enc), enc), nil)
	}
	fresh, ok := pkg.payload(uplink, cid)
	if !ok || reflect.TypeOf(fresh) != reflect.TypeOf(v) {
		c.Fail(class+"/registry", fmt.Sprintf("CID %d uplink=%v gives %T", cid, uplink, fresh), nil)
		return
	}
	// decoded from a receive buffer (with spare capacity) that is used for the next packet afterwards:
	// the decoded command is a value of its own
	rx := make([]byte, len(enc), len(enc)+8)
	copy(rx, enc)
	if err := fresh.UnmarshalBinary(rx); err != nil {
		c.Fail(class+"/decode-refuses-own-encoding", fmt.Sprintf("%s -> %x: %v", deepPrint(v), enc, err), nil)
		return
	}
	rx = rx[:cap(rx)]
	for i := range rx {
		rx[i] ^= 0xA5
	}
	if got, want := deepPrint(fresh), deepPrint(v); got != want {
		c.Fail(class+"/round-trip-differs", fmt.Sprintf("%s encodes to %x which decodes to %s", want, enc, got), nil)
		return
	}
	// a payload value that was used before (it last decoded the bit-wise complement of these
	// bytes) decodes to the same command as a fresh one
	if used, ok := pkg.payload(uplink, cid); ok {
		inv := make([]byte, len(enc))
		for i := range enc {
			inv[i] = ^enc[i]
		}
		used.UnmarshalBinary(inv)
		if err := used.UnmarshalBinary(enc); err != nil || deepPrint(used) != deepPrint(v) {
			c.Fail(class+"/decode-into-used-value-differs", fmt.Sprintf("%x decoded into a value that had decoded %x before gives %s (err %v), expected %s", enc, inv, deepPrint(used), err, deepPrint(v)), nil)
			return
		}
	}
	// ... and one that last decoded a longer or a shorter input (a payload with a variable part whose
	// length the value remembers)
	for _, prev := range [][]byte{append(append([]byte(nil), enc...), 0x5A, 0x5A, 0x5A, 0x5A, 0x5A, 0x5A, 0x5A), enc[:len(enc)/2]} {
		if used, ok := pkg.payload(uplink, cid); ok {
			used.UnmarshalBinary(prev)
			if err := used.UnmarshalBinary(enc); err != nil || deepPrint(used) != deepPrint(v) {
				c.Fail(class+"/decode-into-used-value-differs", fmt.Sprintf("%x decoded into a value that had decoded %x before gives %s (err %v), expected %s", enc, prev, deepPrint(used), err, deepPrint(v)), nil)
				return
			}
		}
	}
	// the same value with every byte-slice field held as a window into a larger buffer
	// (spare capacity, other bytes behind it): nothing about the encoding may change
	if respliceBytes(reflect.ValueOf(fresh)) {
		enc2, err2 := fresh.MarshalBinary()
		if err2 != nil || !bytes.Equal(enc2, enc) || fresh.Size() != len(enc) {
			c.Fail(class+"/encoding-depends-on-slice-capacity", fmt.Sprintf("%s: with its byte slices held as windows into larger buffers it encodes to %x (err %v, Size()=%d); with exact slices to %x", deepPrint(v), enc2, err2, fresh.Size(), enc), nil)
			return
		}
	}
	// through the command framing
	cmd := appCmd{CID: cid, Payload: v}
	b, err := pkg.marshal([]appCmd{cmd})
	if err != nil || len(b) != 1+len(enc) || b[0] != cid || !bytes.Equal(b[1:], enc) || pkg.cmdSize(cmd) != len(b) {
		c.Fail(class+"/command-framing", fmt.Sprintf("command encodes to %x (err %v), Size()=%d", b, err, pkg.cmdSize(cmd)), nil)
		return
	}
	back, err := pkg.unmarshal(uplink, b)
	if err != nil || len(back) != 1 || back[0].CID != cid || deepPrint(back[0].Payload) != deepPrint(v) {
		c.Fail(class+"/command-round-trip", fmt.Sprintf("%x decodes to %d commands (err %v)", b, len(back), err), nil)
	}
	c.Outcome(class + "/ok")
	if c.WantSample() {
		c.Sample(func() interface{} {
			return map[string]interface{}{"part": c.Part, "value": deepPrint(v), "bytes": fmt.Sprintf("%x", enc)}
		})
	}
}

// respliceBytes replaces every []byte reachable through exported fields by an
// equal slice that is a window into a larger buffer; it reports whether there was one.
func respliceBytes(rv reflect.Value) bool {
	found := false
	switch rv.Kind() {
	case reflect.Ptr, reflect.Interface:
		if !rv.IsNil() {
			return respliceBytes(rv.Elem())
		}
	case reflect.Struct:
		for i := 0; i < rv.NumField(); i++ {
			if rv.Type().Field(i).PkgPath == "" && respliceBytes(rv.Field(i)) {
				found = true
			}
		}
	case reflect.Slice:
		if rv.Type().Elem().Kind() == reflect.Uint8 && rv.CanSet() && !rv.IsNil() {
			n := rv.Len()
			arena := bytes.Repeat([]byte{0xEE}, n+24)
			copy(arena[4:], rv.Bytes())
			rv.SetBytes(arena[4 : 4+n : n+24])
			return true
		}
		for i := 0; i < rv.Len(); i++ {
			if respliceBytes(rv.Index(i)) {
				found = true
			}
		}
	}
	return found
}

func u32p(v uint32) *uint32 { return &v }

// variants returns the hand-written value families of the payloads whose
// shape depends on their content (slices, optional fields).
func c18Variants(v appPayload) []appPayload {
	switch v.(type) {
	case *multicastsetup.McGroupStatusAnsPayload:
		var out []appPayload
		for mask := 0; mask < 16; mask++ {
			for nb := uint8(0); nb < 8; nb++ {
				for variant := 0; variant < 3; variant++ {
					p := &multicastsetup.McGroupStatusAnsPayload{}
					p.Status.NbTotalGroups = nb
					for k := 0; k < 4; k++ {
						if mask&(1<<uint(k)) != 0 {
							p.Status.AnsGroupMask[k] = true
							it := multicastsetup.McGroupStatusAnsPayloadItem{McGroupID: uint8(k)}
							switch variant {
							case 1:
								it = multicastsetup.McGroupStatusAnsPayloadItem{McGroupID: uint8(3 - k), McAddr: lorawan.DevAddr{1, 2, 3, byte(k)}}
							case 2:
								it = multicastsetup.McGroupStatusAnsPayloadItem{McGroupID: 3, McAddr: lorawan.DevAddr{0xFF, 0xFF, 0xFF, 0xFF}}
							}
							p.Items = append(p.Items, it)
						}
					}
					out = append(out, p)
				}
			}
		}
		return out
	case *multicastsetup.McClassCSessionAnsPayload:
		var out []appPayload
		for flags := 0; flags < 8; flags++ {
			for id := uint8(0); id < 4; id++ {
				for _, tts := range []uint32{0, 1, 0x123456, 0xFFFFFF, 0x800000} {
					p := &multicastsetup.McClassCSessionAnsPayload{}
					p.StatusAndMcGroupID.McGroupID = id
					p.StatusAndMcGroupID.DRError = flags&1 != 0
					p.StatusAndMcGroupID.FreqError = flags&2 != 0
					p.StatusAndMcGroupID.McGroupUndefined = flags&4 != 0
					if flags == 0 {
						p.TimeToStart = u32p(tts)
					}
					out = append(out, p)
				}
			}
		}
		return out
	case *multicastsetup.McClassBSessionAnsPayload:
		var out []appPayload
		for flags := 0; flags < 8; flags++ {
			for id := uint8(0); id < 4; id++ {
				for _, tts := range []uint32{0, 1, 0x123456, 0xFFFFFF, 0x800000} {
					p := &multicastsetup.McClassBSessionAnsPayload{}
					p.StatusAndMcGroupID.McGroupID = id
					p.StatusAndMcGroupID.DRError = flags&1 != 0
					p.StatusAndMcGroupID.FreqError = flags&2 != 0
					p.StatusAndMcGroupID.McGroupUndefined = flags&4 != 0
					if flags == 0 {
						p.TimeToStart = u32p(tts)
					}
					out = append(out, p)
				}
			}
		}
		return out
	case *fragmentation.DataFragmentPayload:
		var out []appPayload
		for _, n := range []int{0, 1, 2, 16, 51, 222, 242} {
			for idx := uint8(0); idx < 4; idx++ {
				for _, N := range []uint16{0, 1, 0x3FFF, 0x1555, 0x2000} {
					p := &fragmentation.DataFragmentPayload{Payload: fillBytes(n, 0x3D)}
					p.IndexAndN.FragIndex, p.IndexAndN.N = idx, N
					out = append(out, p)
				}
			}
		}
		return out
	case *firmwaremanagement.DevUpgradeImageAnsPayload:
		// every value a caller outside the package can construct (the version field is unexported)
		var out []appPayload
		for st := 0; st < 4; st++ {
			p := &firmwaremanagement.DevUpgradeImageAnsPayload{}
			p.Status.UpImageStatus = firmwaremanagement.UpImageStatus(st)
			out = append(out, p)
		}
		return out
	}
	return nil
}

func runC18(r *engine.Run) {
	r.Rule = "E1 per payload type of the four application-layer packages (clock sync, multicast setup, fragmentation, firmware management; every CID x direction of the package registries): value -> bytes -> value over the complete product of all in-width field values when that product is <= 200 000 (fields of <= 8 bits, flags and 4-bit masks completely; wider integers over {0,1,max,0x55..,0xAA.., every single bit}; byte arrays over 3 fillers), otherwise per-field complete sweeps with the remaining fields at each of three base tuples; content-dependent shapes (McGroupStatusAns items, Mc*SessionAns TimeToStart, DataFragment payload lengths, DevUpgradeImageAns) by hand-written complete families; obligations: no panic, no refusal, len(bytes) = Size(), decode(encode(v)) = v, the same through the Command framing. Sequences: every sequence of <= 3 commands over the direction's command set x 2 canonical values each and <= 6 commands over a 4-command sub-alphabet, concatenated and decoded by Commands.UnmarshalBinary. Multicast keys: key(3) x McAddr (3 values + 32 single-bit walks) against the TS005 AES derivations. Non-trivial: a value that was encoded and compared after decoding."
	r.Rule += " E3 (schedules): the multicast key derivations for three groups from three threads at once, every interleaving of the instrumented accesses; every thread derives the keys it derives alone."
	mergeSchedSummary(r, "C18")
	r.Rule += historyRule + " Application-layer alphabet per package and direction: encode of every command (CIDs x 2 values), decode of its bytes, decode of the bytes without the last one (refused); all ordered pairs; multicast key derivations as calls of the multicastsetup alphabet."
	r.Assume("field widths are those of the TS003/TS004/TS005/TS006 specifications (table in mc/props/c18.go); values outside the width are not in the property's scope")
	r.Assume("a DataFragment command takes the rest of the payload by specification, so it only appears last in the enumerated sequences")

	type ptype struct {
		pkg    *appPkg
		uplink bool
		cid    byte
		name   string
	}
	var types []ptype
	for pi := range c18Pkgs {
		pkg := &c18Pkgs[pi]
		for _, up := range []bool{true, false} {
			for _, cid := range pkg.cids[up] {
				if p, ok := pkg.payload(up, cid); ok {
					types = append(types, ptype{pkg, up, cid, reflect.TypeOf(p).Elem().Name()})
				}
			}
		}
	}
	r.Extra("payload_types", len(types))

	for _, pt := range types {
		pt := pt
		proto, _ := pt.pkg.payload(pt.uplink, pt.cid)
		if vs := c18Variants(proto); vs != nil {
			r.PartDims("values/"+pt.pkg.name+"/"+pt.name, []string{fmt.Sprintf("hand-written family:%d", len(vs))}, uint64(len(vs)), func(c *engine.Case) {
				// rebuild the family (values hold pointers; each case gets its own)
				fam := c18Variants(proto)
				c18RoundTrip(c, pt.pkg, pt.uplink, pt.cid, fam[c.Index])
			})
			continue
		}
		ls := leaves(pt.pkg, pt.name, reflect.TypeOf(proto).Elem(), "", nil)
		product := uint64(1)
		for _, l := range ls {
			product *= uint64(len(l.values))
			if product > 1<<40 {
				break
			}
		}
		build := func(choice []int) appPayload {
			p, _ := pt.pkg.payload(pt.uplink, pt.cid)
			rv := reflect.ValueOf(p).Elem()
			for li, l := range ls {
				l.values[choice[li]](rv.FieldByIndex(l.index))
			}
			return p
		}
		if len(ls) == 0 {
			r.Part("values/"+pt.pkg.name+"/"+pt.name, 1, func(c *engine.Case) {
				p, _ := pt.pkg.payload(pt.uplink, pt.cid)
				c18RoundTrip(c, pt.pkg, pt.uplink, pt.cid, p)
			})
			continue
		}
		var dims []string
		for _, l := range ls {
			dims = append(dims, fmt.Sprintf("%s:%d", l.path, len(l.values)))
		}
		if product <= 200000 {
			r.PartDims("values/"+pt.pkg.name+"/"+pt.name, append(dims, "complete product"), product, func(c *engine.Case) {
				choice := make([]int, len(ls))
				i := c.Index
				for li, l := range ls {
					choice[li] = int(i % uint64(len(l.values)))
					i /= uint64(len(l.values))
				}
				c18RoundTrip(c, pt.pkg, pt.uplink, pt.cid, build(choice))
			})
			continue
		}
		// per-field sweeps x 3 base tuples (first, last, middle value of every other field)
		var total uint64
		offs := make([]uint64, len(ls))
		for li, l := range ls {
			offs[li] = total
			total += uint64(len(l.values)) * 3
		}
		r.PartDims("values/"+pt.pkg.name+"/"+pt.name, append(dims, "per-field sweeps x 3 base tuples"), total, func(c *engine.Case) {
			li := len(ls) - 1
			for li > 0 && offs[li] > c.Index {
				li--
			}
			i := c.Index - offs[li]
			base := int(i % 3)
			choice := make([]int, len(ls))
			for k, l := range ls {
				switch base {
				case 1:
					choice[k] = len(l.values) - 1
				case 2:
					choice[k] = len(l.values) / 2
				}
			}
			choice[li] = int(i / 3)
			c18RoundTrip(c, pt.pkg, pt.uplink, pt.cid, build(choice))
		})
	}

	// ---- sequences
	canon := func(pkg *appPkg, up bool, cid byte, variant int) appCmd {
		p, ok := pkg.payload(up, cid)
		if !ok {
			return appCmd{CID: cid}
		}
		if fam := c18Variants(p); fam != nil {
			// pick two encodable members
			var good []appPayload
			for _, f := range fam {
				if pn, _, _ := engine.Try(func() { _, err := f.MarshalBinary(); _ = err }); !pn {
					if _, err := f.MarshalBinary(); err == nil {
						good = append(good, f)
					}
				}
			}
			if df, isDF := p.(*fragmentation.DataFragmentPayload); isDF {
				_ = df
				return appCmd{CID: cid, Payload: good[(variant*7+3)%len(good)]}
			}
			return appCmd{CID: cid, Payload: good[(variant*(len(good)-1))%len(good)]}
		}
		ls := leaves(pkg, reflect.TypeOf(p).Elem().Name(), reflect.TypeOf(p).Elem(), "", nil)
		rv := reflect.ValueOf(p).Elem()
		for _, l := range ls {
			k := 1 % len(l.values)
			if variant == 1 {
				k = len(l.values) - 1
			}
			l.values[k](rv.FieldByIndex(l.index))
		}
		return appCmd{CID: cid, Payload: p}
	}
	isRest := func(cmd appCmd) bool { _, ok := cmd.Payload.(*fragmentation.DataFragmentPayload); return ok }
	checkSeq := func(c *engine.Case, pkg *appPkg, up bool, seq []appCmd) {
		c.Eval()
		for i, cmd := range seq {
			if isRest(cmd) && i != len(seq)-1 {
				c.Outcome("seq/skipped(DataFragment not last)")
				return
			}
		}
		var b []byte
		var err error
		if pn, site, v := engine.Try(func() { b, err = pkg.marshal(seq) }); pn {
			c.Fail("panic/"+site, fmt.Sprintf("%s: encoding a command sequence panics: %v", pkg.name, v), nil)
			return
		}
		if err != nil {
			c.Fail(pkg.name+"/sequence-encode-error", err.Error(), nil)
			return
		}
		c.NonTrivial()
		back, err := pkg.unmarshal(up, b)
		var names []string
		for _, cmd := range seq {
			if cmd.Payload != nil {
				names = append(names, reflect.TypeOf(cmd.Payload).Elem().Name())
			} else {
				names = append(names, fmt.Sprintf("CID%d(no payload)", cmd.CID))
			}
		}
		// the culprit of a framing failure: the first command whose pair with its
		// follower does not decode on its own
		culprit := func() string {
			for i := 0; i+1 < len(seq); i++ {
				pb, e1 := pkg.marshal(seq[i : i+2])
				if e1 != nil {
					continue
				}
				if l, e2 := pkg.unmarshal(up, pb); e2 != nil || len(l) != 2 {
					return names[i]
				}
			}
			return names[0]
		}
		if err != nil {
			c.Fail(fmt.Sprintf("%s/sequence-not-decodable/follower-of-%s", pkg.name, culprit()), fmt.Sprintf("sequence %v (%x) is refused: %v", names, b, err), nil)
			return
		}
		if len(back) != len(seq) {
			c.Fail(fmt.Sprintf("%s/sequence-length/follower-of-%s", pkg.name, culprit()), fmt.Sprintf("sequence %v (%x) decodes to %d commands", names, b, len(back)), nil)
			return
		}
		for i := range seq {
			if back[i].Extra != "" {
				c.Fail(fmt.Sprintf("%s/sequence-element-differs/%s/beyond-cid-and-payload", pkg.name, names[i]), fmt.Sprintf("sequence %v (%x): element %d decodes to a command that is not the one that was sent: apart from CID and payload it holds %s", names, b, i, back[i].Extra), nil)
				return
			}
			if back[i].CID != seq[i].CID || deepPrint(back[i].Payload) != deepPrint(seq[i].Payload) {
				c.Fail(fmt.Sprintf("%s/sequence-element-differs/%s", pkg.name, names[i]), fmt.Sprintf("sequence %v (%x): element %d decodes to %s, expected %s", names, b, i, deepPrint(back[i].Payload), deepPrint(seq[i].Payload)), nil)
				return
			}
		}
		c.Outcome(fmt.Sprintf("seq/len=%d", len(seq)))
	}
	for pi := range c18Pkgs {
		pkg := &c18Pkgs[pi]
		for _, up := range []bool{true, false} {
			up := up
			var alphabet []func() appCmd
			for _, cid := range pkg.cids[up] {
				cid := cid
				for variant := 0; variant < 2; variant++ {
					variant := variant
					alphabet = append(alphabet, func() appCmd { return canon(pkg, up, cid, variant) })
				}
			}
			na := uint64(len(alphabet))
			total := na + na*na + na*na*na
			r.PartDims(fmt.Sprintf("sequences/%s/uplink=%v/len<=3", pkg.name, up), []string{fmt.Sprintf("alphabet:%d (CIDs x 2 values)", na), "length:1..3"}, total, func(c *engine.Case) {
				i := c.Index
				l := 1
				for n := na; i >= n; n *= na {
					i -= n
					l++
				}
				var seq []appCmd
				for k := 0; k < l; k++ {
					seq = append(seq, alphabet[i%na]())
					i /= na
				}
				checkSeq(c, pkg, up, seq)
			})
			// history oracle over the same alphabet: encode a command, decode its bytes, decode a
			// truncated form (refused), each as one call; pairs of calls
			var hops []HOp
			for ai, mk := range alphabet {
				mk := mk
				one := mk()
				wire, werr := pkg.marshal([]appCmd{one})
				name := fmt.Sprintf("%02x#%d", one.CID, ai%2)
				hops = append(hops, HOp{"encode(" + name + ")", func(HCtx) interface{} {
					b, err := pkg.marshal([]appCmd{mk()})
					return []interface{}{b, errS(err)}
				}})
				if werr != nil {
					continue
				}
				hops = append(hops, HOp{"decode(" + name + ")", func(HCtx) interface{} {
					back, err := pkg.unmarshal(up, append([]byte(nil), wire...))
					problem := ""
					if want := mk(); err != nil || len(back) != 1 || back[0].CID != want.CID || deepPrint(back[0].Payload) != deepPrint(want.Payload) {
						problem = fmt.Sprintf("%x does not decode to the command it encodes (err %v)", wire, err)
					}
					return &hChecked{[]interface{}{back, errS(err)}, problem}
				}})
				if len(wire) > 1 {
					hops = append(hops, HOp{"decode-truncated(" + name + ")", func(HCtx) interface{} {
						back, err := pkg.unmarshal(up, append([]byte(nil), wire[:len(wire)-1]...))
						return []interface{}{len(back), errS(err)}
					}})
				}
			}
			if pkg.name == "multicastsetup" && up {
				for ki, key := range []lorawan.AES128Key{{1, 2, 3, 4, 5, 6, 7, 8, 9, 10, 11, 12, 13, 14, 15, 16}, {0xFF, 0xEE, 0xDD}} {
					key := key
					addr := lorawan.DevAddr{byte(ki + 1), 2, 3, 4}
					for name, f := range map[string]func() (lorawan.AES128Key, error){
						"GetMcRootKeyForGenAppKey": func() (lorawan.AES128Key, error) { return multicastsetup.GetMcRootKeyForGenAppKey(key) },
						"GetMcRootKeyForAppKey":    func() (lorawan.AES128Key, error) { return multicastsetup.GetMcRootKeyForAppKey(key) },
						"GetMcKEKey":               func() (lorawan.AES128Key, error) { return multicastsetup.GetMcKEKey(key) },
						"GetMcAppSKey":             func() (lorawan.AES128Key, error) { return multicastsetup.GetMcAppSKey(key, addr) },
						"GetMcNetSKey":             func() (lorawan.AES128Key, error) { return multicastsetup.GetMcNetSKey(key, addr) },
					} {
						f := f
						hops = append(hops, HOp{fmt.Sprintf("%s(key%d)", name, ki), func(HCtx) interface{} {
							k, err := f()
							return []interface{}{k, errS(err)}
						}})
					}
				}
				sort.SliceStable(hops, func(i, j int) bool { return hops[i].Name < hops[j].Name }) // map order is not an index order
			}
			historyPart(r, fmt.Sprintf("history/%s/uplink=%v", pkg.name, up), hops, 2)
			sub := alphabet
			if len(sub) > 4 {
				sub = []func() appCmd{alphabet[0], alphabet[3], alphabet[len(alphabet)/2], alphabet[len(alphabet)-1]}
			}
			ns := uint64(len(sub))
			var tot6 uint64
			for l, n := 4, ns*ns*ns*ns; l <= 6; l, n = l+1, n*ns {
				tot6 += n
			}
			r.PartDims(fmt.Sprintf("sequences/%s/uplink=%v/len4..6", pkg.name, up), []string{fmt.Sprintf("sub-alphabet:%d", ns), "length:4..6"}, tot6, func(c *engine.Case) {
				i := c.Index
				l := 4
				for n := ns * ns * ns * ns; i >= n; n *= ns {
					i -= n
					l++
				}
				var seq []appCmd
				for k := 0; k < l; k++ {
					seq = append(seq, sub[i%ns]())
					i /= ns
				}
				checkSeq(c, pkg, up, seq)
			})
		}
	}

	// ---- multicast keys (TS005)
	// DevUpgradeImageAns with a valid image carries a version only a decoder can set (the field
	// is unexported): the command as received re-encodes to the bytes it came from, alone and
	// followed by another command
	fwVersions := []uint32{0, 1, 0x01020304, 0xFFFFFFFF, 0x80000000, 0x00FF00FF}
	r.PartDims("firmwaremanagement/DevUpgradeImageAns/received", []string{"status byte:0..255", fmt.Sprintf("version:%d", len(fwVersions)), "follower{none, DevVersionAns}"}, 256*uint64(len(fwVersions))*2, func(c *engine.Case) {
		st := byte(c.Index % 256)
		ver := fwVersions[(c.Index/256)%uint64(len(fwVersions))]
		follower := c.Index/256/uint64(len(fwVersions)) == 1
		c.Eval()
		wire := []byte{0x04, st}
		if st&3 == 3 {
			wire = append(wire, byte(ver), byte(ver>>8), byte(ver>>16), byte(ver>>24))
		}
		canon := append([]byte(nil), wire...)
		canon[1] &= 3 // RFU bits are not carried
		if follower {
			wire = append(wire, 0x01, 1, 2, 3, 4, 5, 6, 7, 8)
			canon = append(canon, 0x01, 1, 2, 3, 4, 5, 6, 7, 8)
		}
		var cmds firmwaremanagement.Commands
		if err := cmds.UnmarshalBinary(true, append([]byte(nil), wire...)); err != nil {
			c.Fail("firmwaremanagement/DevUpgradeImageAnsPayload/received-not-decodable", fmt.Sprintf("%x: %v", wire, err), nil)
			return
		}
		c.NonTrivial()
		want := 1
		if follower {
			want = 2
		}
		if len(cmds) != want {
			c.Fail("firmwaremanagement/DevUpgradeImageAnsPayload/received-framing", fmt.Sprintf("%x decodes to %d commands, expected %d", wire, len(cmds), want), nil)
			return
		}
		back, err := cmds.MarshalBinary()
		if err != nil || !bytes.Equal(back, canon) {
			c.Fail("firmwaremanagement/DevUpgradeImageAnsPayload/received-re-encoding", fmt.Sprintf("%x re-encodes to %x (err %v), expected %x", wire, back, err, canon), nil)
		}
	})
	{
		n := manyHistoryN(r)
		r.Rule += fmt.Sprintf(" Many-keys history: %d steps, each the five TS005 derivations under a key not used before in the process, returning to earlier keys every 64th step.", n)
		r.Rule += collidingRule()
		r.PartWorkers("multicast-keys/many-keys", []string{fmt.Sprintf("distinct keys:%d", n), "derivation:5"}, 1, 1, func(c *engine.Case) {
			ok := manyHistoryRun(n, func(i int) bool {
				c.Eval()
				key := manyKey(i)
				addr := 0x01000000 + uint32(i)
				blk := func(first byte, withAddr bool) []byte {
					b := make([]byte, 16)
					b[0] = first
					if withAddr {
						binary.LittleEndian.PutUint32(b[1:5], addr)
					}
					return b
				}
				type d struct {
					name string
					f    func() (lorawan.AES128Key, error)
					want []byte
				}
				for _, x := range []d{
					{"GetMcRootKeyForGenAppKey", func() (lorawan.AES128Key, error) { return multicastsetup.GetMcRootKeyForGenAppKey(keyOf(key)) }, spec.AESEnc(key, blk(0x00, false))},
					{"GetMcRootKeyForAppKey", func() (lorawan.AES128Key, error) { return multicastsetup.GetMcRootKeyForAppKey(keyOf(key)) }, spec.AESEnc(key, blk(0x20, false))},
					{"GetMcKEKey", func() (lorawan.AES128Key, error) { return multicastsetup.GetMcKEKey(keyOf(key)) }, spec.AESEnc(key, blk(0x00, false))},
					{"GetMcAppSKey", func() (lorawan.AES128Key, error) { return multicastsetup.GetMcAppSKey(keyOf(key), devAddrOf(addr)) }, spec.AESEnc(key, blk(0x01, true))},
					{"GetMcNetSKey", func() (lorawan.AES128Key, error) { return multicastsetup.GetMcNetSKey(keyOf(key), devAddrOf(addr)) }, spec.AESEnc(key, blk(0x02, true))},
				} {
					got, err := x.f()
					if err != nil || !bytes.Equal(got[:], x.want) {
						c.Fail("multicast-keys/many-keys/"+x.name, fmt.Sprintf("key number %d: %s(key %x, McAddr %08x) = %x (err %v), TS005 derivation %x", i, x.name, key, addr, got[:], err, x.want), nil)
						return false
					}
				}
				return true
			})
			if ok {
				c.NonTrivial()
				c.Outcome("many-keys/history-completed")
			}
		})
	}
	r.PartDims("multicast-keys", []string{"key:3", "McAddr:3 + 32 single-bit walks"}, 3*35, func(c *engine.Case) {
		key := c02Keys[c.Index%3]
		ai := int(c.Index / 3)
		addr := []uint32{0x00000000, 0x01020304, 0xFFFFFFFF}[ai%3]
		if ai >= 3 {
			addr = 1 << uint(ai-3)
		}
		c.NonTrivial()
		blk := func(first byte, withAddr bool) []byte {
			b := make([]byte, 16)
			b[0] = first
			if withAddr {
				binary.LittleEndian.PutUint32(b[1:5], addr)
			}
			return b
		}
		cmp := func(name string, got lorawan.AES128Key, err error, want []byte) {
			c.Eval()
			if err != nil || !bytes.Equal(got[:], want) {
				c.Fail("multicast-keys/"+name, fmt.Sprintf("%s(key %x, McAddr %08x) = %x (err %v), TS005 derivation %x", name, key, addr, got[:], err, want), nil)
			}
		}
		k, err := multicastsetup.GetMcRootKeyForGenAppKey(keyOf(key))
		cmp("GetMcRootKeyForGenAppKey", k, err, spec.AESEnc(key, blk(0x00, false)))
		k, err = multicastsetup.GetMcRootKeyForAppKey(keyOf(key))
		cmp("GetMcRootKeyForAppKey", k, err, spec.AESEnc(key, blk(0x20, false)))
		k, err = multicastsetup.GetMcKEKey(keyOf(key))
		cmp("GetMcKEKey", k, err, spec.AESEnc(key, blk(0x00, false)))
		k, err = multicastsetup.GetMcAppSKey(keyOf(key), devAddrOf(addr))
		cmp("GetMcAppSKey", k, err, spec.AESEnc(key, blk(0x01, true)))
		k, err = multicastsetup.GetMcNetSKey(keyOf(key), devAddrOf(addr))
		cmp("GetMcNetSKey", k, err, spec.AESEnc(key, blk(0x02, true)))
	})

	if !r.Replay {
		ok := 0
		for _, pt := range types {
			if r.OutcomeCount(pt.pkg.name+"/"+pt.name+"/ok") > 0 {
				ok++
			}
		}
		r.Extra("payload_types_round_tripped", ok)
		r.Guard(len(types) >= 33, "at least 33 payload types found in the registries (%d)", len(types))
		r.Guard(r.OutcomeCount("seq/len=3") > 0 && r.OutcomeCount("seq/len=6") > 0, "sequences of 3 and 6 commands decoded")
	}
	_ = strings.Join
}

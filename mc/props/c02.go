package props

import (
	"bytes"
	"encoding/hex"
	"fmt"

	"github.com/brocaar/lorawan"

	"verifmc/engine"
	"verifmc/spec"
)

func init() { register("C02", "exploration", runC02) }

type micParams struct {
	v11      bool
	confFCnt uint32
	txDR     uint8
	txCh     uint8
	fKey     []byte
	sKey     []byte
}

func (m micParams) version() lorawan.MACVersion {
	if m.v11 {
		return lorawan.LoRaWAN1_1
	}
	return lorawan.LoRaWAN1_0
}

func specMIC(f spec.DataFrame, m micParams) ([4]byte, [2]byte) {
	return spec.DataMIC(spec.DataMICParams{V11: m.v11, Uplink: f.Uplink(), ACK: f.ACK, ConfFCnt: m.confFCnt, TxDR: m.txDR, TxCh: m.txCh,
		DevAddr: f.DevAddr, FCnt: f.FCnt, FKey: m.fKey, SKey: m.sKey}, f.Msg())
}

func libSetMIC(p *lorawan.PHYPayload, uplink bool, m micParams) error {
	if uplink {
		return p.SetUplinkDataMIC(m.version(), m.confFCnt, m.txDR, m.txCh, keyOf(m.fKey), keyOf(m.sKey))
	}
	return p.SetDownlinkDataMIC(m.version(), m.confFCnt, keyOf(m.sKey))
}

func libValidateMIC(p *lorawan.PHYPayload, uplink bool, m micParams) (bool, error) {
	if uplink {
		return p.ValidateUplinkDataMIC(m.version(), m.confFCnt, m.txDR, m.txCh, keyOf(m.fKey), keyOf(m.sKey))
	}
	return p.ValidateDownlinkDataMIC(m.version(), m.confFCnt, keyOf(m.sKey))
}

// c02Check runs the Set/Validate obligations for one frame and parameter
// tuple; flips selects which carried-MIC bit flips are tried.
func c02Check(c *engine.Case, class string, f spec.DataFrame, p *lorawan.PHYPayload, m micParams, flips []int, snapshot bool) {
	c.Eval()
	up := f.Uplink()
	want, cmacF := specMIC(f, m)
	desc := func() string {
		return fmt.Sprintf("msg=%x v11=%v confFCnt=%#x txDR=%d txCh=%d devaddr=%08x fcnt=%#x fkey=%x skey=%x", f.Msg(), m.v11, m.confFCnt, m.txDR, m.txCh, f.DevAddr, f.FCnt, m.fKey, m.sKey)
	}
	var before string
	if snapshot {
		before = deepPrint(p)
	}
	if err := libSetMIC(p, up, m); err != nil {
		c.Fail(class+"/set-error", "Set MIC refused a valid frame: "+err.Error()+" "+desc(), nil)
		return
	}
	if len(f.Msg()) > 255 {
		c.Outcome("mic/msg-longer-than-255(recorded)")
		return
	}
	c.NonTrivial()
	if [4]byte(p.MIC) != want {
		c.Fail(class+"/set-differs-from-spec", fmt.Sprintf("library MIC %x, specification %x; %s", p.MIC[:], want[:], desc()), nil)
		return
	}
	ok, err := libValidateMIC(p, up, m)
	if err != nil || !ok {
		c.Fail(class+"/validate-rejects-spec-mic", fmt.Sprintf("Validate=%v err=%v with the specified MIC; %s", ok, err, desc()), nil)
	}
	for _, bit := range flips {
		p.MIC[bit/8] ^= 1 << uint(bit%8)
		ok, err := libValidateMIC(p, up, m)
		if err != nil || ok {
			c.Fail(class+"/validate-accepts-wrong-mic", fmt.Sprintf("Validate=%v err=%v with MIC bit %d flipped; %s", ok, err, bit, desc()), nil)
		}
		if up {
			// the cmacF half: true iff bytes 2..3 equal cmacF[0:2], regardless of bytes 0..1
			okF, err := p.ValidateUplinkDataMICF(keyOf(m.fKey))
			wantF := p.MIC[2] == cmacF[0] && p.MIC[3] == cmacF[1]
			if m.v11 && (err != nil || okF != wantF) {
				c.Fail(class+"/micf", fmt.Sprintf("ValidateUplinkDataMICF=%v err=%v, expected %v (MIC %x, cmacF %x); %s", okF, err, wantF, p.MIC[:], cmacF[:], desc()), nil)
			}
		}
		p.MIC[bit/8] ^= 1 << uint(bit%8)
	}
	if up && m.v11 {
		okF, err := p.ValidateUplinkDataMICF(keyOf(m.fKey))
		if err != nil || !okF {
			c.Fail(class+"/micf", fmt.Sprintf("ValidateUplinkDataMICF=%v err=%v on the specified MIC; %s", okF, err, desc()), nil)
		}
	}
	if snapshot {
		p.MIC = lorawan.MIC{}
		if after := deepPrint(p); after != before {
			c.Fail(class+"/frame-modified", fmt.Sprintf("Set/Validate changed the frame beyond its MIC: before %s after %s", before, after), nil)
		}
		copy(p.MIC[:], want[:])
	}
	if c.WantSample() {
		c.Sample(func() interface{} {
			return map[string]interface{}{"part": class, "msg": hex.EncodeToString(f.Msg()), "v11": m.v11, "confFCnt": m.confFCnt, "txDR": m.txDR, "txCh": m.txCh, "mic": hex.EncodeToString(want[:])}
		})
	}
}

var c02PortAlphabet = []int{-1, 0, 1, 255}

func c02Lengths(thorough bool) []int {
	if thorough {
		var l []int
		for i := 0; i <= 248; i++ {
			l = append(l, i)
		}
		return l
	}
	return []int{0, 1, 2, 7, 8, 9, 15, 16, 17, 31, 32, 33, 64, 127, 128, 226, 241, 242, 248}
}

func runC02(r *engine.Run) {
	if err := spec.SelfTest(); err != nil {
		r.HarnessError("%v", err)
		return
	}
	r.Rule = "E1, three complete products. A (shapes): MType{2..5} x 16 FCtrl flag combinations x FOptsLen 0..15 x FOpts form{opaque,commands} x FPort{absent,0,1,255} x FRMPayload length alphabet (quick: 19 lengths straddling CMAC block boundaries; thorough: 0..248) x MAC version{1.0,1.1}, one parameter tuple. B (parameters) on 6 shapes x 2 directions: version x ACK x ConfFCnt(5) x txDR(3) x txCh(3) x FCnt(5) x DevAddr(3) x FNwkSIntKey(3) x SNwkSIntKey(3) with all 32 carried-MIC bit flips. C (bit walks): every single bit of FCnt, ConfFCnt, DevAddr (32 each), both keys (128 each), txDR, txCh (8 each) and every bit of the serialised frame on 2 shapes x 2 directions x 2 versions x ACK. Oracle: independent B0/B1 + RFC 4493 CMAC (mc/spec/crypto.go). Non-trivial: Set succeeded and the MIC was compared with the specification value; distinct by construction."
	cryptoHistory(r)
	manyKeysMIC(r)
	r.Assume("AES is crypto/aes (trusted); CMAC is re-implemented from RFC 4493 and self-tested on the RFC vectors at start-up")
	r.Assume("keys/counters/addresses: small distinguishing alphabets plus complete single-bit walks; a mutant special-casing one particular 32-bit or 128-bit value is outside the bound")
	r.Assume("frames whose serialisation exceeds 255 bytes (not transmittable) are executed but not judged")

	lens := c02Lengths(r.Thorough())
	base := micParams{v11: true, confFCnt: 0x1234ABCD, txDR: 5, txCh: 7, fKey: c02Keys[1], sKey: mustHex("000102030405060708090a0b0c0d0e0f")}

	// ---- A: shapes
	sp := (&engine.Space{}).Dim("mtype", 4).Dim("fctrl-flags", 16).Dim("foptslen", 16).Dim("fopts-form", 2).Dim("fport", len(c02PortAlphabet)).Dim("frmlen", len(lens)).Dim("version", 2)
	r.PartDims("A/shapes", sp.Desc(), sp.N(), func(c *engine.Case) {
		var ch [7]int
		sp.Decode(c.Index, ch[:])
		port, frmLen := c02PortAlphabet[ch[4]], lens[ch[5]]
		if port < 0 && frmLen > 0 || port == 0 && ch[2] > 0 || ch[2] == 0 && ch[3] == 1 {
			c.Outcome("filtered(not a spec-valid combination)")
			return
		}
		f := spec.DataFrame{MType: byte(2 + ch[0]), DevAddr: 0x01020304, FCnt: 0x00012345,
			ADR: ch[1]&8 != 0, ADRACKReq: ch[1]&4 != 0, ACK: ch[1]&2 != 0, Bit4: ch[1]&1 != 0}
		var foptsCmds []spec.Cmd
		if ch[3] == 1 {
			foptsCmds = spec.Compose(f.Uplink(), ch[2], int(c.Index%11))
			f.FOpts = spec.CmdBytes(foptsCmds)
		} else {
			f.FOpts = fillBytes(ch[2], 0xF0)
		}
		if port >= 0 {
			f.HasPort, f.FPort = true, byte(port)
			f.FRM = fillBytes(frmLen, 0x5A)
		}
		p, err := buildFrame(f, foptsCmds, nil)
		if err != nil {
			c.Fail("harness/build", err.Error(), nil)
			return
		}
		m := base
		m.v11 = ch[6] == 1
		c02Check(c, "A", f, p, m, []int{int(c.Index % 32)}, c.Index%64 == 0)
		c.Outcome(fmt.Sprintf("A/mtype=%d", f.MType))
		c.Outcome(fmt.Sprintf("A/cmac-blocks=%d", (16+len(f.Msg())+15)/16))
	})

	// ---- shared shapes for B and C
	type shape struct {
		name     string
		foptsLen int
		port     int
		frmLen   int
		port0Cmd bool
	}
	shapes := []shape{{"empty", 0, -1, 0, false}, {"fopts-only", 5, -1, 0, false}, {"port0-commands", 0, 0, 9, true}, {"one-block", 0, 1, 7, false}, {"multi-block", 3, 10, 50, false}, {"max", 15, 255, 226, false}}
	mk := func(s shape, uplink bool, ack bool, devAddr, fCnt uint32) (spec.DataFrame, *lorawan.PHYPayload) {
		f := spec.DataFrame{MType: 3, DevAddr: devAddr, FCnt: fCnt, ACK: ack, ADR: true}
		if uplink {
			f.MType = 4
		}
		var fo, fr []spec.Cmd
		if s.foptsLen > 0 {
			fo = spec.Compose(uplink, s.foptsLen, 1)
			f.FOpts = spec.CmdBytes(fo)
		}
		if s.port >= 0 {
			f.HasPort, f.FPort = true, byte(s.port)
			if s.port0Cmd {
				fr = spec.Compose(uplink, s.frmLen, 2)
				f.FRM = spec.CmdBytes(fr)
			} else {
				f.FRM = fillBytes(s.frmLen, 0x33)
			}
		}
		p, err := buildFrame(f, fo, fr)
		if err != nil {
			panic(err)
		}
		return f, p
	}
	allFlips := make([]int, 32)
	for i := range allFlips {
		allFlips[i] = i
	}

	// ---- B: parameters
	confs := []uint32{0, 1, 0xFFFF, 0x10000, 0x12345678}
	drs := []uint8{0, 5, 0xFF}
	chs := []uint8{0, 7, 0xFF}
	spB := (&engine.Space{}).Dim("shape", len(shapes)).Dim("direction", 2).Dim("version", 2).Dim("ack", 2).Dim("confFCnt", 5).Dim("txDR", 3).Dim("txCh", 3).Dim("fcnt", 5).Dim("devaddr", 3).Dim("fkey", 3).Dim("skey", 3)
	r.PartDims("B/parameters", spB.Desc(), spB.N(), func(c *engine.Case) {
		var ch [11]int
		spB.Decode(c.Index, ch[:])
		f, p := mk(shapes[ch[0]], ch[1] == 1, ch[3] == 1, c02DevAddrs[ch[8]], c02FCnts[ch[7]])
		m := micParams{v11: ch[2] == 1, confFCnt: confs[ch[4]], txDR: drs[ch[5]], txCh: chs[ch[6]], fKey: c02Keys[ch[9]], sKey: c02Keys[ch[10]]}
		flips := []int{int(c.Index % 32), int((c.Index / 32) % 32)}
		if c.Index%16 == 0 {
			flips = allFlips
		}
		c02Check(c, "B", f, p, m, flips, c.Index%256 == 0)
		// the MIC of the neighbouring parameter tuple must be rejected unless
		// the specification gives the same MIC for both
		m2 := m
		m2.confFCnt ^= 1
		m2.txCh ^= 1
		other, _ := specMIC(f, m2)
		mine, _ := specMIC(f, m)
		copy(p.MIC[:], other[:])
		ok, err := libValidateMIC(p, f.Uplink(), m)
		if err != nil || ok != (other == mine) {
			c.Fail("B/neighbour-mic", fmt.Sprintf("Validate=%v err=%v for the MIC of a neighbouring parameter tuple (spec MICs equal: %v)", ok, err, other == mine), nil)
		}
		c.Outcome(fmt.Sprintf("B/v11=%v/up=%v/ack=%v", m.v11, f.Uplink(), f.ACK))
	})

	// ---- C: single-bit walks
	type walk struct {
		name string
		bits int
	}
	walks := []walk{{"fcnt", 32}, {"confFCnt", 32}, {"devaddr", 32}, {"fkey", 128}, {"skey", 128}, {"txDR", 8}, {"txCh", 8}}
	total := 0
	for _, w := range walks {
		total += w.bits
	}
	spC := (&engine.Space{}).Dim("bit", total).Dim("shape", 2).Dim("direction", 2).Dim("version", 2).Dim("ack", 2).Dim("base", 2)
	r.PartDims("C/parameter-bit-walks", append(spC.Desc(), "bits: fcnt32 confFCnt32 devaddr32 fkey128 skey128 txDR8 txCh8"), spC.N(), func(c *engine.Case) {
		var ch [6]int
		spC.Decode(c.Index, ch[:])
		bit := ch[0]
		wi := 0
		for bit >= walks[wi].bits {
			bit -= walks[wi].bits
			wi++
		}
		s := shapes[2+2*ch[1]] // port0-commands, multi-block
		devAddr, fCnt := uint32(0), uint32(0)
		m := micParams{v11: ch[3] == 1, fKey: make([]byte, 16), sKey: make([]byte, 16)}
		if ch[5] == 1 { // all-ones base
			devAddr, fCnt = 0xFFFFFFFF, 0xFFFFFFFF
			m.confFCnt, m.txDR, m.txCh = 0xFFFFFFFF, 0xFF, 0xFF
			m.fKey, m.sKey = mustHex("ffffffffffffffffffffffffffffffff"), mustHex("ffffffffffffffffffffffffffffffff")
		} else {
			m.fKey, m.sKey = append([]byte(nil), c02Keys[1]...), mustHex("000102030405060708090a0b0c0d0e0f")
		}
		switch walks[wi].name {
		case "fcnt":
			fCnt ^= 1 << uint(bit)
		case "confFCnt":
			m.confFCnt ^= 1 << uint(bit)
		case "devaddr":
			devAddr ^= 1 << uint(bit)
		case "fkey":
			m.fKey = append([]byte(nil), m.fKey...)
			m.fKey[bit/8] ^= 1 << uint(bit%8)
		case "skey":
			m.sKey = append([]byte(nil), m.sKey...)
			m.sKey[bit/8] ^= 1 << uint(bit%8)
		case "txDR":
			m.txDR ^= 1 << uint(bit)
		case "txCh":
			m.txCh ^= 1 << uint(bit)
		}
		f, p := mk(s, ch[2] == 1, ch[4] == 1, devAddr, fCnt)
		c02Check(c, "C/"+walks[wi].name, f, p, m, []int{bit % 32}, false)
		c.Outcome("C/" + walks[wi].name)
	})

	// ---- C3: the MIC of a frame that differs in one bit of the 32-bit FCnt is not this frame's MIC:
	// Validate rejects it (unless the specification gives the same MIC) and leaves the frame as it is
	r.PartDims("C/fcnt-neighbour-mic", []string{"fcnt bit:32", "shape:6", "direction:2", "version:2", "base fcnt:3", "frame{constructed,decoded}"}, 32*uint64(len(shapes))*2*2*3*2, func(c *engine.Case) {
		i := c.Index
		bit := uint(i % 32)
		i /= 32
		s := shapes[i%uint64(len(shapes))]
		i /= uint64(len(shapes))
		uplink := i%2 == 1
		i /= 2
		m := base
		m.v11 = i%2 == 1
		i /= 2
		fcnt := []uint32{5, 0x0001FFFF, 0xFFFF0000}[i%3]
		decoded := i/3 == 1
		c.Eval()
		f, p := mk(s, uplink, true, 0x01020304, fcnt)
		g, _ := mk(s, uplink, true, 0x01020304, fcnt^(1<<bit))
		mine, _ := specMIC(f, m)
		other, _ := specMIC(g, m)
		if decoded {
			p.MIC = lorawan.MIC(other)
			wire, err := p.MarshalBinary()
			if err != nil {
				c.Fail("C/fcnt-neighbour/marshal-error", err.Error(), nil)
				return
			}
			var q lorawan.PHYPayload
			if err := q.UnmarshalBinary(wire); err != nil {
				c.Fail("C/fcnt-neighbour/decode-error", err.Error(), nil)
				return
			}
			observe(&q) // a receiver logs the frame it decoded
			q.MACPayload.(*lorawan.MACPayload).FHDR.FCnt = fcnt
			p = &q
		}
		p.MIC = lorawan.MIC(other)
		before := deepPrint(p)
		ok, err := libValidateMIC(p, uplink, m)
		c.NonTrivial()
		if err != nil || ok != (other == mine) {
			c.Fail("C/fcnt-neighbour-mic", fmt.Sprintf("frame with FCnt %#x carrying the specification MIC %x of FCnt %#x (its own is %x): Validate=%v err=%v; v11=%v uplink=%v decoded=%v", fcnt, other[:], fcnt^(1<<bit), mine[:], ok, err, m.v11, uplink, decoded), nil)
		}
		if after := deepPrint(p); after != before {
			c.Fail("C/fcnt-neighbour/frame-modified", fmt.Sprintf("Validate changed the frame: before %s after %s", before, after), nil)
		}
	})

	// ---- E: a frame obtained by decoding, whose exported fields are then changed (FOpts replaced by a
	// list of another length, FCtrl copied into a new frame): a frame value is its exported fields, so the
	// MIC is the specification MIC of the frame the encoder emits for it
	spE := (&engine.Space{}).Dim("decoded foptslen", 16).Dim("new foptslen", 16).Dim("direction", 2).Dim("version", 2).Dim("how{FOpts replaced in the decoded frame, FCtrl value copied into a constructed frame}", 2)
	r.PartDims("E/modified-after-decode", spE.Desc(), spE.N(), func(c *engine.Case) {
		var ch [5]int
		spE.Decode(c.Index, ch[:])
		uplink := ch[2] == 1
		m := base
		m.v11 = ch[3] == 1
		f := spec.DataFrame{MType: 3, DevAddr: 0x01020304, FCnt: 9, ADR: true, HasPort: true, FPort: 10, FRM: fillBytes(4, 0x11)}
		if uplink {
			f.MType = 2
		}
		f.FOpts = fillBytes(ch[0], 0xB0)
		var p lorawan.PHYPayload
		if err := p.UnmarshalBinary(append(f.Msg(), 1, 2, 3, 4)); err != nil {
			c.Fail("E/decode-error", err.Error(), nil)
			return
		}
		observe(&p) // a receiver logs the frame it decoded
		g := f
		g.FOpts = fillBytes(ch[1], 0x5C)
		var newFOpts []lorawan.Payload
		if ch[1] > 0 {
			newFOpts = []lorawan.Payload{&lorawan.DataPayload{Bytes: append([]byte(nil), g.FOpts...)}}
		}
		q := &p
		if ch[4] == 0 {
			p.MACPayload.(*lorawan.MACPayload).FHDR.FOpts = newFOpts
		} else {
			built, err := buildFrame(g, nil, nil)
			if err != nil {
				c.Fail("harness/build", err.Error(), nil)
				return
			}
			built.MACPayload.(*lorawan.MACPayload).FHDR.FCtrl = p.MACPayload.(*lorawan.MACPayload).FHDR.FCtrl
			q = built
		}
		q.MACPayload.(*lorawan.MACPayload).FHDR.FCnt = g.FCnt
		c.Eval()
		if err := libSetMIC(q, uplink, m); err != nil {
			c.Fail("E/set-error", err.Error(), nil)
			return
		}
		wire, err := q.MarshalBinary()
		if err != nil || !bytes.Equal(wire[:len(wire)-4], g.Msg()) {
			c.Outcome("E/frame-does-not-encode-to-the-model(see C01)")
			return
		}
		c.NonTrivial()
		want, _ := specMIC(g, m)
		if [4]byte(q.MIC) != want {
			c.Fail("E/set-differs-from-spec", fmt.Sprintf("frame decoded with %d FOpts bytes, then given %d (how=%d): library MIC %x, specification MIC of the emitted frame %x; v11=%v uplink=%v", ch[0], ch[1], ch[4], q.MIC[:], want[:], m.v11, uplink), nil)
			return
		}
		var back lorawan.PHYPayload
		if err := back.UnmarshalBinary(wire); err != nil {
			c.Fail("E/decode-error", err.Error(), nil)
			return
		}
		observe(&back) // a receiver logs the frame it decoded
		back.MACPayload.(*lorawan.MACPayload).FHDR.FCnt = g.FCnt
		if ok, err := libValidateMIC(&back, uplink, m); err != nil || !ok {
			c.Fail("E/validate-rejects-own-mic", fmt.Sprintf("frame decoded with %d FOpts bytes, then given %d: after encoding and decoding Validate=%v err=%v", ch[0], ch[1], ok, err), nil)
		}
	})

	// ---- a frame kept by value while the variable it was decoded into receives the next frame: the kept
	// frame still carries its own content and validates against its own MIC
	r.PartDims("kept-frame/receiver-reused", []string{"frame A: shape 6", "frame B: shape 6", "direction:2", "version:2"}, uint64(len(shapes)*len(shapes)*4), func(c *engine.Case) {
		i := c.Index
		sa, sb := shapes[i%uint64(len(shapes))], shapes[(i/uint64(len(shapes)))%uint64(len(shapes))]
		i /= uint64(len(shapes) * len(shapes))
		uplink := i%2 == 1
		m := base
		m.v11 = i/2 == 1
		wireOf := func(s shape, fcnt uint32) ([]byte, [4]byte, bool) {
			f, p := mk(s, uplink, false, 0x01020304, fcnt)
			if err := libSetMIC(p, uplink, m); err != nil {
				return nil, [4]byte{}, false
			}
			w, err := p.MarshalBinary()
			want, _ := specMIC(f, m)
			return w, want, err == nil
		}
		wa, micA, ok1 := wireOf(sa, 5)
		wb, _, ok2 := wireOf(sb, 6)
		if !ok1 || !ok2 {
			c.Outcome("kept-frame/not-encodable")
			return
		}
		c.Eval()
		var phy lorawan.PHYPayload
		if err := phy.UnmarshalBinary(wa); err != nil {
			c.Fail("kept-frame/decode", err.Error(), nil)
			return
		}
		observe(&phy) // a receiver logs the frame it decoded
		kept := phy
		if err := phy.UnmarshalBinary(wb); err != nil {
			c.Fail("kept-frame/decode", err.Error(), nil)
			return
		}
		observe(&phy) // a receiver logs the frame it decoded
		c.NonTrivial()
		if [4]byte(kept.MIC) != micA {
			c.Outcome("kept-frame/mic-field-differs(see C02 set part)")
		}
		if mp, ok := kept.MACPayload.(*lorawan.MACPayload); ok {
			mp.FHDR.FCnt = 5
		}
		if ok, err := libValidateMIC(&kept, uplink, m); err != nil || !ok {
			c.Fail("kept-frame/validate-after-receiver-reuse", fmt.Sprintf("frame %x decoded and kept by value; after %x was decoded into the same variable the kept frame gives Validate=%v err=%v (v11=%v uplink=%v)", wa, wb, ok, err, m.v11, uplink), nil)
		}
	})

	// ---- frames whose correct MIC is ffffffff / 00000000 (witness.go): set, validated, and validated after the wire
	r.Part("conspicuous-mic-value", 1+uint64(len(witnessDownlink)), func(c *engine.Case) {
		w := witnessUplink
		f := spec.DataFrame{MType: 2, DevAddr: 0x01020304, FCnt: w.fcnt, HasPort: true, FPort: 10, FRM: w.frm}
		if c.Index > 0 {
			w = witnessDownlink[c.Index-1]
			f = spec.DataFrame{MType: 3, DevAddr: 0x01020304, FCnt: w.fcnt, HasPort: true, FPort: 10, FRM: w.frm}
		}
		m := micParams{v11: false, fKey: witnessKey, sKey: witnessKey}
		if got, _ := specMIC(f, m); got != w.mic {
			r.HarnessError("witness uplink: the specification MIC is %x, not %x", got[:], w.mic[:])
			return
		}
		p, err := buildFrame(f, nil, nil)
		if err != nil {
			c.Fail("harness/build", err.Error(), nil)
			return
		}
		c02Check(c, "witness", f, p, m, []int{0, 31}, true)
		wire, err := p.MarshalBinary()
		if err != nil {
			c.Fail("witness/marshal-error", err.Error(), nil)
			return
		}
		var q lorawan.PHYPayload
		if err := q.UnmarshalBinary(wire); err != nil {
			c.Fail("witness/decode-error", err.Error(), nil)
			return
		}
		observe(&q) // a receiver logs the frame it decoded
		q.MACPayload.(*lorawan.MACPayload).FHDR.FCnt = w.fcnt
		if ok, err := libValidateMIC(&q, f.Uplink(), m); err != nil || !ok {
			c.Fail("witness/validate-rejects-spec-mic", fmt.Sprintf("frame %x received from the wire (its correct MIC is %x): Validate=%v err=%v", wire, w.mic[:], ok, err), nil)
		}
	})

	// ---- D: the same frame held in other value forms (FRMPayload / FOpts as several items, empty
	// non-nil lists): the MIC is a function of the frame's serialisation, so every form that
	// serialises to the same bytes has the same specification MIC
	chunk := func(b []byte, cuts ...int) []lorawan.Payload {
		var out []lorawan.Payload
		prev := 0
		for _, k := range append(cuts, len(b)) {
			if k < prev || k > len(b) {
				continue
			}
			out = append(out, &lorawan.DataPayload{Bytes: append([]byte(nil), b[prev:k]...)})
			prev = k
		}
		return out
	}
	const nForms = 9
	r.PartDims("D/value-forms", []string{"shape:6", "direction:2", "version:2", "form:9 (FRMPayload in 2/3 items, leading/trailing empty item, FOpts in 2 items, empty non-nil lists)"}, uint64(len(shapes)*2*2*nForms), func(c *engine.Case) {
		i := c.Index
		form := int(i % nForms)
		i /= nForms
		s := shapes[i%uint64(len(shapes))]
		i /= uint64(len(shapes))
		uplink := i%2 == 1
		m := base
		m.v11 = i/2 == 1
		f, p := mk(s, uplink, true, 0x01020304, 0x00010002)
		ref, err := p.MarshalBinary()
		if err != nil {
			c.Fail("D/marshal-error", err.Error(), nil)
			return
		}
		mp := p.MACPayload.(*lorawan.MACPayload)
		frm, fo := f.FRM, f.FOpts
		switch form {
		case 0:
			if len(frm) < 2 {
				c.Outcome("D/form-not-applicable")
				return
			}
			mp.FRMPayload = chunk(frm, 1)
		case 1:
			if len(frm) < 2 {
				c.Outcome("D/form-not-applicable")
				return
			}
			mp.FRMPayload = chunk(frm, len(frm)/2)
		case 2:
			if len(frm) < 3 {
				c.Outcome("D/form-not-applicable")
				return
			}
			mp.FRMPayload = chunk(frm, 1, len(frm)-1)
		case 3:
			if !f.HasPort {
				c.Outcome("D/form-not-applicable")
				return
			}
			mp.FRMPayload = chunk(frm, 0) // an empty item first
		case 4:
			if !f.HasPort {
				c.Outcome("D/form-not-applicable")
				return
			}
			mp.FRMPayload = append(chunk(frm), &lorawan.DataPayload{})
		case 5:
			if len(fo) < 2 {
				c.Outcome("D/form-not-applicable")
				return
			}
			mp.FHDR.FOpts = chunk(fo, 1)
		case 6:
			if len(fo) != 0 {
				c.Outcome("D/form-not-applicable")
				return
			}
			mp.FHDR.FOpts = []lorawan.Payload{}
		case 7:
			if len(frm) != 0 {
				c.Outcome("D/form-not-applicable")
				return
			}
			mp.FRMPayload = []lorawan.Payload{}
		case 8:
			if len(fo) == 0 {
				c.Outcome("D/form-not-applicable")
				return
			}
			mp.FHDR.FOpts = chunk(fo)
		}
		got, err := p.MarshalBinary()
		if err != nil || !bytes.Equal(got, ref) {
			// whether this form is the same frame is C01's subject; not judged here
			c.Outcome("D/form-is-not-the-same-frame(see C01)")
			return
		}
		c02Check(c, "D", f, p, m, []int{int(c.Index % 32)}, false)
		c.Outcome(fmt.Sprintf("D/form=%d", form))
	})

	// ---- C2: every bit of the serialised frame (tamper detection is decided by the spec MIC of the received content)
	r.PartDims("C/frame-bit-walks", []string{"shape:6", "direction:2", "version:2", "bit: 8*len(frame)"}, uint64(len(shapes)*2*2), func(c *engine.Case) {
		s := shapes[c.Index%uint64(len(shapes))]
		uplink := (c.Index/uint64(len(shapes)))%2 == 1
		m := base
		m.v11 = c.Index/uint64(2*len(shapes)) == 1
		f, p := mk(s, uplink, true, 0x01020304, 0x00010002)
		if err := libSetMIC(p, uplink, m); err != nil {
			c.Fail("C/frame/set-error", err.Error(), nil)
			return
		}
		wire, err := p.MarshalBinary()
		if err != nil {
			c.Fail("C/frame/marshal-error", err.Error(), nil)
			return
		}
		for bit := 0; bit < 8*(len(wire)-4); bit++ {
			c.Eval()
			t := append([]byte(nil), wire...)
			t[bit/8] ^= 1 << uint(bit%8)
			var q lorawan.PHYPayload
			if err := q.UnmarshalBinary(t); err != nil {
				c.Outcome("C/frame/tampered-frame-undecodable")
				continue
			}
			observe(&q) // a receiver logs the frame it decoded
			mp, ok := q.MACPayload.(*lorawan.MACPayload)
			if !ok {
				c.Outcome("C/frame/tampered-into-non-data-frame")
				continue
			}
			mp.FHDR.FCnt |= f.FCnt & 0xFFFF0000
			// the specification's MIC of the received content under the receiver's parameters
			g := f
			g.MType = t[0] >> 5
			qUp := g.Uplink()
			// C02 speaks about the frame value: the three RFU bits of the MHDR are not
			// part of the library's frame value (the decoder drops them), so the
			// message the MIC is specified over is the value's serialisation. The
			// effect of those bits on a received frame is C05's subject.
			msg := append([]byte(nil), t[:len(t)-4]...)
			msg[0] &= 0xE3
			want, _ := spec.DataMIC(spec.DataMICParams{V11: m.v11, Uplink: qUp, ACK: t[5]&0x20 != 0, ConfFCnt: m.confFCnt, TxDR: m.txDR, TxCh: m.txCh,
				DevAddr: uint32(t[4])<<24 | uint32(t[3])<<16 | uint32(t[2])<<8 | uint32(t[1]), FCnt: mp.FHDR.FCnt, FKey: m.fKey, SKey: m.sKey}, msg)
			if g.MType < 2 || g.MType > 5 {
				continue
			}
			// the receive buffer is used for the next packet: the decoded frame is a value of its own
			for k := range t {
				t[k] ^= 0xA5
			}
			okv, err := libValidateMIC(&q, qUp, m)
			if err != nil {
				// a frame the decoder accepted must be answerable (ties to C08); reported there
				c.Outcome("C/frame/validate-error-on-accepted-frame(see C08)")
				continue
			}
			c.NonTrivial()
			if okv != ([4]byte(q.MIC) == want) {
				c.Fail("C/frame/tamper", fmt.Sprintf("frame %x with bit %d flipped: Validate=%v, carried MIC %x, specification MIC of the received content %x", wire, bit, okv, q.MIC[:], want[:]), nil)
			}
			if okv {
				c.Outcome("C/frame/tampered-frame-accepted(spec MIC equal)")
			} else {
				c.Outcome("C/frame/tampered-frame-rejected")
			}
		}
	})

	for mt := 2; mt <= 5; mt++ {
		r.Guard(r.OutcomeCount(fmt.Sprintf("A/mtype=%d", mt)) > 0, "MType %d exercised", mt)
	}
	blocks := 0
	for b := 1; b <= 18; b++ {
		if r.OutcomeCount(fmt.Sprintf("A/cmac-blocks=%d", b)) > 0 {
			blocks++
		}
	}
	r.Guard(blocks >= 3, "at least 3 distinct CMAC block counts reached (%d)", blocks)
	r.Guard(r.OutcomeCount("C/frame/tampered-frame-rejected") > 0, "tampered frames rejected at least once")
	r.Guard(r.OutcomeCount("B/v11=true/up=true/ack=true") > 0 && r.OutcomeCount("B/v11=false/up=false/ack=false") > 0, "both versions, directions and ACK settings in B")
}

package props

import (
	"bytes"
	"fmt"
	"strings"

	"github.com/brocaar/lorawan"
	"github.com/brocaar/lorawan/band"

	"verifmc/engine"
)

func init() { register("C15", "model_checking", runC15) }

// mchan is one channel of the reference model (a boring slice).
type mchan struct {
	freq     uint32
	min, max int
	enabled  bool
	custom   bool
}

type bandModel struct {
	dynamic bool
	up      []mchan
	down    []mchan
	nStd    int
}

func (m *bandModel) render() string {
	var sb strings.Builder
	for _, c := range m.up {
		fmt.Fprintf(&sb, "u%d:%d-%d:%v:%v;", c.freq, c.min, c.max, c.enabled, c.custom)
	}
	sb.WriteString("|")
	for _, c := range m.down {
		fmt.Fprintf(&sb, "d%d:%d-%d:%v:%v;", c.freq, c.min, c.max, c.enabled, c.custom)
	}
	return sb.String()
}

// c15Op is one abstract operation; its concrete arguments depend on the
// current number of channels, which model and implementation share.
type c15Op struct {
	name string
	// args computes the concrete arguments from (number of channels, number of standard channels, base frequency, cflist range)
	kind  string // add, disable, enable
	which int
}

type c15Env struct {
	refusesInverted bool
	cfg             bandCfg
	init            band.VerifBandSnapshot
	ops             []c15Op
	fixedIdx        []int
}

func (e *c15Env) addArgs(which, n int) (uint32, int, int) {
	base := e.init.UplinkChannels[0].Frequency
	fresh := base + 10000000 + uint32(n)*200000
	switch which {
	case 0:
		return fresh, e.init.CFListMinDR, e.init.CFListMaxDR
	case 1:
		return fresh, 6, 6
	case 2:
		return e.init.UplinkChannels[1%len(e.init.UplinkChannels)].Frequency, 6, 6
	case 5:
		// a fresh frequency in the upper part of the 100 Hz code range (1.5 GHz .. below 2^24 * 100 Hz):
		// CFList and DLChannelReq carry it; NewChannelReq re-purposes the codes from 1.2 GHz on
		return 1500000000 + uint32(n)*200000, e.init.CFListMinDR, e.init.CFListMaxDR
	case 4:
		// a fresh frequency with an inverted data-rate range (an argument a band may refuse)
		if e.init.CFListMaxDR > e.init.CFListMinDR {
			return fresh, e.init.CFListMaxDR, e.init.CFListMinDR
		}
		return fresh, 1, 0
	default:
		return 0, 0, 5
	}
}

func (e *c15Env) index(which, n int) int {
	nStd := len(e.init.UplinkChannels)
	if which >= 1000 {
		return which - 1000 // absolute index (directed histories)
	}
	if e.fixedIdx != nil {
		return e.fixedIdx[which]
	}
	return []int{-1, 0, nStd - 1, nStd, n - 1, n}[which]
}

func (e *c15Env) model(path []int) (*bandModel, []string) {
	m := &bandModel{dynamic: e.init.SupportsExtraChannels, nStd: len(e.init.UplinkChannels)}
	for _, c := range e.init.UplinkChannels {
		m.up = append(m.up, mchan{c.Frequency, c.MinDR, c.MaxDR, c.Enabled, c.Custom})
	}
	for _, c := range e.init.DownlinkChannels {
		m.down = append(m.down, mchan{c.Frequency, c.MinDR, c.MaxDR, c.Enabled, c.Custom})
	}
	var results []string
	for _, o := range path {
		op := e.ops[o]
		n := len(m.up)
		switch op.kind {
		case "add":
			if !m.dynamic {
				results = append(results, "err")
				continue
			}
			f, lo, hi := e.addArgs(op.which, n)
			if op.which == 4 && e.refusesInverted {
				// the tree under check refuses such a range (probed once per band): a refused call
				// changes nothing
				results = append(results, "err")
				continue
			}
			ch := mchan{f, lo, hi, f != 0, true}
			m.up = append(m.up, ch)
			m.down = append(m.down, ch)
			results = append(results, "ok")
		default:
			i := e.index(op.which, n)
			if i < 0 || i >= n {
				results = append(results, "err")
				continue
			}
			m.up[i].enabled = op.kind == "enable"
			results = append(results, "ok")
		}
	}
	return m, results
}

func (e *c15Env) do(b band.Band, o int) string {
	op := e.ops[o]
	n := len(b.GetUplinkChannelIndices())
	var err error
	pn, site, _ := engine.Try(func() {
		switch op.kind {
		case "add":
			f, lo, hi := e.addArgs(op.which, n)
			err = b.AddChannel(f, lo, hi)
		case "disable":
			err = b.DisableUplinkChannelIndex(e.index(op.which, n))
		case "enable":
			err = b.EnableUplinkChannelIndex(e.index(op.which, n))
		}
	})
	if pn {
		return "panic:" + site
	}
	if err != nil {
		return "err"
	}
	return "ok"
}

func idxWhere(m []mchan, pred func(c mchan) bool) []int {
	var out []int
	for i, c := range m {
		if pred(c) {
			out = append(out, i)
		}
	}
	return out
}

var c15Versions = []string{band.LoRaWAN_1_0_0, band.LoRaWAN_1_0_1, band.LoRaWAN_1_0_2, band.LoRaWAN_1_0_3, band.LoRaWAN_1_0_4, band.LoRaWAN_1_1_0, "9.9.9"}

// c15State evaluates all state invariants on one reached state.
func (e *c15Env) checkState(c *engine.Case, b band.Band, path []int) {
	m, _ := e.model(path)
	reg := regionOf(e.cfg.name).Name
	n := len(m.up)
	fail := func(key, format string, a ...interface{}) {
		c.Fail(fmt.Sprintf("state/%s/%s", reg, key), fmt.Sprintf("%v after %v: ", e.cfg.name, e.pathNames(path))+fmt.Sprintf(format, a...), nil)
	}
	c.NonTrivial()

	// reported index sets equal the model's; partitions
	all := b.GetUplinkChannelIndices()
	en, dis := b.GetEnabledUplinkChannelIndices(), b.GetDisabledUplinkChannelIndices()
	std, cus := b.GetStandardUplinkChannelIndices(), b.GetCustomUplinkChannelIndices()
	want := func(pred func(mchan) bool) []int { return idxWhere(m.up, pred) }
	if !intsEq(all, want(func(mchan) bool { return true })) {
		fail("indices", "GetUplinkChannelIndices %v, %d channels expected", all, n)
	}
	if !intsEq(en, want(func(c mchan) bool { return c.enabled })) || !intsEq(dis, want(func(c mchan) bool { return !c.enabled })) {
		fail("enabled-disabled-sets", "enabled %v disabled %v; model enabled %v", en, dis, want(func(c mchan) bool { return c.enabled }))
	}
	if !intsEq(std, want(func(c mchan) bool { return !c.custom })) || !intsEq(cus, want(func(c mchan) bool { return c.custom })) {
		fail("standard-custom-sets", "standard %v custom %v", std, cus)
	}
	if len(en)+len(dis) != len(all) || len(std)+len(cus) != len(all) {
		fail("partition", "enabled %d + disabled %d, standard %d + custom %d, all %d", len(en), len(dis), len(std), len(cus), len(all))
	}
	// accessors by index, including invalid ones
	for i := -1; i <= n; i++ {
		c.Eval()
		var ch band.Channel
		var err error
		if pn, site, v := engine.Try(func() { ch, err = b.GetUplinkChannel(i) }); pn {
			c.Fail("panic/"+site, fmt.Sprintf("%v: GetUplinkChannel(%d) with %d channels panics: %v", e.cfg.name, i, n, v), nil)
		} else if i < 0 || i >= n {
			if err == nil {
				fail("invalid-index-accepted/GetUplinkChannel", "GetUplinkChannel(%d) with %d channels succeeded", i, n)
			}
		} else if err != nil || ch.Frequency != m.up[i].freq || ch.MinDR != m.up[i].min || ch.MaxDR != m.up[i].max {
			fail("GetUplinkChannel", "GetUplinkChannel(%d) = %+v err %v; model %+v", i, ch, err, m.up[i])
		}
		nd := len(m.down)
		if i <= nd {
			j := i
			if j == n {
				j = nd
			}
			if pn, site, v := engine.Try(func() { ch, err = b.GetDownlinkChannel(j) }); pn {
				c.Fail("panic/"+site, fmt.Sprintf("%v: GetDownlinkChannel(%d) with %d channels panics: %v", e.cfg.name, j, nd, v), nil)
			} else if j < 0 || j >= nd {
				if err == nil {
					fail("invalid-index-accepted/GetDownlinkChannel", "GetDownlinkChannel(%d) with %d channels succeeded", j, nd)
				}
			} else if err != nil || ch.Frequency != m.down[j].freq || ch.MinDR != m.down[j].min || ch.MaxDR != m.down[j].max {
				fail("GetDownlinkChannel", "GetDownlinkChannel(%d) = %+v err %v; model %+v", j, ch, err, m.down[j])
			}
		}
	}
	// standard channels never altered
	for i := 0; i < m.nStd; i++ {
		ch, err := b.GetUplinkChannel(i)
		ini := e.init.UplinkChannels[i]
		if err != nil || ch.Frequency != ini.Frequency || ch.MinDR != ini.MinDR || ch.MaxDR != ini.MaxDR {
			fail("standard-channel-altered", "standard channel %d is %+v, constructor gave %+v", i, ch, ini.Channel)
		}
	}
	// lookups by frequency and by frequency + data-rate
	freqs := map[uint32]bool{1: true}
	for _, ch := range m.up {
		freqs[ch.freq] = true
	}
	// single-bit neighbours of the first and the last channel frequency (all 32 bits: a lookup key
	// narrower than the argument folds some of them onto the channel itself); in the short histories
	// and in every eighth state of the long ones
	if len(path) <= 2 || len(path)%8 == 0 {
		for _, ch := range []mchan{m.up[0], m.up[len(m.up)-1]} {
			for k := uint(0); k < 32; k++ {
				freqs[ch.freq^(1<<k)] = true
			}
		}
	}
	for f := range freqs {
		for _, isStd := range []bool{true, false} {
			c.Eval()
			idx, err := b.GetUplinkChannelIndex(f, isStd)
			exists := false
			for _, ch := range m.up {
				if ch.freq == f && ch.custom != isStd {
					exists = true
				}
			}
			if exists != (err == nil) {
				fail("GetUplinkChannelIndex/error-iff-absent", "GetUplinkChannelIndex(%d,%v): err=%v but model has such a channel: %v", f, isStd, err, exists)
			} else if err == nil && (idx < 0 || idx >= n || m.up[idx].freq != f || m.up[idx].custom == isStd) {
				fail("GetUplinkChannelIndex/wrong-channel", "GetUplinkChannelIndex(%d,%v) = %d which does not match", f, isStd, idx)
			}
		}
		for _, dr := range []int{-1, 0, 5, 6, 7, 8} {
			c.Eval()
			var idx int
			var err error
			if pn, site, v := engine.Try(func() { idx, err = b.GetUplinkChannelIndexForFrequencyDR(f, dr) }); pn {
				c.Fail("panic/"+site, fmt.Sprintf("GetUplinkChannelIndexForFrequencyDR(%d,%d) panics: %v", f, dr, v), nil)
				continue
			}
			exists := false
			for _, ch := range m.up {
				if ch.freq == f && ch.min <= dr && dr <= ch.max {
					exists = true
				}
			}
			if exists != (err == nil) {
				fail("GetUplinkChannelIndexForFrequencyDR/error-iff-absent", "(%d, DR%d): err=%v but the model says a matching channel exists: %v", f, dr, err, exists)
			} else if err == nil && (idx < 0 || idx >= n || m.up[idx].freq != f || dr < m.up[idx].min || dr > m.up[idx].max) {
				fail("GetUplinkChannelIndexForFrequencyDR/wrong-channel", "(%d, DR%d) = %d which does not match", f, dr, idx)
			}
		}
	}
	// CFList
	for _, v := range c15Versions {
		c.Eval()
		cf := b.GetCFList(v)
		if m.dynamic {
			var offer []uint32
			for _, ch := range m.up {
				if ch.custom && ch.min == e.init.CFListMinDR && ch.max == e.init.CFListMaxDR && len(offer) < 5 {
					offer = append(offer, ch.freq)
				}
			}
			if len(offer) > 0 && offer[0] == 0 {
				c.Outcome("cflist/leading-zero-frequency-placeholder(recorded)")
				continue
			}
			if len(offer) == 0 {
				if cf != nil {
					fail("cflist/not-nil-without-custom-channels", "GetCFList(%q) = %+v with no CFList-capable custom channel", v, cf.Payload)
				}
				c.Outcome("cflist/nil")
				continue
			}
			var got [5]uint32
			ok := cf != nil && cf.CFListType == lorawan.CFListChannel
			if ok {
				p, isCh := cf.Payload.(*lorawan.CFListChannelPayload)
				ok = isCh
				if isCh {
					got = p.Channels
				}
			}
			var exp [5]uint32
			copy(exp[:], offer)
			if !ok || got != exp {
				fail("cflist/channels", "GetCFList(%q) = %v (present %v), expected the first five CFList-capable custom channels in order %v", v, got, cf != nil, exp)
			}
			c.Outcome(fmt.Sprintf("cflist/channels=%d", len(offer)))
		} else {
			early := v == band.LoRaWAN_1_0_0 || v == band.LoRaWAN_1_0_1 || v == band.LoRaWAN_1_0_2
			if early {
				if cf != nil {
					fail("cflist/fixed-plan-early-version", "GetCFList(%q) not nil", v)
				}
				continue
			}
			p, isMask := (*lorawan.CFListChannelMaskPayload)(nil), false
			if cf != nil && cf.CFListType == lorawan.CFListChannelMask {
				p, isMask = cf.Payload.(*lorawan.CFListChannelMaskPayload)
			}
			if !isMask || len(p.ChannelMasks) != (n+15)/16 {
				fail("cflist/masks", "GetCFList(%q): mask payload %v with %d masks, expected %d", v, isMask, func() int {
					if p == nil {
						return 0
					}
					return len(p.ChannelMasks)
				}(), (n+15)/16)
				continue
			}
			for i, ch := range m.up {
				if p.ChannelMasks[i/16][i%16] != ch.enabled {
					fail("cflist/mask-bit", "GetCFList(%q): channel %d mask bit %v, enabled %v", v, i, p.ChannelMasks[i/16][i%16], ch.enabled)
					break
				}
			}
			for i := n; i < 16*len(p.ChannelMasks); i++ {
				if p.ChannelMasks[i/16][i%16] {
					fail("cflist/mask-bit-beyond-plan", "GetCFList(%q): bit %d set beyond the %d channels", v, i, n)
				}
			}
			c.Outcome("cflist/masks")
		}
		// cross-layer: the CFList must fit into a join-accept and decode back
		if cf != nil {
			ja := lorawan.JoinAcceptPayload{CFList: cf, RXDelay: 1}
			bts, err := ja.MarshalBinary()
			if err != nil {
				c.Fail(fmt.Sprintf("crosslayer/%s/CFList-in-JoinAccept", reg), fmt.Sprintf("%v after %v: the band's CFList for %q cannot be encoded into a join-accept: %v", e.cfg.name, e.pathNames(path), v, err), nil)
			} else {
				var back lorawan.JoinAcceptPayload
				if err := back.UnmarshalBinary(false, bts); err != nil || back.CFList == nil {
					fail("crosslayer/CFList-decode", "join-accept with the band's CFList does not decode: %v", err)
				} else if a, _ := cf.MarshalBinary(); true {
					b2, _ := back.CFList.MarshalBinary()
					if !bytes.Equal(a, b2) {
						fail("crosslayer/CFList-roundtrip", "CFList %x decodes back to %x", a, b2)
					} else if g, w := c15CFListValue(back.CFList), c15CFListValue(cf); g != w {
						fail("crosslayer/CFList-roundtrip", "CFList %s encodes to %x which decodes back to %s", w, a, g)
					}
				}
			}
		}
	}
	// cross-layer: frequencies and data-rates into MAC commands
	encdec := func(name string, pl lorawan.MACCommandPayload, fresh lorawan.MACCommandPayload) {
		c.Eval()
		bts, err := pl.MarshalBinary()
		if err != nil {
			c.Fail(fmt.Sprintf("crosslayer/%s/%s", reg, name), fmt.Sprintf("%v after %v: %s %+v (values produced by the band) cannot be encoded: %v", e.cfg.name, e.pathNames(path), name, pl, err), nil)
			return
		}
		if err := fresh.UnmarshalBinary(bts); err != nil || deepPrint(fresh) != deepPrint(pl) {
			c.Fail(fmt.Sprintf("crosslayer/%s/%s/roundtrip", reg, name), fmt.Sprintf("%v: %s %+v encodes to %x which decodes to %+v (err %v)", e.cfg.name, name, pl, bts, fresh, err), nil)
		}
	}
	def := b.GetDefaults()
	encdec("RXParamSetupReq", &lorawan.RXParamSetupReqPayload{Frequency: def.RX2Frequency, DLSettings: lorawan.DLSettings{RX2DataRate: uint8(def.RX2DataRate)}}, &lorawan.RXParamSetupReqPayload{})
	if ps, err := b.GetPingSlotFrequency(lorawan.DevAddr{1, 2, 3, 4}, 0); err == nil {
		encdec("PingSlotChannelReq", &lorawan.PingSlotChannelReqPayload{Frequency: ps, DR: uint8(def.RX2DataRate)}, &lorawan.PingSlotChannelReqPayload{})
		encdec("BeaconFreqReq", &lorawan.BeaconFreqReqPayload{Frequency: ps}, &lorawan.BeaconFreqReqPayload{})
	}
	if m.dynamic {
		for i, ch := range m.up {
			if ch.min < 0 || ch.max > 15 {
				continue
			}
			if ch.freq >= 1200000000 && ch.freq < 2400000000 {
				// outside NewChannelReq's range in this library (codes from 12000000 on stand for 200 Hz steps)
				c.Outcome("crosslayer/NewChannelReq/frequency-outside-its-range")
			} else {
				encdec("NewChannelReq", &lorawan.NewChannelReqPayload{ChIndex: uint8(i), Freq: ch.freq, MinDR: uint8(ch.min), MaxDR: uint8(ch.max)}, &lorawan.NewChannelReqPayload{})
			}
			encdec("DLChannelReq", &lorawan.DLChannelReqPayload{ChIndex: uint8(i), Freq: m.down[i].freq}, &lorawan.DLChannelReqPayload{})
		}
	}
	// the LinkADRReqs the band produces (for a device that has nothing enabled, everything, the odd
	// channels) go through the MAC encoder and come back as they were
	{
		n := len(m.up)
		var all, odd []int
		for i := 0; i < n; i++ {
			all = append(all, i)
			if i%2 == 1 {
				odd = append(odd, i)
			}
		}
		for _, dev := range [][]int{nil, all, odd} {
			var pls []lorawan.LinkADRReqPayload
			if pn, site, v := engine.Try(func() { pls = b.GetLinkADRReqPayloadsForEnabledUplinkChannelIndices(dev) }); pn {
				c.Fail("panic/"+site, fmt.Sprintf("%v after %v: GetLinkADRReqPayloadsForEnabledUplinkChannelIndices panics: %v", e.cfg.name, e.pathNames(path), v), nil)
				continue
			}
			for i := range pls {
				encdec("LinkADRReq", &pls[i], &lorawan.LinkADRReqPayload{})
			}
		}
	}
	// TX power accessor with invalid indices (errors, never panics)
	for _, k := range []int{-1, len(e.init.TXPowerOffsets)} {
		var err error
		if pn, site, v := engine.Try(func() { _, err = b.GetTXPowerOffset(k) }); pn {
			c.Fail("panic/"+site, fmt.Sprintf("%v: GetTXPowerOffset(%d) panics: %v", e.cfg.name, k, v), nil)
		} else if err == nil {
			fail("invalid-index-accepted/GetTXPowerOffset", "GetTXPowerOffset(%d) succeeded", k)
		}
	}
	c.Outcome(fmt.Sprintf("state/custom-channels=%d", len(cus)))
}

// c15CFListValue prints what a CFList says: the channel frequencies, or the channel masks without
// trailing all-false masks (the wire form has no mask count; absent and all-false say the same).
func c15CFListValue(cf *lorawan.CFList) string {
	if p, ok := cf.Payload.(*lorawan.CFListChannelMaskPayload); ok {
		masks := p.ChannelMasks
		for len(masks) > 0 && masks[len(masks)-1] == (lorawan.ChMask{}) {
			masks = masks[:len(masks)-1]
		}
		return fmt.Sprintf("type %d masks %v", cf.CFListType, masks)
	}
	return deepPrint(cf)
}

func (e *c15Env) pathNames(path []int) []string {
	var out []string
	n := len(e.init.UplinkChannels)
	for _, o := range path {
		op := e.ops[o]
		switch op.kind {
		case "add":
			f, lo, hi := e.addArgs(op.which, n)
			out = append(out, fmt.Sprintf("AddChannel(%d,%d,%d)", f, lo, hi))
			if e.init.SupportsExtraChannels {
				n++
			}
		default:
			out = append(out, fmt.Sprintf("%s(%d)", op.name, e.index(op.which, n)))
		}
	}
	return out
}

func runC15(r *engine.Run) {
	r.Rule = "E2 explicit-state breadth-first search per band (14 names) from the constructor state over AddChannel with six argument kinds {fresh frequency with the CFList DR range, fresh frequency from 1.5 GHz up (the upper part of the 100 Hz code range) with the CFList DR range, fresh frequency 6..6, an existing standard frequency 6..6, frequency 0 (placeholder) 0..5, fresh frequency with an inverted DR range (accepted or refused, as the band chooses: a refused call changes nothing)} and Disable/Enable with index in {-1, 0, last standard, first custom, n-1, n} (fixed plans: {-1,0,7,8,15,16,63,64,71,72,95,96}); depth quick 4 / thorough 6 (fixed plans 3); canonical state = hook snapshot of both channel slices; successor = replay of the shortest path on a fresh instance + one op. The reference model (a Go slice of {freq,min,max,enabled,custom}) is stepped in lock-step: after every transition the op's error/no-error and the snapshot must equal the model; in every distinct state all observers are compared with the model (index sets and partitions, accessors with invalid indices, lookups by frequency and frequency+DR - also for the 32 single-bit neighbours of the first and last channel frequency -, GetCFList for 7 versions) and every frequency/DR/CFList the band produces is fed to the MAC encoders (RXParamSetupReq, NewChannelReq, DLChannelReq, PingSlotChannelReq, BeaconFreqReq, the LinkADRReqs planned for three device subsets, CFList in a join-accept) and decoded back."
	r.Rule += " E3 (schedules): one configured band object, new in every execution, read by two or three threads at once (channel lookups by frequency and by frequency + data-rate; a network server answers many devices from one band configuration): every interleaving of the instrumented accesses (preemption-bounded and unbounded with state-key pruning); every thread gets the answers it gets alone."
	mergeSchedSummary(r, "C15")
	bandConstructionStability(r)
	r.Assume("canonical state = both channel slices: every band method reads only these plus tables that are immutable after construction (argued in DESIGN.md A.2), so equal snapshots have equal futures")
	r.Assume("a custom channel with frequency 0 placed first makes the library offer no CFList at all; the property does not define that case: recorded, not judged")
	r.Assume("depth-bounded: 4 (quick) / 6 (thorough) operations; the five-entry CFList cap needs 6 additions and is reached in the thorough tier and by a directed deep history in both tiers; histories of 32 (thorough 36) operations are explored with a bounded number of deviations from two spines (deep-deviations)")

	for _, name := range bandNames {
		cfg := bandCfg{name, false, lorawan.DwellTimeNoLimit}
		env := &c15Env{cfg: cfg, init: snapOf(newBand(cfg))}
		depth := 4
		if r.Thorough() {
			depth = 6
		}
		if env.init.SupportsExtraChannels {
			for w := 0; w < 6; w++ {
				env.ops = append(env.ops, c15Op{name: fmt.Sprintf("Add#%d", w), kind: "add", which: w})
			}
			// whether AddChannel takes an inverted data-rate range is the band's choice; what the
			// property fixes is that a refused call leaves the plan as it was
			probe := newBand(cfg)
			f, lo, hi := env.addArgs(4, len(env.init.UplinkChannels))
			env.refusesInverted = probe.AddChannel(f, lo, hi) != nil
			for w := 0; w < 6; w++ {
				env.ops = append(env.ops, c15Op{name: "Disable", kind: "disable", which: w}, c15Op{name: "Enable", kind: "enable", which: w})
			}
		} else {
			depth = 3
			env.fixedIdx = []int{-1, 0, 7, 8, 15, 16, 63, 64, 71, 72, 95, 96}
			env.ops = append(env.ops, c15Op{name: "Add#0", kind: "add", which: 0})
			for w := range env.fixedIdx {
				env.ops = append(env.ops, c15Op{name: "Disable", kind: "disable", which: w}, c15Op{name: "Enable", kind: "enable", which: w})
			}
		}
		var xops []engine.XOp
		for i := range env.ops {
			i := i
			xops = append(xops, engine.XOp{Name: env.ops[i].name, Do: func(obj interface{}) string { return env.do(obj.(band.Band), i) }})
		}
		x := engine.XSpec{
			Name:  "band/" + string(name),
			New:   func() interface{} { return newBand(cfg) },
			Ops:   xops,
			Snap:  func(obj interface{}) string { return chanSnap(snapOf(obj.(band.Band))) },
			Warm:  bandWarm,
			Depth: depth,
			Check: func(c *engine.Case, obj interface{}, path []int, last string) {
				m, res := env.model(path)
				want := res[len(res)-1]
				reg := regionOf(cfg.name).Name
				if strings.HasPrefix(last, "panic:") {
					c.Fail("panic/"+strings.TrimPrefix(last, "panic:"), fmt.Sprintf("%v: %v panics", cfg.name, env.pathNames(path)), nil)
					return
				}
				if last != want {
					c.Fail(fmt.Sprintf("transition/%s/%s/result", reg, env.ops[path[len(path)-1]].kind), fmt.Sprintf("%v: %v returned %s, model %s", cfg.name, env.pathNames(path), last, want), nil)
				}
				if got := chanSnap(snapOf(obj.(band.Band))); got != m.render() {
					c.Fail(fmt.Sprintf("transition/%s/%s/state", reg, env.ops[path[len(path)-1]].kind), fmt.Sprintf("%v: after %v the channel tables are %s, model %s", cfg.name, env.pathNames(path), got, m.render()), nil)
				}
				c.Outcome("transition/" + last)
			},
			CheckState: func(c *engine.Case, obj interface{}, path []int) { env.checkState(c, obj.(band.Band), path) },
		}
		res := r.Explore(x)
		if r.Replay {
			continue
		}
		if name == band.EU868 {
			r.Extra("sample_search", map[string]interface{}{"band": name, "states": res.States, "transitions": res.Transitions, "max_depth": res.MaxDepth})
		}
		// directed deep history (both tiers): seven CFList-capable additions, so the
		// five-entry cap and a sixth/seventh custom channel are observed
		// far indices (values a narrowing conversion folds onto valid channel numbers): errors, never panics
		r.PartDims("far-indices/"+string(name), []string{fmt.Sprintf("far integers:%d", len(farInts())), "accessor{GetUplinkChannel, GetDownlinkChannel, Disable, Enable, GetTXPowerOffset, GetDataRate}"}, uint64(len(farInts())), func(c *engine.Case) {
			v := farInts()[c.Index]
			b := newBand(cfg)
			n := len(b.GetUplinkChannelIndices())
			if v >= 0 && v < n {
				c.Outcome("far-indices/in-range(skipped)")
				return
			}
			c.Eval()
			c.NonTrivial()
			calls := map[string]func() error{
				"GetUplinkChannel":          func() error { _, err := b.GetUplinkChannel(v); return err },
				"GetDownlinkChannel":        func() error { _, err := b.GetDownlinkChannel(v); return err },
				"DisableUplinkChannelIndex": func() error { return b.DisableUplinkChannelIndex(v) },
				"EnableUplinkChannelIndex":  func() error { return b.EnableUplinkChannelIndex(v) },
				"GetTXPowerOffset":          func() error { _, err := b.GetTXPowerOffset(v); return err },
				"GetDataRate":               func() error { _, err := b.GetDataRate(v); return err },
			}
			for _, nm := range []string{"GetUplinkChannel", "GetDownlinkChannel", "DisableUplinkChannelIndex", "EnableUplinkChannelIndex", "GetTXPowerOffset", "GetDataRate"} {
				var err error
				if pn, site, val := engine.Try(func() { err = calls[nm]() }); pn {
					c.Fail("panic/"+site, fmt.Sprintf("%v: %s(%d) panics: %v", name, nm, v, val), nil)
					continue
				}
				if err == nil {
					c.Fail("invalid-index-accepted/"+nm, fmt.Sprintf("%v: %s(%d) with %d channels succeeded", name, nm, v, n), nil)
				}
			}
		})
		if !env.init.SupportsExtraChannels {
			// directed block histories (both tiers): every pattern of whole 16-channel
			// blocks switched off by real Disable calls (a CFList with all-zero masks
			// between non-zero ones), checked like every other state
			first := len(env.ops)
			n := len(env.init.UplinkChannels)
			for i := 0; i < n; i++ {
				env.ops = append(env.ops, c15Op{name: fmt.Sprintf("DisableAt(%d)", i), kind: "disable", which: 1000 + i})
			}
			blocks := (n + 15) / 16
			r.PartDims("block-patterns/"+string(name), []string{fmt.Sprintf("16-channel blocks switched off: 2^%d", blocks)}, 1<<uint(blocks), func(c *engine.Case) {
				b := newBand(cfg)
				var path []int
				for blk := 0; blk < blocks; blk++ {
					if c.Index&(1<<uint(blk)) == 0 {
						continue
					}
					for i := blk * 16; i < (blk+1)*16 && i < n; i++ {
						env.do(b, first+i)
						path = append(path, first+i)
					}
				}
				env.checkState(c, b, path)
				c.Outcome("deep/block-pattern")
			})
		}
		if env.init.SupportsExtraChannels {
			r.Part("deep/"+string(name), 1, func(c *engine.Case) {
				b := newBand(cfg)
				var path []int
				for k := 0; k < 7; k++ {
					env.do(b, 0)
					path = append(path, 0)
					env.checkState(c, b, path)
				}
				c.Outcome("deep/7-custom-channels")
			})
			// long histories with a bounded number of deviations (the quantifier's "sequences up to
			// length ~30"; breadth-first search cannot reach them): a spine of L additions of one kind
			// (CFList-capable channels / channels with another data-rate range) in which one position
			// (thorough: two) is replaced by any other operation of the alphabet; every transition is
			// compared with the model, every state from the first deviation on is checked in full
			L := 32
			if r.Thorough() {
				L = 36
			}
			nOps := len(env.ops)
			type devPath struct {
				spine int
				pos   [2]int
				op    [2]int
			}
			var plans []devPath
			for spine := 0; spine < 2; spine++ {
				plans = append(plans, devPath{spine: spine, pos: [2]int{-1, -1}})
				for p1 := 0; p1 < L; p1++ {
					for o1 := 0; o1 < nOps; o1++ {
						if o1 == spine {
							continue
						}
						plans = append(plans, devPath{spine: spine, pos: [2]int{p1, -1}, op: [2]int{o1, 0}})
						if r.Thorough() {
							for p2 := p1 + 1; p2 < L; p2 += 6 {
								for o2 := 0; o2 < nOps && o2 < 8; o2++ {
									if o2 != spine {
										plans = append(plans, devPath{spine: spine, pos: [2]int{p1, p2}, op: [2]int{o1, o2}})
									}
								}
							}
						}
					}
				}
			}
			r.PartDims("deep-deviations/"+string(name), []string{"spine{Add#0 x L, Add#1 x L}", fmt.Sprintf("L=%d", L), fmt.Sprintf("deviation position x operation:%d x %d (thorough: two deviations, the second at every sixth later position over the first eight operations)", L, nOps-1)}, uint64(len(plans)), func(c *engine.Case) {
				pl := plans[c.Index]
				path := make([]int, L)
				for i := range path {
					path[i] = pl.spine
				}
				first := L
				for k := 0; k < 2; k++ {
					if pl.pos[k] >= 0 {
						path[pl.pos[k]] = pl.op[k]
						if pl.pos[k] < first {
							first = pl.pos[k]
						}
					}
				}
				if pl.pos[0] < 0 {
					first = 0 // the pure spine: every state
				}
				b := newBand(cfg)
				bandWarm(b)
				for i, o := range path {
					res := env.do(b, o)
					x.Check(c, b, path[:i+1], res)
					if i >= first {
						env.checkState(c, b, path[:i+1])
					}
					bandWarm(b)
				}
				c.Outcome("deep-deviations/history-completed")
			})
		}
	}
	if !r.Replay {
		r.Guard(r.OutcomeCount("deep/7-custom-channels") > 0 && r.OutcomeCount("cflist/channels=5") > 0, "a state with more than five custom channels reached and the CFList cap observed")
		r.Guard(r.OutcomeCount("transition/ok") > 0 && r.OutcomeCount("transition/err") > 0, "both accepted and refused operations explored")
		r.Guard(r.OutcomeCount("cflist/masks") > 0 && r.OutcomeCount("cflist/nil") > 0, "mask CFLists and absent CFLists observed")
	}
	r.Sample0(map[string]interface{}{"search": "band/EU868", "example_path": []string{"AddChannel(878100000+0.2k MHz,0,5)", "Disable(first custom)", "Enable(-1) -> error"}, "note": "every transition is executed on a fresh real band object by path replay"})
}

package props

import (
	"encoding/json"
	"fmt"
	"io/ioutil"
	"os"

	"verifmc/engine"
)

// SchedSummary is what the schedule explorer (cmd/schedcheck, built with the
// overlay) writes for the main check to merge into the property's evidence.
type SchedSummary struct {
	Property  string                   `json:"property"`
	Tier      string                   `json:"tier"`
	Scenarios []map[string]interface{} `json:"scenarios"`
	Schedules uint64                   `json:"schedules"`
	Points    uint64                   `json:"transitions"`
	Findings  []SchedFinding           `json:"findings"`
	Guards    []string                 `json:"guards_failed"`
	Overlay   interface{}              `json:"overlay_report"`
	AuxRace   string                   `json:"aux_race_pass,omitempty"`
	Error     string                   `json:"error,omitempty"`
}

// SchedFinding is one violation found under some schedule.
type SchedFinding struct {
	Key      string   `json:"key"`
	What     string   `json:"what"`
	Scenario string   `json:"scenario"`
	Choices  []int    `json:"choices"`
	Trace    []string `json:"trace"`
	Count    int      `json:"count"`
}

// mergeSchedSummary folds the schedule explorer's result (file named by
// VERIF_SCHED_SUMMARY) into the run: schedules count as states/transitions,
// findings become violations of the property (subject to known findings).
func mergeSchedSummary(r *engine.Run, prop string) {
	path := os.Getenv("VERIF_SCHED_SUMMARY")
	if r.Replay {
		return
	}
	if path == "" && os.Getenv("VERIF_SCHED_OPTIONAL") == "1" {
		// the overlay could not be built for this tree and the schedule scenarios of this
		// property are an addition to its enumerating parts: recorded, the rest is decided
		r.Extra("schedule_exploration", map[string]interface{}{"not_run": "the sync shim overlay could not be built for this tree (see the note printed by bin/check.sh)"})
		return
	}
	if path == "" {
		r.HarnessError("the schedule exploration part of %s did not run (VERIF_SCHED_SUMMARY not set; use bin/check.sh)", prop)
		return
	}
	b, err := ioutil.ReadFile(path)
	if err != nil {
		r.HarnessError("schedule summary: %v", err)
		return
	}
	var s SchedSummary
	if err := json.Unmarshal(b, &s); err != nil || s.Property != prop {
		r.HarnessError("schedule summary %s unreadable or for another property", path)
		return
	}
	if s.Error != "" {
		r.HarnessError("schedule explorer: %s", s.Error)
	}
	for _, g := range s.Guards {
		r.HarnessError("vacuity guard failed in the schedule explorer: %s", g)
	}
	// auxiliary free-running -race pass (thorough tier only)
	if rc := os.Getenv("VERIF_AUX_RACE_RC"); rc != "" {
		logb, _ := ioutil.ReadFile(os.Getenv("VERIF_AUX_RACE_LOG"))
		switch rc {
		case "0":
			s.AuxRace = "pass (400 free-running iterations of the harness bodies under the Go race detector)"
		case "66":
			s.AuxRace = "race reported"
			excerpt := string(logb)
			if len(excerpt) > 3000 {
				excerpt = excerpt[:3000]
			}
			r.Part("aux-race", 1, func(c *engine.Case) {
				c.Fail("aux-race/go-race-detector", "the Go race detector reports a data race in a free-running pass of the harness bodies: "+excerpt, nil)
			})
		default:
			s.AuxRace = "not conclusive (exit " + rc + ")"
		}
	}
	r.AddStates(s.Schedules, s.Points, s.Points)
	r.Extra("schedule_exploration", map[string]interface{}{"scenarios": s.Scenarios, "schedules": s.Schedules, "scheduling_points_executed": s.Points, "overlay_report": s.Overlay, "aux_race_pass": s.AuxRace})
	for _, f := range s.Findings {
		f := f
		r.Part("schedules/"+f.Scenario+"/"+f.Key, 1, func(c *engine.Case) {
			c.Fail("schedule/"+f.Key, fmt.Sprintf("scenario %s, schedule %v: %s", f.Scenario, f.Choices, f.What), map[string]interface{}{"trace": f.Trace, "choices": f.Choices, "count": f.Count})
		})
	}
	if len(s.Scenarios) > 0 {
		r.Sample0(map[string]interface{}{"schedule_scenario": s.Scenarios[0]})
	}
}

package props

import (
	"fmt"
	"reflect"
	"strings"

	"github.com/brocaar/lorawan"

	"verifmc/engine"
)

// History oracle (E2 with a differential oracle, no hand-written expected
// values): an alphabet of calls, every sequence of them up to a depth, all in
// one goroutine on values each call builds itself. Two things are compared on
// every sequence:
//
//   - history independence: what a call returns after any earlier calls is
//     what it returns when it is the only call made (cold caches, empty pools,
//     fresh receivers);
//   - result stability: what an earlier call returned, and its caller still
//     holds, is not changed by any later call.
//
// The alphabet includes calls the implementation refuses (error paths are
// where pooled scratch state is left dirty) and calls that share what
// realistic callers share (a receiver variable decoded into repeatedly, a key
// buffer overwritten in place, one payload object put into two frames).

// HOp is one call of an alphabet. Do performs it with values it builds itself
// (ctx carries what the calls of one sequence deliberately share) and returns
// everything the caller would keep; the harness keeps it alive until the end
// of the sequence.
type HOp struct {
	Name string
	Do   func(ctx HCtx) interface{}
}

// HCtx is the per-sequence store of deliberately shared values.
type HCtx map[string]interface{}

// hChecked is a result with a verdict of the call's own consistency check (a
// multi-step call such as encrypt-transfer-decrypt compares its end result
// with its input); a non-empty Problem is a violation wherever it occurs.
type hChecked struct {
	Result  interface{}
	Problem string
}

// hsnapper is implemented by results that know their observable form.
type hsnapper interface{ HSnap() string }

// pubPrint renders what a caller can observe of a value: exported fields only,
// pointers by pointee, slices by content, interfaces by dynamic type.
func pubPrint(v interface{}) string {
	var sb strings.Builder
	pubInto(&sb, reflect.ValueOf(v), 0)
	return sb.String()
}

func pubInto(sb *strings.Builder, rv reflect.Value, depth int) {
	if depth > 14 {
		sb.WriteString("<depth>")
		return
	}
	if !rv.IsValid() {
		sb.WriteString("<nil>")
		return
	}
	if rv.CanInterface() {
		if h, ok := rv.Interface().(hsnapper); ok && !(rv.Kind() == reflect.Ptr && rv.IsNil()) {
			sb.WriteString(h.HSnap())
			return
		}
		if e, ok := rv.Interface().(error); ok && !(rv.Kind() == reflect.Ptr && rv.IsNil()) && !(rv.Kind() == reflect.Interface && rv.IsNil()) {
			sb.WriteString("error(" + e.Error() + ")")
			return
		}
	}
	switch rv.Kind() {
	case reflect.Ptr:
		if rv.IsNil() {
			sb.WriteString("nil")
			return
		}
		sb.WriteString("&")
		pubInto(sb, rv.Elem(), depth+1)
	case reflect.Interface:
		if rv.IsNil() {
			sb.WriteString("nil")
			return
		}
		sb.WriteString(rv.Elem().Type().String())
		sb.WriteString(":")
		pubInto(sb, rv.Elem(), depth+1)
	case reflect.Struct:
		sb.WriteString(rv.Type().Name())
		sb.WriteString("{")
		for i := 0; i < rv.NumField(); i++ {
			if rv.Type().Field(i).PkgPath != "" {
				continue
			}
			sb.WriteString(rv.Type().Field(i).Name)
			sb.WriteString("=")
			pubInto(sb, rv.Field(i), depth+1)
			sb.WriteString(" ")
		}
		sb.WriteString("}")
	case reflect.Slice:
		if rv.IsNil() {
			sb.WriteString("nil[]")
			return
		}
		if rv.Type().Elem().Kind() == reflect.Uint8 {
			fmt.Fprintf(sb, "x%x", rv.Bytes())
			return
		}
		sb.WriteString("[")
		for i := 0; i < rv.Len(); i++ {
			if i > 0 {
				sb.WriteString(" ")
			}
			pubInto(sb, rv.Index(i), depth+1)
		}
		sb.WriteString("]")
	case reflect.Array:
		if rv.Type().Elem().Kind() == reflect.Uint8 {
			sb.WriteString("x")
			for i := 0; i < rv.Len(); i++ {
				fmt.Fprintf(sb, "%02x", rv.Index(i).Uint())
			}
			return
		}
		sb.WriteString("[")
		for i := 0; i < rv.Len(); i++ {
			if i > 0 {
				sb.WriteString(" ")
			}
			pubInto(sb, rv.Index(i), depth+1)
		}
		sb.WriteString("]")
	case reflect.Map:
		sb.WriteString(fmt.Sprintf("map(%d)", rv.Len()))
	case reflect.Func, reflect.Chan, reflect.UnsafePointer:
		sb.WriteString("<" + rv.Kind().String() + ">")
	case reflect.String:
		fmt.Fprintf(sb, "%q", rv.String())
	case reflect.Bool:
		fmt.Fprintf(sb, "%v", rv.Bool())
	case reflect.Int, reflect.Int8, reflect.Int16, reflect.Int32, reflect.Int64:
		fmt.Fprintf(sb, "%d", rv.Int())
	case reflect.Uint, reflect.Uint8, reflect.Uint16, reflect.Uint32, reflect.Uint64, reflect.Uintptr:
		fmt.Fprintf(sb, "%d", rv.Uint())
	case reflect.Float32, reflect.Float64:
		fmt.Fprintf(sb, "%g", rv.Float())
	default:
		fmt.Fprintf(sb, "<%s>", rv.Kind())
	}
}

func cut(s string, n int) string {
	if len(s) > n {
		return s[:n] + "..."
	}
	return s
}

// firstDiff points at the first differing position of two renderings.
func firstDiff(a, b string) string {
	i := 0
	for i < len(a) && i < len(b) && a[i] == b[i] {
		i++
	}
	lo := i - 40
	if lo < 0 {
		lo = 0
	}
	return fmt.Sprintf("at offset %d: ...%s  vs  ...%s", i, cut(a[lo:], 140), cut(b[lo:], 140))
}

// historyPart runs the alphabet alone (twice: a call that does not even agree
// with itself is reported) and then every sequence of 2..depth calls.
func historyPart(r *engine.Run, part string, ops []HOp, depth int) {
	n := len(ops)
	alone := make([]string, n)
	r.PartWorkers(part+"/alone", []string{fmt.Sprintf("call(%d)", n)}, uint64(n), 1, func(c *engine.Case) {
		c.Eval()
		c.NonTrivial()
		op := ops[c.Index]
		res := op.Do(HCtx{})
		if hc, ok := res.(*hChecked); ok && hc.Problem != "" {
			c.Fail("history/"+op.Name+"/inconsistent", fmt.Sprintf("call %s alone: %s", op.Name, hc.Problem), nil)
		}
		a := pubPrint(res)
		alone[c.Index] = a
		c.Outcome("alone")
	})
	if r.Replay && r.ReplayPart != part+"/alone" {
		// a replay of a sequence needs the reference results
		for i, op := range ops {
			alone[i] = pubPrint(op.Do(HCtx{}))
		}
	}
	var total uint64
	pow := uint64(n)
	var offs []uint64
	for k := 2; k <= depth; k++ {
		pow *= uint64(n)
		offs = append(offs, total)
		total += pow
	}
	r.PartDims(part+"/sequences", []string{fmt.Sprintf("call(%d)^2..%d", n, depth)}, total, func(c *engine.Case) {
		// decode the index into a sequence
		k := 2
		idx := c.Index
		for j := len(offs) - 1; j >= 0; j-- {
			if idx >= offs[j] {
				k = j + 2
				idx -= offs[j]
				break
			}
		}
		seq := make([]int, k)
		for j := k - 1; j >= 0; j-- {
			seq[j] = int(idx % uint64(n))
			idx /= uint64(n)
		}
		names := func() string {
			var s []string
			for _, o := range seq {
				s = append(s, ops[o].Name)
			}
			return strings.Join(s, " ; ")
		}
		ctx := HCtx{}
		res := make([]interface{}, k)
		snap := make([]string, k)
		for j, o := range seq {
			c.Eval()
			res[j] = ops[o].Do(ctx)
			snap[j] = pubPrint(res[j])
			if hc, ok := res[j].(*hChecked); ok && hc.Problem != "" {
				c.Fail("history/"+ops[o].Name+"/inconsistent", fmt.Sprintf("sequence [%s]: call %d: %s", names(), j+1, hc.Problem), nil)
			}
			if j > 0 {
				c.NonTrivial()
				if snap[j] != alone[o] {
					c.Fail("history/"+ops[o].Name+"/result-depends-on-earlier-calls", fmt.Sprintf("sequence [%s]: call %d returns something else than when it is the only call made, %s", names(), j+1, firstDiff(snap[j], alone[o])), map[string]string{"after_history": cut(snap[j], 2000), "alone": cut(alone[o], 2000)})
					c.Outcome("differs-from-alone")
				}
			}
		}
		for j := 0; j < k-1; j++ {
			if now := pubPrint(res[j]); now != snap[j] {
				c.Fail("history/"+ops[seq[j]].Name+"/result-changed-by-later-call", fmt.Sprintf("sequence [%s]: what call %d returned is different after the later calls, %s", names(), j+1, firstDiff(now, snap[j])), map[string]string{"when_returned": cut(snap[j], 2000), "after_later_calls": cut(now, 2000)})
				c.Outcome("earlier-result-changed")
			}
		}
		c.Outcome(fmt.Sprintf("sequences-of-%d", k))
	})
}

const historyRule = " History oracle (E2, differential): every sequence of calls of an alphabet up to a depth, in one goroutine, each call on values it builds itself (plus what realistic callers share: a reused receiver, one payload object in two frames); a call must return what it returns when it is the only call made, and what an earlier call returned must not change under later calls."

// frameHistory: the frame encode/decode alphabet (12 frame kinds x 6 calls + refused encodings).
func frameHistory(r *engine.Run, quickDepth int) {
	d := quickDepth
	if r.Thorough() {
		d = 3
	}
	r.Rule += historyRule + fmt.Sprintf(" (frames: sequences of <= %d calls)", d) + " Frame alphabet (sixteenth round: plus the MACPayload decoder called directly on one kept object, re-encoding to its input): encode, text-encode, decode, text-decode, decode into the sequence's reused receiver keeping a by-value copy, decode-then-edit-in-place, decode of a relayed copy, re-use of a decoded header for 17 frames of every kind (proprietary frames also in the lengths of a join-request and of both rejoin-requests) (two carry a proprietary MAC command registered for the part), and both encodings of 7 frames the encoder refuses (two of them after some of their commands have encoded); all sequences up to the stated depth."
	// a proprietary MAC command registered for the duration of the part (two frames of the alphabet carry it)
	if err := lorawan.RegisterProprietaryMACCommand(true, lorawan.CID(0x90), 2); err != nil {
		r.HarnessError("history/frames: registering the proprietary command failed: %v", err)
	}
	ops := hFrameOps()
	if refused := hRefusedGood; len(refused) > 0 {
		// every frame of the good alphabet is a specification-valid frame built from exported fields;
		// "down-empty" carries FCtrl bit 4 the way the decoder reports it (FPending and ClassB both
		// set), which only C08 (accepted frames re-encode) obliges the encoder to take
		r.Part("history/frames/alphabet", uint64(len(refused)), func(c *engine.Case) {
			c.Eval()
			f := refused[c.Index]
			if f[0] == "down-empty" && r.Prop != "C08" {
				c.Outcome("history/alphabet-frame-left-out")
				return
			}
			c.Fail("history/frames/encoder-refuses-valid-frame", fmt.Sprintf("frame %q of the alphabet (a valid frame, equal to what the decoder returns for its bytes) is refused by the encoder: %s", f[0], f[1]), nil)
		})
	}
	historyPart(r, "history/frames", ops, d)
	lorawan.VerifRegistryReset()
}

// cryptoHistory: the MIC / encryption alphabet.
func cryptoHistory(r *engine.Run) {
	d := 3
	if r.Thorough() {
		d = 4
	}
	r.Rule += historyRule + fmt.Sprintf(" Crypto alphabet: uplink/downlink data MICs in both MAC versions (ACK + ConfFCnt, equal and distinct integrity keys), join-request / rejoin / join-accept MICs in both forms, the same calls on frames the encoder refuses, EncryptFRMPayload (4 lengths, function and method), EncryptFOpts/DecryptFOpts on the same object and across the wire, join-accept encryption with repeated decryption of value copies (wrong key, then the right one), one payload object put into two frames; all sequences of <= %d calls.", d)
	historyPart(r, "history/crypto", hCryptoOps(), d)
}

package props

import (
	"bytes"
	"fmt"

	"github.com/brocaar/lorawan/applayer/fragmentation"

	"verifmc/engine"
	"verifmc/spec"
)

func init() { register("C19", "exploration", runC19) }

func runC19(r *engine.Run) {
	r.Rule = "E1. (a) fragment count M = 1..300 (all) x redundancy 100 with an identity-matrix data block (fragment i carries only bit i), so one Encode reveals all 100 parity-matrix lines, compared with the TS004 matrix_line transcribed independently (mc/spec/frag.go); (b) fragment size 1..64 x M in {1,2,3,7,8,9,31,32,33} x redundancy {0,1,5} x six data patterns (counting, 0xFF fill, a repeated 8-byte record, alternating zero / 0xFF rows, one byte per row, rows whose 8-byte words cancel under XOR): systematic part unchanged and in order, parity = XOR of the selected rows, linearity Encode(a^b) = Encode(a)^Encode(b); (c) for M <= 64 and every erasure pattern of <= 2 lost data fragments (all C(M,1)+C(M,2)) a GF(2) elimination decoder fed with the encoder's fragments recovers the block iff the specification's selection vectors have full rank; (d) invalid arguments (size 0, negative, non-dividing; redundancy -1, 0; empty data) give errors or empty parity, never a panic. Non-trivial: an Encode call whose output was compared with the specification's parity lines."
	c19History(r)
	r.Assume("data contents are identity / counting / patterned blocks: the encoder is linear over XOR (checked), so basis vectors determine it")

	r.PartDims("matrix-lines", []string{"fragment count M:1..300", "parity index:1..100 (one Encode)"}, 300, func(c *engine.Case) {
		m := int(c.Index) + 1
		size := (m + 7) / 8
		data := make([]byte, m*size)
		for i := 0; i < m; i++ {
			data[i*size+i/8] = 1 << uint(i%8)
		}
		orig := append([]byte(nil), data...)
		frags, err := fragmentation.Encode(data, size, 100)
		if err != nil {
			c.Fail("encode-refuses-valid-arguments", fmt.Sprintf("M=%d size=%d: %v", m, size, err), nil)
			return
		}
		if !bytes.Equal(data, orig) {
			c.Fail("encode-modifies-input", fmt.Sprintf("M=%d", m), nil)
		}
		if len(frags) != m+100 {
			c.Fail("fragment-count", fmt.Sprintf("M=%d redundancy=100: %d fragments", m, len(frags)), nil)
			return
		}
		c.NonTrivial()
		for i := 0; i < m; i++ {
			if !bytes.Equal(frags[i], orig[i*size:(i+1)*size]) {
				c.Fail("not-systematic", fmt.Sprintf("M=%d: data fragment %d changed", m, i), nil)
				return
			}
		}
		for p := 1; p <= 100; p++ {
			c.Eval()
			line := spec.MatrixLine(p, m)
			want := make([]byte, size)
			for i, sel := range line {
				if sel {
					want[i/8] |= 1 << uint(i%8)
				}
			}
			if !bytes.Equal(frags[m+p-1], want) {
				kind := "non-power-of-two"
				if m&(m-1) == 0 {
					kind = "power-of-two"
				}
				c.Fail("parity-line/"+kind, fmt.Sprintf("M=%d parity %d selects %x, TS004 matrix_line gives %x", m, p, frags[m+p-1], want), nil)
				return
			}
		}
		if m&(m-1) == 0 {
			c.Outcome("M/power-of-two")
		} else {
			c.Outcome("M/non-power-of-two")
		}
		if c.WantSample() && m > 8 {
			c.Sample(func() interface{} {
				return map[string]interface{}{"part": "matrix-lines", "M": m, "parity_1_selection_bits": fmt.Sprintf("%x", frags[m])}
			})
		}
	})

	// a refused call between two valid ones: Encode(w1 fragments), Encode(refused: a length that does not
	// divide, floor(len/size) = w2; or size 0 / negative), Encode(w2 fragments): the third call's parity is
	// the specification's for w2 whatever the refused call left behind. One worker: what is left behind is
	// process state.
	ws := []int{2, 5, 7, 8, 9, 12, 16, 33}
	r.PartWorkers("refused-between-valid", []string{fmt.Sprintf("w1:%d", len(ws)), fmt.Sprintf("w2:%d", len(ws)), "fragment size{2,5}", "refused call{non-dividing length, size 0, size -1}"}, uint64(len(ws)*len(ws)*2*3), 1, func(c *engine.Case) {
		i := int(c.Index)
		w1, w2 := ws[i%len(ws)], ws[(i/len(ws))%len(ws)]
		i /= len(ws) * len(ws)
		size := []int{2, 5}[i%2]
		kind := i / 2
		block := func(w int) []byte {
			b := make([]byte, w*size)
			for k := range b {
				b[k] = byte(k*11 + w)
			}
			return b
		}
		const red = 6
		c.Eval()
		if _, err := fragmentation.Encode(block(w1), size, red); err != nil {
			c.Fail("encode-refuses-valid-arguments", fmt.Sprintf("M=%d size=%d: %v", w1, size, err), nil)
			return
		}
		var refusedErr error
		switch kind {
		case 0:
			_, refusedErr = fragmentation.Encode(append(block(w2), 0xEE), size, red)
		case 1:
			_, refusedErr = fragmentation.Encode(block(w2), 0, red)
		default:
			_, refusedErr = fragmentation.Encode(block(w2), -1, red)
		}
		if refusedErr == nil {
			c.Fail("invalid-arguments-accepted", fmt.Sprintf("refused-call kind %d with %d fragments of %d bytes returned no error", kind, w2, size), nil)
		}
		data := block(w2)
		var frags [][]byte
		var err error
		if pn, site, v := engine.Try(func() { frags, err = fragmentation.Encode(append([]byte(nil), data...), size, red) }); pn {
			c.Fail("panic/"+site, fmt.Sprintf("Encode(%d fragments of %d bytes) after Encode(%d fragments) and a refused call panics: %v", w2, size, w1, v), nil)
			return
		}
		if err != nil || len(frags) != w2+red {
			c.Fail("refused-between-valid/result", fmt.Sprintf("Encode(%d fragments of %d bytes) after Encode(%d fragments) and a refused call: %d fragments, err %v", w2, size, w1, len(frags), err), nil)
			return
		}
		c.NonTrivial()
		for p := 1; p <= red; p++ {
			want := make([]byte, size)
			for k, sel := range spec.MatrixLine(p, w2) {
				if sel {
					for b := 0; b < size; b++ {
						want[b] ^= data[k*size+b]
					}
				}
			}
			if !bytes.Equal(frags[w2+p-1], want) {
				c.Fail("refused-between-valid/parity", fmt.Sprintf("Encode(%d fragments of %d bytes) after Encode(%d fragments) and a refused call (err %v): parity fragment %d is %x, specification %x", w2, size, w1, refusedErr, p, frags[w2+p-1], want), nil)
				return
			}
		}
	})

	ms := []int{1, 2, 3, 7, 8, 9, 31, 32, 33}
	reds := []int{0, 1, 5}
	sp := (&engine.Space{}).Dim("fragment size(1..64)", 64).Dim("M", len(ms)).Dim("redundancy", len(reds)).Dim("data pattern{counting,0xFF fill,8-byte record,zero/FF rows,one byte per row,word-symmetric rows}", 6)
	r.PartDims("systematic-linear", sp.Desc(), sp.N(), func(c *engine.Case) {
		var ch [4]int
		sp.Decode(c.Index, ch[:])
		size, m, red := ch[0]+1, ms[ch[1]], reds[ch[2]]
		a := make([]byte, m*size)
		b := make([]byte, m*size)
		x := make([]byte, m*size)
		for i := range a {
			row, col := i/size, i%size
			switch ch[3] {
			case 0:
				a[i] = byte(i*13 + 1)
			case 1:
				a[i] = 0xFF // erased flash
			case 2:
				a[i] = []byte{0xDE, 0xAD, 0xBE, 0xEF, 0x01, 0x02, 0x03, 0x04}[col%8] // a repeated 8-byte record
			case 3:
				if row%2 == 1 {
					a[i] = 0xFF
				}
			case 4:
				if col == row%size {
					a[i] = byte(row + 1)
				}
			case 5:
				a[i] = byte(0x10 + (col%16)/2 + row) // every 16-byte group repeats its first half pairwise
				if col%16 >= 8 {
					a[i] = a[i-8]
				}
			}
			b[i] = byte(0xA5 ^ i*7)
			x[i] = a[i] ^ b[i]
		}
		fa, err1 := fragmentation.Encode(append([]byte(nil), a...), size, red)
		fb, err2 := fragmentation.Encode(append([]byte(nil), b...), size, red)
		fx, err3 := fragmentation.Encode(append([]byte(nil), x...), size, red)
		if err1 != nil || err2 != nil || err3 != nil {
			c.Fail("encode-refuses-valid-arguments", fmt.Sprintf("size=%d M=%d redundancy=%d: %v %v %v", size, m, red, err1, err2, err3), nil)
			return
		}
		c.NonTrivial()
		if len(fa) != m+red {
			c.Fail("fragment-count", fmt.Sprintf("size=%d M=%d redundancy=%d: %d fragments", size, m, red, len(fa)), nil)
			return
		}
		for i := range fa {
			if len(fa[i]) != size {
				c.Fail("fragment-size", fmt.Sprintf("fragment %d has %d bytes, expected %d", i, len(fa[i]), size), nil)
				return
			}
			if i < m && !bytes.Equal(fa[i], a[i*size:(i+1)*size]) {
				c.Fail("not-systematic", fmt.Sprintf("size=%d M=%d: data fragment %d changed", size, m, i), nil)
			}
			if i >= m {
				want := make([]byte, size)
				for k, sel := range spec.MatrixLine(i-m+1, m) {
					if sel {
						for q := 0; q < size; q++ {
							want[q] ^= a[k*size+q]
						}
					}
				}
				if !bytes.Equal(fa[i], want) {
					c.Fail("parity-content", fmt.Sprintf("size=%d M=%d parity %d: %x, expected %x", size, m, i-m+1, fa[i], want), nil)
				}
			}
			for q := 0; q < size; q++ {
				if fx[i][q] != fa[i][q]^fb[i][q] {
					c.Fail("not-linear", fmt.Sprintf("size=%d M=%d fragment %d", size, m, i), nil)
					return
				}
			}
		}
	})

	// large blocks (an implementation may switch strategy with the amount of work) and high
	// redundancy (parity indices beyond 8- and 16-bit arithmetic on 1+1001*n)
	lbM := []int{64, 128, 257, 300}
	lbSize := []int{3, 16, 64}
	lbRed := []int{1, 2, 3, 5, 7, 10, 66, 67, 99, 100, 130}
	spL := (&engine.Space{}).Dim("M", len(lbM)).Dim("fragment size", len(lbSize)).Dim("redundancy", len(lbRed))
	r.PartDims("large-blocks", spL.Desc(), spL.N(), func(c *engine.Case) {
		var ch [3]int
		spL.Decode(c.Index, ch[:])
		m, size, red := lbM[ch[0]], lbSize[ch[1]], lbRed[ch[2]]
		data := make([]byte, m*size)
		for i := range data {
			data[i] = byte(i*31 + i/size + 7)
		}
		c.Eval()
		frags, err := fragmentation.Encode(append([]byte(nil), data...), size, red)
		if err != nil || len(frags) != m+red {
			c.Fail("encode-refuses-valid-arguments", fmt.Sprintf("size=%d M=%d redundancy=%d: %d fragments, err %v", size, m, red, len(frags), err), nil)
			return
		}
		c.NonTrivial()
		for y := 1; y <= red; y++ {
			want := make([]byte, size)
			for k, sel := range spec.MatrixLine(y, m) {
				if sel {
					for q := 0; q < size; q++ {
						want[q] ^= data[k*size+q]
					}
				}
			}
			if !bytes.Equal(frags[m+y-1], want) {
				c.Fail("parity-content/large-block", fmt.Sprintf("size=%d M=%d redundancy=%d parity %d: %x, expected %x", size, m, red, y, frags[m+y-1], want), nil)
				return
			}
		}
		c.Outcome("large-block/ok")
	})

	// decoder: every erasure pattern of <= 2 lost data fragments
	r.PartDims("erasure-decoding", []string{"M:1..64", "erasure patterns: C(M,0)+C(M,1)+C(M,2)", "parity received: 8"}, 64, func(c *engine.Case) {
		m := int(c.Index) + 1
		const size, red = 4, 8
		data := make([]byte, m*size)
		for i := range data {
			data[i] = byte(i*31 + 7)
		}
		frags, err := fragmentation.Encode(append([]byte(nil), data...), size, red)
		if err != nil || len(frags) != m+red {
			c.Fail("encode-refuses-valid-arguments", fmt.Sprintf("M=%d: %v", m, err), nil)
			return
		}
		unit := func(i int) []bool { v := make([]bool, m); v[i] = true; return v }
		try := func(lost1, lost2 int) {
			c.Eval()
			var rows [][]bool
			var recv [][]byte
			for i := 0; i < m; i++ {
				if i == lost1 || i == lost2 {
					continue
				}
				rows = append(rows, unit(i))
				recv = append(recv, frags[i])
			}
			for p := 1; p <= red; p++ {
				rows = append(rows, spec.MatrixLine(p, m))
				recv = append(recv, frags[m+p-1])
			}
			got, ok := spec.SolveGF2(m, rows, recv)
			if !ok {
				c.Outcome("erasure/rank-deficient(nothing to recover)")
				return
			}
			c.NonTrivial()
			c.Outcome("erasure/recovered")
			for i := 0; i < m; i++ {
				if !bytes.Equal(got[i], data[i*size:(i+1)*size]) {
					c.Fail("decoder-recovers-wrong-block", fmt.Sprintf("M=%d lost data fragments (%d,%d): fragment %d recovered as %x, original %x", m, lost1, lost2, i, got[i], data[i*size:(i+1)*size]), nil)
					return
				}
			}
		}
		try(-1, -1)
		for i := 0; i < m; i++ {
			try(i, -1)
			for j := i + 1; j < m; j++ {
				try(i, j)
			}
		}
	})

	// invalid arguments
	type inv struct {
		name      string
		n, size   int
		red       int
		wantError bool
	}
	invs := []inv{
		{"size-0", 10, 0, 5, true}, {"size--1", 10, -1, 5, true}, {"size--8", 16, -8, 5, true}, {"size--5-dividing", 10, -5, 2, true},
		{"non-dividing", 10, 3, 5, true}, {"non-dividing-larger-than-data", 4, 8, 1, true},
		{"redundancy--1", 10, 5, -1, false}, {"redundancy-0", 10, 5, 0, false}, {"empty-data", 0, 5, 3, false}, {"empty-data-size-0", 0, 0, 3, true},
	}
	r.PartDims("invalid-arguments", []string{fmt.Sprintf("cases:%d", len(invs))}, uint64(len(invs)), func(c *engine.Case) {
		iv := invs[c.Index]
		data := fillBytes(iv.n, 0x42)
		var frags [][]byte
		var err error
		if pn, site, v := engine.Try(func() { frags, err = fragmentation.Encode(data, iv.size, iv.red) }); pn {
			c.Fail("panic/"+site+"/"+iv.name, fmt.Sprintf("Encode(%d bytes, fragmentSize %d, redundancy %d) panics: %v", iv.n, iv.size, iv.red, v), nil)
			return
		}
		c.NonTrivial()
		if iv.wantError && err == nil {
			c.Fail("invalid-size-accepted/"+iv.name, fmt.Sprintf("Encode(%d bytes, fragmentSize %d, redundancy %d) returned %d fragments without error", iv.n, iv.size, iv.red, len(frags)), nil)
		}
		if !iv.wantError && err == nil && iv.size > 0 && iv.red <= 0 && len(frags) != iv.n/iv.size {
			c.Fail("fragment-count", fmt.Sprintf("%s: %d fragments", iv.name, len(frags)), nil)
		}
		c.Outcome("invalid/" + iv.name)
	})

	r.Guard(r.OutcomeCount("M/power-of-two") == 9 && r.OutcomeCount("M/non-power-of-two") == 291, "all 9 power-of-two and 291 other fragment counts compared")
	r.Guard(r.OutcomeCount("erasure/recovered") > 0 && r.OutcomeCount("erasure/rank-deficient(nothing to recover)") > 0, "erasure patterns with and without full rank observed")
}

// c19History: Encode on buffers a session reuses. The data slice is a prefix of
// a larger buffer (spare capacity, stale bytes behind it); the same buffer is
// encoded repeatedly; nothing outside data[:len] may be written and the
// fragments are those of an independent encoding of the same bytes.
func c19History(r *engine.Run) {
	type shape struct{ size, frag, red int }
	shapes := []shape{{40, 10, 4}, {40, 10, 10}, {64, 16, 3}, {30, 5, 8}, {9, 3, 2}}
	var ops []HOp
	for _, sh := range shapes {
		for _, reuse := range []bool{false, true} {
			for _, fill := range []byte{0x00, 0xC3} {
				sh, reuse, fill := sh, reuse, fill
				ops = append(ops, HOp{fmt.Sprintf("Encode(size=%d,frag=%d,red=%d,session-buffer=%v,fill=%02x)", sh.size, sh.frag, sh.red, reuse, fill), func(ctx HCtx) interface{} {
					var arena []byte
					if reuse {
						arena, _ = ctx["arena"].([]byte)
					}
					if arena == nil {
						arena = make([]byte, 1024)
						for i := range arena {
							arena[i] = 0xEE
						}
						if reuse {
							ctx["arena"] = arena
						}
					}
					data := arena[:sh.size]
					for i := range data {
						data[i] = fill + byte(i*3)
					}
					before := append([]byte(nil), arena...)
					frags, err := fragmentation.Encode(data, sh.frag, sh.red)
					problem := ""
					if !bytes.Equal(arena, before) {
						problem = "Encode wrote to its argument or behind its end (spare capacity of the caller's buffer)"
					}
					// independent encoding: data rows, then parity rows as XOR of the rows matrix_line selects
					m := sh.size / sh.frag
					if err == nil && problem == "" {
						if len(frags) != m+sh.red {
							problem = fmt.Sprintf("%d fragments, expected %d", len(frags), m+sh.red)
						}
						for y := 1; y <= sh.red && problem == ""; y++ {
							want := make([]byte, sh.frag)
							for i, bit := range spec.MatrixLine(y, m) {
								if bit {
									for k := 0; k < sh.frag; k++ {
										want[k] ^= before[i*sh.frag+k]
									}
								}
							}
							if !bytes.Equal(frags[m+y-1], want) {
								problem = fmt.Sprintf("parity fragment %d is %x, expected %x", y, frags[m+y-1], want)
							}
						}
					}
					// the data fragments are sub-slices of the caller's buffer (no copy is
					// promised): the caller transmits them before it reuses the buffer, so
					// what is kept here is their content at return time
					sent := make([][]byte, len(frags))
					for i := range frags {
						sent[i] = append([]byte(nil), frags[i]...)
					}
					return &hChecked{[]interface{}{sent, errS(err)}, problem}
				}})
			}
		}
	}
	r.Rule += historyRule + " Fragmentation alphabet: Encode of 5 (size, fragment size, redundancy) shapes x 2 contents, on a fresh 1 KiB buffer or on the sequence's session buffer (data is a prefix with spare capacity and stale bytes behind it), each compared with an independent encoding and with the buffer before the call; all sequences of <= 3 calls."
	historyPart(r, "history/encode", ops, 3)
}

package props

import (
	"fmt"
	"sort"
	"strings"

	"github.com/brocaar/lorawan"
	"github.com/brocaar/lorawan/band"

	"verifmc/engine"
	"verifmc/spec"
)

// bandCfg is one band configuration.
type bandCfg struct {
	name band.Name
	rep  bool
	dt   lorawan.DwellTime
}

func (c bandCfg) String() string {
	return fmt.Sprintf("%s/repeater=%v/dwell400=%v", c.name, c.rep, c.dt == lorawan.DwellTime400ms)
}

var bandNames = []band.Name{band.EU868, band.US915, band.CN779, band.EU433, band.AU915, band.CN470, band.AS923, band.AS923_2, band.AS923_3, band.AS923_4, band.KR920, band.IN865, band.RU864, band.ISM2400}
var bandAliases = []band.Name{band.AS_923, band.AU_915_928, band.CN_470_510, band.CN_779_787, band.EU_433, band.EU_863_870, band.IN_865_867, band.KR_920_923, band.US_902_928, band.RU_864_870}

// allBandCfgs lists every configuration (names, optionally deprecated aliases).
func allBandCfgs(aliases bool) []bandCfg {
	var out []bandCfg
	names := append([]band.Name(nil), bandNames...)
	if aliases {
		names = append(names, bandAliases...)
	}
	for _, n := range names {
		for _, rep := range []bool{false, true} {
			for _, dt := range []lorawan.DwellTime{lorawan.DwellTimeNoLimit, lorawan.DwellTime400ms} {
				out = append(out, bandCfg{n, rep, dt})
			}
		}
	}
	return out
}

// regionOf maps a band name (or alias) to the specification's region.
func regionOf(n band.Name) spec.Region {
	switch n {
	case band.AS923, band.AS_923:
		return spec.AS923(0)
	case band.AS923_2:
		return spec.AS923(-1800000)
	case band.AS923_3:
		return spec.AS923(-6600000)
	case band.AS923_4:
		return spec.AS923(-5900000)
	case band.AU915, band.AU_915_928:
		return spec.Regions["AU915"]
	case band.CN470, band.CN_470_510:
		return spec.Regions["CN470"]
	case band.CN779, band.CN_779_787:
		return spec.Regions["CN779"]
	case band.EU433, band.EU_433:
		return spec.Regions["EU433"]
	case band.EU868, band.EU_863_870:
		return spec.Regions["EU868"]
	case band.IN865, band.IN_865_867:
		return spec.Regions["IN865"]
	case band.KR920, band.KR_920_923:
		return spec.Regions["KR920"]
	case band.US915, band.US_902_928:
		return spec.Regions["US915"]
	case band.RU864, band.RU_864_870:
		return spec.Regions["RU864"]
	case band.ISM2400:
		return spec.Regions["ISM2400"]
	}
	panic("unknown band " + string(n))
}

func newBand(c bandCfg) band.Band {
	b, err := band.GetConfig(c.name, c.rep, c.dt)
	if err != nil {
		panic(fmt.Sprintf("GetConfig(%v): %v", c, err))
	}
	return b
}

func snapOf(b band.Band) band.VerifBandSnapshot {
	s, ok := band.VerifSnapshot(b)
	if !ok {
		panic("band snapshot hook not available")
	}
	return s
}

func sortedKeys(m map[int]band.VerifDataRate) []int {
	var ks []int
	for k := range m {
		ks = append(ks, k)
	}
	sort.Ints(ks)
	return ks
}

// chanSnap renders the channel tables canonically (the E2 state of a band).
func chanSnap(s band.VerifBandSnapshot) string {
	var sb strings.Builder
	for _, c := range s.UplinkChannels {
		fmt.Fprintf(&sb, "u%d:%d-%d:%v:%v;", c.Frequency, c.MinDR, c.MaxDR, c.Enabled, c.Custom)
	}
	sb.WriteString("|")
	for _, c := range s.DownlinkChannels {
		fmt.Fprintf(&sb, "d%d:%d-%d:%v:%v;", c.Frequency, c.MinDR, c.MaxDR, c.Enabled, c.Custom)
	}
	return sb.String()
}

func intsEq(a, b []int) bool {
	if len(a) != len(b) {
		return false
	}
	for i := range a {
		if a[i] != b[i] {
			return false
		}
	}
	return true
}

// farInts: integers far outside every table, chosen so that a narrowing
// conversion (to 8, 16 or 32 bits, signed or unsigned) maps them onto small
// valid indices: +-2^k + {0..7} and +-2^k - 1 for k = 8, 16, 32, plus the type's extremes.
func farInts() []int {
	var out []int
	for _, k := range []uint{8, 16, 32} {
		for d := 0; d < 8; d++ {
			out = append(out, 1<<k+d, -(1<<k)+d, 1<<(k-1)+d)
		}
		out = append(out, 1<<k-1, -(1<<k)-1)
	}
	out = append(out, int(^uint(0)>>1), -int(^uint(0)>>1)-1, 1<<62, 255, 256*3+1)
	return out
}

// bandConstructionStability: a band configuration is a value of the Regional Parameters; 64 objects
// built for the same (name, repeater, dwell-time) are indistinguishable - their hook snapshots (all
// tables and channel lists) print alike. A table assembled in an order the runtime randomises (map
// iteration) comes out differently in some constructions, which a single construction per
// configuration sees only with that probability.
func bandConstructionStability(r *engine.Run) {
	cfgs := allBandCfgs(true)
	const builds = 64
	r.Rule += fmt.Sprintf(" Construction stability: every configuration (%d) built %d times, the hook snapshots compared.", len(cfgs), builds)
	r.PartDims("construction-stability", []string{fmt.Sprintf("config:%d", len(cfgs)), fmt.Sprintf("constructions:%d", builds)}, uint64(len(cfgs)), func(c *engine.Case) {
		cfg := cfgs[c.Index]
		first := deepPrint(snapOf(newBand(cfg)))
		c.NonTrivial()
		for k := 1; k < builds; k++ {
			c.Eval()
			if got := deepPrint(snapOf(newBand(cfg))); got != first {
				d := firstDiff(first, got)
				c.Fail(fmt.Sprintf("construction/%s/instances-of-one-configuration-differ", regionOf(cfg.name).Name), fmt.Sprintf("%v: construction number %d differs from the first one: %s", cfg, k+1, d), nil)
				return
			}
		}
		c.Outcome("construction-stability/identical")
	})
}

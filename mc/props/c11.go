package props

import (
	"bytes"
	"database/sql/driver"
	"encoding/binary"
	"encoding/hex"
	"fmt"
	"strings"

	"github.com/brocaar/lorawan"

	"verifmc/engine"
)

// dbValue is what database/sql does with a query argument: a value of the type is a driver.Valuer
// (decided at run time, so that the check builds whatever the receiver kind of Value() is).
func dbValue(v interface{}) (driver.Value, error) {
	if val, ok := v.(driver.Valuer); ok {
		return val.Value()
	}
	return nil, fmt.Errorf("a value of type %T is not a driver.Valuer: it cannot be passed as a query argument", v)
}

func init() { register("C11", "exploration", runC11) }

var c11NwkIDBits = [8]uint{6, 6, 9, 11, 12, 13, 15, 17}

// specAddr computes the LoRaWAN addressing rule: type prefix (type ones and a
// zero), NwkID = low-order bits of the NetID, NwkAddr bits untouched.
func specAddr(netID uint32, old uint32) (addr uint32, typ uint, prefixLen uint, nwkBits uint) {
	typ = uint(netID>>21) & 7
	prefixLen = typ + 1
	nwkBits = c11NwkIDBits[typ]
	addrBits := 32 - prefixLen - nwkBits
	prefix := (uint32(0xFF) << (8 - typ)) & 0xFF // typ ones followed by zeros in the top byte
	nwkID := netID & (1<<nwkBits - 1)
	addr = prefix<<24 | nwkID<<addrBits | old&(1<<addrBits-1)
	return
}

func runC11(r *engine.Run) {
	r.Rule = "E1 product enumeration: NetID x DevAddr through SetAddrPrefix/IsNetID/NwkID/NetIDType against the addressing rule written from the specification (quick: per type every value of the low (NwkID width+2) ID bits with the remaining ID bits all-zero and all-one; thorough: all 2^24 NetIDs), each with 40 previous addresses (every type prefix x four fillings of the remaining bits); IsNetID additionally on every single-bit flip of the result. Identifier representations: position-distinct values and per-position byte sweeps through text/binary/Value/Scan, and wrong-length / malformed inputs. Non-trivial: a (NetID, DevAddr) pair whose result was compared with the rule; every pair is distinct by construction of the product."
	c11History(r)
	r.Assume("DevAddr dimension is a 40-value alphabet (every type prefix 0..7 and none x remaining bits all-one, both alternating patterns, all-zero; four mixed values)")

	// previous addresses: every type prefix (0..7 and the all-ones "no type" prefix) x NwkID/NwkAddr bits
	// all-one, both alternating patterns and all-zero, plus a few mixed values: which of the old bits
	// survive must not depend on the type the old address happened to have
	devAddrs := []uint32{0x01020304, 0x12345678, 0x00FFFFFF, 0x0000007F}
	for t := uint(0); t <= 8; t++ {
		n := t + 1 // prefix length: t ones and a zero
		if t == 8 {
			n = 8
		}
		prefix := uint32(0xFF) << (8 - t) & 0xFF << 24 // t leading ones
		rest := uint32(1)<<(32-n) - 1
		for _, fill := range []uint32{0xFFFFFFFF, 0xAAAAAAAA, 0x55555555, 0} {
			devAddrs = append(devAddrs, prefix|fill&rest)
		}
	}

	checkPair := func(c *engine.Case, nid uint32, old uint32) {
		c.Eval()
		c.NonTrivial()
		netID := lorawan.NetID{byte(nid >> 16), byte(nid >> 8), byte(nid)}
		var a lorawan.DevAddr
		binary.BigEndian.PutUint32(a[:], old)
		a.SetAddrPrefix(netID)
		got := binary.BigEndian.Uint32(a[:])
		want, typ, prefixLen, nwkBits := specAddr(nid, old)
		if netID.Type() != int(typ) {
			c.Fail(fmt.Sprintf("netid/type/%d", typ), fmt.Sprintf("NetID %06x: Type()=%d, spec %d", nid, netID.Type(), typ), nil)
		}
		if got != want {
			c.Fail(fmt.Sprintf("setaddrprefix/type%d", typ), fmt.Sprintf("NetID %06x, previous DevAddr %08x: got %08x, addressing rule gives %08x", nid, old, got, want), nil)
			return
		}
		if a.NetIDType() != int(typ) {
			c.Fail(fmt.Sprintf("devaddr/netidtype/%d", typ), fmt.Sprintf("DevAddr %08x: NetIDType()=%d, spec %d", got, a.NetIDType(), typ), nil)
		}
		// NwkID(): big-endian bytes of the NwkID field, ceil(bits/8) long
		addrBits := 32 - prefixLen - nwkBits
		nwk := (want >> addrBits) & (1<<nwkBits - 1)
		wb := make([]byte, 4)
		binary.BigEndian.PutUint32(wb, nwk)
		wb = wb[4-(nwkBits+7)/8:]
		if !bytes.Equal(a.NwkID(), wb) {
			c.Fail(fmt.Sprintf("devaddr/nwkid/type%d", typ), fmt.Sprintf("DevAddr %08x: NwkID()=%x, spec %x", got, a.NwkID(), wb), nil)
		}
		if !a.IsNetID(netID) {
			c.Fail(fmt.Sprintf("isnetid/false-on-own-prefix/type%d", typ), fmt.Sprintf("DevAddr %08x NetID %06x", got, nid), nil)
		}
		// the previous address itself: membership iff prefix and NwkID already match
		var o lorawan.DevAddr
		binary.BigEndian.PutUint32(o[:], old)
		if o.IsNetID(netID) != (old>>addrBits == want>>addrBits) {
			c.Fail(fmt.Sprintf("isnetid/type%d", typ), fmt.Sprintf("DevAddr %08x NetID %06x: IsNetID=%v", old, nid, o.IsNetID(netID)), nil)
		}
	}
	checkFlips := func(c *engine.Case, nid uint32, old uint32) {
		netID := lorawan.NetID{byte(nid >> 16), byte(nid >> 8), byte(nid)}
		want, typ, prefixLen, nwkBits := specAddr(nid, old)
		addrBits := 32 - prefixLen - nwkBits
		for bit := uint(0); bit < 32; bit++ {
			c.Eval()
			var f lorawan.DevAddr
			binary.BigEndian.PutUint32(f[:], want^(1<<bit))
			member := f.IsNetID(netID)
			if bit < addrBits && !member {
				c.Fail(fmt.Sprintf("isnetid/nwkaddr-bit-changes-membership/type%d", typ), fmt.Sprintf("NetID %06x DevAddr %08x with NwkAddr bit %d flipped is not a member", nid, want, bit), nil)
			}
			if bit >= addrBits && member {
				c.Fail(fmt.Sprintf("isnetid/prefix-or-nwkid-bit-ignored/type%d", typ), fmt.Sprintf("NetID %06x DevAddr %08x with bit %d flipped is still a member", nid, want, bit), nil)
			}
		}
		// NetID ID bits above the NwkID width must not matter, those inside must
		for bit := uint(0); bit < 21; bit++ {
			c.Eval()
			n2 := nid ^ (1 << bit)
			netID2 := lorawan.NetID{byte(n2 >> 16), byte(n2 >> 8), byte(n2)}
			var f lorawan.DevAddr
			binary.BigEndian.PutUint32(f[:], want)
			member := f.IsNetID(netID2)
			if (bit < nwkBits) == member {
				c.Fail(fmt.Sprintf("isnetid/netid-bit/type%d", typ), fmt.Sprintf("DevAddr %08x (from NetID %06x) vs NetID %06x (ID bit %d flipped, NwkID width %d): IsNetID=%v", want, nid, n2, bit, nwkBits, member), nil)
			}
		}
	}

	if r.Thorough() {
		r.PartDims("prefix/all-netids", []string{"netid:2^24 (blocks of 256)", "devaddr:16"}, 1<<16, func(c *engine.Case) {
			for lo := uint32(0); lo < 256; lo++ {
				nid := uint32(c.Index)<<8 | lo
				for _, d := range devAddrs {
					checkPair(c, nid, d)
				}
			}
			c.Outcome(fmt.Sprintf("type%d", c.Index>>13))
		})
	}
	// quick (also run in thorough): per type, all values of the low (w+2) bits x high bits {0, all ones}
	for typ := uint32(0); typ < 8; typ++ {
		typ := typ
		w := c11NwkIDBits[typ] + 2
		n := uint64(1) << w
		r.PartDims(fmt.Sprintf("prefix/type%d-low-bits", typ), []string{fmt.Sprintf("low %d ID bits:%d", w, n), "high ID bits:{0,ones}", "devaddr:16"}, n, func(c *engine.Case) {
			for _, hi := range []uint32{0, (1<<21 - 1) &^ (1<<w - 1)} {
				nid := typ<<21 | hi | uint32(c.Index)
				for _, d := range devAddrs {
					checkPair(c, nid, d)
				}
				if c.Index%61 == 0 || c.Index == n-1 {
					checkFlips(c, nid, 0x01234567)
					checkFlips(c, nid, 0xFEDCBA98)
				}
			}
			c.Outcome(fmt.Sprintf("type%d", typ))
			if c.WantSample() {
				c.Sample(func() interface{} {
					nid := typ<<21 | uint32(c.Index)
					wv, _, _, _ := specAddr(nid, 0x01020304)
					return map[string]interface{}{"part": "prefix", "netid": fmt.Sprintf("%06x", nid), "previous_devaddr": "01020304", "expected_devaddr": fmt.Sprintf("%08x", wv)}
				})
			}
		})
	}
	// NetID.ID(): the ID field per type (6/6/9/21 bits as the library documents it;
	// the NwkID widths above are what the addressing rule uses)
	r.Part("netid/id-field", 1<<16, func(c *engine.Case) {
		for lo := uint32(0); lo < 256; lo += 17 {
			nid := uint32(c.Index)<<8 | lo
			c.Eval()
			c.NonTrivial()
			netID := lorawan.NetID{byte(nid >> 16), byte(nid >> 8), byte(nid)}
			bits := []uint{6, 6, 9, 21, 21, 21, 21, 21}[nid>>21]
			id := nid & (1<<bits - 1)
			wb := make([]byte, 4)
			binary.BigEndian.PutUint32(wb, id)
			wb = wb[4-(bits+7)/8:]
			if !bytes.Equal(netID.ID(), wb) {
				c.Fail(fmt.Sprintf("netid/id/type%d", nid>>21), fmt.Sprintf("NetID %06x: ID()=%x, spec %x", nid, netID.ID(), wb), nil)
			}
		}
	})

	// ---- representations
	type ident struct {
		name string
		n    int
		// all operations through closures over a fresh value
		fromBytes func(b []byte) interface{} // value with bytes b (big-endian / display order)
		text      func(v interface{}) ([]byte, error)
		untext    func(s []byte) (interface{}, error)
		bin       func(v interface{}) ([]byte, error)
		unbin     func(b []byte) (interface{}, error)
		value     func(v interface{}) (driver.Value, error)
		scan      func(src interface{}) (interface{}, error)
		raw       func(v interface{}) []byte
	}
	idents := []ident{
		{"EUI64", 8,
			func(b []byte) interface{} { var v lorawan.EUI64; copy(v[:], b); return v },
			func(v interface{}) ([]byte, error) { return v.(lorawan.EUI64).MarshalText() },
			func(s []byte) (interface{}, error) { var v lorawan.EUI64; err := v.UnmarshalText(s); return v, err },
			func(v interface{}) ([]byte, error) { return v.(lorawan.EUI64).MarshalBinary() },
			func(b []byte) (interface{}, error) { var v lorawan.EUI64; err := v.UnmarshalBinary(b); return v, err },
			dbValue,
			func(src interface{}) (interface{}, error) { var v lorawan.EUI64; err := v.Scan(src); return v, err },
			func(v interface{}) []byte { x := v.(lorawan.EUI64); return x[:] }},
		{"DevAddr", 4,
			func(b []byte) interface{} { var v lorawan.DevAddr; copy(v[:], b); return v },
			func(v interface{}) ([]byte, error) { return v.(lorawan.DevAddr).MarshalText() },
			func(s []byte) (interface{}, error) { var v lorawan.DevAddr; err := v.UnmarshalText(s); return v, err },
			func(v interface{}) ([]byte, error) { return v.(lorawan.DevAddr).MarshalBinary() },
			func(b []byte) (interface{}, error) { var v lorawan.DevAddr; err := v.UnmarshalBinary(b); return v, err },
			dbValue,
			func(src interface{}) (interface{}, error) { var v lorawan.DevAddr; err := v.Scan(src); return v, err },
			func(v interface{}) []byte { x := v.(lorawan.DevAddr); return x[:] }},
		{"NetID", 3,
			func(b []byte) interface{} { var v lorawan.NetID; copy(v[:], b); return v },
			func(v interface{}) ([]byte, error) { return v.(lorawan.NetID).MarshalText() },
			func(s []byte) (interface{}, error) { var v lorawan.NetID; err := v.UnmarshalText(s); return v, err },
			func(v interface{}) ([]byte, error) { return v.(lorawan.NetID).MarshalBinary() },
			func(b []byte) (interface{}, error) { var v lorawan.NetID; err := v.UnmarshalBinary(b); return v, err },
			dbValue,
			func(src interface{}) (interface{}, error) { var v lorawan.NetID; err := v.Scan(src); return v, err },
			func(v interface{}) []byte { x := v.(lorawan.NetID); return x[:] }},
		{"AES128Key", 16,
			func(b []byte) interface{} { var v lorawan.AES128Key; copy(v[:], b); return v },
			func(v interface{}) ([]byte, error) { return v.(lorawan.AES128Key).MarshalText() },
			func(s []byte) (interface{}, error) { var v lorawan.AES128Key; err := v.UnmarshalText(s); return v, err },
			func(v interface{}) ([]byte, error) { return v.(lorawan.AES128Key).MarshalBinary() },
			func(b []byte) (interface{}, error) {
				var v lorawan.AES128Key
				err := v.UnmarshalBinary(b)
				return v, err
			},
			dbValue,
			func(src interface{}) (interface{}, error) { var v lorawan.AES128Key; err := v.Scan(src); return v, err },
			func(v interface{}) []byte { x := v.(lorawan.AES128Key); return x[:] }},
	}
	for _, id := range idents {
		id := id
		// position x byte value sweep on a position-distinct base, plus fillers
		n := uint64(id.n*256 + 3)
		r.PartDims("repr/"+id.name, []string{fmt.Sprintf("position:%d", id.n), "byte:256", "+3 fillers"}, n, func(c *engine.Case) {
			b := make([]byte, id.n)
			for i := range b {
				b[i] = byte(0x11*(i+1)) ^ 0x80
			}
			switch {
			case c.Index < uint64(id.n*256):
				b[c.Index/256] = byte(c.Index % 256)
			case c.Index == uint64(id.n*256):
				for i := range b {
					b[i] = 0
				}
			case c.Index == uint64(id.n*256)+1:
				for i := range b {
					b[i] = 0xFF
				}
			}
			c.NonTrivial()
			v := id.fromBytes(b)
			// text: lower-case hex of the bytes in display order
			t, err := id.text(v)
			if err != nil || string(t) != hex.EncodeToString(b) {
				c.Fail("repr/"+id.name+"/text-encode", fmt.Sprintf("%x -> %q (err %v)", b, t, err), nil)
			}
			for _, form := range []string{string(t), strings.ToUpper(string(t)), "0x" + string(t)} {
				v2, err := id.untext([]byte(form))
				if err != nil || !bytes.Equal(id.raw(v2), b) {
					c.Fail("repr/"+id.name+"/text-decode", fmt.Sprintf("%q -> %x (err %v), want %x", form, id.raw(v2), err, b), nil)
				}
			}
			// binary: byte-reversed
			bb, err := id.bin(v)
			rev := make([]byte, len(b))
			for i := range b {
				rev[len(b)-1-i] = b[i]
			}
			if err != nil || !bytes.Equal(bb, rev) {
				c.Fail("repr/"+id.name+"/binary-encode", fmt.Sprintf("%x -> %x (err %v), want %x", b, bb, err, rev), nil)
			}
			v3, err := id.unbin(rev)
			if err != nil || !bytes.Equal(id.raw(v3), b) {
				c.Fail("repr/"+id.name+"/binary-decode", fmt.Sprintf("%x -> %x (err %v), want %x", rev, id.raw(v3), err, b), nil)
			}
			// a representation survives being read: the same buffer decodes to the same value again
			if v3b, err := id.unbin(rev); err != nil || !bytes.Equal(id.raw(v3b), b) {
				c.Fail("repr/"+id.name+"/binary-decode-twice", fmt.Sprintf("the binary form of %x decoded a second time from the same buffer (now %x) gives %x (err %v)", b, rev, id.raw(v3b), err), nil)
			}
			tb := []byte(string(t))
			id.untext(tb)
			if v2b, err := id.untext(tb); err != nil || !bytes.Equal(id.raw(v2b), b) {
				c.Fail("repr/"+id.name+"/text-decode-twice", fmt.Sprintf("the text form of %x decoded a second time from the same buffer (now %q) gives %x (err %v)", b, tb, id.raw(v2b), err), nil)
			}
			// database
			dv, err := id.value(v)
			db, ok := dv.([]byte)
			if err != nil || !ok || !bytes.Equal(db, b) {
				c.Fail("repr/"+id.name+"/value", fmt.Sprintf("%x -> %v (err %v)", b, dv, err), nil)
			}
			src := append([]byte(nil), b...)
			v4, err := id.scan(src)
			if err != nil || !bytes.Equal(id.raw(v4), b) {
				c.Fail("repr/"+id.name+"/scan", fmt.Sprintf("%x -> %x (err %v)", b, id.raw(v4), err), nil)
			}
			if v4b, err := id.scan(src); err != nil || !bytes.Equal(id.raw(v4b), b) {
				c.Fail("repr/"+id.name+"/scan-twice", fmt.Sprintf("%x scanned a second time from the same buffer (now %x) gives %x (err %v)", b, src, id.raw(v4b), err), nil)
			}
			if c.WantSample() {
				c.Sample(func() interface{} {
					return map[string]interface{}{"part": "repr/" + id.name, "bytes": hex.EncodeToString(b), "binary": hex.EncodeToString(rev)}
				})
			}
		})
		// wrong lengths and malformed inputs must be rejected
		r.Part("repr/"+id.name+"/rejects", 1, func(c *engine.Case) {
			c.NonTrivial()
			// every byte length 0..4n+2 x four fillers (incl. ASCII hex digits, which a
			// tolerant decoder could mistake for text): accepted iff the length is n
			for l := 0; l <= 4*id.n+2; l++ {
				for _, fill := range []byte{0xA5, 0x00, '3', 'a'} {
					c.Eval()
					b := bytes.Repeat([]byte{fill}, l)
					if _, err := id.unbin(b); (err == nil) != (l == id.n) {
						c.Fail("repr/"+id.name+"/binary-wrong-length-accepted", fmt.Sprintf("%d bytes of %02x: err=%v", l, fill, err), nil)
					}
					if _, err := id.scan(b); (err == nil) != (l == id.n) {
						c.Fail("repr/"+id.name+"/scan-wrong-length-accepted", fmt.Sprintf("Scan of %d bytes of %02x: err=%v", l, fill, err), nil)
					}
				}
			}
			// every number of hex digits 0..6n+4 x three digit patterns x {plain, 0x}: accepted iff 2n digits
			for d := 0; d <= 6*id.n+4; d++ {
				for _, pat := range []string{"0", "a5", "0f3"} {
					digits := strings.Repeat(pat, d/len(pat)+1)[:d]
					if pat == "0f3" && d > 0 {
						digits = "0" + strings.Repeat("f3", d)[:d-1] // a leading zero: numerically small, textually too long
					}
					for _, prefix := range []string{"", "0x"} {
						c.Eval()
						if _, err := id.untext([]byte(prefix + digits)); (err == nil) != (d == 2*id.n) {
							c.Fail("repr/"+id.name+"/text-wrong-length-accepted", fmt.Sprintf("%q (%d hex digits): err=%v", prefix+digits, d, err), nil)
						}
					}
				}
			}
			good := hex.EncodeToString(bytes.Repeat([]byte{0x5A}, id.n))
			for _, bad := range []string{good[:len(good)-1], good + "0", "zz" + good[2:], good[:2] + "g" + good[3:], " " + good, good + " ", "0X" + good, "x" + good} {
				c.Eval()
				if _, err := id.untext([]byte(bad)); err == nil {
					c.Fail("repr/"+id.name+"/malformed-text-accepted", fmt.Sprintf("%q accepted", bad), nil)
				}
			}
			for _, src := range []interface{}{nil, "0102", 1, int64(1), []int{1}} {
				c.Eval()
				if _, err := id.scan(src); err == nil {
					c.Fail("repr/"+id.name+"/scan-wrong-type-accepted", fmt.Sprintf("%T accepted", src), nil)
				}
			}
		})
	}
	for t := 0; t < 8; t++ {
		r.Guard(r.OutcomeCount(fmt.Sprintf("type%d", t)) > 0, "NetID type %d exercised", t)
	}
}

// c11History: the addressing calls and identifier text forms as a history alphabet.
func c11History(r *engine.Run) {
	var ops []HOp
	for typ := uint32(0); typ < 8; typ++ {
		for _, low := range []uint32{0x2d, 0x12} {
			nid := typ<<21 | low
			netID := lorawan.NetID{byte(nid >> 16), byte(nid >> 8), byte(nid)}
			want, _, _, _ := specAddr(nid, 0x01020304)
			var own lorawan.DevAddr
			binary.BigEndian.PutUint32(own[:], want)
			ops = append(ops,
				HOp{fmt.Sprintf("SetAddrPrefix(%06x)", nid), func(HCtx) interface{} {
					a := lorawan.DevAddr{1, 2, 3, 4}
					a.SetAddrPrefix(netID)
					problem := ""
					if a != own {
						problem = fmt.Sprintf("NetID %06x: SetAddrPrefix gives %x, addressing rule %x", nid, a[:], own[:])
					}
					return &hChecked{a, problem}
				}},
				HOp{fmt.Sprintf("IsNetID(%06x,own-address)", nid), func(HCtx) interface{} {
					ok := own.IsNetID(netID)
					problem := ""
					if !ok {
						problem = fmt.Sprintf("DevAddr %x is not recognised as an address of NetID %06x", own[:], nid)
					}
					return &hChecked{ok, problem}
				}},
			)
			// the same address against the NetIDs of every other type with the same ID bits
			for other := uint32(0); other < 8; other++ {
				if other == typ {
					continue
				}
				onid := other<<21 | low
				oNetID := lorawan.NetID{byte(onid >> 16), byte(onid >> 8), byte(onid)}
				ops = append(ops, HOp{fmt.Sprintf("IsNetID(%06x,address-of-%06x)", onid, nid), func(HCtx) interface{} {
					ok := own.IsNetID(oNetID)
					problem := ""
					if ok {
						problem = fmt.Sprintf("DevAddr %x (NetID %06x) is accepted as an address of NetID %06x", own[:], nid, onid)
					}
					return &hChecked{ok, problem}
				}})
			}
		}
	}
	text := func(name string, f func() ([]byte, error)) {
		ops = append(ops, HOp{name, func(HCtx) interface{} {
			b, err := f()
			return []interface{}{b, errS(err)}
		}})
	}
	for i, seed := range []byte{0x01, 0xA0} {
		var e lorawan.EUI64
		var d lorawan.DevAddr
		var n lorawan.NetID
		var k lorawan.AES128Key
		for j := range e {
			e[j] = seed + byte(j)
		}
		for j := range d {
			d[j] = seed + 0x10 + byte(j)
		}
		for j := range n {
			n[j] = seed + 0x20 + byte(j)
		}
		for j := range k {
			k[j] = seed + 0x30 + byte(j)
		}
		text(fmt.Sprintf("EUI64#%d.MarshalText", i), e.MarshalText)
		text(fmt.Sprintf("DevAddr#%d.MarshalText", i), d.MarshalText)
		text(fmt.Sprintf("NetID#%d.MarshalText", i), n.MarshalText)
		text(fmt.Sprintf("AES128Key#%d.MarshalText", i), k.MarshalText)
		text(fmt.Sprintf("EUI64#%d.MarshalBinary", i), e.MarshalBinary)
		text(fmt.Sprintf("DevAddr#%d.MarshalBinary", i), d.MarshalBinary)
	}
	d := 2
	if r.Thorough() {
		d = 3
	}
	r.Rule += historyRule + fmt.Sprintf(" Addressing alphabet: for the 16 NetIDs {type 0..7} x {two ID values whose low bits coincide across types}: SetAddrPrefix, IsNetID on the own address, IsNetID of the own address against the NetID of every other type with the same ID bits; text and binary forms of two values of each identifier type; all sequences of <= %d calls.", d)
	historyPart(r, "history/addressing", ops, d)
}

package props

import (
	"bytes"
	"encoding/base64"
	"encoding/json"
	"fmt"
	"reflect"
	"runtime"
	"runtime/debug"
	"strings"

	"github.com/brocaar/lorawan"
	"github.com/brocaar/lorawan/applayer/clocksync"
	"github.com/brocaar/lorawan/applayer/firmwaremanagement"
	"github.com/brocaar/lorawan/applayer/fragmentation"
	"github.com/brocaar/lorawan/applayer/multicastsetup"
	"github.com/brocaar/lorawan/backend"

	"verifmc/engine"
	"verifmc/spec"
)

func init() { register("C09", "exploration", runC09) }

// c09Total runs one decoder entry point on a private copy of the input and
// decides totality: no panic, input buffer unchanged. It returns the error of
// the decoder (nil = value).
func c09Total(c *engine.Case, entry string, input []byte, fn func(in []byte) error) (err error, ok bool) {
	c.Eval()
	in := append(make([]byte, 0, len(input)+8), input...)
	defer func() {
		if e := recover(); e != nil {
			site := engine.PanicSite(string(debug.Stack()))
			c.Fail("panic/"+entry+"/"+site, fmt.Sprintf("%s panics on input %x: %v", entry, input, e), nil)
			ok = false
		}
	}()
	// second layout: capacity exactly the length (a decoder that slices past len(in) is
	// only caught when there is nothing behind it)
	exact := make([]byte, len(input))
	copy(exact, input)
	exact = exact[:len(input):len(input)]
	func() {
		defer func() {
			if e := recover(); e != nil {
				site := engine.PanicSite(string(debug.Stack()))
				c.Fail("panic/"+entry+"/"+site, fmt.Sprintf("%s panics on input %x held in a slice without spare capacity: %v", entry, input, e), nil)
				ok = false
			}
		}()
		fn(exact)
	}()
	err = fn(in)
	if !bytes.Equal(in, input) {
		c.Fail("input-modified/"+entry, fmt.Sprintf("%s wrote to its input: %x -> %x", entry, input, in), nil)
	}
	// bytes in the spare capacity of the input must be untouched as well
	if spare := in[len(in):cap(in)]; len(spare) > 0 {
		for _, b := range spare {
			if b != 0 {
				c.Fail("input-capacity-modified/"+entry, fmt.Sprintf("%s wrote beyond the end of its input %x", entry, input), nil)
				break
			}
		}
	}
	if err != nil {
		c.Outcome(entry + "/error")
	} else {
		c.Outcome(entry + "/value")
		c.NonTrivial()
	}
	return err, true
}

func bytesOfIndex(i uint64, n int) []byte {
	b := make([]byte, n)
	for k := 0; k < n; k++ {
		b[k] = byte(i >> uint(8*k))
	}
	return b
}

func runC09(r *engine.Run) {
	r.Rule = "E1 enumeration per decoder entry point, oracle: returns a value or an error, no panic (recovered and reported per input), no hang (watchdog), input buffer and its spare capacity byte-identical afterwards, stream decoders make progress (#commands <= len(input)). Frame decode: control-byte product (MHDR x length 0..40 x FCtrl x byte1 x FPort byte x filler) plus lengths up to 512 with four fillers and 17 lengths around 255x16 bytes and 2^16 (the payload cipher's 8-bit block counter, 16-bit length fields), followed on accepted frames by FOpts/FRMPayload command decode and decrypt-then-decode with two keys; base64: all strings of length <= 4 over a 10-symbol alphabet; MAC command stream decoders: all byte strings of length <= 3 x direction x 3 registry states (reset; three sized proprietary registrations; size-0 registrations), lengths 4..32 with all 65536 leading byte pairs; decrypt-then-decode with plaintext ranging over all 2-byte strings; join-accept decrypt over ciphertext lengths 0..40 and plaintext control bytes; CFList lengths 0..20 x 256 types; MACCommand CID x direction x length 0..8; the four application-layer command decoders: all strings <= 2 bytes, 3-byte strings (quick: 18 leading CIDs; thorough: all), (CID, second byte) all 65536 x lengths 0..40 x 2 fillers, every length 41..512 x leading CID x 3 fillers (several hundred commands in one payload); backend text/JSON unmarshalers: all strings of length <= 5 over a 14-symbol alphabet, well-formed text of every length 0..130 in 8 patterns x {plain, 0x} (also through json.Unmarshal into a payload struct) and every payload struct with each field (and each pair, thorough) set to each of 10 JSON atoms; every single-position replacement / insertion over a 16-symbol alphabet in 8 well-formed seed texts (timestamps, identifiers, numbers, a base64 frame) through every text decoder and as JSON members of ULMetaData. Cost: for every text decoder, the frame text decoder, JSON into a payload struct and the frame + MAC-command stream decoder, bytes allocated on inputs of 16k / 32k / 64k characters (four patterns) may not more than triple per doubling (a deterministic proxy for 'time linear in the input'). Non-trivial: the decoder returned a value (not an error)."
	frameHistory(r, 2)
	manyKeysHistory(r)
	r.Rule += " E3 (schedules): the FOpts and FRMPayload MAC-command decoders against two concurrent registrations of proprietary commands, every interleaving (preemption-bounded and unbounded with state-key pruning), sync.RWMutex modelled with pending writers excluding new readers: every thread returns, no deadlock."
	mergeSchedSummary(r, "C09")
	r.Assume("coverage-guided fuzzing named in the quantifier is a different family; replaced by complete enumeration of short strings and control-byte products")
	r.Assume("'linear time' is decided through the progress invariant (every loop iteration consumes at least one input byte) and the hang watchdog, not by timing")

	k1, k2 := keyOf(c02Keys[1]), keyOf(c02Keys[2])

	// ---- 1. frame decode and what follows on accepted frames
	frameDecode := func(c *engine.Case, b []byte) {
		var p lorawan.PHYPayload
		err, ok := c09Total(c, "PHYPayload.UnmarshalBinary", b, func(in []byte) error { return p.UnmarshalBinary(in) })
		if !ok || err != nil {
			return
		}
		mp, isData := p.MACPayload.(*lorawan.MACPayload)
		if !isData {
			if p.MHDR.MType == lorawan.JoinAccept {
				q := p
				c09Total(c, "PHYPayload.DecryptJoinAcceptPayload", b, func(in []byte) error { return q.DecryptJoinAcceptPayload(k1) })
			}
			return
		}
		_ = mp
		for _, k := range []lorawan.AES128Key{k1, k2} {
			k := k
			var q lorawan.PHYPayload
			q.UnmarshalBinary(append([]byte(nil), b...))
			c09Total(c, "PHYPayload.DecodeFOptsToMACCommands", b, func(in []byte) error { return q.DecodeFOptsToMACCommands() })
			var q2 lorawan.PHYPayload
			q2.UnmarshalBinary(append([]byte(nil), b...))
			c09Total(c, "PHYPayload.DecodeFRMPayloadToMACCommands", b, func(in []byte) error { return q2.DecodeFRMPayloadToMACCommands() })
			var q3 lorawan.PHYPayload
			q3.UnmarshalBinary(append([]byte(nil), b...))
			c09Total(c, "PHYPayload.DecryptFOpts", b, func(in []byte) error { return q3.DecryptFOpts(k) })
			var q4 lorawan.PHYPayload
			q4.UnmarshalBinary(append([]byte(nil), b...))
			c09Total(c, "PHYPayload.DecryptFRMPayload", b, func(in []byte) error { return q4.DecryptFRMPayload(k) })
		}
	}
	var mhdrs []byte
	for mt := 0; mt < 8; mt++ {
		mhdrs = append(mhdrs, byte(mt<<5), byte(mt<<5|0x1F))
	}
	var fctrls []byte
	for lo := 0; lo < 16; lo++ {
		fctrls = append(fctrls, byte(lo), 0xF0|byte(lo))
	}
	spF := (&engine.Space{}).Dim("mhdr", len(mhdrs)).Dim("length(0..40)", 41).Dim("fctrl", len(fctrls)).Dim("byte1", 4).Dim("fport-byte", 3).Dim("filler", 2)
	r.PartDims("frame/control-bytes", spF.Desc(), spF.N(), func(c *engine.Case) {
		var ch [6]int
		spF.Decode(c.Index, ch[:])
		n := ch[1]
		b := make([]byte, n)
		for i := range b {
			if ch[5] == 0 {
				b[i] = byte(0x21 + 3*i)
			} else {
				b[i] = 0xFF
			}
		}
		if n > 0 {
			b[0] = mhdrs[ch[0]]
		}
		if n > 1 {
			b[1] = []byte{0, 1, 2, 255}[ch[3]]
		}
		if n > 5 {
			b[5] = fctrls[ch[2]]
			if pp := 8 + int(b[5]&0x0f); pp < n-4 {
				b[pp] = []byte{0, 1, 255}[ch[4]]
			}
		}
		frameDecode(c, b)
	})
	r.PartDims("frame/long", []string{"length:0..512", "mhdr:8", "filler:4"}, 513*8*4, func(c *engine.Case) {
		n := int(c.Index % 513)
		mt := byte((c.Index / 513) % 8)
		fill := []byte{0x00, 0xFF, 0x0F, 0x02}[c.Index/(513*8)]
		b := bytes.Repeat([]byte{fill}, n)
		if n > 0 {
			b[0] = mt << 5
		}
		frameDecode(c, b)
	})

	// far beyond any LoRaWAN frame: lengths around the 8-bit block counter of the payload
	// cipher (255 x 16 bytes), and 16-bit length boundaries
	longLens := []int{1024, 4000, 4063, 4064, 4065, 4079, 4080, 4081, 4095, 4096, 4097, 4112, 8192, 65535, 65536, 65537, 70000}
	r.PartDims("frame/very-long", []string{fmt.Sprintf("length:%d values around 255x16 and 2^16", len(longLens)), "mhdr:8", "filler:2"}, uint64(len(longLens)*8*2), func(c *engine.Case) {
		n := longLens[c.Index%uint64(len(longLens))]
		mt := byte((c.Index / uint64(len(longLens))) % 8)
		fill := []byte{0x00, 0x02}[c.Index/uint64(len(longLens)*8)]
		b := bytes.Repeat([]byte{fill}, n)
		b[0] = mt << 5
		frameDecode(c, b)
		// the exported cipher functions on buffers of that size
		if mt == 2 {
			data := bytes.Repeat([]byte{fill}, n)
			if pn, site, v := engine.Try(func() { lorawan.EncryptFRMPayload(lorawan.AES128Key{1}, true, lorawan.DevAddr{1, 2, 3, 4}, 1, data) }); pn {
				c.Fail("panic/EncryptFRMPayload/"+site, fmt.Sprintf("EncryptFRMPayload panics on %d bytes: %v", n, v), nil)
			}
			if pn, site, v := engine.Try(func() { lorawan.EncryptFOpts(lorawan.AES128Key{1}, false, true, lorawan.DevAddr{1, 2, 3, 4}, 1, data) }); pn {
				c.Fail("panic/EncryptFOpts/"+site, fmt.Sprintf("EncryptFOpts panics on %d bytes: %v", n, v), nil)
			}
		}
	})

	// ---- 2. base64 text
	alpha := []byte("AQg/+=- \n!")
	nText := uint64(1 + 10 + 100 + 1000 + 10000)
	r.PartDims("frame/base64-text", []string{"strings of length 0..4 over 10 symbols:11111"}, nText, func(c *engine.Case) {
		i := c.Index
		l, n := 0, uint64(1)
		for i >= n {
			i -= n
			l++
			n *= 10
		}
		s := make([]byte, l)
		for k := range s {
			s[k] = alpha[i%10]
			i /= 10
		}
		var p lorawan.PHYPayload
		c09Total(c, "PHYPayload.UnmarshalText", s, func(in []byte) error { return p.UnmarshalText(in) })
	})
	r.Part("frame/base64-of-frames", 41*16, func(c *engine.Case) {
		n := int(c.Index % 41)
		b := fillBytes(n, byte(c.Index))
		if n > 0 {
			b[0] = byte(c.Index/41) << 4
		}
		t := []byte(base64.StdEncoding.EncodeToString(b))
		var p lorawan.PHYPayload
		c09Total(c, "PHYPayload.UnmarshalText", t, func(in []byte) error { return p.UnmarshalText(in) })
	})

	// ---- 3. MAC command stream decoders (three registry states)
	stream := func(c *engine.Case, uplink bool, b []byte) {
		for _, viaFRM := range []bool{false, true} {
			p := lorawan.PHYPayload{MHDR: lorawan.MHDR{MType: lorawan.UnconfirmedDataDown}}
			if uplink {
				p.MHDR.MType = lorawan.UnconfirmedDataUp
			}
			mp := &lorawan.MACPayload{}
			in := append([]byte(nil), b...)
			name := "DecodeFOptsToMACCommands"
			if viaFRM {
				port := uint8(0)
				mp.FPort = &port
				mp.FRMPayload = []lorawan.Payload{&lorawan.DataPayload{Bytes: in}}
				name = "DecodeFRMPayloadToMACCommands"
			} else {
				mp.FHDR.FOpts = []lorawan.Payload{&lorawan.DataPayload{Bytes: in}}
			}
			p.MACPayload = mp
			err, ok := c09Total(c, name, b, func([]byte) error {
				if viaFRM {
					return p.DecodeFRMPayloadToMACCommands()
				}
				return p.DecodeFOptsToMACCommands()
			})
			if !bytes.Equal(in, b) {
				c.Fail("input-modified/"+name, fmt.Sprintf("%x -> %x", b, in), nil)
			}
			if ok && err == nil {
				l := mp.FHDR.FOpts
				if viaFRM {
					l = mp.FRMPayload
				}
				if len(b) > 0 && len(l) > len(b) {
					c.Fail("no-progress/"+name, fmt.Sprintf("%d commands decoded from %d bytes", len(l), len(b)), nil)
				}
			}
		}
	}
	for state := 0; state < 3; state++ {
		state := state
		// the registry changes between the decoding runs, i.e. after streams with unregistered proprietary
		// CIDs have been decoded: the change is a case of its own, so that a registration that never
		// returns (a lock left behind by a decode) is a hanging case and not a hanging check
		setRegistry := func() {
			lorawan.VerifRegistryReset()
			if state == 2 {
				// the legal registrations that register nothing (size 0), alone and after a sized one
				lorawan.RegisterProprietaryMACCommand(true, 0x80, 0)
				lorawan.RegisterProprietaryMACCommand(false, 0xFF, 0)
				lorawan.RegisterProprietaryMACCommand(false, 0x80, 3)
				lorawan.RegisterProprietaryMACCommand(false, 0x80, 0)
			}
			if state == 1 {
				lorawan.RegisterProprietaryMACCommand(true, 0x80, 2)
				lorawan.RegisterProprietaryMACCommand(false, 0xFF, 1)
				lorawan.RegisterProprietaryMACCommand(false, 0x80, 16)
			}
		}
		if r.Replay {
			setRegistry()
		} else {
			r.PartDims(fmt.Sprintf("registry-change/registry%d", state), []string{"reset + registrations of this registry state, after the decoding runs of the previous one"}, 1, func(c *engine.Case) {
				c.Eval()
				setRegistry()
				c.NonTrivial()
				c.Outcome("registry/changed")
			})
		}
		// leading bytes of the 3-byte strings: quick = every defined CID of either
		// direction, three unknown CIDs and four proprietary ones; thorough = all 256
		var lead3 []int
		if r.Thorough() {
			for i := 0; i < 256; i++ {
				lead3 = append(lead3, i)
			}
		} else {
			seen := map[byte]bool{}
			for _, up := range []bool{false, true} {
				for _, cid := range spec.DirCIDs(up) {
					if !seen[cid] {
						seen[cid] = true
						lead3 = append(lead3, int(cid))
					}
				}
			}
			lead3 = append(lead3, 0x00, 0x12, 0x7F, 0x80, 0x81, 0xFE, 0xFF)
		}
		r.PartWorkers(fmt.Sprintf("stream/short/registry%d", state), []string{"all byte strings of length 0..2", fmt.Sprintf("3-byte strings with leading byte in %d values x 65536 (blocks of 256)", len(lead3)), "direction:2"}, uint64(2+256+len(lead3)*256)*2, 4, func(c *engine.Case) {
			uplink := c.Index%2 == 1
			i := c.Index / 2
			switch {
			case i == 0:
				stream(c, uplink, nil)
				for v := 0; v < 256; v++ {
					stream(c, uplink, []byte{byte(v)})
				}
			case i == 1:
				// reserved (keeps the index space simple)
			case i < 2+256:
				for v := 0; v < 256; v++ {
					stream(c, uplink, []byte{byte(i - 2), byte(v)})
				}
			default:
				j := i - 2 - 256
				for v := 0; v < 256; v++ {
					stream(c, uplink, []byte{byte(lead3[j/256]), byte(j % 256), byte(v)})
				}
			}
		})
		longLens := []int{4, 5, 6, 7, 8, 15, 16, 17, 31, 32}
		if r.Thorough() {
			longLens = nil
			for i := 4; i <= 32; i++ {
				longLens = append(longLens, i)
			}
		}
		// the library's registry lock is global: more than a few workers only contend on it
		r.PartWorkers(fmt.Sprintf("stream/long/registry%d", state), []string{fmt.Sprintf("length:%d values in 4..32", len(longLens)), "first two bytes:65536 (blocks of 256)", "filler:2", "direction:2"}, uint64(len(longLens)*256*2*2), 4, func(c *engine.Case) {
			i := c.Index
			uplink := i%2 == 1
			i /= 2
			fill := []byte{0x02, 0x03}[i%2] // payload-less CID / 4-byte CID as filler
			i /= 2
			n := longLens[i%uint64(len(longLens))]
			hi := byte(i / uint64(len(longLens)))
			for lo := 0; lo < 256; lo++ {
				b := bytes.Repeat([]byte{fill}, n)
				b[0], b[1] = byte(lo), hi
				stream(c, uplink, b)
			}
		})
	}
	lorawan.VerifRegistryReset()

	// ---- 4. decrypt-then-decode: plaintext ranges over all 2-byte strings and a control family
	r.PartDims("decrypt-then-decode", []string{"plaintext first two bytes:65536", "direction:2", "length:{2,3,8,16}", "key:2"}, 65536*2, func(c *engine.Case) {
		uplink := c.Index%2 == 1
		v := c.Index / 2
		for _, n := range []int{2, 3, 8, 16} {
			for ki, key := range [][]byte{c02Keys[1], c02Keys[2]} {
				plain := bytes.Repeat([]byte{0x02}, n)
				plain[0], plain[1] = byte(v), byte(v>>8)
				mt := lorawan.UnconfirmedDataDown
				if uplink {
					mt = lorawan.UnconfirmedDataUp
				}
				// FRMPayload on port 0
				ct := spec.XOR(plain, spec.Keystream(key, uplink, 0x01020304, 7, n))
				port := uint8(0)
				p := lorawan.PHYPayload{MHDR: lorawan.MHDR{MType: mt}, MACPayload: &lorawan.MACPayload{
					FHDR: lorawan.FHDR{DevAddr: devAddrOf(0x01020304), FCnt: 7}, FPort: &port, FRMPayload: []lorawan.Payload{&lorawan.DataPayload{Bytes: ct}}}}
				c09Total(c, "DecryptFRMPayload(port 0)", ct, func([]byte) error { return p.DecryptFRMPayload(keyOf(key)) })
				// FOpts
				if n <= 15 && ki == 0 {
					ct2 := spec.XOR(plain, spec.FOptsKeystream(key, false, uplink, 0x01020304, 7))
					q := lorawan.PHYPayload{MHDR: lorawan.MHDR{MType: mt}, MACPayload: &lorawan.MACPayload{
						FHDR: lorawan.FHDR{DevAddr: devAddrOf(0x01020304), FCnt: 7, FOpts: []lorawan.Payload{&lorawan.DataPayload{Bytes: ct2}}}}}
					c09Total(c, "DecryptFOpts", ct2, func([]byte) error { return q.DecryptFOpts(keyOf(key)) })
				}
			}
		}
	})

	// ---- 5. join-accept decrypt
	r.PartDims("joinaccept-decrypt/lengths", []string{"ciphertext length:0..40", "filler:2"}, 41*2, func(c *engine.Case) {
		n := int(c.Index % 41)
		b := bytes.Repeat([]byte{[]byte{0x00, 0xA5}[c.Index/41]}, n)
		p := lorawan.PHYPayload{MHDR: lorawan.MHDR{MType: lorawan.JoinAccept}, MACPayload: &lorawan.DataPayload{Bytes: b}}
		c09Total(c, "DecryptJoinAcceptPayload", b, func([]byte) error { return p.DecryptJoinAcceptPayload(k1) })
	})
	r.PartDims("joinaccept-decrypt/control-bytes", []string{"CFListType:256", "which of DLSettings/RXDelay swept:2", "value:256", "size:{12,28}"}, 256*2*2, func(c *engine.Case) {
		t := byte(c.Index)
		which := (c.Index / 256) % 2
		withCF := c.Index/512 == 1
		for v := 0; v < 256; v++ {
			pt := fillBytes(12, 0x31)
			pt[10], pt[11] = 0x23, 0x05
			pt[10+which] = byte(v)
			if withCF {
				pt = append(pt, fillBytes(15, 0x55)...)
				pt = append(pt, t)
			}
			pt = append(pt, 1, 2, 3, 4) // MIC
			ct := spec.ECBDecrypt(c02Keys[1], pt)
			p := lorawan.PHYPayload{MHDR: lorawan.MHDR{MType: lorawan.JoinAccept}, MACPayload: &lorawan.DataPayload{Bytes: ct[:len(ct)-4]}}
			copy(p.MIC[:], ct[len(ct)-4:])
			c09Total(c, "DecryptJoinAcceptPayload", ct, func([]byte) error { return p.DecryptJoinAcceptPayload(k1) })
		}
	})

	// ---- 6. CFList, MACCommand
	r.PartDims("cflist", []string{"length:0..20", "type byte:256", "filler:2"}, 21*256*2, func(c *engine.Case) {
		n := int(c.Index % 21)
		b := bytes.Repeat([]byte{[]byte{0xFF, 0x01}[c.Index/(21*256)]}, n)
		if n > 0 {
			b[n-1] = byte(c.Index / 21)
		}
		var l lorawan.CFList
		c09Total(c, "CFList.UnmarshalBinary", b, func(in []byte) error { return l.UnmarshalBinary(in) })
		var cp lorawan.CFListChannelPayload
		c09Total(c, "CFListChannelPayload.UnmarshalBinary", b, func(in []byte) error { return cp.UnmarshalBinary(false, in) })
		var cm lorawan.CFListChannelMaskPayload
		c09Total(c, "CFListChannelMaskPayload.UnmarshalBinary", b, func(in []byte) error { return cm.UnmarshalBinary(false, in) })
	})
	r.PartDims("maccommand", []string{"cid:256", "direction:2", "length:0..8"}, 256*2*9, func(c *engine.Case) {
		cid := byte(c.Index)
		uplink := (c.Index/256)%2 == 1
		n := int(c.Index / 512)
		b := fillBytes(n, 0x13)
		if n > 0 {
			b[0] = cid
		}
		var m lorawan.MACCommand
		c09Total(c, "MACCommand.UnmarshalBinary", b, func(in []byte) error { return m.UnmarshalBinary(uplink, in) })
		if pl, _, err := lorawan.GetMACPayloadAndSize(uplink, lorawan.CID(cid)); err == nil {
			c09Total(c, "MACCommandPayload.UnmarshalBinary", b, func(in []byte) error { return pl.UnmarshalBinary(in) })
		}
	})
	r.PartDims("payload-decoders", []string{"decoder:6", "length:0..40"}, 6*41, func(c *engine.Case) {
		n := int(c.Index % 41)
		b := fillBytes(n, 0x29)
		switch c.Index / 41 {
		case 0:
			var p lorawan.JoinRequestPayload
			c09Total(c, "JoinRequestPayload.UnmarshalBinary", b, func(in []byte) error { return p.UnmarshalBinary(true, in) })
		case 1:
			var p lorawan.JoinAcceptPayload
			c09Total(c, "JoinAcceptPayload.UnmarshalBinary", b, func(in []byte) error { return p.UnmarshalBinary(false, in) })
		case 2:
			var p lorawan.RejoinRequestType02Payload
			c09Total(c, "RejoinRequestType02Payload.UnmarshalBinary", b, func(in []byte) error { return p.UnmarshalBinary(true, in) })
		case 3:
			var p lorawan.RejoinRequestType1Payload
			c09Total(c, "RejoinRequestType1Payload.UnmarshalBinary", b, func(in []byte) error { return p.UnmarshalBinary(true, in) })
		case 4:
			var p lorawan.FHDR
			c09Total(c, "FHDR.UnmarshalBinary", b, func(in []byte) error { return p.UnmarshalBinary(true, in) })
		case 5:
			var p lorawan.MACPayload
			c09Total(c, "MACPayload.UnmarshalBinary", b, func(in []byte) error { return p.UnmarshalBinary(true, in) })
		}
	})

	// ---- 7. application-layer command decoders
	type appDec struct {
		name string
		dec  func(uplink bool, in []byte) (int, error)
	}
	apps := []appDec{
		{"clocksync", func(u bool, in []byte) (int, error) {
			var c clocksync.Commands
			err := c.UnmarshalBinary(u, in)
			return len(c), err
		}},
		{"multicastsetup", func(u bool, in []byte) (int, error) {
			var c multicastsetup.Commands
			err := c.UnmarshalBinary(u, in)
			return len(c), err
		}},
		{"fragmentation", func(u bool, in []byte) (int, error) {
			var c fragmentation.Commands
			err := c.UnmarshalBinary(u, in)
			return len(c), err
		}},
		{"firmwaremanagement", func(u bool, in []byte) (int, error) {
			var c firmwaremanagement.Commands
			err := c.UnmarshalBinary(u, in)
			return len(c), err
		}},
	}
	appOne := func(c *engine.Case, a appDec, uplink bool, b []byte) {
		var n int
		err, ok := c09Total(c, a.name+".Commands.UnmarshalBinary", b, func(in []byte) error {
			var e error
			n, e = a.dec(uplink, in)
			return e
		})
		if ok && err == nil && n > len(b) {
			c.Fail("no-progress/"+a.name, fmt.Sprintf("%d commands decoded from %d bytes", n, len(b)), nil)
		}
	}
	lead := []int{0, 1, 2, 3, 4, 5, 6, 7, 8, 9, 10, 11, 12, 13, 14, 15, 0x80, 0xFF}
	if r.Thorough() {
		lead = nil
		for i := 0; i < 256; i++ {
			lead = append(lead, i)
		}
	}
	for _, a := range apps {
		a := a
		r.PartDims("app/"+a.name+"/short", []string{"strings of length 0..2: 1+256+65536 (blocks)", fmt.Sprintf("3-byte strings with leading byte in %d values", len(lead)), "direction:2"}, uint64(2*(2+256+len(lead)*256)), func(c *engine.Case) {
			uplink := c.Index%2 == 1
			i := int(c.Index / 2)
			switch {
			case i == 0:
				appOne(c, a, uplink, nil)
			case i == 1:
				for v := 0; v < 256; v++ {
					appOne(c, a, uplink, []byte{byte(v)})
				}
			case i < 2+256:
				for v := 0; v < 256; v++ {
					appOne(c, a, uplink, []byte{byte(i - 2), byte(v)})
				}
			default:
				j := i - 2 - 256
				for v := 0; v < 256; v++ {
					appOne(c, a, uplink, []byte{byte(lead[j/256]), byte(j % 256), byte(v)})
				}
			}
		})
		appLens := []int{0, 1, 2, 3, 4, 5, 6, 7, 8, 9, 10, 11, 12, 20, 29, 30, 31, 40}
		if r.Thorough() {
			appLens = nil
			for i := 0; i <= 40; i++ {
				appLens = append(appLens, i)
			}
		}
		r.PartDims("app/"+a.name+"/cid-status-length", []string{"cid:256", "second byte:256 (inner)", fmt.Sprintf("length:%d values in 0..40", len(appLens)), "filler:2", "direction:2"}, uint64(256*len(appLens)*2*2), func(c *engine.Case) {
			i := c.Index
			uplink := i%2 == 1
			i /= 2
			fill := []byte{0x00, 0xFF}[i%2]
			i /= 2
			n := appLens[i%uint64(len(appLens))]
			cid := byte(i / uint64(len(appLens)))
			if n < 2 {
				b := bytes.Repeat([]byte{fill}, n)
				if n > 0 {
					b[0] = cid
				}
				appOne(c, a, uplink, b)
				return
			}
			for v := 0; v < 256; v++ {
				b := bytes.Repeat([]byte{fill}, n)
				b[0], b[1] = cid, byte(v)
				appOne(c, a, uplink, b)
			}
		})
		// long inputs (the quantifier's lengths up to 512: a payload of several hundred commands):
		// every length 41..512 x leading CID x {the CID byte repeated, zero fill, 0xFF fill}
		r.PartDims("app/"+a.name+"/long", []string{"length:41..512", "cid:256 (inner)", "filler{cid repeated,00,ff}", "direction:2"}, 472*3*2, func(c *engine.Case) {
			i := c.Index
			uplink := i%2 == 1
			i /= 2
			fillKind := int(i % 3)
			n := 41 + int(i/3)
			for cid := 0; cid < 256; cid++ {
				fill := []byte{byte(cid), 0x00, 0xFF}[fillKind]
				b := bytes.Repeat([]byte{fill}, n)
				b[0] = byte(cid)
				appOne(c, a, uplink, b)
			}
		})
	}

	// ---- 8. backend text and JSON unmarshalers
	sym := []byte("01fgx-+.eTZ:\" ")
	var nStr uint64
	for l, n := 0, uint64(1); l <= 5; l, n = l+1, n*14 {
		nStr += n
	}
	textDecs := []struct {
		name string
		fn   func(in []byte) error
	}{
		{"HEXBytes.UnmarshalText", func(in []byte) error { var v backend.HEXBytes; return v.UnmarshalText(in) }},
		{"ISO8601Time.UnmarshalText", func(in []byte) error { var v backend.ISO8601Time; return v.UnmarshalText(in) }},
		{"DLSettings.UnmarshalText", func(in []byte) error { var v lorawan.DLSettings; return v.UnmarshalText(in) }},
		{"EUI64.UnmarshalText", func(in []byte) error { var v lorawan.EUI64; return v.UnmarshalText(in) }},
		{"DevAddr.UnmarshalText", func(in []byte) error { var v lorawan.DevAddr; return v.UnmarshalText(in) }},
		{"NetID.UnmarshalText", func(in []byte) error { var v lorawan.NetID; return v.UnmarshalText(in) }},
		{"AES128Key.UnmarshalText", func(in []byte) error { var v lorawan.AES128Key; return v.UnmarshalText(in) }},
		{"Frequency.UnmarshalJSON", func(in []byte) error { var v backend.Frequency; return v.UnmarshalJSON(in) }},
		{"Percentage.UnmarshalJSON", func(in []byte) error { var v backend.Percentage; return v.UnmarshalJSON(in) }},
	}
	// well-formed text of every length: a fixed-size destination must not be overrun
	r.PartDims("backend/text-lengths", []string{"characters:0..130", "pattern{hex digits, base64, digits with sign/dot, quoted}:8", "decoder:9 + frame text (inner)"}, 131*8, func(c *engine.Case) {
		l := int(c.Index % 131)
		pat := []string{"0", "a5", "0f3C", "QUJD", "+/", "9", "-1.5e3", "\"ab"}[c.Index/131]
		body := strings.Repeat(pat, l/len(pat)+1)[:l]
		for _, prefix := range []string{"", "0x"} {
			s := []byte(prefix + body)
			for _, d := range textDecs {
				c09Total(c, d.name, s, d.fn)
			}
			var p lorawan.PHYPayload
			c09Total(c, "PHYPayload.UnmarshalText", s, func(in []byte) error { return p.UnmarshalText(in) })
			// through encoding/json into a struct with identifier fields
			js := []byte(`{"DevEUI":"` + strings.Replace(prefix+body, `"`, "", -1) + `","DevAddr":"` + strings.Replace(prefix+body, `"`, "", -1) + `"}`)
			c09Total(c, "json.Unmarshal(JoinReqPayload)", js, func(in []byte) error { var v backend.JoinReqPayload; return json.Unmarshal(in, &v) })
		}
	})
	// structure-aware mutation of well-formed texts of each kind: every position of a valid timestamp,
	// identifier, percentage, frequency and base64 frame replaced by (and, separately, extended with)
	// each symbol of a 16-symbol alphabet; through every text decoder, and as a JSON member
	seeds := []string{"2020-02-29T10:00:00Z", "2021-13-01T00:00:00+05:30", "0102030405060708", "0x01020304", "868.1", "0.25", "QAQDAgEAAQAKAQID", "1.0"}
	mutSym := []byte(" tzTZ09:-+.xXf=\"")
	var nMut uint64
	for _, sd := range seeds {
		nMut += uint64(len(sd)+1) * uint64(len(mutSym)) * 2
	}
	r.PartDims("backend/text-mutations", []string{fmt.Sprintf("seed text:%d", len(seeds)), "position x symbol:16 x {replace, insert}", "decoder:9 + frame text + JSON member (inner)"}, nMut, func(c *engine.Case) {
		i := c.Index
		var sd string
		for _, x := range seeds {
			n := uint64(len(x)+1) * uint64(len(mutSym)) * 2
			if i < n {
				sd = x
				break
			}
			i -= n
		}
		insert := i%2 == 1
		i /= 2
		sym := mutSym[i%uint64(len(mutSym))]
		pos := int(i / uint64(len(mutSym)))
		var t []byte
		switch {
		case insert:
			t = append(append(append(t, sd[:pos]...), sym), sd[pos:]...)
		case pos < len(sd):
			t = []byte(sd)
			t[pos] = sym
		default:
			t = []byte(sd) // the unmodified seed
		}
		for _, d := range textDecs {
			c09Total(c, d.name, append([]byte(nil), t...), d.fn)
		}
		var p lorawan.PHYPayload
		c09Total(c, "PHYPayload.UnmarshalText", append([]byte(nil), t...), func(in []byte) error { return p.UnmarshalText(in) })
		member := strings.NewReplacer(`"`, "", `\\`, "").Replace(string(t))
		js := []byte(`{"RecvTime":"` + member + `","DataRate":1,"ULFreq":` + member + `,"GWInfo":[{"ID":"` + member + `"}]}`)
		c09Total(c, "json.Unmarshal(ULMetaData)", js, func(in []byte) error { var v backend.ULMetaData; return json.Unmarshal(in, &v) })
	})
	// cost grows linearly with the input: bytes allocated while decoding inputs of 16k, 32k and 64k
	// characters (allocation volume is a deterministic function of the code path, unlike wall time);
	// doubling the input may not more than triple it once it is above 4 MiB. One worker, so that
	// nothing else allocates meanwhile.
	costDecs := append([]struct {
		name string
		fn   func(in []byte) error
	}{}, textDecs...)
	costDecs = append(costDecs, struct {
		name string
		fn   func(in []byte) error
	}{"PHYPayload.UnmarshalText", func(in []byte) error { var p lorawan.PHYPayload; return p.UnmarshalText(in) }}, struct {
		name string
		fn   func(in []byte) error
	}{"json.Unmarshal(JoinReqPayload.DevEUI)", func(in []byte) error {
		var v backend.JoinReqPayload
		return json.Unmarshal(append(append([]byte(`{"DevEUI":"`), in...), '"', '}'), &v)
	}}, struct {
		name string
		fn   func(in []byte) error
	}{"PHYPayload.UnmarshalBinary+DecodeFRMPayloadToMACCommands", func(in []byte) error {
		b := append([]byte{0x40, 1, 2, 3, 4, 0, 1, 0, 0}, in...)
		b = append(b, 1, 2, 3, 4)
		var p lorawan.PHYPayload
		if err := p.UnmarshalBinary(b); err != nil {
			return err
		}
		return p.DecodeFRMPayloadToMACCommands()
	}})
	costPatterns := []string{"0", "a5", "0-", "02"}
	r.PartWorkers("cost/linear-in-input", []string{fmt.Sprintf("decoder:%d", len(costDecs)), fmt.Sprintf("input pattern:%d", len(costPatterns)), "sizes 16k,32k,64k (inner)"}, uint64(len(costDecs)*len(costPatterns)), 1, func(c *engine.Case) {
		d := costDecs[c.Index%uint64(len(costDecs))]
		pat := costPatterns[c.Index/uint64(len(costDecs))]
		c.Eval()
		c.NonTrivial()
		var ms runtime.MemStats
		alloc := func(n int) uint64 {
			in := []byte(strings.Repeat(pat, n/len(pat)))
			runtime.ReadMemStats(&ms)
			before := ms.TotalAlloc
			d.fn(in)
			runtime.ReadMemStats(&ms)
			return ms.TotalAlloc - before
		}
		a1, a2, a3 := alloc(16384), alloc(32768), alloc(65536)
		if a3 > 4<<20 && (a3 > 3*a2+(1<<20) || a2 > 3*a1+(1<<20)) {
			c.Fail("cost/super-linear/"+d.name, fmt.Sprintf("%s on %q repeated: %d bytes allocated for 16k characters, %d for 32k, %d for 64k (more than tripling per doubling)", d.name, pat, a1, a2, a3), nil)
		}
		c.Outcome("cost/linear")
	})
	r.PartDims("backend/text", []string{fmt.Sprintf("strings of length 0..5 over 14 symbols:%d", nStr), "decoder:9 (inner)"}, nStr, func(c *engine.Case) {
		i := c.Index
		l, n := 0, uint64(1)
		for i >= n {
			i -= n
			l++
			n *= 14
		}
		s := make([]byte, l)
		for k := range s {
			s[k] = sym[i%14]
			i /= 14
		}
		for _, d := range textDecs {
			c09Total(c, d.name, s, d.fn)
		}
	})
	// JSON into every payload struct
	atoms := []string{"null", "0", "-1", "1e400", `""`, `"zz"`, `"00"`, "[]", "{}", "true"}
	structs := []func() interface{}{
		func() interface{} { return &backend.JoinReqPayload{} }, func() interface{} { return &backend.JoinAnsPayload{} },
		func() interface{} { return &backend.RejoinReqPayload{} }, func() interface{} { return &backend.RejoinAnsPayload{} },
		func() interface{} { return &backend.AppSKeyReqPayload{} }, func() interface{} { return &backend.AppSKeyAnsPayload{} },
		func() interface{} { return &backend.PRStartReqPayload{} }, func() interface{} { return &backend.PRStartAnsPayload{} },
		func() interface{} { return &backend.PRStopReqPayload{} }, func() interface{} { return &backend.PRStopAnsPayload{} },
		func() interface{} { return &backend.HRStartReqPayload{} }, func() interface{} { return &backend.HRStartAnsPayload{} },
		func() interface{} { return &backend.HRStopReqPayload{} }, func() interface{} { return &backend.HRStopAnsPayload{} },
		func() interface{} { return &backend.HomeNSReqPayload{} }, func() interface{} { return &backend.HomeNSAnsPayload{} },
		func() interface{} { return &backend.ProfileReqPayload{} }, func() interface{} { return &backend.ProfileAnsPayload{} },
		func() interface{} { return &backend.XmitDataReqPayload{} }, func() interface{} { return &backend.XmitDataAnsPayload{} },
	}
	for si, mk := range structs {
		mk := mk
		paths := jsonPaths(reflect.TypeOf(mk()).Elem(), nil, 0)
		name := reflect.TypeOf(mk()).Elem().Name()
		n := uint64(len(paths) * len(atoms))
		if r.Thorough() {
			n += uint64(len(paths)*len(paths)) * uint64(len(atoms)*len(atoms))
		}
		_ = si
		r.PartDims("backend/json/"+name, []string{fmt.Sprintf("field paths:%d", len(paths)), "atoms:10", "pairs in the thorough tier"}, n, func(c *engine.Case) {
			i := c.Index
			var doc []byte
			single := uint64(len(paths) * len(atoms))
			if i < single {
				doc = jsonDoc(map[string]string{strings.Join(paths[i/uint64(len(atoms))], "\x00"): atoms[i%uint64(len(atoms))]})
			} else {
				i -= single
				a1 := atoms[i%10]
				i /= 10
				a2 := atoms[i%10]
				i /= 10
				p1 := paths[i%uint64(len(paths))]
				p2 := paths[i/uint64(len(paths))]
				doc = jsonDoc(map[string]string{strings.Join(p1, "\x00"): a1, strings.Join(p2, "\x00"): a2})
			}
			c09Total(c, "json.Unmarshal/"+name, doc, func(in []byte) error { return json.Unmarshal(in, mk()) })
		})
	}

	r.Guard(r.OutcomeCount("PHYPayload.UnmarshalBinary/value") > 0 && r.OutcomeCount("PHYPayload.UnmarshalBinary/error") > 0, "frame decoder produced values and errors")
	r.Guard(r.OutcomeCount("DecodeFOptsToMACCommands/value") > 0 && r.OutcomeCount("DecodeFOptsToMACCommands/error") > 0, "stream decoder produced values and errors")
	for _, a := range apps {
		r.Guard(r.OutcomeCount(a.name+".Commands.UnmarshalBinary/value") > 0 && r.OutcomeCount(a.name+".Commands.UnmarshalBinary/error") > 0, "%s decoder produced values and errors", a.name)
	}
	r.Guard(r.OutcomeCount("Frequency.UnmarshalJSON/value") > 0 && r.OutcomeCount("ISO8601Time.UnmarshalText/error") > 0, "backend text decoders exercised")
}

// jsonPaths lists the JSON field paths of a struct type (two levels deep).
func jsonPaths(t reflect.Type, prefix []string, depth int) [][]string {
	var out [][]string
	for i := 0; i < t.NumField(); i++ {
		f := t.Field(i)
		if f.PkgPath != "" {
			continue
		}
		ft := f.Type
		for ft.Kind() == reflect.Ptr {
			ft = ft.Elem()
		}
		if f.Anonymous && ft.Kind() == reflect.Struct {
			out = append(out, jsonPaths(ft, prefix, depth)...)
			continue
		}
		name := f.Name
		if tag := f.Tag.Get("json"); tag != "" {
			if n := strings.Split(tag, ",")[0]; n != "" && n != "-" {
				name = n
			}
		}
		p := append(append([]string(nil), prefix...), name)
		out = append(out, p)
		if ft.Kind() == reflect.Struct && depth < 1 && ft.NumField() > 0 && ft.PkgPath() == "github.com/brocaar/lorawan/backend" {
			out = append(out, jsonPaths(ft, p, depth+1)...)
		}
	}
	return out
}

// jsonDoc builds a JSON object from path -> atom (paths joined by NUL).
func jsonDoc(m map[string]string) []byte {
	type node struct {
		atom string
		kids map[string]*node
		ord  []string
	}
	root := &node{kids: map[string]*node{}}
	var keys []string
	for k := range m {
		keys = append(keys, k)
	}
	// deterministic
	for i := 0; i < len(keys); i++ {
		for j := i + 1; j < len(keys); j++ {
			if keys[j] < keys[i] {
				keys[i], keys[j] = keys[j], keys[i]
			}
		}
	}
	for _, k := range keys {
		n := root
		for _, part := range strings.Split(k, "\x00") {
			if n.kids == nil {
				n.kids = map[string]*node{}
			}
			if n.kids[part] == nil {
				n.kids[part] = &node{}
				n.ord = append(n.ord, part)
			}
			n = n.kids[part]
		}
		n.atom = m[k]
	}
	var render func(n *node) string
	render = func(n *node) string {
		if len(n.ord) == 0 {
			return n.atom
		}
		var parts []string
		for _, k := range n.ord {
			parts = append(parts, fmt.Sprintf("%q:%s", k, render(n.kids[k])))
		}
		return "{" + strings.Join(parts, ",") + "}"
	}
	return []byte(render(root))
}

package props

import (
	"bytes"
	"encoding/hex"
	"fmt"

	"github.com/brocaar/lorawan"

	"verifmc/engine"
	"verifmc/spec"
)

func init() { register("C04", "exploration", runC04) }

var (
	c04EUIs = [][8]byte{
		{0, 0, 0, 0, 0, 0, 0, 0},
		{0x01, 0x02, 0x03, 0x04, 0x05, 0x06, 0x07, 0x08},
		{0xFF, 0xFE, 0xFD, 0xFC, 0xFB, 0xFA, 0xF9, 0xF8},
	}
	c04Nonces    = []uint16{0, 1, 0x1234, 0xFFFF}
	c04NetIDs    = [][3]byte{{0, 0, 0}, {0x01, 0x02, 0x03}, {0xFF, 0xFE, 0xFD}}
	c04JoinTypes = []byte{0xFF, 0, 1, 2}
	c04JNonces   = []uint32{0, 1, 0x123456, 0xFFFFFF}
)

// jaValue is a join-accept in specification terms.
type jaValue struct {
	joinNonce  uint32
	netID      [3]byte
	devAddr    uint32
	dlSettings byte
	rxDelay    byte
	cfKind     int // 0 absent, 1 channels, 2 masks, 3 channels all unused (16 zero bytes), 4 channels with one slot used, 5 six channel masks (96-channel plan), 6 channels at the ends of the 24-bit code range
}

// channels are the five frequencies of a channel-frequency CFList of this kind.
func (j jaValue) channels() [5]uint32 {
	switch j.cfKind {
	case 3:
		return [5]uint32{}
	case 4:
		return [5]uint32{0, 0, c04CFChannels[2], 0, 0}
	case 6:
		// codes 1, 11999999, 12000000, 15000000 and 2^24-1 (100 Hz units): 1.2 GHz is where NewChannelReq
		// - not the CFList - re-purposes the codes
		return [5]uint32{100, 1199999900, 1200000000, 1500000000, 1677721500}
	}
	return c04CFChannels
}

var c04CFChannels = [5]uint32{867100000, 867300000, 867500000, 867700000, 867900000}
var c04CFMasks = []uint16{0xFFFF, 0x0000, 0x00FF}
var c04CFMasks6 = []uint16{0x00FF, 0x0000, 0x0000, 0x0000, 0x0F00, 0x8001}

// masks are the channel masks of a channel-mask CFList of this kind.
func (j jaValue) masks() []uint16 {
	if j.cfKind == 5 {
		return c04CFMasks6
	}
	return c04CFMasks
}

func (j jaValue) wire() []byte {
	b := []byte{byte(j.joinNonce), byte(j.joinNonce >> 8), byte(j.joinNonce >> 16), j.netID[2], j.netID[1], j.netID[0],
		byte(j.devAddr), byte(j.devAddr >> 8), byte(j.devAddr >> 16), byte(j.devAddr >> 24), j.dlSettings, j.rxDelay}
	switch j.cfKind {
	case 1, 3, 4, 6:
		for _, f := range j.channels() {
			v := f / 100
			b = append(b, byte(v), byte(v>>8), byte(v>>16))
		}
		b = append(b, 0)
	case 2, 5:
		cf := make([]byte, 16)
		for i, m := range j.masks() {
			cf[2*i], cf[2*i+1] = byte(m), byte(m>>8)
		}
		cf[15] = 1
		b = append(b, cf...)
	}
	return b
}

func (j jaValue) lib() *lorawan.JoinAcceptPayload {
	p := &lorawan.JoinAcceptPayload{
		JoinNonce:  lorawan.JoinNonce(j.joinNonce),
		HomeNetID:  lorawan.NetID(j.netID),
		DevAddr:    devAddrOf(j.devAddr),
		DLSettings: lorawan.DLSettings{OptNeg: j.dlSettings&0x80 != 0, RX1DROffset: (j.dlSettings >> 4) & 7, RX2DataRate: j.dlSettings & 15},
		RXDelay:    j.rxDelay,
	}
	switch j.cfKind {
	case 1, 3, 4, 6:
		p.CFList = &lorawan.CFList{CFListType: lorawan.CFListChannel, Payload: &lorawan.CFListChannelPayload{Channels: j.channels()}}
	case 2, 5:
		var ms []lorawan.ChMask
		for _, m := range j.masks() {
			var cm lorawan.ChMask
			for k := 0; k < 16; k++ {
				cm[k] = m&(1<<uint(k)) != 0
			}
			ms = append(ms, cm)
		}
		p.CFList = &lorawan.CFList{CFListType: lorawan.CFListChannelMask, Payload: &lorawan.CFListChannelMaskPayload{ChannelMasks: ms}}
	}
	return p
}

// c04JoinAccept runs all join-accept obligations for one value tuple.
func c04JoinAccept(c *engine.Case, class string, j jaValue, jt byte, joinEUI [8]byte, devNonce uint16, key []byte) {
	c.Eval()
	const mhdr = 0x20
	payload := j.wire()
	optNeg := j.dlSettings&0x80 != 0
	var want [4]byte
	if optNeg {
		want = spec.JoinAcceptMIC11(key, jt, joinEUI, devNonce, mhdr, payload)
	} else {
		want = spec.JoinMIC(key, mhdr, payload)
	}
	desc := func() string {
		return fmt.Sprintf("payload=%x joinReqType=%02x joinEUI=%x devNonce=%04x key=%x", payload, jt, joinEUI[:], devNonce, key)
	}
	p := lorawan.PHYPayload{MHDR: lorawan.MHDR{MType: lorawan.JoinAccept}, MACPayload: j.lib()}
	if err := p.SetDownlinkJoinMIC(lorawan.JoinType(jt), lorawan.EUI64(joinEUI), lorawan.DevNonce(devNonce), keyOf(key)); err != nil {
		c.Fail(class+"/set-error", "SetDownlinkJoinMIC refused a valid join-accept: "+err.Error()+" "+desc(), nil)
		return
	}
	c.NonTrivial()
	if [4]byte(p.MIC) != want {
		c.Fail(fmt.Sprintf("%s/mic-differs-from-spec/optneg=%v", class, optNeg), fmt.Sprintf("library MIC %x, specification %x; %s", p.MIC[:], want[:], desc()), nil)
		return
	}
	if ok, err := p.ValidateDownlinkJoinMIC(lorawan.JoinType(jt), lorawan.EUI64(joinEUI), lorawan.DevNonce(devNonce), keyOf(key)); err != nil || !ok {
		c.Fail(class+"/validate-rejects-spec-mic", fmt.Sprintf("Validate=%v err=%v; %s", ok, err, desc()), nil)
	}
	bit := int(c.Index % 32)
	p.MIC[bit/8] ^= 1 << uint(bit%8)
	if ok, err := p.ValidateDownlinkJoinMIC(lorawan.JoinType(jt), lorawan.EUI64(joinEUI), lorawan.DevNonce(devNonce), keyOf(key)); err != nil || ok {
		c.Fail(class+"/validate-accepts-wrong-mic", fmt.Sprintf("Validate=%v err=%v with MIC bit %d flipped; %s", ok, err, bit, desc()), nil)
	}
	p.MIC[bit/8] ^= 1 << uint(bit%8)
	// the MIC of the other form (1.0 form on an OptNeg frame and vice versa), under the same
	// key, is not this frame's MIC: it must be rejected whenever the two differ
	other := spec.JoinMIC(key, mhdr, payload)
	if !optNeg {
		other = spec.JoinAcceptMIC11(key, jt, joinEUI, devNonce, mhdr, payload)
	}
	if other != want {
		q := p
		q.MIC = lorawan.MIC(other)
		if ok, err := q.ValidateDownlinkJoinMIC(lorawan.JoinType(jt), lorawan.EUI64(joinEUI), lorawan.DevNonce(devNonce), keyOf(key)); err != nil || ok {
			c.Fail(fmt.Sprintf("%s/validate-accepts-other-form-mic/optneg=%v", class, optNeg), fmt.Sprintf("Validate=%v err=%v for the MIC %x of the other form (this frame's is %x); %s", ok, err, other[:], want[:], desc()), nil)
		}
	}

	// plain wire form of the payload
	if b, err := p.MACPayload.MarshalBinary(); err != nil || !bytes.Equal(b, payload) {
		c.Fail(class+"/payload-bytes", fmt.Sprintf("payload marshals to %x (err %v), specification %x", b, err, payload), nil)
		return
	}

	// encryption: AES-decrypt in ECB over payload|MIC with the same key
	observe(&p) // the server logs the answer it is about to encrypt
	if err := p.EncryptJoinAcceptPayload(keyOf(key)); err != nil {
		c.Fail(class+"/encrypt-error", err.Error()+" "+desc(), nil)
		return
	}
	ct := spec.ECBDecrypt(key, append(append([]byte(nil), payload...), want[:]...))
	wire, err := p.MarshalBinary()
	wantWire := append([]byte{mhdr}, ct...)
	if err != nil || !bytes.Equal(wire, wantWire) {
		c.Fail(class+"/ciphertext", fmt.Sprintf("encrypted frame %x (err %v), specification %x; %s", wire, err, wantWire, desc()), nil)
		return
	}
	// a device recovers payload|MIC with AES-encrypt
	if rec := spec.ECBEncrypt(key, wire[1:]); !bytes.Equal(rec, append(append([]byte(nil), payload...), want[:]...)) {
		c.Fail("harness/ecb", "ECB model not an inverse", nil)
	}
	// the encryption is a function of payload|MIC only: any carried MIC value (all-zero is a
	// legal CMAC truncation) is encrypted, decrypted and carried through unchanged
	for _, mic := range [][4]byte{{0, 0, 0, 0}, {0xFF, 0xFF, 0xFF, 0xFF}, {0, 0, 0, 1}} {
		e := lorawan.PHYPayload{MHDR: lorawan.MHDR{MType: lorawan.JoinAccept}, MACPayload: j.lib(), MIC: lorawan.MIC(mic)}
		if err := e.EncryptJoinAcceptPayload(keyOf(key)); err != nil {
			c.Fail(class+"/encrypt-error/carried-mic", fmt.Sprintf("EncryptJoinAcceptPayload with carried MIC %x: %v; %s", mic[:], err, desc()), nil)
			continue
		}
		w, err := e.MarshalBinary()
		if wantW := append([]byte{mhdr}, spec.ECBDecrypt(key, append(append([]byte(nil), payload...), mic[:]...))...); err != nil || !bytes.Equal(w, wantW) {
			c.Fail(class+"/ciphertext/carried-mic", fmt.Sprintf("carried MIC %x: encrypted frame %x (err %v), specification %x; %s", mic[:], w, err, wantW, desc()), nil)
			continue
		}
		if err := e.DecryptJoinAcceptPayload(keyOf(key)); err != nil || [4]byte(e.MIC) != mic {
			c.Fail(class+"/decrypt-mic/carried-mic", fmt.Sprintf("carried MIC %x comes back as %x (err %v)", mic[:], e.MIC[:], err), nil)
		}
	}
	// receiver path: unmarshal, decrypt, validate
	var q lorawan.PHYPayload
	rxBuf := append([]byte(nil), wire...)
	if err := q.UnmarshalBinary(rxBuf); err != nil {
		c.Fail(class+"/decode-error", fmt.Sprintf("encrypted join-accept %x refused: %v", wire, err), nil)
		return
	}
	observe(&q) // a receiver logs the frame it decoded
	// the receive buffer is used for the next packet before the join-accept is decrypted
	for k := range rxBuf {
		rxBuf[k] ^= 0xA5
	}
	if err := q.DecryptJoinAcceptPayload(keyOf(key)); err != nil {
		c.Fail(class+"/decrypt-error", fmt.Sprintf("DecryptJoinAcceptPayload: %v; %s", err, desc()), nil)
		return
	}
	observe(&q) // the device logs what it decrypted
	if [4]byte(q.MIC) != want {
		c.Fail(class+"/decrypt-mic", fmt.Sprintf("decrypted MIC %x, original %x", q.MIC[:], want[:]), nil)
	}
	if got, exp := deepPrint(q.MACPayload), deepPrint(lorawan.Payload(j.lib())); got != exp {
		c.Fail(class+"/decrypt-payload", fmt.Sprintf("decrypted payload %s, original %s", got, exp), nil)
	}
	if ok, err := q.ValidateDownlinkJoinMIC(lorawan.JoinType(jt), lorawan.EUI64(joinEUI), lorawan.DevNonce(devNonce), keyOf(key)); err != nil || !ok {
		c.Fail(class+"/validate-after-decrypt", fmt.Sprintf("Validate=%v err=%v after decrypt; %s", ok, err, desc()), nil)
	}
	// a received join-accept is a value like any other: after changing a field of the decoded
	// payload in place, the MIC is the specification MIC of the *changed* payload (nothing
	// remembered from the reception may stand in for it)
	if ja, ok := q.MACPayload.(*lorawan.JoinAcceptPayload); ok {
		for e := 0; e < 2; e++ {
			j2 := j
			if e == 0 {
				j2.joinNonce ^= 1
				ja.JoinNonce ^= 1
			} else {
				j2.rxDelay ^= 1
				ja.RXDelay ^= 1
			}
			p2 := j2.wire()
			want2 := spec.JoinMIC(key, mhdr, p2)
			if optNeg {
				want2 = spec.JoinAcceptMIC11(key, jt, joinEUI, devNonce, mhdr, p2)
			}
			q.MIC = lorawan.MIC(want)
			if ok, err := q.ValidateDownlinkJoinMIC(lorawan.JoinType(jt), lorawan.EUI64(joinEUI), lorawan.DevNonce(devNonce), keyOf(key)); err != nil || ok != (want2 == want) {
				c.Fail(class+"/edited-after-decrypt/validate", fmt.Sprintf("decoded, decrypted, payload changed in place to %x: Validate=%v err=%v with the MIC %x of the received payload (specification MIC of the changed payload %x); %s", p2, ok, err, want[:], want2[:], desc()), nil)
			}
			if err := q.SetDownlinkJoinMIC(lorawan.JoinType(jt), lorawan.EUI64(joinEUI), lorawan.DevNonce(devNonce), keyOf(key)); err != nil || [4]byte(q.MIC) != want2 {
				c.Fail(class+"/edited-after-decrypt/set", fmt.Sprintf("decoded, decrypted, payload changed in place to %x: Set gives %x (err %v), specification %x; %s", p2, q.MIC[:], err, want2[:], desc()), nil)
			}
			if e == 0 {
				ja.JoinNonce ^= 1
			} else {
				ja.RXDelay ^= 1
			}
		}
	}
	// the same through the in-place pair without serialisation
	if err := p.DecryptJoinAcceptPayload(keyOf(key)); err != nil || [4]byte(p.MIC) != want || deepPrint(p.MACPayload) != deepPrint(lorawan.Payload(j.lib())) {
		c.Fail(class+"/encrypt-decrypt-not-inverse", fmt.Sprintf("err %v; %s", err, desc()), nil)
	}
	c.Outcome(fmt.Sprintf("ja/optneg=%v/len=%d", optNeg, len(payload)))
	if c.WantSample() {
		c.Sample(func() interface{} {
			return map[string]interface{}{"part": class, "payload": hex.EncodeToString(payload), "joinReqType": jt, "mic": hex.EncodeToString(want[:]), "encrypted_frame": hex.EncodeToString(wantWire)}
		})
	}
}

func runC04(r *engine.Run) {
	if err := spec.SelfTest(); err != nil {
		r.HarnessError("%v", err)
		return
	}
	r.Rule = "E1 products. Uplink: {join-request, rejoin 0, 2, 1} x JoinEUI(3) x DevEUI(3) x nonce/counter(4) x NetID(3) x key(3) plus single-bit walks over every payload and key bit. Join-accept A: JoinReqType(4) x all 256 DLSettings x RXDelay 0..15 x CFList{absent,channels,masks} x key(3). Join-accept B: JoinNonce(4) x NetID(3) x DevAddr(3) x JoinEUI(3) x DevNonce(4) x key(3) x DLSettings{00,80,F5} x CFList(3) x JoinReqType(4). Join-accept C: single-bit walks over every MIC input (type, JoinEUI, DevNonce, key, every payload bit) for OptNeg set and clear. Oracle: RFC 4493 CMAC and AES-ECB written independently (mc/spec/crypto.go). Non-trivial: the MIC was set and compared; distinct by construction."
	cryptoHistory(r)
	// join frames queued by plain assignment while the receive variable takes the next frame
	keptCopyParts(r, "kept-copy", reuseTypesNamed("lorawan.PHYPayload", "lorawan.JoinAcceptPayload", "lorawan.JoinRequestPayload", "lorawan.CFList"))
	manyKeysJoin(r)
	r.Assume("crypto/aes trusted; EUIs are non-palindromic and bytewise distinct so that byte-order errors are visible; value alphabets + complete single-bit walks")

	// ---- uplink join / rejoin
	spU := (&engine.Space{}).Dim("type", 4).Dim("euiA", 3).Dim("devEUI", 3).Dim("nonce", 4).Dim("netid", 3).Dim("key", 3)
	uplink := func(c *engine.Case, class string, typ int, euiA, devEUI [8]byte, nonce uint16, netID [3]byte, key []byte) {
		c.Eval()
		var mhdr byte
		var payload []byte
		var lp lorawan.Payload
		le := func(e [8]byte) []byte { return revBytes(e[:]) }
		switch typ {
		case 0:
			mhdr = 0x00
			payload = append(append(le(euiA), le(devEUI)...), byte(nonce), byte(nonce>>8))
			lp = &lorawan.JoinRequestPayload{JoinEUI: lorawan.EUI64(euiA), DevEUI: lorawan.EUI64(devEUI), DevNonce: lorawan.DevNonce(nonce)}
		case 1, 2:
			mhdr = 0xC0
			rt := byte(0)
			if typ == 2 {
				rt = 2
			}
			payload = append([]byte{rt, netID[2], netID[1], netID[0]}, le(devEUI)...)
			payload = append(payload, byte(nonce), byte(nonce>>8))
			lp = &lorawan.RejoinRequestType02Payload{RejoinType: lorawan.JoinType(rt), NetID: lorawan.NetID(netID), DevEUI: lorawan.EUI64(devEUI), RJCount0: nonce}
		default:
			mhdr = 0xC0
			payload = append(append([]byte{1}, le(euiA)...), le(devEUI)...)
			payload = append(payload, byte(nonce), byte(nonce>>8))
			lp = &lorawan.RejoinRequestType1Payload{RejoinType: 1, JoinEUI: lorawan.EUI64(euiA), DevEUI: lorawan.EUI64(devEUI), RJCount1: nonce}
		}
		want := spec.JoinMIC(key, mhdr, payload)
		p := lorawan.PHYPayload{MHDR: lorawan.MHDR{MType: lorawan.MType(mhdr >> 5)}, MACPayload: lp}
		if err := p.SetUplinkJoinMIC(keyOf(key)); err != nil {
			c.Fail(class+"/set-error", err.Error(), nil)
			return
		}
		c.NonTrivial()
		if [4]byte(p.MIC) != want {
			c.Fail(fmt.Sprintf("%s/mic-differs-from-spec/type%d", class, typ), fmt.Sprintf("MHDR %02x payload %x key %x: library MIC %x, specification %x", mhdr, payload, key, p.MIC[:], want[:]), nil)
			return
		}
		if ok, err := p.ValidateUplinkJoinMIC(keyOf(key)); err != nil || !ok {
			c.Fail(class+"/validate-rejects-spec-mic", fmt.Sprintf("Validate=%v err=%v", ok, err), nil)
		}
		bit := int(c.Index % 32)
		p.MIC[bit/8] ^= 1 << uint(bit%8)
		if ok, err := p.ValidateUplinkJoinMIC(keyOf(key)); err != nil || ok {
			c.Fail(class+"/validate-accepts-wrong-mic", fmt.Sprintf("Validate=%v err=%v with MIC bit %d flipped", ok, err, bit), nil)
		}
		p.MIC[bit/8] ^= 1 << uint(bit%8)
		wire, err := p.MarshalBinary()
		wantWire := append(append([]byte{mhdr}, payload...), want[:]...)
		if err != nil || !bytes.Equal(wire, wantWire) {
			c.Fail(class+"/wire", fmt.Sprintf("frame %x (err %v), specification %x", wire, err, wantWire), nil)
		}
		// the receiver's side: the specification's frame, decoded from the wire, validates and
		// recomputes the same MIC
		var rx lorawan.PHYPayload
		if err := rx.UnmarshalBinary(append([]byte(nil), wantWire...)); err != nil {
			c.Fail(class+"/received-frame-not-decodable", fmt.Sprintf("frame %x: %v", wantWire, err), nil)
		} else {
			if ok, err := rx.ValidateUplinkJoinMIC(keyOf(key)); err != nil || !ok {
				c.Fail(fmt.Sprintf("%s/received-frame-rejected/type%d", class, typ), fmt.Sprintf("frame %x decoded from the wire: Validate=%v err=%v with the key it was signed with", wantWire, ok, err), nil)
			}
			if err := rx.SetUplinkJoinMIC(keyOf(key)); err != nil || [4]byte(rx.MIC) != want {
				c.Fail(fmt.Sprintf("%s/received-frame-mic-differs/type%d", class, typ), fmt.Sprintf("frame %x decoded from the wire: recomputed MIC %x (err %v), specification %x", wantWire, rx.MIC[:], err, want[:]), nil)
			}
		}
		c.Outcome(fmt.Sprintf("uplink/type%d", typ))
	}
	r.PartDims("uplink/values", spU.Desc(), spU.N(), func(c *engine.Case) {
		var ch [6]int
		spU.Decode(c.Index, ch[:])
		uplink(c, "uplink", ch[0], c04EUIs[ch[1]], c04EUIs[ch[2]], c04Nonces[ch[3]], c04NetIDs[ch[4]], c02Keys[ch[5]])
	})
	// bit walks: euiA 64, devEUI 64, nonce 16, netID 24, key 128 = 296 bits x type 4 x base 2
	// join-requests whose correct MIC is 00000000 / ffffffff (witness.go): set, validated and accepted
	// from the wire like any other
	r.Part("uplink/conspicuous-mic-values", uint64(len(witnessJoin)), func(c *engine.Case) {
		w := witnessJoin[c.Index]
		le := func(e [8]byte) []byte { return revBytes(e[:]) }
		payload := append(append(le(witnessJoinEUI), le(w.devEUI)...), byte(w.nonce), byte(w.nonce>>8))
		if got := spec.JoinMIC(witnessKey, 0x00, payload); got != w.mic {
			r.HarnessError("witness join-request %x: the specification MIC is %x, not %x", payload, got[:], w.mic[:])
			return
		}
		uplink(c, "uplink-witness", 0, witnessJoinEUI, w.devEUI, w.nonce, [3]byte{}, witnessKey)
		c.Outcome(fmt.Sprintf("uplink-witness/mic=%x", w.mic[:]))
	})
	r.PartDims("uplink/bit-walks", []string{"bit:296 (euiA64 devEUI64 nonce16 netid24 key128)", "type:4", "base:2"}, 296*4*2, func(c *engine.Case) {
		bit := int(c.Index % 296)
		typ := int(c.Index/296) % 4
		var a, d [8]byte
		var nonce uint16
		var nid [3]byte
		key := make([]byte, 16)
		if c.Index/(296*4) == 1 {
			for i := range a {
				a[i], d[i] = 0xFF, 0xFF
			}
			nonce, nid = 0xFFFF, [3]byte{0xFF, 0xFF, 0xFF}
			key = mustHex("ffffffffffffffffffffffffffffffff")
		}
		switch {
		case bit < 64:
			a[bit/8] ^= 1 << uint(bit%8)
		case bit < 128:
			d[(bit-64)/8] ^= 1 << uint(bit%8)
		case bit < 144:
			nonce ^= 1 << uint(bit-128)
		case bit < 168:
			nid[(bit-144)/8] ^= 1 << uint(bit%8)
		default:
			key[(bit-168)/8] ^= 1 << uint(bit%8)
		}
		uplink(c, "uplink-walk", typ, a, d, nonce, nid, key)
	})

	// ---- join-accept A: header-ish fields complete
	spA := (&engine.Space{}).Dim("dlsettings", 256).Dim("rxdelay", 16).Dim("cflist{absent,channels,masks,all-unused channels,one channel,six masks,channels at the ends of the code range}", 7).Dim("joinReqType", 4).Dim("key", 3)
	r.PartDims("joinaccept/A-dlsettings-rxdelay-cflist", spA.Desc(), spA.N(), func(c *engine.Case) {
		var ch [5]int
		spA.Decode(c.Index, ch[:])
		j := jaValue{joinNonce: 0x123456, netID: c04NetIDs[1], devAddr: 0x01020304, dlSettings: byte(ch[0]), rxDelay: byte(ch[1]), cfKind: ch[2]}
		c04JoinAccept(c, "ja-A", j, c04JoinTypes[ch[3]], c04EUIs[1], 0x1234, c02Keys[ch[4]])
	})
	// ---- join-accept B: value alphabets
	dls := []byte{0x00, 0x80, 0xF5}
	spB := (&engine.Space{}).Dim("joinnonce", 4).Dim("netid", 3).Dim("devaddr", 3).Dim("joinEUI", 3).Dim("devnonce", 4).Dim("key", 3).Dim("dlsettings", 3).Dim("cflist", 3).Dim("joinReqType", 4)
	r.PartDims("joinaccept/B-values", spB.Desc(), spB.N(), func(c *engine.Case) {
		var ch [9]int
		spB.Decode(c.Index, ch[:])
		j := jaValue{joinNonce: c04JNonces[ch[0]], netID: c04NetIDs[ch[1]], devAddr: c02DevAddrs[ch[2]], dlSettings: dls[ch[6]], rxDelay: 5, cfKind: ch[7]}
		c04JoinAccept(c, "ja-B", j, c04JoinTypes[ch[8]], c04EUIs[ch[3]], c04Nonces[ch[4]], c02Keys[ch[5]])
	})
	// ---- join-accept C: bit walks. For every single-bit change of an input:
	// Validate(carried MIC of the unchanged tuple) == (spec MIC unchanged)
	// bits: type 8, joinEUI 64, devNonce 16, key 128, joinNonce 24, netID 24, devAddr 32, dlsettings 7 (not OptNeg), rxdelay 4 = 307
	r.PartDims("joinaccept/C-bit-walks", []string{"bit:307 (type8 joinEUI64 devNonce16 key128 joinNonce24 netID24 devAddr32 dlsettings7 rxDelay4)", "optneg:2", "cflist:3", "base:2"}, 307*2*3*2, func(c *engine.Case) {
		bit := int(c.Index % 307)
		optNeg := (c.Index/307)%2 == 1
		cf := int(c.Index/614) % 3
		ones := c.Index/1842 == 1
		j := jaValue{cfKind: cf}
		jt, eui, dn, key := byte(0), [8]byte{}, uint16(0), make([]byte, 16)
		if ones {
			j.joinNonce, j.netID, j.devAddr, j.dlSettings, j.rxDelay = 0xFFFFFF, [3]byte{0xFF, 0xFF, 0xFF}, 0xFFFFFFFF, 0x7F, 0x0F
			jt, dn, key = 0xFF, 0xFFFF, mustHex("ffffffffffffffffffffffffffffffff")
			for i := range eui {
				eui[i] = 0xFF
			}
		}
		if optNeg {
			j.dlSettings |= 0x80
		} else {
			j.dlSettings &= 0x7F
		}
		// the carried MIC is the specification's for the unchanged tuple
		mic0 := func(j jaValue, jt byte, eui [8]byte, dn uint16, key []byte) [4]byte {
			if j.dlSettings&0x80 != 0 {
				return spec.JoinAcceptMIC11(key, jt, eui, dn, 0x20, j.wire())
			}
			return spec.JoinMIC(key, 0x20, j.wire())
		}
		carried := mic0(j, jt, eui, dn, key)
		j2, jt2, eui2, dn2, key2 := j, jt, eui, dn, append([]byte(nil), key...)
		b := bit
		switch {
		case b < 8:
			jt2 ^= 1 << uint(b)
		case b < 72:
			eui2[(b-8)/8] ^= 1 << uint(b%8)
		case b < 88:
			dn2 ^= 1 << uint(b-72)
		case b < 216:
			key2[(b-88)/8] ^= 1 << uint(b%8)
		case b < 240:
			j2.joinNonce ^= 1 << uint(b-216)
		case b < 264:
			j2.netID[(b-240)/8] ^= 1 << uint(b%8)
		case b < 296:
			j2.devAddr ^= 1 << uint(b-264)
		case b < 303:
			j2.dlSettings ^= 1 << uint(b-296)
		default:
			j2.rxDelay ^= 1 << uint(b-303)
		}
		c.NonTrivial()
		p := lorawan.PHYPayload{MHDR: lorawan.MHDR{MType: lorawan.JoinAccept}, MACPayload: j2.lib(), MIC: lorawan.MIC(carried)}
		ok, err := p.ValidateDownlinkJoinMIC(lorawan.JoinType(jt2), lorawan.EUI64(eui2), lorawan.DevNonce(dn2), keyOf(key2))
		want := mic0(j2, jt2, eui2, dn2, key2) == carried
		if err != nil || ok != want {
			c.Fail(fmt.Sprintf("ja-C/bit-walk/optneg=%v", optNeg), fmt.Sprintf("input bit %d changed (optNeg=%v): Validate=%v err=%v, specification says the MIC %s", bit, optNeg, ok, err, map[bool]string{true: "is unchanged", false: "differs"}[want]), nil)
		}
		c.Outcome(fmt.Sprintf("ja-C/optneg=%v/changed-input-accepted=%v", optNeg, ok))
	})
	// ---- refusals: RXDelay > 15 and JoinNonce >= 2^24 are not encodable
	// ---- a join-accept whose correct MIC is 00000000 (witness.go)
	r.Part("joinaccept/conspicuous-mic-value", 1, func(c *engine.Case) {
		w := witnessJoinAccept
		j := jaValue{joinNonce: w.joinNonce, netID: [3]byte{1, 2, 3}, devAddr: w.devAddr, dlSettings: 0, rxDelay: 1}
		if got := spec.JoinMIC(witnessKey, 0x20, j.wire()); got != w.mic {
			r.HarnessError("witness join-accept %x: the specification MIC is %x, not %x", j.wire(), got[:], w.mic[:])
			return
		}
		c04JoinAccept(c, "ja-witness", j, 0xFF, c04EUIs[1], 0x1234, witnessKey)
	})

	// ---- a refused call between two valid ones: valid(key A), refused(key X), valid(key X). What the
	// refused call leaves behind (it names a key the library has not worked with yet) must not reach
	// the third call: its ciphertext / plaintext is the specification's for key X
	spR := (&engine.Space{}).Dim("refused call{encrypt RXDelay 16, encrypt JoinNonce 2^24, decrypt 15-byte body, decrypt 5-byte body}", 4).Dim("third call{encrypt,decrypt}", 2).Dim("cflist{absent,channels}", 2).Dim("keys{A->X, X->A}", 2).Dim("first call{encrypt,decrypt}", 2)
	r.PartWorkers("joinaccept/refused-between-valid", spR.Desc(), spR.N(), 1, func(c *engine.Case) {
		var ch [5]int
		spR.Decode(c.Index, ch[:])
		kA, kX := c02Keys[1], c02Keys[2]
		if ch[3] == 1 {
			kA, kX = kX, kA
		}
		j := jaValue{joinNonce: 0x010203, netID: c04NetIDs[1], devAddr: 0x01020304, dlSettings: 0x12, rxDelay: 1, cfKind: ch[2]}
		mic := [4]byte{0xA1, 0xA2, 0xA3, 0xA4}
		plain := append(j.wire(), mic[:]...)
		encrypt := func(key []byte) ([]byte, error) {
			p := lorawan.PHYPayload{MHDR: lorawan.MHDR{MType: lorawan.JoinAccept}, MACPayload: j.lib(), MIC: lorawan.MIC(mic)}
			if err := p.EncryptJoinAcceptPayload(keyOf(key)); err != nil {
				return nil, err
			}
			return p.MarshalBinary()
		}
		decrypt := func(key []byte) ([]byte, error) {
			var q lorawan.PHYPayload
			if err := q.UnmarshalBinary(append([]byte{0x20}, spec.ECBDecrypt(key, plain)...)); err != nil {
				return nil, err
			}
			observe(&q) // a receiver logs the frame it decoded
			if err := q.DecryptJoinAcceptPayload(keyOf(key)); err != nil {
				return nil, err
			}
			b, err := q.MACPayload.MarshalBinary()
			return append(b, q.MIC[:]...), err
		}
		c.Eval()
		// first call: valid, key A
		if ch[4] == 0 {
			encrypt(kA)
		} else {
			decrypt(kA)
		}
		// second call: refused, key X
		var refusedErr error
		switch ch[0] {
		case 0:
			p := lorawan.PHYPayload{MHDR: lorawan.MHDR{MType: lorawan.JoinAccept}, MACPayload: &lorawan.JoinAcceptPayload{JoinNonce: 1, RXDelay: 16}}
			refusedErr = p.EncryptJoinAcceptPayload(keyOf(kX))
		case 1:
			p := lorawan.PHYPayload{MHDR: lorawan.MHDR{MType: lorawan.JoinAccept}, MACPayload: &lorawan.JoinAcceptPayload{JoinNonce: 1 << 24, RXDelay: 1}}
			refusedErr = p.EncryptJoinAcceptPayload(keyOf(kX))
		case 2, 3:
			var q lorawan.PHYPayload
			body := fillBytes([]int{15, 5}[ch[0]-2], 0x31)
			if err := q.UnmarshalBinary(append([]byte{0x20}, body...)); err != nil {
				refusedErr = err
			} else {
				refusedErr = q.DecryptJoinAcceptPayload(keyOf(kX))
			}
		}
		if refusedErr == nil {
			c.Outcome("refused-between-valid/second-call-not-refused")
		}
		// third call: valid, key X
		c.NonTrivial()
		if ch[1] == 0 {
			got, err := encrypt(kX)
			if want := append([]byte{0x20}, spec.ECBDecrypt(kX, plain)...); err != nil || !bytes.Equal(got, want) {
				c.Fail("joinaccept/refused-between-valid/ciphertext", fmt.Sprintf("after a valid call with key %x and a refused call with key %x (err %v): encrypting with key %x gives %x (err %v), specification %x", kA, kX, refusedErr, kX, got, err, want), nil)
			}
		} else {
			got, err := decrypt(kX)
			if err != nil || !bytes.Equal(got, plain) {
				c.Fail("joinaccept/refused-between-valid/plaintext", fmt.Sprintf("after a valid call with key %x and a refused call with key %x (err %v): decrypting with key %x gives %x (err %v), expected %x", kA, kX, refusedErr, kX, got, err, plain), nil)
			}
		}
	})

	r.Part("joinaccept/refusals", 1, func(c *engine.Case) {
		c.NonTrivial()
		j := jaValue{rxDelay: 16}
		if _, err := j.lib().MarshalBinary(); err == nil {
			c.Fail("ja/rxdelay-16-accepted", "RXDelay 16 encoded", nil)
		}
		j = jaValue{joinNonce: 1 << 24}
		if _, err := j.lib().MarshalBinary(); err == nil {
			c.Fail("ja/joinnonce-2^24-accepted", "JoinNonce 2^24 encoded", nil)
		}
		// ciphertext whose length is not a multiple of 16 must be refused by decrypt
		for n := 0; n <= 40; n++ {
			c.Eval()
			p := lorawan.PHYPayload{MHDR: lorawan.MHDR{MType: lorawan.JoinAccept}, MACPayload: &lorawan.DataPayload{Bytes: make([]byte, n)}}
			err := p.DecryptJoinAcceptPayload(keyOf(c02Keys[1]))
			if (n+4 == 16 || n+4 == 32) != (err == nil) {
				c.Fail("ja/decrypt-length", fmt.Sprintf("ciphertext of %d bytes (+4 MIC): err=%v", n, err), nil)
			}
		}
	})

	for t := 0; t < 4; t++ {
		r.Guard(r.OutcomeCount(fmt.Sprintf("uplink/type%d", t)) > 0, "uplink type %d exercised", t)
	}
	r.Guard(r.OutcomeCount("ja/optneg=true/len=28") > 0 && r.OutcomeCount("ja/optneg=false/len=12") > 0, "both MIC forms and both payload sizes exercised")
	r.Guard(r.OutcomeCount("ja-C/optneg=false/changed-input-accepted=true") > 0 && r.OutcomeCount("ja-C/optneg=true/changed-input-accepted=false") > 0, "walks observed both an excluded input (1.0 form) and an authenticated input")
}

package props

import (
	"fmt"
	"sort"

	"github.com/brocaar/lorawan"
	"github.com/brocaar/lorawan/band"

	"verifmc/engine"
)

func init() { register("C13", "exploration", runC13) }

func runC13(r *engine.Run) {
	r.Rule = "E1 over a finite space, enumerated completely in both tiers: 24 band names x repeater x dwell-time; per configuration: every data-rate index -1..16 x direction; protocol version {1.0.0..1.1.0, unknown, 46 unknown strings on the seam between the two arguments (known version + known revision, empty, the word latest)} x revision {A,B,C,RP002-1.0.0..3, unknown, empty, the word latest, two seam strings} x DR -1..16 through GetMaxPayloadSizeForDataRateIndex and every (version, revision, DR) cell of the snapshot; every default channel; TX-power indices -1..16. Oracle: table closure and relations decided on the hook snapshot (exact key sets and direction flags), Regional Parameters constants from mc/spec/region.go. Non-trivial: a table cell or accessor result that was compared; distinct by construction."
	r.Rule += " E3 (schedules): one configured band object, new in every execution, read by two or three threads at once (data-rate lookups by parameters and by index, max payload size; a network server answers many devices from one band configuration): every interleaving of the instrumented accesses (preemption-bounded and unbounded with state-key pruning); every thread gets the answers it gets alone."
	mergeSchedSummary(r, "C13")
	// channel histories (E2): the data-rates handed out stay defined, and supported by a channel, after custom channels are added
	for _, name := range bandNames {
		cfg := bandCfg{name, false, lorawan.DwellTimeNoLimit}
		init := snapOf(newBand(cfg))
		if !init.SupportsExtraChannels {
			continue
		}
		var drs []int
		for dr, d := range init.DataRates {
			if d.Uplink {
				drs = append(drs, dr)
			}
		}
		sort.Ints(drs)
		hi, lo := drs[len(drs)-1], drs[0]
		base := init.UplinkChannels[0].Frequency
		nStd := len(init.UplinkChannels)
		add := func(label string, min, max int) engine.XOp {
			return engine.XOp{Name: label, Do: func(obj interface{}) string {
				b := obj.(band.Band)
				n := len(b.GetUplinkChannelIndices())
				if n-nStd >= 3 {
					return "skip"
				}
				return errS(b.AddChannel(base+10000000+uint32(n)*200000, min, max))
			}}
		}
		x := engine.XSpec{
			Name: "datarate-closure-histories/" + string(name), New: func() interface{} { return newBand(cfg) },
			Ops: []engine.XOp{
				add(fmt.Sprintf("Add(fresh,DR%d..%d)", hi, hi), hi, hi),
				add(fmt.Sprintf("Add(fresh,DR%d..%d)", lo, lo), lo, lo),
				add("Add(fresh,cflist-range)", init.CFListMinDR, init.CFListMaxDR),
				{Name: "Toggle(0)", Do: func(obj interface{}) string {
					b := obj.(band.Band)
					if snapOf(b).UplinkChannels[0].Enabled {
						return errS(b.DisableUplinkChannelIndex(0))
					}
					return errS(b.EnableUplinkChannelIndex(0))
				}},
			},
			Snap:  func(obj interface{}) string { return chanSnap(snapOf(obj.(band.Band))) },
			Warm:  bandWarm,
			Depth: 5,
		}
		x.CheckState = func(c *engine.Case, obj interface{}, path []int) {
			b := obj.(band.Band)
			s := snapOf(b)
			c.NonTrivial()
			for _, dr := range b.GetEnabledUplinkDataRates() {
				c.Eval()
				if _, ok := s.DataRates[dr]; !ok {
					c.Fail(fmt.Sprintf("closure/%s/enabled-uplink-datarates", regionOf(name).Name), fmt.Sprintf("%v after %v: GetEnabledUplinkDataRates hands out DR%d, which the band does not define", name, x.PathNames(path), dr), nil)
					continue
				}
				supported := false
				for _, ch := range s.UplinkChannels {
					if dr >= ch.MinDR && dr <= ch.MaxDR {
						supported = true
					}
				}
				if !supported {
					c.Fail(fmt.Sprintf("closure/%s/enabled-uplink-datarate-without-channel", regionOf(name).Name), fmt.Sprintf("%v after %v: GetEnabledUplinkDataRates hands out DR%d, which no uplink channel supports", name, x.PathNames(path), dr), nil)
				}
			}
			for i, ch := range s.UplinkChannels {
				for _, dr := range []int{ch.MinDR, ch.MaxDR} {
					if _, ok := s.DataRates[dr]; !ok {
						c.Fail(fmt.Sprintf("closure/%s/channel-dr-range", regionOf(name).Name), fmt.Sprintf("%v after %v: channel %d refers to undefined DR%d", name, x.PathNames(path), i, dr), nil)
					}
				}
			}
		}
		r.Explore(x)
		// long histories of additions (the search above stops at three custom channels): after each of 40
		// AddChannel calls of one kind the default channels, read through the accessors, are still the
		// Regional Parameters' defaults, and the closure obligations hold
		name := name
		r.PartDims("deep-adds/"+string(name), []string{"kind of added channel:3", "additions: 1..40 (checked after each)"}, 3, func(c *engine.Case) {
			b := newBand(cfg)
			kinds := [][2]int{{hi, hi}, {lo, lo}, {init.CFListMinDR, init.CFListMaxDR}}
			mm := kinds[c.Index]
			type chv struct {
				f        uint32
				min, max int
			}
			read := func() (up, down []chv, problem string) {
				for i := 0; i < nStd; i++ {
					u, err1 := b.GetUplinkChannel(i)
					d, err2 := b.GetDownlinkChannel(i)
					if err1 != nil || err2 != nil {
						return nil, nil, fmt.Sprintf("default channel %d is not readable: %v %v", i, err1, err2)
					}
					up = append(up, chv{u.Frequency, u.MinDR, u.MaxDR})
					down = append(down, chv{d.Frequency, d.MinDR, d.MaxDR})
				}
				return
			}
			up0, down0, problem := read()
			if problem != "" {
				c.Fail("deep-adds/default-channel-unreadable", fmt.Sprintf("%v: %s", name, problem), nil)
				return
			}
			for k := 1; k <= 40; k++ {
				c.Eval()
				n := len(b.GetUplinkChannelIndices())
				if err := b.AddChannel(base+10000000+uint32(n)*200000, mm[0], mm[1]); err != nil {
					c.Fail("deep-adds/add-refused", fmt.Sprintf("%v: addition number %d (DR%d..%d) refused: %v", name, k, mm[0], mm[1], err), nil)
					return
				}
				up, down, problem := read()
				if problem != "" {
					c.Fail("deep-adds/default-channel-unreadable", fmt.Sprintf("%v after %d additions: %s", name, k, problem), nil)
					return
				}
				if fmt.Sprint(up) != fmt.Sprint(up0) || fmt.Sprint(down) != fmt.Sprint(down0) {
					c.Fail(fmt.Sprintf("defaults/%s/changed-by-additions", regionOf(name).Name), fmt.Sprintf("%v after %d additions (DR%d..%d): default channels are uplink %v downlink %v; the band's defaults are uplink %v downlink %v", name, k, mm[0], mm[1], up, down, up0, down0), nil)
					return
				}
				x.CheckState(c, b, nil)
			}
			c.Outcome("deep-adds/40-additions")
		})
	}
	bandGetterHistory(r)
	bandConstructionStability(r)
	bandInstanceHistory(r)
	r.Assume("numeric payload sizes are judged by the stated relations (M=N+8, N<=242, repeater<=non-repeater, monotone in SF at equal bandwidth), not cell by cell against the Regional Parameters (the property does not state it)")
	r.Assume("the pair {M:0,N:0} is the library's encoding of 'not usable' under dwell-time and is exempt from M=N+8")

	cfgs := allBandCfgs(true)
	versions := []string{band.LoRaWAN_1_0_0, band.LoRaWAN_1_0_1, band.LoRaWAN_1_0_2, band.LoRaWAN_1_0_3, band.LoRaWAN_1_0_4, band.LoRaWAN_1_1_0, "9.9.9"}
	revisions := []string{band.RegParamRevA, band.RegParamRevB, band.RegParamRevC, band.RegParamRevRP002_1_0_0, band.RegParamRevRP002_1_0_1, band.RegParamRevRP002_1_0_2, band.RegParamRevRP002_1_0_3, "Z"}
	// unknown strings that sit on the seam between the two arguments: a known version followed by a
	// known revision given as the version (with an empty revision) or as the revision (with an empty
	// version), the empty string and the table's own fallback word - all unknown, all resolving to
	// the latest table by the documented rule
	for _, v := range versions[:6] {
		for _, rv := range revisions[:7] {
			versions = append(versions, v+rv)
		}
	}
	versions = append(versions, "", "latest", band.LoRaWAN_1_0_2+" ", "1.0")
	revisions = append(revisions, "", "latest", band.LoRaWAN_1_0_2+band.RegParamRevA, "a")

	r.PartDims("tables", []string{fmt.Sprintf("config:%d", len(cfgs)), "dr:-1..16", "direction:2", "version:7", "revision:8"}, uint64(len(cfgs)), func(c *engine.Case) {
		cfg := cfgs[c.Index]
		b := newBand(cfg)
		s := snapOf(b)
		reg := regionOf(cfg.name)
		defined := func(dr int) bool { _, ok := s.DataRates[dr]; return ok }

		// (a) every data-rate index the band hands out or refers to is defined
		for i, ch := range s.UplinkChannels {
			for dr := ch.MinDR; dr <= ch.MaxDR; dr++ {
				c.Eval()
				if !defined(dr) {
					c.Fail(fmt.Sprintf("closure/%s/uplink-channel-range", reg.Name), fmt.Sprintf("%v: uplink channel %d range %d..%d contains undefined DR%d", cfg, i, ch.MinDR, ch.MaxDR, dr), nil)
					break
				}
			}
		}
		for i, ch := range s.DownlinkChannels {
			for dr := ch.MinDR; dr <= ch.MaxDR; dr++ {
				c.Eval()
				if !defined(dr) {
					c.Fail(fmt.Sprintf("closure/%s/downlink-channel-range", reg.Name), fmt.Sprintf("%v: downlink channel %d range %d..%d contains undefined DR%d", cfg, i, ch.MinDR, ch.MaxDR, dr), nil)
					break
				}
			}
		}
		for dr, row := range s.RX1DataRateTable {
			for off, v := range row {
				c.Eval()
				c.NonTrivial()
				if !defined(v) {
					c.Fail(fmt.Sprintf("closure/%s/rx1-result/dr%d/off%d", reg.Name, dr, off), fmt.Sprintf("%v: RX1 table [%d][%d] = %d is not a defined data-rate", cfg, dr, off, v), nil)
				}
			}
		}
		// the same through the accessor (bands that compute RX1 have no table): whatever it hands out
		// without an error - for any uplink index -2..17 and offset -1..8 - is a defined data-rate
		for dr := -2; dr <= 17; dr++ {
			for off := -1; off <= 8; off++ {
				c.Eval()
				if v, err := b.GetRX1DataRateIndex(dr, off); err == nil && !defined(v) {
					c.Fail(fmt.Sprintf("closure/%s/rx1-result-accessor", reg.Name), fmt.Sprintf("%v: GetRX1DataRateIndex(%d, %d) = %d is not a defined data-rate", cfg, dr, off, v), nil)
				}
			}
		}
		if !defined(b.GetDefaults().RX2DataRate) {
			c.Fail(fmt.Sprintf("closure/%s/rx2-default", reg.Name), fmt.Sprintf("%v: RX2 default DR%d undefined", cfg, b.GetDefaults().RX2DataRate), nil)
		}
		for _, dr := range b.GetEnabledUplinkDataRates() {
			c.Eval()
			if !defined(dr) {
				c.Fail(fmt.Sprintf("closure/%s/enabled-uplink-datarates", reg.Name), fmt.Sprintf("%v: GetEnabledUplinkDataRates contains undefined DR%d", cfg, dr), nil)
			}
		}

		// (b) lookup by parameters returns the same index (uniqueness decided statically)
		for dr := -1; dr <= 16; dr++ {
			d, err := b.GetDataRate(dr)
			c.Eval()
			if !defined(dr) {
				if err == nil {
					c.Fail(fmt.Sprintf("datarate/%s/undefined-accepted", reg.Name), fmt.Sprintf("%v: GetDataRate(%d) succeeded for an undefined data-rate", cfg, dr), nil)
				}
				continue
			}
			if err != nil {
				c.Fail(fmt.Sprintf("datarate/%s/defined-refused", reg.Name), fmt.Sprintf("%v: GetDataRate(%d): %v", cfg, dr, err), nil)
				continue
			}
			sd := s.DataRates[dr]
			for _, uplink := range []bool{true, false} {
				if uplink && !sd.Uplink || !uplink && !sd.Downlink {
					continue
				}
				c.NonTrivial()
				// the set of indices of this direction with the same parameters must be {dr}
				var same []int
				for k, o := range s.DataRates {
					if (uplink && o.Uplink || !uplink && o.Downlink) && o.Modulation == sd.Modulation && o.SpreadFactor == sd.SpreadFactor && o.Bandwidth == sd.Bandwidth && o.BitRate == sd.BitRate && o.CodingRate == sd.CodingRate && o.OccupiedChannelWidth == sd.OccupiedChannelWidth {
						same = append(same, k)
					}
				}
				sort.Ints(same)
				if len(same) != 1 {
					c.Fail(fmt.Sprintf("datarate/%s/parameters-not-unique", reg.Name), fmt.Sprintf("%v: data-rates %v (uplink=%v) share the parameters %+v", cfg, same, uplink, d), nil)
					continue
				}
				idx, err := b.GetDataRateIndex(uplink, d)
				if err != nil || idx != dr {
					c.Fail(fmt.Sprintf("datarate/%s/lookup-by-parameters", reg.Name), fmt.Sprintf("%v: GetDataRateIndex(uplink=%v, %+v) = %d (err %v), expected %d", cfg, uplink, d, idx, err, dr), nil)
				}
				c.Outcome("datarate/lookup-ok")
			}
			// against the Regional Parameters definition
			if want, ok := reg.DRs[dr]; ok {
				if string(sd.Modulation) != want.Mod || sd.SpreadFactor != want.SF || sd.Bandwidth != want.BW || sd.BitRate != want.BitRate {
					c.Fail(fmt.Sprintf("rp/%s/datarate-definition/dr%d", reg.Name, dr), fmt.Sprintf("%v: DR%d is %s SF%d BW%d BR%d, Regional Parameters: %+v", cfg, dr, sd.Modulation, sd.SpreadFactor, sd.Bandwidth, sd.BitRate, want), nil)
				}
				c.Outcome("rp/datarate-definition-compared")
			}
		}
		for dr := range reg.DRs {
			if !defined(dr) {
				c.Fail(fmt.Sprintf("rp/%s/datarate-missing/dr%d", reg.Name, dr), fmt.Sprintf("%v: DR%d of the Regional Parameters is not defined", cfg, dr), nil)
			}
		}

		// (c) unknown version/revision resolve to the latest table; every defined DR has a size there
		latest := s.MaxPayloadSizePerDR["latest"]["latest"]
		if latest == nil {
			c.Fail(fmt.Sprintf("payload/%s/no-latest-table", reg.Name), fmt.Sprintf("%v: no latest/latest table", cfg), nil)
		}
		for dr := -1; dr <= 16; dr++ {
			for _, v := range versions {
				for _, rv := range revisions {
					c.Eval()
					ps, err := b.GetMaxPayloadSizeForDataRateIndex(v, rv, dr)
					// which table applies, by the documented fallback
					t1, ok := s.MaxPayloadSizePerDR[v]
					if !ok {
						t1 = s.MaxPayloadSizePerDR["latest"]
					}
					t2, ok := t1[rv]
					if !ok {
						t2 = t1["latest"]
					}
					want, has := t2[dr]
					if has != (err == nil) || has && ps != want {
						c.Fail(fmt.Sprintf("payload/%s/fallback", reg.Name), fmt.Sprintf("%v: GetMaxPayloadSize(%q,%q,%d) = %+v err %v; table cell %+v present=%v", cfg, v, rv, dr, ps, err, want, has), nil)
					}
					if v == "9.9.9" && rv == "Z" {
						lw, lhas := latest[dr]
						c.NonTrivial()
						if defined(dr) && err != nil {
							c.Fail(fmt.Sprintf("payload/%s/latest-missing-defined-dr/dr%d", reg.Name, dr), fmt.Sprintf("%v: DR%d is defined but has no maximum payload size under the latest (fallback) revision", cfg, dr), nil)
						}
						if lhas && (err != nil || ps != lw) {
							c.Fail(fmt.Sprintf("payload/%s/unknown-does-not-resolve-to-latest", reg.Name), fmt.Sprintf("%v: DR%d unknown/unknown gives %+v err %v, latest table %+v", cfg, dr, ps, err, lw), nil)
						}
					}
				}
			}
		}
		// (d,f) relations on every listed cell
		for v, m1 := range s.MaxPayloadSizePerDR {
			for rv, m2 := range m1 {
				for dr, ps := range m2 {
					c.Eval()
					c.NonTrivial()
					cell := fmt.Sprintf("payload/%s/rep=%v/dwell=%d/%s/%s/dr%d", reg.Name, cfg.rep, cfg.dt, v, rv, dr)
					if ps.M == 0 && ps.N == 0 {
						c.Outcome("payload/not-usable-cell")
						continue
					}
					if ps.M != ps.N+8 || ps.N > 242 || ps.N < 0 {
						c.Fail(cell+"/M=N+8", fmt.Sprintf("%v %s/%s DR%d: M=%d N=%d violates M = N + 8, 0 <= N <= 242", cfg, v, rv, dr, ps.M, ps.N), nil)
					}
					if !defined(dr) {
						// a size listed for an undefined data-rate (IN865 DR6) is not excluded by the property: recorded
						c.Outcome("payload/cell-for-undefined-dr(recorded)")
						continue
					}
					// sizes never shrink as SF decreases at equal bandwidth
					d := s.DataRates[dr]
					if d.Modulation == band.LoRaModulation {
						for dr2, ps2 := range m2 {
							d2, ok := s.DataRates[dr2]
							if !ok || d2.Modulation != band.LoRaModulation || d2.Bandwidth != d.Bandwidth || d2.SpreadFactor >= d.SpreadFactor || (ps2.M == 0 && ps2.N == 0) {
								continue
							}
							// compared among data-rates of a common direction: the Regional
							// Parameters give the US915/AU915 500 kHz uplink rate (DR4/DR6) and
							// the 500 kHz downlink rates (DR8..13) different repeater limits
							if !(d.Uplink && d2.Uplink || d.Downlink && d2.Downlink) {
								continue
							}
							if ps2.N < ps.N {
								c.Fail(cell+"/shrinks-with-lower-SF", fmt.Sprintf("%v %s/%s: DR%d (SF%d) N=%d but DR%d (SF%d, same bandwidth) N=%d", cfg, v, rv, dr, d.SpreadFactor, ps.N, dr2, d2.SpreadFactor, ps2.N), nil)
							}
						}
					}
					c.Outcome("payload/cell")
				}
			}
		}
		// (e) repeater-compatible sizes never exceed the non-repeater ones (through the
		// accessor, i.e. under the documented version/revision fallback)
		if cfg.rep {
			nb := newBand(bandCfg{cfg.name, false, cfg.dt})
			for dr := 0; dr <= 15; dr++ {
				for _, v := range versions {
					for _, rv := range revisions {
						c.Eval()
						ps, err := b.GetMaxPayloadSizeForDataRateIndex(v, rv, dr)
						other, err2 := nb.GetMaxPayloadSizeForDataRateIndex(v, rv, dr)
						if err != nil || err2 != nil {
							continue
						}
						c.NonTrivial()
						if ps.N > other.N || ps.M > other.M {
							c.Fail(fmt.Sprintf("payload/%s/dwell=%d/%s/%s/dr%d/repeater-exceeds-non-repeater", reg.Name, cfg.dt, v, rv, dr), fmt.Sprintf("%v %s/%s DR%d: repeater %+v > non-repeater %+v", cfg, v, rv, dr, ps, other), nil)
						}
						c.Outcome("payload/repeater-compared")
					}
				}
			}
		}

		// (g) Regional Parameters constants
		def := b.GetDefaults()
		if def.RX2Frequency != reg.RX2Freq || def.RX2DataRate != reg.RX2DR {
			c.Fail(fmt.Sprintf("rp/%s/rx2-defaults", reg.Name), fmt.Sprintf("%v: RX2 %d Hz DR%d, Regional Parameters %d Hz DR%d", cfg, def.RX2Frequency, def.RX2DataRate, reg.RX2Freq, reg.RX2DR), nil)
		}
		// number of TX-power steps: the Regional Parameters' count (US915 / AU915: 11 steps up
		// to RP002-1.0.0, 15 since RP002-1.0.1; either revision's count is a published value)
		steps := map[string][]int{"EU868": {8}, "US915": {11, 15}, "AU915": {11, 15}, "CN779": {6}, "EU433": {6}, "CN470": {8}, "AS923": {8}, "KR920": {8}, "IN865": {11}, "RU864": {8}, "ISM2400": {8}}[reg.Name]
		okSteps := len(steps) == 0
		for _, n := range steps {
			if len(s.TXPowerOffsets) == n {
				okSteps = true
			}
		}
		if !okSteps {
			c.Fail(fmt.Sprintf("rp/%s/tx-power-step-count", reg.Name), fmt.Sprintf("%v: %d TX power steps, Regional Parameters %v", cfg, len(s.TXPowerOffsets), steps), nil)
		}
		for k, off := range s.TXPowerOffsets {
			c.Eval()
			if off != -2*k {
				c.Fail(fmt.Sprintf("rp/%s/tx-power-step/%d", reg.Name, k), fmt.Sprintf("%v: TX power index %d offset %d, Regional Parameters -%d dB", cfg, k, off, 2*k), nil)
			}
		}
		for k := -1; k <= 16; k++ {
			var got int
			var err error
			if pn, _, _ := engine.Try(func() { got, err = b.GetTXPowerOffset(k) }); pn {
				// a panic on an invalid index is judged by C15 (accessors with invalid indices)
				c.Outcome("txpower/panic-on-invalid-index(judged by C15)")
				continue
			}
			if k >= 0 && k < len(s.TXPowerOffsets) {
				if err != nil || got != -2*k {
					c.Fail(fmt.Sprintf("rp/%s/tx-power-accessor", reg.Name), fmt.Sprintf("%v: GetTXPowerOffset(%d) = %d err %v", cfg, k, got, err), nil)
				}
			} else if err == nil {
				c.Fail(fmt.Sprintf("txpower/%s/invalid-index-accepted", reg.Name), fmt.Sprintf("%v: GetTXPowerOffset(%d) = %d", cfg, k, got), nil)
			}
		}
		wantUp, wantDown := reg.DefaultUplink(), reg.DefaultDown()
		cmp := func(kind string, got []band.VerifChannel, want [][3]uint32) {
			if len(got) != len(want) {
				c.Fail(fmt.Sprintf("rp/%s/default-%s-channel-count", reg.Name, kind), fmt.Sprintf("%v: %d default %s channels, Regional Parameters %d", cfg, len(got), kind, len(want)), nil)
				return
			}
			for i, w := range want {
				c.Eval()
				c.NonTrivial()
				g := got[i]
				if g.Frequency != w[0] || uint32(g.MinDR) != w[1] || (w[2] != 0xFFFFFFFF && uint32(g.MaxDR) != w[2]) || g.Custom || !g.Enabled {
					c.Fail(fmt.Sprintf("rp/%s/default-%s-channel", reg.Name, kind), fmt.Sprintf("%v: %s channel %d is %+v, Regional Parameters %d Hz DR%d..%d", cfg, kind, i, g, w[0], w[1], int32(w[2])), nil)
					return
				}
			}
			c.Outcome("rp/default-channels-compared")
		}
		cmp("uplink", s.UplinkChannels, wantUp)
		cmp("downlink", s.DownlinkChannels, wantDown)
		// Name() and GetDownlinkTXPower() are called and recorded, not judged: the property
		// speaks about data-rates, payload sizes, channels, RX2 defaults and TX-power steps
		c.Outcome("name/" + b.Name())
		c.Outcome(fmt.Sprintf("downlink-tx-power(869.525 MHz)=%d", b.GetDownlinkTXPower(869525000)))
		// the channel plan as the API hands it out: every channel of the tables, and only those
		for kind, tbl := range map[string][]band.VerifChannel{"uplink": s.UplinkChannels, "downlink": s.DownlinkChannels} {
			get := b.GetUplinkChannel
			if kind == "downlink" {
				get = b.GetDownlinkChannel
			}
			for i := -1; i <= len(tbl); i++ {
				c.Eval()
				ch, err := get(i)
				if i < 0 || i >= len(tbl) {
					if err == nil {
						c.Fail(fmt.Sprintf("rp/%s/%s-channel-accessor/invalid-index-accepted", reg.Name, kind), fmt.Sprintf("%v: %s channel %d of %d handed out", cfg, kind, i, len(tbl)), nil)
					}
					continue
				}
				if err != nil || ch.Frequency != tbl[i].Frequency || ch.MinDR != tbl[i].MinDR || ch.MaxDR != tbl[i].MaxDR {
					c.Fail(fmt.Sprintf("rp/%s/%s-channel-accessor", reg.Name, kind), fmt.Sprintf("%v: %s channel %d of %d: accessor gives %+v (err %v), the plan holds %+v", cfg, kind, i, len(tbl), ch, err, tbl[i]), nil)
				}
			}
		}
		if c.WantSample() {
			c.Sample(func() interface{} {
				ps, _ := b.GetMaxPayloadSizeForDataRateIndex("9.9.9", "Z", 0)
				return map[string]interface{}{"part": "tables", "config": cfg.String(), "dr0_under_unknown_version": fmt.Sprintf("%+v", ps), "datarates": len(s.DataRates)}
			})
		}
	})

	r.Guard(r.OutcomeCount("datarate/lookup-ok") > 0 && r.OutcomeCount("payload/cell") > 1000, "data-rate lookups and >1000 payload cells compared (%d)", r.OutcomeCount("payload/cell"))
	r.Guard(r.OutcomeCount("payload/repeater-compared") > 0 && r.OutcomeCount("rp/default-channels-compared") > 0 && r.OutcomeCount("rp/datarate-definition-compared") > 0, "repeater relation and Regional Parameters constants compared")
}

#!/bin/sh
# development helper: copy the deliverables of a seeding round from the agents' scratch worktrees
# into /verif/seeded and remove the worktrees. usage: import_seeds.sh <round-number> <letter> <letter>
R=$1; shift
for p in 01 02 03 04 05 06 07 08 09 10 11 12 13 14 15 16 17 18 19 20; do
  for x in "$@"; do
    s=/tmp/seed$R-C$p/seed/$x; d=/verif/seeded/C$p-$x
    if [ -f $s/patch.diff ] && [ -f $s/demo_test.go ]; then
      mkdir -p $d; cp $s/patch.diff $s/demo_test.go $d/; cp $s/NOTES.md $d/ 2>/dev/null
    else
      echo "missing: $s"
    fi
  done
  git -C /repo worktree remove --force /tmp/seed$R-C$p 2>/dev/null
done
git -C /repo worktree prune

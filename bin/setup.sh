#!/bin/sh
# Run once after a fresh restore, offline: warms the Go build cache by building
# the checkers against /repo (build tag verif), plain and with the overlay.
set -u
VERIF=${VERIF_ROOT:-/verif}
export GOFLAGS=-mod=mod GOPROXY=off GOSUMDB=off GOTOOLCHAIN=local
export GOCACHE=${GOCACHE:-$VERIF/.cache/go-build}
mkdir -p "$VERIF/.bin" "$VERIF/evidence" "$VERIF/replays"
cd "$VERIF/mc" || exit 1
cp /repo/go.sum go.sum
go build -tags verif -o "$VERIF/.bin/check.setup" ./cmd/check || exit 1
"$VERIF/.bin/check.setup" -list
rm -f "$VERIF/.bin/check.setup"
# the overlay builds (what bin/check.sh really runs)
OV="$VERIF/.bin/ov.setup"
rm -rf "$OV"; mkdir -p "$OV"
if go run ./cmd/overlaygen -recv band,backend/joinserver -repo /repo -rt "$VERIF/mc/schedrt" -out "$OV" . band backend/joinserver backend applayer/clocksync applayer/multicastsetup applayer/fragmentation applayer/firmwaremanagement airtime gps > "$OV/gen.log" 2>&1; then
  go build -tags verif -overlay "$OV/overlay.json" -o "$OV/check" ./cmd/check || echo "setup: overlay build of cmd/check failed"
  go build -tags "verif sched" -overlay "$OV/overlay.json" -o "$OV/sched" ./cmd/schedcheck || echo "setup: overlay build of cmd/schedcheck failed"
else
  echo "setup: overlay generation failed"; tail -3 "$OV/gen.log"
fi
rm -rf "$OV"
exit 0

#!/bin/sh
# Run once after a fresh restore, offline: warms the Go build cache by building
# the checker against /repo (build tag verif).
set -u
VERIF=${VERIF_ROOT:-/verif}
export GOFLAGS=-mod=mod GOPROXY=off GOSUMDB=off GOTOOLCHAIN=local
export GOCACHE=${GOCACHE:-$VERIF/.cache/go-build}
mkdir -p "$VERIF/.bin" "$VERIF/evidence" "$VERIF/replays"
cd "$VERIF/mc" || exit 1
cp /repo/go.sum go.sum
go build -tags verif -o "$VERIF/.bin/check.setup" ./cmd/check || exit 1
"$VERIF/.bin/check.setup" -list
rm -f "$VERIF/.bin/check.setup"

#!/bin/sh
# development helper: run every registered quick (or given tier) check, print one line each
TIER=${1:-quick}
cd ${VERIF_ROOT:-/verif}
for id in $(python3 -c "import json;print(' '.join(c['property_id'] for c in json.load(open('MANIFEST.json'))['checks']))"); do
  s=$(date +%s)
  out=$(bin/check.sh $id $TIER 2>&1); rc=$?
  e=$(date +%s)
  echo "$id rc=$rc $((e-s))s $(echo "$out" | grep -cE '^VIOLATION') violations $(echo "$out" | grep -cE '^KNOWN-FINDING') known $(echo "$out" | grep -E '^HARNESS' | head -1)"
done

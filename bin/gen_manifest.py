#!/usr/bin/env python3
"""Writes /verif/MANIFEST.json from the table below (single source of truth)."""
import json, os, subprocess
V = os.environ.get("VERIF_ROOT", "/verif")

E1 = "bounded-exhaustive enumeration of a finite input product on the real code, against an independent specification model (model checking of a sequential library: every input shape up to stated bounds)"
E2 = "explicit-state breadth-first search over operation sequences on real objects with canonical-state dedup and a lock-step Go reference model"
E3 = "stateless schedule exploration under a cooperative scheduler with iterative preemption bounding and vector-clock race detection"

checks = {
 # id: (level, engine, technique, text, note)
 "C20": ("exploration", "enum", E1,
         "Complete enumeration of the airtime parameter product and the EIRP index/float32 spaces, and a dense deterministic enumeration of UTC instants / GPS durations (every day 1980-2100, every ms around all 18 leap instants) against an independent leap-second list and the Semtech formula in exact rational arithmetic.",
         "Trusted: Go time arithmetic, math/big; the leap-second list and EIRP table transcribed in mc/spec. Instants between the enumerated ones (ns resolution over 120 years) are covered by the piecewise-linearity of the mapping between table entries, which the enumerated window edges pin down."),
 "C11": ("exploration", "enum", E1,
         "Every NetID (thorough: all 2^24; quick: per type all values of the low NwkID-width+2 ID bits with the high bits all-zero/all-one) x 16 previous addresses through SetAddrPrefix/IsNetID/NwkID/NetIDType against the addressing rule written from the specification, single-bit flips of every address and NetID ID bit for the membership test, and position x byte sweeps of all four identifier types through text/binary/database forms with wrong-length and malformed inputs.",
         "DevAddr dimension is a 16-value alphabet plus complete single-bit walks; identifier round trips use per-position sweeps (byte positions are handled independently by the code)."),
 "C06": ("exploration", "enum", E1,
         "Every byte string of every <=2-byte MAC payload, all 2^24 BeaconFreqReq strings, per-position sweeps (thorough: all byte pairs, all 2^24 NewChannelReq frequency codes) of the 4/5-byte payloads, all 256 header bytes, all 65536 ChMask values, all CID x direction registry entries, CFList and join payload layouts, decoded by the library and by an independent bit-field table and re-encoded by both.",
         "The table model mc/spec/mac.go is written from the LoRaWAN 1.0.4/1.1 text; cells where revisions disagree (DutyCycleReq 16..254, NewChannelReq 2.4 GHz codes) are decoded but not judged."),
 "C02": ("exploration", "enum", E1,
         "Three complete products (frame shapes x versions; the full parameter alphabet product on six shapes with all 32 carried-MIC bit flips; single-bit walks over every bit of FCnt, ConfFCnt, DevAddr, both keys, txDR, txCh and of the serialised frame) executed through Set/Validate/ValidateUplinkDataMICF and compared with B0/B1 + RFC 4493 AES-CMAC written independently from the specification.",
         "crypto/aes trusted; CMAC re-implemented and self-tested on RFC 4493 vectors. 128-bit keys and 32-bit counters are covered by small alphabets plus complete single-bit walks (data-independence of the code in these parameters argued in DESIGN.md section 1)."),
 "C03": ("exploration", "enum", E1,
         "Every payload length 0..255 x direction x key/DevAddr/FCnt alphabets x buffer layouts through the exported EncryptFRMPayload, every FOpts length incl. the rejected 16+, and the four PHYPayload methods over every MType x FPort x FOpts form x FRMPayload form, compared with the specification keystream; lossless-or-error is decided per call (nil error => bytes must equal the spec transform).",
         "crypto/aes trusted; key/DevAddr/FCnt alphabets plus single-bit walks."),
 "C01": ("exploration", "enum", E1,
         "The product of all frame shape dimensions (MType, all FCtrl flag combinations, every FOpts length 0..15 in command and opaque form, FPort absent/0/1/223/224/255, FRMPayload lengths, port-0 command lists) with value alphabets for FCnt/DevAddr, all DLSettings x RXDelay x CFList kinds and CFList content alphabets for join-accepts, join/rejoin requests and proprietary frames: encode must succeed, equal an independently written serialiser, and decode back to the same frame under the property's stated equivalences; base64 text form likewise.",
         "Opaque byte contents are position-distinct fillers (data independence); quick enumerates 11 FRMPayload lengths, thorough all 243."),
 "C04": ("exploration", "enum", E1,
         "All join-request/rejoin type x EUI/nonce/NetID/key alphabets; join-accepts over all 256 DLSettings x RXDelay 0..15 x CFList kinds x JoinReqType x keys and the full value-alphabet product; complete single-bit walks over every MIC input with OptNeg set and clear; every result compared with independently written CMAC / AES-ECB (device side recovers payload|MIC with AES-encrypt) and the decrypt path through marshal/unmarshal.",
         "crypto/aes trusted; alphabets + single-bit walks for the 64/128-bit inputs."),
 "C08": ("exploration", "enum", E1,
         "Control-byte abstraction of all byte strings (MHDR x length x FCtrl byte x rejoin-type byte x FPort byte x filler; the abstraction is itself tested by every-position x every-byte-value sweeps on base frames of every kind): every accepted string with MHDR RFU bits zero must re-encode without error to exactly the input, decode again to a deep-equal frame, and answer every applicable MIC validation with a boolean.",
         "Bytes other than the control bytes are copied by the decoder (data independence, tested by the per-position sweeps). Coverage-guided fuzzing is a different family and is not used."),
 "C09": ("exploration", "enum", E1,
         "Per decoder entry point (frame binary/base64, FOpts/FRMPayload command decode, decrypt-then-decode with two keys, join-accept decrypt, CFList, MACCommand and payload decoders, the four application-layer Commands decoders, nine backend text/JSON unmarshalers and json.Unmarshal into all 20 payload structs) complete enumeration of short inputs and control-byte products; oracle: value or error, no panic, no hang, input buffer and its spare capacity untouched, stream decoders consume at least one byte per command.",
         "Inputs longer than the enumerated bounds are covered by the progress invariant and by length sweeps with fillers up to 512 bytes; 'linear time' is decided by the progress invariant, not by timing."),
 "C12": ("exploration", "enum", E1,
         "Complete enumeration of the finite configuration space (24 band names x repeater x dwell-time) with every uplink channel index, every (uplink DR, RX1 offset) in [-2..16]x[-2..9] and a 16x6 DevAddr/beacon-time alphabet; RX1 channel rule, RX1 data-rate formula / structural rules and ping-slot rule taken from an independent Regional Parameters table; definedness and direction of data-rates read exactly through the snapshot hook.",
         "DevAddr/beacon time use alphabets covering all residues of the hopping rule; LR-FHSS rows and IN865 offsets 6-7 are judged structurally only (no closed formula in the Regional Parameters)."),
 "C13": ("exploration", "enum", E1,
         "Complete enumeration of every data-rate index x direction, every (protocol version, revision, data-rate) query incl. unknown strings, every payload-size cell of every table, every default channel and TX-power index of all 96 configurations; closure and relations decided on the snapshot, constants compared with an independent Regional Parameters table.",
         "Numeric payload cells are judged by the relations the property states, not cell by cell; the SF-monotonicity relation is applied among data-rates of a common direction (the Regional Parameters themselves give the 500 kHz uplink and downlink rates different repeater limits)."),
 "C15": ("model_checking", "xstate", E2,
         "Explicit-state BFS per band over AddChannel (4 argument kinds) / Disable / Enable (6 index kinds incl. -1 and n) from the constructor state, depth 4 quick / 6 thorough, dedup on the snapshot of both channel slices; a Go slice model is stepped in lock-step on every transition and all observers (index sets, accessors with invalid indices, lookups, GetCFList for 7 versions) are compared in every distinct state; every frequency/DR/CFList the band produces is pushed through the MAC encoders and decoded back.",
         "Depth bound (4/6 operations) plus a directed 7-addition history; canonical-state soundness argued in DESIGN.md A.2. Operation sequences of length ~30 named in the quantifier are beyond the bound: the state space closes under Disable/Enable at every explored add-history, so longer sequences revisit explored states unless they add more channels."),
 "C14": ("model_checking", "xstate", E2,
         "Network channel-plan states of the 11 dynamic bands are explored by explicit-state BFS (AddChannel x2 kinds up to 4 additions, Toggle of every channel, until the state set closes); in every state every device subset (incl. one index beyond the plan) is planned by the band, applied by an independent device-side LinkADRReq model and by the library's own apply function; the full 16-channel plan with all 2^16 device subsets; US915/AU915/CN470 over products of per-block patterns for both the network and the device set, network sets produced by real Disable/Enable calls.",
         "72/96-channel plans use pattern products (quick 4 / thorough 7 patterns per 16-channel block), not all 2^72 subsets; the device model mc/spec/region.go is written from the LoRaWAN/RP002 ChMaskCntl tables."),
 "C18": ("exploration", "enum", E1,
         "Every payload type of the four application-layer packages (35 types, both directions): complete products of all in-width field values (or per-field complete sweeps when the product exceeds 200 000) through MarshalBinary/Size/UnmarshalBinary and the Command framing; every command sequence of length <= 3 over the direction's full command set x 2 values and of length 4..6 over a 4-command sub-alphabet through Commands.UnmarshalBinary; multicast key derivations against independent AES over key and McAddr alphabets with single-bit walks.",
         "Field widths from TS003-TS006; 16/24/32-bit fields use {0,1,max,alternating, every single bit}."),
 "C19": ("exploration", "enum", E1,
         "All fragment counts 1..300 with 100 parity lines each against an independent transcription of the TS004 matrix_line, systematic/linearity checks over fragment sizes 1..64, every erasure pattern of <= 2 lost data fragments for M <= 64 through an independent GF(2) decoder fed with the encoder's output, and the invalid-argument family.",
         "Linearity (checked) reduces arbitrary data to basis vectors."),
 "C17": ("exploration", "enum", E1,
         "Frequency (quick: 10 M values on the 100 Hz grid of the LoRa bands plus twenty every-Hz windows; thorough: every Hz value 0..2^32), every Percentage -1000..1000, HEXBytes lengths 0..40, ISO8601Time every second of four days x three zones, each of the 20 payload structs with every subset (up to 2^10) of its optional fields x 3 value variants through json.Marshal/Unmarshal compared field by field, and key envelopes over KEK sizes/keys/labels with every single-bit flip of the wrapped blob, wrong KEK and wrong lengths against an independent RFC 3394.",
         "encoding/json, strconv and crypto/aes trusted; RFC 3394 re-implemented and self-tested."),
 "C07": ("model_checking", "xstate", E2,
         "Registry histories: explicit-state BFS over RegisterProprietaryMACCommand(direction x {0x7F,0x80,0xFF} x size {-1,0,1,2,16}) from the reset registry (depth 2 quick / 3 thorough) against a map model, with all 256 CIDs x 2 directions and the stream framing of the registered CIDs compared in every state. Values: every 8-bit/boolean field of every MAC payload over its complete Go domain (one field at a time x 3 base tuples, all pairs for two-field payloads), frequency windows and single-bit values (thorough: every multiple of 50 Hz), DeviceTimeAns boundary durations; oracle lossless-or-error and must-accept ranges. Streams: all sequences of <= 3 (thorough 4) commands over the complete CID set with adversarial payloads, all sequences over a size-class alphabet up to 15 bytes, fills to 15/242 bytes, and 3-byte strings against the specification framer.",
         "The full set of command sequences up to 15 bytes (~10^14) is out of reach; it is covered by length <= 3/4 over all CIDs plus all sequences over one CID per payload-size class (the framer depends on CIDs only through their size)."),
 "C05": ("model_checking", "xstate", E2,
         "Explicit-state BFS over the sender/receiver operation alphabet (EncryptFRMPayload, EncryptFOpts, SetMIC, Transfer = marshal + fresh unmarshal, SetFCnt32, ValidateMIC, DecryptFOpts, DecryptFRMPayload and their wrong-key / wrong-parameter variants) from 144 initial frames, depth 8 quick / 10 thorough, on real frames paired with the reference model's abstract frame stepped in lock-step: every error/no-error, every Validate verdict, the serialisation after every transition and the decoded command lists are compared. Tamper part: every single-bit flip of every serialised frame and every single-parameter mismatch (all key bits, upper FCnt bits, ConfFCnt, txDR, txCh, version, direction) against the specification MIC of the received content.",
         "Fixed distinguishing keys/counters (bit walks in the tamper part); depth bound 8/10 covers the canonical 8-step history and every reordering / repetition of its steps up to that length."),
 "C10": ("model_checking", "sched", E3 + "; " + E2,
         "Schedules: stateless exploration of all interleavings with up to 3 (quick) / 5 (thorough) preemptions of closed 3-thread scenarios (registration of a proprietary MAC command || uplink decode of 80 aa bb 02 || lookup + downlink decode; two MIC/encrypt threads on private frames || registration; two application-layer decoders) on the real code under a cooperative scheduler; scheduling points at every operation of the sync shim and every (possibly aliased) access to a package-level variable that is written in the package, inserted by an AST overlay generated from /repo's current tree; vector-clock happens-before race check, deadlock / lock misuse detection, per-schedule linearizability and result-equals-sequential oracles, failing schedules replayed twice. Histories: reuse of every decodable type (85 types, all decode sequences of length <= 3 over a 5-6 string alphabet) and explicit-state BFS over band mutators with an untouched second instance compared in every state. Inputs: aliasing of decode input / encode output, guard bytes around encrypted slices, inspect-only operations.",
         "Memory-model effects below Go's happens-before are not modelled; 3 threads per scenario; heap objects are not shared between harness threads by construction, package-level state is intercepted by the overlay (variables never written outside their declaration are immutable and not instrumented). The runtime race detector is not the deciding oracle (the cooperative scheduler blinds it)."),
 "C16": ("model_checking", "sched", E3 + "; " + E1,
         "Requests through the real http.Handler judged by an independent device + network-server model (join-accept decryption and MIC, echoed fields, 1.0/1.1 session-key derivations, RFC 3394 unwrap): crypto-tuple product, all 256 DLSettings x RxDelay x CFList x JoinNonce echo product, KEK configurations, all 32 MIC bit flips, malformed bodies. Schedules: all 25 ordered pairs of {join 1.0, join 1.1, rejoin 0, unknown device, bad MIC} through one handler under the cooperative scheduler with scheduling points at every task boundary (verif hook), configuration callback and instrumented package-level access, preemption bound 3 quick / unbounded with a per-pair budget thorough; every response must be byte-identical to the response served alone; happens-before race check.",
         "2 concurrent requests; logging goes to a discarding logger; the HTTP transport itself (net/http server goroutines) is outside the harness."),
}

HIST = " Second stage (DESIGN.md 10.5): the history oracle - every sequence of calls of a per-property alphabet up to depth 2-4 in one goroutine; each call must return what it returns alone (history independence), earlier results must not change under later calls (result stability), multi-step calls carry their own consistency verdict - and an adversarial sync.Pool (bytes inverted while the pool owns an object) in every build."
HIST_ON = {"C01": "frames", "C02": "frame cryptography", "C03": "frame cryptography", "C04": "frame cryptography", "C05": "frame cryptography", "C06": "frames", "C08": "frames", "C09": "frames (incl. a relayed frame decoded from the receiver's own payload bytes)",
           "C10": "frames, frame cryptography and band instances", "C11": "addressing and identifier text forms", "C12": "band getters (pairs; refusable calls: triples) plus an explicit-state search over channel histories with duplicate frequencies",
           "C13": "band getters and band instances", "C14": "band getters", "C17": "key envelopes with a KEK buffer overwritten in place", "C19": "Encode on session buffers with spare capacity"}
for k, what in HIST_ON.items():
    lv, eng, tech, text, note = checks[k]
    checks[k] = (lv, eng, tech, text + HIST + " Alphabet here: " + what + ".", note)
lv, eng, tech, text, note = checks["C14"]
checks["C14"] = (lv, eng, E2 + "; " + E3, text + " Schedules: one band object shared by three threads planning for three devices (CN470, US915, EU868+custom), preemption-bounded and unbounded with state-key pruning; probes on receiver fields some method writes; every plan equals the plan made alone, no race, no deadlock.", note + " Read-only methods being safe for concurrent callers is taken as part of 'for any history': a network server plans for all its devices from one band object.")
for k in ("C10", "C16"):
    lv, eng, tech, text, note = checks[k]
    checks[k] = (lv, eng, tech, text + " Every scenario is additionally explored without a preemption bound, with canonical state-key pruning (evidence: all_interleavings_covered, distinct_global_states); sync.RWMutex is modelled with pending writers excluding new readers (recursive read locks deadlock as in Go); reads of names no execution writes and accesses to objects only one thread touches are not scheduling points (checked assumptions, fixpoint restart).", note)
lv, eng, tech, text, note = checks["C15"]
checks["C15"] = (lv, eng, tech, text + " Second stage: read-only operations are called in every state a path passes through (warm hook: a memo a mutator forgets to invalidate becomes stale, not absent); directed block-pattern histories on the fixed plans (every subset of whole 16-channel blocks switched off by real Disable calls).", note)
lv, eng, tech, text, note = checks["C07"]
checks["C07"] = (lv, eng, tech, text + " In every registry state the encoder side is checked too: a proprietary command carrying the size registered for its direction encodes to CID|payload, alone and inside a frame of that direction, and decodes back.", note)

# third stage (DESIGN.md 10.6)
STAGE3 = {
 "C03": " Third stage: the four encryption methods on frames whose FOpts / FRMPayload cannot be serialised (a nil error with an unchanged frame is the violation).",
 "C04": " Third stage: the receiver's side (the specification's frame decoded from the wire validates and recomputes the same MIC) and the MIC of the other form (1.0 vs 1.1) presented to every join-accept, which must be rejected.",
 "C06": " Third stage: DeviceTimeAns durations at seven offsets inside every 1/256 s step (what the bytes denote is less than one step away).",
 "C07": " Third stage: DeviceTimeAns between wire steps; in every registry state a stream with the registered proprietary CID twice with different bytes, and a second stream decoded while the first result is kept.",
 "C09": " Third stage: every decoder also on an exact-capacity copy of its input (over-reads), 17 lengths around 255 x 16 bytes and 2^16; schedules: the FOpts / FRMPayload command decoders against concurrent registrations, every interleaving, every thread returns (sync.RWMutex with pending writers: a recursive read lock is a deadlock).",
 "C11": " Third stage: every byte length 0..4n+2 x four fillers (incl. ASCII hex digits) through binary decode and Scan, every number of hex digits 0..6n+4 x three digit patterns x {plain, 0x}.",
 "C12": " Third stage: IN865 RX1 table as an exact rule; 50 far integers (folded onto valid indices by any narrowing conversion) through the data-rate and offset arguments.",
 "C13": " Third stage: explicit-state search over channel histories, every data-rate handed out is defined and supported by a channel.",
 "C14": " Third stage: 20-channel dynamic plans (second block; generic block rule in the device model, stated as an assumption).",
 "C16": " Third stage: every zero/non-zero pattern of the six CFList masks, channel lists with extreme frequency codes, the three JSON spellings of an absent CFList; handlers hand their KEKs out by reference while the judge keeps its own copies.",
 "C17": " Third stage: text / JSON decoding into reused receivers (an empty value must replace what the receiver held).",
 "C18": " Third stage: every payload re-encoded with its byte slices held as windows into larger buffers (the encoding must not depend on capacity); history alphabets per package and direction.",
 "C19": " Third stage: six data patterns (among them rows whose 8-byte words cancel under XOR).",
 "C20": " Third stage: every instant also held in four other Locations; schedules: conversions of three published instants and an airtime computation from three threads including the first calls of the process (a round the fixpoint abandons is judged before it is discarded).",
}
for k, t in STAGE3.items():
    lv, eng, tech, text, note = checks[k]
    checks[k] = (lv, eng, tech, text + t, note)
for k in ("C09", "C20"):
    lv, eng, tech, text, note = checks[k]
    checks[k] = (lv, eng, E1 + "; " + E3, text, note)

# later rounds (DESIGN.md 10.7 - 10.9)
LATER = {
 "C01": " Later rounds: text form of every 1..3-byte proprietary payload pattern x 4 MICs; the frame alphabet overwrites its input buffer after decoding, logs received frames as JSON / text, and carries frames with FPort 0 / FPort without payload and with a registered proprietary command.",
 "C03": " Later rounds: FRMPayload given as several items; a nil result on over-long FOpts must preserve the length.",
 "C04": " Later rounds: encryption with explicitly carried MIC values (all-zero included).",
 "C05": " Later rounds: the sender-receiver hop also in base64 text form; every decodable tampered frame is validated whatever it decodes to (rejection, never a panic).",
 "C06": " Later rounds: channel-mask CFList in the join-accept layout for every DLSettings byte.",
 "C08": " Later rounds: received frames are logged (JSON, text) before re-encoding.",
 "C09": " Later rounds: well-formed text of every length 0..130 (8 patterns) through all text decoders and JSON; an allocation-based cost oracle (bytes allocated on 16k/32k/64k-character inputs may not more than triple per doubling).",
 "C10": " Later rounds: reuse histories demand equal acceptance (error into a used value iff error into a fresh one); guarded join-accept / proprietary / opaque-CFList buffers; a schedule scenario with keys no earlier call of the process has used.",
 "C13": " Later rounds: RX1 results through the accessor, number of TX-power steps per region, channel plans walked through the accessors.",
 "C14": " Later rounds: placeholder channels (frequency 0) in the explored histories.",
 "C15": " Later rounds: 50 far integers through every index accessor.",
 "C16": " Later rounds: upper-case SenderID, failing / default operator callbacks and HomeNSReq (mirrored identifiers), the MACVersion string x OptNeg, and k requests carrying one PHYPayload in flight together with the overlap forced through the device-keys callback.",
 "C17": " Later rounds: the 13 building-block structs enumerate the subsets of their own optional fields.",
 "C18": " Later rounds: every payload decoded into a value used before; DevUpgradeImageAns as received (status byte 0..255 x versions x follower).",
 "C19": " Later rounds: large blocks and redundancy up to 130 (M up to 300, fragment size up to 64).",
 "C20": " Later rounds: the day enumeration starts at 1980-01-01 (five days before the GPS epoch).",
}
for k, t in LATER.items():
    lv, eng, tech, text, note = checks[k]
    checks[k] = (lv, eng, tech, text + t, note)

R7TXT = {
 "C01": " Seventh round: the same frame in its other Go forms (empty non-nil FOpts / FRMPayload lists, payloads held as several items) encodes to the specification bytes; unused-slot channel CFLists.",
 "C02": " Seventh round: every value form that serialises to the same bytes (FRMPayload / FOpts in several items, empty items, empty non-nil lists) has the same specification MIC.",
 "C03": " Seventh round: a history of 4096 (thorough 131072) steps each under a key not used before in the process, compared with the specification key stream.",
 "C04": " Seventh round: channel CFLists with all / all but one slot unused; a received join-accept changed in place after decryption validates / is signed as the changed payload.",
 "C06": " Seventh round: all 256 MHDR bytes as the first byte of a complete frame (binary and text): accepted and decoded as with the RFU bits clear.",
 "C07": " Seventh round: struct fields the library has beyond the specification table (OptNeg in RXParamSetupReq) are lossless-or-error over their Go domain.",
 "C08": " Seventh round: a frame of the history alphabet that the encoder refuses is a judged case instead of stopping the check.",
 "C09": " Seventh round: the many-keys history (every step a key not used before; no panic, specification results).",
 "C10": " Seventh round: schedule scenario with a size-0 registration next to a real registration and a decoder.",
 "C11": " Seventh round: previous addresses of every type prefix x four fillings (40 values).",
 "C16": " Seventh round: the all-zero key in both root-key alphabets.",
 "C17": " Seventh round: Unwrap succeeds iff the integrity check passes also for envelopes without label, without KEK and for clear keys.",
}
for k, t in R7TXT.items():
    lv, eng, tech, text, note = checks[k]
    checks[k] = (lv, eng, tech, text + t, note)

R8TXT = {
 "C02": " Eighth round: many-keys history (4096 / 131072 key pairs, returning to earlier ones); the MIC of every single-bit-different FCnt is rejected and validation leaves the frame unchanged.",
 "C04": " Eighth round: many-keys history of join / rejoin / join-accept MICs; six-mask CFLists.",
 "C05": " Eighth round: many-sessions history (1024 / 32768 devices, frames of a batch of up to 700 devices all sent before the first is received); tamper walks over frames up to the 255-byte maximum.",
 "C06": " Eighth round: the registry part starts from the reset registry and judges the proprietary range 0x80..0xFF too.",
 "C07": " Eighth round: every registered size 1..300 framed as FOpts and as a port-0 payload; one MACCommand value used twice over all (direction, CID) pairs. Ninth round: a refused encoding (one command encodes, the next is out of range) before a valid sequence, over every first command.",
 "C09": " Eighth round: application-layer decoders on every length 41..512 x leading CID x 3 fillers (several hundred commands).",
 "C10": " Eighth round: reuse histories also with the caller setting every exported scalar between the decodes; MACCommand reuse across directions.",
 "C13": " Eighth round: 40 additions of each kind, default channels read through the accessors after each.",
 "C14": " Eighth round: plans of 17..128 channels (12 sizes x 6 network x 6 device patterns); beyond 96 channels, where the specification defines no block meaning for ChMaskCntl 6 and 7, the library's own apply function is the device.",
 "C15": " Eighth round: histories of 32 (thorough 36) operations: two spines of additions with one (thorough two) deviations over the whole alphabet at every position.",
 "C16": " Eighth round: many-devices history (1024 / 32768 devices with their own keys through one handler).",
 "C17": " Eighth round: HEXBytes of every length 0..600 and 1..64 KiB; many-KEKs history.",
 "C18": " Eighth round: many-keys history of the five TS005 derivations.",
 "C20": " Eighth round: durations over the whole int64 range (+-2^k and neighbours, the ends, around the Unix-nanosecond limit).",
}
for k, t in R8TXT.items():
    lv, eng, tech, text, note = checks[k]
    checks[k] = (lv, eng, tech, text + t, note)

R9TXT = {
 "C01": " Ninth round: a proprietary CID registered only after frames carrying it were decoded; refused frames whose first commands encode.",
 "C04": " Ninth round: valid(key A), refused(key X), valid(key X) over 4 kinds of refusal x encrypt/decrypt x CFList.",
 "C06": " Ninth round: every payload byte string also through MACCommand.UnmarshalBinary (same acceptance, same value).",
 "C09": " Ninth round: every single-position replacement / insertion over a 16-symbol alphabet in 8 well-formed seed texts through every text decoder and as JSON members.",
 "C12": " Ninth round: every configuration built 64 times, snapshots compared (construction stability).",
 "C13": " Ninth round: construction stability; RX1 accessor results for every uplink index -2..17 x offset -1..8.",
 "C14": " Ninth round: construction stability; an addition the band may refuse (inverted DR range) in the explored histories - a refused call changes nothing.",
 "C15": " Ninth round: construction stability; a fifth AddChannel kind (inverted DR range, accepted or refused as the band chooses).",
 "C16": " Ninth round: the device table changes between requests: every sequence of <= 4 steps over {provision, remove, three request kinds, bad MIC}.",
 "C17": " Ninth round: a refused Unwrap leaves the envelope unchanged and usable.",
 "C19": " Ninth round: Encode(w1), refused Encode (floor = w2 / size 0 / negative), Encode(w2) over 8 x 8 fragment counts.",
}
for k, t in R9TXT.items():
    lv, eng, tech, text, note = checks[k]
    checks[k] = (lv, eng, tech, text + t, note)

R10TXT = {
 "C01": " Tenth round: the other direction's registration of the same proprietary CID (before / after, another size); received FOpts and FRMPayload as windows into one buffer plus an added FOpts item (a forwarder that does not copy).",
 "C02": " Tenth round: frames decoded and then changed (FOpts of another length, FCtrl copied into a new frame) - the MIC is the specification MIC of the emitted frame; frames whose correct MIC is 00000000 / ffffffff (searched witnesses).",
 "C03": " Tenth round: FPort 223 / 224 / 225; FRMPayload items of the caller's own Payload type.",
 "C04": " Tenth round: join-request and join-accept witnesses whose correct MIC is 00000000 / ffffffff.",
 "C05": " Tenth round: sender and receiver key sets over {K1, K2, all-zero}^2 each; an exchange whose frame carries the MIC 00000000 / ffffffff.",
 "C06": " Tenth round: CFList decoded into a used receiver; registration changed g = 2^k-1, 2^k, 2^k+1 times between two decodes (k <= 17 / 20).",
 "C07": " Tenth round: registration change gaps as in C06; E3: two overlapping registrations of different CIDs next to a decoder (both present afterwards).",
 "C08": " Tenth round: proprietary frames in the lengths of a join-request and of both rejoin-requests in the reused-receiver histories.",
 "C09": " Tenth round: a Go runtime fatal error (concurrent map access) under the parallel enumeration is a violation in its own right here and in C10.",
 "C10": " Tenth round: FOpts / FRMPayload given as the front part of a longer list (spare capacity) through seven operations; E3: two overlapping registrations.",
 "C12": " Tenth round: the 128 s beacon period boundary -1 ns / 0 / +1 ns at ten period numbers up to 7.2e7.",
 "C13": " Tenth round: 46 unknown version strings on the seam between the two arguments (known version + known revision, empty, the word latest).",
 "C14": " Tenth round: every configuration (repeater x dwell-time) x custom channels of five DR-range kinds x enable patterns x all device subsets.",
 "C15": " Tenth round: lookups for the 32 single-bit neighbours of the first and last channel frequency.",
 "C16": " Tenth round: a wrong MIC together with a second defect (malformed CFList, RxDelay 16, JoinNonce 2^24); join-requests whose correct MIC is 00000000 / ffffffff.",
 "C17": " Tenth round: blobs wrapped under the same KEK with 37 other initial values (RFC 5649's for every length, all-zero, all-one, single-bit neighbours) are refused; the whole check again under three process time zones.",
 "C18": " Tenth round: 32-bit (GPS time) fields also over the seconds around the 18 leap seconds.",
 "C20": " Tenth round: the whole check again in child processes under TZ=Asia/Tokyo, America/Los_Angeles, Pacific/Kiritimati.",
}
for k, t in R10TXT.items():
    lv, eng, tech, text, note = checks[k]
    checks[k] = (lv, eng, tech, text + t, note)
lv, eng, tech, text, note = checks["C07"]
checks["C07"] = (lv, eng, tech + "; " + E3, text, note)

R11TXT = {
 "C02": " Eleventh round: frames kept by value while the variable they were decoded into receives the next frame; receive buffers overwritten before validation.",
 "C03": " Eleventh round: application bytes without FPort through the encrypting methods (a reported success preserves the length).",
 "C04": " Eleventh round: the receive buffer is overwritten between decoding and DecryptJoinAcceptPayload.",
 "C06": " Eleventh round: DutyCycleReq 255 (LoRaWAN 1.0.0 - 1.0.2: become silent) is a value the encoder must accept.",
 "C07": " Eleventh round: command sequences of length 0..3 on port 0 through EncryptFRMPayload, the wire and DecryptFRMPayload (the empty sequence included).",
 "C09": " Eleventh round: a third registry state made of size-0 registrations.",
 "C10": " Eleventh round: E3 - the first calls of two threads in a process that has not used the library yet, one process per schedule (preemption bound 1 quick / 2 thorough); sync.Once modelled as a critical section; mutating method calls on receiver fields and addresses handed to functions are write probes, addresses merely taken are reads.",
 "C12": " Eleventh round: custom channels added in descending order of frequency in the channel histories.",
 "C13": " Eleventh round: the LR-FHSS rows of EU868 / US915 / AU915 in the Regional Parameters table (modulation only).",
 "C14": " Eleventh round: a custom channel on the frequency of a standard channel in the explored histories.",
 "C16": " Eleventh round: E3 - receiver-field probes also in the join-server package (a buffer held by the handler).",
 "C17": " Eleventh round: the string-typed members (ResultCode, MessageType, ProtocolVersion, ..) over the specification's spellings, the library's constants and their case / suffix neighbours.",
 "C18": " Eleventh round: commands are decoded from a receive buffer with spare capacity that is overwritten afterwards.",
}
for k, t in R11TXT.items():
    lv, eng, tech, text, note = checks[k]
    checks[k] = (lv, eng, tech, text + t, note)

R12TXT = {
 "C01": " Twelfth round: join-accepts whose channel CFList holds the ends of the 24-bit frequency code range (1, 11999999, 12000000, 15000000, 2^24-1).",
 "C02": " Twelfth round: the many-keys history ends with 27 kinds of key pairs that agree under a cheap key fingerprint (32-bit FNV / CRC / Adler / truncated MD5, SHA-1, SHA-256 / multiplicative / XOR / sum, found by exhaustive birthday search; full 64-bit FNV-1, FNV-1a, MD5-8, SHA-1-8, SHA-256-8 found by cycle finding), each pair used a, b, a, b.",
 "C03": " Twelfth round: the many-keys history ends with the fingerprint-colliding key pairs.",
 "C04": " Twelfth round: the many-keys history ends with the fingerprint-colliding key pairs; CFList channels at the ends of the 24-bit code range.",
 "C05": " Twelfth round: every MAC command, each field over its complete in-width domain (frequencies: notable and single-bit codes) at 3 base tuples, followed by a payload-less command, through the complete exchange in plain FOpts, encrypted FOpts and the encrypted port-0 payload; fingerprint-colliding keys in the many-sessions history.",
 "C08": " Twelfth round: all-zero filler in the control-byte enumeration; every contiguous byte range of every base frame set to 00.. / ff.. (multi-byte fields at conspicuous values).",
 "C09": " Twelfth round: the many-keys history ends with the fingerprint-colliding key pairs.",
 "C10": " Twelfth round: payload lists of three elements with an empty one first / in the middle - the calls that only inspect leave the same elements at the same positions; PHYPayload reuse histories in which the receiver's follow-up calls (DecryptJoinAcceptPayload, DecodeFOptsToMACCommands, DecryptFRMPayload, DecodeFRMPayloadToMACCommands) run between the decodes.",
 "C15": " Twelfth round: AddChannel with a frequency from 1.5 GHz up (the upper part of the 100 Hz code range); the CFList decoded from a join-accept is compared by value (trailing all-false masks apart), not only by its re-encoding.",
 "C16": " Twelfth round: devices with fingerprint-colliding root keys at the end of the many-devices history.",
 "C17": " Twelfth round: fingerprint-colliding KEKs at the end of the many-KEKs history.",
 "C18": " Twelfth round: fingerprint-colliding keys at the end of the multicast many-keys history.",
}
for k, t in R12TXT.items():
    lv, eng, tech, text, note = checks[k]
    checks[k] = (lv, eng, tech, text + t, note)

R13TXT = {
 "C03": " Thirteenth round: one payload list (FRMPayload items / FOpts commands) handed to two frames - both come out as the key-stream transform of the caller's plaintext.",
 "C06": " Thirteenth round: the same bytes decoded into a payload value that last decoded their complement give the same value.",
 "C07": " Thirteenth round: every encoding is also decoded into used payload values (which last held the all-ones / all-zero payload).",
 "C10": " Thirteenth round: the guarded payload buffers also wrapped in proprietary MAC commands (CID 0x80) in FOpts and on port 0.",
 "C11": " Thirteenth round: binary, text and database forms decoded a second time from the same buffer.",
 "C18": " Thirteenth round: payloads decoded into values that last decoded a longer / a shorter input.",
 "C20": " Thirteenth round: the airtime tolerance is the truncation the symbol duration's fractional ns allows - none for 125 / 250 / 500 kHz, where the result is the formula's value to the last ns.",
}
for k, t in R13TXT.items():
    lv, eng, tech, text, note = checks[k]
    checks[k] = (lv, eng, tech, text + t, note)

R14TXT = {
 "C01": " Fourteenth round: every decoded frame is looked at the way a log line does (fmt verbs, Stringer / GoStringer, encoding/json, by value and by pointer) before it is compared.",
 "C02": " Fourteenth round: a received frame is formatted (fmt, String, json) between decoding and validation.",
 "C03": " Fourteenth round: the frame is formatted between the encrypting and the decrypting method.",
 "C04": " Fourteenth round: the join-accept is formatted between SetMIC and encryption and between decryption and validation.",
 "C05": " Fourteenth round: the receiver formats every frame it decodes (Transfer operation of the exchange histories, command values, many sessions).",
 "C07": " Fourteenth round: frames are formatted between decoding and DecodeFOpts / DecodeFRMPayload.",
 "C08": " Fourteenth round: an accepted frame is formatted (fmt.Sprint: String() where there is one) before it is re-encoded.",
 "C10": " Fourteenth round: formatting (fmt verbs, String, GoString, json; by value and by pointer) is a seventh inspect-only operation; all seven also on frames whose FOpts are still the bytes from the wire.",
 "C11": " Fourteenth round: the database form is taken the way database/sql takes it - a value of the type asserted to driver.Valuer at run time.",
 "C14": " Fourteenth round: every planned payload is decoded from its encoding and must come back as it was (the device applies what arrives).",
 "C15": " Fourteenth round: the LinkADRReqs planned for three device subsets in every explored state go through the MAC encoder and back.",
 "C16": " Fourteenth round: devices that come back in the many-devices history send lower nonces than before.",
 "C17": " Fourteenth round: a fourth value variant - present pointer fields pointing at the zero value of their type (the zero time, 0, false).",
 "C18": " Fourteenth round: a decoded sequence element is compared as the whole library value (nothing beyond CID and payload).",
}
for k, t in R14TXT.items():
    lv, eng, tech, text, note = checks[k]
    checks[k] = (lv, eng, tech, text + t, note)

R15TXT = {
 "C03": " Fifteenth round: the encrypting methods called on a copy (by assignment) of the frame value - the frame the caller holds is transformed.",
 "C04": " Fifteenth round: join frames kept by plain assignment while their variable decodes the next frame (all ordered pairs of the alphabet) stay what they were.",
 "C06": " Fifteenth round: headers (FHDR, MACPayload, MHDR, FCtrl, CFList, PHYPayload) kept by plain assignment while their variable decodes the next input stay what they were.",
 "C07": " Fifteenth round: a frame decoded with a FOpts bytes whose FOpts are then set to b one-byte commands (a, b in 0..15; edited in place or FCtrl copied into a new header) encodes with FOptsLen b and decodes to those commands.",
 "C08": " Fifteenth round: after the MIC validations (with a key that is not the frame's) the frame still re-encodes to the input.",
 "C09": " Fifteenth round: the registry changes between the decoding runs are cases of their own (a registration that never returns after a decode left a lock behind is a hanging case).",
 "C10": " Fifteenth round: kept copies for every reuse type (decode A, copy by assignment, decode B into the same variable: the copy prints as before); UnmarshalText leaves its source text - also one with line breaks - as it is.",
 "C12": " Fifteenth round: E3 - one configured band object (US915, EU868 + custom channel, CN470), new in every execution, read by two or three threads at once (RX1 frequency / channel / data-rate, ping-slot frequency): every interleaving, every thread gets the answers it gets alone, no race.",
 "C13": " Fifteenth round: E3 - one band object (EU868, US915) read by two or three threads at once (data-rate lookups by parameters and by index, max payload size).",
 "C14": " Fifteenth round: the device list is handed to the planner as a window into a larger buffer and is the same list afterwards.",
 "C15": " Fifteenth round: E3 - one band object (US915, EU868 + custom channels) read by two or three threads at once (channel lookups by frequency and by frequency + data-rate).",
 "C16": " Fifteenth round: key records that do not repeat the DevEUI (every other device).",
 "C17": " Fifteenth round: hex byte strings kept by plain assignment while their variable decodes the next text (8 x 8 lengths, through UnmarshalText and through a JSON document).",
 "C18": " Fifteenth round: E3 - the multicast key derivations for three groups from three threads at once.",
 "C20": " Fifteenth round: the first call into the gps package in every (child) process is a GPS -> UTC conversion of three published instants.",
}
for k, t in R15TXT.items():
    lv, eng, tech, text, note = checks[k]
    if k in ("C12", "C13", "C15", "C18") and E3 not in tech:
        tech = tech + "; " + E3
    checks[k] = (lv, eng, tech, text + t, note)

R16TXT = {
 "C01": " Sixteenth round: the frame history alphabet also calls the MACPayload decoder directly on one kept object (what it decodes re-encodes to its input, whatever the object held before).",
 "C05": " Sixteenth round: the frame history alphabet also calls the MACPayload decoder directly on one kept object (what it decodes re-encodes to its input, whatever the object held before).",
 "C06": " Sixteenth round: the frame history alphabet also calls the MACPayload decoder directly on one kept object (what it decodes re-encodes to its input, whatever the object held before).",
 "C08": " Sixteenth round: the frame history alphabet also calls the MACPayload decoder directly on one kept object (what it decodes re-encodes to its input, whatever the object held before).",
 "C09": " Sixteenth round: the frame history alphabet also calls the MACPayload decoder directly on one kept object (what it decodes re-encodes to its input, whatever the object held before).",
 "C10": " Sixteenth round: the frame history alphabet also calls the MACPayload decoder directly on one kept object (what it decodes re-encodes to its input, whatever the object held before).",
 "C12": " Sixteenth round: the channel histories also configure an unused CFList slot as a disabled 0 Hz placeholder channel between custom channels (uplink and downlink lists must stay index-aligned).",
}
for k, t in R16TXT.items():
    lv, eng, tech, text, note = checks[k]
    checks[k] = (lv, eng, tech, text + t, note)

def load_extra():
    p = os.path.join(V, "bin", "manifest_table.json")
    if os.path.exists(p):
        for k, v in json.load(open(p)).items():
            checks[k] = tuple(v)
load_extra()

hooks_commits = []
try:
    out = subprocess.check_output(["git", "-C", "/repo", "log", "--format=%H %s"], text=True)
    for l in out.splitlines():
        h, s = l.split(" ", 1)
        if s.startswith("verif hook"):
            hooks_commits.append(h)
except Exception:
    pass

props = [json.loads(l) for l in open(os.path.join(V, "properties.jsonl"))]
na_reasons = {}
p = os.path.join(V, "bin", "not_applicable.json")
if os.path.exists(p):
    na_reasons = json.load(open(p))

m = {
 "version": 1,
 "setup_cmd": "bin/setup.sh",
 "hooks": {
  "guard": "verif",
  "enable": "go build -tags verif (add-only files band/verif_export.go, verif_export.go, backend/joinserver/verif_export.go); the schedule explorer additionally builds with go build -overlay (generated in a temp dir from /repo's current tree, nothing committed)",
  "baseline_off_cmd": "cd /repo && GOFLAGS=-mod=mod go test -json -vet=off -count=1 -timeout 25m ./...",
  "source_commits": hooks_commits,
  "add_only": True,
 },
 "engines": [
  {"name": "enum", "path": "mc/engine/engine.go", "kind_free_text": E1, "serves_properties": sorted(k for k, v in checks.items() if v[1] == "enum")},
  {"name": "xstate", "path": "mc/engine/xstate.go", "kind_free_text": E2, "serves_properties": sorted(k for k, v in checks.items() if v[1] == "xstate")},
  {"name": "sched", "path": "mc/engine/sched", "kind_free_text": E3, "serves_properties": sorted(k for k, v in checks.items() if v[1] == "sched")},
 ],
 "checks": [],
 "not_applicable": [],
 "notes": "Every check rebuilds mc/cmd/check against /repo's working tree (replace directive) with -tags verif. Exit 0 held, 1 VIOLATION, 2 harness error/vacuity guard. known_findings.json lists recorded defects.",
}
for pr in props:
    i = pr["id"]
    if i in checks:
        lvl, eng, tech, text, note = checks[i]
        m["checks"].append({
            "property_id": i,
            "quick_cmd": "bin/check.sh %s quick" % i,
            "thorough_cmd": "bin/check.sh %s thorough" % i,
            "evidence_file": "evidence/%s.json" % i,
            "replay_cmd_template": "bin/check.sh %s quick -replay {path}" % i,
            "engine": eng,
            "level_claimed": {"category": lvl, "text": text, "design_ref": "DESIGN.md section 5, " + i},
            "level_note": note,
            "technique": tech,
        })
    else:
        m["not_applicable"].append({"property_id": i, "reason": na_reasons.get(i, "check not built yet in this round (in progress; see DESIGN.md section 9 build order) - not a claim that the technique cannot apply")})
json.dump(m, open(os.path.join(V, "MANIFEST.json"), "w"), indent=1)
print("checks:", [c["property_id"] for c in m["checks"]])

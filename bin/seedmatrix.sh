#!/bin/sh
# development helper: run every seeded change against the check(s) named in its meta (default: its own property) and write seeded/RESULTS.tsv
cd /verif
: > seeded/RESULTS.tsv
for d in $(ls seeded | grep -E '^C[0-9]+-[a-z][0-9]?$'); do
  props=$(echo $d | cut -d- -f1)
  [ "$d" = "C04-b" ] && props="C04 C10"
  cd /repo && git apply /verif/seeded/$d/patch.diff || { echo "$d	APPLY-FAILED" >> /verif/seeded/RESULTS.tsv; cd /verif; continue; }
  base=$(/verif/bin/baseline.sh | head -1)
  for P in $props; do
    out=$(cd /verif && bin/check.sh $P quick 2>&1)
    rc=$?
    keys=$(echo "$out" | grep -E '^VIOLATION' | sed -E 's/.* key=([^ ]+) cases.*/\1/' | head -4 | tr '\n' ' ')
    n=$(echo "$out" | grep -cE '^VIOLATION')
    printf "%s\t%s\trc=%s\t%s classes\t%s\t%s\n" "$d" "$P" "$rc" "$n" "$base" "$keys" >> /verif/seeded/RESULTS.tsv
  done
  cd /repo && git checkout -- . ; cd /verif
done
cat seeded/RESULTS.tsv | cut -c1-220

#!/bin/sh
# development helper: seedtest.sh <seeded-dir> [property ...]
# applies seeded/<dir>/patch.diff to /repo, confirms the 235-test baseline still passes,
# runs the quick check of the given properties (default: the one in meta.json / dir name), reverts.
D=/verif/seeded/$1; shift
[ -f "$D/patch.diff" ] || { echo "no $D/patch.diff"; exit 2; }
PROPS="$*"
[ -n "$PROPS" ] || PROPS=$(basename "$D" | cut -d- -f1)
cd /repo || exit 2
[ -z "$(git status --porcelain)" ] || { echo "/repo not clean"; exit 2; }
git apply "$D/patch.diff" || { echo "PATCH DOES NOT APPLY"; exit 3; }
echo "== $(basename $D): $(git diff --stat | tail -1)"
/verif/bin/baseline.sh | head -1
for P in $PROPS; do
  out=$(cd /verif && bin/check.sh $P quick 2>&1)
  echo "$out" | grep -E "^(VIOLATION|OK|HARNESS)" | cut -c1-260 | head -${SEED_LINES:-3}
  echo "   -> $P: $(echo "$out" | grep -cE '^VIOLATION') violation classes"
done
git checkout -- . ; git status --porcelain | head -3

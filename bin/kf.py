#!/usr/bin/env python3
"""kf.py fixed|open <property> <key> <commit-or-> <what...> : maintain known_findings.json (development-time only)."""
import json,sys
p='/verif/known_findings.json'
d=json.load(open(p))
status,prop,key,commit=sys.argv[1:5]
what=' '.join(sys.argv[5:])
e={"property":prop,"key":key,"what":what,"status":status}
if status=="fixed":
    e["commit"]=commit
    e["record"]="fixed: property=%s %s %s"%(prop,commit,what)
else:
    e["record"]="KNOWN-FINDING: property=%s %s"%(prop,what)
d["findings"]=[x for x in d["findings"] if not (x["property"]==prop and x["key"]==key)]+[e]
json.dump(d,open(p,'w'),indent=1)

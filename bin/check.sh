#!/bin/sh
# usage: bin/check.sh <property> [quick|thorough] [-replay file]
# Rebuilds the checker against /repo's current working tree (build tag verif)
# and runs the property's check. Exit 0 held / 1 violation / 2 harness error.
set -u
VERIF=${VERIF_ROOT:-/verif}
export GOFLAGS=-mod=mod GOPROXY=off GOSUMDB=off GOTOOLCHAIN=local
export GOCACHE=${GOCACHE:-$VERIF/.cache/go-build}
PROP=$1; shift
TIER=${1:-${VERIF_TIER:-quick}}
[ $# -gt 0 ] && shift
mkdir -p "$VERIF/.bin" "$VERIF/evidence" "$VERIF/replays"
# the tree under test: /repo's working tree (VERIF_REPO only for background runs on a snapshot)
REPO=${VERIF_REPO:-/repo}
cd "$VERIF/mc" || exit 2
MODFILE="$VERIF/.bin/go.$$.mod"
sed "s#=> /repo#=> $REPO#" go.mod > "$MODFILE"
cp "$REPO/go.sum" "$VERIF/.bin/go.$$.sum" 2>/dev/null
BIN="$VERIF/.bin/check.$$"
OV="$VERIF/.bin/ov.$$"
cleanup() { rm -rf "$BIN" "$BIN.sched" "$BIN.race" "$OV" "$MODFILE" "$VERIF/.bin/go.$$.sum" "$VERIF/.bin/build.$$.log"; }
# The overlay (generated from /repo's current tree, nothing written to it) replaces
# the library's "sync" import by the verifsync shim and inserts access probes. The
# schedule explorer needs it; the other engines are built with it as well because
# the shim's sync.Pool is the adversarial pool (memory is garbage while the pool
# owns it), which makes use-after-Put deterministic in a single goroutine.
rm -rf "$OV"; mkdir -p "$OV"
OVERLAY=""
if go run -modfile="$MODFILE" ./cmd/overlaygen -recv band,backend/joinserver -repo "$REPO" -rt "$VERIF/mc/schedrt" -out "$OV" . band backend/joinserver backend applayer/clocksync applayer/multicastsetup applayer/fragmentation applayer/firmwaremanagement airtime gps > "$OV/gen.log" 2>&1; then
  OVERLAY="$OV/overlay.json"
fi
built=0
RACEFLAG=""
[ -n "${VERIF_RACE:-}" ] && RACEFLAG="-race"   # development only: the checker itself under the Go race detector
if [ -n "$OVERLAY" ] && go build $RACEFLAG -modfile="$MODFILE" -tags verif -overlay "$OVERLAY" -o "$BIN" ./cmd/check 2>"$VERIF/.bin/build.$$.log"; then
  built=1; export VERIF_OVERLAY=1
elif go build -modfile="$MODFILE" -tags verif -o "$BIN" ./cmd/check 2>"$VERIF/.bin/build.$$.log"; then
  # the tree builds but not under the overlay (a construct the shim does not cover):
  # the enumerating engines still run, without the adversarial pool
  built=1; export VERIF_OVERLAY=0; OVERLAY=""
  echo "note: overlay build failed, running without the sync shim:"; tail -3 "$OV/gen.log" 2>/dev/null
fi
if [ $built = 0 ]; then
  cat "$VERIF/.bin/build.$$.log"
  echo "HARNESS-ERROR property=$PROP build of the checker against /repo failed"
  cleanup
  exit 2
fi
# properties with a schedules quantifier: build the schedule explorer with the
# overlay and run it first; its summary is merged into the property's evidence
# by the main check
SUMMARY=""
case "$PROP" in
C07|C09|C10|C12|C13|C14|C15|C16|C18|C20)
  case " $* " in *" -replay "*) ;; *)
  SCHED_OK=1
  if [ -z "$OVERLAY" ] || ! go build -modfile="$MODFILE" -tags "verif sched" -overlay "$OVERLAY" -o "$BIN.sched" ./cmd/schedcheck > "$OV/build.log" 2>&1; then
    SCHED_OK=0
    tail -5 "$OV/gen.log" "$OV/build.log" 2>/dev/null
    case "$PROP" in
    C10|C16)
      echo "HARNESS-ERROR property=$PROP build of the schedule explorer (overlay) failed"
      cleanup
      exit 2 ;;
    *)
      # the schedule scenarios of this property are an addition to its enumerating parts
      echo "note: schedule scenarios of $PROP not run (overlay build failed); the enumerating parts decide"
      export VERIF_SCHED_OPTIONAL=1 ;;
    esac
  fi
  if [ $SCHED_OK = 1 ]; then
  "$BIN.sched" -property "$PROP" -tier "$TIER" -out "$OV/summary.json" -overlay-report "$OV/report.json"
  SUMMARY="$OV/summary.json"
  # thorough tier: auxiliary free-running pass of the same harness bodies under the
  # Go race detector (the cooperative scheduler's hand-offs blind it, so this is a
  # separate run; the deciding race oracle remains the vector-clock check)
  if [ "$TIER" = thorough ]; then
    if go build -race -modfile="$MODFILE" -tags "verif sched" -overlay "$OVERLAY" -o "$BIN.race" ./cmd/schedcheck > "$OV/racebuild.log" 2>&1; then
      GORACE="halt_on_error=1 exitcode=66" "$BIN.race" -property "$PROP" -freerun 400 > "$OV/race.log" 2>&1
      export VERIF_AUX_RACE_RC=$? VERIF_AUX_RACE_LOG="$OV/race.log"
      tail -1 "$OV/race.log"
    else
      export VERIF_AUX_RACE_RC=build-failed VERIF_AUX_RACE_LOG="$OV/racebuild.log"
    fi
    rm -f "$BIN.race"
  fi
  fi
  ;; esac
  ;;
esac
cd "$VERIF" || exit 2
RUNLOG="$VERIF/.bin/run.$$.log"
{ VERIF_SCHED_SUMMARY="$SUMMARY" "$BIN" -property "$PROP" -tier "$TIER" "$@" 2>&1; echo $? > "$RUNLOG.rc"; } | tee "$RUNLOG"
rc=$(cat "$RUNLOG.rc")
# the enumerating parts call the library from all worker goroutines at once, each on values of its
# own; a tree in which such calls share unsynchronised state can end the process with a Go runtime
# fatal error (not recoverable in-process) before any oracle has spoken: the property's oracles are
# then run again on a single worker (that the calls are not independent is a violation of C09 / C10 in its own right and reported as such there)
if [ "$rc" != 0 ] && [ "$rc" != 1 ] && grep -q '^fatal error: concurrent map' "$RUNLOG"; then
  echo "note: the library ended the process with a Go runtime fatal error under concurrent calls on separate values ($(grep -m1 '^fatal error' "$RUNLOG")); running the property's oracles again on one worker"
  VERIF_FATAL_LOG="$RUNLOG" VERIF_WORKERS=1 VERIF_SCHED_SUMMARY="$SUMMARY" "$BIN" -property "$PROP" -tier "$TIER" "$@"
  rc=$?
fi
rm -f "$RUNLOG" "$RUNLOG.rc"
cleanup
exit $rc

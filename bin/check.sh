#!/bin/sh
# usage: bin/check.sh <property> [quick|thorough] [-replay file]
# Rebuilds the checker against /repo's current working tree (build tag verif)
# and runs the property's check. Exit 0 held / 1 violation / 2 harness error.
set -u
VERIF=${VERIF_ROOT:-/verif}
export GOFLAGS=-mod=mod GOPROXY=off GOSUMDB=off GOTOOLCHAIN=local
export GOCACHE=${GOCACHE:-$VERIF/.cache/go-build}
PROP=$1; shift
TIER=${1:-${VERIF_TIER:-quick}}
[ $# -gt 0 ] && shift
mkdir -p "$VERIF/.bin" "$VERIF/evidence" "$VERIF/replays"
cd "$VERIF/mc" || exit 2
cp /repo/go.sum go.sum 2>/dev/null
BIN="$VERIF/.bin/check.$$"
if ! go build -tags verif -o "$BIN" ./cmd/check 2>"$VERIF/.bin/build.$$.log"; then
  cat "$VERIF/.bin/build.$$.log"
  echo "HARNESS-ERROR property=$PROP build of the checker against /repo failed"
  rm -f "$BIN" "$VERIF/.bin/build.$$.log"
  exit 2
fi
rm -f "$VERIF/.bin/build.$$.log"
cd "$VERIF" || exit 2
"$BIN" -property "$PROP" -tier "$TIER" "$@"
rc=$?
rm -f "$BIN"
exit $rc

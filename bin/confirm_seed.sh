#!/bin/sh
# development helper: confirm a seeded change in a scratch worktree:
# demo fails with the patch, passes without. usage: confirm_seed.sh <seeded-dir> [extra go test flags]
D=/verif/seeded/$1; shift
W=/tmp/confirm-seed.$$
export GOFLAGS=-mod=mod GOPROXY=off GOSUMDB=off GOTOOLCHAIN=local
git -C /repo worktree add -q --detach $W HEAD || exit 2
mkdir -p $W/seed/x && cp $D/demo_test.go $W/seed/x/
cd $W
git apply $D/patch.diff || { echo "$(basename $D): PATCH DOES NOT APPLY"; cd /; git -C /repo worktree remove --force $W; exit 3; }
go build ./... || echo "BUILD FAILS"
with=$(go test -vet=off -count=1 "$@" -run TestSeedDemo ./seed/x 2>&1 | tail -1)
git apply -R $D/patch.diff
without=$(go test -vet=off -count=1 "$@" -run TestSeedDemo ./seed/x 2>&1 | tail -1)
echo "$(basename $D): with patch: $with | without: $without"
cd /; git -C /repo worktree remove --force $W

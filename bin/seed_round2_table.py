#!/usr/bin/env python3
"""development helper: writes meta.json for the second-round seeds and regenerates seeded/INDEX.md from all meta.json + RESULTS.tsv"""
import json, os, re
V = "/verif/seeded"
R2 = {
 "C01-c": ("PHYPayload.UnmarshalBinary decodes into the MACPayload object the receiver already holds instead of a fresh one", "two frames of the same kind decoded into one PHYPayload variable while a by-value copy of the first result is kept (history + aliasing)"),
 "C01-d": ("PHYPayload.MarshalText assembles the bytes in a pooled bytes.Buffer that is reset only on the success path", "a MarshalText the encoder refuses (one stale MHDR byte stays in the buffer) followed by a valid one (history through a pool)"),
 "C02-c": ("B0/B1 blocks come from a sync.Pool; the uplink path never clears the ConfFCnt bytes the downlink path wrote", "a 1.1 downlink MIC with ACK and ConfFCnt != 0 followed by any uplink MIC (history through a pool)"),
 "C02-d": ("per-key cache of AES-CMAC instances handed out without ownership", "1.1 uplink with FNwkSIntKey == SNwkSIntKey (deterministic), or two goroutines using one key (interleaving)"),
 "C03-c": ("DecryptFOpts returns nil early when the hidden FCtrl.fOptsLen is 0", "EncryptFOpts then DecryptFOpts on the same in-memory frame (never decoded from bytes)"),
 "C03-d": ("single-entry cache of the AES key schedule; the cached block is read after the read lock is released", "two goroutines encrypting with different keys (interleaving)"),
 "C04-c": ("DataPayload.UnmarshalBinary appends into the old buffer (capacity rounding leaves room for the MIC) and DecryptJoinAcceptPayload runs in place on append(bytes, MIC...)", "one received join-accept decrypted twice through value copies, e.g. wrong key then right key"),
 "C04-d": ("join MIC input assembled in a pooled buffer that is reset only on the success path", "a join-accept / rejoin MIC call that fails after the prefix was written, followed by a valid one"),
 "C05-c": ("PHYPayload.EncryptFRMPayload stores the ciphertext into the caller's *DataPayload instead of a fresh one", "one payload object referenced by two frames (retransmission, multicast)"),
 "C05-d": ("pooled B0/B1 MIC blocks with an incomplete reset (same family as C02-c, different code)", "1.1 downlink MIC with ACK + ConfFCnt, then any uplink MIC"),
 "C06-c": ("FHDR.MarshalBinary refreshes FCtrl.fOptsLen only when FOpts are present", "an FCtrl decoded from a frame with FOpts, then used in a header without FOpts"),
 "C06-d": ("decodeDataPayloadToMACCommands memoises the registry lookup per CID including the payload instance", "two commands with the same payload-carrying CID and different bytes in one FOpts / FRMPayload block"),
 "C07-c": ("same memoisation as C06-d, written independently", "a stream that repeats a payload-carrying CID with different field values"),
 "C07-d": ("MACCommand.MarshalBinary rejects a proprietary payload whose length differs from the first registration it finds (uplink before downlink)", "one CID registered in both directions with different sizes, then a downlink command encoded"),
 "C08-c": ("decoded FPort points into a package-level table fPortValues[256]", "an earlier decoded frame's *FPort edited in place; every later frame with that port decodes to the edited value"),
 "C08-d": ("PHYPayload.UnmarshalBinary reuses the receiver's *MACPayload for data frames", "decode A, keep a value copy, decode B into the same variable: the copy of A encodes B's payload"),
 "C09-c": ("decodeDataPayloadToMACCommands holds macPayloadMutex.RLock for the whole loop while GetMACPayloadAndSize takes it again", "RegisterProprietaryMACCommand arriving between the outer and an inner RLock: decode and registration block forever (interleaving)"),
 "C09-d": ("PHYPayload/MACPayload decoders reuse the receiver's MACPayload and FRMPayload buffer (append(buf[:0], data...))", "a relayed frame decoded from the receiver's own FRMPayload bytes into the same receiver: the decoder overwrites its input"),
 "C10-c": ("EncryptFRMPayload's padded working copy comes from a sync.Pool and the result is a sub-slice of it", "an unaligned call whose result is kept, then a second unaligned call"),
 "C10-d": ("EU868 default downlink channels use one package-level table with spare capacity", "two EU868 objects, AddChannel on each: the second append lands in the first object's channel 3"),
 "C11-c": ("single-entry cache of the NetID prefix keyed by (NwkID width, NwkID bits) without the type", "a type-0 NetID followed by a type-1 NetID with the same low 6 bits (or the reverse)"),
 "C11-d": ("hex text produced in a pooled buffer; MarshalText returns the buffer after Put", "the text of one identifier kept while another identifier is marshalled"),
 "C12-c": ("AddChannel widens the DR range of an existing downlink channel instead of appending when the frequency is already known", "a band with extra channels plus AddChannel of a frequency already in the plan: uplink and downlink indices get out of step"),
 "C12-d": ("RX1 frequency lookup of the fixed-plan bands remembers the last lookup; the key is stored before the lookup succeeds", "valid frequency, unknown frequency (rejected), the same unknown frequency again (accepted)"),
 "C13-c": ("GetMaxPayloadSizeForDataRateIndex memoises the resolved version and revision tables; the revision memo is not invalidated with the version memo", "two lookups on one object with the same revision and different protocol versions"),
 "C13-d": ("AS923 default channels built through a package-level template whose backing array is shared", "an AS923 object, then an object of another AS923 group, then the first object's channels are read"),
 "C14-c": ("GetEnabledUplinkChannelIndices memoised in the band; reset by Enable/Disable but not by AddChannel", "a getter or planner call, AddChannel, then a plan for a device that has the new channels"),
 "C14-d": ("the planner's channel diff is appended into a per-band scratch slice", "two goroutines planning on one shared band for devices that differ in different 16-channel blocks (interleaving)"),
 "C15-c": ("channel index bound checks folded into a helper that tests cap() instead of len()", "after an AddChannel (append grew the backing array) an index in [len, cap) panics in four accessors"),
 "C15-d": ("CFListChannelMaskPayload decoder rewritten with a counter of empty masks that is never reset", "an all-disabled 16-channel block followed by two or more non-empty blocks"),
 "C16-c": ("handleJoinReq decodes the JSON into a pooled struct that is not reset", "a join-request with CFList followed by one without: the second join-accept carries the first CFList"),
 "C16-d": ("context.wipe() zeroes the KEK slices returned by GetKEKByLabelFunc after every request", "a non-zero KEK handed out by reference and at least two requests using its label"),
 "C17-c": ("NewKeyEnvelope caches the AES cipher per label and compares the KEK through the caller's own slice", "the caller overwrites its KEK buffer in place (rotation) and wraps again under the same label"),
 "C17-d": ("HEXBytes.MarshalText hex-encodes into a pooled buffer and returns it after Put", "any use of the text after another marshal (concurrently: between Put and json's copy)"),
 "C18-c": ("multicastsetup Commands.MarshalBinary assembles in a pooled bytes.Buffer and returns its bytes", "a second MarshalBinary while the first result is still held"),
 "C18-d": ("firmwaremanagement countdown decoding through getUint24(data) with the whole remaining input", "a DevRebootCountdown command followed by a command with a non-zero CID"),
 "C19-c": ("Encode places the parity rows in the caller's spare capacity without zeroing them", "data with cap-len >= redundancy*fragmentSize: stale bytes are XORed into the parity, memory behind len(data) is written"),
 "C19-d": ("matrixLine returns a pooled []int after Put", "concurrent Encode calls; with an adversarial pool already a single call"),
 "C20-c": ("leap-second offset cached per UTC day", "two calls on the same leap-second day, one before and one after 23:59:59"),
 "C20-d": ("symbol-number memo keyed with a 2-bit coding-rate field; CR 4/8 overlaps the header flag", "CR 4/8 with both header settings for the same payload/SF/LDRO in one process"),
}
R3 = {
 "C01-e": ("CFListChannelPayload.MarshalBinary refuses the frequency code 2^24-1 (>= instead of >)", "a join-accept with a type-0 CFList holding 1677721500 Hz"),
 "C01-f": ("RegisterProprietaryMACCommand's payload factory returns one shared object (variable captured by the closure)", "a registered proprietary CID with size > 0 decoded twice with different bytes (one frame or two)"),
 "C02-e": ("downlink MIC: ConfFCnt no longer zeroed for LoRaWAN 1.0", "1.0 downlink with ACK set and ConfFCnt mod 2^16 != 0"),
 "C02-f": ("ValidateUplinkDataMIC falls back to the 2-byte MICF comparison when SNwkSIntKey is all-zero", "1.1 uplink validated with an all-zero SNwkSIntKey"),
 "C03-e": ("PHYPayload.EncryptFOpts selects the AFCntDown block only for UnconfirmedDataDown", "ConfirmedDataDown with FPort > 0 and non-empty FOpts (method path)"),
 "C03-f": ("EncryptFRMPayload / DecryptFRMPayload test len(data)==0 before the marshal error and return nil", "an FRMPayload that cannot be serialised (MAC command with FPort absent / != 0, out-of-range command)"),
 "C04-e": ("RejoinRequestType1Payload decoder drops the high byte of RJCount1 (shift before widening)", "rejoin type 1 with RJCount1 >= 256, decoded from bytes, then MIC validated"),
 "C04-f": ("ValidateDownlinkJoinMIC retries with the 1.0-form MIC for join-request type frames", "an OptNeg join-accept carrying the MIC of the 1.0 form"),
 "C05-e": ("same edit as C02-e, written independently", "1.0 downlink with ACK and non-zero ConfFCnt"),
 "C05-f": ("same mechanism as C01-f, written independently", "registered proprietary command decoded twice"),
 "C06-e": ("DeviceTimeAns fraction rounded to nearest without carry (uint8 wrap)", "a duration whose remainder is >= 255.5/256 s: encoded almost a second early"),
 "C06-f": ("RXParamSetupReq decoder pads with append(data, 0) into the caller's buffer", "RXParamSetupReq followed by another command in one FOpts / FRMPayload block"),
 "C07-e": ("NewChannelReq 2.4 GHz raster check done on the halved value", "Freq >= 2.4 GHz with Freq mod 200 == 1: silently encoded as Freq-1"),
 "C07-f": ("pre-sized proprietary payload prototype copied shallowly: one backing array per registration", "two proprietary commands with one CID and different bytes"),
 "C08-e": ("RejoinRequestType1Payload encoder loses the high byte of RJCount1 (missing >> 8)", "accepted 24-byte rejoin type 1 frame with counter high byte != 0"),
 "C08-f": ("rejoin payload layout chosen by frame length instead of the type byte", "19-byte frame with type byte 1, or 24-byte frame with type byte 0/2: accepted but not re-encodable"),
 "C09-e": ("EncryptFRMPayload block counter is a uint8 loop variable", "an FRMPayload of 4065 bytes or more: index panic"),
 "C09-f": ("CFListChannelPayload decoder reads 4 bytes per channel (one past the end for the last one)", "direct decode from a slice whose capacity equals its length"),
 "C10-e": ("CFListChannelMaskPayload decoder resets with [:0] instead of nil", "a used value decoded from an all-zero mask list; kept copies share the backing array"),
 "C10-f": ("same mechanism as C01-f, written independently", "registered proprietary command decoded twice / concurrently"),
 "C11-e": ("AES128Key.Scan treats a 32-byte []byte of hex digits as text", "Scan of exactly 32 ASCII hex digit bytes"),
 "C11-f": ("EUI64.UnmarshalText pre-checks hex.DecodedLen and parses with ParseUint", "17 hex digits with a leading zero"),
 "C12-e": ("IN865 RX1 table row DR7 shifted down below the RFU hole", "IN865, uplink DR7, offsets 2..5"),
 "C12-f": ("RX1 offset validated and used as uint8", "offsets <= -251 or >= 256 whose low byte is a valid offset"),
 "C13-e": ("IN865 RX1 table cell [4][7] = 6 (undefined data-rate)", "IN865, DR4, offset 7"),
 "C13-f": ("GetEnabledUplinkDataRates returns the span min..max instead of the union of channel ranges", "after AddChannel(f, 7, 7): DR6 handed out although no channel supports it / it is undefined"),
 "C14-e": ("planner tests custom-channel activity with ec%16 instead of ec", "a dynamic band grown past 16 channels, block >= 1"),
 "C14-f": ("AU915 ChMaskCntl=7 plan skips blocks the base planner found in sync", "an identical non-empty 125 kHz block on both sides plus a differing 500 kHz block"),
 "C15-e": ("same edit as C07-e, written independently", "ISM2400 frequency with remainder 1 modulo 200 through NewChannelReq"),
 "C15-f": ("GetUplinkChannelIndex stops at the first frequency match of the other kind (default / custom)", "AddChannel of a frequency equal to a default channel's, then lookup of the custom one"),
 "C16-e": ("CFListChannelMaskPayload.MarshalBinary refuses six masks (>= 6)", "a mask CFList with a non-zero sixth mask (CN470) in a join-request to the join-server"),
 "C16-f": ("CFList presence tested with != nil instead of len != 0", "a request that spells the absent CFList as \"CFList\":\"\""),
 "C17-e": ("NewKeyEnvelope wraps whenever a KEK is given, also without label", "empty label with a non-empty KEK"),
 "C17-f": ("HEXBytes.UnmarshalText returns early on empty text without resetting the receiver", "an empty hex string decoded into a receiver that already holds bytes"),
 "C18-e": ("McGroupStatusAns encoder refuses four items (>= 4)", "all four AnsGroupMask bits set with four items"),
 "C18-f": ("DataFragmentPayload.Size uses cap() instead of len()", "a payload that is a window into a larger buffer"),
 "C19-e": ("matrixLine starts its PRBS register at 1<<8 instead of 1<<16", "more than 256 fragments"),
 "C19-f": ("Encode skips rows a buggy isZero (XOR fold of 8-byte words) takes for zero", "rows whose 8-byte words cancel (0xFF fill, repeated 8-byte records) with fragment sizes that are multiples of 16"),
 "C20-e": ("TimeSinceGPSEpoch fast path on Year() in the value's own Location", "an instant in the last hours of 2016 UTC held in a zone east of UTC"),
 "C20-f": ("GPS->UTC uses a lazily built package-level table without synchronisation", "the first conversions of a process running concurrently"),
}
R2.update(R3)
R4 = {
 "C01-g": ("isUplink() rewritten as a list of downlink MTypes that omits ConfirmedDataDown", "ConfirmedDataDown frame whose FOpts / port-0 payload are decoded as MAC commands (parsed with the uplink table)"),
 "C01-h": ("PHYPayload.UnmarshalText also accepts hex and tries it first", "a frame whose base64 text consists of hex digits only (short proprietary frames)"),
 "C02-g": ("uplink B0/B1 built by a helper that writes fCnt>>16 into both upper counter bytes", "uplink with FCnt bits 24..31 != bits 16..23"),
 "C02-h": ("MType/direction validation added to both data-MIC functions; the downlink list names ConfirmedDataUp", "every ConfirmedDataDown frame: Set errors, Validate refuses the specification's MIC"),
 "C03-g": ("function-level EncryptFOpts writes only 16 bits of FCnt into the A block", "FOpts encryption with FCnt >= 65536"),
 "C03-h": ("EncryptFRMPayload pre-generates 242/16 = 15 key-stream blocks and XORs the shorter length", "payload lengths 241..255: bytes from index 240 come back zero"),
 "C04-g": ("EncryptJoinAcceptPayload switched to a CBC decrypter with zero IV", "every 28-byte (CFList) join-accept: second ciphertext block differs from ECB"),
 "C04-h": ("EncryptJoinAcceptPayload refuses an all-zero MIC as 'not set'", "a join-accept whose MIC is 00000000"),
 "C05-g": ("downlink B0 built by a shared helper called with ConfFCnt 0", "1.1 downlink with ACK and non-zero ConfFCnt"),
 "C05-h": ("FHDR decoder clears ADRACKReq (bit 6) on downlinks as RFU", "a downlink whose FCtrl bit 6 is flipped in transit still validates"),
 "C06-g": ("DLChannelReq decoder takes over the 2.4 GHz 200 Hz stepping of NewChannelReq, the encoder does not", "DLChannelReq frequency codes >= 12000000"),
 "C06-h": ("JoinAcceptPayload decoder zeroes the CFList type octet when OptNeg is clear ('1.0.x')", "28-byte join-accept with OptNeg=0 and CFListType=1"),
 "C07-g": ("DutyCycleReq decoder masks MaxDCycle to 4 bits; the encoder still accepts 255", "MaxDCycle = 255"),
 "C07-h": ("BeaconTimingReq/Ans (CID 0x12) added; the 3-byte answer registered in the uplink table", "an uplink stream containing CID 0x12 followed by other commands"),
 "C08-g": ("JoinRequestPayload decoder accepts more than 18 bytes", "JoinRequest frames longer than 23 bytes: accepted, re-encoding drops the surplus"),
 "C08-h": ("MACPayload decoder normalises FPort=0 without payload to FPort absent", "13-byte data frames ending in FPort 00: re-encoding is a byte shorter"),
 "C09-g": ("EUI64.UnmarshalText decodes with hex.Decode into a fixed [8]byte", "text with 9 or more hex byte pairs: index panic, also through json.Unmarshal"),
 "C09-h": ("PHYPayload.UnmarshalText normalises URL-safe base64 in place", "text containing '-' or '_': the caller's buffer is rewritten"),
 "C10-g": ("EncryptFOpts pads its input with append (no capacity guard) to share a key-stream helper", "input that is a sub-slice with spare capacity: bytes behind it are overwritten"),
 "C10-h": ("package-level map of AES ciphers with an unlocked fast-path read", "two goroutines encrypting with keys not yet cached"),
 "C11-g": ("DevAddr.UnmarshalBinary accepts over-long input (len < 4 guard)", "binary input longer than 4 bytes"),
 "C11-h": ("SetAddrPrefix fast path for NetID types 0/1 uses the raw last NetID byte", "type 0/1 NetIDs whose last byte is >= 64"),
 "C12-g": ("AS923 RX1 floor moved into a constructor field; one of four branches sets 0 instead of 2", "AS923* with repeater=false and dwell-time 400 ms"),
 "C12-h": ("RX1 data-rate clamped to the DR range of the enabled downlink channels", "uplink DR6/DR7 on bands whose default downlink channels cover DR0-5"),
 "C13-g": ("GetDownlinkChannel bound check merged into >= len-1", "the last downlink channel of every band is not handed out"),
 "C13-h": ("AS923/AU915 with dwell time drop the data-rates whose payload is 0 from the data-rate table only", "AS923*, AU915 with dwell-time 400 ms: channel ranges and enabled data-rates refer to undefined DR0/DR1"),
 "C14-g": ("Redundancy.MarshalBinary refuses ChMaskCntl 7 as RFU", "US915/AU915 plans that use ChMaskCntl=7 are not encodable"),
 "C14-h": ("'already in sync' fast path compares uint64 bitmaps of the channel sets", "network and device differing only in channels >= 64"),
 "C15-g": ("NewChannelReq decoder multiplies by 100 before testing for the 2.4 GHz range", "every 2.4 GHz frequency decodes to half its value"),
 "C15-h": ("AddChannel updates an existing channel found by (frequency, minDR) instead of appending", "AddChannel of a standard channel's frequency with minDR inside its range rewrites the standard channel"),
 "C16-g": ("EncryptJoinAcceptPayload decrypts with one block.Decrypt call", "join-accepts with CFList: second block all-zero"),
 "C16-h": ("join-server lower-cases / strips 0x from SenderID and mirrors the normalised value", "a SenderID written in upper-case hex"),
 "C17-g": ("HRStartAnsPayload.NwkSEncKey carries the JSON tag of NwkSKey", "HRStartAns with NwkSKey / NwkSEncKey set: both dropped by encoding/json"),
 "C17-h": ("Percentage.UnmarshalJSON guesses the unit (>= 1 means whole percents)", "Percentage 100 reads back as 1"),
 "C18-g": ("McClassBSessionAns hasError() drops DRError", "McClassBSessionAns whose only status flag is DRError"),
 "C18-h": ("DLFrequency range check >= MaxDLFrequency in both session requests", "DLFrequency 1677721500 Hz (code 0xffffff)"),
 "C19-g": ("matrixLine takes uint16 arguments; 1+1001*n wraps for n >= 66", "redundancy >= 66"),
 "C19-h": ("concurrent fast path for large blocks leaves the redundancy%4 remainder rows zero", "fragments*redundancy*size >= 65536 with redundancy not a multiple of 4"),
 "C20-g": ("UTC->GPS compares whole Unix seconds, GPS->UTC nanoseconds", "instants in the second before a leap second with a sub-second part"),
 "C20-h": ("CalculateLoRaAirtime forces low-data-rate optimisation when the symbol time exceeds 16 ms", "SF11/SF12 at 125 kHz (SF12 at 250 kHz) with LDRO off"),
}
R2.update(R4)
R5 = {
 "C01-i": ("CFListChannelPayload decoder stops at the first zero frequency", "a channel CFList with an unused slot before a used one"),
 "C01-j": ("FHDR decoder builds FCnt with the shift applied before widening", "FCnt mod 2^16 >= 256"),
 "C02-i": ("data MIC input assembled in a fixed 256-byte buffer (block + message)", "messages of 241..255 bytes: tail not authenticated"),
 "C02-j": ("downlink B0 writes ConfFCnt big-endian", "1.1 downlink with ACK and a ConfFCnt whose two bytes differ"),
 "C03-i": ("PHYPayload.EncryptFOpts marshals the commands into a fixed 15-byte buffer with copy", "FOpts of 16 or more bytes: truncated to 15, nil returned"),
 "C03-j": ("exported EncryptFOpts sets the counter-id byte only for downlinks", "every uplink FOpts key-stream"),
 "C04-i": ("DecryptJoinAcceptPayload refuses ciphertexts longer than 28 bytes (MIC included)", "every join-accept with a CFList"),
 "C04-j": ("OptNeg MIC defaults join-request type 0 to JoinRequestType", "1.1 join-accept answering rejoin type 0"),
 "C05-i": ("data-MIC functions drop the type check of MACPayload", "a frame whose MType bits were flipped in transit: validation panics"),
 "C05-j": ("isUplink() list of downlink MTypes omits ConfirmedDataDown (as C01-g)", "ConfirmedDataDown frames"),
 "C06-i": ("Redundancy decoder drops the 3-bit mask of ChMaskCntl", "LinkADRReq with the RFU bit 7 of the Redundancy octet set"),
 "C06-j": ("CFList channel encoder refuses the frequency code 0xFFFFFF (as C01-e)", "1677721500 Hz in a CFList"),
 "C07-i": ("DeviceTimeAns range check on the truncated seconds quotient", "durations in (-1 s, 0): encoded as positive fractions"),
 "C07-j": ("DLChannelReq gets 2.4 GHz stepping without rejecting the 1.2-2.4 GHz gap", "frequencies 1.2-1.68 GHz decode doubled"),
 "C08-i": ("MACPayload decoder keeps the FPort-0-with-FOpts check only in the payload branch", "FOptsLen > 0, FPort 0, empty FRMPayload: accepted, not encodable"),
 "C08-j": ("FCtrl FOptsLen mask written 1<<3-1", "FOptsLen 8..15"),
 "C09-i": ("HEXBytes.UnmarshalText reads text[1] when len(text) > 0", "the text \"0\""),
 "C09-j": ("NetID.UnmarshalBinary reverses the caller's bytes in place", "rejoin type 0/2 frames and join-accept payloads with a non-palindromic NetID"),
 "C10-i": ("DataFragmentPayload decoder checks len(data) against the receiver's stale Size()", "a shorter fragment decoded into a value that held a longer one"),
 "C10-j": ("CFListChannelPayload decoder clears from index n+1", "a reused value decoded from fewer than five channels keeps one stale frequency"),
 "C11-i": ("EUI64.Scan checks the number of bytes copied", "Scan of more than 8 bytes is accepted; shorter inputs clobber the receiver"),
 "C11-j": ("AES128Key.MarshalBinary reverses each 8-byte half in place", "keys whose halves differ"),
 "C12-i": ("AS923 RX1 uplink data-rate bound compared with len(dataRates)", "uplink DR 8 accepted"),
 "C12-j": ("AU915 RX1 channel computed as channel/8", "every 125 kHz channel off the diagonal"),
 "C13-i": ("AS923 RX1 floor applied only with dwell time", "AS923* without dwell time: negative RX1 index without error"),
 "C13-j": ("TX power tables built by a helper; AU915 passes the highest index as the count", "AU915 TX power index 14"),
 "C14-i": ("planner tests !custom before the device-activity test (index before guard)", "a device channel index beyond the network's list: panic"),
 "C14-j": ("diff sorted only when the device list is unsorted", "two-sided differences on a multi-block plan: a block is planned twice"),
 "C15-i": ("CFList channel loop 'full' test uses > instead of >=", "six or more CFList-capable custom channels: GetCFList panics"),
 "C15-j": ("channel-mask CFList sized len/16+1", "CN470: seven masks, not encodable"),
 "C16-i": ("join-server validates RxDelay in 1..15", "RxDelay 0"),
 "C16-j": ("rejoin error answers built with the request's sender/receiver order", "RejoinAns for an unknown device"),
 "C17-i": ("KeyEnvelope.Unwrap checks the length after unwrapping", "24 bytes + 1..7 trailing bytes accepted; AESKey shorter than 8 bytes panics"),
 "C17-j": ("Frequency.UnmarshalJSON snaps to 100 Hz", "frequencies that are not multiples of 100 Hz"),
 "C18-i": ("McClassCSessionAns treats TimeToStart = 0 as absent", "TimeToStart 0"),
 "C18-j": ("FragSessionSetupAns flags decoded bit-reversed", "12 of 16 flag patterns"),
 "C19-i": ("Encode divides by the fragment size before checking it", "fragment size 0: panic"),
 "C19-j": ("word-wise XOR helper starts its byte tail at the block count", "fragment sizes >= 16"),
 "C20-i": ("TimeSinceGPSEpoch returns 0 for instants before the GPS epoch", "1980-01-01 .. 1980-01-05"),
 "C20-j": ("EIRP index rounds the requested power to nearest", "powers with fractional part >= .5 just below a table entry"),
}
R2.update(R5)
R6 = {
 "C01-k": ("MACPayload encoder omits the FPort octet when FPort = 0 and the FRMPayload is empty", "data frame with FPort 0, no payload, no FOpts"),
 "C01-l": ("decoded FPort points into the caller's input buffer", "the input buffer is reused after decoding"),
 "C02-k": ("MIC comparison folds byte differences with XOR instead of OR", "a wrong MIC whose byte differences cancel (same bit flipped in two bytes)"),
 "C02-l": ("uplink B1 block masks TxDr to 4 bits", "1.1 uplink with txDR >= 16"),
 "C03-k": ("PHYPayload.EncryptFRMPayload fast path encrypts only a leading DataPayload and drops the other items", "FRMPayload given as two or more items with a DataPayload first"),
 "C03-l": ("exported EncryptFRMPayload pads in a pooled buffer and returns a slice of it", "two unaligned results alive at once"),
 "C04-k": ("join MIC comparison folds with XOR (as C02-k, in the join validators)", "a forged join MIC with cancelling byte differences"),
 "C04-l": ("join-accept MIC input assembled in a fixed 32-byte buffer with copy", "OptNeg join-accept with CFList (40 bytes of input)"),
 "C05-k": ("MIC direction byte derived from the MType instead of the function called", "a 1.0 frame signed for one direction validates for the other"),
 "C05-l": ("UnmarshalText strips one '=' and decodes unpadded base64", "frames whose length is 1 modulo 3 (text ends in '==')"),
 "C06-k": ("same edit as C01-k, written independently", "FPort 0 without payload"),
 "C06-l": ("CFList channel decoder stops at the first zero entry (as C01-i)", "a zero entry followed by a non-zero one"),
 "C07-k": ("unregistered proprietary CIDs swallow the rest of the stream", "a CID >= 0x80 not registered for the direction followed by more commands"),
 "C07-l": ("BeaconFreqReq encoder refuses frequencies below 100 MHz", "Frequency 0 (use the default)"),
 "C08-k": ("NetID / AES128Key binary decoders reverse the caller's bytes in place (as C09-j)", "rejoin type 0/2 frames with a non-palindromic NetID"),
 "C08-l": ("PHYPayload.MarshalJSON decodes the FOpts into the shared MACPayload", "a received frame with FOpts logged as JSON before it is re-encoded"),
 "C09-k": ("hex text decoders filter separators with string concatenation (quadratic)", "long text: cost grows quadratically"),
 "C09-l": ("DecodeFRMPayloadToMACCommands dereferences a nil FPort", "a data frame without FPort"),
 "C10-k": ("join-accept / proprietary decode aliases the caller's buffer", "the source buffer overwritten after decoding"),
 "C10-l": ("CFList.MarshalBinary pads with append onto the payload's own slice", "a join-accept whose CFList payload is an opaque sub-slice with spare capacity"),
 "C11-k": ("IsNetID range table without an upper bound for type 7", "a DevAddr starting with 0xff against a type-7 NetID"),
 "C11-l": ("NetID.UnmarshalText accepts empty text as a no-op", "empty text (after an optional 0x)"),
 "C12-k": ("CN470 RX1 frequency computed arithmetically with > instead of >=", "CN470 uplink channel 48"),
 "C12-l": ("ping-slot hopping rounds the beacon time to the nearest period", "beacon times 64 s or more into a beacon period (US915, AU915, CN470)"),
 "C13-k": ("fixed-plan channel frequencies computed in float MHz with truncation", "US915 / AU915 downlink channels 3 and 6 are 1 Hz low"),
 "C13-l": ("unknown protocol versions resolve to the closest older table instead of the latest", "numeric version strings without their own table (1.0.4, 1.2.0, 9.9.9)"),
 "C14-k": ("planner returns nothing when the device would be left without channels", "network-enabled channels the device can know = empty while the device has channels"),
 "C14-l": ("channels with frequency 0 dropped from the mask", "AddChannel(0,..) then Enable, device has it, another difference in the block"),
 "C15-k": ("CFList channel decoder stops at the first zero (as C01-i)", "a placeholder channel between custom channels"),
 "C15-l": ("channel index checks collapsed into a uint32 comparison", "indices whose low 32 bits are a valid channel number: panic"),
 "C16-k": ("key derivation chosen by OptNeg and the MACVersion string", "OptNeg = 1 with a MACVersion starting with 1.0"),
 "C16-l": ("identical join-requests in flight are coalesced: the later ones get a copy of the first answer", "two requests with one PHYPayload but their own transaction id / DevAddr overlapping in one handler"),
 "C17-k": ("DLMetaData.MarshalJSON clears DataRate1/2 when DLFreq1/2 is absent", "a data-rate set with the matching frequency unset"),
 "C17-l": ("KeyEnvelope.Unwrap unwraps in place in the shared AESKey bytes", "a second Unwrap of the same envelope"),
 "C18-k": ("McGroupSetupReq refuses MinMcFCnt > MaxMcFCnt", "a Min/Max pair in the wrong order (both fields are in range)"),
 "C18-l": ("clocksync decoders no longer clear their bool flags", "a payload value reused for a command with the flag clear"),
 "C19-k": ("matrixLine draws mod/2 coefficients", "a single-fragment block"),
 "C19-l": ("parity offsets memoised per (n, m) although they depend on the fragment size", "two encodes with equal fragment count and different fragment size"),
 "C20-k": ("symbol number in integer arithmetic with truncating division", "a negative numerator (short payloads with implicit header / SF12)"),
 "C20-l": ("EIRP index through int(eirp) before clamping", "powers >= 2^63"),
}
R2.update(R6)
res = {}
p = os.path.join(V, "RESULTS.tsv")
if os.path.exists(p):
    for line in open(p):
        f = line.rstrip("\n").split("\t")
        if len(f) >= 6:
            res.setdefault(f[0], []).append((f[1], f[2], f[3], f[5].strip()))
def caught(seed):
    out = []
    for prop, rc, n, keys in res.get(seed, []):
        if rc == "rc=1":
            ks = [k for k in keys.split(" ") if k][:3]
            out.append("%s (%s)" % (prop, ", ".join(re.sub(r"\(.*?\)", "(..)", k)[:70] for k in ks)))
    return "; ".join(out) if out else "NOT CAUGHT by its own property's quick check (see RESULTS.tsv)"
for seed, (change, needs) in R2.items():
    d = os.path.join(V, seed)
    if not os.path.isdir(d):
        continue
    meta = {"property": seed.split("-")[0], "change": change, "needs_to_manifest": needs,
            "written_by": ("independent sub-agent (sixth round: asked for kinds of change still missing from the collection) given only the property text, the list of changes collected so far and a scratch worktree of /repo" if seed[-1] in "kl" else "independent sub-agent (fifth round: a validation regression, a unit / representation / order confusion) given only the property text and a scratch worktree of /repo" if seed[-1] in "ij" else "independent sub-agent (fourth round: a sibling inconsistency, a new code path with a flaw) given only the property text and a scratch worktree of /repo" if seed[-1] in "gh" else "independent sub-agent (third round: one small value-level change in a rarely exercised corner, one free choice) given only the property text and a scratch worktree of /repo" if seed[-1] in "ef" else "independent sub-agent (second round: asked for changes that need history, aliasing, interleavings or rare values) given only the property text and a scratch worktree of /repo"),
            "confirmed": {"applies_to": "/repo HEAD at the time of collection", "suite": "bin/baseline.sh with the patch applied: 235/235 stable tests pass",
                          "demo": "bin/confirm_seed.sh %s: demo_test.go fails with the patch and passes without" % seed},
            "caught_by": caught(seed)}
    json.dump(meta, open(os.path.join(d, "meta.json"), "w"), indent=1)
rows = []
for seed in sorted(os.listdir(V)):
    mp = os.path.join(V, seed, "meta.json")
    if not os.path.exists(mp):
        continue
    m = json.load(open(mp))
    cb = m.get("caught_by", "")
    if seed not in R2 and seed in res:
        pass
    rows.append("| %s | %s | %s | %s | %s |" % (seed, m["property"], m["change"], m["needs_to_manifest"], cb))
hdr = open(os.path.join(V, "INDEX.md")).read().split("| seed |")[0]
open(os.path.join(V, "INDEX.md"), "w").write(hdr + "| seed | property | change | needs | caught by |\n|---|---|---|---|---|\n" + "\n".join(rows) + "\n")
print(len(rows), "seeds indexed")

#!/bin/sh
# development helper: like seedtest.sh but in a private scratch worktree (/repo itself is not touched):
# seedtest_wt.sh <seeded-dir> [property ...]
D=/verif/seeded/$1; shift
[ -f "$D/patch.diff" ] || { echo "no $D/patch.diff"; exit 2; }
PROPS="$*"
[ -n "$PROPS" ] || PROPS=$(basename "$D" | cut -d- -f1)
W=/tmp/wt-seedtest.$$
git -C /repo worktree add -q --detach $W HEAD || exit 2
cd $W && git apply "$D/patch.diff" || { echo "PATCH DOES NOT APPLY"; cd /; git -C /repo worktree remove --force $W; rm -rf $W.out; exit 3; }
echo "== $(basename $D): $(git diff --stat | tail -1)"
[ -n "${SKIP_BASELINE:-}" ] || /verif/bin/baseline.sh $W | head -1
for P in $PROPS; do
  out=$(cd /verif && VERIF_OUT=$W.out VERIF_REPO=$W bin/check.sh $P quick 2>&1)
  echo "$out" | grep -E "^(VIOLATION|OK|HARNESS)" | cut -c1-260 | head -${SEED_LINES:-3}
  echo "   -> $P: $(echo "$out" | grep -cE '^VIOLATION') violation classes"
done
cd /; git -C /repo worktree remove --force $W; rm -rf $W.out

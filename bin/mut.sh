#!/bin/sh
# development helper: mut.sh <prop> <file> <python-replace-old> <python-replace-new> : apply a textual mutation to /repo, run the quick check, revert
PROP=$1; FILE=$2; OLD=$3; NEW=$4
cd /repo || exit 2
python3 - "$FILE" "$OLD" "$NEW" <<'PY'
import sys
p,old,new=sys.argv[1:4]
s=open(p).read()
if s.count(old)<1: print("MUTATION PATTERN NOT FOUND"); sys.exit(3)
open(p,'w').write(s.replace(old,new))
PY
[ $? -eq 0 ] || exit 3
git diff --stat | tail -1
if [ "${MUT_BASELINE:-0}" = 1 ]; then /verif/bin/baseline.sh | tail -2; fi
cd /verif && bin/check.sh $PROP quick | grep -E "^(VIOLATION|OK|HARNESS)" | cut -c1-260 | head -${MUT_LINES:-4}
cd /repo && git checkout -- . 

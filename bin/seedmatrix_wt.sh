#!/bin/sh
# development helper: like seedmatrix.sh but in a private scratch worktree and for the seeds
# whose directory name matches the given regex; replaces their lines in seeded/RESULTS.tsv
# usage: seedmatrix_wt.sh '<regex>' [extra property for all]
RE=${1:-.}
cd /verif
W=/tmp/wt-matrix.$$
git -C /repo worktree add -q --detach $W HEAD || exit 2
# the checks are built from a snapshot of /verif taken now, so that the sources can be edited while the matrix runs
SNAP=/tmp/verif-snap.$$
mkdir -p $SNAP
if [ -n "${SNAP_FROM_HEAD:-}" ]; then
  # the committed state (the verdicts a seeding round gets before anything is strengthened)
  git -C /verif archive HEAD -- mc bin known_findings.json properties.jsonl | tar -x -C $SNAP
else
  rsync -a --exclude .cache --exclude .git --exclude seeded --exclude evidence --exclude replays --exclude .bin /verif/ $SNAP/
fi
export GOCACHE=/verif/.cache/go-build
for d in $(ls seeded | grep -E '^C[0-9]+-[a-z][0-9]?$' | grep -E -- "$RE"); do
  props=$(echo $d | cut -d- -f1)
  [ "$d" = "C04-b" ] && props="C04 C10"
  [ "$d" = "C01-v" ] && props="C01 C10"
  (cd $W && git checkout -q -- . && git apply /verif/seeded/$d/patch.diff) || { grep -v "^$d	" seeded/RESULTS.tsv > seeded/RESULTS.tmp; echo "$d	APPLY-FAILED" >> seeded/RESULTS.tmp; mv seeded/RESULTS.tmp seeded/RESULTS.tsv; continue; }
  base=$(/verif/bin/baseline.sh $W | head -1)
  grep -v "^$d	" seeded/RESULTS.tsv > seeded/RESULTS.tmp
  for P in $props; do
    out=$(VERIF_ROOT=$SNAP VERIF_OUT=$W.out VERIF_REPO=$W $SNAP/bin/check.sh $P quick 2>&1)
    rc=$?
    keys=$(echo "$out" | grep -E '^VIOLATION' | sed -E 's/.* key=([^ ]+) cases.*/\1/' | head -4 | tr '\n' ' ')
    n=$(echo "$out" | grep -cE '^VIOLATION')
    printf "%s\t%s\trc=%s\t%s classes\t%s\t%s\n" "$d" "$P" "$rc" "$n" "$base" "$keys" >> seeded/RESULTS.tmp
  done
  sort seeded/RESULTS.tmp > seeded/RESULTS.tsv; rm -f seeded/RESULTS.tmp
done
cd /; git -C /repo worktree remove --force $W; rm -rf $W.out $SNAP

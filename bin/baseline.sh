#!/bin/sh
# Runs the repository's baseline suite (guard off) in the given tree (default
# /repo) and compares with /root/.vp/BASELINE.json's stable_pass list.
DIR=${1:-/repo}
export GOFLAGS=-mod=mod GOPROXY=off GOSUMDB=off GOTOOLCHAIN=local
cd "$DIR" || exit 2
go test -json -vet=off -count=1 -timeout 25m ./... > /tmp/baseline.$$.json 2>/dev/null
python3 - /tmp/baseline.$$.json <<'PY'
import json,sys
passed=set(); failed=set()
for l in open(sys.argv[1]):
    try: e=json.loads(l)
    except Exception: continue
    if e.get("Test") and e.get("Action") in ("pass","fail"):
        (passed if e["Action"]=="pass" else failed).add(e["Package"]+"::"+e["Test"])
base=set(json.load(open("/root/.vp/BASELINE.json"))["stable_pass"])
missing=sorted(base-passed)
print("baseline: %d/%d stable tests pass; failed now: %s" % (len(base&passed), len(base), sorted(failed&base)))
if missing:
    print("MISSING:", missing); sys.exit(1)
PY
rc=$?
rm -f /tmp/baseline.$$.json
exit $rc
